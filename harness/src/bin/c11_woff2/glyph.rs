//! Independent reader (and plain writer) of glyf / loca / hmtx, sharing no code with allsorts.
//! A glyph is projected to the abstract record of specs/Woff2.tla:
//!   kind, ends (end points of contours), pts [x, y, onCurve], instr, bbox [xMin, yMin, xMax, yMax],
//!   comps [{flags, gid, a1, a2, tr}]

use serde_json::{json, Value};
use vh::fontgen::W;

#[derive(Clone, Debug, PartialEq)]
pub enum Kind {
    Empty,
    Simple,
    Composite,
}

#[derive(Clone, Debug, PartialEq)]
pub struct Comp {
    /// flag word as stored (reserved bits included)
    pub flags: u16,
    pub gid: u16,
    pub a1: i32,
    pub a2: i32,
    pub tr: Vec<i16>,
}

#[derive(Clone, Debug, PartialEq)]
pub struct GlyphRec {
    pub kind: Kind,
    pub ends: Vec<u16>,
    pub pts: Vec<(i16, i16, bool)>,
    pub instr: Vec<u8>,
    pub bbox: [i16; 4],
    pub comps: Vec<Comp>,
}

/// Bits 4, 13, 14, 15 of a component flag word are reserved (Dev_MaskCompFlags in the spec).
pub const COMP_FLAG_MASK: u16 = 0x1FEF;

impl GlyphRec {
    pub fn empty() -> GlyphRec {
        GlyphRec { kind: Kind::Empty, ends: vec![], pts: vec![], instr: vec![], bbox: [0; 4], comps: vec![] }
    }

    pub fn x_min(&self) -> i16 {
        if self.kind == Kind::Empty {
            0
        } else {
            self.bbox[0]
        }
    }

    pub fn computed_bbox(&self) -> [i16; 4] {
        if self.pts.is_empty() {
            return [0; 4];
        }
        [
            self.pts.iter().map(|p| p.0).min().unwrap(),
            self.pts.iter().map(|p| p.1).min().unwrap(),
            self.pts.iter().map(|p| p.0).max().unwrap(),
            self.pts.iter().map(|p| p.1).max().unwrap(),
        ]
    }

    pub fn has_instr_flag(&self) -> bool {
        self.comps.iter().any(|c| c.flags & 0x0100 != 0)
    }

    /// Projection to the vocabulary of the specification.
    pub fn to_json(&self) -> Value {
        json!({
            "kind": match self.kind { Kind::Empty => "empty", Kind::Simple => "simple", Kind::Composite => "composite" },
            "ends": self.ends,
            "pts": self.pts.iter().map(|p| json!([p.0, p.1, p.2 as u8])).collect::<Vec<_>>(),
            "instr": self.instr,
            "bbox": self.bbox,
            "comps": self.comps.iter().map(|c| json!({
                "flags": c.flags & COMP_FLAG_MASK, "gid": c.gid, "a1": c.a1, "a2": c.a2, "tr": c.tr
            })).collect::<Vec<_>>(),
        })
    }

    /// Equality in the vocabulary of the property (reserved component flag bits are not compared).
    pub fn same_as(&self, o: &GlyphRec) -> bool {
        self.kind == o.kind
            && self.ends == o.ends
            && self.pts == o.pts
            && self.instr == o.instr
            && self.bbox == o.bbox
            && self.comps.len() == o.comps.len()
            && self.comps.iter().zip(o.comps.iter()).all(|(a, b)| {
                a.flags & COMP_FLAG_MASK == b.flags & COMP_FLAG_MASK && a.gid == b.gid && a.a1 == b.a1 && a.a2 == b.a2 && a.tr == b.tr
            })
    }

    pub fn from_json(v: &Value) -> GlyphRec {
        let ints = |x: &Value| -> Vec<i64> { x.as_array().map(|a| a.iter().map(|e| e.as_i64().unwrap()).collect()).unwrap_or_default() };
        let kind = match v["kind"].as_str().unwrap() {
            "empty" => Kind::Empty,
            "simple" => Kind::Simple,
            _ => Kind::Composite,
        };
        let bb = ints(&v["bbox"]);
        GlyphRec {
            kind,
            ends: ints(&v["ends"]).iter().map(|&e| e as u16).collect(),
            pts: v["pts"].as_array().map(|a| a.iter().map(|p| (p[0].as_i64().unwrap() as i16, p[1].as_i64().unwrap() as i16, p[2].as_i64().unwrap() == 1)).collect()).unwrap_or_default(),
            instr: ints(&v["instr"]).iter().map(|&e| e as u8).collect(),
            bbox: [bb[0] as i16, bb[1] as i16, bb[2] as i16, bb[3] as i16],
            comps: v["comps"].as_array().map(|a| a.iter().map(|c| Comp {
                flags: c["flags"].as_i64().unwrap() as u16,
                gid: c["gid"].as_i64().unwrap() as u16,
                a1: c["a1"].as_i64().unwrap() as i32,
                a2: c["a2"].as_i64().unwrap() as i32,
                tr: ints(&c["tr"]).iter().map(|&e| e as i16).collect(),
            }).collect()).unwrap_or_default(),
        }
    }
}

struct R<'a> {
    d: &'a [u8],
    at: usize,
}

impl<'a> R<'a> {
    fn u8(&mut self) -> Result<u8, String> {
        let v = *self.d.get(self.at).ok_or("eof")?;
        self.at += 1;
        Ok(v)
    }
    fn u16(&mut self) -> Result<u16, String> {
        let b = self.d.get(self.at..self.at + 2).ok_or("eof")?;
        self.at += 2;
        Ok(u16::from_be_bytes([b[0], b[1]]))
    }
    fn i16(&mut self) -> Result<i16, String> {
        Ok(self.u16()? as i16)
    }
    fn bytes(&mut self, n: usize) -> Result<&'a [u8], String> {
        let b = self.d.get(self.at..self.at.checked_add(n).ok_or("eof")?).ok_or("eof")?;
        self.at += n;
        Ok(b)
    }
}

pub fn comp_tr_count(flags: u16) -> usize {
    if flags & 0x0008 != 0 {
        1
    } else if flags & 0x0040 != 0 {
        2
    } else if flags & 0x0080 != 0 {
        4
    } else {
        0
    }
}

/// Parse one glyph record (the bytes between two loca offsets).
pub fn parse_glyph(data: &[u8]) -> Result<GlyphRec, String> {
    if data.is_empty() {
        return Ok(GlyphRec::empty());
    }
    let mut r = R { d: data, at: 0 };
    let nc = r.i16()?;
    if nc == 0 {
        return Ok(GlyphRec::empty());
    }
    let bbox = [r.i16()?, r.i16()?, r.i16()?, r.i16()?];
    if nc > 0 {
        let mut ends = Vec::new();
        for _ in 0..nc {
            ends.push(r.u16()?);
        }
        for w in ends.windows(2) {
            if w[1] <= w[0] {
                return Err("end points not increasing".into());
            }
        }
        let npts = *ends.last().unwrap() as usize + 1;
        let il = r.u16()? as usize;
        let instr = r.bytes(il)?.to_vec();
        let mut flags = Vec::with_capacity(npts);
        while flags.len() < npts {
            let f = r.u8()?;
            flags.push(f);
            if f & 0x08 != 0 {
                let rep = r.u8()?;
                for _ in 0..rep {
                    flags.push(f);
                }
            }
        }
        if flags.len() != npts {
            return Err("flag repeat overruns the point count".into());
        }
        let mut xs = Vec::with_capacity(npts);
        let mut x = 0i32;
        for &f in &flags {
            if f & 0x02 != 0 {
                let d = r.u8()? as i32;
                x += if f & 0x10 != 0 { d } else { -d };
            } else if f & 0x10 == 0 {
                x += r.i16()? as i32;
            }
            xs.push(x);
        }
        let mut pts = Vec::with_capacity(npts);
        let mut y = 0i32;
        for (k, &f) in flags.iter().enumerate() {
            if f & 0x04 != 0 {
                let d = r.u8()? as i32;
                y += if f & 0x20 != 0 { d } else { -d };
            } else if f & 0x20 == 0 {
                y += r.i16()? as i32;
            }
            if xs[k] < -32768 || xs[k] > 32767 || y < -32768 || y > 32767 {
                return Err("coordinate outside int16".into());
            }
            pts.push((xs[k] as i16, y as i16, f & 1 != 0));
        }
        Ok(GlyphRec { kind: Kind::Simple, ends, pts, instr, bbox, comps: vec![] })
    } else {
        let mut comps = Vec::new();
        let mut have_instr = false;
        loop {
            let flags = r.u16()?;
            let gid = r.u16()?;
            let (a1, a2) = match (flags & 1 != 0, flags & 2 != 0) {
                (true, true) => (r.i16()? as i32, r.i16()? as i32),
                (true, false) => (r.u16()? as i32, r.u16()? as i32),
                (false, true) => (r.u8()? as i8 as i32, r.u8()? as i8 as i32),
                (false, false) => (r.u8()? as i32, r.u8()? as i32),
            };
            let mut tr = Vec::new();
            for _ in 0..comp_tr_count(flags) {
                tr.push(r.i16()?);
            }
            have_instr |= flags & 0x0100 != 0;
            comps.push(Comp { flags, gid, a1, a2, tr });
            if flags & 0x0020 == 0 {
                break;
            }
        }
        let instr = if have_instr {
            let il = r.u16()? as usize;
            r.bytes(il)?.to_vec()
        } else {
            vec![]
        };
        Ok(GlyphRec { kind: Kind::Composite, ends: vec![], pts: vec![], instr, bbox, comps })
    }
}

pub fn comp_bytes(c: &Comp) -> Vec<u8> {
    let mut w = W::new();
    w.u16(c.flags).u16(c.gid);
    match (c.flags & 1 != 0, c.flags & 2 != 0) {
        (true, true) => {
            w.i16(c.a1 as i16).i16(c.a2 as i16);
        }
        (true, false) => {
            w.u16(c.a1 as u16).u16(c.a2 as u16);
        }
        (false, true) => {
            w.i8(c.a1 as i8).i8(c.a2 as i8);
        }
        (false, false) => {
            w.u8(c.a1 as u8).u8(c.a2 as u8);
        }
    }
    for t in &c.tr {
        w.i16(*t);
    }
    w.done()
}

/// Write a glyph record the plain way. Simple glyphs go through vh::fontgen::encode_glyph
/// (short vectors where they fit, no repeats); `style` 1 uses repeat flags and words only, so that
/// the reader above and allsorts' null-transform path see both flavours.
pub fn write_glyph(g: &GlyphRec, style: u8) -> Vec<u8> {
    use vh::fontgen::{encode_glyph, GlyphSpec, Pt};
    match g.kind {
        Kind::Empty => vec![],
        Kind::Simple => {
            let mut contours = Vec::new();
            let mut start = 0usize;
            for &e in &g.ends {
                contours.push(g.pts[start..=e as usize].iter().map(|p| Pt { x: p.0, y: p.1, on: p.2 }).collect::<Vec<_>>());
                start = e as usize + 1;
            }
            if style == 0 {
                return encode_glyph(&GlyphSpec::Simple { contours, instructions: g.instr.clone() }, Some((g.bbox[0], g.bbox[1], g.bbox[2], g.bbox[3])));
            }
            // style 1: word deltas, runs of equal flags folded with REPEAT
            let mut w = W::new();
            w.i16(g.ends.len() as i16).i16(g.bbox[0]).i16(g.bbox[1]).i16(g.bbox[2]).i16(g.bbox[3]);
            for &e in &g.ends {
                w.u16(e);
            }
            w.u16(g.instr.len() as u16).bytes(&g.instr);
            let fl: Vec<u8> = g.pts.iter().map(|p| p.2 as u8).collect();
            let mut k = 0;
            while k < fl.len() {
                let mut run = 1;
                while k + run < fl.len() && fl[k + run] == fl[k] && run < 256 {
                    run += 1;
                }
                if run > 1 {
                    w.u8(fl[k] | 0x08).u8((run - 1) as u8);
                } else {
                    w.u8(fl[k]);
                }
                k += run;
            }
            let mut px = 0i16;
            for p in &g.pts {
                w.i16(p.0.wrapping_sub(px));
                px = p.0;
            }
            let mut py = 0i16;
            for p in &g.pts {
                w.i16(p.1.wrapping_sub(py));
                py = p.1;
            }
            w.done()
        }
        Kind::Composite => {
            let mut w = W::new();
            w.i16(-1).i16(g.bbox[0]).i16(g.bbox[1]).i16(g.bbox[2]).i16(g.bbox[3]);
            for c in &g.comps {
                w.bytes(&comp_bytes(c));
            }
            if g.has_instr_flag() {
                w.u16(g.instr.len() as u16).bytes(&g.instr);
            }
            w.done()
        }
    }
}

/// Offset of the first flag byte of a simple glyph record (None for empty / composite / truncated records).
pub fn first_flag_offset(rec: &[u8]) -> Option<usize> {
    if rec.len() < 10 {
        return None;
    }
    let nc = i16::from_be_bytes([rec[0], rec[1]]);
    if nc <= 0 {
        return None;
    }
    let at = 10 + 2 * nc as usize;
    let il = u16::from_be_bytes([*rec.get(at)?, *rec.get(at + 1)?]) as usize;
    let f = at + 2 + il;
    if f < rec.len() {
        Some(f)
    } else {
        None
    }
}

/// Which glyphs carry OVERLAP_SIMPLE (0x40) on their first flag (what a WOFF2 encoder puts into overlapSimpleBitmap).
pub fn overlap_bits(glyf: &[u8], loca: &[u8], long: bool, n: usize) -> Result<Vec<bool>, String> {
    let offs = read_loca(loca, long, n)?;
    Ok((0..n)
        .map(|k| {
            let (a, b) = (offs[k] as usize, offs[k + 1] as usize);
            a < b && b <= glyf.len() && first_flag_offset(&glyf[a..b]).map(|f| glyf[a + f] & 0x40 != 0).unwrap_or(false)
        })
        .collect())
}

/// loca offsets (numGlyphs + 1 of them) or an error.
pub fn read_loca(loca: &[u8], long: bool, n: usize) -> Result<Vec<u32>, String> {
    let sz = if long { 4 } else { 2 };
    if loca.len() < (n + 1) * sz {
        return Err(format!("loca too short: {} bytes for {} glyphs", loca.len(), n));
    }
    let mut out = Vec::with_capacity(n + 1);
    for k in 0..=n {
        let at = k * sz;
        out.push(if long {
            u32::from_be_bytes([loca[at], loca[at + 1], loca[at + 2], loca[at + 3]])
        } else {
            2 * u16::from_be_bytes([loca[at], loca[at + 1]]) as u32
        });
    }
    Ok(out)
}

pub struct GlyfRead {
    pub glyphs: Vec<Result<GlyphRec, String>>,
    pub monotone: bool,
    pub within: bool,
}

pub fn read_glyf(glyf: &[u8], loca: &[u8], long: bool, n: usize) -> Result<GlyfRead, String> {
    let offs = read_loca(loca, long, n)?;
    let monotone = offs.windows(2).all(|w| w[0] <= w[1]);
    let within = offs.iter().all(|&o| o as usize <= glyf.len());
    let mut glyphs = Vec::with_capacity(n);
    for k in 0..n {
        let (a, b) = (offs[k] as usize, offs[k + 1] as usize);
        if a > b || b > glyf.len() {
            glyphs.push(Err("loca range outside glyf".to_string()));
        } else {
            glyphs.push(parse_glyph(&glyf[a..b]));
        }
    }
    Ok(GlyfRead { glyphs, monotone, within })
}

/// (advance, lsb) per glyph from an hmtx table.
pub fn read_hmtx(hmtx: &[u8], n: usize, nhm: usize) -> Result<(Vec<u16>, Vec<i16>), String> {
    if nhm == 0 || nhm > n {
        return Err(format!("numberOfHMetrics {} with {} glyphs", nhm, n));
    }
    if hmtx.len() < 4 * nhm + 2 * (n - nhm) {
        return Err(format!("hmtx too short: {} bytes for {} glyphs, {} long metrics", hmtx.len(), n, nhm));
    }
    let mut adv = Vec::with_capacity(n);
    let mut lsb = Vec::with_capacity(n);
    for g in 0..n {
        if g < nhm {
            adv.push(u16::from_be_bytes([hmtx[4 * g], hmtx[4 * g + 1]]));
            lsb.push(i16::from_be_bytes([hmtx[4 * g + 2], hmtx[4 * g + 3]]));
        } else {
            adv.push(adv[nhm - 1]);
            let at = 4 * nhm + 2 * (g - nhm);
            lsb.push(i16::from_be_bytes([hmtx[at], hmtx[at + 1]]));
        }
    }
    Ok((adv, lsb))
}
