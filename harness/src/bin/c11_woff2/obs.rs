//! Driving allsorts (the only place that calls it) and projecting what it returns.
//! Every call goes through vh::sup::guarded: a panic is data.

use super::glyph::{self, GlyphRec};
use allsorts::binary::read::ReadScope;
use allsorts::tables::FontTableProvider;
use allsorts::woff2::{PackedU16, U32Base128, Woff2Font};
use serde_json::{json, Value};
use std::collections::BTreeMap;
use vh::fontgen::{be16, tag_u32};
use vh::sup::{guarded, panic_key, Outcome};

pub fn read_b128(b: &[u8]) -> Value {
    match guarded(|| {
        let mut c = ReadScope::new(b).ctxt();
        let r = c.read::<U32Base128>();
        (r, b.len() - c.scope().data().len())
    }) {
        Outcome::Returned((Ok(v), used)) => json!({"ok": true, "hi": v >> 16, "lo": v & 0xFFFF, "used": used}),
        Outcome::Returned((Err(_), _)) => json!({"ok": false, "hi": 0, "lo": 0, "used": 0}),
        Outcome::Panicked(m) => json!({"ok": false, "hi": 0, "lo": 0, "used": 0, "panic": panic_key(&m)}),
    }
}

pub fn read_255(b: &[u8]) -> Value {
    match guarded(|| {
        let mut c = ReadScope::new(b).ctxt();
        let r = c.read::<PackedU16>();
        (r, b.len() - c.scope().data().len())
    }) {
        Outcome::Returned((Ok(v), used)) => json!({"ok": true, "v": v, "used": used}),
        Outcome::Returned((Err(_), _)) => json!({"ok": false, "v": 0, "used": 0}),
        Outcome::Panicked(m) => json!({"ok": false, "v": 0, "used": 0, "panic": panic_key(&m)}),
    }
}

/// The directory as allsorts parsed it: entries (tag, offset, origLength, transformLength | -1) and,
/// for a collection, the directory indices of every font.
pub struct DirObs {
    pub entries: Vec<(u32, u64, u32, i64)>,
    pub fonts: Vec<Vec<u64>>,
    pub block: Vec<u8>,
}

pub fn read_directory(bytes: &[u8]) -> Result<DirObs, String> {
    match guarded(|| -> Result<DirObs, String> {
        let woff = ReadScope::new(bytes).read::<Woff2Font<'_>>().map_err(|e| format!("{:?}", e))?;
        let entries = woff
            .table_directory
            .iter()
            .map(|e| (e.tag, e.offset as u64, e.orig_length, e.transform_length.map(|x| x as i64).unwrap_or(-1)))
            .collect();
        let base = woff.table_directory.as_ptr() as usize;
        let sz = std::mem::size_of::<allsorts::woff2::TableDirectoryEntry>();
        let mut fonts = Vec::new();
        if let Some(cd) = &woff.collection_directory {
            for f in cd.fonts() {
                fonts.push(f.table_entries(&woff).map(|e| ((e as *const _ as usize - base) / sz) as u64).collect());
            }
        }
        Ok(DirObs { entries, fonts, block: woff.table_data_block.clone() })
    }) {
        Outcome::Returned(r) => r,
        Outcome::Panicked(m) => Err(format!("Panic:{}", panic_key(&m))),
    }
}

/// sfnt_version() of the table provider of member `index` (probe only).
pub fn member_flavor(bytes: &[u8], index: usize) -> Result<u32, String> {
    use allsorts::tables::SfntVersion;
    match guarded(|| -> Result<u32, String> {
        let woff = ReadScope::new(bytes).read::<Woff2Font<'_>>().map_err(|e| format!("read:{:?}", e))?;
        let prov = woff.table_provider(index).map_err(|e| format!("provider:{:?}", e))?;
        Ok(prov.sfnt_version())
    }) {
        Outcome::Returned(r) => r,
        Outcome::Panicked(m) => Err(format!("Panic:{}", panic_key(&m))),
    }
}

/// All tables of font `index` as the eager table provider hands them out.
pub fn decode_tables(bytes: &[u8], index: usize, want: &[u32]) -> Result<BTreeMap<u32, Vec<u8>>, String> {
    match guarded(|| -> Result<BTreeMap<u32, Vec<u8>>, String> {
        let woff = ReadScope::new(bytes).read::<Woff2Font<'_>>().map_err(|e| format!("read:{:?}", e))?;
        let prov = woff.table_provider(index).map_err(|e| format!("provider:{:?}", e))?;
        let mut out = BTreeMap::new();
        let mut tags: Vec<u32> = want.to_vec();
        if let Some(t) = prov.table_tags() {
            tags.extend(t);
        }
        tags.sort();
        tags.dedup();
        for t in tags {
            if let Some(d) = prov.table_data(t).map_err(|e| format!("table_data:{:?}", e))? {
                out.insert(t, d.to_vec());
            }
        }
        Ok(out)
    }) {
        Outcome::Returned(r) => r,
        Outcome::Panicked(m) => Err(format!("Panic:{}", panic_key(&m))),
    }
}

/// The glyph-level view of a decoded font, through the independent reader.
pub struct FontView {
    pub n: usize,
    pub nhm: usize,
    pub loca_ok: bool,
    pub glyphs: Vec<Result<GlyphRec, String>>,
    pub adv: Vec<u16>,
    pub lsb: Vec<i16>,
    pub hmtx_err: String,
    pub hmtx_len: usize,
}

pub fn view(tables: &BTreeMap<u32, Vec<u8>>) -> Result<FontView, String> {
    let get = |t: &str| tables.get(&tag_u32(t)).ok_or(format!("decoded font lacks {}", t));
    let head = get("head")?;
    let maxp = get("maxp")?;
    let long = match be16(head, 50).ok_or("decoded head too short")? {
        0 => false,
        1 => true,
        x => return Err(format!("indexToLocFormat {}", x)),
    };
    let n = be16(maxp, 4).ok_or("decoded maxp too short")? as usize;
    let glyf = get("glyf")?;
    let loca = get("loca")?;
    let rd = glyph::read_glyf(glyf, loca, long, n)?;
    // numGlyphs + 1 offsets of the format head announces (read_glyf fails when there are fewer),
    // non-decreasing and inside glyf; trailing padding of loca is not an error
    let loca_ok = rd.monotone && rd.within;
    let mut v = FontView { n, nhm: 0, loca_ok, glyphs: rd.glyphs, adv: vec![], lsb: vec![], hmtx_err: String::new(), hmtx_len: 0 };
    match (tables.get(&tag_u32("hhea")), tables.get(&tag_u32("hmtx"))) {
        (Some(hhea), Some(hmtx)) => {
            v.nhm = be16(hhea, 34).unwrap_or(0) as usize;
            v.hmtx_len = hmtx.len();
            match glyph::read_hmtx(hmtx, n, v.nhm) {
                Ok((a, l)) => {
                    v.adv = a;
                    v.lsb = l;
                }
                Err(e) => v.hmtx_err = e,
            }
        }
        _ => v.hmtx_err = "no hhea/hmtx".into(),
    }
    Ok(v)
}

/// Offsets (at most `cap`) where two tables differ; a length difference counts as a difference
/// at the shorter length.
pub fn diff_offsets(a: &[u8], b: &[u8], cap: usize) -> Vec<usize> {
    let mut out = Vec::new();
    for k in 0..a.len().min(b.len()) {
        if a[k] != b[k] {
            out.push(k);
            if out.len() >= cap {
                return out;
            }
        }
    }
    if a.len() != b.len() {
        out.push(a.len().min(b.len()));
    }
    out
}

/// head may differ from the stored head in checkSumAdjustment (bytes 8..12: the decoder has to
/// recompute it) and in indexToLocFormat (bytes 50..52: the format of the rebuilt loca).
pub fn head_diff_allowed(d: &[usize]) -> bool {
    d.iter().all(|&o| (8..12).contains(&o) || (50..52).contains(&o))
}

pub fn tag_bytes(t: u32) -> Vec<u8> {
    t.to_be_bytes().to_vec()
}

