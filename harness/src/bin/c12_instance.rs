//! C12 harness: instancing a variable font.
//!
//!   c12_instance replay <cases.ndjson> <trace.ndjson>
//!       every CASE printed by TLC from MC_Variation (axes, glyph, component offsets, tuple
//!       variations of glyphs 1-3 with the packed point/delta bytes produced by the specification's
//!       own encoders, HVAR / MVAR variants, numberOfHMetrics, cvt+cvar, user coordinates, the
//!       normalised tuple and the acceptable interval of every output number, both passed through
//!       to the judge) is written out as a complete variable TrueType font and
//!       instanced with `allsorts::variations::instance`; the output font is read back with the
//!       independent readers below and one event per glyph / metric / instance is recorded.
//!   c12_instance record <seed> <coords-per-font> <trace.ndjson>
//!       the repository's variable fonts: gvar / HVAR containers are split by the independent
//!       parsers below (the packed data itself is decoded by the TLA+ judge), each font is
//!       instanced at the default coordinates, the axis ends, one axis at a time, and at seeded
//!       random coordinates.
//!   c12_instance one <font file name> <trace.ndjson> <user value>...
//!       one repository font at one user tuple (raw 16.16 values), for the replay of a finding.
//!
//! Generation-2 cases (`"gen": 2`): a general glyph list (nested composites in any glyph order, header
//! boxes and side bearings as computed by the specification), fvar axes in design units with the record
//! sizes / offsets / instance records of `lay`, avar segment maps, item variation stores with several
//! sub-tables / LONG_WORDS / region index lists, delta-set index maps whose entry bytes come from the
//! specification's encoder, MVAR with any value record size.  Generated instances are recorded with the
//! normalised tuple the SPECIFICATION computes (`a.coords = a.norm`); the tuple instance() returned is
//! `a.reported`.  Also recorded: header box of every written glyph, box of the written outline
//! (components flattened), head box, union of the glyph boxes, MVAR fields without a value record.
//!
//! Events (judged by Trace_Variation): Glyph, Metric, Static, Failed.
//! The harness decides nothing.
use allsorts::binary::read::ReadScope;
use allsorts::font_data::FontData;
use allsorts::tables::{Fixed, FontTableProvider};
use allsorts::Font;
use rand::rngs::StdRng;
use rand::{Rng, SeedableRng};
use serde_json::{json, Value};
use vh::fontgen::{
    be16, be32, encode_glyph, glyf_loca, read_sfnt_dir, table_bytes, Component, GlyphSpec, Pt, TtFont, W,
};
use vh::sup::{guarded, panic_key, Outcome};
use vh::util::{read_ndjson, repo_fonts, NdWriter};

#[path = "c12_instance/cff2.rs"]
mod cff2;

// =============================================================================================
// independent readers
// =============================================================================================

fn bi16(d: &[u8], at: usize) -> Option<i16> {
    be16(d, at).map(|v| v as i16)
}

#[derive(Clone, Debug, Default)]
struct RGlyph {
    kind: &'static str, // "empty" | "simple" | "composite"
    bbox: [i16; 4],
    pts: Vec<(i32, i32)>, // simple: points; composite: component offsets
    on: Vec<bool>,
    ends: Vec<usize>,
    comps: Vec<RComp>,
}

#[derive(Clone, Debug, Default)]
struct RComp {
    gid: u16,
    xy: bool, // ARGS_ARE_XY_VALUES
    transform: bool,
    flags: u16,
}

/// Parse one glyph record (complete: repeat flags, short/same coordinates, composite forms).
fn read_glyph(d: &[u8]) -> Option<RGlyph> {
    if d.is_empty() {
        return Some(RGlyph { kind: "empty", ..Default::default() });
    }
    let nc = bi16(d, 0)?;
    let bbox = [bi16(d, 2)?, bi16(d, 4)?, bi16(d, 6)?, bi16(d, 8)?];
    let mut at = 10;
    if nc >= 0 {
        let mut ends = Vec::new();
        for _ in 0..nc {
            ends.push(be16(d, at)? as usize);
            at += 2;
        }
        let n = ends.last().map(|e| e + 1).unwrap_or(0);
        let ilen = be16(d, at)? as usize;
        at += 2 + ilen;
        let mut flags = Vec::with_capacity(n);
        while flags.len() < n {
            let f = *d.get(at)?;
            at += 1;
            flags.push(f);
            if f & 0x08 != 0 {
                let r = *d.get(at)?;
                at += 1;
                for _ in 0..r {
                    flags.push(f);
                }
            }
        }
        flags.truncate(n);
        let mut xs = Vec::with_capacity(n);
        let mut x = 0i32;
        for f in &flags {
            if f & 0x02 != 0 {
                let b = *d.get(at)? as i32;
                at += 1;
                x += if f & 0x10 != 0 { b } else { -b };
            } else if f & 0x10 == 0 {
                x += bi16(d, at)? as i32;
                at += 2;
            }
            xs.push(x);
        }
        let mut pts = Vec::with_capacity(n);
        let mut y = 0i32;
        for (k, f) in flags.iter().enumerate() {
            if f & 0x04 != 0 {
                let b = *d.get(at)? as i32;
                at += 1;
                y += if f & 0x20 != 0 { b } else { -b };
            } else if f & 0x20 == 0 {
                y += bi16(d, at)? as i32;
                at += 2;
            }
            pts.push((xs[k], y));
        }
        if n == 0 {
            return Some(RGlyph { kind: "empty", bbox, ..Default::default() });
        }
        Some(RGlyph { kind: "simple", bbox, pts, on: flags.iter().map(|f| f & 1 != 0).collect(), ends, comps: vec![] })
    } else {
        let mut comps = Vec::new();
        let mut pts = Vec::new();
        loop {
            let f = be16(d, at)?;
            let gid = be16(d, at + 2)?;
            at += 4;
            let (a1, a2);
            if f & 0x0001 != 0 {
                if f & 0x0002 != 0 {
                    a1 = bi16(d, at)? as i32;
                    a2 = bi16(d, at + 2)? as i32;
                } else {
                    a1 = be16(d, at)? as i32;
                    a2 = be16(d, at + 2)? as i32;
                }
                at += 4;
            } else {
                if f & 0x0002 != 0 {
                    a1 = *d.get(at)? as i8 as i32;
                    a2 = *d.get(at + 1)? as i8 as i32;
                } else {
                    a1 = *d.get(at)? as i32;
                    a2 = *d.get(at + 1)? as i32;
                }
                at += 2;
            }
            let mut transform = false;
            if f & 0x0008 != 0 {
                at += 2;
                transform = true;
            } else if f & 0x0040 != 0 {
                at += 4;
                transform = true;
            } else if f & 0x0080 != 0 {
                at += 8;
                transform = true;
            }
            comps.push(RComp { gid, xy: f & 0x0002 != 0, transform, flags: f });
            pts.push((a1, a2));
            if f & 0x0020 == 0 {
                break;
            }
        }
        Some(RGlyph { kind: "composite", bbox, pts, on: vec![], ends: vec![], comps })
    }
}

/// The static parts of a TrueType font needed here.
struct RFont {
    glyphs: Vec<RGlyph>,
    metrics: Vec<(u16, i16)>,
    tags: Vec<String>,
    os2: Vec<u8>,
    post: Vec<u8>,
    hhea: Vec<u8>,
    head_box: [i16; 4],
    head_flags: u16,
    /// the CFF2 table, if the font has one
    cff2: Option<Vec<u8>>,
}

fn read_font(data: &[u8]) -> Result<RFont, String> {
    let dir = read_sfnt_dir(data, 0).ok_or("sfnt directory")?;
    let tags: Vec<String> = dir.records.iter().map(|r| vh::fontgen::tag_str(r.0)).collect();
    let head = table_bytes(data, &dir, "head").ok_or("head")?;
    let maxp = table_bytes(data, &dir, "maxp").ok_or("maxp")?;
    let hhea = table_bytes(data, &dir, "hhea").ok_or("hhea")?;
    let hmtx = table_bytes(data, &dir, "hmtx").ok_or("hmtx")?;
    let n = be16(maxp, 4).ok_or("maxp")? as usize;
    let long = bi16(head, 50).ok_or("head")? != 0;
    let mut glyphs = Vec::new();
    if let (Some(loca), Some(glyf)) = (table_bytes(data, &dir, "loca"), table_bytes(data, &dir, "glyf")) {
        let off = |i: usize| -> Option<usize> {
            if long {
                be32(loca, 4 * i).map(|v| v as usize)
            } else {
                be16(loca, 2 * i).map(|v| 2 * v as usize)
            }
        };
        for g in 0..n {
            let (s, e) = (off(g).ok_or("loca")?, off(g + 1).ok_or("loca")?);
            let rec = glyf.get(s..e).ok_or("glyf slice")?;
            glyphs.push(read_glyph(rec).ok_or_else(|| format!("glyph {}", g))?);
        }
    }
    let nh = be16(hhea, 34).ok_or("hhea")? as usize;
    let mut metrics = Vec::new();
    let mut last_adv = 0u16;
    for g in 0..n {
        if g < nh {
            last_adv = be16(hmtx, 4 * g).ok_or("hmtx")?;
            metrics.push((last_adv, bi16(hmtx, 4 * g + 2).ok_or("hmtx")?));
        } else {
            metrics.push((last_adv, bi16(hmtx, 4 * nh + 2 * (g - nh)).ok_or("hmtx lsb")?));
        }
    }
    Ok(RFont {
        glyphs,
        metrics,
        tags,
        os2: table_bytes(data, &dir, "OS/2").map(|b| b.to_vec()).unwrap_or_default(),
        post: table_bytes(data, &dir, "post").map(|b| b.to_vec()).unwrap_or_default(),
        hhea: hhea.to_vec(),
        head_box: [bi16(head, 36).ok_or("head")?, bi16(head, 38).ok_or("head")?, bi16(head, 40).ok_or("head")?, bi16(head, 42).ok_or("head")?],
        head_flags: be16(head, 16).ok_or("head")?,
        cff2: table_bytes(data, &dir, "CFF2").map(|b| b.to_vec()),
    })
}

/// Box [xMin, yMin, xMax, yMax] of the outline of a glyph as drawn (components translated, any depth;
/// outer None if a transform or a point-matching component is involved - those are not judged; inner
/// None if nothing is drawn).
fn outline_box(f: &RFont, gid: usize, depth: usize) -> Option<Option<[i32; 4]>> {
    let g = f.glyphs.get(gid)?;
    match g.kind {
        "empty" => Some(None),
        "simple" => {
            let xs = g.pts.iter().map(|p| p.0);
            let ys = g.pts.iter().map(|p| p.1);
            Some(Some([xs.clone().min()?, ys.clone().min()?, xs.max()?, ys.max()?]))
        }
        _ => {
            if depth > 8 {
                return None;
            }
            let mut best: Option<[i32; 4]> = None;
            for (c, off) in g.comps.iter().zip(g.pts.iter()) {
                if !c.xy || c.transform {
                    return None;
                }
                if let Some(m) = outline_box(f, c.gid as usize, depth + 1)? {
                    let v = [m[0] + off.0, m[1] + off.1, m[2] + off.0, m[3] + off.1];
                    best = Some(match best {
                        None => v,
                        Some(b) => [b[0].min(v[0]), b[1].min(v[1]), b[2].max(v[2]), b[3].max(v[3])],
                    });
                }
            }
            Some(best)
        }
    }
}

/// Header box of a glyph record as JSON ([] for an empty glyph).
fn hbox_json(g: &RGlyph) -> Value {
    if g.kind == "empty" {
        json!([])
    } else {
        json!([g.bbox[0], g.bbox[1], g.bbox[2], g.bbox[3]])
    }
}

// ---- metrics controlled by MVAR: (tag, table, offset, signed) --------------------------------------
const MVAR_FIELDS: [(&str, &str, usize, bool); 22] = [
    ("hasc", "OS/2", 68, true),
    ("hdsc", "OS/2", 70, true),
    ("hlgp", "OS/2", 72, true),
    ("hcla", "OS/2", 74, false),
    ("hcld", "OS/2", 76, false),
    ("xhgt", "OS/2", 86, true),
    ("cpht", "OS/2", 88, true),
    ("stro", "OS/2", 28, true),
    ("strs", "OS/2", 26, true),
    ("undo", "post", 8, true),
    ("unds", "post", 10, true),
    ("hcrs", "hhea", 18, true),
    ("hcrn", "hhea", 20, true),
    ("hcof", "hhea", 22, true),
    ("sbxs", "OS/2", 10, true),
    ("sbys", "OS/2", 12, true),
    ("sbxo", "OS/2", 14, true),
    ("sbyo", "OS/2", 16, true),
    ("spxs", "OS/2", 18, true),
    ("spys", "OS/2", 20, true),
    ("spxo", "OS/2", 22, true),
    ("spyo", "OS/2", 24, true),
];

/// Default-instance values of the MVAR-controlled fields that the shared table builders leave at 0 / 1: every field
/// gets a value of its own, so that a delta added to (or taken from) a neighbouring field is visible.
fn distinct_metric_bases(tables: &mut Vec<(String, Vec<u8>)>) {
    for (tag, data) in tables.iter_mut() {
        let vals: &[(usize, i16)] = match tag.as_str() {
            "hhea" => &[(18, 1000), (20, 200), (22, -40)],
            "OS/2" => &[(10, 650), (12, 600), (14, 10), (16, 75), (18, 651), (20, 601), (22, 11), (24, 350), (26, 50), (28, 300)],
            _ => continue,
        };
        for (off, v) in vals {
            data[*off..*off + 2].copy_from_slice(&v.to_be_bytes());
        }
    }
}

/// TtFont::build with distinct_metric_bases applied.
fn build_tt(f: &TtFont) -> Vec<u8> {
    let mut t = f.tables();
    distinct_metric_bases(&mut t);
    vh::fontgen::build_sfnt(0x00010000, &t)
}

fn metric_range(tag: &str) -> (i64, i64) {
    match MVAR_FIELDS.iter().find(|m| m.0 == tag) {
        Some((_, _, _, false)) => (0, 65535),
        _ => (-32768, 32767),
    }
}

fn metric_value(f: &RFont, tag: &str) -> Option<i64> {
    let (_, table, off, signed) = MVAR_FIELDS.iter().find(|m| m.0 == tag)?;
    let t = match *table {
        "OS/2" => &f.os2,
        "post" => &f.post,
        _ => &f.hhea,
    };
    let v = be16(t, *off)?;
    Some(if *signed { v as i16 as i64 } else { v as i64 })
}

// ---- variation containers (gvar, item variation store, HVAR, MVAR) ------------------------------------

struct GvarTuple {
    peak: Vec<i16>,
    inter: bool,
    start: Vec<i16>,
    end: Vec<i16>,
    private: bool,
    size: usize,
}

struct GvarGlyph {
    has_shared: bool,
    tuples: Vec<GvarTuple>,
    ser: Vec<u8>,
}

fn read_tuple(d: &[u8], at: usize, n: usize) -> Option<Vec<i16>> {
    (0..n).map(|k| bi16(d, at + 2 * k)).collect()
}

/// Split the glyph variation data of one glyph: headers and the serialized data area.
fn gvar_glyph(gvar: &[u8], gid: usize) -> Option<Option<GvarGlyph>> {
    let axis_count = be16(gvar, 4)? as usize;
    let shared_count = be16(gvar, 6)? as usize;
    let shared_off = be32(gvar, 8)? as usize;
    let glyph_count = be16(gvar, 12)? as usize;
    let flags = be16(gvar, 14)?;
    let array_off = be32(gvar, 16)? as usize;
    if gid >= glyph_count {
        return Some(None);
    }
    let off = |i: usize| -> Option<usize> {
        if flags & 1 != 0 {
            be32(gvar, 20 + 4 * i).map(|v| v as usize)
        } else {
            be16(gvar, 20 + 2 * i).map(|v| 2 * v as usize)
        }
    };
    let (s, e) = (off(gid)?, off(gid + 1)?);
    if e <= s {
        return Some(None);
    }
    let d = gvar.get(array_off + s..array_off + e)?;
    let count_flags = be16(d, 0)?;
    let data_off = be16(d, 2)? as usize;
    let count = (count_flags & 0x0FFF) as usize;
    let mut at = 4;
    let mut tuples = Vec::new();
    for _ in 0..count {
        let size = be16(d, at)? as usize;
        let ti = be16(d, at + 2)?;
        at += 4;
        let peak = if ti & 0x8000 != 0 {
            let p = read_tuple(d, at, axis_count)?;
            at += 2 * axis_count;
            p
        } else {
            let idx = (ti & 0x0FFF) as usize;
            if idx >= shared_count {
                return None;
            }
            read_tuple(gvar, shared_off + idx * axis_count * 2, axis_count)?
        };
        let (mut start, mut end) = (vec![], vec![]);
        let inter = ti & 0x4000 != 0;
        if inter {
            start = read_tuple(d, at, axis_count)?;
            end = read_tuple(d, at + 2 * axis_count, axis_count)?;
            at += 4 * axis_count;
        }
        tuples.push(GvarTuple { peak, inter, start, end, private: ti & 0x2000 != 0, size });
    }
    Some(Some(GvarGlyph { has_shared: count_flags & 0x8000 != 0, tuples, ser: d.get(data_off..)?.to_vec() }))
}

/// Item variation store as JSON: regions and sub-tables (region indices, rows of deltas).
fn read_ivs(d: &[u8]) -> Option<Value> {
    if be16(d, 0)? != 1 {
        return None;
    }
    let rl = be32(d, 2)? as usize;
    let n = be16(d, 6)? as usize;
    let axis_count = be16(d, rl)? as usize;
    let region_count = be16(d, rl + 2)? as usize;
    let mut regions = Vec::new();
    for r in 0..region_count {
        let mut axes = Vec::new();
        for a in 0..axis_count {
            let at = rl + 4 + (r * axis_count + a) * 6;
            axes.push(json!([bi16(d, at)?, bi16(d, at + 2)?, bi16(d, at + 4)?]));
        }
        regions.push(Value::Array(axes));
    }
    let mut subs = Vec::new();
    for k in 0..n {
        let o = be32(d, 8 + 4 * k)? as usize;
        let item_count = be16(d, o)? as usize;
        let wdc = be16(d, o + 2)?;
        // LONG_WORDS: the word columns hold int32, the others int16
        let long = wdc & 0x8000 != 0;
        let words = (wdc & 0x7FFF) as usize;
        let ric = be16(d, o + 4)? as usize;
        let ri: Vec<u16> = (0..ric).map(|i| be16(d, o + 6 + 2 * i)).collect::<Option<_>>()?;
        let mut at = o + 6 + 2 * ric;
        let mut rows = Vec::new();
        for _ in 0..item_count {
            let mut row = Vec::new();
            for c in 0..ric {
                if long {
                    if c < words {
                        row.push(be32(d, at)? as i32);
                        at += 4;
                    } else {
                        row.push(bi16(d, at)? as i32);
                        at += 2;
                    }
                } else if c < words {
                    row.push(bi16(d, at)? as i32);
                    at += 2;
                } else {
                    row.push(*d.get(at)? as i8 as i32);
                    at += 1;
                }
            }
            rows.push(row);
        }
        subs.push(json!({"ri": ri, "rows": rows}));
    }
    Some(json!({"regions": regions, "subs": subs}))
}

fn no_map() -> Value {
    json!({"present": false, "fmt": 0, "count": 0, "data": []})
}

fn read_index_map(d: &[u8], off: usize) -> Option<Value> {
    if off == 0 {
        return Some(no_map());
    }
    let format = *d.get(off)?;
    let fmt = *d.get(off + 1)?;
    let (count, at) = match format {
        0 => (be16(d, off + 2)? as usize, off + 4),
        1 => (be32(d, off + 2)? as usize, off + 6),
        _ => return None,
    };
    let size = (((fmt & 0x30) >> 4) + 1) as usize;
    let data = d.get(at..at + size * count)?;
    Some(json!({"present": true, "fmt": fmt, "count": count, "data": data}))
}

fn no_hvar() -> Value {
    json!({"present": false, "ivs": {"regions": [], "subs": []}, "adv": no_map(), "lsb": no_map()})
}

fn read_hvar(d: &[u8]) -> Option<Value> {
    let ivs = read_ivs(d.get(be32(d, 4)? as usize..)?)?;
    Some(json!({"present": true, "ivs": ivs,
                "adv": read_index_map(d, be32(d, 8)? as usize)?,
                "lsb": read_index_map(d, be32(d, 12)? as usize)?}))
}

/// MVAR: (tag, outer, inner) records and the store.
fn read_mvar(d: &[u8]) -> Option<(Vec<(String, u16, u16)>, Value)> {
    let rec_size = be16(d, 6)? as usize;
    let count = be16(d, 8)? as usize;
    let ivs_off = be16(d, 10)? as usize;
    if ivs_off == 0 {
        return None;
    }
    let mut recs = Vec::new();
    for k in 0..count {
        let at = 12 + k * rec_size;
        recs.push((vh::fontgen::tag_str(be32(d, at)?), be16(d, at + 4)?, be16(d, at + 6)?));
    }
    Some((recs, read_ivs(d.get(ivs_off..)?)?))
}

// =============================================================================================
// writers for the generated fonts
// =============================================================================================

fn fvar_bytes(naxes: usize) -> Vec<u8> {
    let mut w = W::new();
    w.u16(1).u16(0).u16(16).u16(2).u16(naxes as u16).u16(20).u16(0).u16(4 + 4 * naxes as u16);
    let tags = ["AAAA", "BBBB", "CCCC"];
    for i in 0..naxes {
        w.tag(tags[i]).i32(-65536).i32(0).i32(65536).u16(0).u16(256 + i as u16);
    }
    w.done()
}

fn ivec(v: &Value) -> Vec<i64> {
    v.as_array().map(|a| a.iter().map(|x| x.as_i64().unwrap()).collect()).unwrap_or_default()
}
fn bvec(v: &Value) -> Vec<u8> {
    ivec(v).into_iter().map(|x| x as u8).collect()
}

/// gvar from the abstract tuple lists of a case; `glyph_tuples[g]` = (sharedPts bytes or None, tuples).
fn gvar_bytes(naxes: usize, glyph_tuples: &[Option<(Option<Vec<u8>>, Vec<Value>)>], long: bool) -> Vec<u8> {
    // shared tuples: peaks of the tuples that are not embedded
    let mut shared: Vec<Vec<i64>> = Vec::new();
    let mut blobs: Vec<Vec<u8>> = Vec::new();
    for gt in glyph_tuples {
        let Some((shared_pts, tuples)) = gt else {
            blobs.push(vec![]);
            continue;
        };
        let mut hdr = W::new();
        let mut ser = W::new();
        if let Some(sp) = shared_pts {
            ser.bytes(sp);
        }
        let mut headers = W::new();
        for t in tuples {
            let data = bvec(&t["data"]);
            let peak = ivec(&t["peak"]);
            let mut ti: u16 = 0;
            let embedded = t["embedded"].as_bool().unwrap();
            if embedded {
                ti |= 0x8000;
            } else {
                let idx = match shared.iter().position(|p| *p == peak) {
                    Some(i) => i,
                    None => {
                        shared.push(peak.clone());
                        shared.len() - 1
                    }
                };
                ti |= idx as u16;
            }
            if t["inter"].as_bool().unwrap() {
                ti |= 0x4000;
            }
            if t["private"].as_bool().unwrap() {
                ti |= 0x2000;
            }
            headers.u16(data.len() as u16).u16(ti);
            if embedded {
                for p in &peak {
                    headers.i16(*p as i16);
                }
            }
            if t["inter"].as_bool().unwrap() {
                for p in ivec(&t["start"]) {
                    headers.i16(p as i16);
                }
                for p in ivec(&t["end"]) {
                    headers.i16(p as i16);
                }
            }
            ser.bytes(&data);
        }
        let count = tuples.len() as u16 | if shared_pts.is_some() { 0x8000 } else { 0 };
        hdr.u16(count).u16(4 + headers.len() as u16);
        hdr.bytes(&headers.0).bytes(&ser.0);
        if hdr.len() % 2 == 1 {
            hdr.u8(0);
        }
        blobs.push(hdr.done());
    }
    let n = glyph_tuples.len();
    let offsets_len = (n + 1) * if long { 4 } else { 2 };
    let shared_off = 20 + offsets_len;
    let array_off = shared_off + shared.len() * naxes * 2;
    let mut w = W::new();
    w.u16(1).u16(0).u16(naxes as u16).u16(shared.len() as u16).u32(shared_off as u32).u16(n as u16);
    w.u16(if long { 1 } else { 0 }).u32(array_off as u32);
    let mut o = 0usize;
    for b in blobs.iter() {
        if long {
            w.u32(o as u32);
        } else {
            w.u16((o / 2) as u16);
        }
        o += b.len();
    }
    if long {
        w.u32(o as u32);
    } else {
        w.u16((o / 2) as u16);
    }
    for s in &shared {
        for p in s {
            w.i16(*p as i16);
        }
    }
    for b in &blobs {
        w.bytes(b);
    }
    w.done()
}

/// Item variation store with one sub-table over all regions; leading columns as words.
fn ivs_bytes(naxes: usize, regions: &[Value], rows: &[Vec<i64>]) -> Vec<u8> {
    let nr = regions.len();
    // number of leading word columns: up to the last column holding a value outside i8
    let mut words = 0;
    for row in rows {
        for (c, v) in row.iter().enumerate() {
            if !(-128..=127).contains(v) {
                words = words.max(c + 1);
            }
        }
    }
    let mut w = W::new();
    let region_list_off = 12;
    let region_list_len = 4 + nr * naxes * 6;
    w.u16(1).u32(region_list_off as u32).u16(1).u32((region_list_off + region_list_len) as u32);
    w.u16(naxes as u16).u16(nr as u16);
    for r in regions {
        for a in r.as_array().unwrap() {
            let v = ivec(a);
            w.i16(v[0] as i16).i16(v[1] as i16).i16(v[2] as i16);
        }
    }
    w.u16(rows.len() as u16).u16(words as u16).u16(nr as u16);
    for i in 0..nr {
        w.u16(i as u16);
    }
    for row in rows {
        for (c, v) in row.iter().enumerate() {
            if c < words {
                w.i16(*v as i16);
            } else {
                w.i8(*v as i8);
            }
        }
    }
    w.done()
}

fn index_map_bytes(entries: &[(u16, u16)]) -> (Vec<u8>, u8) {
    // one byte per entry, 4 inner bits
    let fmt: u8 = 0x03;
    let mut w = W::new();
    w.u8(0).u8(fmt).u16(entries.len() as u16);
    for (outer, inner) in entries {
        w.u8(((outer << 4) | inner) as u8);
    }
    (w.done(), fmt)
}

fn hvar_bytes(ivs: &[u8], adv_map: Option<&[u8]>, lsb_map: Option<&[u8]>) -> Vec<u8> {
    let mut w = W::new();
    let ivs_off = 20usize;
    let mut at = ivs_off + ivs.len();
    let adv_off = adv_map.map(|m| {
        let o = at;
        at += m.len();
        o
    });
    let lsb_off = lsb_map.map(|m| {
        let o = at;
        at += m.len();
        o
    });
    w.u16(1).u16(0).u32(ivs_off as u32).u32(adv_off.unwrap_or(0) as u32).u32(lsb_off.unwrap_or(0) as u32).u32(0);
    w.bytes(ivs);
    if let Some(m) = adv_map {
        w.bytes(m);
    }
    if let Some(m) = lsb_map {
        w.bytes(m);
    }
    w.done()
}

fn mvar_bytes(records: &[(String, u16, u16)], ivs: &[u8]) -> Vec<u8> {
    let mut w = W::new();
    w.u16(1).u16(0).u16(0).u16(8).u16(records.len() as u16).u16((12 + 8 * records.len()) as u16);
    for (tag, o, i) in records {
        w.tag(tag).u16(*o).u16(*i);
    }
    w.bytes(ivs);
    w.done()
}

// =============================================================================================
// events
// =============================================================================================

struct Rec {
    w: NdWriter,
    i: u64,
    instances: u64,
    panics: u64,
    failed: u64,
}

impl Rec {
    fn ev(&mut self, case: &str, ev: &str, a: Value, o: Value) {
        self.i += 1;
        self.w.write(&json!({"i": self.i, "case": case, "ev": ev, "a": a, "o": o}));
    }
}

fn pts_json(p: &[(i32, i32)]) -> Value {
    Value::Array(p.iter().map(|(x, y)| json!([x, y])).collect())
}

fn tuples_json(g: &GvarGlyph) -> Value {
    Value::Array(
        g.tuples
            .iter()
            .map(|t| json!({"peak": t.peak, "inter": t.inter, "start": t.start, "end": t.end,
                            "private": t.private, "size": t.size}))
            .collect(),
    )
}

enum Inst {
    Ok(Vec<u8>, Vec<i64>),
    Err(String),
}

fn run_instance(font: &[u8], user: &[i32]) -> Inst {
    let r = guarded(|| -> Result<(Vec<u8>, Vec<i64>), String> {
        let fd = ReadScope::new(font).read::<FontData<'_>>().map_err(|e| format!("read:{:?}", e))?;
        let provider = fd.table_provider(0).map_err(|e| format!("provider:{:?}", e))?;
        let user: Vec<Fixed> = user.iter().map(|v| Fixed::from_raw(*v)).collect();
        let (out, tuple) = allsorts::variations::instance(&provider, &user).map_err(|e| format!("{:?}", e))?;
        Ok((out, tuple.iter().map(|x| x.raw_value() as i64).collect()))
    });
    match r {
        Outcome::Returned(Ok((o, t))) => Inst::Ok(o, t),
        Outcome::Returned(Err(e)) => Inst::Err(e),
        Outcome::Panicked(m) => Inst::Err(format!("Panic:{}", panic_key(&m))),
    }
}

/// Load the output with allsorts itself: does it load, and does it claim to be variable?
fn loads_as_static(out: &[u8]) -> (bool, bool) {
    let r = guarded(|| -> Result<bool, String> {
        let fd = ReadScope::new(out).read::<FontData<'_>>().map_err(|e| format!("{:?}", e))?;
        let provider = fd.table_provider(0).map_err(|e| format!("{:?}", e))?;
        let font = Font::new(provider).map_err(|e| format!("{:?}", e))?;
        Ok(font.is_variable())
    });
    match r {
        Outcome::Returned(Ok(v)) => (true, v),
        _ => (false, false),
    }
}

/// What the specification says about the location of a generated instance: the normalised tuple it
/// computes from the user tuple (the judge evaluates the model there), the tolerance of the reported
/// tuple per axis, and the acceptable interval of every output number.
struct SpecSide<'a> {
    expect: Option<&'a Value>,
    norm: Option<&'a Value>,
    ntol: Value,
    /// generation 3 (CFF2): the kind of every glyph in the generator's vocabulary, its number of stem hints
    kinds: Option<&'a Value>,
    stems: Option<&'a Value>,
}

fn subr_table(subrs: &[Vec<u8>]) -> Value {
    Value::Array(subrs.iter().enumerate().map(|(i, b)| json!({"i": i, "b": b})).collect())
}

/// One CffGlyph event per glyph of a CFF2 font: the source charstring with what the charstring machine
/// needs (subroutines, region lists per ItemVariationData, the vsindex entry of every Private DICT, the
/// glyph's Font DICT - all from the harness' own reader) and the written charstring.
#[allow(clippy::too_many_arguments)]
fn emit_cff_glyphs(
    r: &mut Rec,
    case: &str,
    sc: &cff2::RCff2,
    oc: &cff2::RCff2,
    coords: &Value,
    norm: &Value,
    reported: &[i64],
    ntol: &Value,
    glyph_limit: usize,
    spec: &SpecSide,
) {
    let Some(vs) = &sc.vstore else { return };
    let regions: Vec<Vec<&Vec<[i16; 3]>>> = vs
        .ivds
        .iter()
        .map(|d| d.iter().filter_map(|ri| vs.regions.get(*ri as usize)).collect())
        .collect();
    // a region index outside the region list: not a font the specification speaks about
    if regions.iter().zip(vs.ivds.iter()).any(|(a, b)| a.len() != b.len()) {
        return;
    }
    let fd_dvs: Vec<i64> = sc.fds.iter().map(|f| f.vsindex).collect();
    let gs = subr_table(&sc.gsubrs);
    let ogs = subr_table(&oc.gsubrs);
    for gid in 0..sc.glyphs.len().min(glyph_limit) {
        let (fd, ofd) = (sc.sel[gid], oc.sel[gid]);
        if fd >= sc.fds.len() || ofd >= oc.fds.len() {
            continue;
        }
        let kind = spec.kinds.and_then(|k| k.get(gid)).and_then(|k| k.as_str()).unwrap_or("cff2");
        r.ev(
            case,
            "CffGlyph",
            json!({"gid": gid, "kind": kind, "fd": fd, "fdDvs": fd_dvs, "nG": sc.gsubrs.len(), "nL": sc.fds[fd].lsubrs.len(),
                   "gsubrs": gs, "lsubrs": subr_table(&sc.fds[fd].lsubrs), "regions": regions, "coords": coords,
                   "code": sc.glyphs[gid],
                   "exp": spec.expect.and_then(|x| x.get(gid)).cloned().unwrap_or_else(|| json!([])),
                   "generated": spec.expect.is_some(),
                   "stems": spec.stems.and_then(|k| k.get(gid)).and_then(|k| k.as_i64()).unwrap_or(0),
                   "norm": norm, "reported": reported, "ntol": ntol}),
            json!({"code": oc.glyphs[gid], "nG": oc.gsubrs.len(), "nL": oc.fds[ofd].lsubrs.len(), "gsubrs": ogs,
                   "lsubrs": subr_table(&oc.fds[ofd].lsubrs)}),
        );
    }
}

/// Events for one instance of one source font.
/// `src`: the source font as read independently; `gvar`/`hvar`/`mvar`: raw table bytes of the source.
/// `reported`: the normalised tuple returned by instance().
#[allow(clippy::too_many_arguments)]
fn emit_instance(
    r: &mut Rec,
    case: &str,
    src: &RFont,
    gvar: Option<&[u8]>,
    hvar: &Value,
    mvar: Option<&(Vec<(String, u16, u16)>, Value)>,
    user: &[i32],
    out: &[u8],
    reported: &[i64],
    glyph_limit: usize,
    spec: &SpecSide,
) {
    let expect = spec.expect;
    let norm = spec.norm.cloned().unwrap_or_else(|| json!([]));
    let ntol = spec.ntol.clone();
    // generated fonts are judged where the specification places the instance, repository fonts
    // where instance() says it is (normalisation is C13's there)
    let coords: Value = if spec.norm.is_some() { norm.clone() } else { json!(reported) };
    let (loads, is_var) = loads_as_static(out);
    let of = match read_font(out) {
        Ok(f) => f,
        Err(e) => {
            r.ev(case, "Failed", json!({"user": user, "stage": "read-output", "generated": expect.is_some()}), json!({"err": format!("Panic:unreadable output: {}", e)}));
            return;
        }
    };
    // union of the header boxes of the written glyphs that draw something
    let mut ubox: Option<[i32; 4]> = None;
    for g in of.glyphs.iter().filter(|g| g.kind != "empty") {
        let v = [g.bbox[0] as i32, g.bbox[1] as i32, g.bbox[2] as i32, g.bbox[3] as i32];
        ubox = Some(match ubox {
            None => v,
            Some(b) => [b[0].min(v[0]), b[1].min(v[1]), b[2].max(v[2]), b[3].max(v[3])],
        });
    }
    // CFF2: both tables through the harness' own reader
    let src_cff = src.cff2.as_deref().map(cff2::parse_cff2);
    let out_cff = of.cff2.as_deref().map(cff2::parse_cff2);
    if let (Some(Some(_)), Some(None) | None) = (&src_cff, &out_cff) {
        r.ev(case, "Failed", json!({"user": user, "stage": "read-output", "generated": expect.is_some()}), json!({"err": "Panic:unreadable output: CFF2 table"}));
        return;
    }
    let (n_src, n_out) = match (&src_cff, &out_cff) {
        (Some(Some(s)), Some(Some(o))) => (s.glyphs.len(), o.glyphs.len()),
        _ => (src.glyphs.len(), of.glyphs.len()),
    };
    let (cff_vstore, cff_priv_var) = match &out_cff {
        Some(Some(o)) => (o.vstore.is_some(), o.fds.iter().any(|f| f.variable)),
        _ => (false, false),
    };
    r.ev(case, "Static", json!({"user": user}), json!({"tags": of.tags, "isVariable": is_var, "loads": loads,
                                                          "glyphs": n_out, "srcGlyphs": n_src,
                                                          "head": if of.glyphs.is_empty() { json!([]) } else { json!(of.head_box) },
                                                          "ubox": ubox.map(|b| json!(b)).unwrap_or_else(|| json!([])),
                                                          "cffVstore": cff_vstore, "cffPrivVar": cff_priv_var}));
    if n_src != n_out {
        return;
    }
    if let (Some(Some(sc)), Some(Some(oc))) = (&src_cff, &out_cff) {
        emit_cff_glyphs(r, case, sc, oc, &coords, &norm, reported, &ntol, glyph_limit, spec);
    }
    if of.glyphs.len() != src.glyphs.len() || of.metrics.len() != src.metrics.len() {
        return;
    }
    let lsb_at0 = src.head_flags & 2 != 0;
    if src.glyphs.is_empty() {
        // no glyf table (CFF2): only the horizontal metrics are observed here
        for gid in 0..src.metrics.len().min(glyph_limit) {
            r.ev(
                case,
                "Glyph",
                json!({"gid": gid, "kind": "cff", "coords": coords, "pts": [], "ends": [],
                       "adv": src.metrics[gid].0, "lsb": src.metrics[gid].1, "xmin": 0, "plain": true,
                       "hasShared": false, "tuples": [], "ser": [], "hvar": hvar, "exp": [], "norm": norm,
                       "reported": reported, "ntol": ntol, "hbox": [], "lsbAt0": lsb_at0}),
                json!({"kind": "cff", "pts": [], "ends": [], "adv": of.metrics[gid].0, "lsb": of.metrics[gid].1,
                       "xminKnown": false, "xmin": 0, "on": true, "hbox": [], "obox": []}),
            );
        }
    }
    for gid in 0..src.glyphs.len().min(glyph_limit) {
        let sg = &src.glyphs[gid];
        let og = &of.glyphs[gid];
        let gv = gvar.and_then(|g| gvar_glyph(g, gid).unwrap_or(None));
        let (has_shared, tuples, ser) = match &gv {
            Some(g) => (g.has_shared, tuples_json(g), g.ser.clone()),
            None => (false, json!([]), vec![]),
        };
        // components positioned by point matching or transformed: offsets are not varied / the
        // outline xMin is not derived here
        let plain = sg.comps.iter().all(|c| c.xy);
        let obox = outline_box(&of, gid, 0);
        let xmin_out = obox.map(|b| b.map(|b| b[0]));
        r.ev(
            case,
            "Glyph",
            json!({"gid": gid, "kind": sg.kind, "coords": coords, "pts": pts_json(&sg.pts), "ends": sg.ends,
                   "adv": src.metrics[gid].0, "lsb": src.metrics[gid].1,
                   "xmin": if sg.kind == "empty" { 0 } else { sg.bbox[0] as i32 },
                   "plain": plain, "hasShared": has_shared, "tuples": tuples, "ser": ser, "hvar": hvar,
                   "exp": expect.and_then(|x| x.get(gid)).cloned().unwrap_or_else(|| json!([])), "norm": norm,
                   "reported": reported, "ntol": ntol, "hbox": hbox_json(sg), "lsbAt0": lsb_at0}),
            json!({"kind": og.kind, "pts": pts_json(&og.pts), "ends": og.ends, "adv": of.metrics[gid].0,
                   "lsb": of.metrics[gid].1,
                   "xminKnown": matches!(xmin_out, Some(Some(_))) || og.kind == "empty",
                   "xmin": xmin_out.flatten().unwrap_or(0),
                   "on": sg.on == og.on && sg.comps.iter().map(|c| c.gid).eq(og.comps.iter().map(|c| c.gid)),
                   "hbox": hbox_json(og),
                   "obox": obox.flatten().map(|b| json!(b)).unwrap_or_else(|| json!([]))}),
        );
    }
    if let Some((recs, ivs)) = mvar {
        for (tag, outer, inner) in recs {
            let (Some(base), Some(val)) = (metric_value(src, tag), metric_value(&of, tag)) else { continue };
            r.ev(
                case,
                "Metric",
                json!({"tag": tag, "present": true, "base": base, "coords": coords, "ivs": ivs, "outer": outer, "inner": inner,
                       "lo": metric_range(tag).0, "hi": metric_range(tag).1}),
                json!({"value": val}),
            );
        }
        // the metrics the MVAR table has no record for must not vary
        for (tag, _, _, _) in MVAR_FIELDS.iter() {
            if recs.iter().any(|r| r.0 == *tag) {
                continue;
            }
            let (Some(base), Some(val)) = (metric_value(src, tag), metric_value(&of, tag)) else { continue };
            r.ev(
                case,
                "Metric",
                json!({"tag": tag, "present": false, "base": base, "coords": coords, "ivs": {"regions": [], "subs": []},
                       "outer": 0, "inner": 0, "lo": metric_range(tag).0, "hi": metric_range(tag).1}),
                json!({"value": val}),
            );
        }
    }
}

// =============================================================================================
// replay of generated cases
// =============================================================================================

fn build_case_font(c: &Value) -> Vec<u8> {
    let naxes = c["naxes"].as_u64().unwrap() as usize;
    let pts: Vec<Pt> = c["pts"]
        .as_array()
        .unwrap()
        .iter()
        .map(|p| Pt { x: p[0].as_i64().unwrap() as i16, y: p[1].as_i64().unwrap() as i16, on: p[2].as_bool().unwrap() })
        .collect();
    let ends: Vec<usize> = ivec(&c["ends"]).into_iter().map(|e| e as usize).collect();
    let mut contours = Vec::new();
    let mut s = 0;
    for e in &ends {
        contours.push(pts[s..=*e].to_vec());
        s = e + 1;
    }
    let simple = GlyphSpec::Simple { contours: contours.clone(), instructions: vec![] };
    // glyph 2: every component is glyph 1 at an x/y offset; "xf": the (single) component is scaled by 0.5
    let xf = c["xf"].as_bool().unwrap();
    let comps: Vec<(i16, i16)> =
        c["comps"].as_array().unwrap().iter().map(|p| (p[0].as_i64().unwrap() as i16, p[1].as_i64().unwrap() as i16)).collect();
    let composite = GlyphSpec::Composite {
        components: comps
            .iter()
            .map(|&(dx, dy)| Component { gid: 1, dx, dy, transform: if xf { Some([8192, 0, 0, 8192]) } else { None }, flags_extra: 0 })
            .collect(),
        instructions: vec![],
    };
    let glyphs = vec![GlyphSpec::Empty, simple.clone(), composite.clone(), GlyphSpec::Empty];
    let bb = vh::fontgen::simple_bbox(&contours);
    let half = |v: i16| (v as i32).div_euclid(2) as i16;
    let cbb = if xf {
        (half(bb.0) + comps[0].0, half(bb.1) + comps[0].1, half(bb.2 + 1) + comps[0].0, half(bb.3 + 1) + comps[0].1)
    } else {
        (
            bb.0 + comps.iter().map(|c| c.0).min().unwrap(),
            bb.1 + comps.iter().map(|c| c.1).min().unwrap(),
            bb.2 + comps.iter().map(|c| c.0).max().unwrap(),
            bb.3 + comps.iter().map(|c| c.1).max().unwrap(),
        )
    };
    let recs = vec![
        vec![],
        encode_glyph(&simple, None),
        encode_glyph(&composite, Some(cbb)),
        vec![],
    ];
    let long = c["long"].as_bool().unwrap();
    let (glyf, loca) = glyf_loca(&recs, long);
    let mut f = TtFont::new(glyphs);
    f.loca_long = long;
    let m = ivec(&c["metrics"]); // adv1, lsb1, adv2, lsb2
    f.metrics = vec![(400, 0), (m[0] as u16, m[1] as i16), (m[2] as u16, m[3] as i16), (250, 0)];
    f.num_h_metrics = c["nhm"].as_u64().unwrap() as u16;
    f.cmap = vec![(0x41, 1), (0x42, 2), (0x20, 3)];
    let tl = |key: &str| -> Option<(Option<Vec<u8>>, Vec<Value>)> {
        let t = c[key]["tuples"].as_array().unwrap().clone();
        if t.is_empty() {
            return None;
        }
        let sp = if c[key]["hasShared"].as_bool().unwrap() { Some(bvec(&c[key]["shared"])) } else { None };
        Some((sp, t))
    };
    let gvar = gvar_bytes(naxes, &[None, tl("g1"), tl("g2"), tl("g3")], long);
    f.extra_tables.push(("glyf".into(), glyf));
    f.extra_tables.push(("loca".into(), loca));
    f.extra_tables.push(("fvar".into(), fvar_bytes(naxes)));
    f.extra_tables.push(("gvar".into(), gvar));
    let hv = c["hvar"]["kind"].as_str().unwrap();
    if hv != "none" {
        let regions = c["hvar"]["regions"].as_array().unwrap().clone();
        let rows: Vec<Vec<i64>> = c["hvar"]["rows"].as_array().unwrap().iter().map(ivec).collect();
        let ivs = ivs_bytes(naxes, &regions, &rows);
        let amap: Option<Vec<(u16, u16)>> = if c["hvar"]["advMap"].as_array().map_or(true, |a| a.is_empty()) {
            None
        } else {
            Some(ivec(&c["hvar"]["advMap"]).into_iter().map(|i| (0u16, i as u16)).collect())
        };
        let lmap: Option<Vec<(u16, u16)>> = if c["hvar"]["lsbMap"].as_array().map_or(true, |a| a.is_empty()) {
            None
        } else {
            Some(ivec(&c["hvar"]["lsbMap"]).into_iter().map(|i| (0u16, i as u16)).collect())
        };
        let ab = amap.as_ref().map(|m| index_map_bytes(m).0);
        let lb = lmap.as_ref().map(|m| index_map_bytes(m).0);
        f.extra_tables.push(("HVAR".into(), hvar_bytes(&ivs, ab.as_deref(), lb.as_deref())));
    }
    if c["mvar"]["present"].as_bool().unwrap() {
        let regions = c["mvar"]["regions"].as_array().unwrap().clone();
        let rows: Vec<Vec<i64>> = c["mvar"]["rows"].as_array().unwrap().iter().map(ivec).collect();
        let ivs = ivs_bytes(naxes, &regions, &rows);
        let mut recs: Vec<(String, u16, u16)> = c["mvar"]["tags"]
            .as_array()
            .unwrap()
            .iter()
            .enumerate()
            .map(|(k, t)| (t.as_str().unwrap().to_string(), 0u16, k as u16))
            .collect();
        recs.sort();
        f.extra_tables.push(("MVAR".into(), mvar_bytes(&recs, &ivs)));
    }
    if c["cvar"].as_bool().unwrap() {
        // three control values; one tuple (peak +1 on the first axis) with deltas for all of them
        let mut cvt = W::new();
        cvt.i16(10).i16(-20).i16(300);
        let mut cv = W::new();
        cv.u16(1).u16(0).u16(1).u16((12 + 2 * naxes) as u16);
        cv.u16(5).u16(0x8000 | 0x2000);
        for a in 0..naxes {
            cv.i16(if a == 0 { 16384 } else { 0 });
        }
        cv.bytes(&[0x00, 0x02, 5, 0xFB, 100]);
        f.extra_tables.push(("cvt ".into(), cvt.done()));
        f.extra_tables.push(("cvar".into(), cv.done()));
    }
    build_tt(&f)
}

// ---- generation 2: general fonts -------------------------------------------------------------------------

/// fvar with the record sizes / offsets of `lay`; axes in whole design units.
fn fvar_bytes2(axes: &[Vec<i64>], lay: &Value) -> Vec<u8> {
    let n = axes.len();
    let axis_size = lay["fvAxisSize"].as_u64().unwrap() as usize;
    let off = lay["fvOffset"].as_u64().unwrap() as usize;
    let inst = lay["fvInst"].as_u64().unwrap() as usize;
    let psid = lay["fvPsid"].as_bool().unwrap();
    let inst_size = 4 + 4 * n + if psid { 2 } else { 0 };
    let mut w = W::new();
    w.u16(1).u16(0).u16(off as u16).u16(2).u16(n as u16).u16(axis_size as u16).u16(inst as u16).u16(inst_size as u16);
    while w.len() < off {
        w.u8(0xA5);
    }
    let tags = ["AAAA", "BBBB", "CCCC"];
    for (i, a) in axes.iter().enumerate() {
        let at = w.len();
        w.tag(tags[i]).i32((a[0] * 65536) as i32).i32((a[1] * 65536) as i32).i32((a[2] * 65536) as i32).u16(0).u16(256 + i as u16);
        // a longer axis record: bytes a reader must skip
        while w.len() < at + axis_size {
            w.u8(0x5A);
        }
    }
    for k in 0..inst {
        w.u16(2).u16(0);
        for a in axes {
            // instances at the minimum, the maximum, the default, ...
            w.i32((a[[0, 2, 1][k % 3]] * 65536) as i32);
        }
        if psid {
            w.u16(6);
        }
    }
    w.done()
}

/// avar 1.0: one segment map per axis (knots raw 2.14; an empty map has no records).
fn avar_bytes(maps: &[Value]) -> Vec<u8> {
    let mut w = W::new();
    w.u16(1).u16(0).u16(0).u16(maps.len() as u16);
    for m in maps {
        let knots = m.as_array().unwrap();
        w.u16(knots.len() as u16);
        for k in knots {
            let v = ivec(k);
            w.i16(v[0] as i16).i16(v[1] as i16);
        }
    }
    w.done()
}

/// Item variation store with the sub-tables as the case lays them out.
fn ivs_bytes2(naxes: usize, regions: &[Value], subs: &[Value]) -> Vec<u8> {
    let nr = regions.len();
    let region_list_off = 8 + 4 * subs.len();
    let mut rl = W::new();
    rl.u16(naxes as u16).u16(nr as u16);
    for r in regions {
        for a in r.as_array().unwrap() {
            let v = ivec(a);
            rl.i16(v[0] as i16).i16(v[1] as i16).i16(v[2] as i16);
        }
    }
    let mut blobs: Vec<Vec<u8>> = Vec::new();
    for sb in subs {
        let ri = ivec(&sb["ri"]);
        let rows: Vec<Vec<i64>> = sb["rows"].as_array().unwrap().iter().map(ivec).collect();
        let long = sb["long"].as_bool().unwrap();
        let words = sb["words"].as_u64().unwrap() as usize;
        let mut w = W::new();
        w.u16(rows.len() as u16).u16(words as u16 | if long { 0x8000 } else { 0 }).u16(ri.len() as u16);
        for i in &ri {
            w.u16(*i as u16);
        }
        for row in &rows {
            for (c, v) in row.iter().enumerate() {
                match (long, c < words) {
                    (true, true) => w.i32(*v as i32),
                    (true, false) | (false, true) => w.i16(*v as i16),
                    (false, false) => w.i8(*v as i8),
                };
            }
        }
        blobs.push(w.done());
    }
    let mut w = W::new();
    w.u16(1).u32(region_list_off as u32).u16(subs.len() as u16);
    let mut at = region_list_off + rl.len();
    for b in &blobs {
        w.u32(at as u32);
        at += b.len();
    }
    w.bytes(&rl.0);
    for b in &blobs {
        w.bytes(b);
    }
    w.done()
}

/// Delta-set index map: the entry bytes come from the specification's encoder.
fn index_map_bytes2(m: &Value) -> Option<Vec<u8>> {
    if !m["present"].as_bool().unwrap() {
        return None;
    }
    let mut w = W::new();
    let count = m["count"].as_u64().unwrap();
    let format = m["format"].as_u64().unwrap() as u8;
    w.u8(format).u8(m["fmt"].as_u64().unwrap() as u8);
    if format == 0 {
        w.u16(count as u16);
    } else {
        w.u32(count as u32);
    }
    w.bytes(&bvec(&m["data"]));
    Some(w.done())
}

/// MVAR with value records of `rec_size` bytes (the bytes after the 8 defined ones are filler).
fn mvar_bytes2(records: &[(String, u16, u16)], rec_size: usize, ivs: &[u8]) -> Vec<u8> {
    let mut w = W::new();
    w.u16(1).u16(0).u16(0).u16(rec_size as u16).u16(records.len() as u16).u16((12 + rec_size * records.len()) as u16);
    for (k, (tag, o, i)) in records.iter().enumerate() {
        w.tag(tag).u16(*o).u16(*i);
        for j in 8..rec_size {
            w.u8(if j % 2 == 0 { 0x7A } else { (k as u8).wrapping_mul(37).wrapping_add(j as u8) });
        }
    }
    w.bytes(ivs);
    w.done()
}

fn build_case_font2(c: &Value) -> Vec<u8> {
    let axes: Vec<Vec<i64>> = c["axes"].as_array().unwrap().iter().map(ivec).collect();
    let naxes = axes.len();
    let gl = c["glyphs"].as_array().unwrap();
    let mut specs = Vec::new();
    let mut recs = Vec::new();
    let mut metrics = Vec::new();
    let mut tuples: Vec<Option<(Option<Vec<u8>>, Vec<Value>)>> = Vec::new();
    for (gid, g) in gl.iter().enumerate() {
        // header box and side bearing as the specification computes them for the default master
        let b = ivec(&c["boxes"][gid]);
        let bb = if b.len() == 4 { Some((b[0] as i16, b[1] as i16, b[2] as i16, b[3] as i16)) } else { None };
        let spec = match g["kind"].as_str().unwrap() {
            "simple" => {
                let pts: Vec<Pt> = g["pts"]
                    .as_array()
                    .unwrap()
                    .iter()
                    .map(|p| Pt { x: p[0].as_i64().unwrap() as i16, y: p[1].as_i64().unwrap() as i16, on: p[2].as_bool().unwrap() })
                    .collect();
                let mut contours = Vec::new();
                let mut s = 0;
                for e in ivec(&g["ends"]) {
                    contours.push(pts[s..=e as usize].to_vec());
                    s = e as usize + 1;
                }
                GlyphSpec::Simple { contours, instructions: vec![] }
            }
            "composite" => GlyphSpec::Composite {
                components: g["comps"]
                    .as_array()
                    .unwrap()
                    .iter()
                    .map(|p| Component { gid: p[0].as_u64().unwrap() as u16, dx: p[1].as_i64().unwrap() as i16, dy: p[2].as_i64().unwrap() as i16, transform: None, flags_extra: 0 })
                    .collect(),
                instructions: vec![],
            },
            _ => GlyphSpec::Empty,
        };
        recs.push(encode_glyph(&spec, bb));
        specs.push(spec);
        let xmin = bb.map(|b| b.0 as i64).unwrap_or(0);
        metrics.push((g["adv"].as_u64().unwrap() as u16, (xmin - g["pp1"].as_i64().unwrap()) as i16));
        let t = g["gv"]["tuples"].as_array().unwrap().clone();
        tuples.push(if t.is_empty() {
            None
        } else {
            let sp = if g["gv"]["hasShared"].as_bool().unwrap() { Some(bvec(&g["gv"]["shared"])) } else { None };
            Some((sp, t))
        });
    }
    let long = c["long"].as_bool().unwrap();
    let (glyf, loca) = glyf_loca(&recs, long);
    let mut f = TtFont::new(specs);
    f.loca_long = long;
    f.metrics = metrics;
    f.num_h_metrics = c["nhm"].as_u64().unwrap() as u16;
    f.cmap = (1..gl.len()).map(|g| (0x40 + g as u32, g as u16)).collect();
    f.extra_tables.push(("glyf".into(), glyf));
    f.extra_tables.push(("loca".into(), loca));
    f.extra_tables.push(("fvar".into(), fvar_bytes2(&axes, &c["lay"])));
    if c["avar"]["present"].as_bool().unwrap() {
        f.extra_tables.push(("avar".into(), avar_bytes(c["avar"]["maps"].as_array().unwrap())));
    }
    f.extra_tables.push(("gvar".into(), gvar_bytes(naxes, &tuples, long)));
    if c["hvar"]["present"].as_bool().unwrap() {
        let ivs = ivs_bytes2(naxes, c["hvar"]["regions"].as_array().unwrap(), c["hvar"]["subs"].as_array().unwrap());
        let ab = index_map_bytes2(&c["hvar"]["adv"]);
        let lb = index_map_bytes2(&c["hvar"]["lsb"]);
        f.extra_tables.push(("HVAR".into(), hvar_bytes(&ivs, ab.as_deref(), lb.as_deref())));
    }
    if c["mvar"]["present"].as_bool().unwrap() {
        let ivs = ivs_bytes2(naxes, c["mvar"]["regions"].as_array().unwrap(), c["mvar"]["subs"].as_array().unwrap());
        let mut recs: Vec<(String, u16, u16)> = c["mvar"]["recs"]
            .as_array()
            .unwrap()
            .iter()
            .map(|r| (r["tag"].as_str().unwrap().to_string(), r["outer"].as_u64().unwrap() as u16, r["inner"].as_u64().unwrap() as u16))
            .collect();
        recs.sort();
        f.extra_tables.push(("MVAR".into(), mvar_bytes2(&recs, c["mvar"]["recSize"].as_u64().unwrap() as usize, &ivs)));
    }
    build_tt(&f)
}

/// Generation 3: a CFF2 variable font (OTTO) from an abstract font of MC_Cff2Instance. Charstrings and
/// subroutines are the bytes the specification encoded; the harness only lays the tables out.
fn build_case_font3(c: &Value) -> Vec<u8> {
    let naxes = c["naxes"].as_u64().unwrap() as usize;
    let regions: Vec<Vec<[i16; 3]>> = c["regions"]
        .as_array()
        .unwrap()
        .iter()
        .map(|r| r.as_array().unwrap().iter().map(|a| { let v = ivec(a); [v[0] as i16, v[1] as i16, v[2] as i16] }).collect())
        .collect();
    let blist = |v: &Value| -> Vec<Vec<u8>> { v.as_array().unwrap().iter().map(bvec).collect() };
    let spec = cff2::Cff2Spec {
        axis_count: naxes as u16,
        regions,
        ivds: c["ivds"].as_array().unwrap().iter().map(|d| ivec(d).into_iter().map(|x| x as u16).collect()).collect(),
        fds: c["fds"]
            .as_array()
            .unwrap()
            .iter()
            .map(|f| cff2::FdSpec {
                vsindex: f["dvs"].as_i64().filter(|v| *v >= 0).map(|v| v as u16),
                lsubrs: blist(&f["lsubrs"]),
            })
            .collect(),
        sel: ivec(&c["sel"]).into_iter().map(|x| x as u8).collect(),
        sel_fmt: c["selFmt"].as_u64().unwrap() as u8,
        gsubrs: blist(&c["gsubrs"]),
        glyphs: blist(&c["glyphs"]),
    };
    let n = spec.glyphs.len();
    let metrics: Vec<(u16, i16)> = (0..n).map(|g| (500 + 10 * g as u16, 10 + g as i16)).collect();
    let pairs: Vec<(u32, u16)> = (1..n).map(|g| (0x40 + g as u32, g as u16)).collect();
    let tables: Vec<(String, Vec<u8>)> = vec![
        ("head".into(), vh::fontgen::head(1000, false, (0, -200, 1000, 800))),
        ("hhea".into(), vh::fontgen::hhea(n as u16, 800, -200, 1000)),
        ("maxp".into(), vh::fontgen::maxp_cff(n as u16)),
        ("OS/2".into(), vh::fontgen::os2_v4(0x20, 0xFFFF)),
        ("hmtx".into(), vh::fontgen::hmtx(&metrics, &[])),
        ("cmap".into(), vh::fontgen::cmap_format12(&pairs)),
        ("name".into(), vh::fontgen::name(&[(1, "Verif"), (2, "Regular"), (4, "Verif Regular"), (6, "Verif-Regular")])),
        ("post".into(), vh::fontgen::post_v3()),
        ("CFF2".into(), cff2::build_cff2(&spec)),
        ("fvar".into(), fvar_bytes(naxes)),
    ];
    vh::fontgen::build_sfnt(0x4F54544F, &tables)
}

fn replay(cases: &str, out: &str, dump_dir: Option<&str>) {
    let cases = read_ndjson(cases);
    let mut r = Rec { w: NdWriter::create(out), i: 0, instances: 0, panics: 0, failed: 0 };
    for (ci, c) in cases.iter().enumerate() {
        let gen2 = c["gen"].as_u64() == Some(2);
        let gen3 = c["gen"].as_u64() == Some(3);
        let font = if gen3 { build_case_font3(c) } else if gen2 { build_case_font2(c) } else { build_case_font(c) };
        // user values: generation 1 raw 16.16, generation 2 whole design units
        let uscale: i64 = if gen2 { 65536 } else { 1 };
        let naxes = c["naxes"].as_u64().unwrap() as usize;
        let ntol = if gen2 { c["ntol"].clone() } else { json!(vec![0; naxes]) };
        if let Some(d) = dump_dir {
            let _ = std::fs::write(format!("{}/case{}.ttf", d, ci), &font);
        }
        let src = match read_font(&font) {
            Ok(f) => f,
            Err(e) => panic!("harness cannot read its own font: {}", e),
        };
        let dir = read_sfnt_dir(&font, 0).unwrap();
        let gvar = table_bytes(&font, &dir, "gvar");
        let hvar = table_bytes(&font, &dir, "HVAR").and_then(read_hvar).unwrap_or_else(no_hvar);
        let mvar = table_bytes(&font, &dir, "MVAR").and_then(read_mvar);
        for (ui, u) in c["user"].as_array().unwrap().iter().enumerate() {
            let user: Vec<i32> = ivec(u).into_iter().map(|v| (v * uscale) as i32).collect();
            let case = format!("g{}/u{}", ci, ui);
            r.instances += 1;
            match run_instance(&font, &user) {
                Inst::Ok(o, coords) => {
                    let spec = SpecSide { expect: c["expect"].get(ui), norm: c["norm"].get(ui), ntol: ntol.clone(), kinds: c.get("kinds"), stems: c.get("stems") };
                    emit_instance(&mut r, &case, &src, gvar, &hvar, mvar.as_ref(), &user, &o, &coords, 64, &spec)
                }
                Inst::Err(e) => {
                    if e.starts_with("Panic:") {
                        r.panics += 1;
                    }
                    r.failed += 1;
                    // "generated": an error (not only a panic) counts against the property, unless the case says
                    // that refusing the font is a conformant outcome
                    let strict = !c["mayfail"].as_bool().unwrap_or(false);
                    r.ev(&case, "Failed", json!({"user": user, "stage": "instance", "generated": strict}), json!({"err": e}));
                }
            }
        }
    }
    let n = r.w.n;
    r.w.finish();
    println!("{}", json!({"cases": cases.len(), "events": n, "instances": r.instances, "panics": r.panics, "failed": r.failed}));
}

// =============================================================================================
// recording on the repository's variable fonts
// =============================================================================================

fn parse_fvar_axes(d: &[u8]) -> Option<Vec<[i32; 3]>> {
    let off = be16(d, 4)? as usize;
    let n = be16(d, 8)? as usize;
    let size = be16(d, 10)? as usize;
    (0..n)
        .map(|i| {
            let r = off + i * size;
            Some([be32(d, r + 4)? as i32, be32(d, r + 8)? as i32, be32(d, r + 12)? as i32])
        })
        .collect()
}

struct VarFont {
    name: String,
    data: Vec<u8>,
    axes: Vec<[i32; 3]>,
    is_cff2: bool,
}

fn load_var_font(path: &str) -> Option<VarFont> {
    let data = std::fs::read(path).ok()?;
    if data.len() < 12 || !matches!(be32(&data, 0), Some(0x00010000) | Some(0x4F54544F) | Some(0x74727565)) {
        return None;
    }
    let dir = read_sfnt_dir(&data, 0)?;
    let axes = table_bytes(&data, &dir, "fvar").and_then(parse_fvar_axes)?;
    if axes.is_empty() {
        return None;
    }
    let name = path.rsplit('/').next().unwrap_or(path).to_string();
    let is_cff2 = table_bytes(&data, &dir, "CFF2").is_some();
    Some(VarFont { name, data, axes, is_cff2 })
}

/// Instance one font at the given user tuples and record the events.
fn record_font(r: &mut Rec, f: &VarFont, users: &[Vec<i32>], glyph_limit: usize) -> bool {
    let data = &f.data;
    let Some(dir) = read_sfnt_dir(data, 0) else { return false };
    let src = match read_font(data) {
        Ok(s) => s,
        Err(_) => return false,
    };
    let gvar = table_bytes(data, &dir, "gvar");
    let hvar = table_bytes(data, &dir, "HVAR").and_then(read_hvar).unwrap_or_else(no_hvar);
    let mvar = table_bytes(data, &dir, "MVAR").and_then(read_mvar);
    for (ui, user) in users.iter().enumerate() {
        let case = format!("font/{}/u{}", f.name, ui);
        r.instances += 1;
        match run_instance(data, user) {
            Inst::Ok(o, coords) => {
                let spec = SpecSide { expect: None, norm: None, ntol: json!([]), kinds: None, stems: None };
                emit_instance(r, &case, &src, gvar, &hvar, mvar.as_ref(), user, &o, &coords, glyph_limit, &spec)
            }
            Inst::Err(e) => {
                if e.starts_with("Panic:") {
                    r.panics += 1;
                }
                r.failed += 1;
                r.ev(&case, "Failed", json!({"user": user, "stage": "instance", "generated": false}), json!({"err": e}));
            }
        }
    }
    true
}

fn record(seed: u64, per_font: usize, glyph_limit: usize, out: &str) {
    let mut rng = StdRng::seed_from_u64(seed);
    let mut r = Rec { w: NdWriter::create(out), i: 0, instances: 0, panics: 0, failed: 0 };
    let mut fonts = 0;
    let mut cff2 = 0;
    let mut names: Vec<String> = Vec::new();
    for path in repo_fonts() {
        let Some(f) = load_var_font(&path) else { continue };
        let axes = &f.axes;
        // user coordinate tuples: default, all-min, all-max, one axis at a time at its ends and
        // half way, then seeded random ones (some values outside the axis range)
        let dflt: Vec<i32> = axes.iter().map(|a| a[1]).collect();
        let mut users: Vec<Vec<i32>> = vec![
            dflt.clone(),
            axes.iter().map(|a| a[0]).collect(),
            axes.iter().map(|a| a[2]).collect(),
        ];
        for (k, a) in axes.iter().enumerate() {
            for v in [a[0], a[2], ((a[0] as i64 + a[1] as i64) / 2) as i32, ((a[1] as i64 + a[2] as i64) / 2) as i32] {
                if v != a[1] {
                    let mut u = dflt.clone();
                    u[k] = v;
                    if !users.contains(&u) {
                        users.push(u);
                    }
                }
            }
        }
        for _ in 0..per_font {
            users.push(
                axes.iter()
                    .map(|a| {
                        let (mn, mx) = (a[0] as i64, a[2] as i64);
                        match rng.gen_range(0..8) {
                            0 => a[1],
                            1 => (mn - 65536).max(i32::MIN as i64) as i32,
                            2 => (mx + 65536).min(i32::MAX as i64) as i32,
                            _ if mn < mx => rng.gen_range(mn..=mx) as i32,
                            _ => a[1],
                        }
                    })
                    .collect(),
            );
        }
        if record_font(&mut r, &f, &users, glyph_limit) {
            fonts += 1;
            cff2 += f.is_cff2 as usize;
            names.push(f.name.clone());
        }
    }
    let n = r.w.n;
    r.w.finish();
    println!(
        "{}",
        json!({"events": n, "fonts": fonts, "cff2_fonts": cff2, "instances": r.instances, "panics": r.panics,
               "failed": r.failed, "font_names": names})
    );
}

/// One repository font (by file name) at one user tuple: used by the replay of a finding.
fn one(name: &str, user: Vec<i32>, out: &str) {
    let mut r = Rec { w: NdWriter::create(out), i: 0, instances: 0, panics: 0, failed: 0 };
    for path in repo_fonts() {
        if path.rsplit('/').next() == Some(name) {
            if let Some(f) = load_var_font(&path) {
                record_font(&mut r, &f, &[user.clone()], 1 << 16);
            }
        }
    }
    let n = r.w.n;
    r.w.finish();
    println!("{}", json!({"events": n, "instances": r.instances, "panics": r.panics, "failed": r.failed}));
}

fn main() {
    let args: Vec<String> = std::env::args().collect();
    match args.get(1).map(|s| s.as_str()) {
        Some("replay") => replay(&args[2], &args[3], args.get(4).map(|s| s.as_str())),
        Some("record") => record(
            args[2].parse().expect("seed"),
            args[3].parse().expect("coords per font"),
            args[4].parse().expect("glyph limit"),
            &args[5],
        ),
        Some("one") => one(&args[2], args[4..].iter().map(|v| v.parse().expect("user value")).collect(), &args[3]),
        _ => {
            eprintln!("usage: c12_instance replay <cases> <trace> [dumpdir] | record <seed> <n> <glyph-limit> <trace> | one <font file name> <trace> <user raw 16.16>...");
            std::process::exit(2);
        }
    }
}
