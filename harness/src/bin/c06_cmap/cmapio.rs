//! Abstract cmap subtables (the vocabulary of specs/Cmap.tla), an encoder to real bytes and an
//! independent reader. Nothing here calls allsorts. Shared by c06_cmap and c08_cmapsubset.
#![allow(dead_code)]
use serde_json::{json, Value};
use vh::fontgen::{be16, be32, W};

#[derive(Clone, Debug, PartialEq)]
pub enum Tab {
    F0 { gia: Vec<u16> },
    /// keys: raw subHeaderKeys; subs: (firstCode, entryCount, idDelta, idRangeOffset raw)
    F2 { keys: Vec<u16>, subs: Vec<(u16, u16, i16, u16)>, gia: Vec<u16> },
    /// segs: (start, end, idDelta, idRangeOffset raw)
    F4 { segs: Vec<(u16, u16, i16, u16)>, gia: Vec<u16> },
    F6 { first: u16, gia: Vec<u16> },
    F10 { first: u32, gia: Vec<u16> },
    /// groups: (startCharCode, endCharCode, startGlyphID)
    F12 { groups: Vec<(u32, u32, u32)> },
    /// Unicode variation sequences subtable with no selector records (not a character map)
    F14,
}

fn arr_u16(v: &Value) -> Vec<u16> {
    v.as_array().map(|a| a.iter().map(|x| x.as_i64().unwrap_or(0) as u16).collect()).unwrap_or_default()
}

impl Tab {
    pub fn fmt(&self) -> u16 {
        match self {
            Tab::F0 { .. } => 0,
            Tab::F2 { .. } => 2,
            Tab::F4 { .. } => 4,
            Tab::F6 { .. } => 6,
            Tab::F10 { .. } => 10,
            Tab::F12 { .. } => 12,
            Tab::F14 => 14,
        }
    }

    pub fn from_json(v: &Value) -> Tab {
        let fmt = v["fmt"].as_i64().expect("fmt");
        match fmt {
            0 => Tab::F0 { gia: arr_u16(&v["gia"]) },
            2 => Tab::F2 {
                keys: arr_u16(&v["keys"]),
                subs: v["subs"]
                    .as_array()
                    .map(|a| {
                        a.iter()
                            .map(|s| {
                                (
                                    s["first"].as_i64().unwrap() as u16,
                                    s["count"].as_i64().unwrap() as u16,
                                    s["delta"].as_i64().unwrap() as i16,
                                    s["ro"].as_i64().unwrap() as u16,
                                )
                            })
                            .collect()
                    })
                    .unwrap_or_default(),
                gia: arr_u16(&v["gia"]),
            },
            4 => Tab::F4 {
                segs: v["segs"]
                    .as_array()
                    .map(|a| {
                        a.iter()
                            .map(|s| {
                                (
                                    s["s"].as_i64().unwrap() as u16,
                                    s["e"].as_i64().unwrap() as u16,
                                    s["delta"].as_i64().unwrap() as i16,
                                    s["ro"].as_i64().unwrap() as u16,
                                )
                            })
                            .collect()
                    })
                    .unwrap_or_default(),
                gia: arr_u16(&v["gia"]),
            },
            6 => Tab::F6 { first: v["first"].as_i64().unwrap() as u16, gia: arr_u16(&v["gia"]) },
            10 => Tab::F10 { first: v["first"].as_i64().unwrap() as u32, gia: arr_u16(&v["gia"]) },
            12 => Tab::F12 {
                groups: v["groups"]
                    .as_array()
                    .map(|a| {
                        a.iter()
                            .map(|g| {
                                (
                                    g["s"].as_i64().unwrap() as u32,
                                    g["e"].as_i64().unwrap() as u32,
                                    g["g"].as_i64().unwrap() as u32,
                                )
                            })
                            .collect()
                    })
                    .unwrap_or_default(),
            },
            14 => Tab::F14,
            _ => panic!("unsupported abstract format {}", fmt),
        }
    }

    pub fn to_json(&self) -> Value {
        match self {
            Tab::F0 { gia } => json!({"fmt": 0, "gia": gia}),
            Tab::F2 { keys, subs, gia } => json!({"fmt": 2, "keys": keys,
                "subs": subs.iter().map(|s| json!({"first": s.0, "count": s.1, "delta": s.2, "ro": s.3})).collect::<Vec<_>>(),
                "gia": gia}),
            Tab::F4 { segs, gia } => json!({"fmt": 4,
                "segs": segs.iter().map(|s| json!({"s": s.0, "e": s.1, "delta": s.2, "ro": s.3})).collect::<Vec<_>>(),
                "gia": gia}),
            Tab::F6 { first, gia } => json!({"fmt": 6, "first": first, "gia": gia}),
            Tab::F10 { first, gia } => json!({"fmt": 10, "first": first, "gia": gia}),
            Tab::F12 { groups } => json!({"fmt": 12,
                "groups": groups.iter().map(|g| json!({"s": g.0, "e": g.1, "g": g.2})).collect::<Vec<_>>()}),
            Tab::F14 => json!({"fmt": 14}),
        }
    }

    /// Real subtable bytes, laid out as the OpenType specification describes each format.
    pub fn encode(&self) -> Vec<u8> {
        let mut w = W::new();
        match self {
            Tab::F0 { gia } => {
                w.u16(0).u16((6 + gia.len()) as u16).u16(0);
                for g in gia {
                    w.u8(*g as u8);
                }
            }
            Tab::F2 { keys, subs, gia } => {
                let len = 6 + 512 + 8 * subs.len() + 2 * gia.len();
                w.u16(2).u16(len as u16).u16(0);
                for k in keys {
                    w.u16(*k);
                }
                for s in subs {
                    w.u16(s.0).u16(s.1).i16(s.2).u16(s.3);
                }
                for g in gia {
                    w.u16(*g);
                }
            }
            Tab::F4 { segs, gia } => {
                let n = segs.len();
                let mut es = 0u16;
                while (1usize << (es + 1)) <= n {
                    es += 1;
                }
                let sr = 2 * (1u32 << es);
                let len = 16 + 8 * n + 2 * gia.len();
                w.u16(4).u16(len as u16).u16(0).u16((2 * n) as u16);
                w.u16(sr as u16).u16(es).u16((2 * n as u32).wrapping_sub(sr) as u16);
                for s in segs {
                    w.u16(s.1);
                }
                w.u16(0);
                for s in segs {
                    w.u16(s.0);
                }
                for s in segs {
                    w.i16(s.2);
                }
                for s in segs {
                    w.u16(s.3);
                }
                for g in gia {
                    w.u16(*g);
                }
            }
            Tab::F6 { first, gia } => {
                w.u16(6).u16((10 + 2 * gia.len()) as u16).u16(0).u16(*first).u16(gia.len() as u16);
                for g in gia {
                    w.u16(*g);
                }
            }
            Tab::F10 { first, gia } => {
                w.u16(10).u16(0).u32((20 + 2 * gia.len()) as u32).u32(0).u32(*first).u32(gia.len() as u32);
                for g in gia {
                    w.u16(*g);
                }
            }
            Tab::F12 { groups } => {
                w.u16(12).u16(0).u32((16 + 12 * groups.len()) as u32).u32(0).u32(groups.len() as u32);
                for g in groups {
                    w.u32(g.0).u32(g.1).u32(g.2);
                }
            }
            Tab::F14 => {
                // format, length, numVarSelectorRecords
                w.u16(14).u32(10).u32(0);
            }
        }
        w.done()
    }

    /// Independent reader of one subtable starting at `d[0]`. None: unsupported format or
    /// truncated data.
    pub fn decode(d: &[u8]) -> Option<Tab> {
        let fmt = be16(d, 0)?;
        match fmt {
            0 => {
                let gia: Vec<u16> = d.get(6..262)?.iter().map(|b| *b as u16).collect();
                Some(Tab::F0 { gia })
            }
            2 => {
                let length = be16(d, 2)? as usize;
                let mut keys = Vec::with_capacity(256);
                for i in 0..256 {
                    keys.push(be16(d, 6 + 2 * i)?);
                }
                let nsub = (*keys.iter().max()? / 8) as usize + 1;
                let mut subs = Vec::new();
                for k in 0..nsub {
                    let at = 518 + 8 * k;
                    subs.push((be16(d, at)?, be16(d, at + 2)?, be16(d, at + 4)? as i16, be16(d, at + 6)?));
                }
                let gstart = 518 + 8 * nsub;
                let end = length.min(d.len());
                let mut gia = Vec::new();
                let mut at = gstart;
                while at + 2 <= end {
                    gia.push(be16(d, at)?);
                    at += 2;
                }
                Some(Tab::F2 { keys, subs, gia })
            }
            4 => {
                let length = be16(d, 2)? as usize;
                let n = (be16(d, 6)? / 2) as usize;
                let ends = 14;
                let starts = ends + 2 * n + 2;
                let deltas = starts + 2 * n;
                let ros = deltas + 2 * n;
                let gstart = ros + 2 * n;
                let mut segs = Vec::with_capacity(n);
                for i in 0..n {
                    segs.push((
                        be16(d, starts + 2 * i)?,
                        be16(d, ends + 2 * i)?,
                        be16(d, deltas + 2 * i)? as i16,
                        be16(d, ros + 2 * i)?,
                    ));
                }
                let end = length.min(d.len());
                let mut gia = Vec::new();
                let mut at = gstart;
                while at + 2 <= end {
                    gia.push(be16(d, at)?);
                    at += 2;
                }
                Some(Tab::F4 { segs, gia })
            }
            6 => {
                let first = be16(d, 6)?;
                let n = be16(d, 8)? as usize;
                let mut gia = Vec::with_capacity(n);
                for i in 0..n {
                    gia.push(be16(d, 10 + 2 * i)?);
                }
                Some(Tab::F6 { first, gia })
            }
            10 => {
                let first = be32(d, 12)?;
                let n = be32(d, 16)? as usize;
                if n > d.len() {
                    return None;
                }
                let mut gia = Vec::with_capacity(n);
                for i in 0..n {
                    gia.push(be16(d, 20 + 2 * i)?);
                }
                Some(Tab::F10 { first, gia })
            }
            12 => {
                let n = be32(d, 12)? as usize;
                if n > d.len() {
                    return None;
                }
                let mut groups = Vec::with_capacity(n);
                for i in 0..n {
                    let at = 16 + 12 * i;
                    groups.push((be32(d, at)?, be32(d, at + 4)?, be32(d, at + 8)?));
                }
                Some(Tab::F12 { groups })
            }
            _ => None,
        }
    }

    /// The codes the subtable lists, in ascending order (structure only, no glyph lookup).
    pub fn covered(&self) -> Vec<u32> {
        let mut out: Vec<u32> = Vec::new();
        match self {
            Tab::F0 { gia } => out.extend(0..gia.len() as u32),
            Tab::F2 { keys, subs, .. } => {
                for hi in 0..256u32 {
                    let k = (keys[hi as usize] / 8) as usize;
                    if k >= subs.len() {
                        continue;
                    }
                    let (first, count, _, _) = subs[k];
                    if k == 0 {
                        if hi >= first as u32 && hi < first as u32 + count as u32 {
                            out.push(hi);
                        }
                    } else {
                        for lo in first as u32..(first as u32 + count as u32).min(256) {
                            out.push(hi * 256 + lo);
                        }
                    }
                }
            }
            Tab::F4 { segs, .. } => {
                for s in segs {
                    if s.0 <= s.1 {
                        out.extend(s.0 as u32..=s.1 as u32);
                    }
                }
            }
            Tab::F6 { first, gia } => out.extend(*first as u32..*first as u32 + gia.len() as u32),
            Tab::F10 { first, gia } => out.extend(*first..first.saturating_add(gia.len() as u32)),
            Tab::F12 { groups } => {
                for g in groups {
                    if g.0 <= g.1 && g.1 <= 0x10FFFF {
                        out.extend(g.0..=g.1);
                    }
                }
            }
            Tab::F14 => {}
        }
        out.sort_unstable();
        out.dedup();
        out
    }

    /// Structural boundaries of the table (segment / group ends, array ends) and their neighbours.
    pub fn boundaries(&self) -> Vec<u32> {
        let mut b: Vec<i64> = vec![0, 0xFFFF, 0x10000, 0x10FFFF];
        match self {
            Tab::F0 { gia } => b.extend([gia.len() as i64 - 1, gia.len() as i64]),
            Tab::F2 { .. } => {}
            Tab::F4 { segs, .. } => {
                for s in segs {
                    b.extend([s.0 as i64 - 1, s.0 as i64, s.1 as i64, s.1 as i64 + 1]);
                }
            }
            Tab::F6 { first, gia } => {
                b.extend([*first as i64 - 1, *first as i64, *first as i64 + gia.len() as i64 - 1, *first as i64 + gia.len() as i64])
            }
            Tab::F10 { first, gia } => {
                b.extend([*first as i64 - 1, *first as i64, *first as i64 + gia.len() as i64 - 1, *first as i64 + gia.len() as i64])
            }
            Tab::F12 { groups } => {
                for g in groups {
                    b.extend([g.0 as i64 - 1, g.0 as i64, g.1 as i64, g.1 as i64 + 1]);
                }
            }
            Tab::F14 => {}
        }
        let mut out: Vec<u32> = b.into_iter().filter(|x| *x >= 0 && *x <= 0x10FFFF).map(|x| x as u32).collect();
        out.sort_unstable();
        out.dedup();
        out
    }
}

/// One encoding record of a cmap table as read by the independent reader.
#[derive(Clone, Debug)]
pub struct EncRec {
    pub p: u16,
    pub e: u16,
    pub off: u32,
    /// format word at the offset (0xFFFF when outside the table)
    pub fmt: u16,
}

/// Independent reader of the cmap header.
pub fn read_cmap_header(d: &[u8]) -> Option<Vec<EncRec>> {
    let _version = be16(d, 0)?;
    let n = be16(d, 2)? as usize;
    let mut out = Vec::with_capacity(n);
    for i in 0..n {
        let at = 4 + 8 * i;
        let off = be32(d, at + 4)?;
        let fmt = be16(d, off as usize).unwrap_or(0xFFFF);
        out.push(EncRec { p: be16(d, at)?, e: be16(d, at + 2)?, off, fmt });
    }
    Some(out)
}

/// A cmap table with the given records; every record gets its own copy of its subtable.
/// Returns (table bytes, offset of each record's subtable).
pub fn build_cmap(recs: &[(u16, u16, Tab)]) -> (Vec<u8>, Vec<u32>) {
    let mut w = W::new();
    w.u16(0).u16(recs.len() as u16);
    let mut off = 4 + 8 * recs.len();
    let mut offs = Vec::new();
    let bodies: Vec<Vec<u8>> = recs.iter().map(|r| r.2.encode()).collect();
    for (r, b) in recs.iter().zip(&bodies) {
        w.u16(r.0).u16(r.1).u32(off as u32);
        offs.push(off as u32);
        off += b.len();
        if off % 2 == 1 {
            off += 1;
        }
    }
    for b in &bodies {
        w.bytes(b);
        if w.len() % 2 == 1 {
            w.u8(0);
        }
    }
    (w.done(), offs)
}
