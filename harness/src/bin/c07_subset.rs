//! C07 harness: subsetting preserves the outlines and metrics of retained glyphs.
//! It decides nothing: `replay` compares what independent readers see in allsorts' output with the
//! prescription computed by TLC (MC_Subset) by plain JSON equality; `record` (and a sample of the
//! replayed cases) writes events that Trace_Subset judges.
//!
//!   c07_subset replay <cases.ndjson> <mismatches.ndjson> <trace.ndjson> <trace-every-nth-case>
//!       every CASE of MC_Subset: a glyf font is synthesized (composite graph with component records as
//!       the case says - flags, argument width, arguments, transform -, instructions, empty glyphs, hmtx
//!       with numberOfHMetrics as prescribed, a distinct shape / advance / lsb per glyph; glyph records by
//!       the harness's own writer), allsorts `subset::subset` is called, the output is read with the
//!       independent readers (c07_subset/{ind,glyph}.rs): glyph count, per new glyph the outline
//!       flattened through the components (leaf + placement path), advance, lsb, the record's own
//!       component fields and instructions.
//!   c07_subset replay-cff <cases.ndjson> <mismatches.ndjson>
//!       every CASE of MC_SubsetCff (name-keyed CFF: glyph names in and out of ISOAdobe order, accented glyphs = the seac
//!       form of endchar, every request list; the representation of the source rotates: hdrSize, offSize, Top DICT order,
//!       charset / Encoding forms, block order, Private DICT variants): see c07_subset/cffcase.rs.
//!   c07_subset replay-cid <cases.ndjson> <mismatches.ndjson>
//!       every CASE of MC_SubsetCid (CID-keyed and name-keyed CFF with subroutines: Font DICT per glyph, call pattern per
//!       glyph - nested, global calling local -, subroutine counts on both sides of the bias boundaries, every request
//!       list; representation incl. FDSelect format rotating): see c07_subset/cidcase.rs.
//!   c07_subset record <seed> <quick|thorough> <trace.ndjson>
//!       repository fonts (glyf, CFF name-keyed / CID-keyed / with subroutines, CFF2; fonts and composites
//!       selected by what their component records carry) and the synthesized CFF-family fonts of
//!       c07_subset/syn.rs (subroutines, Font DICTs, operands on every number-encoding boundary), read from
//!       OpenType and, for a sample, re-wrapped as WOFF and WOFF2 by the harness's own writers, x glyph
//!       id lists from patterns -> `subset::subset` / `subset::prince::subset`.
//!       Round 3: the glyf font of a replayed case is written under the representation the case names
//!       (c07_subset/rep.rs: numberOfContours of composites, loca forms, zero-contour records, flag encodings,
//!       unsorted directory); record also runs the size-boundary fonts of c07_subset/sizes.rs with their
//!       solver-chosen lists (tallies `size:` / `ladder:` / `count:` from the plan, `measured:` from the output),
//!       solver-chosen lists on repository CFF fonts and three repository glyf fonts re-encoded by rep::reencode.
//!   c07_subset probe          lists the repository fonts with their classification
//!   c07_subset sizes [thorough]   lists the size-boundary fonts, their lists and predictions
//!
//! Events:
//!  {"ev":"Subset","a":{"kind","api","n_src","ids"},
//!   "o":{"ok","panic","err","n_out","olds":[old id per new glyph, -1 unknown],"src_comps":[[old ids]..],"out_comps":[[new ids]..]}}
//!  {"ev":"Glyph","a":{"kind","new","old","metrics":bool,"ind":bool},
//!   "o":{"src":{"ok","err","cmds"},"out":{...},"adv":[src,out],"lsb":[src,out],"isrc":{..},"iout":{..}}}
//!  isrc / iout: {"kind","ends","pts":[[x,y,on]..],"comps":[[flags & 0x1ECE, arg1, arg2, [F2Dot14 raw..]]..],"instr":[bytes]}
//!  cmds: [1,x,y] move_to [2,x,y] line_to [3,cx,cy,x,y] quadratic [4,c1x,c1y,c2x,c2y,x,y] cubic [5] close; 1/16384 unit.
use allsorts::binary::read::ReadScope;
use allsorts::cff::cff2::CFF2;
use allsorts::cff::outline::CFF2Outlines;
use allsorts::cff::CFF;
use allsorts::font_data::FontData;
use allsorts::outline::{OutlineBuilder, OutlineSink};
use allsorts::pathfinder_geometry::line_segment::LineSegment2F;
use allsorts::pathfinder_geometry::vector::Vector2F;
use allsorts::subset::prince::{self, PrinceCmapTarget};
use allsorts::subset::subset;
use allsorts::tables::glyf::GlyfTable;
use allsorts::tables::loca::LocaTable;
use allsorts::tables::variable_fonts::fvar::FvarTable;
use allsorts::tables::{F2Dot14, FontTableProvider, HeadTable, MaxpTable};
use allsorts::tag;
use rand::rngs::StdRng;
use rand::seq::SliceRandom;
use rand::{Rng, SeedableRng};
use serde_json::{json, Value};
use std::collections::BTreeMap;
use std::io::{BufRead, BufReader};
use vh::fontgen::{self, GlyphSpec, Pt, TtFont};
use vh::sup::{guarded, panic_key, Outcome};
use vh::util::{repo_fonts, repo_root, NdWriter};

#[allow(dead_code)]
#[path = "c07_subset/brotli.rs"]
mod brotli;
#[allow(dead_code)]
#[path = "c07_subset/enc.rs"]
mod enc;
#[allow(dead_code)]
#[path = "c07_subset/glyph.rs"]
mod glyph;
#[allow(dead_code)]
#[path = "c07_subset/cffw.rs"]
mod cffw;
#[path = "c07_subset/cffcase.rs"]
mod cffcase;
#[path = "c07_subset/cffrep.rs"]
mod cffrep;
#[path = "c07_subset/cidcase.rs"]
mod cidcase;
#[path = "c07_subset/ind.rs"]
mod ind;
#[path = "c07_subset/rep.rs"]
mod rep;
#[path = "c07_subset/sizes.rs"]
mod sizes;
#[path = "c07_subset/syn.rs"]
mod syn;

use glyph::{GlyphRec, Kind};
use ind::Tables;

const FINE: f64 = 16384.0;
/// component flag bits that bear on the outline (not: ARGS_ARE_WORDS, MORE_COMPONENTS, WE_HAVE_INSTRUCTIONS, reserved)
const COMP_SEM: u16 = 0x1ECE;

// ---- allsorts' outline visitors ---------------------------------------------------------------------

struct RecSink {
    cmds: Vec<Vec<i64>>,
    finite: bool,
}

impl RecSink {
    fn new() -> RecSink {
        RecSink { cmds: Vec::new(), finite: true }
    }
    fn q(&mut self, v: f32) -> i64 {
        if !v.is_finite() || v.abs() >= 65536.0 {
            self.finite = false;
            return 0;
        }
        (v as f64 * FINE).round() as i64
    }
}

impl OutlineSink for RecSink {
    fn move_to(&mut self, to: Vector2F) {
        let c = vec![1, self.q(to.x()), self.q(to.y())];
        self.cmds.push(c);
    }
    fn line_to(&mut self, to: Vector2F) {
        let c = vec![2, self.q(to.x()), self.q(to.y())];
        self.cmds.push(c);
    }
    fn quadratic_curve_to(&mut self, ctrl: Vector2F, to: Vector2F) {
        let c = vec![3, self.q(ctrl.x()), self.q(ctrl.y()), self.q(to.x()), self.q(to.y())];
        self.cmds.push(c);
    }
    fn cubic_curve_to(&mut self, ctrl: LineSegment2F, to: Vector2F) {
        let c = vec![4, self.q(ctrl.from_x()), self.q(ctrl.from_y()), self.q(ctrl.to_x()), self.q(ctrl.to_y()), self.q(to.x()), self.q(to.y())];
        self.cmds.push(c);
    }
    fn close(&mut self) {
        self.cmds.push(vec![5]);
    }
}

fn visit_one<B: OutlineBuilder>(b: &mut B, g: u16) -> Value
where
    B::Error: std::fmt::Debug,
{
    let mut sink = RecSink::new();
    match guarded(|| b.visit(g, &mut sink)) {
        Outcome::Returned(Ok(())) if sink.finite => json!({"ok": true, "err": "", "cmds": sink.cmds}),
        Outcome::Returned(Ok(())) => json!({"ok": false, "err": "non-finite coordinate", "cmds": []}),
        Outcome::Returned(Err(e)) => json!({"ok": false, "err": format!("{:?}", e), "cmds": []}),
        Outcome::Panicked(m) => json!({"ok": false, "err": format!("Panic:{}", panic_key(&m)), "cmds": []}),
    }
}

fn visit_failed(why: String, n: usize) -> Vec<Value> {
    (0..n).map(|_| json!({"ok": false, "err": why, "cmds": []})).collect()
}

/// Outlines of the given glyphs as allsorts' own visitors deliver them (CFF2: at the default instance).
fn visit_many(prov: &impl FontTableProvider, gids: &[u16]) -> Vec<Value> {
    let r = guarded(|| -> Result<Vec<Value>, String> {
        let e = |x: allsorts::error::ParseError| format!("setup:{:?}", x);
        if prov.has_table(tag::GLYF) {
            let head = ReadScope::new(&prov.read_table_data(tag::HEAD).map_err(e)?).read::<HeadTable>().map_err(e)?;
            let maxp = ReadScope::new(&prov.read_table_data(tag::MAXP).map_err(e)?).read::<MaxpTable>().map_err(e)?;
            let loca_data = prov.read_table_data(tag::LOCA).map_err(e)?;
            let loca = ReadScope::new(&loca_data)
                .read_dep::<LocaTable<'_>>((usize::from(maxp.num_glyphs), head.index_to_loc_format))
                .map_err(e)?;
            let glyf_data = prov.read_table_data(tag::GLYF).map_err(e)?;
            let mut glyf = ReadScope::new(&glyf_data).read_dep::<GlyfTable<'_>>(&loca).map_err(e)?;
            Ok(gids.iter().map(|&g| visit_one(&mut glyf, g)).collect())
        } else if prov.has_table(tag::CFF) {
            let d = prov.read_table_data(tag::CFF).map_err(e)?;
            let mut cff = ReadScope::new(&d).read::<CFF<'_>>().map_err(e)?;
            Ok(gids.iter().map(|&g| visit_one(&mut cff, g)).collect())
        } else if prov.has_table(tag::CFF2) {
            let d = prov.read_table_data(tag::CFF2).map_err(e)?;
            let cff2 = ReadScope::new(&d).read::<CFF2<'_>>().map_err(e)?;
            // a variable font is visited at its default instance (all normalised coordinates 0)
            let tuple = match prov.table_data(tag::FVAR).map_err(e)? {
                Some(fd) => {
                    let fvar = ReadScope::new(&fd).read::<FvarTable<'_>>().map_err(e)?;
                    let zeros: Vec<F2Dot14> = fvar.axes().map(|_| F2Dot14::from_raw(0)).collect();
                    fvar.owned_tuple(&zeros)
                }
                None => None,
            };
            let mut o = CFF2Outlines { table: &cff2, tuple: tuple.as_ref() };
            Ok(gids.iter().map(|&g| visit_one(&mut o, g)).collect())
        } else {
            Err("setup:no outline table".to_string())
        }
    });
    match r {
        Outcome::Returned(Ok(v)) => v,
        Outcome::Returned(Err(why)) => visit_failed(why, gids.len()),
        Outcome::Panicked(m) => visit_failed(format!("Panic:{}", panic_key(&m)), gids.len()),
    }
}

fn visit_cff_bytes(d: &[u8], gids: &[u16]) -> Vec<Value> {
    let r = guarded(|| -> Result<Vec<Value>, String> {
        let mut cff = ReadScope::new(d).read::<CFF<'_>>().map_err(|x| format!("setup:{:?}", x))?;
        Ok(gids.iter().map(|&g| visit_one(&mut cff, g)).collect())
    });
    match r {
        Outcome::Returned(Ok(v)) => v,
        Outcome::Returned(Err(why)) => visit_failed(why, gids.len()),
        Outcome::Panicked(m) => visit_failed(format!("Panic:{}", panic_key(&m)), gids.len()),
    }
}

// ---- projections of independent readings ---------------------------------------------------------------

fn irec(g: Option<&Result<GlyphRec, String>>) -> Value {
    match g {
        None => json!({"kind": "missing", "ends": [], "pts": [], "comps": [], "instr": []}),
        Some(Err(why)) => json!({"kind": format!("unreadable:{}", why), "ends": [], "pts": [], "comps": [], "instr": []}),
        Some(Ok(r)) => json!({
            "kind": match r.kind { Kind::Empty => "empty", Kind::Simple => "simple", Kind::Composite => "composite" },
            "ends": r.ends,
            "pts": r.pts.iter().map(|p| json!([p.0, p.1, p.2 as u8])).collect::<Vec<_>>(),
            // the component's glyph id is judged in the Subset event; here what positions and scales it
            "comps": r.comps.iter().map(placement).collect::<Vec<_>>(),
            "instr": r.instr,
        }),
    }
}

fn no_irec() -> Value {
    json!({"kind": "none", "ends": [], "pts": [], "comps": [], "instr": []})
}

/// Everything that places and shapes a component, as the independent reader sees it (PlacementOf of
/// Subset.tla): flag bits that bear on the glyph, the two arguments, the F2Dot14 raw values.
fn placement(c: &glyph::Comp) -> Value {
    json!([c.flags & COMP_SEM, c.a1, c.a2, c.tr])
}

/// Which families of component records a composite exercises (vacuity counters, selection by property).
fn comp_features(r: &GlyphRec) -> Vec<&'static str> {
    let mut f = Vec::new();
    if r.kind != Kind::Composite {
        return f;
    }
    for c in &r.comps {
        f.push(match c.tr.len() {
            0 => "tr:none",
            1 => "tr:scale",
            2 => "tr:xy-scale",
            _ => "tr:two-by-two",
        });
        if c.tr.len() == 4 && c.tr[1] != c.tr[2] {
            f.push("tr:two-by-two-asymmetric");
        }
        if c.tr.iter().any(|&v| v < 0) {
            f.push("tr:negative-value");
        }
        f.push(if c.flags & 1 != 0 { "args:words" } else { "args:bytes" });
        f.push(if c.flags & 2 != 0 { "args:xy-values" } else { "args:point-numbers" });
        if c.flags & 2 != 0 && (c.a1 < 0 || c.a2 < 0) {
            f.push("args:negative-offset");
        }
        for (bit, name) in [(0x0004u16, "flag:round-xy-to-grid"), (0x0200, "flag:use-my-metrics"), (0x0400, "flag:overlap-compound"), (0x0800, "flag:scaled-component-offset"), (0x1000, "flag:unscaled-component-offset")] {
            if c.flags & bit != 0 {
                f.push(name);
            }
        }
    }
    if !r.instr.is_empty() {
        f.push("instructions");
    }
    f.sort();
    f.dedup();
    f
}

/// rarest first: what a seeded sample of a font's composites is most likely to miss
const COMP_FEATURE_PRIORITY: [&str; 16] = [
    "tr:two-by-two-asymmetric", "tr:two-by-two", "tr:xy-scale", "tr:negative-value", "tr:scale", "args:point-numbers", "instructions",
    "flag:use-my-metrics", "flag:overlap-compound", "flag:scaled-component-offset", "flag:unscaled-component-offset",
    "flag:round-xy-to-grid", "args:negative-offset", "args:words", "args:bytes", "tr:none",
];

/// The old glyph every new glyph stands for, as far as the output itself tells: position in the
/// requested list, then component k of a new composite <-> component k of its old record.
fn derive_olds(ids: &[u16], n_out: usize, out_comps: &[Vec<u16>], src_comps: &dyn Fn(u16) -> Vec<u16>) -> Vec<i64> {
    let mut olds = vec![-1i64; n_out];
    for (i, &g) in ids.iter().enumerate().take(n_out) {
        olds[i] = g as i64;
    }
    let mut changed = true;
    while changed {
        changed = false;
        for p in 0..n_out {
            if olds[p] < 0 {
                continue;
            }
            let sc = src_comps(olds[p] as u16);
            for (k, &c) in out_comps[p].iter().enumerate() {
                if (c as usize) < n_out && olds[c as usize] < 0 && k < sc.len() {
                    olds[c as usize] = sc[k] as i64;
                    changed = true;
                }
            }
        }
    }
    olds
}

/// What the independent readers know about a source font.
struct IndSrc {
    n: usize,
    nhm: usize,
    adv: Vec<u16>,
    lsb: Vec<i16>,
    /// glyph records (empty unless the font has glyf/loca)
    glyphs: Vec<Result<GlyphRec, String>>,
    /// synthesized CFF-family fonts: the glyphs whose charstring operands sit on the number-encoding
    /// boundaries: glyph id -> (family, the key values among its integer operands, number of 16.16 operands)
    bounds: BTreeMap<u16, (&'static str, Vec<i32>, usize)>,
    /// synthesized name-keyed CFF fonts: accented glyphs (seac form of endchar): glyph id -> (base glyph, accent glyph)
    seac: BTreeMap<u16, (u16, u16)>,
    /// the source's Top DICT has no charset operator (ISOAdobe by default)
    no_charset_op: bool,
}

impl IndSrc {
    fn of(t: &Tables) -> Result<IndSrc, String> {
        let n = t.num_glyphs().ok_or("no maxp")?;
        let nhm = t.num_h_metrics().ok_or("no hhea")?;
        let (adv, lsb) = t.h_metrics()?;
        let glyphs = if t.has("glyf") { t.glyphs()? } else { vec![] };
        Ok(IndSrc { n, nhm, adv, lsb, glyphs, bounds: BTreeMap::new(), seac: BTreeMap::new(), no_charset_op: false })
    }
    fn comps(&self, g: u16) -> Vec<u16> {
        self.glyphs.get(g as usize).map(ind::comp_gids).unwrap_or_default()
    }
}

struct Rec {
    w: NdWriter,
    i: u64,
    tally: BTreeMap<String, u64>,
}

impl Rec {
    fn ev(&mut self, case: &str, ev: &str, a: Value, o: Value) {
        self.i += 1;
        self.w.write(&json!({"i": self.i, "case": case, "ev": ev, "a": a, "o": o}));
    }
    fn bump(&mut self, k: &str, by: u64) {
        *self.tally.entry(k.to_string()).or_default() += by;
    }
}

/// One call of a subsetting entry point, turned into events. `result`: the bytes returned (an sfnt, or a
/// bare CFF table when `bare_cff`). `visit_src` visits glyphs of the source through allsorts.
#[allow(clippy::too_many_arguments)]
fn subset_events(
    rec: &mut Rec,
    case: &str,
    kind: &str,
    api: &str,
    src: &IndSrc,
    ids: &[u16],
    result: Outcome<Result<Vec<u8>, String>>,
    bare_cff: bool,
    visit_src: &dyn Fn(&[u16]) -> Vec<Value>,
) {
    let a = json!({"kind": kind, "api": api, "n_src": src.n, "ids": ids});
    let fail = |rec: &mut Rec, panic: bool, err: String| {
        rec.ev(case, "Subset", a.clone(), json!({"ok": false, "panic": panic, "err": err, "n_out": 0, "olds": [], "src_comps": [], "out_comps": []}));
    };
    let bytes = match result {
        Outcome::Returned(Ok(b)) => b,
        Outcome::Returned(Err(e)) => {
            rec.bump("refused", 1);
            rec.bump(&format!("refused:{}:{}", kind, e.chars().take(40).collect::<String>()), 1);
            return fail(rec, false, e);
        }
        Outcome::Panicked(m) => {
            rec.bump("panics", 1);
            return fail(rec, true, format!("Panic:{}", panic_key(&m)));
        }
    };
    rec.bump("subsets_ok", 1);
    rec.bump(&format!("ok:{}:{}", kind, api.split(':').next().unwrap_or(api)), 1);
    // ---- the output, independently
    let (n_out, out_metrics, out_glyphs, out_vis_of): (usize, Option<(Vec<u16>, Vec<i16>)>, Vec<Result<GlyphRec, String>>, Box<dyn Fn(&[u16]) -> Vec<Value>>) =
        if bare_cff {
            let n = ind::cff_facts(&bytes).map(|f| f.n_glyphs).unwrap_or(0);
            let b = bytes.clone();
            (n, None, vec![], Box::new(move |g: &[u16]| visit_cff_bytes(&b, g)))
        } else {
            let t = match Tables::from_sfnt(&bytes, 0) {
                Some(t) => t,
                None => return fail(rec, false, "output is not an sfnt".to_string()),
            };
            let n = t.num_glyphs().unwrap_or(0);
            let m = t.h_metrics().ok();
            let gl = if t.has("glyf") { t.glyphs().unwrap_or_default() } else { vec![] };
            let b = bytes.clone();
            let vis = move |g: &[u16]| -> Vec<Value> {
                let fd = match ReadScope::new(&b).read::<FontData<'_>>() {
                    Ok(fd) => fd,
                    Err(e) => return visit_failed(format!("setup:FontData:{:?}", e), g.len()),
                };
                match fd.table_provider(0) {
                    Ok(p) => visit_many(&p, g),
                    Err(e) => visit_failed(format!("setup:provider:{:?}", e), g.len()),
                }
            };
            (n, m, gl, Box::new(vis))
        };
    // what the independent readers measure in the output (informative: the plans are tallied from the inputs)
    {
        let cff_out: Option<Vec<u8>> = if bare_cff { Some(bytes.clone()) } else { Tables::from_sfnt(&bytes, 0).and_then(|t| t.get("CFF ").map(|c| c.to_vec())) };
        if let Some(c) = cff_out {
            // the output may be anything: the independent walk is guarded like a call of allsorts
            let walked = match guarded(|| ind::cff_index_sizes(&c)) {
                Outcome::Returned(v) => v,
                Outcome::Panicked(_) => None,
            };
            match walked {
                Some(v) => {
                    for (name, size) in v {
                        if sizes::TARGETS.contains(&size) {
                            rec.bump(&format!("measured:{}:{}:{}", kind, name, size), 1);
                        }
                    }
                }
                None => rec.bump("measured:cff-output-not-walkable", 1),
            }
        } else if let Some(t) = Tables::from_sfnt(&bytes, 0) {
            if let (Some(g), Some(long)) = (t.get("glyf"), t.loca_long()) {
                if (131000..=131200).contains(&g.len()) {
                    rec.bump(&format!("measured:glyf:{}:{}", g.len(), if long { "long-loca" } else { "short-loca" }), 1);
                }
                if n_out >= 65535 {
                    rec.bump("measured:glyf:65535-glyphs-in-output", 1);
                }
            }
        }
    }
    // which re-encoding the retained charstrings went through
    let mut path = match kind {
        "cff2" => "cff2-to-cff",
        "cff" => "cff-subset",
        "cid" => "cid-subset",
        _ => "",
    };
    if kind == "cff" || kind == "cff2" {
        if let Some(f) = if bare_cff { ind::cff_facts(&bytes) } else { Tables::from_sfnt(&bytes, 0).and_then(|t| t.get("CFF ").and_then(ind::cff_facts)) } {
            if f.cid && kind == "cff" {
                rec.bump("type1_converted_to_cid", 1);
                path = "type1-to-cid";
            }
            if f.cid && kind == "cff2" {
                rec.bump("cff2_converted_to_cid", 1);
                path = "cff2-to-cid";
            }
        }
    }
    let is_glyf = kind == "glyf";
    let out_comps: Vec<Vec<u16>> = (0..n_out).map(|n| out_glyphs.get(n).map(ind::comp_gids).unwrap_or_default()).collect();
    let olds = if is_glyf {
        derive_olds(ids, n_out, &out_comps, &|g| src.comps(g))
    } else {
        (0..n_out).map(|i| ids.get(i).map(|&g| g as i64).unwrap_or(-1)).collect()
    };
    let src_comps: Vec<Vec<u16>> = olds.iter().map(|&o| if o >= 0 && is_glyf { src.comps(o as u16) } else { vec![] }).collect();
    if n_out > ids.len() {
        rec.bump("subsets_with_pulled_in_components", 1);
        rec.bump("pulled_in_components", (n_out - ids.len()) as u64);
    }
    rec.ev(case, "Subset", a, json!({"ok": true, "panic": false, "err": "", "n_out": n_out, "olds": olds, "src_comps": src_comps, "out_comps": out_comps}));
    // ---- per retained glyph
    let known: Vec<(u16, u16)> = olds.iter().enumerate().filter(|(_, &o)| o >= 0).map(|(n, &o)| (n as u16, o as u16)).collect();
    let news: Vec<u16> = known.iter().map(|x| x.0).collect();
    let oldv: Vec<u16> = known.iter().map(|x| x.1).collect();
    let vs = visit_src(&oldv);
    let vo = out_vis_of(&news);
    for (k, &(n, o)) in known.iter().enumerate() {
        let metrics = out_metrics.is_some();
        let (adv, lsb) = match &out_metrics {
            Some((a, l)) => (
                json!([src.adv.get(o as usize).map(|&v| v as i64).unwrap_or(-1), a.get(n as usize).map(|&v| v as i64).unwrap_or(-1)]),
                json!([src.lsb.get(o as usize).map(|&v| v as i64).unwrap_or(-99999), l.get(n as usize).map(|&v| v as i64).unwrap_or(-99999)]),
            ),
            None => (json!([0, 0]), json!([0, 0])),
        };
        if metrics && (o as usize) >= src.nhm {
            rec.bump("glyphs_old_id_past_numberOfHMetrics", 1);
        }
        if is_glyf && !src.comps(o).is_empty() {
            rec.bump("composite_glyphs", 1);
            if let Some(Ok(r)) = src.glyphs.get(o as usize) {
                for f in comp_features(r) {
                    rec.bump(&format!("composite_retained:{}", f), 1);
                }
            }
        }
        if let Some((family, ints, fixed)) = src.bounds.get(&o) {
            // a boundary glyph retained, its source outline delivered: operands on the number-encoding boundaries
            // went through this re-encoding path and are compared
            if vs[k]["ok"] == json!(true) {
                rec.bump(&format!("boundary:{}:glyphs", path), 1);
                rec.bump(&format!("boundary:{}:family:{}", path, family), 1);
                for v in ints {
                    rec.bump(&format!("boundary:{}:value:{}", path, v), 1);
                }
                if *fixed > 0 {
                    rec.bump(&format!("boundary:{}:value:fixed-16.16", path), 1);
                }
            } else {
                rec.bump("boundary_glyph_without_source_outline", 1);
            }
        }
        let (isrc, iout) = if is_glyf { (irec(src.glyphs.get(o as usize)), irec(out_glyphs.get(n as usize))) } else { (no_irec(), no_irec()) };
        // an accented glyph (seac): 1 = its base and accent are among the requested glyphs, 2 = one of them is not
        // (the CFF subsetter pulls nothing in: Dev_SeacComponentsNotPulledIn); decided from the request alone
        let seac = match src.seac.get(&o) {
            None => 0,
            Some((b, a)) => {
                let closed = ids.contains(b) && ids.contains(a);
                rec.bump(if closed { "seac:accented-glyph-retained-with-its-components" } else { "seac:accented-glyph-retained-without-a-component" }, 1);
                if closed && ids.iter().position(|x| x == &o) < ids.iter().position(|x| x == b) {
                    rec.bump("seac:accented-glyph-in-front-of-its-base", 1);
                }
                if closed { 1 } else { 2 }
            }
        };
        if src.seac.values().any(|(b, a)| *b == o || *a == o) {
            rec.bump("seac:component-glyph-retained", 1);
        }
        // what a report about this glyph is filed under (part of the key of a finding; from the inputs alone)
        let mut ctx: Vec<&str> = Vec::new();
        if seac != 0 {
            ctx.push("accented");
            if src.no_charset_op {
                ctx.push("no-charset-operator");
            }
            if kind == "cff" && ids.len() > 255 && (api == "subset" || api.ends_with(":cid")) {
                ctx.push("to-cid");
            }
        }
        rec.ev(
            case,
            "Glyph",
            json!({"kind": kind, "new": n, "old": o, "metrics": metrics, "ind": is_glyf, "seac": seac, "ctx": ctx.join(",")}),
            json!({"src": vs[k], "out": vo[k], "adv": adv, "lsb": lsb, "isrc": isrc, "iout": iout}),
        );
        rec.bump("glyph_events", 1);
    }
}

// ---- spec -> impl ---------------------------------------------------------------------------------------

/// The contours of simple glyph `g` of a synthesized font: distinct for every g, on and off curve points.
fn shape(g: i64) -> Vec<Vec<Pt>> {
    let g16 = g as i16;
    let mut cs = vec![vec![
        Pt { x: 10 + 7 * g16, y: 20 + 3 * g16, on: true },
        Pt { x: 300 + 11 * g16, y: 40 + g16, on: false },
        Pt { x: 150 + 5 * g16, y: 400 + 13 * g16, on: true },
        Pt { x: 60 + g16, y: 200 + 2 * g16, on: true },
    ]];
    if g % 2 == 1 {
        cs.push(vec![Pt { x: 500 + g16, y: 0, on: true }, Pt { x: 600 + g16, y: g16, on: true }, Pt { x: 550, y: 100 + g16, on: true }]);
    }
    cs
}

fn shape_pts(g: i64) -> (Vec<u16>, Vec<(i16, i16, bool)>) {
    let mut ends = vec![];
    let mut pts = vec![];
    for c in shape(g) {
        for p in c {
            pts.push((p.x, p.y, p.on));
        }
        ends.push(pts.len() as u16 - 1);
    }
    (ends, pts)
}

/// Which synthesized shape a simple record is (its token), -2 when none.
fn leaf_token(r: &GlyphRec, n_src: i64) -> i64 {
    for g in 0..n_src {
        let (ends, pts) = shape_pts(g);
        if r.ends == ends && r.pts == pts {
            return g;
        }
    }
    -2
}

/// The outline of glyph g of an independently read glyf table, flattened through its components, in
/// the vocabulary of Subset.tla: [[leaf, [placement of every component passed, top down]]..], or None
/// (cycle / nesting too deep / unreadable).
fn flat(glyphs: &[Result<GlyphRec, String>], g: usize, fuel: usize, n_src: i64) -> Option<Vec<(i64, Vec<Value>)>> {
    let r = glyphs.get(g)?.as_ref().ok()?;
    match r.kind {
        Kind::Empty => Some(vec![]),
        Kind::Simple => Some(vec![(leaf_token(r, n_src), vec![])]),
        Kind::Composite => {
            if fuel == 0 {
                return None;
            }
            let mut out = vec![];
            for c in &r.comps {
                for (leaf, path) in flat(glyphs, c.gid as usize, fuel - 1, n_src)? {
                    let mut p = vec![placement(c)];
                    p.extend(path);
                    out.push((leaf, p));
                }
            }
            Some(out)
        }
    }
}

/// The record of a CASE's glyph as bytes, written by the harness's own writers under the representation the
/// case names (numberOfContours of composites, the form of glyphs without contours, the flag encoding).
fn case_glyph(case: &Value, g: i64, empty: &[i64]) -> Vec<u8> {
    let comps = case["comp"][g as usize].as_array().expect("comp");
    let instr: Vec<u8> = ints(&case["instr"][g as usize]).iter().map(|&b| b as u8).collect();
    let rp = &case["rep"];
    if !comps.is_empty() {
        let n = comps.len();
        let cs = comps
            .iter()
            .enumerate()
            .map(|(k, c)| {
                // <<glyph id, CompSem flag bits, ARG_1_AND_2_ARE_WORDS, argument 1, argument 2, transform>>
                let mut flags = c[1].as_u64().unwrap() as u16;
                if c[2].as_i64().unwrap() != 0 {
                    flags |= 0x0001;
                }
                if k + 1 < n {
                    flags |= 0x0020; // MORE_COMPONENTS
                } else if !instr.is_empty() {
                    flags |= 0x0100; // WE_HAVE_INSTRUCTIONS
                }
                glyph::Comp { flags, gid: c[0].as_u64().unwrap() as u16, a1: c[3].as_i64().unwrap() as i32, a2: c[4].as_i64().unwrap() as i32, tr: ints(&c[5]).iter().map(|&v| v as i16).collect() }
            })
            .collect();
        let r = glyph::write_glyph(&GlyphRec { kind: Kind::Composite, ends: vec![], pts: vec![], instr, bbox: [0, 0, 1000, 1000], comps: cs }, 0);
        // any negative numberOfContours means composite
        rep::with_nc(r, rp["ncc"][g as usize].as_i64().unwrap_or(-1) as i16)
    } else if empty.contains(&g) {
        rep::empty_record(&instr, rp["empty"].as_str().unwrap_or("no-bytes"))
    } else {
        rep::simple_record(shape(g), instr, rp["simple"].as_str().unwrap_or("short-vectors"))
    }
}

fn ints(v: &Value) -> Vec<i64> {
    v.as_array().map(|a| a.iter().map(|x| x.as_i64().expect("int")).collect()).unwrap_or_default()
}

fn replay(cases: &str, mism_path: &str, trace_path: &str, every: usize) {
    let mut mism = NdWriter::create(mism_path);
    let mut rec = Rec { w: NdWriter::create(trace_path), i: 0, tally: BTreeMap::new() };
    let f = std::fs::File::open(cases).unwrap_or_else(|e| panic!("open {}: {}", cases, e));
    let (mut n_cases, mut n_mism, mut literal, mut failed, mut traced) = (0usize, 0usize, 0usize, 0usize, 0usize);
    let mut refused_unsorted = 0usize;
    // families of component records in the synthesized source fonts (composite glyphs counted)
    let mut gen_feat: BTreeMap<&'static str, u64> = BTreeMap::new();
    for line in BufReader::new(f).lines() {
        let line = line.expect("read");
        if line.trim().is_empty() {
            continue;
        }
        let case: Value = serde_json::from_str(&line).expect("case json");
        n_cases += 1;
        let n = case["n"].as_i64().expect("n");
        let nhm = case["nhm"].as_u64().expect("nhm") as usize;
        let adv = ints(&case["adv"]);
        let lsb = ints(&case["lsb"]);
        let empty = ints(&case["empty"]);
        let req: Vec<u16> = ints(&case["req"]).iter().map(|&g| g as u16).collect();
        // glyph records by the harness's own writers (component flags, argument width, transform and
        // instructions exactly as the case says); the rest of the font from vh::fontgen
        let records: Vec<Vec<u8>> = (0..n).map(|g| case_glyph(&case, g, &empty)).collect();
        let mut font = TtFont::new((0..n).map(|_| GlyphSpec::Empty).collect());
        font.metrics = (0..n as usize).map(|g| (adv[g.min(nhm - 1)] as u16, lsb[g] as i16)).collect();
        font.num_h_metrics = nhm as u16;
        font.cmap = (1..n).map(|g| (0x40 + g as u32, g as u16)).collect();
        let rp = &case["rep"];
        let (glyf_bytes, loca_bytes, long) = rep::glyf_loca(&records, rp["loca"].as_str().unwrap_or("short"));
        font.loca_long = long;
        font.extra_tables = vec![("loca".to_string(), loca_bytes), ("glyf".to_string(), glyf_bytes)];
        let bytes = if rp["dir"] == "unsorted" { rep::build_sfnt_unsorted(0x00010000, &font.tables()) } else { font.build() };
        let src_tables = Tables::from_sfnt(&bytes, 0).expect("own sfnt");
        let src = IndSrc::of(&src_tables).expect("own font readable");
        // the generator's font is what the case says (the harness's own reading of its own bytes)
        assert_eq!(src.nhm, nhm);
        assert!((0..n as usize).all(|g| src.adv[g] as i64 == adv[g.min(nhm - 1)] && src.lsb[g] as i64 == lsb[g]));
        for g in 0..n as usize {
            let r = src.glyphs[g].as_ref().expect("own glyph readable");
            let want_kind = if !case["comp"][g].as_array().unwrap().is_empty() { Kind::Composite } else if empty.contains(&(g as i64)) { Kind::Empty } else { Kind::Simple };
            assert_eq!(r.kind, want_kind, "own glyph kind as the case says");
            let want: Vec<Value> = case["comp"][g].as_array().unwrap().iter().map(|c| json!([c[1], c[3], c[4], c[5]])).collect();
            assert_eq!(json!(r.comps.iter().map(placement).collect::<Vec<_>>()), json!(want), "own composite as the case says");
            assert_eq!(json!(r.instr), case["instr"][g]);
            if !r.comps.is_empty() {
                for f in comp_features(r) {
                    *gen_feat.entry(f).or_default() += 1;
                }
            }
        }

        let fd = ReadScope::new(&bytes).read::<FontData<'_>>().expect("FontData of synthesized font");
        let prov = fd.table_provider(0).expect("provider of synthesized font");
        let result = guarded(|| subset(&prov, &req).map_err(|e| format!("{:?}", e)));
        let exp = &case["exp"];
        let obs = match &result {
            Outcome::Returned(Ok(out)) => match Tables::from_sfnt(out, 0).and_then(|t| Some((t.num_glyphs()?, t.h_metrics().ok()?, t.glyphs().ok()?))) {
                None => json!({"fail": "output unreadable"}),
                Some((n_out, (oadv, olsb), ogl)) => {
                    let entry = |k: usize| -> Value {
                        let fl = match flat(&ogl, k, n_out, n) {
                            Some(ls) => json!(ls),
                            None => json!([[-1, []]]),
                        };
                        // the record's own placements (component fields but the glyph id) and instructions
                        let own = match &ogl[k] {
                            Ok(r) => json!([r.comps.iter().map(placement).collect::<Vec<_>>(), r.instr]),
                            Err(why) => json!([format!("unreadable:{}", why), []]),
                        };
                        json!([fl, oadv[k], olsb[k], own])
                    };
                    let head: Vec<Value> = (0..req.len().min(n_out)).map(entry).collect();
                    // pulled-in components in a canonical order: by left side bearing (the generator's lsb grows with the old id)
                    let mut tail_ids: Vec<usize> = (req.len().min(n_out)..n_out).collect();
                    tail_ids.sort_by_key(|&k| olsb[k]);
                    let tail: Vec<Value> = tail_ids.into_iter().map(entry).collect();
                    // informative: the literal order (old id recognised by its lsb) and component ids
                    let order: Vec<i64> = (0..n_out).map(|k| lsb.iter().position(|&l| l == olsb[k] as i64).map(|p| p as i64).unwrap_or(-1)).collect();
                    let comps: Vec<Vec<u16>> = ogl.iter().map(ind::comp_gids).collect();
                    json!({"n": n_out, "head": head, "tail": tail, "order": order, "comps": comps})
                }
            },
            Outcome::Returned(Err(e)) => json!({"fail": format!("Err:{}", e)}),
            Outcome::Panicked(m) => json!({"fail": format!("Panic:{}", panic_key(m))}),
        };
        if obs.get("fail").is_some() {
            failed += 1;
        }
        // OpenType wants the table directory sorted by tag: an implementation may refuse a source whose directory is
        // not (a refused subset is outside "a successful subset"); a panic or a wrong output still counts
        if rp["dir"] == "unsorted" && matches!(&result, Outcome::Returned(Err(_))) {
            refused_unsorted += 1;
            continue;
        }
        let conforms = obs.get("fail").is_none() && obs["n"] == exp["n"] && obs["head"] == exp["head"] && obs["tail"] == exp["tail"];
        if conforms && obs["order"] == exp["order"] && obs["comps"] == exp["comps"] {
            literal += 1;
        }
        if !conforms {
            n_mism += 1;
            let class = if obs.get("fail").is_some() {
                format!("failed:{}", obs["fail"].as_str().unwrap_or("?").chars().take(60).collect::<String>())
            } else if obs["n"] != exp["n"] {
                "glyph-count".to_string()
            } else {
                // which of outline / advance / lsb differs, over requested and pulled-in glyphs
                let mut what = std::collections::BTreeSet::new();
                for part in ["head", "tail"] {
                    let (e, o) = (exp[part].as_array().unwrap(), obs[part].as_array().unwrap());
                    for k in 0..e.len().max(o.len()) {
                        match (e.get(k), o.get(k)) {
                            (Some(a), Some(b)) => {
                                for (j, nm) in ["outline", "advance", "lsb", "record"].iter().enumerate() {
                                    if a[j] != b[j] {
                                        what.insert(format!("{}:{}", part, nm));
                                    }
                                }
                            }
                            _ => {
                                what.insert(format!("{}:length", part));
                            }
                        }
                    }
                }
                what.into_iter().collect::<Vec<_>>().join("+")
            };
            mism.write(&json!({"case": n_cases, "class": class, "input": {"n": n, "nhm": nhm, "adv": adv, "lsb": lsb, "empty": empty, "comp": case["comp"], "instr": case["instr"], "req": req},
                               "exp": exp, "obs": obs}));
        }
        // a sample of the cases also goes to the trace judge, with allsorts' own visitors on both sides
        if every > 0 && n_cases % every == 0 {
            traced += 1;
            let visit_src = |g: &[u16]| visit_many(&prov, g);
            subset_events(&mut rec, &format!("gen/{}", n_cases), "glyf", "subset", &src, &req, result, false, &visit_src);
        }
    }
    mism.finish();
    let events = rec.w.n;
    rec.w.finish();
    println!(
        "{}",
        json!({"cases": n_cases, "mismatches": n_mism, "literal_order_matches": literal, "subset_failed": failed, "refused_unsorted_directory": refused_unsorted, "traced_cases": traced,
               "events": events, "source_composite_families": gen_feat, "tally": rec.tally})
    );
}

// ---- impl -> spec ---------------------------------------------------------------------------------------

fn rel(path: &str) -> String {
    let root = format!("{}/tests/", repo_root());
    path.strip_prefix(&root).unwrap_or(path).to_string()
}

struct Source {
    label: String,
    file: Vec<u8>,
    member: usize,
    tables: Tables,
    kind: String,
    facts: Option<ind::CffFacts>,
    bounds: Vec<syn::Bound>,
    /// size-boundary fonts (c07_subset/sizes.rs): the lists and entry points to run instead of the generic ones
    plans: Vec<sizes::Plan>,
    /// representation facts of a synthesized source, tallied when it is run
    rep_facts: Vec<String>,
    /// accented glyphs of a synthesized name-keyed CFF
    seac: Vec<(u16, u16, u16)>,
}

fn kind_of(t: &Tables) -> (String, Option<ind::CffFacts>) {
    if t.has("glyf") && t.has("loca") {
        ("glyf".into(), None)
    } else if let Some(c) = t.get("CFF ") {
        let f = ind::cff_facts(c);
        (if f.as_ref().map(|f| f.cid).unwrap_or(false) { "cid".into() } else { "cff".into() }, f)
    } else if let Some(c) = t.get("CFF2") {
        ("cff2".into(), ind::cff2_facts(c).map(|f| f.0))
    } else {
        ("none".into(), None)
    }
}

fn sources() -> Vec<Source> {
    let mut out = Vec::new();
    for path in repo_fonts() {
        let data = match std::fs::read(&path) {
            Ok(d) if d.len() > 12 => d,
            _ => continue,
        };
        let offs: Vec<usize> = if &data[0..4] == b"ttcf" {
            let n = fontgen::be32(&data, 8).unwrap_or(0) as usize;
            (0..n.min(2)).filter_map(|i| fontgen::be32(&data, 12 + 4 * i).map(|o| o as usize)).collect()
        } else if &data[0..4] == b"wOFF" || &data[0..4] == b"wOF2" {
            continue;
        } else {
            vec![0]
        };
        for (m, at) in offs.into_iter().enumerate() {
            if let Some(t) = Tables::from_sfnt(&data, at) {
                let (kind, facts) = kind_of(&t);
                if kind == "none" || !["maxp", "hhea", "hmtx", "head"].iter().all(|x| t.has(x)) {
                    continue;
                }
                out.push(Source { label: format!("{}#{}", rel(&path), m), file: data.clone(), member: m, tables: t, kind, facts, bounds: vec![], plans: vec![], rep_facts: vec![], seac: vec![] });
            }
        }
    }
    out
}

/// 0: a composite with an asymmetric two by two transform, 1: some other rare family of component
/// records, 2: the rest (and every font that is not glyf)
fn font_rank(s: &Source) -> usize {
    if s.kind != "glyf" {
        return 2;
    }
    let glyphs = match s.tables.glyphs() {
        Ok(g) => g,
        Err(_) => return 2,
    };
    let mut rank = 2;
    for r in glyphs.iter().flatten() {
        if r.kind == Kind::Composite {
            let f = comp_features(r);
            if f.contains(&"tr:two-by-two-asymmetric") {
                return 0;
            }
            if f.iter().any(|x| ["tr:two-by-two", "tr:xy-scale", "tr:scale", "args:point-numbers", "instructions"].contains(x)) {
                rank = 1;
            }
        }
    }
    rank
}

/// Glyph id lists: always starting with 0, distinct, in range.
fn id_lists(n: usize, nhm: usize, composites: &[u16], featured: &[u16], cap: usize, big: usize, rng: &mut StdRng) -> Vec<(String, Vec<u16>)> {
    let mut lists: Vec<(String, Vec<u16>)> = vec![("only0".into(), vec![0])];
    if n < 2 {
        return lists;
    }
    let n16 = n.min(65535) as u16;
    let k = rng.gen_range(2..=cap.min(n).max(2));
    lists.push((format!("first{}", k), (0..k.min(n) as u16).collect()));
    if n <= 64 {
        // the identity subset of a small font
        lists.push(("all".into(), (0..n16).collect()));
    }
    let step = rng.gen_range(2..9usize);
    lists.push((format!("every{}", step), (0..n).step_by(step).take(cap).map(|g| g as u16).collect()));
    // from the end, descending: old ids past numberOfHMetrics where the font has any, order reversed
    let m = cap.min(n - 1).min(24);
    let mut l = vec![0u16];
    l.extend((0..m).map(|j| n16 - 1 - j as u16));
    lists.push((format!("last{}", m), l));
    if nhm >= 2 && nhm < n {
        let mut l = vec![0u16];
        for g in (nhm - 2)..(nhm + 3).min(n) {
            if g != 0 {
                l.push(g as u16);
            }
        }
        lists.push(("around-nhm".into(), l));
    }
    if !composites.is_empty() {
        let mut c: Vec<u16> = composites.iter().cloned().filter(|&g| g != 0).collect();
        c.shuffle(rng);
        c.truncate(cap);
        let mut l = vec![0u16];
        l.extend(c);
        lists.push(("composites".into(), l));
    }
    if !featured.is_empty() {
        // composites selected by property (see featured_composites), in the order found
        let mut l = vec![0u16];
        l.extend(featured.iter().cloned().filter(|&g| g != 0).take(cap.max(40)));
        lists.push(("composites-by-property".into(), l));
    }
    let mut pool: Vec<u16> = (1..n16).collect();
    pool.shuffle(rng);
    let r = rng.gen_range(1..=cap.min(n - 1));
    let mut l = vec![0u16];
    l.extend(pool.iter().take(r).cloned());
    lists.push((format!("random{}", r), l));
    if big > 255 && n > 257 {
        // exactly 255, 256 and 257 glyphs: both sides of the Type 1 -> CID conversion threshold
        for k in [255u16, 256, 257] {
            lists.push((format!("count:{}", k), (0..k).collect()));
        }
    }
    if big > 255 && n > big {
        // more than 255 glyphs: the Type 1 -> CID conversion threshold of CFF subsetting
        let mut l = vec![0u16];
        l.extend(pool.iter().take(big - 1).cloned());
        lists.push((format!("random{}", big), l));
        lists.push((format!("first{}", big), (0..big as u16).collect()));
    }
    lists
}

/// Composites chosen by what their component records carry: for every family of comp_features, rarest
/// first, up to `per` composites that show it (a seeded choice among them).
fn featured_composites(glyphs: &[Result<GlyphRec, String>], per: usize, rng: &mut StdRng) -> (Vec<u16>, Vec<&'static str>) {
    let mut by: BTreeMap<&'static str, Vec<u16>> = BTreeMap::new();
    for (g, r) in glyphs.iter().enumerate().take(65535) {
        if let Ok(r) = r {
            for f in comp_features(r) {
                by.entry(f).or_default().push(g as u16);
            }
        }
    }
    let mut out: Vec<u16> = Vec::new();
    for f in COMP_FEATURE_PRIORITY {
        if let Some(v) = by.get_mut(f) {
            v.shuffle(rng);
            for &g in v.iter().filter(|g| !out.contains(g)).take(per).collect::<Vec<_>>() {
                out.push(g);
            }
        }
    }
    (out, by.keys().cloned().collect())
}

fn run_source<P: FontTableProvider>(
    rec: &mut Rec,
    label: &str,
    container: &str,
    kind: &str,
    prov: &P,
    src: &IndSrc,
    lists: &[(String, Vec<u16>)],
    apis: &[&str],
) {
    let visit_src = |g: &[u16]| visit_many(prov, g);
    for (pat, ids) in lists {
        for api in apis {
            let case = format!("{}|{}|{}|{}", label, container, api, pat);
            let (result, bare) = match *api {
                "subset" => (guarded(|| subset(prov, ids).map_err(|e| format!("{:?}", e))), false),
                _ => {
                    // prince:<cmap target>:<convert to CID above 255 glyphs>
                    let mut it = api.split(':').skip(1);
                    let target = match it.next().unwrap_or("unrestricted") {
                        "macroman" => PrinceCmapTarget::MacRoman,
                        "omit" => PrinceCmapTarget::Omit,
                        "supplied" => {
                            let mut m = Box::new([0u8; 256]);
                            for (i, _) in ids.iter().enumerate().take(200) {
                                m[32 + i % 200] = i as u8;
                            }
                            PrinceCmapTarget::MacRomanCmap(m)
                        }
                        _ => PrinceCmapTarget::Unrestricted,
                    };
                    let convert = it.next() == Some("cid");
                    let bare = kind != "glyf";
                    (guarded(|| prince::subset(prov, ids, target, convert).map_err(|e| format!("{:?}", e))), bare)
                }
            };
            rec.bump(&format!("calls:{}:{}", container, kind), 1);
            if pat.starts_with("size:") || pat.starts_with("ladder:") || pat.starts_with("count:") || pat.starts_with("seac:") || pat.starts_with("rep:") {
                // a list chosen for what the subsetter will have to write (decided from the source alone)
                rec.bump(&format!("{}|{}|{}", pat, kind, api.split(':').next().unwrap_or(api)), 1);
            }
            subset_events(rec, &case, kind, api, src, ids, result, bare, &visit_src);
        }
    }
}

fn w2_choices(hmtx: u8) -> enc::Choices {
    enc::Choices { glyf: 0, hmtx, trip: "ref".into(), u16p: "short".into(), bbox: "needed".into(), order: "asis".into(), tags: "known".into(), overlap: false, chunk: 65536 }
}

fn record(seed: u64, tier: &str, out: &str) {
    let quick = tier == "quick";
    let mut rng = StdRng::seed_from_u64(seed);
    let mut rec = Rec { w: NdWriter::create(out), i: 0, tally: BTreeMap::new() };
    let (cap, big) = if quick { (28, 300) } else { (160, 420) };
    let mut all = sources();
    // a seeded order, so that the per-kind samples differ from seed to seed; glyf fonts whose composites
    // carry what a sample is most likely to miss (selection by property) come first: asymmetric two by two
    // transforms, then any transform / point-number arguments / instructions on a composite
    all.shuffle(&mut rng);
    let rank: Vec<usize> = all.iter().map(font_rank).collect();
    let mut order: Vec<usize> = (0..all.len()).collect();
    order.sort_by_key(|&i| rank[i]);
    let mut slots: Vec<Option<Source>> = all.into_iter().map(Some).collect();
    let mut all: Vec<Source> = order.into_iter().map(|i| slots[i].take().unwrap()).collect();
    // synthesized CFF-family fonts first: what the repository lacks (CFF2 with subroutines, several Font DICTs)
    let syn: Vec<Source> = syn::fonts()
        .into_iter()
        .map(|f| {
            let (kind, facts) = kind_of(&f.tables);
            assert_eq!(kind, f.kind);
            Source { label: format!("{}#0", f.label), file: f.file, member: 0, tables: f.tables, kind, facts, bounds: f.bounds, plans: vec![], rep_facts: vec![], seac: vec![] }
        })
        .collect();
    all.splice(0..0, syn);
    // ... and the size-boundary fonts with their chosen lists
    // ... and the representation variants of a CFF source, with accented (seac) glyphs
    let sized: Vec<Source> = sizes::fonts(!quick)
        .into_iter()
        .chain(cffrep::fonts(!quick))
        .map(|z| {
            let (kind, facts) = kind_of(&z.syn.tables);
            assert_eq!(kind, z.syn.kind, "{}", z.syn.label);
            Source { label: format!("{}#0", z.syn.label), file: z.syn.file, member: 0, tables: z.syn.tables, kind, facts, bounds: vec![], plans: z.plans, rep_facts: z.facts, seac: z.syn.seac }
        })
        .collect();
    all.splice(0..0, sized);
    let mut reencoded = 0usize;
    let mut per_kind_seen: BTreeMap<String, usize> = BTreeMap::new();
    let mut wrapped: BTreeMap<String, usize> = BTreeMap::new();
    for s in &all {
        let mut src = match IndSrc::of(&s.tables) {
            Ok(v) => v,
            Err(why) => {
                rec.bump(&format!("source_not_readable:{}", why.chars().take(30).collect::<String>()), 1);
                continue;
            }
        };
        if src.n == 0 {
            continue;
        }
        src.bounds = s.bounds.iter().map(|b| (b.gid, (b.family, b.ints.clone(), b.fixed))).collect();
        src.seac = s.seac.iter().map(|x| (x.0, (x.1, x.2))).collect();
        src.no_charset_op = s.rep_facts.iter().any(|f| f == "source:cff:charset-isoadobe-by-omission");
        if !s.plans.is_empty() {
            for f in &s.rep_facts {
                rec.bump(&format!("rep:{}", f), 1);
            }
            let fd = ReadScope::new(&s.file).read::<FontData<'_>>().expect("FontData of a synthesized font");
            let prov = fd.table_provider(0).expect("provider of a synthesized font");
            for p in &s.plans {
                run_source(&mut rec, &s.label, "otf", &s.kind, &prov, &src, &[(p.name.clone(), p.ids.clone())], &p.apis);
            }
            rec.bump("fonts:sized", 1);
            continue;
        }
        // the ~200 fonts of tests/aots share one glyph set (100 glyphs, one long metric): a seeded handful of them
        let class = if s.label.starts_with("aots/") {
            format!("aots-{}", s.kind)
        } else if s.label.starts_with("syn/") {
            format!("syn-{}", s.kind)
        } else {
            s.kind.clone()
        };
        let seen = per_kind_seen.entry(class.clone()).or_default();
        *seen += 1;
        if class.starts_with("aots-") && *seen > (if quick { 3 } else { 10 }) {
            continue;
        }
        // quick: every other CFF / CFF2 font, a seeded sample of the (many) glyf fonts
        if quick && class == "glyf" && *seen > 26 {
            continue;
        }
        let fk = if class.starts_with("syn-") { class.clone() } else { s.kind.clone() };
        rec.bump(&format!("fonts:{}", fk), 1);
        if let Some(f) = &s.facts {
            if f.global_subrs > 0 || f.local_subr_indices > 0 {
                rec.bump(&format!("fonts:{}_with_subroutines", fk), 1);
            }
        }
        let composites: Vec<u16> = (0..src.n.min(65535) as u16).filter(|&g| !src.comps(g).is_empty()).collect();
        let (featured, _) = featured_composites(&src.glyphs, 3, &mut rng);
        let big_here = if s.kind == "glyf" { 0 } else { big };
        let mut lists = id_lists(src.n, src.nhm, &composites, &featured, cap, big_here, &mut rng);
        if !s.label.starts_with("syn/") && (s.kind == "cff" || s.kind == "cid") {
            // retained sets whose charstrings add up to the INDEX offset-size boundaries (solver over the source's lengths)
            if let Some(c) = s.tables.get("CFF ") {
                lists.extend(sizes::repo_cff_lists(c));
            }
        }
        if s.label.starts_with("syn/") && !lists.iter().any(|l| l.0 == "all") {
            // every glyph of a synthesized font is retained at least once (they are there for a reason)
            lists.push(("all".into(), (0..src.n as u16).collect()));
        }
        if !s.bounds.is_empty() {
            // the boundary glyphs alone: fewer than 256 glyphs (name-keyed output where the source allows it)
            let mut l = vec![0u16];
            l.extend(s.bounds.iter().map(|b| b.gid));
            lists.push(("boundary-glyphs".into(), l));
            // and in two halves, so that one glyph a defect trips over does not keep all the others from being compared
            for half in 0..2usize {
                let mut l = vec![0u16];
                l.extend(s.bounds.iter().enumerate().filter(|(i, _)| i % 2 == half).map(|(_, b)| b.gid));
                lists.push((format!("boundary-glyphs-{}", if half == 0 { "even" } else { "odd" }), l));
            }
        }
        let fd = match ReadScope::new(&s.file).read::<FontData<'_>>() {
            Ok(fd) => fd,
            Err(_) => continue,
        };
        let prov = match fd.table_provider(s.member) {
            Ok(p) => p,
            Err(_) => continue,
        };
        // OpenType: plain subset on every list; the Prince entry point with its options on two of them
        run_source(&mut rec, &s.label, "otf", &s.kind, &prov, &src, &lists, &["subset"]);
        let prince_apis: Vec<&str> = if s.kind == "glyf" {
            vec!["prince:unrestricted:t1", "prince:macroman:t1", "prince:omit:t1", "prince:supplied:t1"]
        } else {
            vec!["prince:unrestricted:t1", "prince:unrestricted:cid"]
        };
        let pick: Vec<(String, Vec<u16>)> =
            lists.iter().filter(|l| l.0.starts_with("random") || l.0 == "all" || l.0 == "boundary-glyphs" || (l.0.starts_with("size:") && !l.0.ends_with("65534") && !l.0.ends_with("65536")) || l.0.starts_with("count:")).cloned().collect();
        // the lists at the 255 / 256 / 257 glyph threshold matter where the conversion flag is set
        let (pick_count, pick): (Vec<_>, Vec<_>) = pick.into_iter().partition(|l| l.0.starts_with("count:"));
        run_source(&mut rec, &s.label, "otf", &s.kind, &prov, &src, &pick, &prince_apis);
        if s.kind != "glyf" {
            run_source(&mut rec, &s.label, "otf", &s.kind, &prov, &src, &pick_count, &["prince:unrestricted:cid"]);
        }
        // the same repository font under other representations (every composite stored with numberOfContours -2 /
        // -32768, records under an unpadded long loca, table directory not sorted): three fonts with composites
        if s.kind == "glyf" && !composites.is_empty() && reencoded < 3 && s.file.len() < 3_000_000 && !s.label.starts_with("syn/") {
            reencoded += 1;
            for (nc, unpadded, unsorted) in [(-2i16, true, true), (-32768i16, false, false)] {
                let tag = format!("nc={},{},{}", nc, if unpadded { "long-unpadded" } else { "loca-as-source" }, if unsorted { "unsorted-directory" } else { "sorted-directory" });
                let (file2, t2) = match rep::reencode(&s.tables, nc, unpadded, unsorted) {
                    Some(x) => x,
                    None => {
                        rec.bump("rep:repo-glyf:not-reencoded", 1);
                        continue;
                    }
                };
                let src2 = match IndSrc::of(&t2) {
                    Ok(v) => v,
                    Err(_) => continue,
                };
                // the harness's own reading of its own bytes: the abstract font is unchanged
                assert_eq!(src2.n, src.n);
                assert!((0..src.n.min(65535) as u16).all(|g| src2.comps(g) == src.comps(g)), "re-encoded font keeps its components");
                let sample: Vec<(String, Vec<u16>)> = lists.iter().filter(|l| l.0.starts_with("composites") || l.0.starts_with("first") || l.0.starts_with("random")).cloned().collect();
                let fd2 = match ReadScope::new(&file2).read::<FontData<'_>>() {
                    Ok(fd) => fd,
                    Err(_) => {
                        rec.bump("rep:repo-glyf:not-loaded", 1);
                        continue;
                    }
                };
                let prov2 = fd2.table_provider(0);
                if let Ok(p2) = &prov2 {
                    run_source(&mut rec, &format!("{}#rep:{}", s.label, tag), "otf", &s.kind, p2, &src2, &sample, &["subset", "prince:unrestricted:t1"]);
                    rec.bump(&format!("rep:repo-glyf:{}", tag), 1);
                    let n_comp = sample.iter().map(|l| l.1.iter().filter(|g| !src2.comps(**g).is_empty()).count()).sum::<usize>();
                    rec.bump(&format!("rep:repo-glyf:composites-requested:nc={}", nc), n_comp as u64);
                } else {
                    rec.bump("rep:repo-glyf:not-loaded", 1);
                };
            }
        }
        // re-wrapped as WOFF and WOFF2 (a sample per kind): the source of truth stays the OpenType file
        let w = wrapped.entry(class.clone()).or_default();
        let limit = if quick { 3 } else { 8 };
        if *w < limit && s.tables.map.values().map(|v| v.len()).sum::<usize>() < 6_000_000 {
            *w += 1;
            let sample: Vec<(String, Vec<u16>)> = lists.iter().filter(|l| l.0 != "only0").take(if quick { 3 } else { 6 }).cloned().collect();
            let woff = ind::build_woff(&s.tables, 6);
            match ReadScope::new(&woff).read::<FontData<'_>>().ok().and_then(|fd| fd.table_provider(0).ok().map(|p| run_source(&mut rec, &s.label, "woff", &s.kind, &p, &src, &sample, &["subset"]))) {
                Some(()) => rec.bump("rewrapped_woff", 1),
                None => rec.bump("rewrap_woff_not_loaded", 1),
            }
            for hm in [0u8, 3] {
                let sf = enc::SrcFont { flavor: s.tables.flavor, tables: s.tables.order.iter().map(|t| (*t, s.tables.map[t].clone())).collect() };
                let e = guarded(|| enc::encode_woff2(&[sf], &w2_choices(hm), &mut StdRng::seed_from_u64(seed)));
                let bytes = match e {
                    Outcome::Returned(e) => e.bytes,
                    Outcome::Panicked(_) => {
                        rec.bump("rewrap_woff2_encoder_gave_up", 1);
                        continue;
                    }
                };
                let cont = if hm == 0 { "woff2" } else { "woff2-hmtx" };
                match ReadScope::new(&bytes).read::<FontData<'_>>().ok().and_then(|fd| fd.table_provider(0).ok().map(|p| run_source(&mut rec, &s.label, cont, &s.kind, &p, &src, &sample, &["subset"]))) {
                    Some(()) => rec.bump(&format!("rewrapped_{}", cont), 1),
                    None => rec.bump("rewrap_woff2_not_loaded", 1),
                }
            }
        }
    }
    // WOFF / WOFF2 files of the repository: the source is what allsorts' container code hands out, read
    // by the independent readers
    for path in repo_fonts() {
        if !(path.ends_with(".woff") || path.ends_with(".woff2")) {
            continue;
        }
        let data = match std::fs::read(&path) {
            Ok(d) => d,
            Err(_) => continue,
        };
        let r = guarded(|| -> Option<()> {
            let fd = ReadScope::new(&data).read::<FontData<'_>>().ok()?;
            let prov = fd.table_provider(0).ok()?;
            let mut t = Tables::default();
            for tg in prov.table_tags()? {
                if let Ok(Some(d)) = prov.table_data(tg) {
                    t.map.insert(tg, d.to_vec());
                }
            }
            let (kind, _) = kind_of(&t);
            let src = IndSrc::of(&t).ok()?;
            if kind == "none" || src.n == 0 {
                return None;
            }
            let composites: Vec<u16> = (0..src.n.min(65535) as u16).filter(|&g| !src.comps(g).is_empty()).collect();
            let (featured, _) = featured_composites(&src.glyphs, 3, &mut rng);
            let lists = id_lists(src.n, src.nhm, &composites, &featured, cap, 0, &mut rng);
            let cont = if path.ends_with(".woff") { "woff-file" } else { "woff2-file" };
            run_source(&mut rec, &format!("{}#0", rel(&path)), cont, &kind, &prov, &src, &lists, &["subset"]);
            rec.bump(&format!("fonts:{}", cont), 1);
            Some(())
        });
        if !matches!(r, Outcome::Returned(Some(()))) {
            rec.bump("container_files_not_usable", 1);
        }
    }
    let events = rec.w.n;
    rec.w.finish();
    println!("{}", json!({"events": events, "tally": rec.tally}));
}

fn probe() {
    for s in sources() {
        let src = IndSrc::of(&s.tables);
        let (n, nhm, comps) = match &src {
            Ok(v) => (v.n, v.nhm, (0..v.n.min(65535) as u16).filter(|&g| !v.comps(g).is_empty()).count()),
            Err(_) => (0, 0, 0),
        };
        let feats = match &src {
            Ok(v) => {
                let mut m: BTreeMap<&'static str, usize> = BTreeMap::new();
                for r in v.glyphs.iter().flatten() {
                    for f in comp_features(r) {
                        *m.entry(f).or_default() += 1;
                    }
                }
                m
            }
            Err(_) => BTreeMap::new(),
        };
        println!("{:60} {:5} n={:6} nhm={:6} composites={:5} rank={} facts={:?} readable={} {:?}", s.label, s.kind, n, nhm, comps, font_rank(&s), s.facts, src.is_ok(), feats);
    }
}

/// Reproduction aid: subset a synthesized font and print the converted charstrings.
fn dump_syn(label: &str, ids: &[u16]) {
    for f in syn::fonts().into_iter().chain(sizes::fonts(true).into_iter().map(|z| z.syn)).chain(cffrep::fonts(true).into_iter().map(|z| z.syn)) {
        if f.label != label {
            continue;
        }
        let fd = ReadScope::new(&f.file).read::<FontData<'_>>().expect("FontData");
        let prov = fd.table_provider(0).expect("provider");
        println!("source: {} glyphs, outlines of the requested glyphs: {}", f.tables.num_glyphs().unwrap_or(0), json!(visit_many(&prov, ids)));
        match guarded(|| subset(&prov, ids)) {
            Outcome::Returned(Ok(out)) => {
                let t = Tables::from_sfnt(&out, 0).expect("sfnt");
                let cff = t.get("CFF ").expect("CFF table in the output");
                println!("output facts: {:?}", ind::cff_facts(cff));
                if cff.len() <= 600 {
                    println!("output CFF table: {}", vh::util::hex(cff));
                }
                for (n, _) in ids.iter().enumerate() {
                    println!("charstring {}: {:?}", n, ind::cff_charstring(cff, n).map(|b| vh::util::hex(&b)));
                }
                let ofd = ReadScope::new(&out).read::<FontData<'_>>().expect("FontData");
                let news: Vec<u16> = (0..ids.len() as u16).collect();
                println!("output outlines: {}", json!(visit_many(&ofd.table_provider(0).expect("provider"), &news)));
            }
            Outcome::Returned(Err(e)) => println!("subset: Err({:?})", e),
            Outcome::Panicked(m) => println!("subset: panic {}", m),
        }
    }
}

fn main() {
    let args: Vec<String> = std::env::args().collect();
    match args.get(1).map(|s| s.as_str()) {
        Some("replay") => replay(&args[2], &args[3], &args[4], args[5].parse().expect("every")),
        Some("replay-cff") => cffcase::replay_cff(&args[2], &args[3]),
        Some("replay-cid") => cidcase::replay_cid(&args[2], &args[3]),
        Some("record") => record(args[2].parse().expect("seed"), &args[3], &args[4]),
        Some("probe") => probe(),
        Some("sizes") => {
            let th = args.get(2).map(|t| t == "thorough").unwrap_or(false);
            for z in sizes::fonts(th).into_iter().chain(cffrep::fonts(th)) {
                for p in &z.plans {
                    println!("{:40} {:50} {:3} ids {:?} {:?}", z.syn.label, p.name, p.ids.len(), p.apis, z.facts);
                }
            }
        }
        Some("dump-syn") => dump_syn(&args[2], &args[3].split(',').map(|x| x.parse().expect("id")).collect::<Vec<u16>>()),
        _ => {
            eprintln!("usage: c07_subset replay <cases> <mismatches> <trace> <every> | record <seed> <quick|thorough> <trace> | probe");
            std::process::exit(2);
        }
    }
}
