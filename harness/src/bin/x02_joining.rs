//! X02 harness: the joining state machines of the Arabic and Syriac shapers, driven through
//! `Font::map_glyphs` + `Font::shape` on ONE synthesized font per script.
//!
//! The font is not designed here: MC_Joining prints it (FONT line = Joining!FontDesc): a list of
//! features (tag, lookup index), language systems, glyph states (numbers) and per feature the
//! transitions state -> state. This file only ENCODES that description:
//!   * universe = the code points the font maps (U+0600..U+08FF plus joiners, foreign letters ...);
//!     N of them are substitutable, ZWNJ/ZWJ are mapped but never substituted;
//!   * glyph id = 1 + dense(state) * N + index(character); cmap maps a character to state 0;
//!   * GSUB: script `arab` / `syrc`, one SingleSubst lookup per feature, one format-1 subtable
//!     (coverage = the glyph range of the source state, delta = distance to the target state) per
//!     transition. After shaping, the state of every glyph is read off its glyph id.
//!
//!   x02_joining universe <out.json>
//!   x02_joining replay <font.ndjson> <cases.ndjson> <mismatches.ndjson>
//!       every CASE of MC_Joining {a,s,l,r,c,e,x,k,d}: shape the code points `c` with script `s`,
//!       language `l`; compare the numbers left on the visible glyphs with `e` (primary reading),
//!       the alternatives `x` (Dev_ readings), the code model `k` (named defects `d`) by equality.
//!   x02_joining record <font.ndjson> <jt.json> <seed> <n-per-script> <trace.ndjson>
//!       seeded random strings over the whole Arabic / Syriac blocks (class-aware sampling from the
//!       dumped joining-type table), random language tags; one event per call for Trace_Joining.
//!   x02_joining one <font.ndjson> <script> <lang|-> <trace.ndjson> <hex cp>...   (one event, for --replay)
//!   x02_joining shape <font.ndjson> <script> <lang|-> <hex cp>...     (probe)
//!
//! The harness decides nothing: it records what allsorts returned.
use allsorts::binary::read::ReadScope;
use allsorts::font::MatchingPresentation;
use allsorts::font_data::FontData;
use allsorts::gsub::{FeatureMask, Features, GlyphOrigin};
use allsorts::Font;
use rand::rngs::StdRng;
use rand::{Rng, SeedableRng};
use serde_json::{json, Value};
use std::collections::{BTreeMap, HashMap};
use vh::fontgen::{tag_u32, GlyphSpec, TtFont, W};
use vh::sup::{guarded, Outcome};
use vh::util::{read_ndjson, NdWriter};

// ---- universe ---------------------------------------------------------------------------------
const EXTRAS: &[u32] = &[
    0x0020, 0x0041, 0x0061, 0x00AD, 0x0300, 0x034F, 0x180A, 0x1820, 0x200B, 0x200C, 0x200D, 0x200E, 0x200F,
    0xA840, 0xA872, 0x10AC0, 0x10AC5, 0x1E900, 0x1E944,
];

fn universe() -> Vec<u32> {
    let mut v: Vec<u32> = (0x0600..=0x08FFu32).collect();
    v.extend_from_slice(EXTRAS);
    v.sort();
    v.dedup();
    v
}

// ---- own small GSUB encoder ---------------------------------------------------------------------
struct Obj {
    d: Vec<u8>,
    refs: Vec<(usize, usize)>,
    kids: Vec<Obj>,
}
impl Obj {
    fn new() -> Obj {
        Obj { d: Vec::new(), refs: Vec::new(), kids: Vec::new() }
    }
    fn u16(&mut self, v: u16) -> &mut Obj {
        self.d.extend_from_slice(&v.to_be_bytes());
        self
    }
    fn tag(&mut self, t: &str) -> &mut Obj {
        assert_eq!(t.len(), 4, "tag {:?}", t);
        self.d.extend_from_slice(t.as_bytes());
        self
    }
    fn off16(&mut self, child: Obj) -> &mut Obj {
        self.refs.push((self.d.len(), self.kids.len()));
        self.kids.push(child);
        self.u16(0)
    }
    fn flatten(self) -> Vec<u8> {
        let mut out = self.d;
        let mut at = Vec::new();
        for k in self.kids {
            at.push(out.len());
            out.extend(k.flatten());
        }
        for (pos, kid) in self.refs {
            let off = at[kid];
            assert!(off <= 0xFFFF, "16-bit offset overflow");
            out[pos..pos + 2].copy_from_slice(&(off as u16).to_be_bytes());
        }
        out
    }
}

/// The font description printed by the specification, decoded.
struct Desc {
    script: String,
    feats: Vec<(String, usize)>,      // tag, lookup index
    langs: Vec<(String, Vec<usize>)>, // tag, 1-based feature numbers
    stages: Vec<String>,
    pos: Vec<String>,
    states: Vec<i64>,
    trans: Vec<(usize, i64, i64)>, // 1-based feature number, from, to
    joiners: Vec<u32>,
}

fn desc_of(v: &Value) -> Desc {
    let s = |x: &Value| x.as_str().expect("string").to_string();
    let i = |x: &Value| x.as_i64().expect("int");
    let a = |x: &Value| x.as_array().expect("array").clone();
    let mut states: Vec<i64> = a(&v["states"]).iter().map(i).collect();
    states.sort();
    Desc {
        script: s(&v["script"]),
        feats: a(&v["feats"]).iter().map(|f| (s(&f["tag"]), i(&f["lookup"]) as usize)).collect(),
        langs: a(&v["langs"])
            .iter()
            .map(|l| (s(&l["tag"]), a(&l["feats"]).iter().map(|x| i(x) as usize).collect()))
            .collect(),
        stages: a(&v["stages"]).iter().map(s).collect(),
        pos: a(&v["pos"]).iter().map(s).collect(),
        states,
        trans: a(&v["trans"]).iter().map(|t| (i(&t[0]) as usize, i(&t[1]), i(&t[2]))).collect(),
        joiners: a(&v["joiners"]).iter().map(|x| i(x) as u32).collect(),
    }
}

struct Built {
    desc: Desc,
    bytes: &'static [u8],
    n: usize,              // substitutable characters
    chars: Vec<u32>,       // substitutable characters, index = position in the glyph block
    index: HashMap<u32, usize>,
    n_glyphs: usize,
}

impl Built {
    /// (number left on the glyph, character the glyph belongs to) or None for .notdef / joiner glyphs
    fn decode(&self, gid: u16) -> Option<(i64, u32)> {
        let g = gid as usize;
        if g == 0 || g > self.desc.states.len() * self.n {
            return None;
        }
        Some((self.desc.states[(g - 1) / self.n], self.chars[(g - 1) % self.n]))
    }
    fn form_of(&self, id: i64) -> String {
        if id >= 32768 {
            let k = (id - 32768) as usize;
            return format!("ERR:{}", self.desc.feats.get(k - 1).map(|f| f.0.as_str()).unwrap_or("?"));
        }
        if id < 0 {
            return "undecodable".into();
        }
        let mut fs = Vec::new();
        for (k, name) in self.desc.stages.iter().enumerate() {
            if (id >> k) & 1 == 1 && self.desc.pos.contains(name) {
                fs.push(name.clone());
            }
        }
        match fs.len() {
            0 => "none".into(),
            1 => fs.pop().unwrap(),
            _ => fs.join("+"),
        }
    }
    fn path_of(&self, id: i64) -> String {
        if id >= 32768 || id < 0 {
            return self.form_of(id);
        }
        let mut fs = Vec::new();
        for (k, name) in self.desc.stages.iter().enumerate() {
            if (id >> k) & 1 == 1 {
                fs.push(name.as_str());
            }
        }
        fs.join(">")
    }
}

fn build(desc: Desc) -> Built {
    let uni = universe();
    let chars: Vec<u32> = uni.iter().cloned().filter(|c| !desc.joiners.contains(c)).collect();
    let joiners: Vec<u32> = uni.iter().cloned().filter(|c| desc.joiners.contains(c)).collect();
    let n = chars.len();
    let s = desc.states.len();
    assert_eq!(desc.states[0], 0, "state 0 (nothing fired) must exist");
    let n_glyphs = 1 + s * n + joiners.len();
    assert!(n_glyphs <= 0xFFFF, "too many glyphs: {}", n_glyphs);
    let index: HashMap<u32, usize> = chars.iter().enumerate().map(|(i, c)| (*c, i)).collect();

    // LookupList
    let n_lookups = desc.feats.len();
    let mut lookups: Vec<Option<Obj>> = (0..n_lookups).map(|_| None).collect();
    for (fk, (_tag, li)) in desc.feats.iter().enumerate() {
        let trs: Vec<&(usize, i64, i64)> = desc.trans.iter().filter(|t| t.0 == fk + 1).collect();
        let mut lk = Obj::new();
        lk.u16(1).u16(0).u16(trs.len() as u16);
        for t in trs {
            let from = desc.states.binary_search(&t.1).expect("from state");
            let to = desc.states.binary_search(&t.2).expect("to state");
            let first = 1 + from * n;
            let delta = (((to as i64 - from as i64) * n as i64).rem_euclid(65536)) as u16;
            let mut cov = Obj::new();
            cov.u16(2).u16(1).u16(first as u16).u16((first + n - 1) as u16).u16(0);
            let mut st = Obj::new();
            st.u16(1).off16(cov).u16(delta);
            lk.off16(st);
        }
        assert!(lookups[*li].is_none(), "lookup index used twice");
        lookups[*li] = Some(lk);
    }
    let mut ll = Obj::new();
    ll.u16(n_lookups as u16);
    for l in lookups {
        ll.off16(l.expect("every lookup index used"));
    }
    // FeatureList, sorted by tag; position of feature number k (1-based) in the sorted list
    let mut order: Vec<usize> = (0..desc.feats.len()).collect();
    order.sort_by(|a, b| desc.feats[*a].0.cmp(&desc.feats[*b].0));
    let mut pos_of = vec![0usize; desc.feats.len()];
    for (p, k) in order.iter().enumerate() {
        pos_of[*k] = p;
    }
    let mut fl = Obj::new();
    fl.u16(desc.feats.len() as u16);
    for k in &order {
        let mut ft = Obj::new();
        ft.u16(0).u16(1).u16(desc.feats[*k].1 as u16);
        fl.tag(&desc.feats[*k].0).off16(ft);
    }
    // ScriptList: one script, default LangSys = langs[0]
    let langsys = |fs: &Vec<usize>| {
        let mut o = Obj::new();
        let mut idx: Vec<usize> = fs.iter().map(|k| pos_of[*k - 1]).collect();
        idx.sort();
        o.u16(0).u16(0xFFFF).u16(idx.len() as u16);
        for i in idx {
            o.u16(i as u16);
        }
        o
    };
    let mut sc = Obj::new();
    sc.off16(langsys(&desc.langs[0].1)).u16((desc.langs.len() - 1) as u16);
    let mut rest: Vec<&(String, Vec<usize>)> = desc.langs[1..].iter().collect();
    rest.sort_by(|a, b| a.0.cmp(&b.0));
    for l in rest {
        sc.tag(&l.0).off16(langsys(&l.1));
    }
    let mut sl = Obj::new();
    sl.u16(1).tag(&desc.script).off16(sc);
    let mut gsub = Obj::new();
    gsub.u16(1).u16(0).off16(sl).off16(fl).off16(ll);
    let gsub_bytes = gsub.flatten();

    let mut cmap: Vec<(u32, u16)> = chars.iter().enumerate().map(|(i, c)| (*c, (1 + i) as u16)).collect();
    for (k, c) in joiners.iter().enumerate() {
        cmap.push((*c, (1 + s * n + k) as u16));
    }
    let f = TtFont {
        glyphs: (0..n_glyphs).map(|_| GlyphSpec::Empty).collect(),
        metrics: (0..n_glyphs).map(|_| (500u16, 0i16)).collect(),
        num_h_metrics: 1,
        cmap,
        extra_tables: vec![("GSUB".into(), gsub_bytes)],
        loca_long: false,
    };
    let bytes: &'static [u8] = Box::leak(f.build().into_boxed_slice());
    let _ = W::new();
    Built { desc, bytes, n, chars, index, n_glyphs }
}

fn load_fonts(path: &str) -> BTreeMap<String, Built> {
    let mut m = BTreeMap::new();
    for v in read_ndjson(path) {
        let b = build(desc_of(&v));
        m.insert(b.desc.script.clone(), b);
    }
    m
}

fn open_font(b: &Built) -> Font<allsorts::font_data::DynamicFontTableProvider<'static>> {
    let fd = ReadScope::new(b.bytes).read::<FontData<'static>>().expect("FontData");
    let prov = fd.table_provider(0).expect("provider");
    Font::new(prov).expect("Font::new")
}

// ---- one supervised call -------------------------------------------------------------------------
struct Shaped {
    run: Vec<u32>, // what map_glyphs handed to shape (after text preprocessing)
    out: Vec<u32>, // character of every shaped glyph
    got: Vec<i64>, // number left on it (-1: glyph without state, -2: glyph of another character)
    err: String,
    panic: String,
}

fn shape_one(
    b: &Built,
    font: &mut Font<allsorts::font_data::DynamicFontTableProvider<'static>>,
    lang: &str,
    cps: &[u32],
    direct: &[bool], // positions (of the run) whose glyph is handed over with GlyphOrigin::Direct
) -> Shaped {
    let text: String = cps.iter().map(|c| char::from_u32(*c).expect("scalar")).collect();
    let script = tag_u32(&b.desc.script);
    let lang_tag = if lang.is_empty() { None } else { Some(tag_u32(lang)) };
    let mut sh = Shaped { run: vec![], out: vec![], got: vec![], err: String::new(), panic: String::new() };
    let r = guarded(|| {
        let mut glyphs = font.map_glyphs(&text, script, MatchingPresentation::NotRequired);
        let run: Vec<u32> = glyphs
            .iter()
            .map(|g| match g.glyph_origin {
                GlyphOrigin::Char(c) => c as u32,
                GlyphOrigin::Direct => 0,
            })
            .collect();
        for (k, g) in glyphs.iter_mut().enumerate() {
            if direct.get(k).copied().unwrap_or(false) {
                g.glyph_origin = GlyphOrigin::Direct;
            }
        }
        let res = font.shape(glyphs, script, lang_tag, &Features::Mask(FeatureMask::default()), None, false);
        (run, res)
    });
    match r {
        Outcome::Panicked(m) => sh.panic = m,
        Outcome::Returned((run, res)) => {
            sh.run = run;
            let infos = match res {
                Ok(i) => i,
                Err((e, i)) => {
                    sh.err = format!("{:?}", e);
                    i
                }
            };
            for info in infos {
                let ch = info.glyph.unicodes.first().map(|c| *c as u32).unwrap_or(0);
                sh.out.push(ch);
                sh.got.push(match b.decode(info.glyph.glyph_index) {
                    Some((id, c)) if c == ch => id,
                    Some(_) => -2,
                    None => -1,
                });
            }
        }
    }
    sh
}

fn ints(v: &Value) -> Vec<i64> {
    v.as_array().expect("array").iter().map(|x| x.as_i64().expect("int")).collect()
}

fn bump(m: &mut BTreeMap<String, usize>, k: String) {
    *m.entry(k).or_default() += 1;
}

// ---- replay ---------------------------------------------------------------------------------------
fn replay(font_path: &str, cases: &str, out: &str) {
    let fonts = load_fonts(font_path);
    let mut open: BTreeMap<String, _> = fonts.iter().map(|(k, b)| (k.clone(), open_font(b))).collect();
    let mut w = NdWriter::create(out);
    let (mut n, mut ok_primary, mut ok_alt, mut known, mut mism) = (0usize, 0usize, 0usize, 0usize, 0usize);
    let mut forms: BTreeMap<String, usize> = BTreeMap::new();
    let mut pairs: BTreeMap<String, usize> = BTreeMap::new();
    let mut alaph: BTreeMap<String, usize> = BTreeMap::new();
    let mut known_counts: BTreeMap<String, usize> = BTreeMap::new();
    let mut per: BTreeMap<String, usize> = BTreeMap::new();
    for c in read_ndjson(cases) {
        n += 1;
        let sc = c["s"].as_str().expect("s").to_string();
        let lang = c["l"].as_str().expect("l").to_string();
        let b = &fonts[&sc];
        let cps: Vec<u32> = ints(&c["c"]).iter().map(|x| *x as u32).collect();
        let syms: Vec<String> = c["r"].as_array().expect("r").iter().map(|s| s.as_str().unwrap().to_string()).collect();
        let exp = ints(&c["e"]);
        let id = c.get("id").cloned().unwrap_or(Value::Null);
        bump(&mut per, format!("{}|{}", c["a"].as_str().unwrap_or("?"), lang));
        // vacuity counters over what the specification expects
        let vis: Vec<usize> = (0..cps.len()).filter(|i| !b.desc.joiners.contains(&cps[*i])).collect();
        for (k, i) in vis.iter().enumerate() {
            let f = b.form_of(exp[k]);
            bump(&mut forms, format!("{}|{}|{}", sc, syms[*i], f));
            if sc == "syrc" && syms[*i] == "A" {
                bump(&mut alaph, f);
            }
        }
        if !c["x"].as_array().expect("x").is_empty() && sc == "syrc" && syms.iter().any(|s| s == "A") {
            bump(&mut alaph, "lone(isol|fin2)".into());
        }
        let nt: Vec<&String> = syms.iter().filter(|s| s.as_str() != "T").collect();
        for p in nt.windows(2) {
            bump(&mut pairs, format!("{}|{}{}", sc, p[0], p[1]));
        }
        let sh = shape_one(b, open.get_mut(&sc).unwrap(), &lang, &cps, &[]);
        let visible: Vec<u32> = vis.iter().map(|i| cps[*i]).collect();
        let base = json!({"id": id, "a": c["a"], "s": sc, "l": lang, "r": c["r"], "c": cps, "e": exp,
                          "run": sh.run, "out": sh.out, "got": sh.got, "err": sh.err, "panic": sh.panic});
        let mut rec = base.as_object().unwrap().clone();
        if sh.panic.is_empty() && sh.run != cps {
            // the alphabets are chosen so that text preprocessing leaves the text alone
            rec.insert("kind".into(), json!("binding"));
            w.write(&Value::Object(rec));
            mism += 1;
            continue;
        }
        let aligned = sh.panic.is_empty() && sh.err.is_empty() && sh.out == visible;
        if aligned && sh.got == exp {
            ok_primary += 1;
            continue;
        }
        if aligned && c["x"].as_array().unwrap().iter().any(|a| ints(a) == sh.got) {
            ok_alt += 1;
            continue;
        }
        if aligned && !c["k"].as_array().unwrap().is_empty() && ints(&c["k"]) == sh.got {
            known += 1;
            let ds: Vec<String> = c["d"].as_array().unwrap().iter().map(|d| d.as_str().unwrap().to_string()).collect();
            let key = format!("{}|{}", sc, ds.join("+"));
            let seen = known_counts.entry(key).or_default();
            *seen += 1;
            if *seen <= 3 {
                rec.insert("kind".into(), json!("known"));
                rec.insert("d".into(), c["d"].clone());
                w.write(&Value::Object(rec));
            }
            continue;
        }
        mism += 1;
        rec.insert("kind".into(), json!("mismatch"));
        w.write(&Value::Object(rec));
    }
    w.finish();
    println!(
        "{}",
        json!({"cases": n, "ok_primary": ok_primary, "ok_dev_reading": ok_alt, "code_model": known, "mismatches": mism,
               "code_model_by_defects": known_counts, "cases_per_alphabet_lang": per,
               "expected_forms": forms, "pairs": pairs, "alaph_rules": alaph,
               "glyphs": fonts.iter().map(|(k, b)| (k.clone(), json!(b.n_glyphs))).collect::<BTreeMap<_, _>>()})
    );
}

// ---- record -----------------------------------------------------------------------------------------
fn class_sym(jt: &str, jg: &str, cp: u32) -> &'static str {
    match (jt, jg, cp) {
        (_, _, 0x200C) => "N",
        (_, _, 0x200D) => "J",
        (_, "alaph", _) => "A",
        (_, "dr", _) => "X",
        ("U", _, _) => "U",
        ("R", _, _) => "R",
        ("D", _, _) => "D",
        ("C", _, _) => "C",
        ("L", _, _) => "L",
        _ => "T",
    }
}

fn record(font_path: &str, jt_path: &str, seed: u64, per_script: usize, out: &str) {
    let fonts = load_fonts(font_path);
    // {lo, dense: [[jt, jg]...], extra: [[cp, jt, jg]...]} (the file the specification reads)
    let jtv = serde_json::from_str::<Value>(&std::fs::read_to_string(jt_path).expect("jt")).expect("jt json");
    let lo = jtv["lo"].as_u64().expect("lo") as u32;
    let mut table: Vec<(u32, String, String)> = jtv["dense"]
        .as_array()
        .expect("dense")
        .iter()
        .enumerate()
        .map(|(k, t)| (lo + k as u32, t[0].as_str().unwrap().to_string(), t[1].as_str().unwrap().to_string()))
        .collect();
    for t in jtv["extra"].as_array().expect("extra") {
        table.push((t[0].as_u64().unwrap() as u32, t[1].as_str().unwrap().to_string(), t[2].as_str().unwrap().to_string()));
    }
    let sym_of: HashMap<u32, &'static str> = table.iter().map(|(c, jt, jg)| (*c, class_sym(jt, jg, *c))).collect();
    let mut rng = StdRng::seed_from_u64(seed ^ 0x0202_7AFE_E202);
    let mut w = NdWriter::create(out);
    let mut i = 0u64;
    let (mut panics, mut errs, mut reordered, mut with_direct) = (0usize, 0usize, 0usize, 0usize);
    let mut forms: BTreeMap<String, usize> = BTreeMap::new();
    let mut pairs: BTreeMap<String, usize> = BTreeMap::new();
    let mut langs_used: BTreeMap<String, usize> = BTreeMap::new();
    for (sc, b) in &fonts {
        let mut font = open_font(b);
        let in_block = |c: u32| -> bool {
            if sc == "arab" {
                (0x0600..=0x06FF).contains(&c) || (0x0750..=0x077F).contains(&c) || (0x0870..=0x08FF).contains(&c)
            } else {
                (0x0700..=0x074F).contains(&c) || (0x0860..=0x086F).contains(&c)
            }
        };
        // pools by class symbol: the script's blocks, and everything else the font maps
        let mut own: BTreeMap<&str, Vec<u32>> = BTreeMap::new();
        let mut other: BTreeMap<&str, Vec<u32>> = BTreeMap::new();
        for (c, _, _) in &table {
            if b.index.contains_key(c) || b.desc.joiners.contains(c) {
                let s = sym_of[c];
                if in_block(*c) {
                    own.entry(s).or_default().push(*c);
                } else {
                    other.entry(s).or_default().push(*c);
                }
            }
        }
        let weights: &[(&str, u32)] = if sc == "arab" {
            &[("D", 30), ("R", 20), ("T", 16), ("U", 9), ("C", 6), ("J", 3), ("N", 4), ("L", 3), ("A", 2), ("X", 2)]
        } else {
            &[("D", 24), ("R", 12), ("A", 16), ("X", 10), ("T", 14), ("U", 9), ("C", 5), ("J", 3), ("N", 4), ("L", 3)]
        };
        let total: u32 = weights.iter().map(|w| w.1).sum();
        let lang_opts: Vec<String> = vec!["".into(), "".into(), b.desc.langs[1].0.clone(), "ZZZ ".into(), "dflt".into()];
        for k in 0..per_script {
            let len = if k % 50 == 49 { rng.gen_range(13..=24) } else { rng.gen_range(0..=12) };
            let mut s: Vec<u32> = Vec::with_capacity(len);
            while s.len() < len {
                let mut r = rng.gen_range(0..total);
                let mut sym = weights[0].0;
                for (sy, wt) in weights {
                    if r < *wt {
                        sym = sy;
                        break;
                    }
                    r -= wt;
                }
                let foreign = rng.gen_range(0..100) < 12;
                let pool = match (own.get(sym), other.get(sym)) {
                    (Some(o), Some(f)) => if foreign { f } else { o },
                    (Some(o), None) => o,
                    (None, Some(f)) => f,
                    (None, None) => continue,
                };
                s.push(pool[rng.gen_range(0..pool.len())]);
            }
            let lang = lang_opts[rng.gen_range(0..lang_opts.len())].clone();
            bump(&mut langs_used, format!("{}|{}", sc, lang));
            // one event in eight hands some glyphs over without their character (GlyphOrigin::Direct):
            // the shaper must treat them as non-joining. (Marks keep their place: positions refer to
            // the run after preprocessing; joiners are never flipped, they are recognised by origin.)
            let mut direct: Vec<bool> = vec![false; s.len()];
            if k % 8 == 7 {
                let probe = shape_one(b, &mut font, &lang, &s, &[]);
                for (j, c) in probe.run.iter().enumerate() {
                    if !b.desc.joiners.contains(c) && rng.gen_range(0..100) < 30 {
                        direct[j] = true;
                    }
                }
                if direct.iter().any(|d| *d) {
                    with_direct += 1;
                }
            }
            let sh = shape_one(b, &mut font, &lang, &s, &direct);
            if !sh.panic.is_empty() {
                panics += 1;
            }
            if !sh.err.is_empty() {
                errs += 1;
            }
            if sh.panic.is_empty() && sh.run.iter().zip(s.iter()).any(|(a, b)| a != b) {
                reordered += 1;
            }
            // counters (what allsorts produced, by class of the character)
            for (c, g) in sh.out.iter().zip(sh.got.iter()) {
                bump(&mut forms, format!("{}|{}|{}", sc, sym_of.get(c).copied().unwrap_or("?"), b.form_of(*g)));
            }
            let nt: Vec<&str> = sh.run.iter().map(|c| sym_of.get(c).copied().unwrap_or("?")).filter(|s| *s != "T").collect();
            for p in nt.windows(2) {
                bump(&mut pairs, format!("{}|{}{}", sc, p[0], p[1]));
            }
            w.write(&json!({"i": i, "case": format!("{}-{}", sc, k), "ev": "Shape",
                            "a": {"s": sc, "l": lang, "text": s, "run": sh.run,
                                  "dir": (0..sh.run.len()).map(|j| direct[j] as u8).collect::<Vec<u8>>()},
                            "o": {"out": sh.out, "got": sh.got, "err": sh.err, "panic": sh.panic}}));
            i += 1;
        }
    }
    let n = w.n;
    w.finish();
    println!(
        "{}",
        json!({"events": n, "panics": panics, "shape_errors": errs, "preprocessing_reordered": reordered,
               "events_with_direct_glyphs": with_direct, "observed_forms": forms, "pairs": pairs, "langs": langs_used})
    );
}

fn main() {
    let args: Vec<String> = std::env::args().collect();
    match args.get(1).map(|s| s.as_str()) {
        Some("universe") => {
            let u = universe();
            std::fs::write(&args[2], serde_json::to_string(&u).unwrap()).expect("write");
            println!("{}", json!({"universe": u.len()}));
        }
        Some("replay") => replay(&args[2], &args[3], &args[4]),
        Some("record") => record(&args[2], &args[3], args[4].parse().expect("seed"), args[5].parse().expect("n"), &args[6]),
        Some("shape") => {
            let fonts = load_fonts(&args[2]);
            let b = &fonts[&args[3]];
            let mut font = open_font(b);
            let lang = if args[4] == "-" { "" } else { args[4].as_str() };
            let cps: Vec<u32> = args[5..].iter().map(|h| u32::from_str_radix(h, 16).expect("hex")).collect();
            let sh = shape_one(b, &mut font, lang, &cps, &[]);
            println!("run  {}", sh.run.iter().map(|c| format!("{:04X}", c)).collect::<Vec<_>>().join(" "));
            for (c, g) in sh.out.iter().zip(sh.got.iter()) {
                println!("  {:04X}  {:>6}  {:<6} {}", c, g, b.form_of(*g), b.path_of(*g));
            }
            println!("err {:?} panic {:?}", sh.err, sh.panic);
        }
        Some("one") => {
            // x02_joining one <font.ndjson> <script> <lang|-> <trace.ndjson> <hex cp>... : one event for the judge
            let fonts = load_fonts(&args[2]);
            let b = &fonts[&args[3]];
            let mut font = open_font(b);
            let lang = if args[4] == "-" { "" } else { args[4].as_str() };
            let cps: Vec<u32> = args[6..].iter().map(|h| u32::from_str_radix(h, 16).expect("hex")).collect();
            let sh = shape_one(b, &mut font, lang, &cps, &[]);
            let mut w = NdWriter::create(&args[5]);
            w.write(&json!({"i": 0, "case": "replay", "ev": "Shape",
                            "a": {"s": args[3], "l": lang, "text": cps, "run": sh.run, "dir": vec![0u8; sh.run.len()]},
                            "o": {"out": sh.out, "got": sh.got, "err": sh.err, "panic": sh.panic}}));
            w.finish();
            println!("{}", json!({"events": 1, "forms": sh.got.iter().map(|g| b.form_of(*g)).collect::<Vec<_>>()}));
        }
        Some("font") => {
            let fonts = load_fonts(&args[2]);
            std::fs::write(&args[4], fonts[&args[3]].bytes).expect("write");
        }
        _ => {
            eprintln!("usage: x02_joining universe|replay|record|shape|font ...");
            std::process::exit(2);
        }
    }
}
