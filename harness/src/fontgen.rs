//! Font synthesis, independent of allsorts' writers: sfnt container and the basic tables a
//! loadable TrueType font needs. Every binary of the harness that has to hand allsorts a whole
//! font builds it from here; property-specific tables (GSUB, gvar, CFF ...) are added as raw bytes.

pub struct W(pub Vec<u8>);

impl W {
    pub fn new() -> W {
        W(Vec::new())
    }
    pub fn u8(&mut self, v: u8) -> &mut W {
        self.0.push(v);
        self
    }
    pub fn i8(&mut self, v: i8) -> &mut W {
        self.0.push(v as u8);
        self
    }
    pub fn u16(&mut self, v: u16) -> &mut W {
        self.0.extend_from_slice(&v.to_be_bytes());
        self
    }
    pub fn i16(&mut self, v: i16) -> &mut W {
        self.0.extend_from_slice(&v.to_be_bytes());
        self
    }
    pub fn u24(&mut self, v: u32) -> &mut W {
        self.0.extend_from_slice(&v.to_be_bytes()[1..]);
        self
    }
    pub fn u32(&mut self, v: u32) -> &mut W {
        self.0.extend_from_slice(&v.to_be_bytes());
        self
    }
    pub fn i32(&mut self, v: i32) -> &mut W {
        self.0.extend_from_slice(&v.to_be_bytes());
        self
    }
    pub fn u64(&mut self, v: u64) -> &mut W {
        self.0.extend_from_slice(&v.to_be_bytes());
        self
    }
    pub fn bytes(&mut self, b: &[u8]) -> &mut W {
        self.0.extend_from_slice(b);
        self
    }
    pub fn tag(&mut self, t: &str) -> &mut W {
        assert_eq!(t.len(), 4);
        self.0.extend_from_slice(t.as_bytes());
        self
    }
    pub fn len(&self) -> usize {
        self.0.len()
    }
    pub fn set_u16(&mut self, at: usize, v: u16) {
        self.0[at..at + 2].copy_from_slice(&v.to_be_bytes());
    }
    pub fn set_u32(&mut self, at: usize, v: u32) {
        self.0[at..at + 4].copy_from_slice(&v.to_be_bytes());
    }
    pub fn pad4(&mut self) {
        while self.0.len() % 4 != 0 {
            self.0.push(0);
        }
    }
    pub fn done(self) -> Vec<u8> {
        self.0
    }
}

pub fn tag_u32(t: &str) -> u32 {
    let b = t.as_bytes();
    u32::from_be_bytes([b[0], b[1], b[2], b[3]])
}

pub fn tag_str(t: u32) -> String {
    t.to_be_bytes().iter().map(|&b| b as char).collect()
}

/// OpenType table checksum: sum of big-endian u32 words, data padded with zeros.
pub fn checksum(data: &[u8]) -> u32 {
    let mut sum = 0u32;
    let mut i = 0;
    while i < data.len() {
        let mut w = [0u8; 4];
        let n = (data.len() - i).min(4);
        w[..n].copy_from_slice(&data[i..i + n]);
        sum = sum.wrapping_add(u32::from_be_bytes(w));
        i += 4;
    }
    sum
}

/// Assemble an sfnt. Tables are written in the given order, directory sorted by tag.
/// `head.checkSumAdjustment` is fixed up when a head table is present.
pub fn build_sfnt(version: u32, tables: &[(String, Vec<u8>)]) -> Vec<u8> {
    let n = tables.len() as u16;
    let mut es = 0u16;
    while (1u32 << (es + 1)) <= n as u32 {
        es += 1;
    }
    let sr = (1u16 << es).wrapping_mul(16);
    let mut w = W::new();
    w.u32(version).u16(n).u16(sr).u16(es).u16(n.wrapping_mul(16).wrapping_sub(sr));
    let dir_at = w.len();
    for _ in 0..n {
        w.u32(0).u32(0).u32(0).u32(0);
    }
    let mut recs: Vec<(u32, u32, u32, u32)> = Vec::new(); // tag, sum, off, len
    let mut head_off = None;
    for (tag, data) in tables {
        let off = w.len() as u32;
        let mut d = data.clone();
        if tag == "head" && d.len() >= 12 {
            d[8..12].copy_from_slice(&[0, 0, 0, 0]);
            head_off = Some(off as usize);
        }
        recs.push((tag_u32(tag), checksum(&d), off, d.len() as u32));
        w.bytes(&d);
        w.pad4();
    }
    let mut sorted = recs.clone();
    sorted.sort_by_key(|r| r.0);
    for (i, r) in sorted.iter().enumerate() {
        let at = dir_at + 16 * i;
        w.set_u32(at, r.0);
        w.set_u32(at + 4, r.1);
        w.set_u32(at + 8, r.2);
        w.set_u32(at + 12, r.3);
    }
    if let Some(h) = head_off {
        let total = checksum(&w.0);
        w.set_u32(h + 8, 0xB1B0AFBAu32.wrapping_sub(total));
    }
    w.done()
}

/// Independent reader of an sfnt directory: (tag, checksum, offset, length) in directory order.
#[derive(Debug, Clone)]
pub struct SfntDir {
    pub version: u32,
    pub num_tables: u16,
    pub search_range: u16,
    pub entry_selector: u16,
    pub range_shift: u16,
    pub records: Vec<(u32, u32, u32, u32)>,
}

pub fn be16(d: &[u8], at: usize) -> Option<u16> {
    d.get(at..at + 2).map(|b| u16::from_be_bytes([b[0], b[1]]))
}
pub fn be32(d: &[u8], at: usize) -> Option<u32> {
    d.get(at..at + 4).map(|b| u32::from_be_bytes([b[0], b[1], b[2], b[3]]))
}

pub fn read_sfnt_dir(d: &[u8], at: usize) -> Option<SfntDir> {
    let version = be32(d, at)?;
    let n = be16(d, at + 4)?;
    let mut records = Vec::new();
    for i in 0..n as usize {
        let r = at + 12 + 16 * i;
        records.push((be32(d, r)?, be32(d, r + 4)?, be32(d, r + 8)?, be32(d, r + 12)?));
    }
    Some(SfntDir {
        version,
        num_tables: n,
        search_range: be16(d, at + 6)?,
        entry_selector: be16(d, at + 8)?,
        range_shift: be16(d, at + 10)?,
        records,
    })
}

pub fn table_bytes<'a>(d: &'a [u8], dir: &SfntDir, tag: &str) -> Option<&'a [u8]> {
    let t = tag_u32(tag);
    let r = dir.records.iter().find(|r| r.0 == t)?;
    d.get(r.2 as usize..(r.2 as usize).checked_add(r.3 as usize)?)
}

// ---- basic tables ---------------------------------------------------------------------------

pub fn head(units_per_em: u16, loca_long: bool, bbox: (i16, i16, i16, i16)) -> Vec<u8> {
    let mut w = W::new();
    w.u16(1).u16(0) // version
        .u32(0x00010000) // fontRevision
        .u32(0) // checkSumAdjustment
        .u32(0x5F0F3CF5) // magic
        .u16(0x000B) // flags
        .u16(units_per_em)
        .u64(0)
        .u64(0)
        .i16(bbox.0)
        .i16(bbox.1)
        .i16(bbox.2)
        .i16(bbox.3)
        .u16(0) // macStyle
        .u16(8) // lowestRecPPEM
        .i16(2) // fontDirectionHint
        .i16(loca_long as i16)
        .i16(0);
    w.done()
}

pub fn hhea(num_h_metrics: u16, ascender: i16, descender: i16, advance_max: u16) -> Vec<u8> {
    let mut w = W::new();
    w.u16(1).u16(0).i16(ascender).i16(descender).i16(0).u16(advance_max).i16(0).i16(0).i16(0);
    w.i16(1).i16(0).i16(0); // caret
    w.i16(0).i16(0).i16(0).i16(0); // reserved
    w.i16(0).u16(num_h_metrics);
    w.done()
}

pub fn maxp_tt(num_glyphs: u16) -> Vec<u8> {
    let mut w = W::new();
    w.u32(0x00010000).u16(num_glyphs);
    // maxPoints, maxContours, maxCompositePoints, maxCompositeContours, maxZones, maxTwilightPoints,
    // maxStorage, maxFunctionDefs, maxInstructionDefs, maxStackElements, maxSizeOfInstructions,
    // maxComponentElements, maxComponentDepth
    for v in [64u16, 8, 64, 8, 1, 0, 0, 0, 0, 0, 0, 4, 4] {
        w.u16(v);
    }
    w.done()
}

pub fn maxp_cff(num_glyphs: u16) -> Vec<u8> {
    let mut w = W::new();
    w.u32(0x00005000).u16(num_glyphs);
    w.done()
}

/// hmtx: `metrics` are (advance, lsb) long metrics, `lsbs` the trailing left side bearings.
pub fn hmtx(metrics: &[(u16, i16)], lsbs: &[i16]) -> Vec<u8> {
    let mut w = W::new();
    for (a, l) in metrics {
        w.u16(*a).i16(*l);
    }
    for l in lsbs {
        w.i16(*l);
    }
    w.done()
}

pub fn post_v3() -> Vec<u8> {
    let mut w = W::new();
    w.u32(0x00030000).u32(0).i16(-100).i16(50).u32(0).u32(0).u32(0).u32(0).u32(0);
    w.done()
}

pub fn os2_v4(first_char: u16, last_char: u16) -> Vec<u8> {
    let mut w = W::new();
    w.u16(4).i16(500).u16(400).u16(5).u16(0);
    for _ in 0..10 {
        w.i16(0);
    } // subscript .. strikeout
    w.i16(0); // sFamilyClass
    w.bytes(&[0; 10]); // panose
    w.u32(0).u32(0).u32(0).u32(0); // unicode ranges
    w.tag("VERF");
    w.u16(0x40).u16(first_char).u16(last_char);
    w.i16(800).i16(-200).i16(0).u16(800).u16(200);
    w.u32(0).u32(0);
    w.i16(500).i16(700).u16(0).u16(32).u16(0);
    w.done()
}

/// name table with the given (name id, ascii string) records, platform 3 encoding 1.
pub fn name(records: &[(u16, &str)]) -> Vec<u8> {
    let mut w = W::new();
    let mut storage = Vec::new();
    w.u16(0).u16(records.len() as u16).u16(6 + 12 * records.len() as u16);
    for (id, s) in records {
        let utf16: Vec<u8> = s.encode_utf16().flat_map(|u| u.to_be_bytes()).collect();
        w.u16(3).u16(1).u16(0x409).u16(*id).u16(utf16.len() as u16).u16(storage.len() as u16);
        storage.extend(utf16);
    }
    w.bytes(&storage);
    w.done()
}

/// cmap with one format 12 subtable (3/10) holding exactly the given sorted (code, gid) pairs.
pub fn cmap_format12(pairs: &[(u32, u16)]) -> Vec<u8> {
    let mut groups: Vec<(u32, u32, u32)> = Vec::new();
    for &(c, g) in pairs {
        if let Some(last) = groups.last_mut() {
            if last.1 + 1 == c && last.2 + (last.1 - last.0) + 1 == g as u32 {
                last.1 = c;
                continue;
            }
        }
        groups.push((c, c, g as u32));
    }
    let mut w = W::new();
    w.u16(0).u16(1).u16(3).u16(10).u32(12);
    w.u16(12).u16(0).u32(16 + 12 * groups.len() as u32).u32(0).u32(groups.len() as u32);
    for (s, e, g) in groups {
        w.u32(s).u32(e).u32(g);
    }
    w.done()
}

/// cmap with one format 4 subtable (3/1), one segment per pair run, plus the final 0xFFFF segment.
pub fn cmap_format4(pairs: &[(u16, u16)]) -> Vec<u8> {
    let mut segs: Vec<(u16, u16, u16)> = Vec::new(); // start, end, first gid
    for &(c, g) in pairs {
        if let Some(last) = segs.last_mut() {
            if last.1.wrapping_add(1) == c && last.2.wrapping_add(last.1 - last.0).wrapping_add(1) == g {
                last.1 = c;
                continue;
            }
        }
        segs.push((c, c, g));
    }
    if segs.last().map(|s| s.1) != Some(0xFFFF) {
        segs.push((0xFFFF, 0xFFFF, 0));
    }
    let n = segs.len() as u16;
    let mut es = 0u16;
    while (1u32 << (es + 1)) <= n as u32 {
        es += 1;
    }
    let sr = 2 * (1u16 << es);
    let mut w = W::new();
    w.u16(0).u16(1).u16(3).u16(1).u32(12);
    let len = 16 + 8 * n;
    w.u16(4).u16(len).u16(0).u16(2 * n).u16(sr).u16(es).u16(2 * n - sr);
    for s in &segs {
        w.u16(s.1);
    }
    w.u16(0);
    for s in &segs {
        w.u16(s.0);
    }
    for s in &segs {
        let delta = if s.0 == 0xFFFF && s.2 == 0 { 1 } else { s.2.wrapping_sub(s.0) };
        w.u16(delta);
    }
    for _ in &segs {
        w.u16(0);
    }
    w.done()
}

// ---- glyf -----------------------------------------------------------------------------------

#[derive(Clone, Debug, PartialEq)]
pub struct Pt {
    pub x: i16,
    pub y: i16,
    pub on: bool,
}

#[derive(Clone, Debug)]
pub struct Component {
    pub gid: u16,
    pub dx: i16,
    pub dy: i16,
    /// None, Some([a, b, c, d]) as F2Dot14 raw values (scale: a = d, b = c = 0 ...)
    pub transform: Option<[i16; 4]>,
    pub flags_extra: u16,
}

#[derive(Clone, Debug)]
pub enum GlyphSpec {
    Empty,
    Simple { contours: Vec<Vec<Pt>>, instructions: Vec<u8> },
    Composite { components: Vec<Component>, instructions: Vec<u8> },
}

pub fn simple_bbox(contours: &[Vec<Pt>]) -> (i16, i16, i16, i16) {
    let pts: Vec<&Pt> = contours.iter().flatten().collect();
    if pts.is_empty() {
        return (0, 0, 0, 0);
    }
    (
        pts.iter().map(|p| p.x).min().unwrap(),
        pts.iter().map(|p| p.y).min().unwrap(),
        pts.iter().map(|p| p.x).max().unwrap(),
        pts.iter().map(|p| p.y).max().unwrap(),
    )
}

/// Encode one glyph record the plain way (no repeat flags, shorts where they fit).
pub fn encode_glyph(g: &GlyphSpec, bbox_override: Option<(i16, i16, i16, i16)>) -> Vec<u8> {
    let mut w = W::new();
    match g {
        GlyphSpec::Empty => {}
        GlyphSpec::Simple { contours, instructions } => {
            let bb = bbox_override.unwrap_or_else(|| simple_bbox(contours));
            w.i16(contours.len() as i16).i16(bb.0).i16(bb.1).i16(bb.2).i16(bb.3);
            let mut end = 0u16;
            for c in contours {
                end = end.wrapping_add(c.len() as u16);
                w.u16(end.wrapping_sub(1));
            }
            w.u16(instructions.len() as u16).bytes(instructions);
            let pts: Vec<&Pt> = contours.iter().flatten().collect();
            let mut flags = Vec::new();
            let mut xs = W::new();
            let mut ys = W::new();
            let (mut px, mut py) = (0i16, 0i16);
            for p in &pts {
                let mut f = if p.on { 1u8 } else { 0 };
                let dx = p.x.wrapping_sub(px);
                let dy = p.y.wrapping_sub(py);
                if dx == 0 {
                    f |= 0x10;
                } else if (-255..=255).contains(&dx) {
                    f |= 0x02;
                    if dx > 0 {
                        f |= 0x10;
                    }
                    xs.u8(dx.unsigned_abs() as u8);
                } else {
                    xs.i16(dx);
                }
                if dy == 0 {
                    f |= 0x20;
                } else if (-255..=255).contains(&dy) {
                    f |= 0x04;
                    if dy > 0 {
                        f |= 0x20;
                    }
                    ys.u8(dy.unsigned_abs() as u8);
                } else {
                    ys.i16(dy);
                }
                flags.push(f);
                px = p.x;
                py = p.y;
            }
            w.bytes(&flags).bytes(&xs.0).bytes(&ys.0);
        }
        GlyphSpec::Composite { components, instructions } => {
            let bb = bbox_override.unwrap_or((0, 0, 0, 0));
            w.i16(-1).i16(bb.0).i16(bb.1).i16(bb.2).i16(bb.3);
            for (i, c) in components.iter().enumerate() {
                let mut f: u16 = 0x0002 | c.flags_extra; // ARGS_ARE_XY_VALUES
                let words = !(-128..=127).contains(&c.dx) || !(-128..=127).contains(&c.dy);
                if words {
                    f |= 0x0001;
                }
                if i + 1 < components.len() {
                    f |= 0x0020;
                } else if !instructions.is_empty() {
                    f |= 0x0100;
                }
                match c.transform {
                    None => {}
                    Some(t) if t[1] == 0 && t[2] == 0 && t[0] == t[3] => f |= 0x0008,
                    Some(t) if t[1] == 0 && t[2] == 0 => f |= 0x0040,
                    Some(_) => f |= 0x0080,
                }
                w.u16(f).u16(c.gid);
                if words {
                    w.i16(c.dx).i16(c.dy);
                } else {
                    w.i8(c.dx as i8).i8(c.dy as i8);
                }
                match c.transform {
                    None => {}
                    Some(t) if f & 0x0008 != 0 => {
                        w.i16(t[0]);
                    }
                    Some(t) if f & 0x0040 != 0 => {
                        w.i16(t[0]).i16(t[3]);
                    }
                    Some(t) => {
                        w.i16(t[0]).i16(t[1]).i16(t[2]).i16(t[3]);
                    }
                }
            }
            if !instructions.is_empty() {
                w.u16(instructions.len() as u16).bytes(instructions);
            }
        }
    }
    w.done()
}

/// glyf + loca from encoded glyph records. Records are padded to 2 bytes (short) / 4 bytes (long).
pub fn glyf_loca(records: &[Vec<u8>], long: bool) -> (Vec<u8>, Vec<u8>) {
    let mut glyf = W::new();
    let mut loca = W::new();
    for r in records {
        if long {
            loca.u32(glyf.len() as u32);
        } else {
            loca.u16((glyf.len() / 2) as u16);
        }
        glyf.bytes(r);
        if long {
            glyf.pad4();
        } else if glyf.len() % 2 == 1 {
            glyf.u8(0);
        }
    }
    if long {
        loca.u32(glyf.len() as u32);
    } else {
        loca.u16((glyf.len() / 2) as u16);
    }
    (glyf.done(), loca.done())
}

/// A complete, minimal TrueType font.
pub struct TtFont {
    pub glyphs: Vec<GlyphSpec>,
    /// (advance, lsb) per glyph
    pub metrics: Vec<(u16, i16)>,
    pub num_h_metrics: u16,
    /// unicode -> gid
    pub cmap: Vec<(u32, u16)>,
    pub extra_tables: Vec<(String, Vec<u8>)>,
    pub loca_long: bool,
}

impl TtFont {
    pub fn new(glyphs: Vec<GlyphSpec>) -> TtFont {
        let n = glyphs.len();
        TtFont {
            glyphs,
            metrics: (0..n).map(|i| (500 + 10 * i as u16, i as i16)).collect(),
            num_h_metrics: n as u16,
            cmap: Vec::new(),
            extra_tables: Vec::new(),
            loca_long: false,
        }
    }

    pub fn tables(&self) -> Vec<(String, Vec<u8>)> {
        let n = self.glyphs.len() as u16;
        let recs: Vec<Vec<u8>> = self.glyphs.iter().map(|g| encode_glyph(g, None)).collect();
        let (glyf, loca) = glyf_loca(&recs, self.loca_long);
        let nh = self.num_h_metrics.max(1).min(n.max(1)) as usize;
        let long: Vec<(u16, i16)> = self.metrics.iter().take(nh).cloned().collect();
        let lsbs: Vec<i16> = self.metrics.iter().skip(nh).map(|m| m.1).collect();
        let mut pairs = self.cmap.clone();
        pairs.sort();
        let mut t: Vec<(String, Vec<u8>)> = vec![
            ("head".into(), head(1000, self.loca_long, (0, 0, 1000, 1000))),
            ("hhea".into(), hhea(nh as u16, 800, -200, 1000)),
            ("maxp".into(), maxp_tt(n)),
            ("OS/2".into(), os2_v4(0x20, 0xFFFF)),
            ("hmtx".into(), hmtx(&long, &lsbs)),
            ("cmap".into(), cmap_format12(&pairs)),
            ("loca".into(), loca),
            ("glyf".into(), glyf),
            ("name".into(), name(&[(1, "Verif"), (2, "Regular"), (4, "Verif Regular"), (6, "Verif-Regular")])),
            ("post".into(), post_v3()),
        ];
        for (tag, data) in &self.extra_tables {
            t.retain(|x| &x.0 != tag);
            t.push((tag.clone(), data.clone()));
        }
        t
    }

    pub fn build(&self) -> Vec<u8> {
        build_sfnt(0x00010000, &self.tables())
    }
}

/// A triangle with distinct coordinates derived from `seed`, all on-curve.
pub fn triangle(seed: i16) -> GlyphSpec {
    GlyphSpec::Simple {
        contours: vec![vec![
            Pt { x: 10 + seed, y: 20 + seed, on: true },
            Pt { x: 300 + 2 * seed, y: 40 + seed, on: true },
            Pt { x: 150 + seed, y: 400 + 3 * seed, on: true },
        ]],
        instructions: vec![],
    }
}
