use std::fs::File;
use std::io::{BufRead, BufReader, BufWriter, Write};

pub fn read_ndjson(path: &str) -> Vec<serde_json::Value> {
    let f = File::open(path).unwrap_or_else(|e| panic!("open {}: {}", path, e));
    BufReader::new(f)
        .lines()
        .map(|l| l.expect("read line"))
        .filter(|l| !l.trim().is_empty())
        .map(|l| serde_json::from_str(&l).unwrap_or_else(|e| panic!("json {}: {}", e, l)))
        .collect()
}

pub struct NdWriter {
    w: BufWriter<File>,
    pub n: usize,
}

impl NdWriter {
    pub fn create(path: &str) -> NdWriter {
        let f = File::create(path).unwrap_or_else(|e| panic!("create {}: {}", path, e));
        NdWriter { w: BufWriter::new(f), n: 0 }
    }
    pub fn write(&mut self, v: &serde_json::Value) {
        serde_json::to_writer(&mut self.w, v).expect("write json");
        self.w.write_all(b"\n").expect("write nl");
        self.n += 1;
    }
    pub fn finish(mut self) {
        self.w.flush().expect("flush");
    }
}

pub fn hex(bytes: &[u8]) -> String {
    bytes.iter().map(|b| format!("{:02x}", b)).collect()
}

pub fn unhex(s: &str) -> Vec<u8> {
    (0..s.len() / 2)
        .map(|i| u8::from_str_radix(&s[2 * i..2 * i + 2], 16).expect("hex"))
        .collect()
}

/// Root of the allsorts checkout under test (fixtures are read from there).
pub fn repo_root() -> String {
    std::env::var("VERIF_REPO").unwrap_or_else(|_| "/repo".to_string())
}

/// Repository fonts (all files under /repo/tests/fonts with a font-like extension), sorted.
pub fn repo_fonts() -> Vec<String> {
    let mut out = Vec::new();
    fn walk(dir: &std::path::Path, out: &mut Vec<String>) {
        if let Ok(rd) = std::fs::read_dir(dir) {
            for e in rd.flatten() {
                let p = e.path();
                if p.is_dir() {
                    walk(&p, out);
                } else if let Some(ext) = p.extension().and_then(|e| e.to_str()) {
                    let ext = ext.to_ascii_lowercase();
                    if ["ttf", "otf", "ttc", "woff", "woff2"].contains(&ext.as_str()) {
                        out.push(p.to_string_lossy().to_string());
                    }
                }
            }
        }
    }
    walk(std::path::Path::new(&format!("{}/tests/fonts", repo_root())), &mut out);
    walk(std::path::Path::new(&format!("{}/tests/aots", repo_root())), &mut out);
    out.sort();
    out
}
