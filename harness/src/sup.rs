//! Supervision: run a closure, turn a panic into data.
use std::cell::RefCell;
use std::panic::{self, AssertUnwindSafe};
use std::sync::Once;

thread_local! {
    static LAST_PANIC: RefCell<Option<String>> = RefCell::new(None);
}
static INSTALL: Once = Once::new();

/// Install a panic hook that records `message @ file:line` for the current thread and stays quiet.
pub fn install_quiet_panic_hook() {
    INSTALL.call_once(|| {
        panic::set_hook(Box::new(|info| {
            let msg = if let Some(s) = info.payload().downcast_ref::<&str>() {
                (*s).to_string()
            } else if let Some(s) = info.payload().downcast_ref::<String>() {
                s.clone()
            } else {
                "<non-string panic>".to_string()
            };
            let loc = info
                .location()
                .map(|l| format!("{}:{}", l.file(), l.line()))
                .unwrap_or_default();
            LAST_PANIC.with(|p| *p.borrow_mut() = Some(format!("{} @ {}", msg, loc)));
        }));
    });
}

/// Outcome of a supervised call.
pub enum Outcome<T> {
    Returned(T),
    Panicked(String),
}

/// Run `f`, catching a panic. The panic message (with source location) is returned as data.
pub fn guarded<T>(f: impl FnOnce() -> T) -> Outcome<T> {
    install_quiet_panic_hook();
    LAST_PANIC.with(|p| *p.borrow_mut() = None);
    match panic::catch_unwind(AssertUnwindSafe(f)) {
        Ok(v) => Outcome::Returned(v),
        Err(_) => {
            let m = LAST_PANIC
                .with(|p| p.borrow_mut().take())
                .unwrap_or_else(|| "<unknown panic>".to_string());
            Outcome::Panicked(m)
        }
    }
}

/// A panic site that is stable under edits that shift line numbers: file name + message class
/// (digits collapsed).
pub fn panic_key(msg: &str) -> String {
    let (m, loc) = match msg.rsplit_once(" @ ") {
        Some((m, l)) => (m, l),
        None => (msg, ""),
    };
    let file = loc.rsplit_once(':').map(|(f, _)| f).unwrap_or(loc);
    let file = file.rsplit_once("/src/").map(|(_, f)| f).unwrap_or(file);
    let mut class = String::new();
    let mut last_digit = false;
    for ch in m.chars() {
        if ch.is_ascii_digit() {
            if !last_digit {
                class.push('N');
            }
            last_digit = true;
        } else {
            class.push(ch);
            last_digit = false;
        }
    }
    let class: String = class.chars().take(60).collect();
    format!("{}|{}", file, class.replace(' ', "_"))
}

/// Progress watchdog for replay / record loops. allsorts must return from every call; a call that never returns
/// would otherwise end as a time-out of the driver (a tool error) instead of a finding. Call `enter` right before
/// each call into allsorts with a description of the input; when no `enter` (or `done`) happens for `limit_secs`
/// seconds the description of the call in progress is written to `hang_path` and the process exits with status 3.
pub struct Watchdog {
    state: std::sync::Arc<std::sync::Mutex<(std::time::Instant, String, bool)>>,
}

impl Watchdog {
    pub fn start(hang_path: &str, limit_secs: u64) -> Watchdog {
        let _ = std::fs::remove_file(hang_path);
        let state = std::sync::Arc::new(std::sync::Mutex::new((std::time::Instant::now(), String::new(), false)));
        let st = state.clone();
        let path = hang_path.to_string();
        std::thread::spawn(move || loop {
            std::thread::sleep(std::time::Duration::from_secs(1));
            let (stuck, desc) = {
                let g = st.lock().unwrap();
                (g.2 && g.0.elapsed().as_secs() >= limit_secs, g.1.clone())
            };
            if stuck {
                let _ = std::fs::write(&path, format!("{}\n", desc));
                std::process::exit(3);
            }
        });
        Watchdog { state }
    }

    /// A call into allsorts is about to start.
    pub fn enter(&self, desc: String) {
        let mut g = self.state.lock().unwrap();
        *g = (std::time::Instant::now(), desc, true);
    }

    /// The loop is over (what follows is the harness' own work).
    pub fn done(&self) {
        let mut g = self.state.lock().unwrap();
        g.2 = false;
    }
}
