//! Shared support for the verification harness binaries.
//!
//! The harness never decides a property: it builds bytes, calls allsorts, and records facts.
pub mod sup;
pub mod util;
pub mod fontgen;
pub mod proj;
