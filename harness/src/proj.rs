//! Independent readers used to PROJECT written fonts into the abstract vocabulary of
//! SfntWrite.tla: the sfnt projection (directory, measured checksums, padding) and the
//! cross-table facts (maxp/hhea/hmtx/head/loca/glyf/CFF/cmap/post). Nothing here calls allsorts.
use crate::fontgen::{be16, be32, checksum, read_sfnt_dir, tag_u32};
use serde_json::{json, Value};

pub fn limbs(v: u32) -> Value {
    json!([v >> 16, v & 0xFFFF])
}

/// Projection of a whole sfnt file. None when not even the directory can be read.
pub fn project_sfnt(d: &[u8]) -> Option<Value> {
    let dir = read_sfnt_dir(d, 0)?;
    let mut recs = Vec::new();
    let head_tag = tag_u32("head");
    let mut head_adj = 0u32;
    for r in &dir.records {
        let (tag, sum, off, len) = (r.0, r.1, r.2 as usize, r.3 as usize);
        let body = d.get(off..off.checked_add(len)?)?;
        let mut body_v = body.to_vec();
        if tag == head_tag && len >= 12 {
            head_adj = be32(body, 8)?;
            body_v[8..12].copy_from_slice(&[0, 0, 0, 0]);
        }
        let pad_len = (4 - len % 4) % 4;
        let pad_end = (off + len + pad_len).min(d.len());
        let pad_zero = d[off + len..pad_end].iter().all(|&b| b == 0);
        recs.push(json!({"tag": limbs(tag), "off": off, "len": len, "sum": limbs(sum),
                         "measured": limbs(checksum(&body_v)), "padZero": pad_zero}));
    }
    let n = dir.num_tables as usize;
    Some(json!({
        "version": limbs(dir.version), "numTables": dir.num_tables, "searchRange": dir.search_range,
        "entrySelector": dir.entry_selector, "rangeShift": dir.range_shift, "fileLen": d.len(),
        "records": recs, "totalSum": limbs(checksum(d)), "dirSum": limbs(checksum(d.get(..12 + 16 * n)?)),
        "headAdj": limbs(head_adj),
    }))
}

/// Number of charstrings of a CFF 1 table, or None if the structure cannot be followed.
pub fn cff_charstrings_count(d: &[u8]) -> Option<i64> {
    let hdr = *d.get(2)? as usize;
    // skip Name INDEX
    let after_name = skip_index(d, hdr)?;
    // Top DICT INDEX: first object
    let (count, off_size) = (be16(d, after_name)? as usize, *d.get(after_name + 2)? as usize);
    if count == 0 {
        return None;
    }
    let offs = after_name + 3;
    let o1 = read_off(d, offs, off_size)?;
    let o2 = read_off(d, offs + off_size, off_size)?;
    let data0 = offs + (count + 1) * off_size - 1;
    let dict = d.get(data0 + o1..data0 + o2)?;
    let cs = dict_operand(dict, 17)?;
    let cs = usize::try_from(cs).ok()?;
    Some(be16(d, cs)? as i64)
}

fn read_off(d: &[u8], at: usize, size: usize) -> Option<usize> {
    let mut v = 0usize;
    for k in 0..size {
        v = (v << 8) | *d.get(at + k)? as usize;
    }
    Some(v)
}

fn skip_index(d: &[u8], at: usize) -> Option<usize> {
    let count = be16(d, at)? as usize;
    if count == 0 {
        return Some(at + 2);
    }
    let off_size = *d.get(at + 2)? as usize;
    let offs = at + 3;
    let last = read_off(d, offs + count * off_size, off_size)?;
    Some(offs + (count + 1) * off_size - 1 + last)
}

/// First operand of operator `op` (single-byte operators only) in a DICT.
fn dict_operand(dict: &[u8], op: u8) -> Option<i64> {
    let mut i = 0;
    let mut stack: Vec<i64> = Vec::new();
    while i < dict.len() {
        let b0 = dict[i];
        match b0 {
            0..=21 => {
                if b0 == 12 {
                    i += 2;
                } else {
                    if b0 == op {
                        return stack.first().copied();
                    }
                    i += 1;
                }
                stack.clear();
            }
            28 => {
                stack.push(i16::from_be_bytes([*dict.get(i + 1)?, *dict.get(i + 2)?]) as i64);
                i += 3;
            }
            29 => {
                stack.push(i32::from_be_bytes([*dict.get(i + 1)?, *dict.get(i + 2)?, *dict.get(i + 3)?, *dict.get(i + 4)?]) as i64);
                i += 5;
            }
            30 => {
                i += 1;
                loop {
                    let b = *dict.get(i)?;
                    i += 1;
                    if b & 0x0F == 0x0F || b >> 4 == 0x0F {
                        break;
                    }
                }
                stack.push(0);
            }
            32..=246 => {
                stack.push(b0 as i64 - 139);
                i += 1;
            }
            247..=250 => {
                stack.push((b0 as i64 - 247) * 256 + *dict.get(i + 1)? as i64 + 108);
                i += 2;
            }
            251..=254 => {
                stack.push(-(b0 as i64 - 251) * 256 - *dict.get(i + 1)? as i64 - 108);
                i += 2;
            }
            _ => return None,
        }
    }
    None
}

/// Largest glyph id any cmap subtable (formats 0, 4, 6, 10, 12, 13) can produce; None if a
/// subtable cannot be followed. Unknown formats are skipped.
pub fn cmap_max_gid(d: &[u8]) -> Option<i64> {
    let n = be16(d, 2)? as usize;
    let mut max: i64 = -1;
    for i in 0..n {
        let off = be32(d, 4 + 8 * i + 4)? as usize;
        let st = d.get(off..)?;
        match be16(st, 0)? {
            0 => {
                for k in 0..256 {
                    max = max.max(*st.get(6 + k)? as i64);
                }
            }
            4 => {
                let segx2 = be16(st, 6)? as usize;
                let seg = segx2 / 2;
                let ends = 14;
                let starts = ends + segx2 + 2;
                let deltas = starts + segx2;
                let ros = deltas + segx2;
                for s in 0..seg {
                    let e = be16(st, ends + 2 * s)? as u32;
                    let b = be16(st, starts + 2 * s)? as u32;
                    let delta = be16(st, deltas + 2 * s)?;
                    let ro = be16(st, ros + 2 * s)? as usize;
                    if b > e {
                        continue;
                    }
                    for c in b..=e {
                        if c == 0xFFFF && ro == 0 && b == 0xFFFF {
                            // final segment conventionally maps 0xFFFF to 0
                        }
                        let g = if ro == 0 {
                            (c as u16).wrapping_add(delta)
                        } else {
                            let at = ros + 2 * s + ro + 2 * (c - b) as usize;
                            match be16(st, at) {
                                Some(0) | None => 0,
                                Some(g) => g.wrapping_add(delta),
                            }
                        };
                        max = max.max(g as i64);
                    }
                }
            }
            6 => {
                let cnt = be16(st, 8)? as usize;
                for k in 0..cnt {
                    max = max.max(be16(st, 10 + 2 * k)? as i64);
                }
            }
            10 => {
                let cnt = be32(st, 16)? as usize;
                for k in 0..cnt {
                    max = max.max(be16(st, 20 + 2 * k)? as i64);
                }
            }
            12 | 13 => {
                let fmt = be16(st, 0)?;
                let ng = be32(st, 12)? as usize;
                for k in 0..ng {
                    let s = be32(st, 16 + 12 * k)? as i64;
                    let e = be32(st, 20 + 12 * k)? as i64;
                    let g = be32(st, 24 + 12 * k)? as i64;
                    if e < s {
                        continue;
                    }
                    max = max.max(if fmt == 12 { g + (e - s) } else { g });
                }
            }
            _ => {}
        }
    }
    Some(max)
}

/// Cross-table facts of a table set. `get(tag)` returns the table bytes.
pub fn cross_facts(get: &dyn Fn(&str) -> Option<Vec<u8>>) -> Value {
    let t = |s: &str| get(s);
    let maxp = t("maxp");
    let hhea = t("hhea");
    let hmtx = t("hmtx");
    let head = t("head");
    let loca = t("loca");
    let glyf = t("glyf");
    let cff = t("CFF ");
    let cmap = t("cmap");
    let post = t("post");
    let num_glyphs = maxp.as_ref().and_then(|m| be16(m, 4)).map(|v| v as i64).unwrap_or(-1);
    let n_hm = hhea.as_ref().and_then(|h| be16(h, 34)).map(|v| v as i64).unwrap_or(-1);
    let loc_format = head.as_ref().and_then(|h| be16(h, 50)).map(|v| v as i64).unwrap_or(-1);
    let mut loca_monotone = true;
    let mut loca_last: i64 = -1;
    let mut max_comp: i64 = -1;
    let mut glyphs_parse = true;
    if let (Some(loca), Some(glyf)) = (&loca, &glyf) {
        let wide = loc_format == 1;
        // the table holds numGlyphs + 1 offsets; anything after them is padding
        let have = if wide { loca.len() / 4 } else { loca.len() / 2 };
        let n = if num_glyphs >= 0 { have.min(num_glyphs as usize + 1) } else { have };
        let at = |i: usize| -> usize {
            if wide {
                be32(loca, 4 * i).unwrap_or(0) as usize
            } else {
                2 * be16(loca, 2 * i).unwrap_or(0) as usize
            }
        };
        for i in 0..n {
            if i + 1 < n {
                let (a, b) = (at(i), at(i + 1));
                if b < a {
                    loca_monotone = false;
                    continue;
                }
                if b > a {
                    match glyf.get(a..b) {
                        None => glyphs_parse = false,
                        Some(g) => match walk_glyph(g) {
                            None => glyphs_parse = false,
                            Some(mc) => max_comp = max_comp.max(mc),
                        },
                    }
                }
            }
        }
        if n > 0 {
            loca_last = at(n - 1) as i64;
        }
    }
    let cmap_max = cmap.as_ref().map(|c| cmap_max_gid(c));
    json!({
        "has": {"maxp": maxp.is_some(), "hhea": hhea.is_some(), "hmtx": hmtx.is_some(), "head": head.is_some(),
                "loca": loca.is_some(), "glyf": glyf.is_some(), "cff": cff.is_some(), "cmap": cmap.is_some(),
                "post": post.is_some()},
        "numGlyphs": num_glyphs, "nHM": n_hm, "hmtxLen": hmtx.as_ref().map(|h| h.len() as i64).unwrap_or(-1),
        "locFormat": loc_format, "locaLen": loca.as_ref().map(|l| l.len() as i64).unwrap_or(-1),
        "locaMonotone": loca_monotone, "locaLast": loca_last,
        "glyfLen": glyf.as_ref().map(|g| g.len() as i64).unwrap_or(-1),
        "maxCompId": max_comp, "glyphsParse": glyphs_parse,
        "cffCharstrings": cff.as_ref().and_then(|c| cff_charstrings_count(c)).unwrap_or(-1),
        "cmapParses": cmap_max.map(|m| m.is_some()).unwrap_or(true),
        "cmapMaxGid": cmap_max.flatten().unwrap_or(-1),
        "postVersion": post.as_ref().and_then(|p| be32(p, 0)).map(|v| json!([v >> 16, v & 0xFFFF])).unwrap_or(json!([0, 0])),
        "postLen": post.as_ref().map(|p| p.len() as i64).unwrap_or(-1),
        "built": {"hmtx": false, "loca": false},
    })
}

/// Walk one glyph record: Some(max component glyph id or -1) if its structure is inside the record.
fn walk_glyph(g: &[u8]) -> Option<i64> {
    let nc = be16(g, 0)? as i16;
    if g.len() < 10 {
        return None;
    }
    if nc >= 0 {
        // endPts + instruction length must be present
        let n = nc as usize;
        let il = be16(g, 10 + 2 * n)? as usize;
        g.get(10 + 2 * n + 2 + il..)?;
        return Some(-1);
    }
    let mut at = 10;
    let mut max = -1i64;
    loop {
        let flags = be16(g, at)?;
        let gid = be16(g, at + 2)?;
        max = max.max(gid as i64);
        at += 4;
        at += if flags & 0x0001 != 0 { 4 } else { 2 };
        if flags & 0x0008 != 0 {
            at += 2;
        } else if flags & 0x0040 != 0 {
            at += 4;
        } else if flags & 0x0080 != 0 {
            at += 8;
        }
        g.get(..at)?;
        if flags & 0x0020 == 0 {
            if flags & 0x0100 != 0 {
                let il = be16(g, at)? as usize;
                g.get(..at + 2 + il)?;
            }
            break;
        }
    }
    Some(max)
}
