#!/usr/bin/env python3
"""Regenerate the two findings tables of DESIGN.md section 12.3 (between the FIXED-TABLE / KNOWN-TABLE markers)
from known_findings.txt."""
import os, re, subprocess
V = os.path.dirname(os.path.dirname(os.path.abspath(__file__)))
fixed, known = [], []
subj = {}
try:
    for l in subprocess.run(["git", "-C", "/repo", "log", "--format=%h %s"], capture_output=True, text=True).stdout.splitlines():
        h, s = l.split(" ", 1)
        subj[h[:7]] = s
except Exception:
    pass
def esc(s):
    return s.replace("|", "\\|")
for ln in open(os.path.join(V, "known_findings.txt")):
    m = re.match(r"^fixed:\s+property=(\S+)\s+(\S+)\s+(.*)$", ln.rstrip("\n"))
    if m:
        fixed.append((m.group(1), m.group(2), m.group(3)))
    m = re.match(r"^known:\s+property=(\S+)\s+key=(\S+)\s+(.*)$", ln.rstrip("\n"))
    if m:
        known.append((m.group(1), m.group(2), m.group(3)))
# one row per (property, commit)
rows, seen = [], set()
for p, c, d in fixed:
    if (p, c) in seen:
        continue
    seen.add((p, c))
    first = c.split("+")[0][:7]
    what = subj.get(first, "")
    what = re.sub(r"^fix:\s*", "", what) if what else re.sub(r"^\[was key=[^\]]*\]\s*", "", d)[:160]
    rows.append("| %s | %s | %s |" % (p, c, esc(what)))
ft = "| Property | fix: commit(s) in /repo | What was repaired (commit subject) |\n|---|---|---|\n" + "\n".join(sorted(rows)) + "\n"
kr = []
for p, k, d in sorted(known):
    d = d if len(d) <= 230 else d[:227] + "..."
    kr.append("| %s | `%s` | %s |" % (p, esc(k), esc(d)))
kt = "| Property | Key | Defect (from known_findings.txt, truncated) |\n|---|---|---|\n" + "\n".join(kr) + "\n"
p = os.path.join(V, "DESIGN.md")
s = open(p).read()
for tag, tbl in (("FIXED-TABLE", ft), ("KNOWN-TABLE", kt)):
    a = s.index("<!-- %s-BEGIN -->" % tag); b = s.index("<!-- %s-END -->" % tag)
    s = s[:a] + "<!-- %s-BEGIN -->\n" % tag + tbl + s[b:]
open(p, "w").write(s)
print(len(rows), "fixed rows;", len(kr), "known rows")
