#!/usr/bin/env python3
"""Fill check_result of the round-4 seeded changes still marked 'pending' from their first_run.txt."""
import glob, json, os, re
V = os.path.dirname(os.path.dirname(os.path.abspath(__file__)))
for d in sorted(glob.glob(os.path.join(V, "seeded", "*-r4m*"))):
    mp = os.path.join(d, "meta.json"); fr = os.path.join(d, "first_run.txt")
    m = json.load(open(mp))
    if m.get("check_result") != "pending" or not os.path.exists(fr):
        continue
    t = open(fr).read()
    x = re.search(r"prop=(\w+) tier=(\w+) exit=(\d+)", t)
    if not x:
        continue
    prop, tier, rc = x.groups()
    keys = []
    for k in re.findall(r"key=(\S+)", t):
        if k not in keys:
            keys.append(k)
    if rc == "1":
        m["check_result"] = "caught by ./check %s --tier %s (first run; keys %s)" % (prop, tier, ", ".join(keys[:4]))
    elif rc == "0":
        m["check_result"] = "MISSED by ./check %s --tier %s (first run)" % (prop, tier)
    else:
        m["check_result"] = "first run of ./check %s --tier %s ended in a TOOL ERROR (exit %s)" % (prop, tier, rc)
    json.dump(m, open(mp, "w"), indent=1)
    print(os.path.basename(d), m["check_result"][:100])
