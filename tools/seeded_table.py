#!/usr/bin/env python3
"""Regenerate the seeded-changes table of DESIGN.md (between the SEEDED-TABLE markers) from seeded/*/meta.json."""
import glob, json, os, re
V = os.path.dirname(os.path.dirname(os.path.abspath(__file__)))
rows = []
for d in sorted(glob.glob(os.path.join(V, "seeded", "*"))):
    m = json.load(open(os.path.join(d, "meta.json")))
    name = os.path.basename(d)
    breaks = (m.get("breaks") or "").replace("|", "\\|").replace("\n", " ")
    needs = (m.get("needs_to_manifest") or "").replace("|", "\\|").replace("\n", " ")
    res = (m.get("check_result") or "").replace("|", "\\|").replace("\n", " ")
    if len(breaks) > 260:
        breaks = breaks[:257] + "..."
    if len(needs) > 200:
        needs = needs[:197] + "..."
    rows.append("| %s | %s | %s | %s |" % (name, breaks, needs, res))
tbl = "| Seeded change | What it changes | What it needs to manifest | Outcome |\n|---|---|---|---|\n" + "\n".join(rows) + "\n"
p = os.path.join(V, "DESIGN.md")
s = open(p).read()
a = s.index("<!-- SEEDED-TABLE-BEGIN -->"); b = s.index("<!-- SEEDED-TABLE-END -->")
s2 = s[:a] + "<!-- SEEDED-TABLE-BEGIN -->\n" + tbl + s[b:]
open(p, "w").write(s2)
print(len(rows), "rows")
