#!/usr/bin/env python3
"""Regenerate the per-property status table of DESIGN.md (between the STATUS-TABLE markers) from MANIFEST.json,
evidence/*.json (as last written by the checks) and known_findings.txt."""
import json, os, re
V = os.path.dirname(os.path.dirname(os.path.abspath(__file__)))
man = json.load(open(os.path.join(V, "MANIFEST.json")))
known, fixed = {}, {}
for ln in open(os.path.join(V, "known_findings.txt")):
    m = re.match(r"^(known|fixed):\s+property=(\S+)", ln)
    if m:
        d = known if m.group(1) == "known" else fixed
        d[m.group(2)] = d.get(m.group(2), 0) + 1
rows = []
for c in man["checks"]:
    pid = c["property_id"]
    ev = {}
    p = os.path.join(V, "evidence", pid + ".json")
    if os.path.exists(p):
        ev = json.load(open(p))
    cov = ev.get("coverage", {})
    specs = c.get("technique", "")
    rows.append("| %s | %s | %s | %s | %s | %s | %s / %s |" % (
        pid, c["level_claimed"]["category"], ev.get("tier", "-"),
        cov.get("states", cov.get("evaluations", "-")), cov.get("transitions", "-"),
        cov.get("traces_validated_against_impl", "-"), known.get(pid, 0), fixed.get(pid, 0)))
tbl = ("| Property | Level | Tier of the committed evidence | TLC states (or evaluations) | Transitions / ops on the implementation | "
       "Cases + events validated against allsorts | known / fixed lines |\n|---|---|---|---|---|---|---|\n" + "\n".join(rows) + "\n")
p = os.path.join(V, "DESIGN.md")
s = open(p).read()
a = s.index("<!-- STATUS-TABLE-BEGIN -->"); b = s.index("<!-- STATUS-TABLE-END -->")
open(p, "w").write(s[:a] + "<!-- STATUS-TABLE-BEGIN -->\n" + tbl + s[b:])
print(len(rows), "rows")
