#!/usr/bin/env python3
"""Rebuild /verif/MANIFEST.json from manifest.d/<id>.json (claimed properties) and
manifest.d/not_applicable.json (id -> reason). Properties with neither get a 'not built yet' reason."""
import json, os
V = os.path.dirname(os.path.dirname(os.path.abspath(__file__)))
props = [json.loads(l) for l in open(os.path.join(V, "properties.jsonl"))]
na_path = os.path.join(V, "manifest.d", "not_applicable.json")
na_src = json.load(open(na_path)) if os.path.exists(na_path) else {}
hold_path = os.path.join(V, "manifest.d", "HOLD")
hold = set(open(hold_path).read().split()) if os.path.exists(hold_path) else set()
checks, na = [], []
for p in props:
    pid = p["id"]
    f = os.path.join(V, "manifest.d", pid + ".json")
    if pid not in hold and os.path.exists(f) and os.path.exists(os.path.join(V, "lib", "props", pid.lower() + ".py")):
        c = json.load(open(f))
        checks.append(dict(property_id=pid, quick_cmd="./check %s --tier quick" % pid,
                           thorough_cmd="./check %s --tier thorough" % pid,
                           evidence_file="/verif/evidence/%s.json" % pid,
                           replay_cmd_template="./check %s --replay {path}" % pid, engine="tlc+vh",
                           level_claimed=dict(category=c["category"], text=c["text"], design_ref=c["design_ref"]),
                           level_note=c["level_note"], technique=c["technique"]))
    else:
        na.append(dict(property_id=pid, reason=na_src.get(pid, "check not built yet in this round (planned, see DESIGN.md section 11)")))
old = json.load(open(os.path.join(V, "MANIFEST.json")))
m = dict(version=1, setup_cmd=old["setup_cmd"], hooks=old["hooks"],
         engines=[dict(name="tlc+vh", path="/verif/check", serves_properties=[c["property_id"] for c in checks],
                       kind_free_text=old["engines"][0]["kind_free_text"])],
         checks=checks, not_applicable=na, notes=old["notes"])
json.dump(m, open(os.path.join(V, "MANIFEST.json"), "w"), indent=1)
print("claimed:", [c["property_id"] for c in checks])
