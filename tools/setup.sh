#!/bin/sh
# Build the harness binaries of the registered checks (offline) so that the first check run is fast.
# Each check rebuilds what it needs anyway (cargo is incremental), so a failure here is not fatal.
cd "$(dirname "$0")/../harness" || exit 1
export CARGO_NET_OFFLINE=true
rc=0
for b in $(cat BINS); do
  cargo build --release --offline --bin "$b" || rc=1
done
cargo build --release --offline --no-default-features --features rust --target-dir target-rust --bin c10_containers || rc=1
exit $rc
