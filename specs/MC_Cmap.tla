------------------------------ MODULE MC_Cmap ------------------------------
(***************************************************************************)
(* Bounded exploration of Cmap and generator of replay cases (C06).        *)
(*                                                                         *)
(* A state is one case: a subtable (kind "sub") or a whole encoding-record *)
(* set with OS/2.usFirstCharIndex (kind "font"), chosen by Init from the   *)
(* parameter sets below.  One Next step marks it done; on done states the  *)
(* invariants                                                              *)
(*   DesignOK : the design properties of the specification on this case    *)
(*   EmitCase : prints the case with, per probe, the set of conformant     *)
(*              answers and the deciding rule                              *)
(* are evaluated.  The harness encodes every case to real cmap bytes with  *)
(* its own encoder and replays it on allsorts (spec -> impl).              *)
(***************************************************************************)
EXTENDS Cmap, Json, Sequences, SequencesExt

CONSTANTS MaxSegs,      \* real segments / groups per generated format 4 / 12 table
          Deep          \* TRUE: larger parameter sets (thorough tier)

VARIABLES par, done
vars == <<par, done>>

MaxCode == 1114111
InRange(S) == {c \in S : c >= 0 /\ c <= MaxCode}
Asc(S) == SetToSortSeq(S, LAMBDA a, b : a < b)

---------------------------------------------------------------------------
\* Format 4.  Layout: 1..MaxSegs non-overlapping ranges with ends from B4 (+ the final 0xFFFF
\* segment when the last range does not end there); per segment an (idDelta, idRangeOffset kind)
\* option that rotates with the pattern number p, so that every position sees every option.
B4 == IF Deep THEN {0, 1, 32, 255, 256, 4095, 65534, 65535} ELSE {0, 1, 32, 255, 256, 65534, 65535}
R4 == {r \in B4 \X B4 : r[1] <= r[2]}
Disjoint(L) == \A a \in L, b \in L : a = b \/ a[2] < b[1] \/ b[2] < a[1]
Layouts4 == UNION {{L \in kSubset(k, R4) : Disjoint(L)} : k \in 1 .. MaxSegs}

D4 == <<0, 1, -1, 32767, -32768>>
K4 == <<"zero", "gia", "ffff">>
GV4 == <<0, 1, 7, 65535, 300>>
MaxGiaSpan == 40

Table4(L, p) ==
  LET rs0 == SetToSortSeq(L, LAMBDA a, b : a[1] < b[1])
      rs  == IF rs0[Len(rs0)][2] = 65535 THEN rs0 ELSE Append(rs0, <<65535, 65535>>)
      n   == Len(rs)
      opt(j)   == (p + 4 * j) % 15
      delta(j) == D4[(opt(j) % 5) + 1]
      kind0(j) == K4[(opt(j) \div 5) + 1]
      span(j)  == rs[j][2] - rs[j][1] + 1
      kind(j)  == IF kind0(j) = "gia" /\ span(j) > MaxGiaSpan THEN "zero" ELSE kind0(j)
      gspan(j) == IF kind(j) = "gia" THEN span(j) ELSE 0
      start[j \in 1 .. n] == IF j = 1 THEN 0 ELSE start[j - 1] + gspan(j - 1)
      ro(j) == CASE kind(j) = "zero" -> 0
                 [] kind(j) = "ffff" -> 65535
                 [] kind(j) = "gia"  -> 2 * (n - (j - 1) + start[j])
      slice(j) == [m \in 1 .. gspan(j) |-> GV4[((m + j + p) % 5) + 1]]
      RECURSIVE cat(_)
      cat(j) == IF j > n THEN <<>> ELSE slice(j) \o cat(j + 1)
  IN [fmt |-> 4,
      segs |-> [j \in 1 .. n |-> [s |-> rs[j][1], e |-> rs[j][2], delta |-> delta(j), ro |-> ro(j)]],
      gia |-> cat(1)]

Probes4(t) ==
  InRange(UNION {{t.segs[j].s - 1, t.segs[j].s, t.segs[j].s + 1, t.segs[j].e - 1, t.segs[j].e, t.segs[j].e + 1}
                 : j \in 1 .. Len(t.segs)})
  \cup {0, 65, 65535, 65536, 65601, 131071, MaxCode}

\* quick tier: five of the fifteen rotations (every option still occurs, not at every position)
Pats4 == IF Deep THEN 0 .. 14 ELSE {0, 3, 6, 9, 12}
Params4 == {[fam |-> "f4", L |-> L, p |-> p] : L \in Layouts4, p \in Pats4}

---------------------------------------------------------------------------
\* Format 12.
S12 == IF Deep THEN {0, 1, 65, 65534, 65535, 65536, 128512, 1114110}
              ELSE {0, 65, 65535, 65536, 128512, 1114110}
Len12 == IF Deep THEN {1, 2, 4} ELSE {1, 2}
G12 == {<<s, s + n - 1>> : s \in S12, n \in Len12}
Layouts12 == UNION {{L \in kSubset(k, {g \in G12 : g[2] <= MaxCode}) : Disjoint(L)} : k \in 1 .. MaxSegs}
GS12 == <<1, 5, 0, 65532>>
Table12(L, p) ==
  LET rs == SetToSortSeq(L, LAMBDA a, b : a[1] < b[1]) IN
  [fmt |-> 12, groups |-> [j \in 1 .. Len(rs) |-> [s |-> rs[j][1], e |-> rs[j][2], g |-> GS12[((p + j) % 4) + 1]]]]
Probes12(t) ==
  InRange(UNION {{t.groups[j].s - 1, t.groups[j].s, t.groups[j].s + 1, t.groups[j].e, t.groups[j].e + 1}
                 : j \in 1 .. Len(t.groups)})
  \cup {0, 65535, 65536, MaxCode}
Params12 == {[fam |-> "f12", L |-> L, p |-> p] : L \in Layouts12, p \in 0 .. 3}
            \cup {[fam |-> "f12big", L |-> {}, p |-> 0]}
Table12Big == [fmt |-> 12, groups |-> <<[s |-> 32, e |-> 126, g |-> 3], [s |-> 65536, e |-> 131070, g |-> 1]>>]

---------------------------------------------------------------------------
\* Formats 0, 6, 10.
Table0(p) == [fmt |-> 0, gia |-> [i \in 1 .. 256 |-> IF (i - 1) % 5 = p THEN 0 ELSE ((i - 1) + 37 * p) % 256]]
Probes0 == {0, 1, 65, 127, 128, 254, 255, 256, 257, 321, 65535, 65536, 65601, MaxCode}
Params0 == {[fam |-> "f0", L |-> {}, p |-> p] : p \in 0 .. 2}

GVT == <<0, 9, 65535, 300, 2>>
TableTrim(fmt, first, n, p) == [fmt |-> fmt, first |-> first, gia |-> [m \in 1 .. n |-> GVT[((m + p) % 5) + 1]]]
ProbesTrim(t) ==
  InRange({t.first - 1, t.first, t.first + 1, t.first + Len(t.gia) - 1, t.first + Len(t.gia),
           t.first + 65536, t.first + Len(t.gia) + 65535})
  \cup {0, 65535, 65536, MaxCode}
Params6  == {[fam |-> "f6", L |-> <<f, n>>, p |-> p] : f \in {0, 1, 32, 255, 65520}, n \in {0, 1, 3, 16}, p \in 0 .. 1}
Params10 == {[fam |-> "f10", L |-> <<f, n>>, p |-> p] : f \in {0, 65, 65535, 65536, 1114096}, n \in {0, 1, 3, 16}, p \in 0 .. 1}

---------------------------------------------------------------------------
\* Format 2.  subHeader 0 serves the single bytes; up to two further subHeaders serve the lead
\* bytes 0x81, 0xA1, 0xFE (several lead bytes may share a subHeader, two subHeaders may share a
\* glyph sub-array and differ by idDelta).
S0_2 == {<<0, 256>>, <<32, 96>>, <<0, 128>>, <<65, 1>>}
SH_2 == {<<64, 3>>, <<161, 2>>, <<0, 1>>, <<255, 1>>, <<254, 2>>}
Leads2 == <<129, 161, 254>>
D2 == <<0, 1, -1, 32767>>
GV2 == <<0, 9, 65535, 300>>
Others2 == {<<>>} \cup {<<a>> : a \in SH_2} \cup {<<a, b>> : a \in SH_2, b \in SH_2}

Table2(s0, oth, p) ==
  LET n == 1 + Len(oth)
      rng(k) == IF k = 0 THEN s0 ELSE oth[k]                      \* k 0-based subHeader number
      share == n = 3 /\ oth[1][2] = oth[2][2] /\ p % 2 = 1        \* subHeader 2 reuses the array of 1
      cnt(k) == IF k = 2 /\ share THEN 0 ELSE rng(k)[2]
      start[k \in 0 .. (n - 1)] == IF k = 0 THEN 0 ELSE start[k - 1] + cnt(k - 1)
      st(k) == IF k = 2 /\ share THEN start[1] ELSE start[k]
      ro(k) == 8 * n + 2 * st(k) - (8 * k + 6)
      delta(k) == IF k = 0 THEN 0 ELSE D2[((p + k) % 4) + 1]
      slice(k) == IF k = 0
                  THEN [m \in 1 .. cnt(0) |-> IF (s0[1] + m - 1) % 7 = 3 THEN 0 ELSE ((s0[1] + m - 1) % 250) + 1]
                  ELSE [m \in 1 .. cnt(k) |-> GV2[((m + k + p) % 4) + 1]]
      RECURSIVE cat(_)
      cat(k) == IF k >= n THEN <<>> ELSE slice(k) \o cat(k + 1)
      leadSub(b) == IF n = 1 THEN 0
                    ELSE IF b = Leads2[1] THEN 1
                    ELSE IF b = Leads2[2] THEN (IF n = 3 THEN 2 ELSE 1)
                    ELSE IF b = Leads2[3] THEN 1 ELSE 0
  IN [fmt |-> 2,
      keys |-> [i \in 1 .. 256 |-> 8 * leadSub(i - 1)],
      subs |-> [k \in 1 .. n |-> [first |-> rng(k - 1)[1], count |-> rng(k - 1)[2],
                                  delta |-> delta(k - 1), ro |-> ro(k - 1)]],
      gia |-> cat(0)]

Probes2(t) ==
  LET leads == {b \in 0 .. 255 : SubIdx(t, b) # 0} IN
  {0, 32, 64, 65, 66, 127, 128, 129, 161, 254, 255, 321, 16705, 65535, 65536, 65601, 98624, MaxCode}
  \cup UNION {{b * 256 + x : x \in {y \in {t.subs[SubIdx(t, b) + 1].first - 1, t.subs[SubIdx(t, b) + 1].first,
                                            t.subs[SubIdx(t, b) + 1].first + t.subs[SubIdx(t, b) + 1].count - 1,
                                            t.subs[SubIdx(t, b) + 1].first + t.subs[SubIdx(t, b) + 1].count,
                                            0, 255} : y >= 0 /\ y <= 255}}
              : b \in leads}
Params2 == {[fam |-> "f2", L |-> <<s0, oth>>, p |-> p] : s0 \in S0_2, oth \in Others2, p \in (IF Deep THEN 0 .. 3 ELSE {0, 1})}

---------------------------------------------------------------------------
SDelta(x) == LET m == x % 65536 IN IF m >= 32768 THEN m - 65536 ELSE m
Seg(s, e, d, r) == [s |-> s, e |-> e, delta |-> d, ro |-> r]
\* Format 4, hand-laid tables (family "f4x"): what Table4 never produces.  idRangeOffset shared
\* between segments, pointing into another segment's slice, at the very end of the table, one past
\* it, odd, into the idRangeOffset array itself; unused glyphIdArray entries; a final segment that
\* maps real characters; no final segment; and segment lists that are unsorted / overlapping
\* (Dev_UnsortedAny).  X4(v, d1, d2): variant v with idDelta d1 / d2 on the first two segments.
T4(segs, gia) == [fmt |-> 4, segs |-> segs, gia |-> gia]
RO4(n, j, k) == 2 * (n - (j - 1) + k)        \* idRangeOffset of segment j (1-based, of n) whose first code uses glyphIdArray[k]
Fin4 == Seg(65535, 65535, 1, 0)
GX4 == <<5, 0, 65535, 300, 7, 1>>
X4(v, d1, d2) ==
  CASE v = 1  -> T4(<<Seg(65, 68, d1, RO4(3, 1, 0)), Seg(97, 100, d2, RO4(3, 2, 0)), Fin4>>, SubSeq(GX4, 1, 4))       \* one slice, two segments
    [] v = 2  -> T4(<<Seg(65, 68, d1, RO4(3, 1, 0)), Seg(97, 100, d2, RO4(3, 2, 2)), Fin4>>, GX4)                      \* overlapping slices
    [] v = 3  -> T4(<<Seg(65, 66, d1, RO4(3, 1, 4)), Seg(97, 100, d2, RO4(3, 2, 0)), Fin4>>, GX4)                      \* slices in reverse order
    [] v = 4  -> T4(<<Seg(65, 68, d1, RO4(3, 1, 2)), Seg(97, 98, d2, RO4(3, 2, 5)), Fin4>>, GX4)                       \* last entry; one past the end
    [] v = 5  -> T4(<<Seg(65, 68, d1, RO4(3, 1, 0) + 1), Seg(97, 100, d2, RO4(3, 2, 2)), Fin4>>, GX4)                  \* odd idRangeOffset
    [] v = 6  -> T4(<<Seg(65, 68, d1, 2), Seg(97, 100, d2, RO4(3, 2, 2)), Fin4>>, GX4)                                 \* into idRangeOffset[]
    [] v = 7  -> T4(<<Seg(65, 67, d1, RO4(3, 1, 1)), Seg(97, 100, d2, 0), Fin4>>, SubSeq(GX4, 1, 5))                   \* unused entries around
    [] v = 8  -> T4(<<Seg(65, 68, d1, 0), Seg(65532, 65535, d2, RO4(2, 2, 0))>>, <<40, 41, 0, 0>>)                     \* final segment maps characters
    [] v = 9  -> T4(<<Seg(65, 68, d1, 65535), Seg(97, 100, d2, RO4(3, 2, 0)), Fin4>>, SubSeq(GX4, 1, 4))               \* Fontographer + glyphIdArray
    [] v = 10 -> T4(<<Seg(0, 0, d1, RO4(3, 1, 0)), Seg(1, 1, d2, RO4(3, 2, 0)), Fin4>>, <<300>>)                       \* code 0 through the array
    [] v = 11 -> T4(<<Seg(65, 68, d1, 0), Seg(97, 100, d2, RO4(2, 2, 0))>>, SubSeq(GX4, 1, 4))                         \* no final 0xFFFF segment
    [] v = 12 -> T4(<<Seg(65, 68, d1, RO4(3, 1, 0)), Seg(65532, 65534, d2, RO4(3, 2, 3)), Seg(65535, 65535, d1, RO4(3, 3, 5))>>, GX4)
    \* unsorted / overlapping
    [] v = 20 -> T4(<<Seg(97, 100, d1, 0), Seg(65, 68, d2, 0), Fin4>>, <<>>)                                           \* descending
    [] v = 21 -> T4(<<Seg(65, 90, d1, 0), Seg(69, 72, d2, RO4(3, 2, 0)), Fin4>>, SubSeq(GX4, 1, 4))                    \* nested
    [] v = 22 -> T4(<<Seg(65, 68, d1, 0), Seg(65, 68, d2, RO4(3, 2, 0)), Fin4>>, SubSeq(GX4, 1, 4))                    \* same range twice
    [] v = 23 -> T4(<<Seg(65, 80, d1, 0), Seg(75, 96, d2, 0), Fin4>>, <<>>)                                            \* partial overlap
    [] v = 24 -> T4(<<Fin4, Seg(65, 68, d1, 0), Seg(97, 100, d2, RO4(3, 3, 0))>>, SubSeq(GX4, 1, 4))                   \* final segment first
    [] v = 25 -> T4(<<Seg(69, 72, d2, RO4(3, 1, 0)), Seg(65, 90, d1, 0), Fin4>>, SubSeq(GX4, 1, 4))                    \* enclosing segment second
    [] v = 26 -> T4(<<Seg(65, 68, d1, 0), Seg(0, 65535, d2, 0)>>, <<>>)                                                \* everything segment
DX4 == IF Deep THEN {0, 1, -1, 32767, -32768, -65} ELSE {0, 1, -32768, -65}
VX4 == (1 .. 12) \cup (20 .. 26)
ParamsX4 == {[fam |-> "f4x", L |-> <<d1, d2>>, p |-> v] : v \in VX4, d1 \in DX4, d2 \in DX4}

---------------------------------------------------------------------------
\* Format 12, group lists as written (family "f12x"): nested, partially overlapping, identical
\* ranges with different glyphs, descending order, a group whose glyph ids run past 65535.
GX12 == << [s |-> 65, e |-> 70, g |-> 10], [s |-> 68, e |-> 75, g |-> 100], [s |-> 65, e |-> 70, g |-> 200],
           [s |-> 60, e |-> 90, g |-> 300], [s |-> 70, e |-> 70, g |-> 7], [s |-> 65536, e |-> 65540, g |-> 1],
           [s |-> 65538, e |-> 65538, g |-> 50], [s |-> 0, e |-> 0, g |-> 9], [s |-> 1114111, e |-> 1114111, g |-> 2],
           [s |-> 200, e |-> 210, g |-> 65530] >>
NX12 == IF Deep THEN 10 ELSE 6      \* groups used in the length-3 lists
ParamsX12 == {[fam |-> "f12x", L |-> <<a, b>>, p |-> 0] : a \in 1 .. 10, b \in (1 .. 10)}
             \cup {[fam |-> "f12x", L |-> <<a, b, c>>, p |-> 0] : a \in 1 .. NX12, b \in 1 .. NX12, c \in 1 .. NX12}
DistinctIx(L) == \A i, j \in 1 .. Len(L) : i # j => L[i] # L[j]
TableX12(L) == [fmt |-> 12, groups |-> [j \in 1 .. Len(L) |-> GX12[L[j]]]]

---------------------------------------------------------------------------
\* Format 2, four subHeaders (family "f2x"): lead bytes assigned to subHeaders in any order, two
\* lead bytes sharing one subHeader, glyph slices that overlap (idRangeOffset into the previous
\* subHeader's slice), empty subHeaders, firstCode + entryCount = 256, idDelta on subHeader 0.
S0_2x == {<<0, 256>>, <<32, 96>>, <<65, 1>>, <<200, 56>>}
R_2x == { << <<64, 3>>, <<161, 2>>, <<0, 1>> >>, << <<254, 2>>, <<0, 0>>, <<255, 1>> >>,
          << <<0, 256>>, <<64, 3>>, <<161, 94>> >>, << <<161, 2>>, <<161, 2>>, <<64, 63>> >> }
Perm_2x == {<<1, 2, 3>>, <<3, 1, 2>>, <<2, 3, 1>>}
D2x == <<0, 1, -1, 32767, -32768>>
GV2x == <<0, 9, 65535, 300, 1>>
Table2x(s0, r, perm, ov, p) ==
  LET rng(k) == IF k = 0 THEN s0 ELSE r[k]
      back(k) == IF k >= 2 THEN (IF ov < rng(k - 1)[2] THEN ov ELSE rng(k - 1)[2]) ELSE 0
      start[k \in 0 .. 3] == IF k = 0 THEN 0 ELSE start[k - 1] + rng(k - 1)[2] - back(k)
      len == Max({start[k] + rng(k)[2] : k \in 0 .. 3})
      ro(k) == 8 * 4 + 2 * start[k] - (8 * k + 6)
      delta(k) == IF k = 0 THEN (IF p % 2 = 1 THEN D2x[(p % 5) + 1] ELSE 0) ELSE D2x[((p + k) % 5) + 1]
      leadSub(b) == IF b = 129 THEN perm[1] ELSE IF b = 161 THEN perm[2] ELSE IF b = 254 THEN perm[3]
                    ELSE IF b = 144 THEN perm[1] ELSE 0
  IN [fmt |-> 2,
      keys |-> [i \in 1 .. 256 |-> 8 * leadSub(i - 1)],
      subs |-> [k \in 1 .. 4 |-> [first |-> rng(k - 1)[1], count |-> rng(k - 1)[2], delta |-> delta(k - 1), ro |-> ro(k - 1)]],
      gia |-> [m \in 1 .. len |-> GV2x[((m + p) % 5) + 1]]]
ParamsX2 == {[fam |-> "f2x", L |-> <<s0, r, perm, ov>>, p |-> p] :
               s0 \in S0_2x, r \in R_2x, perm \in Perm_2x, ov \in {0, 1, 2}, p \in (IF Deep THEN 0 .. 4 ELSE {0, 1})}

---------------------------------------------------------------------------
\* Whole fonts, 1: sets of encoding records over thirteen platform/encoding pairs (two of them
\* unsupported, one - (0, 5), a format 14 subtable - not a character map); record k maps 'A' to glyph
\* k through a subtable of a format typical for the pair.  quick: every set of up to four records
\* and every set over the ten pairs of round 1; thorough: all 8192 sets.
Pairs == <<<<0, 0>>, <<0, 1>>, <<0, 3>>, <<0, 4>>, <<0, 5>>, <<0, 6>>, <<1, 0>>, <<1, 1>>, <<3, 0>>, <<3, 1>>, <<3, 2>>,
          <<3, 4>>, <<3, 10>>>>
OldPairIx == {1, 3, 4, 7, 8, 9, 10, 11, 12, 13}
FmtOfPair(pe) ==
  CASE pe = <<0, 0>> -> 6  [] pe = <<0, 1>> -> 4  [] pe = <<0, 5>> -> 14 [] pe = <<0, 6>> -> 12
    [] pe = <<0, 3>> -> 4  [] pe = <<0, 4>> -> 12 [] pe = <<1, 0>> -> 0
    [] pe = <<1, 1>> -> 0  [] pe = <<3, 0>> -> 4  [] pe = <<3, 1>> -> 4  [] pe = <<3, 2>> -> 2
    [] pe = <<3, 4>> -> 2  [] pe = <<3, 10>> -> 12
OneGlyph(fmt, code, g) ==
  CASE fmt = 0  -> [fmt |-> 0, gia |-> [i \in 1 .. 256 |-> IF i - 1 = code THEN g ELSE 0]]
    [] fmt = 2  -> [fmt |-> 2, keys |-> [i \in 1 .. 256 |-> 0],
                    subs |-> <<[first |-> code, count |-> 1, delta |-> 0, ro |-> 2]>>, gia |-> <<g>>]
    [] fmt = 4  -> [fmt |-> 4, segs |-> <<[s |-> code, e |-> code, delta |-> g - code, ro |-> 0],
                                          [s |-> 65535, e |-> 65535, delta |-> 1, ro |-> 0]>>, gia |-> <<>>]
    [] fmt = 6  -> [fmt |-> 6, first |-> code, gia |-> <<g>>]
    [] fmt = 12 -> [fmt |-> 12, groups |-> <<[s |-> code, e |-> code, g |-> g]>>]
    [] fmt = 14 -> [fmt |-> 14]        \* Unicode variation sequences: no character map (encoded with no selector records)
PrefRecs(S) ==
  LET ix == Asc(S) IN
  [k \in 1 .. Len(ix) |-> [p |-> Pairs[ix[k]][1], e |-> Pairs[ix[k]][2],
                           t |-> OneGlyph(FmtOfPair(Pairs[ix[k]]), 65, k)]]
ParamsPref == {[fam |-> "pref", L |-> S, p |-> 0] :
                 S \in {T \in SUBSET (1 .. Len(Pairs)) : Deep \/ Cardinality(T) <= 4 \/ T \subseteq OldPairIx}}

\* Whole fonts, 2: encoding dispatch.  One record (or the record that matters) per case.
SymPUA  == [fmt |-> 4, segs |-> <<Seg(61472, 61695, 4067, 0), Seg(65535, 65535, 1, 0)>>, gia |-> <<>>]   \* F020 -> 3
SymLow  == [fmt |-> 4, segs |-> <<Seg(32, 255, -29, 0), Seg(65535, 65535, 1, 0)>>, gia |-> <<>>]          \* 20 -> 3
SymZero == [fmt |-> 4, segs |-> <<Seg(0, 255, 1, 0), Seg(65535, 65535, 1, 0)>>, gia |-> <<>>]             \* 00 -> 1
SymProbes == {0, 1, 31, 32, 33, 65, 255, 256, 61439, 61440, 61471, 61472, 61505, 61695, 61696, 65535, 65536, MaxCode}
Mac0 == [fmt |-> 0, gia |-> [i \in 1 .. 256 |-> ((i - 1) % 200) + 1]]
Mac6 == [fmt |-> 6, first |-> 0, gia |-> [i \in 1 .. 512 |-> ((i - 1) % 300) + 1]]
MacProbes == {31, 65, 126, 196, 711, 164, 8364, 8800, 960, 208, 221, 256, 710, 63743, 61505, 61636, MaxCode}
Big5T2 ==
  LET key(b) == CASE b = 161 -> 1 [] b = 163 -> 2 [] b = 164 -> 3 [] b = 166 -> 4 [] b = 249 -> 5 [] OTHER -> 0
      raw == << <<0, 128, 0>>, <<64, 4, 128>>, <<96, 1, 132>>, <<64, 1, 133>>, <<110, 1, 134>>, <<213, 1, 135>> >>
  IN [fmt |-> 2,
      keys |-> [i \in 1 .. 256 |-> 8 * key(i - 1)],
      subs |-> [k \in 1 .. 6 |-> [first |-> raw[k][1], count |-> raw[k][2], delta |-> 0,
                                  ro |-> 8 * 6 + 2 * raw[k][3] - (8 * (k - 1) + 6)]],
      gia |-> [m \in 1 .. 136 |-> m]]
Big5T4 == [fmt |-> 4, segs |-> <<Seg(32, 255, 0, 0), Seg(41280, 41283, SDelta(300 - 41280), 0), Seg(41393, 41393, SDelta(400 - 41393), 0),
                                 Seg(41425, 41426, SDelta(410 - 41425), 0), Seg(41560, 41560, SDelta(420 - 41560), 0),
                                 Seg(42606, 42606, SDelta(7 - 42606), 0),
                                 Seg(65535, 65535, 1, 0)>>, gia |-> <<>>]
Big5Probes == {65, 126, 22909, 949, 12290, 19968, 12288, 40856, 2350, 196, MaxCode, 167, 215, 176, 247}
\* Symbol / Mac Roman records whose subtable is not of the usual format
Sym0  == [fmt |-> 0, gia |-> [i \in 1 .. 256 |-> ((i - 1) % 200) + 1]]
Sym6  == [fmt |-> 6, first |-> 61472, gia |-> [i \in 1 .. 224 |-> i + 2]]
Sym12 == [fmt |-> 12, groups |-> <<[s |-> 32, e |-> 126, g |-> 3], [s |-> 61472, e |-> 61695, g |-> 300]>>]
Mac4  == [fmt |-> 4, segs |-> <<Seg(0, 255, 1, 0), Seg(65535, 65535, 1, 0)>>, gia |-> <<>>]
Mac12 == [fmt |-> 12, groups |-> <<[s |-> 0, e |-> 255, g |-> 1], [s |-> 8364, e |-> 8364, g |-> 999]>>]
UniProbes == {0, 65, 66, 255, 256, 65535, 65536, 65601, 128512, MaxCode}
Rec(p, e, t) == [p |-> p, e |-> e, t |-> t]
Dispatch ==
  {[recs |-> <<Rec(3, 0, t)>>, os2 |-> f, probes |-> SymProbes] : t \in {SymPUA, SymLow, SymZero}, f \in {-1, 0, 31, 32, 61472}}
  \cup {[recs |-> <<Rec(1, 0, t)>>, os2 |-> f, probes |-> MacProbes] : t \in {Mac0, Mac6}, f \in {-1, 32, 61472}}
  \cup {[recs |-> <<Rec(3, 4, t)>>, os2 |-> 32, probes |-> Big5Probes] : t \in {Big5T2, Big5T4}}
  \cup {[recs |-> <<Rec(pe[1], pe[2], t)>>, os2 |-> 32, probes |-> UniProbes] :
          pe \in {<<3, 1>>, <<3, 10>>, <<0, 0>>, <<0, 1>>, <<0, 2>>, <<0, 3>>, <<0, 4>>, <<0, 6>>},
          t \in {OneGlyph(0, 65, 2), OneGlyph(2, 65, 2), OneGlyph(4, 65, 2), OneGlyph(6, 65, 2),
                 [fmt |-> 10, first |-> 65536, gia |-> <<5, 6>>], Table12Big,
                 [fmt |-> 12, groups |-> <<[s |-> 65, e |-> 66, g |-> 1], [s |-> 128512, e |-> 128512, g |-> 9]>>]}}
DispatchX ==
  {[recs |-> <<Rec(3, 0, t)>>, os2 |-> f, probes |-> SymProbes] : t \in {Sym0, Sym6, Sym12}, f \in {-1, 0, 61472}}
  \cup {[recs |-> <<Rec(1, 0, t)>>, os2 |-> f, probes |-> MacProbes] : t \in {Mac4, Mac12}, f \in {-1, 61472}}
  \* the variation-sequences record beside one legacy record: the legacy record is the character map
  \cup {[recs |-> <<Rec(0, 5, [fmt |-> 14]), Rec(3, 0, t)>>, os2 |-> 61472, probes |-> SymProbes] : t \in {SymPUA}}
  \cup {[recs |-> <<Rec(0, 5, [fmt |-> 14]), Rec(1, 0, t)>>, os2 |-> -1, probes |-> MacProbes] : t \in {Mac0}}
  \cup {[recs |-> <<Rec(0, 5, [fmt |-> 14]), Rec(3, 4, t)>>, os2 |-> 32, probes |-> Big5Probes] : t \in {Big5T4}}
  \cup {[recs |-> <<Rec(0, 5, [fmt |-> 14]), Rec(0, 6, t)>>, os2 |-> 32, probes |-> UniProbes] : t \in {Table12Big}}
ParamsDispatch == {[fam |-> "disp", L |-> d, p |-> 0] : d \in Dispatch \cup DispatchX}

---------------------------------------------------------------------------
IsFont(q) == q.fam \in {"pref", "disp"}

TableOf(q) ==
  CASE q.fam = "f4"     -> Table4(q.L, q.p)
    [] q.fam = "f12"    -> Table12(q.L, q.p)
    [] q.fam = "f12big" -> Table12Big
    [] q.fam = "f0"     -> Table0(q.p)
    [] q.fam = "f6"     -> TableTrim(6, q.L[1], q.L[2], q.p)
    [] q.fam = "f10"    -> TableTrim(10, q.L[1], q.L[2], q.p)
    [] q.fam = "f2"     -> Table2(q.L[1], q.L[2], q.p)
    [] q.fam = "f4x"    -> X4(q.p, q.L[1], q.L[2])
    [] q.fam = "f12x"   -> TableX12(q.L)
    [] q.fam = "f2x"    -> Table2x(q.L[1], q.L[2], q.L[3], q.L[4], q.p)
ProbesOf(q, t) ==
  CASE q.fam \in {"f4", "f4x"}  -> Probes4(t)
    [] q.fam \in {"f12", "f12big", "f12x"} -> Probes12(t)
    [] q.fam = "f0"  -> Probes0
    [] q.fam \in {"f6", "f10"} -> ProbesTrim(t)
    [] q.fam \in {"f2", "f2x"}  -> Probes2(t)

\* Enumerations of large tables are requested for a few cases only (the judge has to
\* enumerate them too).
SizeOf(t) ==
  CASE t.fmt = 4  -> LET n[j \in 0 .. Len(t.segs)] == IF j = 0 THEN 0 ELSE n[j - 1] + (t.segs[j].e - t.segs[j].s + 1) IN n[Len(t.segs)]
    [] t.fmt = 12 -> LET n[j \in 0 .. Len(t.groups)] == IF j = 0 THEN 0 ELSE n[j - 1] + (t.groups[j].e - t.groups[j].s + 1) IN n[Len(t.groups)]
    [] OTHER -> 0
EnumWanted(q, t) == \/ SizeOf(t) <= 600
                    \/ q.fam = "f12big"
                    \/ (q.fam = "f4" /\ q.p = 0 /\ q.L \in {{<<0, 65534>>}, {<<32, 65535>>}})

RecsOf(q) == IF q.fam = "pref" THEN PrefRecs(q.L) ELSE q.L.recs
Os2Of(q)  == IF q.fam = "pref" THEN 32 ELSE q.L.os2
FProbesOf(q) == IF q.fam = "pref" THEN {65, 66} ELSE q.L.probes
FirstOf(os2) == IF os2 < 0 THEN 32 ELSE os2

---------------------------------------------------------------------------
Init == /\ \/ par \in Params4 \/ par \in Params12 \/ par \in Params0 \/ par \in Params6 \/ par \in Params10
           \/ par \in Params2 \/ par \in ParamsPref \/ par \in ParamsDispatch
           \/ par \in ParamsX4 \/ par \in {q \in ParamsX12 : DistinctIx(q.L)} \/ par \in ParamsX2
        /\ done = FALSE
Next == done = FALSE /\ done' = TRUE /\ UNCHANGED par
Spec == Init /\ [][Next]_vars

\* ---- design invariants ----------------------------------------------------
SubOK(q) ==
  LET t == TableOf(q)  P == ProbesOf(q, t) IN
  /\ GlyphRange(t, P)
  /\ SearchIsLinear(t, P)
  /\ (EnumWanted(q, t) /\ SizeOf(t) <= 600) => EnumerateEqualsLookups(t, P)
  /\ UnsortedIsConservative(t, P)
  /\ q.fam = "f4"  => Sorted4(t.segs) /\ t.segs[Len(t.segs)].e = 65535
  /\ q.fam = "f12" => Sorted12(t.groups)
  /\ q.fam \notin {"f4x", "f12x"} => \A c \in P : BAD \notin Accept(t, c)     \* these tables are well formed
  /\ \A c \in P : c > 65535 /\ t.fmt \in {0, 2, 4, 6} => Map(t, c) = 0
FontOK(q) ==
  LET recs == RecsOf(q) IN
  /\ PreferenceOrder(recs)
  /\ \A i \in 1 .. (Len(recs) - 1) : recs[i].p < recs[i + 1].p \/ (recs[i].p = recs[i + 1].p /\ recs[i].e < recs[i + 1].e)
DesignOK == done => (IF IsFont(par) THEN FontOK(par) ELSE SubOK(par))
TablesOK == (done /\ par.fam = "f0" /\ par.p = 0) => MacRomanInverse

\* ---- generator -------------------------------------------------------------
SubCase(q) ==
  LET t == TableOf(q)  P == Asc(ProbesOf(q, t)) IN
  [kind |-> "sub", fam |-> q.fam, t |-> t, enum |-> EnumWanted(q, t),
   probes |-> [k \in 1 .. Len(P) |-> <<P[k], SetToSeq(AcceptSubU(t, P[k])), BranchU(t, P[k])>>]]
FontCase(q) ==
  LET recs == RecsOf(q)
      sel  == Preferred(recs)
      P    == Asc(FProbesOf(q))
      enc  == IF sel = 0 THEN "None" ELSE EncodingOf(recs[sel])
      fc   == FirstOf(Os2Of(q))
  IN [kind |-> "font", fam |-> q.fam, recs |-> recs, os2 |-> Os2Of(q), sel |-> sel, enc |-> enc,
      probes |-> IF sel = 0 THEN <<>>
                 ELSE [k \in 1 .. Len(P) |-> <<P[k], SetToSeq(FontAccept(recs[sel].t, enc, fc, P[k])),
                                               FontBranch(recs[sel].t, enc, fc, P[k])>>]]
EmitCase == done => PrintT(<<"CASE", ToJson(IF IsFont(par) THEN FontCase(par) ELSE SubCase(par))>>)
=============================================================================
