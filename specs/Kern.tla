------------------------------- MODULE Kern -------------------------------
(***************************************************************************)
(* C05 - legacy `kern` table (OpenType version 0 header), horizontal text. *)
(*                                                                         *)
(* kern = Seq(subtable), processed in order, values accumulate:            *)
(*   [f=0, cov, pairs : Seq(<<left, right, value>>)]                       *)
(*        ordered by (left << 16 | right); found by binary search          *)
(*   [f=2, cov, rw, ao, lt, rt : [first, vals : Seq(u16)], arr : Seq(i16)] *)
(*        class tables hold byte offsets ("pre-multiplied" class values);  *)
(*        rw = row width in bytes, ao = byte offset of the kerning array   *)
(*        from the start of the subtable, arr = the array, row by row.     *)
(* cov = low byte of the coverage field:                                   *)
(*   bit 0 horizontal, bit 1 minimum, bit 2 cross-stream, bit 3 override.  *)
(* Vertical subtables do not apply to horizontal text.  Cross-stream       *)
(* subtables are documented as unsupported in gpos.rs (TODO) and are not   *)
(* generated.                                                              *)
(*                                                                         *)
(* Dev_KernMinimum  : OpenType only says a minimum subtable "has minimum   *)
(*     values"; engines limit the accumulated value from below (max), from *)
(*     above (min, allsorts) or ignore such subtables (HarfBuzz).          *)
(* Dev_KernFmt2Base : the offsets of the left class table are relative to  *)
(*     the kerning array (Microsoft's text, allsorts) or already include   *)
(*     the array's offset from the subtable start (Apple's text, HarfBuzz).*)
(***************************************************************************)
EXTENDS Integers, Sequences, FiniteSets, FiniteSetsExt

KBit(n, k) == (n \div (2 ^ k)) % 2 = 1
KernHorizontal(st)  == KBit(st.cov, 0)
KernMinimum(st)     == KBit(st.cov, 1)
KernCrossStream(st) == KBit(st.cov, 2)
KernOverride(st)    == KBit(st.cov, 3)

KernHasMinimum(kern) == \E k \in 1 .. Len(kern) : KernHorizontal(kern[k]) /\ KernMinimum(kern[k])
KernHasFmt2(kern)    == \E k \in 1 .. Len(kern) : kern[k].f = 2

NoValue == [has |-> FALSE, v |-> 0]
Value(x) == [has |-> TRUE, v |-> x]

ClassValue(ct, g) ==
  LET idx == g - ct.first IN
  IF idx >= 0 /\ idx < Len(ct.vals) THEN Value(ct.vals[idx + 1]) ELSE NoValue

\* value of one subtable for the pair (l, r)
KernValue(D, st, l, r) ==
  IF st.f = 0
  THEN LET ms == {m \in 1 .. Len(st.pairs) : st.pairs[m][1] = l /\ st.pairs[m][2] = r} IN
       IF ms = {} THEN NoValue ELSE Value(st.pairs[Min(ms)][3])
  ELSE LET lv == ClassValue(st.lt, l)  rv == ClassValue(st.rt, r) IN
       IF ~lv.has \/ ~rv.has THEN NoValue
       ELSE LET o == IF D.kernBase = "array" THEN lv.v + rv.v ELSE lv.v + rv.v - st.ao IN
            IF o < 0 \/ o % 2 # 0 \/ o \div 2 >= Len(st.arr) THEN NoValue
            ELSE Value(st.arr[o \div 2 + 1])

RECURSIVE KernAcc(_, _, _, _, _)
KernAcc(D, kern, l, r, acc) ==
  IF kern = <<>> THEN acc
  ELSE LET st == Head(kern)
           x  == KernValue(D, st, l, r)
           a2 == IF ~KernHorizontal(st) \/ KernCrossStream(st) \/ ~x.has THEN acc
                 ELSE IF KernOverride(st) THEN x.v
                 ELSE IF KernMinimum(st)
                 THEN CASE D.kernMin = "min" -> IF x.v < acc THEN x.v ELSE acc
                        [] D.kernMin = "max" -> IF x.v > acc THEN x.v ELSE acc
                        [] OTHER -> acc
                 ELSE acc + x.v IN
       KernAcc(D, Tail(kern), l, r, a2)

\* advance adjustment of every glyph of the run gs: the kerning of (glyph, next glyph)
KernRun(D, kern, gs) ==
  [j \in 1 .. Len(gs) |-> IF j < Len(gs) THEN KernAcc(D, kern, gs[j], gs[j + 1], 0) ELSE 0]

\* encodable / inside the modelled fragment
KernWF(kern) ==
  \A k \in 1 .. Len(kern) :
    /\ ~KernCrossStream(kern[k])
    /\ ~(KernOverride(kern[k]) /\ KernMinimum(kern[k]))
    /\ kern[k].f = 0 =>
         \A m \in 1 .. (Len(kern[k].pairs) - 1) :
            kern[k].pairs[m][1] * 65536 + kern[k].pairs[m][2]
              < kern[k].pairs[m + 1][1] * 65536 + kern[k].pairs[m + 1][2]
=============================================================================
