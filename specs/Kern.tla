------------------------------- MODULE Kern -------------------------------
(***************************************************************************)
(* C05 - legacy `kern` table (OpenType version 0 header), horizontal text. *)
(*                                                                         *)
(* kern = Seq(subtable), processed in order, values accumulate:            *)
(*   [f=0, cov, pairs : Seq(<<left, right, value>>)]                       *)
(*        ordered by (left << 16 | right); found by binary search          *)
(*   [f=2, cov, rw, ao, lt, rt : [first, vals : Seq(u16)], arr : Seq(i16)] *)
(*        class tables hold byte offsets ("pre-multiplied" class values);  *)
(*        rw = row width in bytes, ao = byte offset of the kerning array   *)
(*        from the start of the subtable, arr = the array, row by row.     *)
(* cov = low byte of the coverage field, modelled completely:              *)
(*   bit 0 horizontal   1 = the subtable kerns horizontal text; 0 = it is  *)
(*                      a VERTICAL subtable, which says nothing about      *)
(*                      horizontal text                                    *)
(*   bit 1 minimum      the subtable has minimum values (Dev_KernMinimum)  *)
(*   bit 2 cross-stream the values are perpendicular to the text flow (up/ *)
(*                      down in horizontal text), not along it             *)
(*   bit 3 override     the value replaces what was accumulated so far     *)
(*   bits 4-7 reserved (0 in every generated table)                        *)
(* A run of horizontal text therefore has two independent accumulations    *)
(* per glyph pair: the WITH-stream one over the subtables that are         *)
(* horizontal and not cross-stream - it is the only thing that changes the *)
(* horizontal advance - and the CROSS-stream one over the subtables that   *)
(* are horizontal and cross-stream.  Override and minimum act inside the   *)
(* accumulation their subtable belongs to.  Vertical subtables (with or    *)
(* without the cross-stream bit) contribute to neither.                    *)
(*   "a cross-stream or vertical subtable never changes the horizontal     *)
(*    advance"  (design invariant KernStreamsSeparate, checked by MC_Gpos) *)
(*                                                                         *)
(* Dev_KernCrossStream : what an engine does with the cross-stream         *)
(*     accumulation of a pair: "ignore" (allsorts: TODO in gpos.rs) or     *)
(*     "shift" - move the right glyph of the pair across the line by it    *)
(*     (HarfBuzz sets y_offset of the second glyph).  Either is accepted;  *)
(*     adding it to the advance is not.  (Apple's reset value 0x8000 is    *)
(*     not generated.)                                                     *)
(* Dev_KernMinimum  : OpenType only says a minimum subtable "has minimum   *)
(*     values"; engines limit the accumulated value from below (max), from *)
(*     above (min, allsorts) or ignore such subtables (HarfBuzz).          *)
(* Dev_KernFmt2Base : the offsets of the left class table are relative to  *)
(*     the kerning array (Microsoft's text, allsorts) or already include   *)
(*     the array's offset from the subtable start (Apple's text, HarfBuzz).*)
(***************************************************************************)
EXTENDS Integers, Sequences, FiniteSets, FiniteSetsExt

KBit(n, k) == (n \div (2 ^ k)) % 2 = 1
KernHorizontal(st)  == KBit(st.cov, 0)
KernMinimum(st)     == KBit(st.cov, 1)
KernCrossStream(st) == KBit(st.cov, 2)
KernOverride(st)    == KBit(st.cov, 3)

\* the accumulation a subtable belongs to in horizontal text
KernWithStream(st)  == KernHorizontal(st) /\ ~KernCrossStream(st)
KernAcrossStream(st) == KernHorizontal(st) /\ KernCrossStream(st)
KernInStream(st, cross) == IF cross THEN KernAcrossStream(st) ELSE KernWithStream(st)

KernHasMinimum(kern) == \E k \in 1 .. Len(kern) : KernHorizontal(kern[k]) /\ KernMinimum(kern[k])
KernHasFmt2(kern)    == \E k \in 1 .. Len(kern) : kern[k].f = 2
KernHasCross(kern)   == \E k \in 1 .. Len(kern) : KernAcrossStream(kern[k])

NoValue == [has |-> FALSE, v |-> 0]
Value(x) == [has |-> TRUE, v |-> x]

ClassValue(ct, g) ==
  LET idx == g - ct.first IN
  IF idx >= 0 /\ idx < Len(ct.vals) THEN Value(ct.vals[idx + 1]) ELSE NoValue

\* value of one subtable for the pair (l, r)
KernValue(D, st, l, r) ==
  IF st.f = 0
  THEN LET ms == {m \in 1 .. Len(st.pairs) : st.pairs[m][1] = l /\ st.pairs[m][2] = r} IN
       IF ms = {} THEN NoValue ELSE Value(st.pairs[Min(ms)][3])
  ELSE LET lv == ClassValue(st.lt, l)  rv == ClassValue(st.rt, r) IN
       IF ~lv.has \/ ~rv.has THEN NoValue
       ELSE LET o == IF D.kernBase = "array" THEN lv.v + rv.v ELSE lv.v + rv.v - st.ao IN
            IF o < 0 \/ o % 2 # 0 \/ o \div 2 >= Len(st.arr) THEN NoValue
            ELSE Value(st.arr[o \div 2 + 1])

\* accumulation over the subtables of one stream (cross = FALSE: along the line, TRUE: across)
RECURSIVE KernAcc(_, _, _, _, _, _)
KernAcc(D, kern, l, r, acc, cross) ==
  IF kern = <<>> THEN acc
  ELSE LET st == Head(kern)
           x  == KernValue(D, st, l, r)
           a2 == IF ~KernInStream(st, cross) \/ ~x.has THEN acc
                 ELSE IF KernOverride(st) THEN x.v
                 ELSE IF KernMinimum(st)
                 THEN CASE D.kernMin = "min" -> IF x.v < acc THEN x.v ELSE acc
                        [] D.kernMin = "max" -> IF x.v > acc THEN x.v ELSE acc
                        [] OTHER -> acc
                 ELSE acc + x.v IN
       KernAcc(D, Tail(kern), l, r, a2, cross)

\* advance adjustment of every glyph of the run gs: the kerning of (glyph, next glyph)
KernRun(D, kern, gs) ==
  [j \in 1 .. Len(gs) |-> IF j < Len(gs) THEN KernAcc(D, kern, gs[j], gs[j + 1], 0, FALSE) ELSE 0]

\* shift across the line of every glyph of the run: the cross-stream kerning of
\* (previous glyph, glyph), if the engine applies cross-stream kerning at all
KernShiftRun(D, kern, gs) ==
  [j \in 1 .. Len(gs) |-> IF j > 1 /\ D.kernCross = "shift"
                           THEN KernAcc(D, kern, gs[j - 1], gs[j], 0, TRUE) ELSE 0]

\* design invariant: removing every cross-stream and every vertical subtable leaves the
\* advance adjustments of any run unchanged
KernOnlyWithStream(kern) == SelectSeq(kern, KernWithStream)
KernStreamsSeparate(D, kern, gs) ==
  KernRun(D, kern, gs) = KernRun(D, KernOnlyWithStream(kern), gs)

\* encodable / inside the modelled fragment
KernWF(kern) ==
  \A k \in 1 .. Len(kern) :
    /\ kern[k].cov \in 0 .. 15
    /\ ~(KernOverride(kern[k]) /\ KernMinimum(kern[k]))
    /\ kern[k].f = 0 =>
         \A m \in 1 .. (Len(kern[k].pairs) - 1) :
            kern[k].pairs[m][1] * 65536 + kern[k].pairs[m][2]
              < kern[k].pairs[m + 1][1] * 65536 + kern[k].pairs[m + 1][2]
=============================================================================
