CONSTANTS
  MaxBlocks = 2
  MaxBlocksAll = 2
  ExtraKinds <- LongKinds
  ExtraKindsAll <- NoKinds
  SeacFull = FALSE
  BigCounts <- BigQuick
SPECIFICATION Spec
INVARIANTS MachineOK FormOK CharsetOK EncodingsOK GenExact EmitCase
CHECK_DEADLOCK FALSE
