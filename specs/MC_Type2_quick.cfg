CONSTANTS
  MaxBlocks = 2
  MaxBlocksAll = 2
  ExtraKinds <- LongKinds
  ExtraKindsAll <- NoKinds
  BigCounts <- BigQuick
SPECIFICATION Spec
INVARIANTS MachineOK FormOK EncodingsOK GenExact EmitCase
CHECK_DEADLOCK FALSE
