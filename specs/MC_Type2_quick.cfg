CONSTANTS
  MaxBlocks = 3
  MaxBlocksAll = 2
  ExtraKinds <- NoKinds
  BigCounts <- BigQuick
SPECIFICATION Spec
INVARIANTS MachineOK FormOK EncodingsOK GenExact EmitCase
CHECK_DEADLOCK FALSE
