---------------------------- MODULE Trace_Shaper ----------------------------
(***************************************************************************)
(* Trace judge for shaping (impl -> spec), judging style.  One event per   *)
(* supervised sequence  map_glyphs -> shape -> glyph_positions  on a real  *)
(* font:                                                                   *)
(*   a = [font, corrupt, script, lang, feat, kern, tuple, dir, cls, text,  *)
(*        wf (the font is intact), ng (numGlyphs), job]                    *)
(*   o = [map, mapped, shape, run, pos, npos, msg]                         *)
(*        map / shape / pos : outcome alphabet of Shaper                   *)
(*        mapped : <<gid, chars>> per glyph returned by map_glyphs         *)
(*        run    : <<gid, chars, pk, pi>> per glyph returned by shape,     *)
(*                 with Ok and with Err alike                              *)
(* The event conforms iff Shaper!CallFailures is empty: all three calls    *)
(* returned, and the run is well formed.  An event whose map outcome is    *)
(* Skipped was not executed (font without layout tables to corrupt, font   *)
(* that does not load) and is only counted.                                *)
(***************************************************************************)
EXTENDS Shaper, SequencesExt, Json, IOUtils

Rec == ndJsonDeserialize(IOEnv.TRACE)

VARIABLE l
tvars == <<l>>

Mapped(e) == [i \in DOMAIN e.o.mapped |-> [gid |-> e.o.mapped[i][1], chars |-> e.o.mapped[i][2], pk |-> "none", pi |-> -1]]
Run(e)    == [i \in DOMAIN e.o.run |-> [gid |-> e.o.run[i][1], chars |-> e.o.run[i][2], pk |-> e.o.run[i][3], pi |-> e.o.run[i][4]]]

Failures(e) == CallFailures(e.o.map, Mapped(e), e.o.shape, Run(e), e.o.pos, e.o.npos, e.a.wf, e.a.ng)

TInit == l = 1

TNext ==
  /\ l <= Len(Rec)
  /\ l' = l + 1
  /\ LET e == Rec[l] IN
     IF e.o.map = "Skipped" THEN TRUE
     ELSE LET f == Failures(e) IN
          IF f = {} THEN TRUE
          ELSE PrintT(<<"MISMATCH", ToJson([i |-> e.i, case |-> e.case, fails |-> SetToSeq(f), a |-> e.a, o |-> e.o])>>)

TSpec == TInit /\ [][TNext]_tvars

AllConsumed == TLCGet("stats").diameter = Len(Rec) + 1
=============================================================================
