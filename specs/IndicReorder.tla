---------------------------- MODULE IndicReorder ----------------------------
(***************************************************************************)
(* X11 - the INITIAL REORDERING stage of the Indic shaper (stage 2 of the  *)
(* OpenType shaping documents for Devanagari, Bengali, Gurmukhi, Gujarati, *)
(* Oriya, Tamil, Telugu, Kannada, Malayalam; Microsoft "Creating and       *)
(* supporting OpenType fonts for Indic scripts": base consonant, reph,     *)
(* pre-base / below-base / post-base consonants, matra and mark tagging,   *)
(* stable sort into canonical order, old-spec halant order, basic-feature  *)
(* masks).                                                                 *)
(*                                                                         *)
(* One cluster (already segmented, X07) is a sequence of SYMBOLS:          *)
(*   K B P Ra   consonants (K never has a special form; the FONT decides   *)
(*              for B P Ra), V independent vowel, GB placeholder, DC dotted*)
(*              circle, Repha (Malayalam dot reph), CM consonant medial    *)
(*   H halant, N nukta, ZWJ, ZWNJ        ("remaining marks": move with a   *)
(*              neighbour)                                                 *)
(*   Mpre Mabv Mblw Mpst Mpst2           dependent vowels by side          *)
(*   SM A SMc   bindu / visarga, cantillation, Oriya candrabindu           *)
(* The font is the record of what `would substitute` answers:              *)
(*   [rphf: BOOLEAN, blwf, pstf, pref: SUBSET {"K","B","P","Ra"}]          *)
(* (Halant + c for a new-spec font, c + Halant for an old-spec font).      *)
(*                                                                         *)
(* Three presentations, checked against each other by MC_IndicReorder:     *)
(*   * small-step machine: SearchStep (one iteration of the backwards base *)
(*     search), then one operator per documented step (TagConsonants,      *)
(*     TagMatras, TagSmvd, Fwd = 2.8.2/2.8.3, Bwd = 2.8.4, Order = sort,   *)
(*     OldSpecMove, Masks);                                                *)
(*   * closed forms: BaseClosed (the base is the highest "terminator"),    *)
(*     MarkTagClosed, IsStableSort;                                        *)
(*   * Expected(case) = the denotation handed to the harness.              *)
(***************************************************************************)
EXTENDS Naturals, Sequences, FiniteSets, TLC, SequencesExt, FiniteSetsExt

Scripts == {"deva", "beng", "guru", "gujr", "orya", "taml", "telu", "knda", "mlym"}
Models  == {"indic2", "indic1"}      \* script tag found in the font: dev2 ... / deva ...

\* canonical order of the positions (documents: POS_RA_TO_BECOME_REPH < POS_PREBASE_MATRA < ...)
PosOrder == <<"reph", "prem", "prec", "base", "afterMain", "abovec", "beforeSub", "belowc",
              "afterSub", "beforePost", "postc", "afterPost", "finalc", "smvd">>
PosSet  == {PosOrder[i] : i \in DOMAIN PosOrder}
PosRank == [p \in PosSet |-> CHOOSE i \in DOMAIN PosOrder : PosOrder[i] = p]
Rank(p) == IF p = "none" THEN 0 ELSE PosRank[p]

\* per-script configuration (shaping documents, "shaping classes / script configuration")
\*   reph: implicit = Ra,Halant ; explicit = Ra,Halant,ZWJ ; repha = the logical Repha character
\*   blwf: prepost = below-base forms may also be requested before the base (new-spec fonts)
\*   pref: the script has pre-base-reordering Ra
\*   Mabv / Mblw / Mpst / Mpst2: sort position of top / bottom / right matras (second right class of
\*   Telugu U+0C43.. and Kannada U+0CC3..); "" = the script has no such matra
Conf ==
  [ deva |-> [reph |-> "implicit", blwf |-> "prepost",  pref |-> FALSE,
              Mabv |-> "afterSub",  Mblw |-> "afterSub",  Mpst |-> "afterSub",  Mpst2 |-> ""],
    beng |-> [reph |-> "implicit", blwf |-> "prepost",  pref |-> FALSE,
              Mabv |-> "",          Mblw |-> "afterSub",  Mpst |-> "afterPost", Mpst2 |-> ""],
    guru |-> [reph |-> "implicit", blwf |-> "prepost",  pref |-> FALSE,
              Mabv |-> "afterPost", Mblw |-> "afterPost", Mpst |-> "afterPost", Mpst2 |-> ""],
    gujr |-> [reph |-> "implicit", blwf |-> "prepost",  pref |-> FALSE,
              Mabv |-> "afterSub",  Mblw |-> "afterPost", Mpst |-> "afterPost", Mpst2 |-> ""],
    orya |-> [reph |-> "implicit", blwf |-> "prepost",  pref |-> FALSE,
              Mabv |-> "afterMain", Mblw |-> "afterSub",  Mpst |-> "afterPost", Mpst2 |-> ""],
    taml |-> [reph |-> "implicit", blwf |-> "prepost",  pref |-> FALSE,
              Mabv |-> "afterSub",  Mblw |-> "afterPost", Mpst |-> "afterPost", Mpst2 |-> ""],
    telu |-> [reph |-> "explicit", blwf |-> "postonly", pref |-> TRUE,
              Mabv |-> "beforeSub", Mblw |-> "beforeSub", Mpst |-> "beforeSub", Mpst2 |-> "afterSub"],
    knda |-> [reph |-> "implicit", blwf |-> "postonly", pref |-> FALSE,
              Mabv |-> "beforeSub", Mblw |-> "beforeSub", Mpst |-> "beforeSub", Mpst2 |-> "afterSub"],
    mlym |-> [reph |-> "repha",    blwf |-> "prepost",  pref |-> TRUE,
              Mabv |-> "",          Mblw |-> "afterPost", Mpst |-> "afterPost", Mpst2 |-> ""] ]

ConsSyms == {"K", "B", "P", "Ra"}
IsC(x)     == x \in {"K", "B", "P", "Ra", "V", "GB", "DC"}   \* "effectively a consonant"
IsJ(x)     == x \in {"ZWJ", "ZWNJ"}
IsRem(x)   == x \in {"N", "H", "ZWJ", "ZWNJ"}
IsSmvd(x)  == x \in {"SM", "A", "SMc"}
IsMatra(x) == x \in {"Mpre", "Mabv", "Mblw", "Mpst", "Mpst2"}
MatraPos(sc, x) == IF x = "Mpre" THEN "prem" ELSE Conf[sc][x]

Fonts == [rphf : BOOLEAN, blwf : SUBSET ConsSyms, pstf : SUBSET ConsSyms, pref : SUBSET ConsSyms]

---------------------------------------------------------------------------
(* Dotted circle: a broken cluster gets U+25CC in front (Malayalam: after   *)
(* a leading Repha) and is then treated like a standalone cluster.  A token *)
(* is [s |-> symbol, ix |-> index in the input, 0 for the inserted circle]. *)
Tokens(sc, kind, syms) ==
  LET t  == [i \in DOMAIN syms |-> [s |-> syms[i], ix |-> i]]
      dc == [s |-> "DC", ix |-> 0]
  IN IF kind # "broken" THEN t
     ELSE IF sc = "mlym" /\ Len(syms) >= 1 /\ syms[1] = "Repha"
          THEN <<t[1], dc>> \o SubSeq(t, 2, Len(t))
          ELSE <<dc>> \o t
Syms(tok) == [i \in DOMAIN tok |-> tok[i].s]

---------------------------------------------------------------------------
(* 2.1 / 2.6  Reph and base consonant                                      *)
HasReph(sc, F, g) ==
  CASE Conf[sc].reph = "implicit" ->
         Len(g) >= 3 /\ g[1] = "Ra" /\ g[2] = "H" /\ ~IsJ(g[3]) /\ F.rphf
    [] Conf[sc].reph = "explicit" ->
         Len(g) >= 3 /\ g[1] = "Ra" /\ g[2] = "H" /\ g[3] = "ZWJ" /\ F.rphf
    [] Conf[sc].reph = "repha" -> Len(g) >= 1 /\ g[1] = "Repha"

\* first index that can be the base
Start(sc, reph) ==
  IF ~reph THEN 1
  ELSE CASE Conf[sc].reph = "implicit" -> 3 [] Conf[sc].reph = "explicit" -> 4 [] OTHER -> 2

\* the form the font gives to consonant c after a halant; "post-base forms have to follow below-base
\* forms": once a below-base consonant was seen (to the right) only blwf counts
Form(sc, F, seen, c) ==
  IF c \in F.blwf THEN "belowc"
  ELSE IF seen THEN "none"
  ELSE IF c \in F.pstf THEN "postc"
  ELSE IF Conf[sc].pref /\ c \in F.pref THEN "postc"
  ELSE "none"

\* base when the search runs off the front: an implicit Ra stays base if it is the only consonant
DefaultBase(sc, reph) == IF reph /\ Conf[sc].reph = "implicit" THEN 1 ELSE 0

\* ---- small-step search: one iteration of "starting from the end of the syllable, move backwards"
Search0(sc, F, g) ==
  LET reph == HasReph(sc, F, g)
  IN [i |-> Len(g), seen |-> FALSE, base |-> DefaultBase(sc, reph),
      done |-> Len(g) < Start(sc, reph), tag |-> [k \in DOMAIN g |-> "none"]]

SearchStep(sc, F, g, st) ==
  LET st0 == Start(sc, HasReph(sc, F, g))
      i   == st.i
  IN IF i = st0 THEN [st EXCEPT !.done = TRUE, !.base = IF IsC(g[i]) THEN i ELSE @]
     ELSE IF IsC(g[i]) THEN
        IF g[i - 1] # "H" THEN [st EXCEPT !.done = TRUE, !.base = i]
        ELSE LET f == Form(sc, F, st.seen, g[i])
             IN IF f = "none" THEN [st EXCEPT !.done = TRUE, !.base = i]
                ELSE [st EXCEPT !.tag[i] = f, !.seen = (@ \/ f = "belowc"),
                                !.i = IF i - 2 < st0 THEN st0 ELSE i - 2, !.done = (i - 2 < st0)]
     \* Dev_HalantZwjNoBase: "Halant, ZWJ" (explicit half form) ends the search WITHOUT a base
     \* (allsorts documents this as Uniscribe's behaviour; HarfBuzz keeps the last candidate)
     ELSE IF g[i] = "ZWJ" /\ g[i - 1] = "H" THEN [st EXCEPT !.done = TRUE, !.base = 0]
     ELSE [st EXCEPT !.i = i - 1]

RECURSIVE RunSearch(_, _, _, _)
RunSearch(sc, F, g, st) == IF st.done THEN st ELSE RunSearch(sc, F, g, SearchStep(sc, F, g, st))

\* ---- closed form: the base is the highest terminator at or after Start
Terminators(sc, F, g) ==
  LET st0 == Start(sc, HasReph(sc, F, g))
      seen(i) == \E k \in (i + 1)..Len(g) : IsC(g[k]) /\ g[k] \in F.blwf
      yields(i) == i > st0 /\ g[i - 1] = "H" /\ Form(sc, F, seen(i), g[i]) # "none"
  IN {i \in st0..Len(g) : \/ IsC(g[i]) /\ ~yields(i)
                          \/ i > st0 /\ g[i] = "ZWJ" /\ g[i - 1] = "H"}
BaseClosed(sc, F, g) ==
  LET T == Terminators(sc, F, g)
  IN IF T = {} THEN DefaultBase(sc, HasReph(sc, F, g))
     ELSE IF IsC(g[Max(T)]) THEN Max(T) ELSE 0

---------------------------------------------------------------------------
(* 2.3 - 2.8 tagging (a cluster WITH a base b)                              *)
TagConsonants(sc, F, g, st) ==
  LET reph == HasReph(sc, F, g)
      st0  == Start(sc, reph)
      b    == st.base
  IN [k \in DOMAIN g |->
        IF k = b THEN "base"
        ELSE IF reph /\ k = 1 THEN "reph"
        ELSE IF st.tag[k] # "none" THEN st.tag[k]
        ELSE IF sc = "guru" /\ g[k] = "CM" THEN "belowc"
        ELSE IF k >= st0 /\ k < b /\ IsC(g[k]) THEN "prec"
        ELSE "none"]

TagMatras(sc, g, tag) ==
  [k \in DOMAIN g |-> IF tag[k] = "none" /\ IsMatra(g[k]) THEN MatraPos(sc, g[k]) ELSE tag[k]]

\* 2.8.1 (Oriya candrabindu goes before the subjoined forms)
TagSmvd(g, tag) ==
  [k \in DOMAIN g |-> IF IsSmvd(g[k]) THEN (IF g[k] = "SMc" THEN "beforeSub" ELSE "smvd") ELSE tag[k]]

\* 2.8.2 / 2.8.3: nukta, halant, joiners take the tag of the closest preceding character that is not
\* such a mark (and not SMVD); a halant after a pre-base matra does not move with the matra
RECURSIVE Fwd(_, _, _, _)
Fwd(g, tag, k, prev) ==
  IF k > Len(g) THEN tag
  ELSE IF IsRem(g[k]) /\ prev # "none" THEN
     LET c == {j \in 1..(k - 1) : tag[j] \notin {"none", "prem"}}
         p == IF g[k] = "H" /\ prev = "prem" THEN (IF c = {} THEN "none" ELSE tag[Max(c)]) ELSE prev
     IN Fwd(g, [tag EXCEPT ![k] = p], k + 1, prev)
  ELSE IF ~IsSmvd(g[k]) THEN Fwd(g, tag, k + 1, tag[k])
  ELSE Fwd(g, tag, k + 1, prev)

\* 2.8.4: after the base these marks belong to the closest FOLLOWING consonant
RECURSIVE Bwd(_, _, _, _, _)
Bwd(g, tag, k, next, b) ==
  IF k <= b THEN tag
  ELSE IF IsRem(g[k]) /\ next # "none" THEN Bwd(g, [tag EXCEPT ![k] = next], k - 1, next, b)
  ELSE IF IsC(g[k]) THEN Bwd(g, tag, k - 1, tag[k], b)
  ELSE Bwd(g, tag, k - 1, next, b)

AllTags(sc, F, g, st) ==
  LET t1 == TagConsonants(sc, F, g, st)
      t2 == TagSmvd(g, TagMatras(sc, g, t1))
      t3 == Fwd(g, t2, 1, "none")
  IN Bwd(g, t3, Len(g), "none", st.base)

\* closed form of the mark tags (lemma checked by MC_IndicReorder)
MarkTagClosed(g, tag, b, k) ==
  LET nxt == {j \in (k + 1)..Len(g) : IsC(g[j])}
      prv == {j \in 1..(k - 1) : ~IsRem(g[j]) /\ ~IsSmvd(g[j])}
  IN IF k > b /\ nxt # {} THEN tag[Min(nxt)]
     ELSE IF prv = {} THEN "none"
     ELSE IF g[k] = "H" /\ tag[Max(prv)] = "prem"
          THEN (LET c == {j \in 1..(k - 1) : tag[j] \notin {"none", "prem"}}
                IN IF c = {} THEN "none" ELSE tag[Max(c)])
          ELSE tag[Max(prv)]

---------------------------------------------------------------------------
(* sort into canonical order: stable                                       *)
Order(tag) ==
  LET n == Len(tag)
      key(i) == Rank(tag[i]) * 64 + i
  IN [r \in 1..n |-> CHOOSE i \in 1..n : Cardinality({j \in 1..n : key(j) < key(i)}) = r - 1]

IsStableSort(tag, ord) ==
  /\ Len(ord) = Len(tag)
  /\ {ord[r] : r \in DOMAIN ord} = DOMAIN tag
  /\ \A r \in 1..(Len(ord) - 1) :
        \/ Rank(tag[ord[r]]) < Rank(tag[ord[r + 1]])
        \/ Rank(tag[ord[r]]) = Rank(tag[ord[r + 1]]) /\ ord[r] < ord[r + 1]

MoveElem(s, from, to) ==
  IF from < to
  THEN SubSeq(s, 1, from - 1) \o SubSeq(s, from + 1, to) \o <<s[from]>> \o SubSeq(s, to + 1, Len(s))
  ELSE SubSeq(s, 1, to - 1) \o <<s[from]>> \o SubSeq(s, to, from - 1) \o SubSeq(s, from + 1, Len(s))

\* old-spec fonts (deva, beng ... script tags) ligate Consonant + Halant: the first post-base halant
\* moves behind the last post-base consonant (Kannada: unless a halant already follows it)
OldSpec(sc, model, g, tag, ord) ==
  LET n   == Len(ord)
      bps == {r \in 1..n : tag[ord[r]] = "base"}
      bp  == Min(bps)
      hs  == {r \in (bp + 1)..n : g[ord[r]] = "H"}
      cs  == {r \in (bp + 1)..n : IsC(g[ord[r]])}
  IN IF model # "indic1" \/ bps = {} \/ hs = {} \/ cs = {} THEN ord
     ELSE IF sc = "knda" /\ \E r \in (Max(cs) + 1)..n : g[ord[r]] = "H" THEN ord
     ELSE MoveElem(ord, Min(hs), Max(cs))

---------------------------------------------------------------------------
(* basic-feature masks (stage 3 applies rphf / pref / blwf / half / pstf    *)
(* only where the mask is set)                                             *)
MaskNames == <<"rphf", "pref", "blwf", "half", "pstf">>
MaskSeq(S) == SelectSeq(MaskNames, LAMBDA m : m \in S)

Masks(sc, model, F, g, tag, ord) ==
  LET n    == Len(ord)
      sym(r) == g[ord[r]]
      bp   == Min({r \in 1..n : tag[ord[r]] = "base"})
      m0(r) == LET p == tag[ord[r]]
               IN CASE p = "reph" -> {"rphf"}
                    [] p = "prec" -> IF model = "indic2" /\ Conf[sc].blwf = "prepost"
                                     THEN {"half", "blwf"} ELSE {"half"}
                    [] p = "belowc" -> {"blwf"}
                    [] p = "postc" -> {"pstf"}
                    [] OTHER -> {}
      \* Dev_ExplicitHalfDropsBlwf: a pre-base "Halant, ZWJ" asks for half forms: no blwf up to there
      hz   == {r \in 1..(bp - 2) : sym(r) = "H" /\ sym(r + 1) = "ZWJ"}
      z    == IF hz = {} THEN 0 ELSE Max(hz) + 1
      m1(r) == IF r <= z THEN m0(r) \ {"blwf"} ELSE m0(r)
      \* old-spec Devanagari: non-initial pre-base Ra, Halant keeps blwf (rakar through vatu)
      rh   == IF model = "indic1" /\ sc = "deva"
              THEN {r \in 1..(bp - 2) : sym(r) = "Ra" /\ sym(r + 1) = "H" /\ sym(r + 2) # "ZWJ"}
              ELSE {}
      m2(r) == IF r \in rh \/ (r - 1) \in rh THEN m1(r) \cup {"blwf"} ELSE m1(r)
      \* pre-base-reordering Ra (Malayalam, Telugu): first Halant, Ra (old spec Ra, Halant) after the base
      pr   == IF Conf[sc].pref /\ "Ra" \in F.pref
              THEN {r \in (bp + 1)..(n - 1) :
                      IF model = "indic1" THEN sym(r) = "Ra" /\ sym(r + 1) = "H"
                      ELSE sym(r) = "H" /\ sym(r + 1) = "Ra"}
              ELSE {}
      p1   == IF pr = {} THEN 0 ELSE Min(pr)
      m3(r) == IF p1 > 0 /\ r \in {p1, p1 + 1} THEN m2(r) \cup {"pref"} ELSE m2(r)
  IN [r \in 1..n |-> MaskSeq(m3(r))]

---------------------------------------------------------------------------
(* the whole stage                                                         *)
\* a cluster without base (Dev_NoBaseUniscribe): nothing moves, only the reph Ra is tagged; every
\* other glyph may take a half form
NoBaseResult(sc, F, tok, st) ==
  LET g    == Syms(tok)
      reph == HasReph(sc, F, g)
      tag  == [k \in DOMAIN g |-> IF reph /\ k = 1 THEN "reph"
                                  ELSE IF st.tag[k] # "none" THEN st.tag[k]
                                  ELSE IF sc = "guru" /\ g[k] = "CM" THEN "belowc" ELSE "none"]
  IN [order |-> [k \in DOMAIN tok |-> tok[k].ix],
      sym   |-> g,
      pos   |-> tag,
      mask  |-> [k \in DOMAIN g |-> IF tag[k] = "reph" THEN <<"rphf">> ELSE <<"half">>],
      base  |-> 0]

\* the result, given the tags (shared with the lemmas of MC_IndicReorder)
ResultFromTags(sc, model, F, tok, st, tag) ==
  LET g == Syms(tok)
  IN IF st.base = 0 THEN NoBaseResult(sc, F, tok, st)
     ELSE LET ord == OldSpec(sc, model, g, tag, Order(tag))
          IN [order |-> [r \in DOMAIN ord |-> tok[ord[r]].ix],
              sym   |-> [r \in DOMAIN ord |-> g[ord[r]]],
              pos   |-> [r \in DOMAIN ord |-> tag[ord[r]]],
              mask  |-> Masks(sc, model, F, g, tag, ord),
              base  |-> CHOOSE r \in DOMAIN ord : ord[r] = st.base]
ResultFrom(sc, model, F, tok, st) ==
  ResultFromTags(sc, model, F, tok, st, IF st.base = 0 THEN <<>> ELSE TLCEval(AllTags(sc, F, Syms(tok), st)))

Expected(sc, model, F, kind, syms) ==
  LET tok == Tokens(sc, kind, syms)
      g   == Syms(tok)
  IN ResultFrom(sc, model, F, tok, RunSearch(sc, F, g, Search0(sc, F, g)))

\* every tag is assigned (no foreign matra ...): precondition of the generators
FullyTagged(sc, F, g, st) == st.base = 0 \/ \A k \in DOMAIN g : AllTags(sc, F, g, st)[k] # "none"

---------------------------------------------------------------------------
(* design invariants of a result r for tokens tok                          *)
PreBaseClass == {"reph", "prem", "prec"}
DesignOK(sc, model, tok, r) ==
  LET n == Len(tok)
      ixs == {tok[k].ix : k \in 1..n}
  IN /\ Len(r.order) = n /\ Len(r.pos) = n /\ Len(r.mask) = n
     /\ {r.order[k] : k \in 1..n} = ixs                       \* permutation
     /\ r.base = 0 => r.order = [k \in 1..n |-> tok[k].ix]     \* no base: nothing moves
     /\ r.base # 0 =>
          LET bs == {k \in 1..n : r.pos[k] = "base"}
          IN /\ bs # {}
             /\ Cardinality({k \in bs : IsC(r.sym[k])}) = 1      \* exactly one consonant is the base
             /\ IsC(r.sym[Min(bs)])
             /\ Min(bs) = r.base
             /\ \A k \in 1..(Min(bs) - 1) : r.pos[k] \in PreBaseClass
             /\ \A k \in (Min(bs) + 1)..n : r.pos[k] \notin PreBaseClass
             /\ \A k \in 1..n : r.pos[k] # "none"
             \* new spec: canonical order everywhere; equal tags keep their relative order
             /\ model = "indic2" =>
                  \A k \in 1..(n - 1) :
                     \/ Rank(r.pos[k]) < Rank(r.pos[k + 1])
                     \/ r.pos[k] = r.pos[k + 1] /\ r.order[k] < r.order[k + 1]
                     \/ r.pos[k] = r.pos[k + 1] /\ r.order[k] = 0
             \* masks follow the tags
             /\ \A k \in 1..n :
                  /\ ("rphf" \in {r.mask[k][j] : j \in DOMAIN r.mask[k]}) <=> r.pos[k] = "reph"
                  /\ ("half" \in {r.mask[k][j] : j \in DOMAIN r.mask[k]}) <=> r.pos[k] = "prec"
                  /\ ("pstf" \in {r.mask[k][j] : j \in DOMAIN r.mask[k]}) <=> r.pos[k] = "postc"
                  /\ r.pos[k] = "belowc" => "blwf" \in {r.mask[k][j] : j \in DOMAIN r.mask[k]}
=============================================================================
