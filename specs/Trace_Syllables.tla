--------------------------- MODULE Trace_Syllables ---------------------------
(***************************************************************************)
(* Trace judge for X07 (impl -> spec), judging style.  One event per call  *)
(* of the real segmentation (to_indic_syllables / to_khmer_syllables /     *)
(* to_myanmar_syllables through the verification hook):                    *)
(*    a = [f (family), text, run (the glyph run: the text itself or what   *)
(*         Font::map_glyphs of a repository font made of it), cls (symbol  *)
(*         of every glyph of the run: its grammar terminals, an input),    *)
(*         via ("direct" or the font)]                                     *)
(*    o = [seg (clusters: positions, 0 = inserted dotted circle; kind),    *)
(*         panic, dc (dotted circles Font::shape inserted on the public    *)
(*         path, -1 = not observed), perr]                                 *)
(* The event conforms iff the call did not panic and seg is the            *)
(* observation Syllables!Obs of the segmentation Syllables!Seg under ONE   *)
(* reading of Dev_ClusterLength, and - when the public path was observed - *)
(* Font::shape inserted exactly one dotted circle per cluster the          *)
(* specification says gets one.  A non-conforming segmentation is          *)
(* attributed to the smallest set of named defect readings under which the *)
(* whole run conforms (keys family|defect; a dotted-circle count equal to   *)
(* the code model's is family|dottedCircleOnSimpleCluster); otherwise it   *)
(* is "unexplained"                                                        *)
(* and the key names the expected and the observed kind of the first       *)
(* differing cluster and how their extents relate.                         *)
(***************************************************************************)
EXTENDS Syllables, Json, IOUtils, SequencesExt

Rec == ndJsonDeserialize(IOEnv.TRACE)

VARIABLE l
tvars == <<l>>

FirstDiff(a, b) ==
  LET n == IF Len(a) < Len(b) THEN Len(a) ELSE Len(b)
      D == {j \in 1 .. n : a[j] # b[j]}
  IN IF D # {} THEN Min(D) ELSE n + 1

ClusterOr(sq, j) == IF j <= Len(sq) THEN sq[j] ELSE << <<>>, "none" >>

Absorb == "standaloneAbsorbsInvalid"
\* keys for the number of dotted circles seen on the public path, given the reading rd and defect set S that
\* explain the segmentation
DcKeys(e, rd, S) ==
  LET f     == e.a.f
      cls   == e.a.cls
      nSpec == DcSpec(f, SegUnder(f, rd, S \ {Absorb}, cls), cls)
      nCode == DcCode(f, SegUnder(f, rd, S, cls))
  IN IF e.o.dc < 0 \/ e.o.perr # "" \/ e.o.dc = nSpec THEN <<>>
     ELSE IF e.o.dc = nCode THEN << <<f, "dottedCircleOnSimpleCluster">> >>
     ELSE << <<f, "publicDottedCircles", IF e.o.dc < nSpec THEN "fewer" ELSE "more">> >>

Verdict(e) ==
  LET f    == e.a.f
      cls  == e.a.cls
      want == Obs(f, Seg(f, "std", cls))
      \* the second reading is looked at only when the first does not explain the observation
      okR  == IF want = e.o.seg THEN {1}
              ELSE {k \in DOMAIN Readings : k > 1 /\ Obs(f, Seg(f, Readings[k], cls)) = e.o.seg}
  IN IF e.o.panic # "" THEN [ok |-> FALSE, dev |-> FALSE, keys |-> << <<f, "panic">> >>, want |-> want]
     ELSE IF okR # {}
          THEN LET dk == DcKeys(e, Readings[Min(okR)], {})
               IN [ok |-> dk = <<>>, dev |-> 1 \notin okR, keys |-> dk, want |-> want]
     ELSE LET okS(S) == \E k \in DOMAIN Readings : Obs(f, SegUnder(f, Readings[k], S, cls)) = e.o.seg
              first  == FirstOk(okS)
          IN IF first # 0
             THEN LET S  == OrderedDefectSets[first]
                      rd == CHOOSE k \in DOMAIN Readings : Obs(f, SegUnder(f, Readings[k], S, cls)) = e.o.seg
                  IN [ok |-> FALSE, dev |-> FALSE,
                      keys |-> SetToSeq({<<f, d>> : d \in S}) \o DcKeys(e, Readings[rd], S),
                      want |-> want]
             ELSE LET j  == FirstDiff(want, e.o.seg)
                      w  == ClusterOr(want, j)
                      g  == ClusterOr(e.o.seg, j)
                      rel == IF Len(g[1]) < Len(w[1]) THEN "shorter"
                             ELSE IF Len(g[1]) > Len(w[1]) THEN "longer"
                             ELSE IF g[1] # w[1] THEN "positions" ELSE "kind"
                  IN [ok |-> FALSE, dev |-> FALSE, keys |-> << <<f, "unexplained", w[2], g[2], rel>> >>, want |-> want]

TInit == l = 1
TNext == l <= Len(Rec) /\ l' = l + 1

\* the verdict on event l is computed when state l is checked (an invariant that always holds and prints)
Judged ==
  l <= Len(Rec) =>
     LET e == Rec[l]
         v == Verdict(e)
     IN IF v.ok
        THEN IF v.dev THEN PrintT(<<"DEV", ToJson([i |-> e.i, case |-> e.case])>>) ELSE TRUE
        ELSE PrintT(<<"MISMATCH", ToJson([i |-> e.i, case |-> e.case, f |-> e.a.f, run |-> e.a.run, cls |-> e.a.cls,
                                          via |-> e.a.via, got |-> e.o.seg, want |-> v.want, keys |-> v.keys,
                                          dc |-> e.o.dc, panic |-> e.o.panic])>>)

TSpec == TInit /\ [][TNext]_tvars
AllConsumed == TLCGet("stats").diameter = Len(Rec) + 1
=============================================================================
