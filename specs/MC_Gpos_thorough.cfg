CONSTANTS
  Tier = "thorough"
SPECIFICATION Spec
INVARIANTS CaseOK
CHECK_DEADLOCK FALSE
