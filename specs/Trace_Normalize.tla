---------------------------- MODULE Trace_Normalize ----------------------------
(***************************************************************************)
(* Trace judge for C13 (judging style: Next is always enabled, every       *)
(* event is examined, a non-conforming one prints a MISMATCH line).        *)
(*                                                                         *)
(* Events recorded by harness/src/bin/c13_normalize.rs:                    *)
(*  Normalize   a = [axes   |-> <<<<min, def, max>>, ...>>   raw 16.16     *)
(*                   avar   |-> BOOLEAN                                    *)
(*                   maps   |-> one knot sequence <<<<from, to>>, ...>>    *)
(*                              per axis (raw 2.14), <<>> = no knots       *)
(*                   tuples |-> user tuples, one raw 16.16 value per axis  *)
(*                   via    |-> "normalize" (FvarTable::normalize) or      *)
(*                              "instance" (tuple returned by              *)
(*                              variations::instance)]                     *)
(*              o = [ok |-> <<BOOLEAN...>>, err |-> <<STRING...>>,         *)
(*                   outs |-> <<<<raw 2.14 per axis>>, ...>>]              *)
(*  NormalizeLen a = [naxes, len, avar], o = [ok, err, owned]               *)
(*              (owned: FvarTable::owned_tuple accepted len values)        *)
(*  Conv        a = [x0, n]  the F2Dot14 raw values x0 .. x0+n-1           *)
(*              o = [fixed   |-> Fixed::from(F2Dot14) raw,                 *)
(*                   back    |-> F2Dot14::from(Fixed(4x + k)), k = -2..1,  *)
(*                   f32     |-> F2Dot14::from(f32::from(x))]              *)
(*  FvarRead    a = [bytes |-> the fvar table]                             *)
(*              o = [ok, err, axes |-> <<<<tag hi16, tag lo16, min, def,   *)
(*                   max, flags, nameID>>, ...>>  (FvarTable::axes),       *)
(*                   insts |-> <<[sub, flags, coords, ps], ...>>           *)
(*                   (FvarTable::instances; ps = -1: no postScriptNameID)] *)
(* The verdict on every value is Normalize!Verdict (exact rational         *)
(* arithmetic, tolerance max(1, slope) units of 2.14); every segment map   *)
(* whose from-coordinates are in order is judged (MapJudged).  What a      *)
(* reader must see in an fvar table is Normalize!FvarAxes / FvarInstances  *)
(* of the table bytes.  One CLASS line per Normalize event counts which    *)
(* rule of the avar step decided each value (inputs only; vacuity).        *)
(***************************************************************************)
EXTENDS Normalize, Json, IOUtils, TLC

Rec == ndJsonDeserialize(IOEnv.TRACE)

VARIABLES l
tvars == <<l>>

U14 == 16384
Clauses == {"range", "endpoint", "accuracy"}

MapOfAxis(e, j) == IF e.a.avar THEN e.a.maps[j] ELSE <<>>

\* verdict on tuple i, axis j
Failed(e, i) == ~e.o.ok[i] \/ Len(e.o.outs[i]) # Len(e.a.axes)
V(e, i, j) ==
  IF Failed(e, i) THEN ""                      \* reported once per event, below
  ELSE Verdict(U14, e.a.axes[j], e.a.avar, MapOfAxis(e, j), e.a.tuples[i][j], e.o.outs[i][j])

AxisJudged(e, j) == ValidAxis(e.a.axes[j]) /\ MapJudged(MapOfAxis(e, j))

\* which rule of the specification decides value i of axis j (classification of the inputs only)
ValueClass(e, i, j) ==
  LET map == MapOfAxis(e, j)
      n == DefNorm(e.a.axes[j], e.a.tuples[i][j])
      rule == IF e.a.avar THEN AvarRule(U14, map, n) ELSE "noavar"
  IN IF rule # "segment" THEN rule
     ELSE LET k == CHOOSE k \in 1 .. Len(map) - 1 : SegHolds(U14, map, n, k) IN
          IF SegClamped(U14, map, n, k) THEN "segment-clamped"
          ELSE IF KnotT(map, k + 1) < KnotT(map, k) THEN "segment-down"
          ELSE IF KnotT(map, k + 1) = KnotT(map, k) THEN "segment-flat"
          ELSE "segment-up"
Classes == {"noavar", "identity", "below", "above", "record", "segment-clamped", "segment-down", "segment-flat",
            "segment-up"}
EmitClass(e) ==
  LET NA == Len(e.a.axes)
      NT == Len(e.a.tuples)
      J == {j \in 1 .. NA : AxisJudged(e, j)}
      CC == TLCEval([i \in 1 .. NT, j \in J |-> ValueClass(e, i, j)])
  IN PrintT(<<"CLASS", ToJson([cl \in Classes |-> Cardinality({p \in (1 .. NT) \X J : CC[p[1], p[2]] = cl})])>>)

JudgeNormalize(e) ==
  LET NA == Len(e.a.axes)
      NT == Len(e.a.tuples)
      \* (TLCEval: a function constructor is a lazy lambda that TLC would re-evaluate at every application)
      VV == TLCEval([i \in 1 .. NT, j \in 1 .. NA |-> IF AxisJudged(e, j) THEN V(e, i, j) ELSE ""])
  IN
  /\ \A j \in 1 .. NA :
       IF AxisJudged(e, j) THEN TRUE
       ELSE PrintT(<<"OUTSIDE", ToJson([i |-> e.i, axis |-> j])>>)
  \* a call that fails (error or panic) on a tuple of the right length over valid axes
  /\ LET bad == {i \in 1 .. NT : Failed(e, i)} IN
     IF bad = {} \/ \E j \in 1 .. NA : ~AxisJudged(e, j) THEN TRUE
     ELSE LET i == CHOOSE x \in bad : \A y \in bad : x <= y IN
          PrintT(<<"MISMATCH", ToJson([i |-> e.i, case |-> e.case, ev |-> e.ev, via |-> e.a.via,
                                       clause |-> "failed", axis |-> 0, ax |-> e.a.axes, avar |-> e.a.avar,
                                       map |-> IF e.a.avar THEN e.a.maps ELSE <<>>, v |-> e.a.tuples[i],
                                       got |-> e.o.outs[i], err |-> e.o.err[i], nbad |-> Cardinality(bad)])>>)
  /\ \A j \in 1 .. NA, cl \in Clauses :
       LET bad == {i \in 1 .. NT : VV[i, j] = cl} IN
       IF bad = {} THEN TRUE
       ELSE LET i == CHOOSE x \in bad : \A y \in bad : x <= y IN
            PrintT(<<"MISMATCH", ToJson([i |-> e.i, case |-> e.case, ev |-> e.ev, via |-> e.a.via,
                                         clause |-> cl, axis |-> j, ax |-> e.a.axes[j], avar |-> e.a.avar,
                                         map |-> MapOfAxis(e, j), v |-> e.a.tuples[i][j],
                                         got |-> IF e.o.ok[i] THEN e.o.outs[i] ELSE <<>>,
                                         err |-> e.o.err[i], nbad |-> Cardinality(bad)])>>)
  /\ \A j \in 1 .. NA :
       IF ~(AxisJudged(e, j) /\ (~e.a.avar \/ MonotoneDemanded(U14, MapOfAxis(e, j)))) THEN TRUE
       ELSE LET good == {i \in 1 .. NT : e.o.ok[i] /\ Len(e.o.outs[i]) = NA}
                bad == {p \in good \X good :
                           e.a.tuples[p[1]][j] <= e.a.tuples[p[2]][j] /\ e.o.outs[p[1]][j] > e.o.outs[p[2]][j]}
            IN IF bad = {} THEN TRUE
               ELSE LET p == CHOOSE x \in bad : TRUE IN
                    PrintT(<<"MISMATCH", ToJson([i |-> e.i, case |-> e.case, ev |-> e.ev, via |-> e.a.via,
                                                 clause |-> "monotone", axis |-> j, ax |-> e.a.axes[j],
                                                 avar |-> e.a.avar, map |-> MapOfAxis(e, j),
                                                 v |-> e.a.tuples[p[1]][j],
                                                 got |-> <<e.o.outs[p[1]][j], e.a.tuples[p[2]][j], e.o.outs[p[2]][j]>>,
                                                 err |-> "", nbad |-> Cardinality(bad)])>>)

JudgeLen(e) ==
  IF /\ e.o.ok = LengthAccepted(e.a.naxes, e.a.len) /\ (e.o.ok \/ e.o.err = "BadValue")
     /\ e.o.owned = LengthAccepted(e.a.naxes, e.a.len)
  THEN TRUE
  ELSE PrintT(<<"MISMATCH", ToJson([i |-> e.i, case |-> e.case, ev |-> e.ev, via |-> "normalize",
                                    clause |-> "length", axis |-> 0, ax |-> <<e.a.naxes, e.a.len>>,
                                    avar |-> e.a.avar, map |-> <<>>, v |-> e.a.len, got |-> <<>>,
                                    err |-> e.o.err, nbad |-> 1])>>)

\* what FvarTable::read / axes() / instances() report about a well-formed table
JudgeFvarRead(e) ==
  LET b == e.a.bytes IN
  IF ~FvarWellFormed(b) THEN PrintT(<<"OUTSIDE", ToJson([i |-> e.i, axis |-> 0])>>)
  ELSE LET clause == IF ~e.o.ok THEN "read-failed"
                     ELSE IF e.o.axes # FvarAxes(b) THEN "axes"
                     ELSE IF e.o.insts # FvarInstances(b) THEN "instances"
                     ELSE "" IN
       IF clause = "" THEN TRUE
       ELSE PrintT(<<"MISMATCH", ToJson([i |-> e.i, case |-> e.case, ev |-> e.ev, via |-> "read",
                                         clause |-> clause, axis |-> 0,
                                         ax |-> <<BU16(b, 4), BU16(b, 8), BU16(b, 10), BU16(b, 12), BU16(b, 14)>>,
                                         avar |-> FALSE, map |-> <<>>, v |-> 0,
                                         got |-> IF clause = "instances" THEN e.o.insts ELSE e.o.axes,
                                         err |-> e.o.err, nbad |-> 1])>>)

ConvBad(e) ==
  {k \in 1 .. e.a.n :
     LET x == e.a.x0 + k - 1 IN
     ~ /\ e.o.fixed[k] = F2Dot14ToFixed(x)
       /\ \A d \in 1 .. 4 : e.o.back[d][k] = FixedToF2Dot14(F2Dot14ToFixed(x) + d - 3)
       /\ \A d \in 1 .. 4 : e.o.back[d][k] = x
       /\ e.o.f32[k] = x}

JudgeConv(e) ==
  LET bad == ConvBad(e) IN
  IF bad = {} /\ Len(e.o.fixed) = e.a.n THEN TRUE
  ELSE LET k == IF bad = {} THEN 1 ELSE CHOOSE x \in bad : \A y \in bad : x <= y IN
       PrintT(<<"MISMATCH", ToJson([i |-> e.i, case |-> e.case, ev |-> e.ev, via |-> "conv",
                                    clause |-> "conversion", axis |-> 0, ax |-> <<>>, avar |-> FALSE,
                                    map |-> <<>>, v |-> e.a.x0 + k - 1,
                                    got |-> <<e.o.fixed[k], e.o.back[1][k], e.o.back[2][k], e.o.back[3][k],
                                              e.o.back[4][k], e.o.f32[k]>>,
                                    err |-> e.o.err, nbad |-> Cardinality(bad)])>>)

TInit == l = 1

TNext ==
  /\ l <= Len(Rec)
  /\ l' = l + 1
  /\ LET e == Rec[l] IN
     CASE e.ev = "Normalize"    -> JudgeNormalize(e) /\ EmitClass(e)
       [] e.ev = "FvarRead"     -> JudgeFvarRead(e)
       [] e.ev = "NormalizeLen" -> JudgeLen(e)
       [] e.ev = "Conv"         -> JudgeConv(e)
       [] OTHER                 -> PrintT(<<"UNMODELLED", e.ev>>)

TSpec == TInit /\ [][TNext]_tvars

AllConsumed == TLCGet("stats").diameter = Len(Rec) + 1
=============================================================================
