------------------------------ MODULE MC_Type2 ------------------------------
(***************************************************************************)
(* Bounded exploration of the Type 2 machine and generator of replay cases *)
(* (spec -> impl) for property C18.                                        *)
(*                                                                         *)
(* A case is a glyph program as TOKENS (numbers, operators, mask bytes)    *)
(* with its subroutines and font context.  TLC                             *)
(*   - picks a selection (family + parameters) in Init,                    *)
(*   - builds every case of that selection (all operator forms of a path,  *)
(*     all wrappers: width, hints and masks, subroutine factorings ...),   *)
(*   - runs the machine on the canonical byte encoding of the tokens,      *)
(*     step by step for the small families (design invariants in every     *)
(*     intermediate state) and in one big step for the large one,          *)
(*   - checks  Interp(form) = PathDenote(path)  for every form, and        *)
(*   - prints one CASE line per halted machine with the expected commands. *)
(* The harness encodes the tokens itself (every number encoding), wraps    *)
(* them in real CFF / CFF2 tables and compares allsorts' commands.         *)
(***************************************************************************)
EXTENDS Type2, Json

CONSTANTS MaxBlocks,      \* forms family: block sequences up to this length (profile 1, cff)
          MaxBlocksAll,   \* ... up to this length for every profile and kind
          ExtraKinds,     \* block kinds of the sequences one block longer than MaxBlocks (profile 1, cff)
          ExtraKindsAll,  \* ... one block longer than MaxBlocksAll (every profile and kind)
          BigCounts,      \* subroutine counts for the bias family
          SeacFull        \* seac charset family: every pair of codes (else: present x present + each missing code once per side)

VARIABLES ph, cs, m
vars == <<ph, cs, m>>

---------------------------------------------------------------------------
\* Tokens
N(v)  == [n |-> v]
O(s)  == [o |-> s]
MB(b) == [m |-> b]
RECURSIVE Flat(_)
Flat(ss) == IF ss = <<>> THEN <<>> ELSE Head(ss) \o Flat(Tail(ss))
Cat(F(_), n) == Flat([i \in 1 .. n |-> F(i)])
RECURSIVE TokBytes(_)
TokBytes(ts) ==
  IF ts = <<>> THEN <<>>
  ELSE LET t == Head(ts) IN
       (IF "n" \in DOMAIN t THEN EncNum(t.n, MinForm(t.n))
        ELSE IF "o" \in DOMAIN t THEN OpCode(t.o) ELSE t.m) \o TokBytes(Tail(ts))
Nums(a) == [i \in 1 .. Len(a) |-> N(a[i])]
App(op, a) == Nums(a) \o <<O(op)>>
AppsTokens(apps) == Cat(LAMBDA i : App(apps[i].op, apps[i].a), Len(apps))

---------------------------------------------------------------------------
\* Values: distinct, non-zero, position dependent, mixed signs.  Profiles:
\*  1 one-byte integers, 2 two-byte integers, 3 the edges of the integer encodings,
\*  4 fractions (16.16 only)
Sgn(k) == IF k % 2 = 0 THEN 1 ELSE -1
Edge == <<107, -107, 108, -108, 1131, -1131, 1132, -1132, 363, -364, 364, -363>>
V(p, i, j) ==
  CASE p = 1 -> Sgn(i + j) * (13 * i + 3 * j + 2) * ONE
    [] p = 2 -> Sgn(i + j + 1) * (108 + 170 * i + 17 * j) * ONE
    [] p = 3 -> Edge[((6 * i + j) % 12) + 1] * ONE
    [] p = 4 -> Sgn(i + j) * ((11 * i + 5 * j + 1) * ONE + (j % 4) * 16384 + (i + 1) * 256)

\* Blocks: one or two segments with the alignments the specialised operators need
BlockKinds == {"Lg", "Lh", "Lv", "Cg", "Chh", "Chv", "Cvh", "Cvv", "Cxh", "Cxv", "Chx", "Cvx",
               "Fh", "Fh1", "F1x", "F1y", "F1e"}
Blk(kind, p, i) ==
  LET a(j) == V(p, i, j)
      X(j) == 2 * Abs(V(p, i, j)) IN
  CASE kind = "Lg"  -> <<SegL(a(1), a(2))>>
    [] kind = "Lh"  -> <<SegL(a(1), 0)>>
    [] kind = "Lv"  -> <<SegL(0, a(1))>>
    [] kind = "Cg"  -> <<SegC(a(1), a(2), a(3), a(4), a(5), a(6))>>
    [] kind = "Chh" -> <<SegC(a(1), 0, a(2), a(3), a(4), 0)>>
    [] kind = "Chv" -> <<SegC(a(1), 0, a(2), a(3), 0, a(4))>>
    [] kind = "Cvh" -> <<SegC(0, a(1), a(2), a(3), a(4), 0)>>
    [] kind = "Cvv" -> <<SegC(0, a(1), a(2), a(3), 0, a(4))>>
    [] kind = "Cxh" -> <<SegC(a(1), a(5), a(2), a(3), a(4), 0)>>
    [] kind = "Cxv" -> <<SegC(a(5), a(1), a(2), a(3), 0, a(4))>>
    [] kind = "Chx" -> <<SegC(a(1), 0, a(2), a(3), a(5), a(4))>>
    [] kind = "Cvx" -> <<SegC(0, a(1), a(2), a(3), a(4), a(5))>>
    [] kind = "Fh"  -> <<SegC(a(1), 0, a(2), a(3), a(4), 0), SegC(a(5), 0, a(6), 0 - a(3), a(1), 0)>>
    [] kind = "Fh1" -> <<SegC(a(1), a(2), a(3), a(4), a(5), 0),
                         SegC(a(6), 0, a(1), a(3), a(2), 0 - (a(2) + a(4) + a(3)))>>
    [] kind = "F1x" -> <<SegC(X(1), a(2), X(3), a(4), X(5), a(6)),
                         SegC(X(2), a(1), X(4), a(3), X(6), 0 - (a(2) + a(4) + a(6) + a(1) + a(3)))>>
    \* flex1 with |dx| = |dy| over the first five deltas: the last argument is the vertical one
    [] kind = "F1e" -> <<SegC(a(1), a(2), a(3), a(4), a(5), a(5)),
                         SegC(a(2), a(1), a(4), a(3), 0 - (a(1) + a(3) + a(5) + a(2) + a(4)), a(6))>>
    [] kind = "F1y" -> <<SegC(a(2), X(1), a(4), X(3), a(6), X(5)),
                         SegC(a(1), X(2), a(3), X(4), 0 - (a(2) + a(4) + a(6) + a(1) + a(3)), X(6))>>

Contour(p, kinds, c) ==      \* contour number c (0-based) built from block kinds
  [mv |-> <<V(p, 5 * c, 1), V(p, 5 * c, 2)>>,
   segs |-> Cat(LAMBDA i : Blk(kinds[i], p, 5 * c + i), Len(kinds))]

PathInDom(path) == \A k \in 1 .. Len(PathDenote(path)) :
                     \A j \in 1 .. Len(PathDenote(path)[k].p) : Abs(PathDenote(path)[k].p[j]) <= 16000 * ONE

---------------------------------------------------------------------------
\* Encoder: every operator form of a segment list
AllT(s, t) == \A i \in 1 .. Len(s) : s[i].t = t
Match(op, s) ==
  LET k == Len(s) IN
  CASE op = "rlineto" -> IF AllT(s, "L") THEN {Cat(LAMBDA i : s[i].d, k)} ELSE {}
    [] op = "hlineto" ->
         IF AllT(s, "L") /\ \A i \in 1 .. k : (IF i % 2 = 1 THEN s[i].d[2] = 0 ELSE s[i].d[1] = 0)
         THEN {[i \in 1 .. k |-> IF i % 2 = 1 THEN s[i].d[1] ELSE s[i].d[2]]} ELSE {}
    [] op = "vlineto" ->
         IF AllT(s, "L") /\ \A i \in 1 .. k : (IF i % 2 = 1 THEN s[i].d[1] = 0 ELSE s[i].d[2] = 0)
         THEN {[i \in 1 .. k |-> IF i % 2 = 1 THEN s[i].d[2] ELSE s[i].d[1]]} ELSE {}
    [] op = "rrcurveto" -> IF AllT(s, "C") THEN {Cat(LAMBDA i : s[i].d, k)} ELSE {}
    [] op = "rcurveline" ->
         IF k >= 2 /\ AllT(SubSeq(s, 1, k - 1), "C") /\ s[k].t = "L" THEN {Cat(LAMBDA i : s[i].d, k)} ELSE {}
    [] op = "rlinecurve" ->
         IF k >= 2 /\ AllT(SubSeq(s, 1, k - 1), "L") /\ s[k].t = "C" THEN {Cat(LAMBDA i : s[i].d, k)} ELSE {}
    [] op = "hhcurveto" ->
         IF AllT(s, "C") /\ \A i \in 1 .. k : s[i].d[6] = 0 /\ (i > 1 => s[i].d[2] = 0)
         THEN LET body == Cat(LAMBDA i : <<s[i].d[1], s[i].d[3], s[i].d[4], s[i].d[5]>>, k) IN
              IF s[1].d[2] # 0 THEN {<<s[1].d[2]>> \o body} ELSE {body, <<0>> \o body}
         ELSE {}
    [] op = "vvcurveto" ->
         IF AllT(s, "C") /\ \A i \in 1 .. k : s[i].d[5] = 0 /\ (i > 1 => s[i].d[1] = 0)
         THEN LET body == Cat(LAMBDA i : <<s[i].d[2], s[i].d[3], s[i].d[4], s[i].d[6]>>, k) IN
              IF s[1].d[1] # 0 THEN {<<s[1].d[1]>> \o body} ELSE {body, <<0>> \o body}
         ELSE {}
    [] op \in {"hvcurveto", "vhcurveto"} ->
         LET H(i) == IF op = "hvcurveto" THEN i % 2 = 1 ELSE i % 2 = 0 IN
         IF AllT(s, "C") /\ \A i \in 1 .. k :
               IF H(i) THEN s[i].d[2] = 0 /\ (i < k => s[i].d[5] = 0)
                       ELSE s[i].d[1] = 0 /\ (i < k => s[i].d[6] = 0)
         THEN LET body == Cat(LAMBDA i : IF H(i) THEN <<s[i].d[1], s[i].d[3], s[i].d[4], s[i].d[6]>>
                                                 ELSE <<s[i].d[2], s[i].d[3], s[i].d[4], s[i].d[5]>>, k)
                  last == IF H(k) THEN s[k].d[5] ELSE s[k].d[6] IN
              IF last # 0 THEN {body \o <<last>>} ELSE {body, body \o <<0>>}
         ELSE {}
    [] op = "flex" ->
         IF k = 2 /\ AllT(s, "C") THEN {s[1].d \o s[2].d \o <<50 * ONE>>} ELSE {}
    [] op = "hflex" ->
         IF k = 2 /\ AllT(s, "C") /\ s[1].d[2] = 0 /\ s[1].d[6] = 0 /\ s[2].d[2] = 0
              /\ s[2].d[4] = 0 - s[1].d[4] /\ s[2].d[6] = 0
         THEN {<<s[1].d[1], s[1].d[3], s[1].d[4], s[1].d[5], s[2].d[1], s[2].d[3], s[2].d[5]>>} ELSE {}
    [] op = "hflex1" ->
         IF k = 2 /\ AllT(s, "C") /\ s[1].d[6] = 0 /\ s[2].d[2] = 0
              /\ s[2].d[6] = 0 - (s[1].d[2] + s[1].d[4] + s[2].d[4])
         THEN {<<s[1].d[1], s[1].d[2], s[1].d[3], s[1].d[4], s[1].d[5],
                 s[2].d[1], s[2].d[3], s[2].d[4], s[2].d[5]>>} ELSE {}
    [] op = "flex1" ->
         IF k = 2 /\ AllT(s, "C")
         THEN LET sx == s[1].d[1] + s[1].d[3] + s[1].d[5] + s[2].d[1] + s[2].d[3]
                  sy == s[1].d[2] + s[1].d[4] + s[1].d[6] + s[2].d[2] + s[2].d[4]
                  ten == s[1].d \o SubSeq(s[2].d, 1, 4) IN
              IF Abs(sx) > Abs(sy) /\ s[2].d[6] = 0 - sy THEN {ten \o <<s[2].d[5]>>}
              ELSE IF Abs(sx) <= Abs(sy) /\ s[2].d[5] = 0 - sx THEN {ten \o <<s[2].d[6]>>}
              ELSE {}
         ELSE {}

\* For an operator only the longest prefix it can encode, and the prefix of one segment, are used
\* (all splittings of a run would multiply the forms without reaching another argument pattern).
PrefixLens(op, segs) ==
  LET ok == {k \in 1 .. Len(segs) : Match(op, SubSeq(segs, 1, k)) # {}} IN
  IF ok = {} THEN {} ELSE {CHOOSE k \in ok : \A j \in ok : j <= k} \cup (ok \cap {1})
RECURSIVE Forms(_)
Forms(segs) ==
  IF segs = <<>> THEN {<<>>}
  ELSE UNION { UNION { UNION { { <<[op |-> op, a |-> args]>> \o rest :
                                   rest \in Forms(SubSeq(segs, k + 1, Len(segs))) } :
                               args \in {x \in Match(op, SubSeq(segs, 1, k)) : Len(x) <= 48} } :
                       k \in PrefixLens(op, segs) } :
               op \in PathOps }

\* The forms family does not take the product of the choices at every position: one run is written
\* with each operator that can encode it, the segments before and after it one generic operator each.
GenericApp(sg) == [op |-> IF sg.t = "L" THEN "rlineto" ELSE "rrcurveto", a |-> sg.d]
Generic(segs) == [i \in 1 .. Len(segs) |-> GenericApp(segs[i])]
FormsOneRun(segs) ==
  {Generic(segs)} \cup
  UNION { UNION { UNION { { Generic(SubSeq(segs, 1, i - 1)) \o <<[op |-> op, a |-> args]>>
                            \o Generic(SubSeq(segs, i + k, Len(segs))) :
                            args \in {x \in Match(op, SubSeq(segs, i, i + k - 1)) : Len(x) <= 48} } :
                          k \in PrefixLens(op, SubSeq(segs, i, Len(segs))) } :
                  op \in PathOps } :
          i \in 1 .. Len(segs) }

FormSize(f) == Len(AppsTokens(f))
Compact(segs) == CHOOSE f \in Forms(segs) : \A g \in Forms(segs) : FormSize(f) <= FormSize(g)

MoveForms(mv) ==
     {App("rmoveto", mv)}
  \cup (IF mv[2] = 0 THEN {App("hmoveto", <<mv[1]>>)} ELSE {})
  \cup (IF mv[1] = 0 THEN {App("vmoveto", <<mv[2]>>)} ELSE {})

\* A run that fills the operand stack of a CFF charstring (48 entries, TN5177 appendix B) for one operator;
\* "+": the form with the optional leading / trailing argument
FullOps == {"rlineto", "hlineto", "vlineto", "rrcurveto", "rcurveline", "rlinecurve", "hhcurveto", "hhcurveto+",
            "vvcurveto", "vvcurveto+", "hvcurveto", "hvcurveto+", "vhcurveto", "vhcurveto+"}
FullOpName(o) == CASE o = "hhcurveto+" -> "hhcurveto" [] o = "vvcurveto+" -> "vvcurveto" [] o = "hvcurveto+" -> "hvcurveto"
                   [] o = "vhcurveto+" -> "vhcurveto" [] OTHER -> o
FullSegs(o) ==
  LET B(n, K(_)) == Cat(LAMBDA i : Blk(K(i), 1, i), n) IN
  CASE o = "rlineto"    -> B(24, LAMBDA i : "Lg")
    [] o = "hlineto"    -> B(48, LAMBDA i : IF i % 2 = 1 THEN "Lh" ELSE "Lv")
    [] o = "vlineto"    -> B(48, LAMBDA i : IF i % 2 = 1 THEN "Lv" ELSE "Lh")
    [] o = "rrcurveto"  -> B(8, LAMBDA i : "Cg")
    [] o = "rcurveline" -> B(8, LAMBDA i : IF i <= 7 THEN "Cg" ELSE "Lg")          \* 44 operands (the next form has 50)
    [] o = "rlinecurve" -> B(22, LAMBDA i : IF i <= 21 THEN "Lg" ELSE "Cg")
    [] o = "hhcurveto"  -> B(12, LAMBDA i : "Chh")
    [] o = "hhcurveto+" -> B(11, LAMBDA i : IF i = 1 THEN "Cxh" ELSE "Chh")        \* 45 operands
    [] o = "vvcurveto"  -> B(12, LAMBDA i : "Cvv")
    [] o = "vvcurveto+" -> B(11, LAMBDA i : IF i = 1 THEN "Cxv" ELSE "Cvv")
    [] o = "hvcurveto"  -> B(12, LAMBDA i : IF i % 2 = 1 THEN "Chv" ELSE "Cvh")
    [] o = "hvcurveto+" -> B(11, LAMBDA i : IF i = 11 THEN "Chx" ELSE IF i % 2 = 1 THEN "Chv" ELSE "Cvh")
    [] o = "vhcurveto"  -> B(12, LAMBDA i : IF i % 2 = 1 THEN "Cvh" ELSE "Chv")
    [] o = "vhcurveto+" -> B(11, LAMBDA i : IF i = 11 THEN "Cvx" ELSE IF i % 2 = 1 THEN "Cvh" ELSE "Chv")
\* the longest argument list of at most lim entries
LongestArgs(op, segs, lim) ==
  LET ok == {x \in Match(op, segs) : Len(x) <= lim} IN CHOOSE x \in ok : \A y \in ok : Len(y) <= Len(x)

---------------------------------------------------------------------------
\* Cases.  Every case has the same fields.
IsCff2(kind) == kind \in {"cff2", "cff2fd"}
END(kind) == IF IsCff2(kind) THEN <<>> ELSE <<O("endchar")>>
RET(kind) == IF IsCff2(kind) THEN <<>> ELSE <<O("return")>>
NoVar == [regions |-> <<>>, tuple |-> <<>>, dvs |-> 0]
\* feat: the feature class a finding on this case is filed under (part of the violation key)
FeatOf(fam, tag, ls, gs) ==
  IF fam = "blend" THEN tag
  ELSE IF fam = "misc" THEN (IF tag \in {"space", "hints-only"} THEN "empty-outline"
                            ELSE IF tag \in {"cff2-hvcurveto-53-operands", "cff2-vhcurveto-53-operands"}
                                 THEN "cff2-more-than-48-operands"
                            ELSE IF tag \in {"cff-stack-48-" \o o : o \in FullOps} \cup {"cff-stack-47-and-subr-number"}
                                 THEN "cff-operand-stack-at-limit" ELSE tag)
  ELSE IF fam = "seac" THEN tag.feat
  ELSE IF ls # <<>> THEN "lsubr" ELSE IF gs # <<>> THEN "gsubr" ELSE "nosubr"
\* sf: the font of a seac case - charset, number of glyphs, glyph id of the accented glyph, whether the
\* program is well formed (both components in the font), classes of the base's and the accent's SID
IsoCs == [fmt |-> "iso", ranges |-> <<>>]
NoSeac == [cs |-> IsoCs, n |-> 0, gid |-> 0, wf |-> TRUE, cls |-> <<>>]
Case(fam, tag, kind, prog, ls, gs, nL, nG, comps, sf, var, path, small) ==
  [fam |-> fam, tag |-> IF fam = "seac" THEN tag.text ELSE tag, feat |-> FeatOf(fam, tag, ls, gs), kind |-> kind, prog |-> prog, lsubrs |-> ls, gsubrs |-> gs,
   nL |-> nL, nG |-> nG, comps |-> comps, charset |-> sf.cs, nGlyphs |-> sf.n, gid |-> sf.gid, wf |-> sf.wf, scls |-> sf.cls,
   regions |-> var.regions, tuple |-> var.tuple, dvs |-> var.dvs, path |-> path, small |-> small]

\* the font context the machine needs, from a case
Sub(s) == [i |-> s.i, b |-> TokBytes(s.t)]
FC(c) == [kind |-> IF IsCff2(c.kind) THEN "cff2" ELSE "cff", nG |-> c.nG, nL |-> c.nL,
          gsubrs |-> [k \in 1 .. Len(c.gsubrs) |-> Sub(c.gsubrs[k])],
          lsubrs |-> [k \in 1 .. Len(c.lsubrs) |-> Sub(c.lsubrs[k])],
          comps |-> [k \in 1 .. Len(c.comps) |-> Sub(c.comps[k])],
          seacOk |-> c.kind = "cff", charset |-> c.charset, nGlyphs |-> c.nGlyphs,
          regions |-> c.regions, tuple |-> c.tuple, dvs |-> c.dvs]

CallTok(idx, cnt, global) == <<N((idx - Bias(cnt)) * ONE), O(IF global THEN "callgsubr" ELSE "callsubr")>>

\* ---- family "forms": one contour, every operator form
FormsCases(kind, p, kinds) ==
  LET ct == Contour(p, kinds, 0)
      path == <<ct>> IN
  IF ~PathInDom(path) THEN {}
  ELSE { Case("forms", "", kind, App("rmoveto", ct.mv) \o AppsTokens(f) \o END(kind),
              <<>>, <<>>, 0, 0, <<>>, NoSeac, NoVar, path, FALSE) : f \in FormsOneRun(ct.segs) }

\* ---- family "wrap": width, move form, hints and masks, subroutine factoring
WrapPaths ==
  [a |-> <<[mv |-> <<V(1, 0, 1), V(1, 0, 2)>>, segs |-> Blk("Lg", 1, 1) \o Blk("Chv", 1, 2) \o Blk("Lh", 1, 3)],
           [mv |-> <<V(2, 5, 1), V(2, 5, 2)>>, segs |-> Blk("Cvx", 2, 6) \o Blk("Lv", 4, 7)]>>,
   h |-> <<[mv |-> <<V(1, 0, 1), 0>>, segs |-> Blk("Lh", 3, 1) \o Blk("Lv", 3, 2) \o Blk("Cxh", 1, 3)],
           [mv |-> <<V(2, 5, 1), 0>>, segs |-> Blk("Lv", 1, 6) \o Blk("Cg", 1, 7)]>>,
   v |-> <<[mv |-> <<0, V(4, 0, 2)>>, segs |-> Blk("Fh1", 1, 1)],
           [mv |-> <<0, V(1, 5, 2)>>, segs |-> Blk("Lg", 1, 6)]>>]

\* hint prologues: [pre |-> tokens before the first move, mid |-> tokens between the contours' operators]
Stem(i) == <<N((10 * i) * ONE), N((5 + i) * ONE)>>
StemsTok(i, n) == Cat(LAMBDA j : Stem(i + j), n)
HintKinds == {"none", "hs", "vs", "hsvs", "hm0", "cm0", "hm2", "hm8", "hm9", "hmmid", "cm", "hm17"}
Hints(h) ==
  CASE h = "none"  -> [pre |-> <<>>, mid |-> <<>>]
    [] h = "hs"    -> [pre |-> StemsTok(0, 1) \o <<O("hstem")>>, mid |-> <<>>]
    [] h = "vs"    -> [pre |-> StemsTok(0, 2) \o <<O("vstem")>>, mid |-> <<>>]
    \* no stem operator at all: hintmask / cntrmask is the first stack-clearing operator (a width sits below
    \* its implicit vstem arguments); three stems: one mask byte, nine stems: two
    [] h = "hm0"   -> [pre |-> StemsTok(0, 3) \o <<O("hintmask"), MB(<<160>>)>>, mid |-> <<O("hintmask"), MB(<<64>>)>>]
    [] h = "cm0"   -> [pre |-> StemsTok(0, 9) \o <<O("cntrmask"), MB(<<255, 128>>)>> \o <<O("hintmask"), MB(<<1, 0>>)>>,
                       mid |-> <<>>]
    [] h = "hsvs"  -> [pre |-> StemsTok(0, 2) \o <<O("hstem")>> \o StemsTok(3, 1) \o <<O("vstem")>>, mid |-> <<>>]
    \* hstemhm, then the vstem arguments left on the stack for hintmask: 2 stems, 1 mask byte
    [] h = "hm2"   -> [pre |-> StemsTok(0, 1) \o <<O("hstemhm")>> \o StemsTok(3, 1) \o <<O("hintmask"), MB(<<14>>)>>,
                       mid |-> <<>>]
    [] h = "hm8"   -> [pre |-> StemsTok(0, 4) \o <<O("hstemhm")>> \o StemsTok(5, 4) \o <<O("hintmask"), MB(<<21>>)>>,
                       mid |-> <<>>]
    [] h = "hm9"   -> [pre |-> StemsTok(0, 5) \o <<O("hstemhm")>> \o StemsTok(5, 4) \o <<O("hintmask"), MB(<<255, 14>>)>>,
                       mid |-> <<>>]
    [] h = "hm17"  -> [pre |-> StemsTok(0, 9) \o <<O("hstemhm")>> \o StemsTok(10, 8) \o <<O("vstemhm")>>
                               \o <<O("hintmask"), MB(<<11, 14, 28>>)>>,
                       mid |-> <<O("hintmask"), MB(<<255, 255, 128>>)>>]
    [] h = "hmmid" -> [pre |-> StemsTok(0, 1) \o <<O("hstemhm")>> \o StemsTok(3, 2) \o <<O("vstemhm")>>
                               \o <<O("hintmask"), MB(<<224>>)>>,
                       mid |-> <<O("hintmask"), MB(<<21>>)>>]
    [] h = "cm"    -> [pre |-> StemsTok(0, 2) \o <<O("hstemhm")>> \o StemsTok(3, 1) \o <<O("cntrmask"), MB(<<14>>)>>
                               \o <<O("hintmask"), MB(<<5>>)>>,
                       mid |-> <<O("cntrmask"), MB(<<11>>)>>]

FactorKinds == {"none", "Lop", "Gop", "Lopr", "Gargs", "nest2", "nest3", "deep10", "tail", "movesub",
                "hintsub", "masksub"}

\* chunks of a wrapped program: hints, then per contour its move and its path operators
WrapChunks(kind, w, mf, h, path) ==
  LET hp == Hints(h)
      wtok == IF w THEN <<N(77 * ONE)>> ELSE <<>>
      \* later moves (relative to the current point) in their most specific form
      mv(c) == IF c = 1 THEN mf
               ELSE IF path[c].mv[1] = 0 THEN App("vmoveto", <<path[c].mv[2]>>)
               ELSE IF path[c].mv[2] = 0 THEN App("hmoveto", <<path[c].mv[1]>>)
               ELSE App("rmoveto", path[c].mv)
      body(c) == AppsTokens(Compact(path[c].segs)) IN
  [pre |-> IF hp.pre # <<>> THEN wtok \o hp.pre ELSE <<>>,
   mv1 |-> IF hp.pre # <<>> THEN mv(1) ELSE wtok \o mv(1),
   b1 |-> body(1),
   mid |-> hp.mid,
   rest |-> IF Len(path) = 2 THEN mv(2) \o body(2) ELSE <<>>]

Last(s) == s[Len(s)]
Front(s) == SubSeq(s, 1, Len(s) - 1)

\* One of the subroutine factorings of a chunked program: a set of [prog, ls, gs] (empty where the factoring
\* does not apply).  The subroutines are local oL + 0 .. 4 of nL and global oG + 0 .. 4 of nG.
Factored(kind, ch, fk, oL, oG, nL, nG) ==
  LET r == RET(kind)
      iL == oL + 2 iG == oG + 1 iL2 == oL + 4
      L(i, t) == [i |-> i, t |-> t]
      mk(prog, ls, gs) == {[prog |-> prog, ls |-> ls, gs |-> gs]}
      all == ch.pre \o ch.mv1 \o ch.b1 \o ch.mid \o ch.rest \o END(kind) IN
  CASE fk = "none" -> mk(all, <<>>, <<>>)
    [] fk = "Lop" -> mk(ch.pre \o ch.mv1 \o CallTok(iL, nL, FALSE) \o ch.mid \o ch.rest \o END(kind),
                        <<L(iL, ch.b1 \o r)>>, <<>>)
    [] fk = "Gop" -> mk(ch.pre \o ch.mv1 \o CallTok(iG, nG, TRUE) \o ch.mid \o ch.rest \o END(kind),
                        <<>>, <<L(iG, ch.b1 \o r)>>)
    \* operands stay in the glyph, only the last operator sits in the subroutine
    [] fk = "Lopr" -> mk(ch.pre \o ch.mv1 \o Front(ch.b1) \o CallTok(iL, nL, FALSE) \o ch.mid \o ch.rest \o END(kind),
                         <<L(iL, <<Last(ch.b1)>> \o r)>>, <<>>)
    \* the subroutine only pushes operands, the operator follows the call
    [] fk = "Gargs" -> mk(ch.pre \o ch.mv1 \o CallTok(iG, nG, TRUE) \o <<Last(ch.b1)>> \o ch.mid \o ch.rest \o END(kind),
                          <<>>, <<L(iG, Front(ch.b1) \o r)>>)
    [] fk = "nest2" -> mk(ch.pre \o ch.mv1 \o CallTok(iL, nL, FALSE) \o ch.mid \o ch.rest \o END(kind),
                          <<L(iL, CallTok(iG, nG, TRUE) \o r)>>, <<L(iG, ch.b1 \o r)>>)
    [] fk = "nest3" -> mk(ch.pre \o ch.mv1 \o CallTok(iL, nL, FALSE) \o ch.mid \o ch.rest \o END(kind),
                          <<L(iL, CallTok(iG, nG, TRUE) \o r), L(iL2, ch.b1 \o r)>>,
                          <<L(iG, CallTok(iL2, nL, FALSE) \o r)>>)
    \* a chain of nested calls, local oL -> global oG -> local oL + 1 -> ...: ten, the limit of TN5177 appendix B
    \* (last: global oG + 4), or nine (last: local oL + 4)
    [] fk \in {"deep10", "deep9"} ->
         LET deep == IF fk = "deep10" THEN 10 ELSE 9
             glob(k) == k % 2 = 0                                        \* the subroutine at nesting level k
             idx(k) == IF glob(k) THEN oG + k \div 2 - 1 ELSE oL + (k - 1) \div 2
             call(k) == CallTok(idx(k), IF glob(k) THEN nG ELSE nL, glob(k))
             body(k) == IF k = deep THEN ch.b1 \o r ELSE call(k + 1) \o r IN
         mk(ch.pre \o ch.mv1 \o call(1) \o ch.mid \o ch.rest \o END(kind),
            [j \in 1 .. (deep + 1) \div 2 |-> L(idx(2 * j - 1), body(2 * j - 1))],
            [j \in 1 .. deep \div 2 |-> L(idx(2 * j), body(2 * j))])
    \* the end of the glyph (with endchar for CFF) lives in a subroutine
    [] fk = "tail" -> mk(ch.pre \o ch.mv1 \o ch.b1 \o CallTok(iL, nL, FALSE),
                         <<L(iL, ch.mid \o ch.rest \o END(kind))>>, <<>>)
    \* the first moveto operator (with a possible width below its operands) in a global subroutine
    [] fk = "movesub" -> mk(ch.pre \o Front(ch.mv1) \o CallTok(iG, nG, TRUE) \o ch.b1 \o ch.mid \o ch.rest \o END(kind),
                            <<>>, <<L(iG, <<Last(ch.mv1)>> \o r)>>)
    \* the whole hint prologue in a subroutine / the mid-path mask in a subroutine
    [] fk = "hintsub" -> IF ch.pre = <<>> THEN {}
                         ELSE mk(CallTok(iL, nL, FALSE) \o ch.mv1 \o ch.b1 \o ch.mid \o ch.rest \o END(kind),
                                 <<L(iL, ch.pre \o r)>>, <<>>)
    [] fk = "masksub" -> IF ch.mid = <<>> THEN {}
                         ELSE mk(ch.pre \o ch.mv1 \o ch.b1 \o CallTok(iG, nG, TRUE) \o ch.rest \o END(kind),
                                 <<>>, <<L(iG, ch.mid \o r)>>)

WrapCase(kind, w, mf, h, fk, path, pname) ==
  LET nL == 5
      nG == IF fk = "deep10" THEN 5 ELSE 3 IN
  { Case("wrap", pname \o "/" \o h \o "/" \o fk \o (IF w THEN "/w" ELSE ""), kind, f.prog, f.ls, f.gs, nL, nG,
         <<>>, NoSeac, NoVar, path, TRUE) : f \in Factored(kind, WrapChunks(kind, w, mf, h, path), fk, 0, 0, nL, nG) }

WrapCases(kind, pname, w, h, fk) ==
  LET path == WrapPaths[pname] IN
  IF w /\ IsCff2(kind) THEN {}
  ELSE UNION { WrapCase(kind, w, mf, h, fk, path, pname) : mf \in MoveForms(path[1].mv) }

\* ---- family "bias": subroutine counts at the bias thresholds, first / last / neighbouring index
BiasCases(kind, cnt, global) ==
  LET path == <<WrapPaths["h"][1]>>
      body == AppsTokens(Compact(path[1].segs))
      idxs == {i \in {0, 1, 106, 107, 108, cnt - 2, cnt - 1} : i >= 0 /\ i < cnt} IN
  { Case("bias", "", kind,
         App("hmoveto", <<path[1].mv[1]>>) \o CallTok(i, cnt, global) \o END(kind),
         IF global THEN <<>> ELSE <<[i |-> i, t |-> body \o RET(kind)]>>,
         IF global THEN <<[i |-> i, t |-> body \o RET(kind)]>> ELSE <<>>,
         IF global THEN 1 ELSE cnt, IF global THEN cnt ELSE 1,
         <<>>, NoSeac, NoVar, path, TRUE) : i \in idxs }

\* ---- family "seac": endchar with four arguments builds an accented character from two glyphs
\* named by their StandardEncoding codes; each component is a whole charstring of its own.
\* The codes are resolved code -> SID (StandardEncoding) -> glyph id (charset) by the machine
\* (Type2!SeacGid); the generator lays the font out the other way round - it puts a glyph at the
\* position its SID has in the flattened charset (Type2!CharsetSids) - so that FormOK compares the two.
RECURSIVE PathEnd(_, _, _, _)
PathEnd(path, i, x, y) ==            \* the current point after the path
  IF i > Len(path) THEN <<x, y>>
  ELSE LET c == path[i]
           ex == [k \in 1 .. Len(c.segs) |-> IF c.segs[k].t = "L" THEN c.segs[k].d[1]
                                             ELSE c.segs[k].d[1] + c.segs[k].d[3] + c.segs[k].d[5]]
           ey == [k \in 1 .. Len(c.segs) |-> IF c.segs[k].t = "L" THEN c.segs[k].d[2]
                                             ELSE c.segs[k].d[2] + c.segs[k].d[4] + c.segs[k].d[6]]
           sum[k \in 0 .. Len(c.segs)] == IF k = 0 THEN <<0, 0>> ELSE <<sum[k - 1][1] + ex[k], sum[k - 1][2] + ey[k]>> IN
       PathEnd(path, i + 1, x + c.mv[1] + sum[Len(c.segs)][1], y + c.mv[2] + sum[Len(c.segs)][2])
\* the accented glyph: the base at the origin, then the accent with its origin at (adx, ady)
SeacPath(bpath, apath, adx, ady) ==
  LET e == PathEnd(bpath, 1, 0, 0) IN
  bpath \o <<[mv |-> <<adx + apath[1].mv[1] - e[1], ady + apath[1].mv[2] - e[2]>>, segs |-> apath[1].segs]>>
        \o Tail(apath)
SeacOuter(ow, adx, ady, codes) ==
  (IF ow THEN <<N(55 * ONE)>> ELSE <<>>) \o <<N(adx), N(ady), N(codes[1] * ONE), N(codes[2] * ONE), O("endchar")>>
\* glyph id by position in the flattened charset (0: not there)
GidByPos(chs, n, sid) == PosIn(CharsetSids(chs, n), sid, 1) - 1

\* where a SID sits in the charset (vacuity classes, computed here, counted by the driver)
SidClass(chs, n, sid) ==
  IF SidToGid(chs, n, sid) = -1
  THEN (IF Predefined(chs)
        THEN (IF PosIn(PredefSids(chs.fmt), sid, 1) - 1 = n THEN "missing-adjacent" ELSE "missing-far")
        ELSE IF SidToGid(chs, n, sid - 1) >= 1 \/ SidToGid(chs, n, sid + 1) >= 1 THEN "missing-adjacent" ELSE "missing-far")
  ELSE IF Predefined(chs) THEN (IF SidToGid(chs, n, sid) = n - 1 THEN "predefined|last-glyph" ELSE "predefined|inner")
  ELSE LET i == RangeIdx(chs.ranges, sid, 1)
           r == chs.ranges[i] IN
       IF chs.fmt = "f0" THEN (IF i = 1 THEN "first-entry" ELSE "later-entry")
       ELSE (IF i = 1 THEN "first-range" ELSE "later-range") \o "|" \o
            (IF r[2] = 0 THEN "only" ELSE IF sid = r[1] THEN "first" ELSE IF sid = r[1] + r[2] THEN "last" ELSE "inner")

\* (a) the components' own width prefix and hints, two fonts: the predefined ISOAdobe charset with all
\*     its 229 glyphs (the accented glyph is glyph 200), and a four-glyph font with a format 0 charset
SeacCases(codes, charset, ow, cw, chint) ==
  LET bpath == <<[mv |-> <<V(1, 0, 1), V(1, 0, 2)>>, segs |-> Blk("Lh", 1, 1) \o Blk("Lv", 1, 2)]>>
      apath == <<[mv |-> <<V(2, 0, 1), V(2, 0, 2)>>, segs |-> Blk("Chv", 1, 1)]>>
      adx == 300 * ONE  ady == 0 - 40 * ONE
      sb == StdEncSid(codes[1])  sa == StdEncSid(codes[2])
      chs == IF charset = "iso" THEN IsoCs ELSE [fmt |-> "f0", ranges |-> << <<sa, 0>>, <<300, 0>>, <<sb, 0>> >>]
      n == IF charset = "iso" THEN 229 ELSE 4
      gid == IF charset = "iso" THEN 200 ELSE 2
      \* chint stems by hstemhm and chint more left for hintmask: with 5 + 5 stems per component the
      \* mask has two bytes, and a count carried over from the base would make it three
      hint(i) == IF chint > 0 THEN StemsTok(i, chint) \o <<O("hstemhm")>> \o StemsTok(i + chint, chint)
                                   \o <<O("hintmask"), MB(IF chint = 1 THEN <<14>> ELSE <<21, 14>>)>> ELSE <<>>
      comp(path, wv, i) == (IF cw THEN <<N(wv * ONE)>> ELSE <<>>) \o hint(i)
                           \o App("rmoveto", path[1].mv) \o AppsTokens(Compact(path[1].segs)) \o <<O("endchar")>>
      above == charset = "iso" /\ (codes[1] > 228 \/ codes[2] > 228)
      text == (IF above THEN "isoadobe-code-above-228" ELSE "codes-plain")
              \o (IF ow THEN "+width" ELSE "+nowidth") \o (IF cw THEN "+compwidth" ELSE "")
              \o (IF chint = 1 THEN "+comphints" ELSE IF chint = 5 THEN "+comphints10" ELSE "")
      \* the one feature of the case a finding is filed under (first that applies)
      feat == IF above THEN "stdenc-code-above-228"
              ELSE IF ~ow THEN "four-operands-no-width"
              ELSE IF chint = 5 THEN "component-own-stem-count"
              ELSE IF cw /\ chint = 0 THEN "component-own-width"
              ELSE "plain" IN
  { Case("seac", [text |-> text, feat |-> feat], "cff", SeacOuter(ow, adx, ady, codes), <<>>, <<>>, 0, 0,
         <<[i |-> GidByPos(chs, n, sb), t |-> comp(bpath, 31, 0)], [i |-> GidByPos(chs, n, sa), t |-> comp(apath, 32, 11)]>>,
         [cs |-> chs, n |-> n, gid |-> gid, wf |-> TRUE, cls |-> <<SidClass(chs, n, sb), SidClass(chs, n, sa)>>],
         NoVar, SeacPath(bpath, apath, adx, ady), TRUE) }

\* (c) subroutines in the components and around the seac endchar.  Base and accent are two-contour glyphs
\*     written as the wrap family writes a glyph (own width, own hint prologue and mid-path mask) in every
\*     subroutine factoring: a component calls local / global subroutines that return before its end, nests
\*     them (nine deep), has its endchar, its first moveto operator, its hints or its mask in a subroutine.
\*     The font's subroutine INDEXes are shared: base local / global 0 .. 4, accent 5 .. 9, the accented
\*     glyph itself 10.  ofk: the seac endchar plain, its four arguments pushed by a global subroutine, or
\*     the endchar operator in a local subroutine.  codes <<c, c>>: one glyph is base and accent, its
\*     subroutines run twice.
CompFactorKinds == {"none", "Lop", "Gop", "Lopr", "Gargs", "nest2", "nest3", "deep9", "tail", "movesub",
                    "hintsub", "masksub"}
SeacSubCases(codes, charset, bfk, afk, h, cw, ofk) ==
  LET same == codes[1] = codes[2]
      bpath == WrapPaths["a"]
      apath == IF same THEN bpath ELSE WrapPaths["h"]
      adx == 300 * ONE  ady == 0 - 40 * ONE
      sb == StdEncSid(codes[1])  sa == StdEncSid(codes[2])
      chs == IF charset = "iso" THEN IsoCs ELSE [fmt |-> "f0", ranges |-> << <<sa, 0>>, <<300, 0>>, <<sb, 0>> >>]
      n == IF charset = "iso" THEN 229 ELSE 4
      gid == IF charset = "iso" THEN 200 ELSE 2
      nS == 11
      L(i, t) == [i |-> i, t |-> t]
      bF == Factored("cff", WrapChunks("cff", cw, App("rmoveto", bpath[1].mv), h, bpath), bfk, 0, 0, nS, nS)
      aF == IF same THEN {[prog |-> <<>>, ls |-> <<>>, gs |-> <<>>]}
            ELSE Factored("cff", WrapChunks("cff", cw, App("hmoveto", <<apath[1].mv[1]>>), h, apath), afk, 5, 5, nS, nS)
      args == <<N(adx), N(ady), N(codes[1] * ONE), N(codes[2] * ONE)>>
      wtok == <<N(55 * ONE)>>
      out == CASE ofk = "plain" -> [prog |-> wtok \o args \o <<O("endchar")>>, ls |-> <<>>, gs |-> <<>>]
               [] ofk = "Gargs" -> [prog |-> wtok \o CallTok(10, nS, TRUE) \o <<O("endchar")>>, ls |-> <<>>,
                                    gs |-> <<L(10, args \o <<O("return")>>)>>]
               [] ofk = "Lend"  -> [prog |-> wtok \o args \o CallTok(10, nS, FALSE), gs |-> <<>>,
                                    ls |-> <<L(10, <<O("endchar")>>)>>]
      text == "subrs-base-" \o bfk \o "+accent-" \o (IF same THEN "is-base" ELSE afk) \o "+hints-" \o h
              \o (IF cw THEN "+compwidth" ELSE "") \o "+outer-" \o ofk \o "+" \o charset
      feat == IF same THEN "component-subrs-same-glyph-twice"
              ELSE IF afk # "none" THEN "component-subrs-accent"
              ELSE IF bfk # "none" THEN "component-subrs-base"
              ELSE IF ofk # "plain" THEN "outer-subrs" ELSE "components-two-contours" IN
  { Case("seac", [text |-> text, feat |-> feat], "cff", out.prog,
         b.ls \o a.ls \o out.ls, b.gs \o a.gs \o out.gs, nS, nS,
         <<[i |-> GidByPos(chs, n, sb), t |-> b.prog]>>
           \o (IF same THEN <<>> ELSE <<[i |-> GidByPos(chs, n, sa), t |-> a.prog]>>),
         [cs |-> chs, n |-> n, gid |-> gid, wf |-> TRUE, cls |-> <<SidClass(chs, n, sb), SidClass(chs, n, sa)>>],
         NoVar, SeacPath(bpath, apath, adx, ady),
         \* step by step where one side is plain or both are factored alike, in one big step otherwise
         bfk = "none" \/ afk = "none" \/ bfk = afk) : b \in bF, a \in aF }

\* (b) the charset: formats 0, 1, 2 and the three predefined charsets x where the component's SID sits
\*     (first / later range; first, last, inner or only SID of its range; not in the font, next to a
\*     range or far from all) x several StandardEncoding codes.  Every glyph of the font has an outline
\*     of its own, so that a component taken from another glyph cannot go unnoticed.
SeacRangeLayouts ==
  [\* sorted ranges with gaps; nLeft 0 inside
   A |-> [ranges |-> << <<34, 2>>, <<66, 0>>, <<124, 7>>, <<145, 4>>, <<300, 1>> >>,
          present |-> {65, 66, 67, 97, 193, 194, 200, 245, 251},           \* A B C a grave acute dieresis dotlessi germandbls
          missing |-> {68, 64, 98, 202, 241, 48}],                         \* D @ b ring ae (next to a range), zero (far)
   \* ranges in no order, the first of one glyph; SIDs that follow one range's last SID (or precede its
   \* first) sit in another, non-neighbouring range
   B |-> [ranges |-> << <<125, 0>>, <<34, 1>>, <<126, 2>>, <<36, 1>>, <<33, 0>>, <<400, 0>> >>,
          present |-> {194, 65, 66, 195, 196, 197, 67, 68, 64},            \* acute A B circumflex tilde macron C D @
          missing |-> {193, 198, 69, 63, 97}],                             \* grave breve E ? (next to a range), a (far)
   \* a first range of 256 glyphs (the largest a format 1 range holds) / of 300 (format 2 only)
   C255 |-> [ranges |-> << <<500, 255>>, <<34, 2>>, <<124, 7>>, <<900, 0>> >>,
             present |-> {65, 67, 193, 200}, missing |-> {68}],
   C299 |-> [ranges |-> << <<500, 299>>, <<34, 2>>, <<124, 7>>, <<900, 0>> >>,
             present |-> {65, 67, 193, 200}, missing |-> {68}]]
RECURSIVE RangesGlyphs(_, _)
RangesGlyphs(ranges, i) == IF i > Len(ranges) THEN 0 ELSE ranges[i][2] + 1 + RangesGlyphs(ranges, i + 1)
\* format 0 lists the SID of every glyph: the same fonts with every range of one glyph
SingleRanges(ranges) == LET f == FlatRanges(ranges, 1) IN [i \in 1 .. Len(f) |-> <<f[i], 0>>]
SeacFonts ==
  [f1A |-> [fmt |-> "f1", l |-> "A"], f1B |-> [fmt |-> "f1", l |-> "B"], f1C255 |-> [fmt |-> "f1", l |-> "C255"],
   f2A |-> [fmt |-> "f2", l |-> "A"], f2B |-> [fmt |-> "f2", l |-> "B"], f2C255 |-> [fmt |-> "f2", l |-> "C255"],
   f2C299 |-> [fmt |-> "f2", l |-> "C299"], f0A |-> [fmt |-> "f0", l |-> "A"], f0B |-> [fmt |-> "f0", l |-> "B"]]
SeacFontNames == {"f1A", "f1B", "f1C255", "f2A", "f2B", "f2C255", "f2C299", "f0A", "f0B",
                  "iso229", "iso126", "expert166", "expert47", "expsub87", "expsub42"}
\* [cs, n, gid (the accented glyph), present, missing (codes)]
SeacFont(name) ==
  IF name \in DOMAIN SeacFonts
  THEN LET l == SeacRangeLayouts[SeacFonts[name].l]
           fmt == SeacFonts[name].fmt
           n == 1 + RangesGlyphs(l.ranges, 1) IN
       [cs |-> [fmt |-> fmt, ranges |-> IF fmt = "f0" THEN SingleRanges(l.ranges) ELSE l.ranges],
        n |-> n, gid |-> n - 1, present |-> l.present, missing |-> l.missing]
  ELSE CASE name = "iso229" -> [cs |-> IsoCs, n |-> 229, gid |-> 200, present |-> {65, 194, 251}, missing |-> {}]
         \* 126 glyphs: acute (SID 125) is the last glyph, circumflex (126) the first that is not there
         [] name = "iso126" -> [cs |-> IsoCs, n |-> 126, gid |-> 100, present |-> {65, 193, 194}, missing |-> {195, 251}]
         \* the Expert charsets hold few StandardEncoding names: space comma hyphen period fraction colon
         \* semicolon fi fl
         [] name = "expert166" -> [cs |-> [fmt |-> "expert", ranges |-> <<>>], n |-> 166, gid |-> 100,
                                   present |-> {32, 45, 164, 59, 175}, missing |-> {65}]
         \* 47 glyphs: fi is the last glyph, fl the first that is not there
         [] name = "expert47"  -> [cs |-> [fmt |-> "expert", ranges |-> <<>>], n |-> 47, gid |-> 30,
                                   present |-> {45, 174}, missing |-> {175, 65}]
         [] name = "expsub87"  -> [cs |-> [fmt |-> "expsub", ranges |-> <<>>], n |-> 87, gid |-> 50,
                                   present |-> {32, 44, 46, 164, 58, 174, 175}, missing |-> {65}]
         [] name = "expsub42"  -> [cs |-> [fmt |-> "expsub", ranges |-> <<>>], n |-> 42, gid |-> 30,
                                   present |-> {46, 174}, missing |-> {175, 65}]

\* the outline of glyph g of a charset font
GlyphPath(g) == <<[mv |-> <<(10 + g) * ONE, 0 - (3 + g) * ONE>>, segs |-> <<SegL((5 + g) * ONE, 0), SegL(0, (7 + 2 * g) * ONE)>>]>>
GlyphToks(g) == App("rmoveto", GlyphPath(g)[1].mv) \o App("hlineto", <<(5 + g) * ONE, (7 + 2 * g) * ONE>>) \o <<O("endchar")>>

SeacSetCodes(name) ==
  LET f == SeacFont(name)
      anchor == CHOOSE c \in f.present : \A d \in f.present : c <= d IN
  IF SeacFull THEN (f.present \cup f.missing) \X (f.present \cup f.missing)
  ELSE (f.present \X f.present) \cup {<<x, anchor>> : x \in f.missing} \cup {<<anchor, x>> : x \in f.missing}

\* (operator parameters are evaluated once, LET definitions at every reference: the font and the
\*  glyph ids are threaded through parameters)
SeacSetBuild(name, f, codes, ow, sb, sa, gb, ga, cb, ca) ==
  LET wf == gb >= 1 /\ ga >= 1
      adx == (200 + codes[1]) * ONE  ady == 0 - (20 + codes[2]) * ONE
      \* small fonts: every glyph; large ones: the components and their neighbours (any other glyph is empty)
      glyphs == SelectSeq(Ival(1, f.n - 1),
                          LAMBDA g : g # f.gid /\ (f.n <= 24 \/ (gb >= 1 /\ g >= gb - 1 /\ g <= gb + 1)
                                                             \/ (ga >= 1 /\ g >= ga - 1 /\ g <= ga + 1)))
      coarse == IF ~wf THEN "component-missing"
                ELSE IF Predefined(f.cs) THEN "present"
                ELSE IF RangeIdx(f.cs.ranges, sb, 1) > 1 \/ RangeIdx(f.cs.ranges, sa, 1) > 1 THEN "later-range"
                ELSE "first-range" IN
  { Case("seac", [text |-> "charset-" \o name \o "+" \o cb \o "+" \o ca \o (IF ow THEN "+width" ELSE "+nowidth"),
                  feat |-> "charset-" \o f.cs.fmt \o "-" \o coarse],
         "cff", SeacOuter(ow, adx, ady, codes), <<>>, <<>>, 0, 0,
         [k \in 1 .. Len(glyphs) |-> [i |-> glyphs[k], t |-> GlyphToks(glyphs[k])]],
         [cs |-> f.cs, n |-> f.n, gid |-> f.gid, wf |-> wf, cls |-> <<cb, ca>>],
         NoVar, IF wf THEN SeacPath(GlyphPath(gb), GlyphPath(ga), adx, ady) ELSE <<>>, TRUE) }
SeacSetWith(name, f, codes, ow, sb, sa) ==
  SeacSetBuild(name, f, codes, ow, sb, sa, GidByPos(f.cs, f.n, sb), GidByPos(f.cs, f.n, sa),
               SidClass(f.cs, f.n, sb), SidClass(f.cs, f.n, sa))
SeacSetCases(name, codes, ow) ==
  SeacSetWith(name, SeacFont(name), codes, ow, StdEncSid(codes[1]), StdEncSid(codes[2]))

\* ---- family "blend": CFF2 blend / vsindex at a variation tuple
Reg1 == << << <<<<0, 16384, 16384>>>>, <<<<-16384, -16384, 0>>>> >>,          \* IVD 0: two regions
           << <<<<0, 8192, 16384>>>> >> >>                                      \* IVD 1: one region
Reg2 == << << <<<<0, 16384, 16384>>, <<0, 0, 0>>>>,
              <<<<0, 0, 0>>, <<0, 16384, 16384>>>>,
              <<<<0, 16384, 16384>>, <<0, 16384, 16384>>>> >>,
           << <<<<-16384, -16384, 0>>, <<0, 8192, 16384>>>> >> >>
BlendTuples1 == {<<0>>, <<16384>>, <<8192>>, <<-16384>>, <<-8192>>, <<4096>>, <<12288>>}
BlendTuples2 == {<<0, 0>>, <<8192, 16384>>, <<8192, 8192>>, <<16384, -8192>>, <<-4096, 4096>>}
\* n operands with their deltas for k regions, followed by "n blend"
Blended(defs, k, seed) ==
  Nums(defs) \o Cat(LAMBDA i : [j \in 1 .. k |-> N(Sgn(i + j) * (3 * i + 5 * j + seed) * ONE)], Len(defs))
  \o <<N(Len(defs) * ONE), O("blend")>>
BlendCases(regions, tuple, vsmode, insub) ==
  LET ivd == IF vsmode = "none0" THEN 0 ELSE 1
      k == Len(regions[ivd + 1])
      pre == IF vsmode = "op1" THEN <<N(ONE), O("vsindex")>> ELSE <<>>
      first == Blended(<<40 * ONE, 0 - 25 * ONE>>, k, 1) \o <<O("rmoveto")>>
      \* insub: the first blends and the move live in a global subroutine (no return in CFF2),
      \* a later pair of blends in a local one that leaves its results on the stack
      pair == Blended(<<14 * ONE>>, k, 5) \o Blended(<<0 - 6 * ONE>>, k, 6)
      prog == pre \o (IF insub THEN CallTok(1, 3, TRUE) ELSE first)
              \o <<N(30 * ONE)>> \o Blended(<<0 - 12 * ONE>>, k, 2) \o <<O("rlineto")>>        \* blend of the top operand only
              \o Blended(<<9 * ONE, 17 * ONE, 0 - 8 * ONE, 21 * ONE, 33 * ONE, 0 - 5 * ONE>>, k, 3) \o <<O("rrcurveto")>>
              \o Blended(<<60 * ONE>>, k, 4) \o <<O("hmoveto")>>
              \o (IF insub THEN CallTok(0, 2, FALSE) ELSE pair) \o <<O("hlineto")>>
      var == [regions |-> regions, tuple |-> tuple, dvs |-> IF vsmode = "priv1" THEN 1 ELSE 0] IN
  { Case("blend", vsmode \o (IF insub THEN "+subr" ELSE ""), "cff2", prog,
         IF insub THEN <<[i |-> 0, t |-> pair]>> ELSE <<>>,
         IF insub THEN <<[i |-> 1, t |-> first]>> ELSE <<>>,
         IF insub THEN 2 ELSE 0, IF insub THEN 3 ELSE 0, <<>>, NoSeac, var, <<>>, TRUE) }

\* ---- family "misc": glyphs without a path, extreme numbers
MiscCases ==
  LET big == <<[mv |-> <<4096 * ONE, 0 - 4096 * ONE>>,
                 segs |-> <<SegL(4096 * ONE, 0 - 4096 * ONE), SegL(4095 * ONE, 0 - 4095 * ONE),
                            SegL(4000 * ONE + 256, 0 - 4000 * ONE - 65280), SegL(0 - 4096 * ONE, 4096 * ONE)>>]>>
      \* CFF2 allows 513 operands: thirteen curves in one hvcurveto / vhcurveto (52 and 53 operands)
      long(first) == <<[mv |-> <<V(1, 0, 1), V(1, 0, 2)>>,
                        segs |-> Cat(LAMBDA i : Blk(IF (i % 2 = 1) = first THEN (IF i = 13 THEN "Chx" ELSE "Chv")
                                                    ELSE (IF i = 13 THEN "Cvx" ELSE "Cvh"), 1, i), 13)]>>
      longop(first) == IF first THEN "hvcurveto" ELSE "vhcurveto"
      tiny == <<[mv |-> <<1, -1>>, segs |-> <<SegL(65535, -65535), SegL(ONE + 32768, 0 - 32768)>>]>>
      full(o) == <<[mv |-> <<V(1, 0, 1), V(1, 0, 2)>>, segs |-> FullSegs(o)]>>
      fullargs(o) == LongestArgs(FullOpName(o), FullSegs(o), 48)
      \* CFF2: 513 operands, the limit of the CFF2 charstring format, for one hlineto
      zig == <<[mv |-> <<V(1, 0, 1), V(1, 0, 2)>>,
                segs |-> [i \in 1 .. 513 |-> IF i % 2 = 1 THEN SegL(Sgn((i + 1) \div 2) * ((i % 5) + 1) * ONE, 0)
                                                         ELSE SegL(0, Sgn(i \div 2) * ((i % 7) + 1) * ONE)]]>>
      \* CFF2: a blend of n values over the two regions of Reg1's first ItemVariationData: 3 n + 1 operands,
      \* the n results drawn by one hlineto
      wide(n) == App("rmoveto", <<10 * ONE, 10 * ONE>>)
                 \o [i \in 1 .. n |-> N(Sgn(i) * ((i % 9) + 1) * ONE)]
                 \o Cat(LAMBDA i : <<N(Sgn(i + 1) * 2 * ((i % 3) + 1) * ONE), N(Sgn(i) * 4 * ((i % 2) + 1) * ONE)>>, n)
                 \o <<N(n * ONE), O("blend"), O("hlineto")>> IN
  UNION {
    { Case("misc", "cff-stack-48-" \o o, "cff",
           App("rmoveto", full(o)[1].mv) \o App(FullOpName(o), fullargs(o)) \o <<O("endchar")>>,
           <<>>, <<>>, 0, 0, <<>>, NoSeac, NoVar, full(o), TRUE) : o \in FullOps },
    \* 47 operands and the subroutine number are 48 entries; the subroutine pushes the last operand
    { Case("misc", "cff-stack-47-and-subr-number", "cff",
           App("rmoveto", full("hlineto")[1].mv) \o Nums(Front(fullargs("hlineto"))) \o CallTok(2, 5, FALSE) \o <<O("endchar")>>,
           <<[i |-> 2, t |-> <<N(Last(fullargs("hlineto"))), O("hlineto"), O("return")>>]>>, <<>>, 5, 0,
           <<>>, NoSeac, NoVar, full("hlineto"), TRUE) },
    { Case("misc", "cff2-513-operands", "cff2",
           App("rmoveto", zig[1].mv) \o App("hlineto", LongestArgs("hlineto", zig[1].segs, 513)),
           <<>>, <<>>, 0, 0, <<>>, NoSeac, NoVar, zig, TRUE) },
    { Case("misc", "cff2-blend-" \o (IF n = 85 THEN "256" ELSE "511") \o "-operands", "cff2", wide(n),
           <<>>, <<>>, 0, 0, <<>>, NoSeac, [regions |-> Reg1, tuple |-> t, dvs |-> 0], <<>>, TRUE) :
        n \in {85, 170}, t \in {<<8192>>, <<-8192>>, <<0>>} },
    { Case("misc", "space", k, END(k), <<>>, <<>>, 0, 0, <<>>, NoSeac, NoVar, <<>>, TRUE) : k \in {"cff", "cff2"} },
    { Case("misc", "space-w", "cff", <<N(250 * ONE), O("endchar")>>, <<>>, <<>>, 0, 0, <<>>, NoSeac, NoVar, <<>>, TRUE) },
    { Case("misc", "hints-only", k, StemsTok(0, 1) \o <<O("hstem")>> \o END(k), <<>>, <<>>, 0, 0, <<>>, NoSeac,
           NoVar, <<>>, TRUE) : k \in {"cff", "cff2"} },
    { Case("misc", "hints-only-w", "cff", <<N(250 * ONE)>> \o StemsTok(0, 1) \o <<O("hstem"), O("endchar")>>,
           <<>>, <<>>, 0, 0, <<>>, NoSeac, NoVar, <<>>, TRUE) },
    { Case("misc", "big", k, App("rmoveto", big[1].mv) \o AppsTokens(Compact(big[1].segs)) \o END(k),
           <<>>, <<>>, 0, 0, <<>>, NoSeac, NoVar, big, TRUE) : k \in {"cff", "cff2"} },
    { Case("misc", "cff2-" \o longop(f) \o "-53-operands", "cff2",
           App("rmoveto", long(f)[1].mv)
           \o App(longop(f), CHOOSE x \in Match(longop(f), long(f)[1].segs) : TRUE),
           <<>>, <<>>, 0, 0, <<>>, NoSeac, NoVar, long(f), TRUE) : f \in BOOLEAN },
    { Case("misc", "tiny", k, App("rmoveto", tiny[1].mv) \o AppsTokens(Compact(tiny[1].segs)) \o END(k),
           <<>>, <<>>, 0, 0, <<>>, NoSeac, NoVar, tiny, TRUE) : k \in {"cff", "cff2"} } }

---------------------------------------------------------------------------
\* Selections: Init picks one, Gen expands it into its cases
RECURSIVE SeqsUpTo(_, _)
SeqsUpTo(S, n) == IF n = 0 THEN {<<>>}
                  ELSE LET prev == SeqsUpTo(S, n - 1) IN
                       prev \cup {Append(s, x) : s \in {q \in prev : Len(q) = n - 1}, x \in S}
SeqsOfLen(S, n) == IF S = {} THEN {} ELSE {q \in SeqsUpTo(S, n) : Len(q) = n}
BlockSeqs(n) == SeqsUpTo(BlockKinds, n) \ {<<>>}
Kinds == {"cff", "cid", "cff2", "cff2fd"}
\* seac (c): quick - one side plain, or both sides factored alike; thorough - every pair
SeacSubPairs == IF SeacFull THEN CompFactorKinds \X CompFactorKinds
                ELSE {<<x, "none">> : x \in CompFactorKinds} \cup {<<"none", x>> : x \in CompFactorKinds}
                     \cup {<<x, x>> : x \in CompFactorKinds}
SeacSubHints == {"none", "hm9", "hmmid"}

Selections ==
       {[fam |-> "forms", kind |-> "cff", p |-> 1, ks |-> ks] : ks \in BlockSeqs(MaxBlocks)}
  \cup {[fam |-> "forms", kind |-> k, p |-> p, ks |-> ks] :
           k \in {"cff", "cff2"}, p \in 1 .. 4, ks \in BlockSeqs(MaxBlocksAll)}
  \cup {[fam |-> "forms", kind |-> "cff", p |-> 1, ks |-> ks] : ks \in SeqsOfLen(ExtraKinds, MaxBlocks + 1)}
  \cup {[fam |-> "forms", kind |-> k, p |-> p, ks |-> ks] :
           k \in {"cff", "cff2"}, p \in 1 .. 4, ks \in SeqsOfLen(ExtraKindsAll, MaxBlocksAll + 1)}
  \cup {[fam |-> "wrap", kind |-> k, pn |-> pn, w |-> w, h |-> h, fk |-> fk] :
           k \in Kinds, pn \in {"a", "h", "v"}, w \in BOOLEAN, h \in HintKinds, fk \in FactorKinds}
  \cup {[fam |-> "bias", kind |-> k, cnt |-> c, g |-> g] :
           k \in {"cff", "cid", "cff2"}, c \in {1, 2, 1239, 1240, 1241} \cup BigCounts, g \in BOOLEAN}
  \cup {[fam |-> "seac", codes |-> cd, charset |-> chs, ow |-> ow, cw |-> cw, chint |-> chint] :
           cd \in {<<65, 194>>, <<245, 194>>, <<105, 251>>}, chs \in {"iso", "custom"},
           ow \in BOOLEAN, cw \in BOOLEAN, chint \in {0, 1, 5}}
  \cup UNION { {[fam |-> "seacset", font |-> nm, codes |-> cd, ow |-> ow] :
                    cd \in SeacSetCodes(nm), ow \in (IF SeacFull THEN BOOLEAN ELSE {TRUE})} : nm \in SeacFontNames }
  \cup {[fam |-> "seacsub", codes |-> <<65, 194>>, charset |-> "iso", bfk |-> p[1], afk |-> p[2], h |-> h, cw |-> cw, ofk |-> "plain"] :
           p \in SeacSubPairs, h \in SeacSubHints, cw \in BOOLEAN}
  \cup {[fam |-> "seacsub", codes |-> <<65, 194>>, charset |-> chs, bfk |-> p[1], afk |-> p[2], h |-> h, cw |-> TRUE, ofk |-> ofk] :
           p \in (IF SeacFull THEN {q \in SeacSubPairs : "deep9" \notin {q[1], q[2]}}
                             ELSE {<<"none", "none">>, <<"Lop", "Gop">>, <<"nest2", "Lopr">>, <<"tail", "nest3">>}),
           h \in {"none", "hm9"}, ofk \in {"Gargs", "Lend"}, chs \in {"iso", "custom"}}
  \cup {[fam |-> "seacsub", codes |-> <<65, 65>>, charset |-> "iso", bfk |-> fk, afk |-> fk, h |-> h, cw |-> TRUE, ofk |-> "plain"] :
           fk \in CompFactorKinds, h \in {"none", "hmmid"}}
  \cup {[fam |-> "blend", regions |-> Reg1, tuple |-> t, vs |-> vs, insub |-> b] :
           t \in BlendTuples1, vs \in {"none0", "priv1", "op1"}, b \in BOOLEAN}
  \cup {[fam |-> "blend", regions |-> Reg2, tuple |-> t, vs |-> vs, insub |-> b] :
           t \in BlendTuples2, vs \in {"none0", "priv1", "op1"}, b \in BOOLEAN}
  \cup {[fam |-> "misc"]}

CasesOf(s) ==
  CASE s.fam = "forms" -> FormsCases(s.kind, s.p, s.ks)
    [] s.fam = "wrap"  -> WrapCases(s.kind, s.pn, s.w, s.h, s.fk)
    [] s.fam = "bias"  -> BiasCases(s.kind, s.cnt, s.g)
    [] s.fam = "seac"  -> SeacCases(s.codes, s.charset, s.ow, s.cw, s.chint)
    [] s.fam = "seacset" -> SeacSetCases(s.font, s.codes, s.ow)
    [] s.fam = "seacsub" -> SeacSubCases(s.codes, s.charset, s.bfk, s.afk, s.h, s.cw, s.ofk)
    [] s.fam = "blend" -> BlendCases(s.regions, s.tuple, s.vs, s.insub)
    [] s.fam = "misc"  -> MiscCases

---------------------------------------------------------------------------
Init == /\ ph = "sel"
        /\ cs \in Selections
        /\ m = InitM(<<>>)

Gen == /\ ph = "sel"
       /\ \E c \in CasesOf(cs) :
            /\ cs' = c
            /\ m' = InitM(TokBytes(c.prog))
       /\ ph' = "run"

Exec == /\ ph = "run"
        /\ m.halt = ""
        /\ m' = IF cs.small THEN Step(FC(cs), m) ELSE Run(FC(cs), m)
        /\ UNCHANGED <<ph, cs>>

Next == Gen \/ Exec
Spec == Init /\ [][Next]_vars

---------------------------------------------------------------------------
\* Design invariants
Running == ph = "run"
MachineOK ==
  Running => /\ StackBound(FC(cs), m) /\ DepthBound(m)
             /\ ContourState(m) /\ DoneClosed(m) /\ PointTracks(m)

\* every generated program is well formed, and means exactly the path it was built from
Halted == Running /\ m.halt # ""
FormOK ==
  Halted => /\ IF cs.wf THEN m.halt = "done"
               ELSE m.halt = "err" /\ m.why = "SeacGlyphMissing" /\ m.cmds = <<>>    \* a seac component the font lacks
            /\ (cs.path # <<>> => m.cmds = PathDenote(cs.path))
            /\ (cs.small => m = Run(FC(cs), InitM(TokBytes(cs.prog))))        \* small step = big step

\* the two readings of a charset agree: the glyph a SID names (SidToGid, what seac uses) is the glyph
\* whose SID it is (CharsetSids), and a SID the charset does not list names no glyph; the classes
\* printed with the case say the same as the well-formedness flag
CharsetAgree(c, sids) ==
  /\ Len(sids) = c.nGlyphs
  /\ \A g \in 0 .. c.nGlyphs - 1 : SidToGid(c.charset, c.nGlyphs, sids[g + 1]) = g
  /\ \A sid \in 1 .. 149 : (SidToGid(c.charset, c.nGlyphs, sid) = -1) = (PosIn(sids, sid, 1) = 0)
CharsetOK ==
  (Halted /\ cs.fam = "seac") =>
     /\ CharsetAgree(cs, TLCEval(CharsetSids(cs.charset, cs.nGlyphs)))
     /\ cs.wf = (\A k \in 1 .. 2 : cs.scls[k] \notin {"missing-adjacent", "missing-far"})
     /\ cs.gid < cs.nGlyphs /\ \A k \in 1 .. Len(cs.comps) : cs.comps[k].i \in 1 .. cs.nGlyphs - 1 /\ cs.comps[k].i # cs.gid

\* the number encodings decode to what was encoded (all forms of every number in the program)
RECURSIVE NumsOK(_)
NumsOK(ts) ==
  ts = <<>> \/
  /\ LET t == Head(ts) IN
     "n" \in DOMAIN t =>
        \A f \in NumForms(t.n) :
           LET b == EncNum(t.n, f) IN
           IsNumByte(b[1]) /\ NumLen(b[1]) = Len(b) /\ NumVal(b, 1) = t.n
  /\ NumsOK(Tail(ts))
EncodingsOK == (Running /\ m.halt = "" /\ Len(m.cmds) = 0 /\ m.stack = <<>>) => NumsOK(cs.prog)

\* the generated cases stay where single precision arithmetic (what allsorts computes with) is exact
RECURSIVE ToksExact(_)
ToksExact(ts) == ts = <<>> \/ (("n" \in DOMAIN Head(ts) => F32Exact(Head(ts).n)) /\ ToksExact(Tail(ts)))
GenExact ==
  Halted => /\ ToksExact(cs.prog)
            /\ \A k \in 1 .. Len(m.cmds) : \A j \in 1 .. Len(m.cmds[k].p) : F32Exact(m.cmds[k].p[j])

\* What the replay compares with: the delivered commands of a well-formed program; for a program the
\* machine rejects (only: a seac component the font lacks) just that it is rejected - which error a
\* conforming interpreter reports is not prescribed
ExpOutcome(mm) == IF mm.halt = "done" THEN Outcome(mm)
                  ELSE [ok |-> FALSE, why |-> "rejected", cmds |-> <<>>, rounded |-> FALSE]

\* Generator: one CASE per halted machine
EmitCase ==
  Halted =>
    PrintT(<<"CASE", ToJson([fam |-> cs.fam, tag |-> cs.tag, feat |-> cs.feat, kind |-> cs.kind, prog |-> cs.prog,
                             lsubrs |-> cs.lsubrs, gsubrs |-> cs.gsubrs, nL |-> cs.nL, nG |-> cs.nG,
                             comps |-> cs.comps, charset |-> cs.charset, nGlyphs |-> cs.nGlyphs, gid |-> cs.gid,
                             wf |-> cs.wf, scls |-> cs.scls,
                             regions |-> cs.regions, tuple |-> cs.tuple, dvs |-> cs.dvs,
                             stats |-> [maxStack |-> m.maxStack, maxDepth |-> m.maxDepth, nStems |-> m.nStems,
                                        width |-> m.width # <<>>,
                                        retBase |-> m.compRet[1], retAcc |-> m.compRet[2]],
                             exp |-> ExpOutcome(m)])>>)

\* the bias thresholds of TN5176 section 16 (checked by TLC before the exploration starts)
ASSUME /\ Bias(0) = 107 /\ Bias(1239) = 107 /\ Bias(1240) = 1131
       /\ Bias(33899) = 1131 /\ Bias(33900) = 32768 /\ Bias(65535) = 32768

NoKinds     == {}
\* the blocks whose runs grow new argument patterns with length: alternating h/v lines and curves, the
\* odd final argument of hvcurveto / vhcurveto, line/curve splits
LongKinds   == {"Lh", "Lv", "Lg", "Cg", "Chv", "Cvh", "Chx", "Cvx"}
BigQuick    == {33899, 33900}
BigThorough == {33899, 33900, 33901, 65535}
=============================================================================
