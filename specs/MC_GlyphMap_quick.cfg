CONSTANTS
  FontList <- FontListQuick
  MaxLen <- MaxLenQuick
  ShortLen = 3
  Core <- CoreQuick
  Alphabet <- AlphabetQuick
  SeqFonts <- SeqFontsQuick
  SeqOps <- SeqOpsQuick
  MaxOps = 3
  NotRequiredTables <- NrtQuick
SPECIFICATION Spec
INVARIANTS SmallStepIsClosedForm Lemmas FontsWellFormed Emit
CHECK_DEADLOCK FALSE
