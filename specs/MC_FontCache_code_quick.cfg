CONSTANTS
  CodeKeys = TRUE
  HasFV = TRUE
  HasImages = TRUE
  MaxDepth = 3
SPECIFICATION Spec
VIEW View
INVARIANTS ModelExact EmitCase
CHECK_DEADLOCK FALSE
