CONSTANTS
  CodeKeys = TRUE
  HasFV = TRUE
  HasImages = TRUE
  StoreFailed = FALSE
  PosKeyMode = "abs"
  IdxKeyMode = "abs"
  ImgKeepMode = "none"
  LookupsCap = 0
  FailKeep = FALSE
  RegionMemo = FALSE
  NegCache = FALSE
  SubMRU = FALSE
  MaxDepth = 3
  MaxDepthDmg = 2
  MaxDepthCollide = 2
  Families = {"intact", "dmg", "collide", "img", "fill", "scopes", "var", "strike", "pairs"}
  ImgCounts = {2, 3}
  ImgFilterMode = "own"
  MaxImgFilters = 3
  FillKeys = 150
  FillLangs = 100
  FillLookups = 150
  MaxDepthVar = 2
  VarTuples = {"t0", "tA", "tB", "tC"}
  MaxDepthScopes = 2
  MaxDepthStrike = 2
  MaxDepthPairs = 2
SPECIFICATION Spec
VIEW View
INVARIANTS ModelExact EmitCase
CHECK_DEADLOCK FALSE
