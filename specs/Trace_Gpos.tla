---------------------------- MODULE Trace_Gpos ----------------------------
(***************************************************************************)
(* Trace judge for glyph positioning (impl -> spec), C05.                  *)
(* Every recorded "Shape" event carries an abstract positioning program,   *)
(* a glyph string and what allsorts returned for it: the infos after       *)
(* `Font::shape` and the raw GlyphPositions of `GlyphLayout` for both text *)
(* directions.  The judge recomputes the semantics:                        *)
(*   - the infos must be one of Gpos!Outcomes (any reading of the named    *)
(*     Dev_ choices),                                                      *)
(*   - the glyph origins and the total advance derived from the raw        *)
(*     positions must equal Position!Canon of those infos.                 *)
(* Judging style: Next is always enabled, a non-conforming event prints a  *)
(* MISMATCH line, the rest of the trace is still examined.                 *)
(***************************************************************************)
EXTENDS Gpos, Position, Json, IOUtils, SequencesExt

Rec == ndJsonDeserialize(IOEnv.TRACE)

VARIABLE l

Report(e, stage, want, got) ==
  PrintT(<<"MISMATCH", ToJson([i |-> e.i, case |-> e.case, stage |-> stage, want |-> want, got |-> got, known |-> ""])>>)
\* infos outside Outcomes: `known` names the known deviation of allsorts that gives exactly these infos, if any
ReportInfos(e, outs) ==
  PrintT(<<"MISMATCH", ToJson([i |-> e.i, case |-> e.case, stage |-> "infos", want |-> SetToSeq(outs), got |-> e.o.infos,
                               known |-> KnownKey(e.a.prog, e.a.in, outs, e.o.infos)])>>)

JudgePos(e, dir, raw) ==
  LET want == Canon(e.o.infos, e.a.prog.adv, dir)
      got  == CanonOfRaw(raw, dir) IN
  IF want = got THEN TRUE ELSE Report(e, "pos-" \o dir, want, got)

Judge(e) ==
  LET outs == Outcomes(e.a.prog, e.a.in) IN
  IF \E o \in outs : ~Modelled(o)
  THEN PrintT(<<"UNMODELLED", ToJson([i |-> e.i, why |-> "program leaves the modelled fragment"])>>)
  ELSE IF e.o.err # "" THEN Report(e, "error", "Ok", e.o.err)
  ELSE IF e.o.infos \notin outs THEN ReportInfos(e, outs)
  ELSE IF ~PosWF(e.o.infos)
  THEN PrintT(<<"UNMODELLED", ToJson([i |-> e.i, why |-> "attachment structure outside Position"])>>)
  ELSE /\ JudgePos(e, "ltr", e.o.ltr)
       /\ JudgePos(e, "rtl", e.o.rtl)

TInit == l = 1

TNext ==
  /\ l <= Len(Rec)
  /\ l' = l + 1
  /\ LET e == Rec[l] IN
     IF e.ev = "Shape" THEN Judge(e)
     ELSE PrintT(<<"UNMODELLED", ToJson([i |-> e.i, why |-> e.ev])>>)

TSpec == TInit /\ [][TNext]_l

AllConsumed == TLCGet("stats").diameter = Len(Rec) + 1
=============================================================================
