-------------------------- MODULE Trace_GlyphNames --------------------------
(***************************************************************************)
(* Trace judge for glyph naming (impl -> spec, X03).  Judging style: Next  *)
(* is always enabled, a non-conforming event prints a MISMATCH line.       *)
(*   LoadNames  the font's post table as decoded by the harness' own       *)
(*              reader, the encoding of the selected cmap sub-table        *)
(*   Names      Font::glyph_names(ids): ids, the first code the selected   *)
(*              sub-table lists for each id (decoded by the harness' own   *)
(*              cmap reader; -1 none, -2 sub-table not decoded), the names *)
(***************************************************************************)
EXTENDS GlyphNames, Json, IOUtils, SequencesExt

Rec == ndJsonDeserialize(IOEnv.TRACE)

VARIABLES l, li, readable
tvars == <<l, li, readable>>

\* the readings that can matter for this table
DevsFor(post, enc, rd) ==
  {d \in Devs : /\ (rd \/ post.ver # 2 => d.poison)
                /\ (post.ver # 25 => ~d.v25)
                /\ (enc # "AppleRoman" => d.macpdf)}

NatOf(post, enc, rd, ids, codes, dev) ==
  [q \in 1 .. Len(ids) |-> Pick(ids[q], PostNameR(post, rd, ids[q], dev), CodeName(codes[q], enc, dev))]

NatCode(post, enc, rd, ids, codes) ==
  [q \in 1 .. Len(ids) |-> IF EmptyCustom(post, rd, ids[q]) THEN ""
                           ELSE Pick(ids[q], PostNameR(post, rd, ids[q], CodeDev), CodeName(codes[q], enc, CodeDev))]

\* positions whose natural name is determined (the sub-table was decoded, or post names the glyph)
Judge(e) ==
  LET ld == Rec[li].a
      ids == e.a.ids  codes == e.a.codes  out == e.o.names
      known == \A q \in 1 .. Len(codes) : codes[q] # -2
      D == DevsFor(ld.post, ld.enc, readable)
  IN
  IF Len(out) # Len(ids) THEN "length"
  ELSE IF known
  THEN IF \E dev \in D : out = Unique(NatOf(ld.post, ld.enc, readable, ids, codes, dev)) THEN "ok"
       ELSE IF out = CodeUnique(NatCode(ld.post, ld.enc, readable, ids, codes))
            THEN (IF \E q \in 1 .. Len(ids) : EmptyCustom(ld.post, readable, ids[q]) THEN "post:empty-string-name" ELSE "unique:alt-collision")
       ELSE "names"
  ELSE \* cmap not decoded: only glyphs that post names are constrained
       IF \E dev \in D :
            /\ \A q \in 1 .. Len(ids) :
                 LET pn == PostNameR(ld.post, readable, ids[q], dev) IN
                 (ids[q] # 0 /\ pn # "" /\ pn # ".notdef") => (out[q] = pn \/ \E kk \in 1 .. Len(ids) : out[q] = Alt(pn, kk))
            /\ \A a \in 1 .. Len(out), b \in 1 .. Len(out) : a # b => out[a] # out[b]
       THEN "ok" ELSE "names"

FirstDiff(a, b) == LET K == {q \in 1 .. Len(a) : q > Len(b) \/ a[q] # b[q]} IN IF K = {} THEN 0 ELSE Min(K)

TInit == l = 1 /\ li = 0 /\ readable = TRUE

TNext ==
  /\ l <= Len(Rec)
  /\ l' = l + 1
  /\ LET e == Rec[l] IN
     IF e.ev = "LoadNames"
     THEN /\ li' = l
          /\ readable' = V2Readable(e.a.post)
     ELSE /\ UNCHANGED <<li, readable>>
          /\ IF e.ev = "Names"
             THEN LET v == Judge(e) IN
                  IF v = "ok" THEN TRUE
                  ELSE LET ld == Rec[li].a
                           want == Unique(NatOf(ld.post, ld.enc, readable, e.a.ids, e.a.codes, CodeDev))
                           d == IF Len(e.o.names) = Len(want) THEN FirstDiff(want, e.o.names) ELSE 0 IN
                       PrintT(<<"MISMATCH", ToJson([i |-> e.i, case |-> e.case, ev |-> e.ev, class |-> v,
                                                    post |-> ld.post.ver, enc |-> ld.enc, pos |-> d,
                                                    id |-> IF d > 0 THEN e.a.ids[d] ELSE -1,
                                                    want |-> IF d > 0 THEN want[d] ELSE "",
                                                    got |-> IF d > 0 THEN e.o.names[d] ELSE "",
                                                    note |-> e.o.note])>>)
             ELSE PrintT(<<"UNMODELLED", e.ev>>)

TSpec == TInit /\ [][TNext]_tvars

AllConsumed == TLCGet("stats").diameter = Len(Rec) + 1
=============================================================================
