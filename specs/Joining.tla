------------------------------ MODULE Joining ------------------------------
(***************************************************************************)
(* X02 - the joining state machines of the Arabic and Syriac shapers       *)
(* (allsorts src/scripts/arabic.rs gsub_apply_arabic, syriac.rs            *)
(* gsub_apply_syriac): which positional feature (isol / init / medi / fina *)
(* and Syriac's med2 / fin2 / fin3) every glyph of a run receives, and the *)
(* order in which the shaper applies its feature stages.                   *)
(*                                                                         *)
(* A run is a sequence of glyph classes  [jt, jg]:                         *)
(*    jt  Unicode Joining_Type  U non-joining, R right-joining, D dual-    *)
(*        joining, C join-causing, L left-joining, T transparent           *)
(*    jg  the two Joining_Groups the Syriac rules mention: "alaph", "dr"   *)
(*        (DALATH RISH), else "none"                                       *)
(* The class of a code point comes from the table the driver dumps from    *)
(* the `unicode-joining-type` crate before TLC starts (env X02_JT): the    *)
(* table is an INPUT, its USE is what is specified here.                   *)
(*                                                                         *)
(* Three formulations, checked against each other by MC_Joining:           *)
(*   1. the small-step machine `Step` : one transition per glyph, left to  *)
(*      right, state = (forms so far, machine state 0..6, index of the     *)
(*      previous non-transparent glyph).  It may revise the form of the    *)
(*      previous letter (isol -> init, fina -> medi, fina -> med2,         *)
(*      fin2/fin3 -> isol) and nothing else.  The table is the one used by *)
(*      the reference shapers (Unicode ch. 9.2 rules R1-R7 for Arabic; the *)
(*      OpenType feature registry texts of fina/fin2/fin3/med2 for ALAPH). *)
(*   2. the closed form `Acc` : the form of glyph i is a function of the   *)
(*      class of the previous and next non-transparent glyph.              *)
(*   3. the stage model `ShapeOnFont` : the shaper applies its feature     *)
(*      stages in a fixed order; a stage is global or masked to the glyphs *)
(*      that carry that positional form.  It runs on the specification's   *)
(*      own font (`FontDelta`): every glyph carries the sequence of        *)
(*      features that fired on it, a feature firing out of order leads to  *)
(*      an absorbing ERR state.  MC_Joining prints that font (FONT line)   *)
(*      and the harness encodes it into a real GSUB table.                 *)
(*                                                                         *)
(* Named nondeterminism (both readings conform):                           *)
(*   Dev_NonJoiningForm  a non-joining (U) glyph is tagged "isol" (the     *)
(*        OpenType shaping documents allsorts follows; what the code does) *)
(*        or gets no positional feature (HarfBuzz).  One reading per run.  *)
(*   Dev_LoneAlaph       an ALAPH that is a word on its own (nothing, or a *)
(*        non-joining glyph, precedes it; nothing or a non-joining glyph   *)
(*        follows) is "isol" (HarfBuzz) or "fin2" (registry text read      *)
(*        literally: 'the preceding base character cannot be joined to').  *)
(*        Chosen per position.                                             *)
(*                                                                         *)
(* Named DEFECT readings (not conformant; they exist so that the judge can *)
(* name the root cause of a mismatch with a stable key.  An observation is *)
(* attributed to a set S of defects only if the WHOLE observed run equals  *)
(* the model with exactly the readings S):                                 *)
(*   tIsol           a transparent glyph is tagged "isol" instead of       *)
(*                   carrying no positional feature                        *)
(*   alaphRunFinal   the word-final ALAPH rules (fina / fin2 / fin3) are   *)
(*                   applied to the last letter of the RUN only (and not   *)
(*                   at index 0); an ALAPH ending an earlier word keeps    *)
(*                   med2 / isol                                           *)
(*   alaphPrevGlyph  the word-final ALAPH rules look at the glyph at index *)
(*                   i-1 even when it is transparent, instead of the       *)
(*                   previous non-transparent glyph                        *)
(***************************************************************************)
EXTENDS Integers, Sequences, SequencesExt, FiniteSets, FiniteSetsExt, TLC, Json, IOUtils

\* ---- the class table (input) -------------------------------------------------
\* [lo |-> first code point of the dense block, dense |-> <<[jt, jg] of lo, of lo+1, ...>>,
\*  extra |-> <<<<cp, jt, jg>>, ...>>] : the class of every code point of the universe (the
\* characters the synthesized fonts map); written by the driver from the dump of the
\* unicode-joining-type crate (env X02_JT).
JtFile  == JsonDeserialize(IOEnv.X02_JT)
JtDense == JtFile.dense
JtLo    == JtFile.lo
JtExtra == JtFile.extra
ExtraCps == {JtExtra[i][1] : i \in DOMAIN JtExtra}
Universe == (JtLo .. JtLo + Len(JtDense) - 1) \cup ExtraCps
ClassOfCp(c) ==
  IF c >= JtLo /\ c < JtLo + Len(JtDense)
  THEN [jt |-> JtDense[c - JtLo + 1][1], jg |-> JtDense[c - JtLo + 1][2]]
  ELSE LET i == CHOOSE i \in DOMAIN JtExtra : JtExtra[i][1] = c
       IN [jt |-> JtExtra[i][2], jg |-> JtExtra[i][3]]

\* ZWNJ and ZWJ take part in joining (U and C) and are removed from the shaped run afterwards
\* (gsub.rs strip_joiners); the font does not substitute them
Joiners == {8204, 8205}

---------------------------------------------------------------------------
\* ---- glyph classes --------------------------------------------------------------
JTs == {"U", "R", "D", "C", "L", "T"}
G(jt, jg) == [jt |-> jt, jg |-> jg]

IsT(g) == g.jt = "T"
IsU(g) == g.jt = "U"
JoinsNext(g) == g.jt \in {"L", "D", "C"}    \* joins to the FOLLOWING glyph (is_left_joining: RTL)
JoinsPrev(g) == g.jt \in {"R", "D", "C"}    \* joins to the PRECEDING glyph (is_right_joining)

Scripts == {"arab", "syrc"}
\* the Arabic shaper does not know joining groups: ALAPH in an `arab` run is a plain R letter
IsAlaph(sc, g) == sc = "syrc" /\ g.jg = "alaph"
IsDR(sc, g)    == sc = "syrc" /\ g.jg = "dr"

PosForms(sc) == IF sc = "arab" THEN {"isol", "fina", "medi", "init"}
                ELSE {"isol", "fina", "fin2", "fin3", "medi", "med2", "init"}

NT(run) == {i \in DOMAIN run : ~IsT(run[i])}
PrevNT(run, i) == LET s == {j \in NT(run) : j < i} IN IF s = {} THEN 0 ELSE Max(s)
NextNT(run, i) == LET s == {j \in NT(run) : j > i} IN IF s = {} THEN 0 ELSE Min(s)

---------------------------------------------------------------------------
\* ---- 2. closed form ---------------------------------------------------------------
\* a run with its neighbour indices tabulated once (c.pv[i] = PrevNT(c.run, i), ...)
LastLetter(run) == LET s == {j \in DOMAIN run : ~IsT(run[j]) /\ ~IsU(run[j])}
                   IN IF s = {} THEN 0 ELSE Max(s)
\* (TLCEval: TLC keeps [i \in S |-> e] as an unevaluated lambda and would recompute e at every
\* application; forcing it turns the function into a tuple)
Ctx(run0) == LET run == TLCEval(run0)
             IN [run  |-> run,
                 pv   |-> TLCEval([i \in DOMAIN run |-> PrevNT(run, i)]),
                 nx   |-> TLCEval([i \in DOMAIN run |-> NextNT(run, i)]),
                 last |-> LastLetter(run)]

JoinedPrev(c, i) == LET p == c.pv[i] IN p # 0 /\ JoinsNext(c.run[p]) /\ JoinsPrev(c.run[i])
JoinedNext(c, i) == LET n == c.nx[i] IN n # 0 /\ JoinsNext(c.run[i]) /\ JoinsPrev(c.run[n])

ArabForm(c, i) ==
  LET jp == JoinedPrev(c, i)
      jn == JoinedNext(c, i)
  IN IF jp /\ jn THEN "medi" ELSE IF jp THEN "fina" ELSE IF jn THEN "init" ELSE "isol"

\* a word is a maximal sequence of glyphs that are not non-joining (transparent ones inside)
WordFinalC(c, i) == LET n == c.nx[i] IN n = 0 \/ IsU(c.run[n])
WordFinal(run, i) == LET n == NextNT(run, i) IN n = 0 \/ IsU(run[n])

Defects == {"tIsol", "alaphRunFinal", "alaphPrevGlyph"}

\* attribution: the first set of defect readings, in this order (smallest first), under which an
\* observation conforms; 0 if none
OrderedDefectSets ==
  << {}, {"tIsol"}, {"alaphRunFinal"}, {"alaphPrevGlyph"}, {"tIsol", "alaphRunFinal"},
     {"tIsol", "alaphPrevGlyph"}, {"alaphRunFinal", "alaphPrevGlyph"}, Defects >>
FirstOk(Ok(_)) == LET ks == {k \in DOMAIN OrderedDefectSets : Ok(OrderedDefectSets[k])}
                  IN IF ks = {} THEN 0 ELSE Min(ks)

\* forms acceptable for the ALAPH at i (a set: two elements only for Dev_LoneAlaph)
AlaphAcc(S, c, i) ==
  LET final == IF "alaphRunFinal" \in S THEN i = c.last /\ i # 1 ELSE WordFinalC(c, i)
      q     == IF "alaphPrevGlyph" \in S THEN i - 1 ELSE c.pv[i]
  IN IF final
     THEN IF q # 0 /\ JoinsNext(c.run[q])        THEN {"fina"}
          ELSE IF q # 0 /\ c.run[q].jg = "dr"    THEN {"fin3"}
          ELSE IF q = 0 \/ IsU(c.run[q])         THEN {"isol", "fin2"}     \* = Dev_LoneAlaph
          ELSE {"fin2"}
     ELSE IF JoinedPrev(c, i) THEN {"med2"} ELSE {"isol"}

\* forms acceptable for glyph i under defect readings S and Dev_NonJoiningForm = u
Acc(S, u, sc, c, i) ==
  IF IsT(c.run[i])             THEN {IF "tIsol" \in S THEN "isol" ELSE "none"}
  ELSE IF IsU(c.run[i])        THEN {u}
  ELSE IF IsAlaph(sc, c.run[i]) THEN AlaphAcc(S, c, i)
  ELSE {ArabForm(c, i)}

\* the two named deviations (see the header)
Dev_NonJoiningForm == {"isol", "none"}
Dev_LoneAlaph      == {"isol", "fin2"}
UReadings == Dev_NonJoiningForm
\* the reading printed first: what the documents allsorts follows say (U -> isol; a lone
\* ALAPH -> isol, or fin2 where a defect reading of the ALAPH rule is in force)
Primary(S, u, sc, c, i) ==
  LET a == Acc(S, u, sc, c, i)
  IN IF Cardinality(a) = 1 THEN CHOOSE x \in a : TRUE
     ELSE IF S \cap {"alaphRunFinal", "alaphPrevGlyph"} = {} THEN "isol" ELSE "fin2"
FormsOfC(S, u, sc, c) == TLCEval([i \in DOMAIN c.run |-> Primary(S, u, sc, c, i)])
FormsOf(S, u, sc, run) == FormsOfC(S, u, sc, Ctx(run))
LonePos(S, sc, c) == {i \in DOMAIN c.run : Cardinality(Acc(S, "isol", sc, c, i)) = 2}
\* every conformant assignment of forms to the run
AllFormsC(S, sc, c) ==
  LET lone == LonePos(S, sc, c)
  IN {[i \in DOMAIN c.run |-> IF i \in lone THEN ch[i] ELSE IF IsU(c.run[i]) THEN u ELSE f[i]] :
         u \in UReadings, ch \in [lone -> Dev_LoneAlaph], f \in {FormsOfC(S, "isol", sc, c)}}
AllForms(S, sc, run) == AllFormsC(S, sc, Ctx(run))

---------------------------------------------------------------------------
\* ---- 1. the small-step machine -------------------------------------------------------
\* column of the transition table
Col(sc, g) == CASE IsU(g)                -> "U"
                [] g.jt = "L"            -> "L"
                [] g.jt \in {"D", "C"}   -> "D"
                [] IsAlaph(sc, g)        -> "A"
                [] IsDR(sc, g)           -> "X"
                [] OTHER                 -> "R"
E(p, c, n) == [prev |-> p, cur |-> c, next |-> n]     \* "-" = leave the previous form alone
\* states: 0 previous was non-joining / start        1 previous R-type letter, not joining on
\*         2 previous D/L letter in isol/init form   3 previous D letter in fina/medi form
\*         4 previous ALAPH in fina form             5 previous ALAPH in fin2/fin3 form
\*         6 previous DALATH RISH
Table ==
  [s \in 0 .. 6 |->
    CASE s = 0 -> [U |-> E("-", "u", 0), L |-> E("-", "isol", 2), R |-> E("-", "isol", 1),
                   D |-> E("-", "isol", 2), A |-> E("-", "isol", 1), X |-> E("-", "isol", 6)]
      [] s = 1 -> [U |-> E("-", "u", 0), L |-> E("-", "isol", 2), R |-> E("-", "isol", 1),
                   D |-> E("-", "isol", 2), A |-> E("-", "fin2", 5), X |-> E("-", "isol", 6)]
      [] s = 2 -> [U |-> E("-", "u", 0), L |-> E("-", "isol", 2), R |-> E("init", "fina", 1),
                   D |-> E("init", "fina", 3), A |-> E("init", "fina", 4), X |-> E("init", "fina", 6)]
      [] s = 3 -> [U |-> E("-", "u", 0), L |-> E("-", "isol", 2), R |-> E("medi", "fina", 1),
                   D |-> E("medi", "fina", 3), A |-> E("medi", "fina", 4), X |-> E("medi", "fina", 6)]
      [] s = 4 -> [U |-> E("-", "u", 0), L |-> E("med2", "isol", 2), R |-> E("med2", "isol", 1),
                   D |-> E("med2", "isol", 2), A |-> E("med2", "fin2", 5), X |-> E("med2", "isol", 6)]
      [] s = 5 -> [U |-> E("-", "u", 0), L |-> E("isol", "isol", 2), R |-> E("isol", "isol", 1),
                   D |-> E("isol", "isol", 2), A |-> E("isol", "fin2", 5), X |-> E("isol", "isol", 6)]
      [] s = 6 -> [U |-> E("-", "u", 0), L |-> E("-", "isol", 2), R |-> E("-", "isol", 1),
                   D |-> E("-", "isol", 2), A |-> E("-", "fin3", 5), X |-> E("-", "isol", 6)]]

M0 == [forms |-> <<>>, st |-> 0, prev |-> 0]
\* one glyph: the only action of the machine (u = Dev_NonJoiningForm)
Step(sc, u, m, g) ==
  IF IsT(g) THEN [m EXCEPT !.forms = Append(@, "none")]
  ELSE LET e  == Table[m.st][Col(sc, g)]
           f1 == IF e.prev = "-" \/ m.prev = 0 THEN m.forms ELSE [m.forms EXCEPT ![m.prev] = e.prev]
       IN [forms |-> Append(f1, IF e.cur = "u" THEN u ELSE e.cur),
           st    |-> e.next,
           prev  |-> Len(m.forms) + 1]

---------------------------------------------------------------------------
\* ---- design invariants of a form assignment f of a run --------------------------------
TransparentNever(run, f)  == \A i \in DOMAIN run : IsT(run[i]) => f[i] = "none"
FormsOfScript(sc, run, f) == \A i \in DOMAIN run : f[i] \in PosForms(sc) \cup {"none"}
\* a form that needs a neighbour has one that joins on that side
NeedsNeighbour(sc, run, f) ==
  \A i \in DOMAIN run :
     LET p == PrevNT(run, i)
         n == NextNT(run, i)
     IN /\ f[i] \in {"init", "medi"} => n # 0 /\ JoinsNext(run[i]) /\ JoinsPrev(run[n])
        /\ f[i] \in {"fina", "medi", "med2"} => p # 0 /\ JoinsNext(run[p]) /\ JoinsPrev(run[i])
        /\ f[i] \in {"med2", "fin2", "fin3"} => IsAlaph(sc, run[i])
        /\ f[i] = "fin3" => p # 0 /\ IsDR(sc, run[p])
        /\ f[i] = "fin2" => (p = 0 \/ IsU(run[p])) \/ (~JoinsNext(run[p]) /\ ~IsDR(sc, run[p]))
        /\ f[i] \in {"fin2", "fin3"} \/ (f[i] = "fina" /\ IsAlaph(sc, run[i])) => WordFinal(run, i)
        /\ f[i] = "med2" => ~WordFinal(run, i)
\* if x joins to the following y then y joins to the preceding x, and conversely
AdjacentConsistent(run, f) ==
  \A i \in NT(run) : LET p == PrevNT(run, i)
                     IN p # 0 => ((f[p] \in {"init", "medi"}) <=> (f[i] \in {"fina", "medi", "med2"}))
DesignOK(sc, run, f) ==
  /\ TransparentNever(run, f)
  /\ FormsOfScript(sc, run, f)
  /\ NeedsNeighbour(sc, run, f)
  /\ AdjacentConsistent(run, f)

---------------------------------------------------------------------------
\* ---- 3. stage order -----------------------------------------------------------------------
\* (arabic.rs: ccmp | joining | LANGUAGE_FEATURES | TYPOGRAPHIC_FEATURES;  syriac.rs alike)
St(f, g) == [f |-> f, global |-> g]
\* (zero-arity definitions, tabulated by script: TLC evaluates them once)
StagesTab ==
  [arab |-> << St("ccmp", TRUE), St("locl", TRUE),
               St("isol", FALSE), St("fina", FALSE), St("medi", FALSE), St("init", FALSE),
               St("rlig", TRUE), St("rclt", TRUE), St("calt", TRUE),
               St("liga", TRUE), St("mset", TRUE) >>,
   syrc |-> << St("ccmp", TRUE), St("locl", TRUE),
               St("isol", FALSE), St("fina", FALSE), St("fin2", FALSE), St("fin3", FALSE),
               St("medi", FALSE), St("med2", FALSE), St("init", FALSE),
               St("rlig", TRUE), St("calt", TRUE),
               St("liga", TRUE) >>]
Stages(sc) == StagesTab[sc]
StageNamesTab == [arab |-> TLCEval([k \in DOMAIN StagesTab.arab |-> StagesTab.arab[k].f]),
                  syrc |-> TLCEval([k \in DOMAIN StagesTab.syrc |-> StagesTab.syrc[k].f])]
StageNames(sc) == StageNamesTab[sc]
StageIdx(sc, f) == CHOOSE k \in DOMAIN Stages(sc) : Stages(sc)[k].f = f
\* features present in the font that the shaper must NOT apply by default
ExtraFeatures(sc) == IF sc = "arab" THEN <<"clig", "dlig", "cswh">> ELSE <<"clig", "dlig">>
\* every feature of the font; feature k is implemented by lookup LookupOf(sc, k): the lookup list
\* is in the REVERSE of the stage order, so that applying lookups in lookup-list order is wrong
FontFeaturesTab == [arab |-> StageNamesTab.arab \o ExtraFeatures("arab"),
                    syrc |-> StageNamesTab.syrc \o ExtraFeatures("syrc")]
FontFeatures(sc) == FontFeaturesTab[sc]
FeatIdx(sc, f)   == CHOOSE k \in DOMAIN FontFeatures(sc) : FontFeatures(sc)[k] = f
LookupOf(sc, k)  == Len(FontFeatures(sc)) - k

\* language systems of the font: the first is the default LangSys
Ls(tag, feats) == [tag |-> tag, feats |-> feats]
Rng(s) == {s[i] : i \in DOMAIN s}
LangsTab ==
  [arab |-> << Ls("dflt", Rng(FontFeaturesTab.arab)),
               Ls("URD ", {"locl", "isol", "fina", "init", "calt", "dlig"}) >>,     \* no medi, no ccmp
   syrc |-> << Ls("dflt", Rng(FontFeaturesTab.syrc)),
               Ls("SYR ", {"locl", "isol", "fina", "fin2", "med2", "init", "calt"}) >>]
Langs(sc) == LangsTab[sc]
\* find_langsys_or_default: an unknown or absent tag selects the default
LangFeats(sc, lang) ==
  IF \E k \in 2 .. Len(Langs(sc)) : Langs(sc)[k].tag = lang
  THEN Langs(sc)[CHOOSE k \in 2 .. Len(Langs(sc)) : Langs(sc)[k].tag = lang].feats
  ELSE Langs(sc)[1].feats

\* what a glyph of form `form` carries after shaping: the stages that fired on it, in order
Fires(s, LF, form) == s.f \in LF /\ (s.global \/ s.f = form)
ShapeIdeal(sc, LF, form) ==
  LET sel == SelectSeq(Stages(sc), LAMBDA s : Fires(s, LF, form))
  IN [k \in DOMAIN sel |-> sel[k].f]

\* the font: a glyph is (character, path); feature f maps path p to p \o <<f>> when that is a
\* prefix of something an orderly shaper produces, otherwise to the absorbing <<"ERR", f>>
FormOpts(sc) == PosForms(sc) \cup {"none"}
FullPaths(sc) == {ShapeIdeal(sc, Langs(sc)[k].feats, fo) : k \in DOMAIN Langs(sc), fo \in FormOpts(sc)}
Valid(sc) == UNION {{SubSeq(p, 1, k) : k \in 0 .. Len(p)} : p \in FullPaths(sc)}
IsErr(p) == Len(p) > 0 /\ p[1] = "ERR"
FontDelta(sc, p, f) ==
  IF IsErr(p) THEN p
  ELSE IF Append(p, f) \in Valid(sc) THEN Append(p, f) ELSE <<"ERR", f>>

RECURSIVE RunStages(_, _, _, _, _)
RunStages(sc, LF, form, k, p) ==
  IF k > Len(Stages(sc)) THEN p
  ELSE RunStages(sc, LF, form, k + 1,
                 IF Fires(Stages(sc)[k], LF, form) THEN FontDelta(sc, p, Stages(sc)[k].f) ELSE p)
ShapeOnFont(sc, LF, form) == RunStages(sc, LF, form, 1, <<>>)

\* a path as a number: bit (k-1) for stage k; 32768 + feature index for ERR
Pow2(n) == CASE n = 0 -> 1 [] n = 1 -> 2 [] n = 2 -> 4 [] n = 3 -> 8 [] n = 4 -> 16 [] n = 5 -> 32
             [] n = 6 -> 64 [] n = 7 -> 128 [] n = 8 -> 256 [] n = 9 -> 512 [] n = 10 -> 1024
             [] n = 11 -> 2048 [] n = 12 -> 4096 [] n = 13 -> 8192
RECURSIVE SumBits(_, _, _)
SumBits(sc, p, k) == IF k > Len(p) THEN 0 ELSE Pow2(StageIdx(sc, p[k]) - 1) + SumBits(sc, p, k + 1)
PathId(sc, p) == IF IsErr(p) THEN 32768 + FeatIdx(sc, p[2]) ELSE SumBits(sc, p, 1)

\* the number a conformant shaper leaves on a glyph of form `form` (tabulated once)
\* (TLCEval: TLC keeps [x \in S |-> e] as an unevaluated lambda and would recompute e at every application)
ExpTab == TLCEval([sc \in Scripts |-> TLCEval([k \in DOMAIN Langs(sc) |-> TLCEval([fo \in FormOpts(sc) |->
              PathId(sc, ShapeIdeal(sc, Langs(sc)[k].feats, fo))])])])
LangIdx(sc, lang) == IF \E k \in 2 .. Len(Langs(sc)) : Langs(sc)[k].tag = lang
                     THEN CHOOSE k \in 2 .. Len(Langs(sc)) : Langs(sc)[k].tag = lang ELSE 1
ExpId(sc, lang, form) == ExpTab[sc][LangIdx(sc, lang)][form]

\* reading a number back: the positional form it records ("none" if no positional stage fired)
Bit(id, k) == (id \div Pow2(k - 1)) % 2 = 1
IdForm(sc, id) ==
  IF id >= 32768 THEN "ERR"
  ELSE LET ks == {k \in DOMAIN Stages(sc) : ~Stages(sc)[k].global /\ Bit(id, k)}
       IN IF ks = {} THEN "none"
          ELSE IF Cardinality(ks) = 1 THEN Stages(sc)[CHOOSE k \in ks : TRUE].f ELSE "many"

\* description of the font for the encoder
FontDesc(sc) ==
  [script   |-> sc,
   feats    |-> [k \in DOMAIN FontFeatures(sc) |-> [tag |-> FontFeatures(sc)[k], lookup |-> LookupOf(sc, k)]],
   langs    |-> [k \in DOMAIN Langs(sc) |->
                   [tag |-> Langs(sc)[k].tag,
                    feats |-> SetToSeq({FeatIdx(sc, f) : f \in Langs(sc)[k].feats})]],
   stages   |-> StageNames(sc),
   pos      |-> SetToSeq(PosForms(sc)),
   states   |-> SetToSeq({PathId(sc, p) : p \in Valid(sc)} \cup
                         {32768 + k : k \in DOMAIN FontFeatures(sc)}),
   trans    |-> SetToSeq({<<FeatIdx(sc, f), PathId(sc, p), PathId(sc, FontDelta(sc, p, f))>> :
                             f \in Rng(FontFeatures(sc)), p \in Valid(sc)}),
   joiners  |-> SetToSeq(Joiners)]
=============================================================================
