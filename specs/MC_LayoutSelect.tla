-------------------------- MODULE MC_LayoutSelect --------------------------
(***************************************************************************)
(* Bounded exhaustive exploration of LayoutSelect and generator of replay  *)
(* cases (spec -> impl) for X05.                                           *)
(*                                                                         *)
(* Init draws one case (font, request) from four families through nested   *)
(* quantifiers; Next performs ONE step of the small-step machine           *)
(* LayoutSelect!MStep, so every state is (case, machine state).            *)
(*   family "ord"  one script, one LangSys: FeatureLists (tags x lookup    *)
(*                 lists, unsorted / repeated / shared lookups) x LangSys  *)
(*                 (feature order, required feature) x requests            *)
(*   family "res"  ScriptLists (subsets of four tags) x script table shape *)
(*                 x requested script x language tag                       *)
(*   family "fv"   FeatureVariations x tuples                              *)
(*   family "cls"  positioning features per script class x kerning flag    *)
(* Invariants (every state): Progress (a measure decreases), StepSafe      *)
(* (design invariants of the machine), and in the final state Agree        *)
(* (machine = closed form under the primary reading), Lemmas (design       *)
(* lemmas of the closed form), Emit (one CASE line).                       *)
(***************************************************************************)
EXTENDS LayoutSelect, Json

CONSTANTS LkMenuSize,   \* how many lookup lists of LkMenu a feature may take
          LsMenuSize    \* how many LangSys shapes of LsMenu

VARIABLES c,   \* the case: [fam, font, req]
          s    \* machine state
vars == <<c, s>>

LS(r, f) == [n |-> 0, r |-> r, f |-> f]
Ft(t, lk) == [tag |-> t, lk |-> lk]
OneScript(tag, ls) == << [tag |-> tag, d |-> ls, ls |-> <<>>] >>
Font(sl, fl, fv) == [sl |-> sl, fl |-> fl, fv |-> fv, nl |-> MarkL]
Req(t, sc, lg, mode, tags, alts, ht, tup, kern) ==
  [t |-> t, sc |-> sc, lg |-> lg, mode |-> mode, tags |-> tags, alts |-> alts, ht |-> ht, tup |-> tup, kern |-> kern]

DefaultMask == <<"calt", "ccmp", "clig", "liga", "locl", "rlig">>

\* ---- menus -------------------------------------------------------------
LkMenu == << <<0>>, <<3, 1>>, <<2, 0, 2>>, <<2>>, <<>>, <<1, 3>>, <<3>> >>
LsF    == << <<0, 1, 2>>, <<2, 1, 0>>, <<1>>, <<2, 0>>, <<>> >>
LsR    == <<-1, 2, 0>>

TagTriples(t) ==
  IF t = "GSUB"
  THEN << <<"calt", "liga", "smcp">>, <<"liga", "liga", "smcp">>, <<"rvrn", "liga", "calt">>,
          <<"vert", "vrt2", "liga">>, <<"liga", "vert", "zzzz">> >>
  ELSE << <<"kern", "mark", "mkmk">>, <<"dist", "kern", "curs">>, <<"kern", "kern", "mark">>,
          <<"abvm", "kern", "zzzz">> >>

\* requests: <<mode, tags, alts>>
ReqMenu(t) ==
  IF t = "GSUB"
  THEN << <<"mask", DefaultMask, <<>>>>, <<"mask", DefaultMask \o <<"smcp">>, <<>>>>, <<"mask", <<"smcp">>, <<>>>>,
          <<"mask", <<>>, <<>>>>, <<"mask", DefaultMask \o <<"vrt2">>, <<>>>>, <<"mask", <<"liga", "rvrn">>, <<>>>>,
          <<"custom", <<"liga">>, <<1>>>>, <<"custom", <<"smcp", "liga">>, <<1, 0>>>>,
          <<"custom", <<"liga", "smcp">>, <<-1, 1>>>>, <<"custom", <<"calt", "zzzz">>, <<1, 1>>>>,
          <<"custom", <<"rvrn", "liga">>, <<-1, 1>>>>, <<"custom", <<"vert">>, <<1>>>> >>
  ELSE << <<"mask", DefaultMask, <<>>>>, <<"custom", <<"kern">>, <<-1>>>>, <<"custom", <<"zzzz", "mark">>, <<-1, -1>>>> >>

Scripts(t) == IF t = "GSUB" THEN <<"DFLT", "dflt", "grek", "latn">> ELSE <<"DFLT", "dev2", "deva", "latn">>
ScReq(t)   == IF t = "GSUB" THEN {"latn", "cyrl"} ELSE {"deva", "cyrl"}

\* script k of family "res": LangSys j (0 = default) names the one feature 3(k-1)+j
ResFont(t, present, hasD, nls) ==
  LET tags == SelectSeq(Scripts(t), LAMBDA x : x \in present)
      ltag == <<"AZE ", "TRK ">>
      sl == [k \in DOMAIN tags |->
               [tag |-> tags[k],
                d   |-> IF hasD THEN LS(-1, <<3 * (k - 1)>>) ELSE NoLS,
                ls  |-> [j \in 1..nls |-> [tag |-> ltag[3 - nls + j - 1], l |-> LS(-1, <<3 * (k - 1) + j>>)]]]]
      fl == [i \in 1..(3 * Len(tags)) |-> Ft(IF t = "GSUB" THEN "liga" ELSE "kern", <<(i - 1) % MarkL>>)]
  IN Font(sl, fl, <<>>)

FvMenu ==
  << <<>>,
     << [c |-> << [ax |-> 0, lo |-> 8192, hi |-> 16384] >>, s |-> << [fi |-> 0, lk |-> <<2>>] >>] >>,
     << [c |-> << [ax |-> 0, lo |-> 8192, hi |-> 16384], [ax |-> 1, lo |-> -16384, hi |-> 0] >>,
         s |-> << [fi |-> 0, lk |-> <<2>>] >>],
        [c |-> << [ax |-> 0, lo |-> 0, hi |-> 16384] >>,
         s |-> << [fi |-> 0, lk |-> <<3>>], [fi |-> 2, lk |-> <<3, 2>>] >>] >>,
     << [c |-> <<>>, s |-> << [fi |-> 1, lk |-> <<>>] >>] >>,
     << [c |-> << [ax |-> 2, lo |-> -16384, hi |-> 16384] >>, s |-> << [fi |-> 1, lk |-> <<3>>] >>],
        [c |-> << [ax |-> 1, lo |-> 1, hi |-> 16384] >>, s |-> << [fi |-> 1, lk |-> <<2, 3>>] >>] >> >>
TupMenu == << <<0, 0>>, <<8192, 0>>, <<8192, 8192>>, <<16384, -16384>>, <<-1, 16384>>, <<4096>>, <<>> >>
FvFl(t) == IF t = "GSUB" THEN << Ft("liga", <<0>>), Ft("calt", <<1>>), Ft("rvrn", <<>>) >>
                         ELSE << Ft("kern", <<0>>), Ft("mark", <<1>>), Ft("dist", <<>>) >>

ClsFl == << << Ft("curs", <<0>>), Ft("kern", <<1>>), Ft("mark", <<2>>), Ft("mkmk", <<3>>), Ft("dist", <<1, 0>>),
               Ft("abvm", <<3>>), Ft("blwm", <<2, 3>>) >>,
            << Ft("curs", <<3>>), Ft("kern", <<2>>), Ft("mark", <<1>>), Ft("mkmk", <<0>>), Ft("dist", <<3>>),
               Ft("abvm", <<0>>), Ft("blwm", <<1>>) >>,
            << Ft("curs", <<1>>), Ft("kern", <<0>>), Ft("mark", <<0>>), Ft("mkmk", <<2>>), Ft("dist", <<2>>),
               Ft("abvm", <<1>>), Ft("blwm", <<3>>) >> >>
ClsScripts == {"latn", "cyrl", "arab", "syrc", "deva", "khmr", "mymr", "mym2", "thai", "lao ", "hebr"}

\* ---- the case drawn through nested quantifiers ---------------------------
IsCase(x) ==
  \/ \E t \in {"GSUB", "GPOS"} : \E tt \in DOMAIN TagTriples(t) :
       \E a, b, d \in 1..LkMenuSize : \E f \in 1..LsMenuSize : \E r \in 1..(IF LsMenuSize > 3 THEN 3 ELSE 2) :
       \E q \in DOMAIN ReqMenu(t) : \E ht \in (IF t = "GSUB" THEN {0, 1} ELSE {0}) :
       \E sc \in (IF t = "GSUB" THEN {"latn"} ELSE {"latn", "arab"}) : \E kern \in (IF t = "GSUB" THEN {0} ELSE {0, 1}) :
         LET tr == TagTriples(t)[tt]
             fl == << Ft(tr[1], LkMenu[a]), Ft(tr[2], LkMenu[b]), Ft(tr[3], LkMenu[d]) >>
             rq == ReqMenu(t)[q]
         IN x = [fam |-> "ord", font |-> Font(OneScript(sc, LS(LsR[r], LsF[f])), fl, <<>>),
                 req |-> Req(t, sc, "", rq[1], rq[2], rq[3], ht, IF ht = 1 THEN <<0>> ELSE <<>>, kern)]
  \/ \E t \in {"GSUB", "GPOS"} : \E present \in SUBSET Range(Scripts(t)) : \E hasD \in BOOLEAN : \E nls \in 0..2 :
       \E sc \in ScReq(t) : \E lg \in {"", "TRK ", "ZZZ "} : \E md \in {"mask", "custom"} :
         x = [fam |-> "res", font |-> ResFont(t, present, hasD, nls),
              req |-> IF md = "mask" THEN Req(t, sc, lg, "mask", DefaultMask, <<>>, 0, <<>>, 1)
                      ELSE Req(t, sc, lg, "custom", <<IF t = "GSUB" THEN "liga" ELSE "kern">>, <<1>>, 0, <<>>, 0)]
  \/ \E t \in {"GSUB", "GPOS"} : \E v \in DOMAIN FvMenu : \E tu \in DOMAIN TupMenu : \E ht \in {0, 1} :
       \E r \in {-1, 1} : \E md \in {"mask", "custom"} :
         x = [fam |-> "fv", font |-> Font(OneScript("latn", LS(r, <<0, 1, 2>>)), FvFl(t), FvMenu[v]),
              req |-> IF md = "mask" THEN Req(t, "latn", "", "mask", DefaultMask, <<>>, ht, TupMenu[tu], 1)
                      ELSE Req(t, "latn", "", "custom", IF t = "GSUB" THEN <<"liga", "calt">> ELSE <<"mark">>,
                               IF t = "GSUB" THEN <<0, 1>> ELSE <<-1>>, ht, TupMenu[tu], 1)]
  \/ \E k \in DOMAIN ClsFl : \E sc \in ClsScripts : \E kern \in {0, 1} : \E q \in DOMAIN ReqMenu("GPOS") :
       \E f \in {<<0, 1, 2, 3, 4, 5, 6>>, <<6, 4, 2, 0>>} :
         x = [fam |-> "cls", font |-> Font(OneScript(sc, LS(-1, f)), ClsFl[k], <<>>),
              req |-> Req("GPOS", sc, "", ReqMenu("GPOS")[q][1], ReqMenu("GPOS")[q][2], ReqMenu("GPOS")[q][3],
                          0, <<>>, kern)]

Init == IsCase(c) /\ s = MInit(c.font, c.req)

Measure(x) ==
  (CASE x.pc = "script" -> 4000 [] x.pc = "lang" -> 3000 [] x.pc = "feat" -> 2000 [] x.pc = "apply" -> 1000 [] OTHER -> 0)
  + 100 * Len(x.cand) + 20 * Len(x.todo) + (IF x.ph = 0 THEN 10 ELSE 0) + (9 - Len(x.out))

Next == /\ s.pc # "done"
        /\ s' = MStep(c.font, c.req, s)
        /\ Measure(s') < Measure(s)            \* termination: asserted inside Next (no PROPERTY)
        /\ UNCHANGED c
Spec == Init /\ [][Next]_vars

---------------------------------------------------------------------------
Final == s.pc = "done"
StepOk == s.pc = "done" \/ Measure(MStep(c.font, c.req, s)) < Measure(s)

\* design invariants of the machine, in every state
StepSafe ==
  LET font == c.font
      ls == MLs(font, s)
  IN /\ StepOk
     /\ s.si \in 0..Len(font.sl)
     /\ s.act \subseteq (Range(ls.f) \cup {ls.r})                            \* only features of the chosen LangSys
     /\ Range(s.out) \subseteq LkSet(font, Match(font.fv, c.req), s.act)     \* only lookups of selected features
     /\ \A a, b \in DOMAIN s.out :                                           \* ascending inside a phase
          (a < b /\ ((s.ph = 0) \/ (b < s.ph) \/ (a >= s.ph))) => s.out[a] < s.out[b]

\* machine = closed form (primary reading)
Agree ==
  Final =>
    LET font == c.font
        req  == c.req
        rs   == Resolve(Primary, font, req)
    IN /\ s.si = rs.si /\ s.li = rs.li
       /\ IF req.t = "GPOS" THEN s.out = GposSeq(Primary, {}, font, req)
          ELSE {[k \in DOMAIN st |-> st[k][1]] : st \in GsubSteps(Primary, {}, font, req)} = {s.out}

\* design lemmas of the closed form
Lemmas ==
  Final =>
    LET font == c.font
        req  == c.req
        m    == Match(font.fv, req)
    IN \A rd \in RelReadings(font, req) :
         LET rs == Resolve(rd, font, req)
             F  == FeatOfTags(rd, font, rs.ls, Range(ReqSeq(rd, font, rs.ls, req))) \cup ReqFeat({}, rs.ls)
             o  == Ordered(font, m, F)
         IN /\ \A a, b \in DOMAIN o : a < b => o[a] < o[b]                      \* LookupList order, each once
            /\ Range(o) \subseteq 0..(font.nl - 1)
            /\ (rs.ls.r # -1) => Range(Lk(font, m, rs.ls.r)) \subseteq Range(o) \* the required feature always
            /\ \A i \in F : Range(Lk(font, m, i)) \subseteq Range(o)            \* all lookups of a selected feature
            /\ \A l \in Range(o) : NamedBy(font, m, F, l) # {}                  \* nothing else
            /\ (rs.li = -1) => o = <<>>                                         \* no LangSys: nothing
            /\ (req.ht = 0) => m = 0                                            \* no tuple: no substitution
            \* selection is monotone in the request: dropping a tag never adds a lookup
            /\ \A t \in Range(req.tags) :
                 LET F2 == FeatOfTags(rd, font, rs.ls, Range(ReqSeq(rd, font, rs.ls, req)) \ {t}) \cup ReqFeat({}, rs.ls)
                 IN LkSet(font, m, F2) \subseteq Range(o)
            \* the positioning result does not depend on the order of a custom list
            /\ (req.t = "GPOS" /\ req.mode = "custom") =>
                 GposSeq(rd, {}, font, [req EXCEPT !.tags = Reverse(req.tags), !.alts = Reverse(req.alts)])
                   = GposSeq(rd, {}, font, req)

Known(font, req) ==
  LET rel == RelDefects(font, req)
      base == IF req.t = "GSUB" THEN AccGsub({}, font, req) ELSE AccGpos({}, font, req)
      wsel == req.t = "GSUB" /\ req.mode = "mask"
      bsel == IF wsel THEN AccSel({}, font, req) ELSE {}
      idx  == SelectSeq([k \in DOMAIN OrderedDefectSets |-> k],
                        LAMBDA k : OrderedDefectSets[k] # {} /\ OrderedDefectSets[k] \subseteq rel)
      ent(k) == LET D == OrderedDefectSets[k]
                    o == IF req.t = "GSUB" THEN AccGsub(D, font, req) ELSE AccGpos(D, font, req)
                    l == IF wsel THEN AccSel(D, font, req) ELSE {}
                IN [d |-> SetToSeq(D), obs |-> SetToSeq(o), sel |-> SetToSeq(l), dif |-> (o # base \/ l # bsel)]
      all == [j \in DOMAIN idx |-> ent(idx[j])]
  IN SelectSeq(all, LAMBDA e : e.dif)

Emit ==
  Final =>
    LET font == c.font
        req  == c.req
        rs   == Resolve(Primary, font, req)
    IN PrintT(<<"CASE", ToJson(
         [fam |-> c.fam, mk |-> <<MarkL, MarkD, MarkA>>, font |-> font, req |-> req,
          e |-> [res |-> SetToSeq(AccRes(font, req)),
                 m   |-> Match(font.fv, req),
                 sup |-> SetToSeq({IF b THEN 1 ELSE 0 : b \in AccSup(font, req)}),
                 sel |-> IF req.t = "GSUB" /\ req.mode = "mask" THEN SetToSeq(AccSel({}, font, req)) ELSE <<>>,
                 obs |-> SetToSeq(IF req.t = "GSUB" THEN AccGsub({}, font, req) ELSE AccGpos({}, font, req))],
          k |-> Known(font, req)])>>)
=============================================================================
