------------------------------ MODULE Preprocess ------------------------------
(***************************************************************************)
(* C17 - text preprocessing only reorders marks and applies documented     *)
(* decompositions.                                                         *)
(*                                                                         *)
(* A text is a sequence of code points (Int).  The modified combining      *)
(* class of a code point is read from MccPairs, dumped from allsorts'      *)
(* public unicode::mcc::modified_combining_class.  The VALUES of that      *)
(* table are specified in ModifiedCcc.tla and compared with allsorts' by   *)
(* MC_ModifiedCcc + `c17_preprocess classes` (violation key                *)
(* mcc|ccc=n|want=a|got=b); this module states what is done with them and  *)
(* deliberately keeps evaluating its clauses with allsorts' own table, so  *)
(* that a wrong table value is reported once, as a table difference, and   *)
(* not a second time as thousands of reordering mismatches.                *)
(* A character is a MARK iff its modified class is not 0 (NotReordered),   *)
(* everything else is a BASE for the purpose of this property.             *)
(*                                                                         *)
(* The module has three layers.                                            *)
(*  1. Tables transcribed from the documents the code cites: UTR #53       *)
(*     (AMTRA, modifier combining marks), the Unicode canonical            *)
(*     decompositions of the Indic two/three-part vowels, the Thai/Lao and *)
(*     Khmer OpenType shaping documents, the Microsoft script development  *)
(*     "IV + DV" vowel constraints.                                        *)
(*  2. Primitive rearrangement operators, one per step that allsorts'      *)
(*     scripts::preprocess_text performs (the grain of the code), and the  *)
(*     pipeline Stages(tag) per script tag; Expected(tag, rd, s) is their  *)
(*     composition.                                                        *)
(*  3. The property as RELATIONS between input and output that do not use  *)
(*     the operators of layer 2: content preservation, immobility of base  *)
(*     characters, confinement of reordering to a maximal mark run,        *)
(*     stability (IsStableSortOf), the AMTRA shape.  MC_Preprocess checks  *)
(*     that every primitive preserves them; Trace_Preprocess evaluates     *)
(*     them on what allsorts really returned.                              *)
(*                                                                         *)
(* Named nondeterminism (readings `rd`):                                   *)
(*   Dev_AmScanBound      Thai/Lao: "doc" = every SARA AM of the text is   *)
(*                        split; "dev" = the scan stops at the ORIGINAL    *)
(*                        length of the text, so an AM that has been       *)
(*                        pushed beyond it by earlier splits is left whole *)
(*                        (content-preserving, hence inside the property). *)
(*   Dev_RaSwapSites      Kannada: "doc" = ra+halant+ZWJ swapped at the    *)
(*                        start of the run only (what the code documents   *)
(*                        and does); "dev" = at every occurrence.          *)
(***************************************************************************)
EXTENDS Integers, Sequences, FiniteSets, FiniteSetsExt, TLC, Json, IOUtils

\* sequence of <<code point, modified class>> for every code point of class # 0: the file named
\* by the environment variable C17_MCC, dumped from allsorts by the driver before TLC starts
\* (a zero-arity constant-level definition: TLC evaluates it once)
MccPairs == JsonDeserialize(IOEnv.C17_MCC)

---------------------------------------------------------------------------
\* ---- the class table (read from allsorts; constrained by ModifiedCcc.tla) ------
\* (TLCEval: the function is tabulated once instead of being a lazy lambda that searches the
\* 934 pairs at every application)
MccFn == TLCEval([c \in {MccPairs[i][1] : i \in DOMAIN MccPairs} |->
            LET i == CHOOSE i \in DOMAIN MccPairs : MccPairs[i][1] = c IN MccPairs[i][2]])
MarkSet   == DOMAIN MccFn
Cls(c)    == IF c \in MarkSet THEN MccFn[c] ELSE 0
IsMark(c) == Cls(c) # 0

Rng(s)    == {s[i] : i \in DOMAIN s}
Count(s, c) == Cardinality({i \in DOMAIN s : s[i] = c})
BagOf(s)    == [c \in Rng(s) |-> Count(s, c)]
Insert(s, i, c) == SubSeq(s, 1, i - 1) \o <<c>> \o SubSeq(s, i, Len(s))     \* c becomes s'[i]

\* Glyph mapping (Font::map_glyphs, the observation point the property names) consumes variation
\* selectors after preprocessing; which of them it understands is not C17's business, so the
\* texts are compared with every character of the Unicode property Variation_Selector
\* (PropList.txt: U+180B..180D, U+180F, U+FE00..FE0F, U+E0100..E01EF) deleted on both sides.
VarSel == (\h180B .. \h180D) \cup {\h180F} \cup (\hFE00 .. \hFE0F) \cup (\hE0100 .. \hE01EF)
NoVS(s) == SelectSeq(s, LAMBDA c : c \notin VarSel)

---------------------------------------------------------------------------
\* ---- dispatch (scripts/mod.rs, ScriptType::from) ----------------------------
IndicTags == {"deva", "beng", "guru", "gujr", "orya", "taml", "telu", "knda", "mlym", "sinh"}
Family(tag) ==
  CASE tag = "arab"             -> "Arabic"
    [] tag = "syrc"             -> "Syriac"
    [] tag \in IndicTags        -> "Indic"
    [] tag = "khmr"             -> "Khmer"
    [] tag \in {"mymr", "mym2"} -> "Myanmar"
    [] tag \in {"thai", "lao "} -> "ThaiLao"
    [] OTHER                    -> "Default"

Stages(tag) ==
  CASE Family(tag) = "Arabic"  -> <<"sort", "shadda", "mcmA", "mcmB">>
    [] Family(tag) = "Syriac"  -> <<"sort">>
    [] Family(tag) = "Default" -> <<"sort">>
    [] Family(tag) = "Myanmar" -> <<>>
    [] Family(tag) = "ThaiLao" -> <<"am", "sort">>
    [] Family(tag) = "Khmer"   -> <<"ksplit", "sort">>
    [] Family(tag) = "Indic"   -> <<"constrain", "split", "sort">> \o
                                  (IF tag = "beng" THEN <<"yanukta">>
                                   ELSE IF tag = "knda" THEN <<"raswap">> ELSE <<>>)

Readings(tag) == IF Family(tag) = "ThaiLao" \/ tag = "knda" THEN {"doc", "dev"} ELSE {"doc"}

---------------------------------------------------------------------------
\* ---- tables -------------------------------------------------------------------
DC == \h25CC                                  \* DOTTED CIRCLE
ZWJ == \h200D

\* UTR #53 section 3.1: modifier combining marks (MCM)
MCM == {\h0654, \h0655, \h0658, \h06DC, \h06E3, \h06E7, \h06E8,
        \h08CA, \h08CB, \h08CD, \h08CE, \h08CF, \h08D3, \h08F3}
ShaddaClass == 33                             \* "shadda characters (ccc = 33)"
AboveClass  == 230
BelowClass  == 220

\* Thai / Lao: SARA AM = NIKHAHIT + SARA AA, Lao AM = NIGGAHITA + AA
AmSet == {\h0E33, \h0EB3}
AmParts(c) == IF c = \h0E33 THEN <<\h0E4D, \h0E32>> ELSE <<\h0ECD, \h0EB2>>
Nikhahits == {\h0E4D, \h0ECD}
\* above-base marks the nikhahit is moved in front of (opentype-shaping-thai-lao, mark
\* placement subclass "top"; the code extends tone marks to all above-base marks, issue 125)
AboveBase == {\h0E31} \cup (\h0E34 .. \h0E37) \cup (\h0E47 .. \h0E4E)
        \cup {\h0EB1} \cup (\h0EB4 .. \h0EB7) \cup {\h0EBB} \cup (\h0EC8 .. \h0ECD)

\* Indic two- and three-part dependent vowels = full canonical decomposition (UnicodeData.txt)
MatraParts(c) ==
  CASE c = \h09CB -> <<\h09C7, \h09BE>>          [] c = \h09CC -> <<\h09C7, \h09D7>>
    [] c = \h0B48 -> <<\h0B47, \h0B56>>          [] c = \h0B4B -> <<\h0B47, \h0B3E>>
    [] c = \h0B4C -> <<\h0B47, \h0B57>>
    [] c = \h0BCA -> <<\h0BC6, \h0BBE>>          [] c = \h0BCB -> <<\h0BC7, \h0BBE>>
    [] c = \h0BCC -> <<\h0BC6, \h0BD7>>
    [] c = \h0C48 -> <<\h0C46, \h0C56>>
    [] c = \h0CC0 -> <<\h0CBF, \h0CD5>>          [] c = \h0CC7 -> <<\h0CC6, \h0CD5>>
    [] c = \h0CC8 -> <<\h0CC6, \h0CD6>>          [] c = \h0CCA -> <<\h0CC6, \h0CC2>>
    [] c = \h0CCB -> <<\h0CC6, \h0CC2, \h0CD5>>
    [] c = \h0D4A -> <<\h0D46, \h0D3E>>          [] c = \h0D4B -> <<\h0D47, \h0D3E>>
    [] c = \h0D4C -> <<\h0D46, \h0D57>>
    [] c = \h0DDA -> <<\h0DD9, \h0DCA>>          [] c = \h0DDC -> <<\h0DD9, \h0DCF>>
    [] c = \h0DDD -> <<\h0DD9, \h0DCF, \h0DCA>>  [] c = \h0DDE -> <<\h0DD9, \h0DDF>>
    [] OTHER -> <<c>>
SplitMatras == {\h09CB, \h09CC, \h0B48, \h0B4B, \h0B4C, \h0BCA, \h0BCB, \h0BCC, \h0C48,
                \h0CC0, \h0CC7, \h0CC8, \h0CCA, \h0CCB, \h0D4A, \h0D4B, \h0D4C,
                \h0DDA, \h0DDC, \h0DDD, \h0DDE}

\* Bengali YYA = YA + NUKTA (canonical decomposition of U+09DF, a composition exclusion)
Ya == \h09AF   Nukta == \h09BC   Yya == \h09DF
\* Kannada
KRa == \h0CB0  KHalant == \h0CCD

\* Khmer two-part vowels: pre-base part U+17C1 inserted in front, the vowel itself is kept
KhmerSplit == {\h17BE, \h17BF, \h17C0, \h17C4, \h17C5}
KhmerE == \h17C1

\* Independent vowel + dependent vowel pairs that must not combine (Microsoft script
\* development documents, "IV + DV constraints"); a dotted circle goes between them.
\* (This table is copied from the code: the documents are not available offline.)
VowelPairs ==
  { <<\h0905, \h0946>>, <<\h0905, \h093E>>, <<\h0909, \h0941>>, <<\h090F, \h0945>>, <<\h090F, \h0946>>,
    <<\h090F, \h0947>>, <<\h0905, \h0949>>, <<\h0906, \h0945>>, <<\h0905, \h094A>>, <<\h0906, \h0946>>,
    <<\h0905, \h094B>>, <<\h0906, \h0947>>, <<\h0905, \h094C>>, <<\h0906, \h0948>>, <<\h0905, \h0945>>,
    <<\h0905, \h093A>>, <<\h0905, \h093B>>, <<\h0906, \h093A>>, <<\h0905, \h094F>>, <<\h0905, \h0956>>,
    <<\h0905, \h0957>>,
    <<\h0985, \h09BE>>, <<\h098B, \h09C3>>, <<\h098C, \h09E2>>,
    <<\h0A05, \h0A3E>>, <<\h0A72, \h0A3F>>, <<\h0A72, \h0A40>>, <<\h0A73, \h0A41>>, <<\h0A73, \h0A42>>,
    <<\h0A72, \h0A47>>, <<\h0A05, \h0A48>>, <<\h0A73, \h0A4B>>, <<\h0A05, \h0A4C>>,
    <<\h0A85, \h0ABE>>, <<\h0A85, \h0AC5>>, <<\h0A85, \h0AC7>>, <<\h0A85, \h0AC8>>, <<\h0A85, \h0AC9>>,
    <<\h0A85, \h0ACB>>, <<\h0A85, \h0ACC>>, <<\h0AC5, \h0ABE>>,
    <<\h0B05, \h0B3E>>, <<\h0B0F, \h0B57>>, <<\h0B13, \h0B57>>,
    <<\h0C12, \h0C55>>, <<\h0C12, \h0C4C>>, <<\h0C3F, \h0C55>>, <<\h0C46, \h0C55>>, <<\h0C4A, \h0C55>>,
    <<\h0C89, \h0CBE>>, <<\h0C92, \h0CCC>>, <<\h0C8B, \h0CBE>>,
    <<\h0D07, \h0D57>>, <<\h0D09, \h0D57>>, <<\h0D0E, \h0D46>>, <<\h0D12, \h0D3E>>, <<\h0D12, \h0D57>>,
    <<\h0D85, \h0DCF>>, <<\h0D85, \h0DD0>>, <<\h0D85, \h0DD1>>, <<\h0D8B, \h0DDF>>, <<\h0D8D, \h0DD8>>,
    <<\h0D8F, \h0DDF>>, <<\h0D91, \h0DCA>>, <<\h0D91, \h0DD9>>, <<\h0D91, \h0DDA>>, <<\h0D91, \h0DDC>>,
    <<\h0D91, \h0DDD>>, <<\h0D94, \h0DDF>> }
\* Devanagari "reph, letter I": RA + HALANT + I gets the circle between HALANT and I
RephRa == \h0930   RephHalant == \h094D   RephI == \h0907

---------------------------------------------------------------------------
\* ---- layer 2: primitive operators ----------------------------------------------

\* stable sort of one mark run by class: the classes in ascending order, each class's
\* characters in their original order
RECURSIVE CatClasses(_, _)
CatClasses(r, S) ==
  IF S = {} THEN <<>>
  ELSE LET c == Min(S) IN SelectSeq(r, LAMBDA x : Cls(x) = c) \o CatClasses(r, S \ {c})
StableSort(r) == CatClasses(r, {Cls(r[i]) : i \in DOMAIN r})

\* AMTRA 2a: "move any shadda characters to the beginning of S"
MoveShadda(r) == SelectSeq(r, LAMBDA x : Cls(x) = ShaddaClass) \o SelectSeq(r, LAMBDA x : Cls(x) # ShaddaClass)

\* AMTRA 2b/2c: "if a sequence of ccc = c characters begins with any MCM characters, move the
\* sequence of such characters to the beginning of S"
MoveMCM(r, c) ==
  LET idx == {i \in DOMAIN r : Cls(r[i]) = c} IN
  IF idx = {} THEN r
  ELSE LET f == Min(idx)
           n == Max({k \in 0 .. (Len(r) - f + 1) : \A j \in f .. (f + k - 1) : r[j] \in MCM /\ Cls(r[j]) = c})
       IN SubSeq(r, f, f + n - 1) \o SubSeq(r, 1, f - 1) \o SubSeq(r, f + n, Len(r))

RunOp(kind, r) ==
  IF r = <<>> THEN <<>>
  ELSE CASE kind = "sort"   -> StableSort(r)
         [] kind = "shadda" -> MoveShadda(r)
         [] kind = "mcmA"   -> MoveMCM(r, AboveClass)
         [] kind = "mcmB"   -> MoveMCM(r, BelowClass)

\* apply a run operator to every maximal run of marks of s
RECURSIVE OnRuns(_, _, _, _)
OnRuns(kind, s, i, run) ==
  IF i > Len(s) THEN RunOp(kind, run)
  ELSE IF IsMark(s[i]) THEN OnRuns(kind, s, i + 1, Append(run, s[i]))
  ELSE RunOp(kind, run) \o <<s[i]>> \o OnRuns(kind, s, i + 1, <<>>)

\* Thai / Lao: scan left to right up to index `bound`; an AM becomes nikhahit + AA and the
\* nikhahit is moved in front of the above-base marks that immediately precede it
RECURSIVE AmScan(_, _, _)
AmScan(s, i, bound) ==
  IF i > bound \/ i > Len(s) THEN s
  ELSE IF s[i] \notin AmSet THEN AmScan(s, i + 1, bound)
  ELSE LET p == AmParts(s[i])
           j == Min({k \in 1 .. i : \A m \in k .. (i - 1) : s[m] \in AboveBase})
           t == SubSeq(s, 1, j - 1) \o <<p[1]>> \o SubSeq(s, j, i - 1) \o <<p[2]>> \o SubSeq(s, i + 1, Len(s))
       IN AmScan(t, i + 1, bound)
SplitAM(rd, s) == AmScan(s, 1, IF rd = "dev" THEN Len(s) ELSE 3 * Len(s))   \* Dev_AmScanBound

\* Indic: dotted circle between prohibited pairs; pairs do not overlap (the scan resumes
\* after the pair)
RECURSIVE Constrain(_, _)
Constrain(s, i) ==
  IF i + 1 > Len(s) THEN s
  ELSE IF <<s[i], s[i + 1]>> \in VowelPairs THEN Constrain(Insert(s, i + 1, DC), i + 3)
  ELSE IF s[i] = RephRa /\ s[i + 1] = RephHalant /\ i + 2 <= Len(s) /\ s[i + 2] = RephI
       THEN Constrain(Insert(s, i + 2, DC), i + 4)
  ELSE Constrain(s, i + 1)
\* how many circles that inserts (relational side: counted on the input only)
NumConstraints(s) == Count(Constrain(s, 1), DC) - Count(s, DC)

RECURSIVE FlatMap(_, _)
FlatMap(kind, s) ==
  IF s = <<>> THEN <<>>
  ELSE LET c == Head(s)
           p == CASE kind = "split"  -> MatraParts(c)
                  [] kind = "ksplit" -> IF c \in KhmerSplit THEN <<KhmerE, c>> ELSE <<c>>
                  [] kind = "normI"  -> IF c = Yya THEN <<Ya, Nukta>> ELSE MatraParts(c)
                  [] kind = "normT"  -> IF c \in AmSet THEN AmParts(c) ELSE <<c>>
       IN p \o FlatMap(kind, Tail(s))

RECURSIVE YaNukta(_)
YaNukta(s) ==
  IF Len(s) < 2 THEN s
  ELSE IF s[1] = Ya /\ s[2] = Nukta THEN <<Yya>> \o YaNukta(SubSeq(s, 3, Len(s)))
  ELSE <<s[1]>> \o YaNukta(Tail(s))

RECURSIVE RaSwapAll(_)
RaSwapAll(s) ==
  IF Len(s) < 3 THEN s
  ELSE IF s[1] = KRa /\ s[2] = KHalant /\ s[3] = ZWJ
       THEN <<KRa, ZWJ, KHalant>> \o RaSwapAll(SubSeq(s, 4, Len(s)))
  ELSE <<s[1]>> \o RaSwapAll(Tail(s))
RaSwap(rd, s) ==
  IF rd = "dev" THEN RaSwapAll(s)                                        \* Dev_RaSwapSites
  ELSE IF Len(s) >= 3 /\ s[1] = KRa /\ s[2] = KHalant /\ s[3] = ZWJ
       THEN <<KRa, ZWJ, KHalant>> \o SubSeq(s, 4, Len(s)) ELSE s

ApplyStage(st, rd, s) ==
  CASE st \in {"sort", "shadda", "mcmA", "mcmB"} -> OnRuns(st, s, 1, <<>>)
    [] st = "am"        -> SplitAM(rd, s)
    [] st = "constrain" -> Constrain(s, 1)
    [] st = "split"     -> FlatMap("split", s)
    [] st = "ksplit"    -> FlatMap("ksplit", s)
    [] st = "yanukta"   -> YaNukta(s)
    [] st = "raswap"    -> RaSwap(rd, s)

RECURSIVE Pipe(_, _, _, _)
Pipe(stages, k, rd, s) == IF k = 0 THEN s ELSE ApplyStage(stages[k], rd, Pipe(stages, k - 1, rd, s))
\* the text after the first k stages / after all of them
AfterStage(tag, rd, s, k) == Pipe(Stages(tag), k, rd, s)
Expected(tag, rd, s)      == Pipe(Stages(tag), Len(Stages(tag)), rd, s)

---------------------------------------------------------------------------
\* ---- layer 3: the property as relations -----------------------------------------

\* maximal mark runs of s: start indices and the end of the run starting at a
RunStarts(s) == {a \in DOMAIN s : IsMark(s[a]) /\ (a = 1 \/ ~IsMark(s[a - 1]))}
RunEnd(s, a) == Min({b \in a .. Len(s) : b = Len(s) \/ ~IsMark(s[b + 1])})

\* b is a's stable sort by class: classes ascend, and for every class the characters of that
\* class appear in b in the order they have in a  (this implies b is a permutation of a)
IsStableSortOf(a, b) ==
  /\ Len(a) = Len(b)
  /\ \A i \in 1 .. (Len(b) - 1) : Cls(b[i]) <= Cls(b[i + 1])
  /\ \A c \in {Cls(a[i]) : i \in DOMAIN a} \cup {Cls(b[i]) : i \in DOMAIN b} :
        SelectSeq(b, LAMBDA x : Cls(x) = c) = SelectSeq(a, LAMBDA x : Cls(x) = c)

\* AMTRA result of a run, stated on the canonically ordered run t (UTR #53, step 2):
\* [MCM prefix of the 220 group][MCM prefix of the 230 group][shaddas][everything else, in order]
McmPrefixLen(t, c) ==
  LET g == SelectSeq(t, LAMBDA x : Cls(x) = c) IN
  Max({k \in 0 .. Len(g) : \A j \in 1 .. k : g[j] \in MCM})
IsAmtraOf(a, b) ==
    LET t  == StableSort(a)
        nB == McmPrefixLen(t, BelowClass)
        nA == McmPrefixLen(t, AboveClass)
        gB == SelectSeq(t, LAMBDA x : Cls(x) = BelowClass)
        gA == SelectSeq(t, LAMBDA x : Cls(x) = AboveClass)
        fB == IF gB = <<>> THEN 0 ELSE Min({i \in DOMAIN t : Cls(t[i]) = BelowClass})
        fA == IF gA = <<>> THEN 0 ELSE Min({i \in DOMAIN t : Cls(t[i]) = AboveClass})
        moved == {i \in DOMAIN t : \/ Cls(t[i]) = ShaddaClass
                                   \/ (fB > 0 /\ i >= fB /\ i < fB + nB)
                                   \/ (fA > 0 /\ i >= fA /\ i < fA + nA)}
        idxs == {i \in DOMAIN t : i \notin moved}
        RECURSIVE Keep(_)
        Keep(i) == IF i > Len(t) THEN <<>> ELSE (IF i \in idxs THEN <<t[i]>> ELSE <<>>) \o Keep(i + 1)
    IN /\ IsStableSortOf(a, t)
       /\ b = SubSeq(gB, 1, nB) \o SubSeq(gA, 1, nA) \o SelectSeq(t, LAMBDA x : Cls(x) = ShaddaClass) \o Keep(1)

\* x and y have the same length, the same mark/base pattern, every base keeps its index,
\* and every maximal mark run holds the same characters (reordering is confined to the run)
PermRel(x, y) ==
  /\ Len(x) = Len(y)
  /\ \A i \in DOMAIN x : /\ IsMark(x[i]) <=> IsMark(y[i])
                         /\ ~IsMark(x[i]) => y[i] = x[i]
  /\ \A a \in RunStarts(x) : BagOf(SubSeq(x, a, RunEnd(x, a))) = BagOf(SubSeq(y, a, RunEnd(x, a)))

\* per-run shape on top of PermRel
RunsRel(shape, x, y) ==
  \A a \in RunStarts(x) :
    LET rx == SubSeq(x, a, RunEnd(x, a))
        ry == SubSeq(y, a, RunEnd(x, a))
    IN CASE shape = "stable"   -> IsStableSortOf(rx, ry)
         [] shape = "amtra"    -> IsAmtraOf(rx, ry)
         [] shape = "identity" -> rx = ry

\* every maximal mark run is in ascending class order (for Kannada: before the documented
\* ra+halant+ZWJ swap, which takes the halant out of its run)
RECURSIVE RaUnswapAll(_)
RaUnswapAll(s) ==
  IF Len(s) < 3 THEN s
  ELSE IF s[1] = KRa /\ s[2] = ZWJ /\ s[3] = KHalant
       THEN <<KRa, KHalant, ZWJ>> \o RaUnswapAll(SubSeq(s, 4, Len(s)))
  ELSE <<s[1]>> \o RaUnswapAll(Tail(s))
RunsSorted(y) == \A i \in 1 .. (Len(y) - 1) : (IsMark(y[i]) /\ IsMark(y[i + 1])) => Cls(y[i]) <= Cls(y[i + 1])

\* content: what is compared once the documented insertions are set aside and the documented
\* decompositions are carried out in full on both sides
Inserted(fam) == IF fam = "Indic" THEN {DC} ELSE IF fam = "Khmer" THEN {KhmerE} ELSE {}
Norm(fam, s) ==
  LET d == SelectSeq(s, LAMBDA c : c \notin Inserted(fam)) IN
  IF fam = "Indic" THEN FlatMap("normI", d) ELSE IF fam = "ThaiLao" THEN FlatMap("normT", d) ELSE d
ContentRel(fam, x, y) == BagOf(Norm(fam, x)) = BagOf(Norm(fam, y))
\* the bases, in order (the Thai/Lao nikhahit is the one class-0 character that a documented
\* rule moves, so it is left out of the skeleton there)
Skeleton(fam, s) ==
  SelectSeq(Norm(fam, s), LAMBDA c : ~IsMark(c) /\ ~(fam = "ThaiLao" /\ c \in Nikhahits))
SkeletonRel(fam, x, y) == Skeleton(fam, x) = Skeleton(fam, y)
\* exactly the documented number of insertions
InsertedRel(fam, x, y) ==
  CASE fam = "Indic" -> Count(y, DC) - Count(x, DC) = NumConstraints(x)
    [] fam = "Khmer" -> Count(y, KhmerE) - Count(x, KhmerE) = Cardinality({i \in DOMAIN x : x[i] \in KhmerSplit})
    [] OTHER -> Len(Norm(fam, x)) = Len(Norm(fam, y))

\* The relation between the text given to preprocess_text and the text it leaves behind.
\* Returns the set of names of the clauses that FAIL (empty = the property holds).
RelFailures(tag, x, y) ==
  LET fam == Family(tag) IN
     (IF ContentRel(fam, x, y)  THEN {} ELSE {"content"})
\cup (IF SkeletonRel(fam, x, y) THEN {} ELSE {"bases"})
\cup (IF InsertedRel(fam, x, y) THEN {} ELSE {"insertions"})
\cup (IF fam \in {"Arabic", "Syriac", "Default", "Myanmar"} /\ ~PermRel(x, y) THEN {"runs"} ELSE {})
\cup (IF fam \in {"Syriac", "Default"} /\ PermRel(x, y) /\ ~RunsRel("stable", x, y) THEN {"stable"} ELSE {})
\cup (IF fam = "Arabic" /\ PermRel(x, y) /\ ~RunsRel("amtra", x, y) THEN {"amtra"} ELSE {})
\cup (IF fam = "Myanmar" /\ x # y THEN {"identity"} ELSE {})
\cup (IF fam \in {"ThaiLao", "Indic", "Khmer"} /\ ~RunsSorted(IF tag = "knda" THEN RaUnswapAll(y) ELSE y)
      THEN {"sorted"} ELSE {})

\* What one primitive step may do (x before, y after): the invariant every action preserves.
StageOK(tag, st, x, y) ==
  LET fam == Family(tag) IN
  /\ ContentRel(fam, x, y)
  /\ SkeletonRel(fam, x, y)
  /\ CASE st = "sort"   -> PermRel(x, y) /\ RunsRel("stable", x, y)
       [] st = "shadda" -> /\ PermRel(x, y)
                           /\ \A a \in RunStarts(x) :
                                LET rx == SubSeq(x, a, RunEnd(x, a))
                                    ry == SubSeq(y, a, RunEnd(x, a))
                                    ns == Cardinality({i \in DOMAIN rx : Cls(rx[i]) = ShaddaClass})
                                IN /\ \A i \in 1 .. ns : Cls(ry[i]) = ShaddaClass
                                   /\ SelectSeq(ry, LAMBDA c : Cls(c) # ShaddaClass)
                                        = SelectSeq(rx, LAMBDA c : Cls(c) # ShaddaClass)
       [] st \in {"mcmA", "mcmB"} ->
                           /\ PermRel(x, y)
                           /\ \A a \in RunStarts(x) :
                                LET rx == SubSeq(x, a, RunEnd(x, a))
                                    ry == SubSeq(y, a, RunEnd(x, a))
                                    c  == IF st = "mcmA" THEN AboveClass ELSE BelowClass
                                    \* the characters that changed place are the modifier marks of class c
                                    \* that begin the class-c sequence (all of them), now leading the run;
                                    \* all other characters keep their relative order
                                IN \E k \in 0 .. Len(rx) : \E f \in 1 .. (Len(rx) - k + 1) :
                                     /\ \A j \in 1 .. k : ry[j] \in MCM /\ Cls(ry[j]) = c
                                     /\ rx = SubSeq(ry, k + 1, k + f - 1) \o SubSeq(ry, 1, k) \o SubSeq(ry, k + f, Len(ry))
                                     /\ \A j \in 1 .. (f - 1) : Cls(rx[j]) # c
                                     /\ (f + k <= Len(rx) /\ Cls(rx[f + k]) = c) => rx[f + k] \notin MCM
                                     /\ (k = 0 /\ f <= Len(rx)) => Cls(rx[f]) = c
       [] st = "am"     -> \* nothing but nikhahits changes place
                           SelectSeq(FlatMap("normT", x), LAMBDA c : c \notin Nikhahits)
                             = SelectSeq(FlatMap("normT", y), LAMBDA c : c \notin Nikhahits)
       [] st = "constrain" -> SelectSeq(y, LAMBDA c : c # DC) = SelectSeq(x, LAMBDA c : c # DC)
       [] st = "split"  -> FlatMap("normI", y) = FlatMap("normI", x) /\ \A i \in DOMAIN y : y[i] \notin SplitMatras
       [] st = "ksplit" -> /\ SelectSeq(y, LAMBDA c : c # KhmerE) = SelectSeq(x, LAMBDA c : c # KhmerE)
                           /\ \A i \in DOMAIN y : y[i] \in KhmerSplit => (i > 1 /\ y[i - 1] = KhmerE)
       [] st = "yanukta" -> /\ FlatMap("normI", y) = FlatMap("normI", x)
                            /\ \A i \in 1 .. (Len(y) - 1) : ~(y[i] = Ya /\ y[i + 1] = Nukta)
       [] st = "raswap" -> /\ Len(x) = Len(y)
                           /\ \A i \in DOMAIN x :
                                y[i] # x[i] => \E j \in {i - 1, i} : /\ j >= 2 /\ j + 1 <= Len(x)
                                                                      /\ x[j - 1] = KRa /\ x[j] = KHalant /\ x[j + 1] = ZWJ
                                                                      /\ y[j] = ZWJ /\ y[j + 1] = KHalant
=============================================================================
