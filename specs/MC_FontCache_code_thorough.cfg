CONSTANTS
  CodeKeys = TRUE
  HasFV = TRUE
  HasImages = TRUE
  StoreFailed = FALSE
  PosKeyMode = "abs"
  IdxKeyMode = "abs"
  MaxDepth = 5
  MaxDepthDmg = 4
  MaxDepthCollide = 4
  Families = {"intact", "dmg", "collide"}
SPECIFICATION Spec
VIEW View
INVARIANTS ModelExact EmitCase
CHECK_DEADLOCK FALSE
