CONSTANTS
  CodeKeys = TRUE
  HasFV = TRUE
  HasImages = TRUE
  MaxDepth = 5
SPECIFICATION Spec
VIEW View
INVARIANTS ModelExact EmitCase
CHECK_DEADLOCK FALSE
