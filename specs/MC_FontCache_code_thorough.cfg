CONSTANTS
  CodeKeys = TRUE
  HasFV = TRUE
  HasImages = TRUE
  StoreFailed = FALSE
  PosKeyMode = "abs"
  IdxKeyMode = "abs"
  ImgKeepMode = "none"
  LookupsCap = 0
  FailKeep = FALSE
  RegionMemo = FALSE
  NegCache = FALSE
  SubMRU = FALSE
  MaxDepth = 5
  MaxDepthDmg = 4
  MaxDepthCollide = 4
  Families = {"intact", "dmg", "collide", "img", "fill", "scopes", "var", "strike", "pairs"}
  ImgCounts = {2, 3, 4}
  ImgFilterMode = "own"
  MaxImgFilters = 3
  FillKeys = 1500
  FillLangs = 400
  FillLookups = 600
  MaxDepthVar = 3
  VarTuples = {"t0", "tA", "tB", "tC", "tD"}
  MaxDepthScopes = 3
  MaxDepthStrike = 2
  MaxDepthPairs = 3
SPECIFICATION Spec
VIEW View
INVARIANTS ModelExact EmitCase
CHECK_DEADLOCK FALSE
