---------------------------- MODULE MC_Reorder ----------------------------
(***************************************************************************)
(* Bounded exhaustive exploration of Reorder and generator of replay cases *)
(* (spec -> impl) for X10.                                                 *)
(*                                                                         *)
(* Init draws one cluster (family + class string of the TEXT) through      *)
(* nested quantifiers from the cluster structure of the script documents   *)
(* (Khmer: base, register shifter / robat, COENG groups, vowel groups,     *)
(* final COENG group, sign; without base = partial cluster.  Myanmar:      *)
(* kinzi, base, variation selector, stacked consonants, asat, medials,     *)
(* Vmain, Vpost, tone / sign; without base = orphan signs).  Next performs *)
(* ONE rule of the small-step machine per step.  In the final state:       *)
(*   Agree     the machine's result = the closed form, for every reading   *)
(*             (the explored run uses the primary reading; the other       *)
(*             readings are run by the same step operators)                *)
(*   Permutes  the result is a permutation of the cluster (plus inserted   *)
(*             glyphs), everything the rules do not move keeps its order   *)
(*   Design    lemmas: pre-base vowel first / COENG RO directly before the *)
(*             base; pref only on COENG RO, cfar only after one, the base  *)
(*             carries no basic-form feature; Myanmar: positions ascend,   *)
(*             kinzi directly after the base (and its variation selector), *)
(*             anusvara of the below-base zone before the below-base vowels*)
(*   Emit      one CASE line per cluster                                   *)
(* In every state Measure: the machine's program counter advances.         *)
(***************************************************************************)
EXTENDS Reorder

CONSTANT Tier        \* "quick" | "thorough" | "font"

VARIABLES fam, r, m
vars == <<fam, r, m>>

\* ---- alphabets: a few real code points per class; bound to the class tables of Reorder ----------------
KAlpha == [C |-> <<6016, 6036, 6047>>, Ra |-> <<6042>>, V |-> <<6053, 6059>>, GB |-> <<160, 8211>>,
           DC |-> <<9676>>, H |-> <<6098>>, RS |-> <<6089, 6090>>, N |-> <<6086, 6092>>,
           VPre |-> <<6081, 6082, 6083>>, M |-> <<6070, 6071, 6075, 6088>>,
           Split |-> <<6078, 6079, 6080, 6084, 6085>>, SM |-> <<6087, 6091>>, ZWJ |-> <<8205>>, ZWNJ |-> <<8204>>]
MAlpha == [C |-> <<4096, 4117, 4126>>, Ra |-> <<4100, 4123, 4186>>, IV |-> <<4129, 4133>>, GB |-> <<160, 4160>>,
           VS |-> <<65024>>, H |-> <<4153>>, As |-> <<4154>>, MY |-> <<4155, 4190>>, MR |-> <<4156>>,
           MW |-> <<4157, 4226>>, MH |-> <<4158>>, ML |-> <<4192>>, VPre |-> <<4145, 4228>>,
           VAbv |-> <<4141, 4142>>, VBlw |-> <<4143, 4144>>, A |-> <<4150, 4146>>, DB |-> <<4151>>,
           VPst |-> <<4139, 4140>>, PT |-> <<4195>>, SM |-> <<4152, 4231>>, ZWJ |-> <<8205>>, ZWNJ |-> <<8204>>]
MInert == {"VAbv", "VPst", "PT", "SM"}      \* classes no reordering rule names
ASSUME \A c \in DOMAIN KAlpha : \A k \in DOMAIN KAlpha[c] : KClassCp(KAlpha[c][k]) = c
ASSUME \A c \in DOMAIN MAlpha : \A k \in DOMAIN MAlpha[c] :
          MClassCp(MAlpha[c][k]) = (IF c \in MInert THEN "O" ELSE c)

\* ---- cluster structure ---------------------------------------------------------------------------------
Rich == Tier = "thorough"

KBases == {<<>>, <<"C">>, <<"Ra">>, <<"V">>, <<"GB">>, <<"DC">>}
KRegs  == {<<>>, <<"RS">>, <<"N">>} \cup (IF Rich THEN {<<"RS", "N">>} ELSE {})
KCo    == {<<"H", "C">>, <<"H", "Ra">>, <<"H", "V">>}
KMa    == {<<"VPre">>, <<"M">>, <<"Split">>} \cup (IF Rich THEN {<<"ZWJ", "M">>, <<"ZWNJ", "VPre">>} ELSE {})
KFin   == {<<>>, <<"H", "C">>, <<"H", "Ra">>}
KTails == {<<>>, <<"SM">>}
KNCo   == IF Rich THEN 3 ELSE 2
KNMa   == 2
KMatras(x) == Cardinality({i \in DOMAIN x : x[i] \in {"VPre", "M"}}) + 2 * Cardinality({i \in DOMAIN x : x[i] = "Split"})
KIsCase(x) ==
  \E b \in KBases, g \in KRegs, fc \in KFin, t \in KTails :
    \E k1 \in 0..KNCo : \E c1 \in [1..k1 -> KCo] :
      \E k2 \in 0..KNMa : \E c2 \in [1..k2 -> KMa] :
         /\ x = b \o g \o Flat(c1) \o Flat(c2) \o fc \o t
         /\ x # <<>>
         /\ KMatras(x) <= 4

MPrefixRich == {<<>>} \cup
  {kz \o b \o st : kz \in {<<>>, <<"Ra", "As", "H">>},
                   b \in {<<"C">>, <<"Ra">>, <<"GB">>} \cup (IF Rich THEN {<<"IV">>} ELSE {}),
                   st \in {<<>>, <<"H", "C">>, <<"H", "Ra">>} \cup (IF Rich THEN {<<"H", "Ra", "H", "C">>, <<"H", "C", "H", "Ra">>} ELSE {})}
MPrefixPlain == {<<>>, <<"C">>, <<"Ra", "As", "H", "C">>}
MMeds == {<<>>, <<"MY">>, <<"MR">>, <<"MY", "MR">>, <<"MR", "MW">>} \cup
         (IF Rich THEN {<<"MW">>, <<"MY", "As", "MR", "MW", "MH">>, <<"MR", "MH", "ML">>} ELSE {})
MVPres == {<<>>, <<"VPre">>, <<"VPre", "VPre">>}
MVAbvs == {<<>>, <<"VAbv">>}
MVBlws == {<<>>, <<"VBlw">>, <<"VBlw", "VBlw">>}
MAs    == {<<>>, <<"A">>, <<"A", "A">>}
MDbs   == {<<>>, <<"DB">>} \cup (IF Rich THEN {<<"DB", "As">>} ELSE {})
MVPosts == {<<>>, <<"VPst">>} \cup {<<"VPst", "A">>}
MEnds  == {<<>>, <<"SM">>} \cup (IF Rich THEN {<<"PT", "A", "ZWJ">>} ELSE {})
MAs0   == {<<>>, <<"As">>}
MTailsSmall == {<<>>, <<"H">>, <<"VPre">>, <<"MR">>, <<"VBlw", "A">>, <<"MR", "VPre", "VBlw", "A", "VPst">>,
                <<"As", "MY", "MR", "VPre", "VAbv", "VBlw", "A", "DB">>, <<"VAbv", "A">>, <<"MR", "VBlw", "VBlw", "A", "A", "DB", "As">>,
                <<"VPre", "VBlw", "A", "VPst", "A">>, <<"MW", "VBlw", "A", "SM">>}
MIsCase(x) ==
  \/ \E p \in MPrefixRich, t \in MTailsSmall : x = p \o t /\ x # <<>> /\ (p = <<>> => t # <<"H">>)
  \/ \E p \in MPrefixPlain, a0 \in MAs0, md \in MMeds, v1 \in MVPres, v2 \in MVAbvs, v3 \in MVBlws, a \in MAs,
        db \in MDbs, vp \in MVPosts, en \in MEnds :
        x = p \o a0 \o md \o v1 \o v2 \o v3 \o a \o db \o vp \o en /\ x # <<>>

\* ---- machine ---------------------------------------------------------------------------------------------
M0(pc) == [pc |-> pc, s |-> <<>>, ops |-> <<>>, base |-> 0, i |-> 0, z |-> "AfterMain"]
PcRank == [decompose |-> 1, circle |-> 2, tag |-> 3, move |-> 4, kinzibase |-> 3, tagging |-> 4, sort |-> 5, done |-> 6]

Init ==
  IF Tier = "font" THEN fam = "khmer" /\ r = <<"C">> /\ m = M0("decompose")
  ELSE \/ fam = "khmer" /\ KIsCase(r) /\ m = M0("decompose")
       \/ fam = "myanmar" /\ MIsCase(r) /\ m = M0("circle")

KItems == KDecompose(r)
MItems == [i \in DOMAIN r |-> Item(i, r[i])]

KNext ==
  \/ m.pc = "decompose" /\ m' = [m EXCEPT !.pc = "circle", !.s = KDecompose(r)]
  \/ m.pc = "circle"    /\ m' = [m EXCEPT !.pc = "tag", !.s = KCircle(m.s)]
  \/ m.pc = "tag"       /\ LET b == KBase(m.s) s2 == KTagPost(m.s, b)
                           IN m' = [m EXCEPT !.pc = "move", !.s = s2, !.base = IF b = 0 THEN 0 ELSE s2[b].id,
                                             !.i = b, !.ops = IF b = 0 THEN <<>> ELSE KOps(s2, b, KPrimary)]
  \/ m.pc = "move" /\ m.ops # <<>> /\ m' = [m EXCEPT !.s = KApply(m.s, m.base, Head(m.ops), KPrimary), !.ops = Tail(m.ops)]
  \/ m.pc = "move" /\ m.ops = <<>> /\ m' = [m EXCEPT !.pc = "done", !.s = KFinish(m.s, m.i, KPrimary)]

MNext ==
  \/ m.pc = "circle"    /\ m' = [m EXCEPT !.pc = "kinzibase", !.s = MCircle(MItems)]
  \/ m.pc = "kinzibase" /\ LET b == MBaseIdx(m.s)
                           IN m' = IF b = 0 THEN [m EXCEPT !.pc = "done"]
                                    ELSE [m EXCEPT !.pc = "tagging", !.s = MKinziBase(m.s), !.i = b + 1]
  \/ m.pc = "tagging" /\ m.i <= Len(m.s) /\ LET t == MTagOne(m.s, m.i, m.z)
                                            IN m' = [m EXCEPT !.s = t.s, !.z = t.z, !.i = m.i + 1]
  \/ m.pc = "tagging" /\ m.i > Len(m.s) /\ m' = [m EXCEPT !.pc = "sort"]
  \/ m.pc = "sort" /\ m' = [m EXCEPT !.pc = "done", !.s = MSort(m.s)]

Next == /\ (fam = "khmer" /\ KNext) \/ (fam = "myanmar" /\ MNext)
        /\ UNCHANGED <<fam, r>>
        \* decreasing measure: every step advances the program counter, the list of moves or the index
        /\ \/ PcRank[m'.pc] > PcRank[m.pc]
           \/ Len(m'.ops) < Len(m.ops)
           \/ m'.i > m.i
Spec == Init /\ [][Next]_vars

\* ---- invariants ------------------------------------------------------------------------------------------
Done == m.pc = "done"

Agree ==
  Done => IF fam = "khmer"
          THEN /\ m.s = KClosed(KItems, KPrimary)
               /\ \A d \in KReadings : KRun(KItems, d) = KClosed(KItems, d)
          ELSE /\ m.s = MClosed(MItems)
               /\ MRun(MItems) = m.s

IsPermOf(out, in) == Len(out) = Len(in) /\ IdSet(out) = IdSet(in) /\ Cardinality(IdSet(out)) = Len(out)
Permutes ==
  Done => IF fam = "khmer"
          THEN \A d \in KReadings :
                  LET out == KClosed(KItems, d) in == KCircle(KItems) mv == KMovedIds(KItems, d)
                  IN /\ IsPermOf(out, in)
                     /\ IdsOf(Drop(out, mv)) = IdsOf(Drop(in, mv))
                     /\ [i \in DOMAIN out |-> out[i].c] = [i \in DOMAIN out |-> in[PosOfId(in, out[i].id)].c]
          ELSE LET out == m.s in == MCircle(MItems) mv == MMovedIds(MItems)
               IN /\ IsPermOf(out, in)
                  /\ IdsOf(Drop(out, mv)) = IdsOf(Drop(in, mv))

Design ==
  Done => IF fam = "khmer"
          THEN \A d \in KReadings :
                 LET out == KClosed(KItems, d) in == KCircle(KItems) b == KBase(in)
                     bp == IF b = 0 THEN 0 ELSE PosOfId(out, in[b].id)
                     pf == {i \in DOMAIN out : "pref" \in out[i].m}
                 IN b > 0 =>
                    /\ \A i \in DOMAIN out : i > bp => KPostBase \subseteq out[i].m
                    /\ out[bp].m \cap {"pref", "blwf", "abvf", "cfar"} = {}
                    /\ pf = {} \/ (Cardinality(pf) = 2 /\ \E i \in pf : i + 1 \in pf /\ out[i].c = "H" /\ out[i + 1].c = "Ra")
                    /\ (\E i \in DOMAIN out : "cfar" \in out[i].m) => pf # {}
                    /\ (d.order = "matraFirst" /\ pf # {}) => Max(pf) = bp - 1
                    /\ (d.order = "matraFirst" /\ \E i \in DOMAIN in : i > b /\ in[i].c = "VPre") => out[1].c = "VPre"
                    /\ \A i \in DOMAIN out : i < bp => (out[i].c = "VPre" \/ i \in pf)
          ELSE LET out == m.s in == MCircle(MItems) b == MBaseIdx(in) k == MKinzi(in)
               IN b > 0 =>
                  /\ \A i \in 1..Len(out) - 1 : MRank[out[i].p] <= MRank[out[i + 1].p]
                  /\ \A i \in DOMAIN out : out[i].p # "none"
                  /\ LET bz == {i \in DOMAIN out : out[i].p = "Base"}
                     IN /\ \E i \in bz : out[i].id = in[b].id
                        /\ k > 0 => \A j \in 1..k : out[Max(bz) + j].id = in[j].id
                  /\ \A i \in DOMAIN out : out[i].c = "VPre" => \A j \in 1..i : out[j].c \in {"VPre", "VS"}
                  /\ \A i, j \in DOMAIN out : (out[i].p = "BeforeSub" /\ out[j].p = "Below") => i < j

Emit ==
  /\ (Done /\ Tier # "font") =>
       PrintT(<<"CASE", ToJson(
          IF fam = "khmer"
          THEN LET e == KOut(m.s) IN [f |-> fam, r |-> r, e |-> e, x |-> SetToSeq(KAccept(KItems) \ {e})]
          ELSE [f |-> fam, r |-> r, e |-> MOut(m.s), x |-> <<>>])>>)
  /\ (m.pc = "decompose" /\ r = <<"C">>) =>
       /\ PrintT(<<"FONT", ToJson(KFontDesc)>>)
       /\ PrintT(<<"FONT", ToJson(MFontDesc)>>)
       /\ PrintT(<<"ALPHA", ToJson([khmer |-> KAlpha, myanmar |-> MAlpha])>>)
=============================================================================
