--------------------------- MODULE Trace_Reorder ---------------------------
(***************************************************************************)
(* Trace judge for X10 (impl -> spec), judging style.  One event per call  *)
(* of Font::map_glyphs + Font::shape:                                      *)
(*   a = [f (family), font ("spec" = the specification's font, else the    *)
(*        name of a repository font), text, run (characters map_glyphs     *)
(*        handed to shape), seg (clusters of the run as the real           *)
(*        segmentation made them: <<positions, kind>>, position 0 = the    *)
(*        dotted circle the Khmer splitter prepends) ]                     *)
(*   o = [out (<<character, state>> per shaped glyph; state -3 = not       *)
(*        observed, repository font: the characters of every glyph in      *)
(*        order), err, panic]                                              *)
(* Segmentation is X07's subject and an INPUT here.  The event conforms    *)
(* iff the call neither panicked nor failed, the Khmer run is the text     *)
(* with U+17C1 inserted before every split vowel, and `out` is the         *)
(* concatenation, cluster by cluster, of a result Reorder accepts for the  *)
(* cluster (dotted circle decided by Reorder, not taken from `seg`):       *)
(*   Khmer  "valid"   KAccept (closed form under one Dev_ reading)         *)
(*          "broken"  (glyphs outside the grammar) unchanged, in order;    *)
(*                    no basic feature (global ones or nothing)            *)
(*   Myanmar "valid"  MClosed, every glyph through all stages in order     *)
(*          "broken"  orphan signs: dotted circle + MClosed; a cluster     *)
(*                    without any sign (simple cluster, glyph outside the  *)
(*                    grammar): with or without dotted circle              *)
(*                    (Dev_SimpleClusterCircle - X07's finding, not judged *)
(*                    here)                                                *)
(* Dev_OrphanOrder: a gathered run of SEVERAL glyphs outside the grammar   *)
(* (Myanmar "broken" cluster of more than one glyph) is not a cluster of   *)
(* the documents; the documents allsorts cites tag every below-base vowel  *)
(* as below-base, the reference loop only those of the first below-base    *)
(* zone - any order of dotted circle + the glyphs is accepted there, every *)
(* glyph through all stages.  Well-ordered orphan clusters are compared    *)
(* exactly by the generated cases (MC_Reorder).                            *)
(* Repository fonts: their GSUB merges and reorders glyphs, so only the    *)
(* set of characters is judged (nothing lost, nothing invented).           *)
(***************************************************************************)
EXTENDS Reorder

Rec == ndJsonDeserialize(IOEnv.TRACE)

VARIABLE l
tvars == <<l>>

KRunClass(cp) == LET c == KClassCp(cp) IN IF c = "Split" THEN "M" ELSE c
RECURSIVE KDecomposeCps(_)
KDecomposeCps(t) == IF t = <<>> THEN <<>>
                    ELSE (IF KClassCp(Head(t)) = "Split" THEN <<6081, Head(t)>> ELSE <<Head(t)>>) \o KDecomposeCps(Tail(t))

\* dependent signs of the Myanmar blocks (Unicode charts): a "broken" cluster containing one is a cluster of
\* orphan signs and needs a dotted circle
In(cp, a, b) == cp >= a /\ cp <= b
MIsSign(cp) == \/ In(cp, 4139, 4158) \/ In(cp, 4182, 4185) \/ In(cp, 4190, 4192)
               \/ In(cp, 4194, 4196) \/ In(cp, 4199, 4205) \/ In(cp, 4209, 4212)
               \/ In(cp, 4226, 4237) \/ cp = 4239 \/ In(cp, 4250, 4253)
               \/ cp = 43493 \/ In(cp, 43643, 43645) \/ cp \in {65024, 8204, 8205}

ItemsOf(e, pos) == LET p == SelectSeq(pos, LAMBDA x : x # 0)
                   IN [k \in DOMAIN p |-> Item(p[k], IF e.a.f = "khmer" THEN KRunClass(e.a.run[p[k]]) ELSE MClassCp(e.a.run[p[k]]))]

Plain(items, st) == LET v == Visible(items) IN [i \in DOMAIN v |-> <<v[i].id, st>>]

\* acceptable results of one cluster, as sequences of <<id, state>>
ClusterAcc(e, cl) ==
  LET items == ItemsOf(e, cl[1])
  IN IF e.a.f = "khmer"
     THEN IF cl[2] = "valid" THEN KAccept(items) ELSE {Plain(items, st) : st \in {0, 65, 81}}
     ELSE IF cl[2] = "valid" THEN {MOut(MClosed(items))}
          ELSE IF \E i \in DOMAIN items : MIsSign(e.a.run[items[i].id])
               THEN {MOut(MClosed(items))}
               ELSE {MOut(MClosed(items))} \cup {Plain(items, st) : st \in {0, MDone}}       \* Dev_SimpleClusterCircle

CpOfId(e, id) == IF id = 0 THEN 9676 ELSE e.a.run[id]
Observed(e)   == e.a.font = "spec"
\* an accepted sequence in the vocabulary of o.out
Conc(e, a) == [i \in DOMAIN a |-> <<CpOfId(e, a[i][1]), IF Observed(e) THEN a[i][2] ELSE -3>>]
MatchesAt(e, a, off) == /\ off + Len(a) - 1 <= Len(e.o.out)
                        /\ SubSeq(e.o.out, off, off + Len(a) - 1) = Conc(e, a)

Count(x, v) == Cardinality({i \in DOMAIN x : x[i] = v})
BagEq(x, y) == Len(x) = Len(y) /\ \A v \in {x[i] : i \in DOMAIN x} : Count(x, v) = Count(y, v)
\* Dev_OrphanOrder
Loose(e, cl) == e.a.f = "myanmar" /\ cl[2] = "broken" /\ Len(cl[1]) > 1
LooseRef(e, cl) == Conc(e, MOut(MClosed(ItemsOf(e, cl[1]))))
LooseAt(e, cl, off) == LET ref == LooseRef(e, cl)
                       IN off + Len(ref) - 1 <= Len(e.o.out) /\ BagEq(SubSeq(e.o.out, off, off + Len(ref) - 1), ref)

RECURSIVE MatchFrom(_, _, _)
MatchFrom(e, j, off) ==
  IF j > Len(e.a.seg) THEN off = Len(e.o.out) + 1
  ELSE IF Loose(e, e.a.seg[j]) THEN LooseAt(e, e.a.seg[j], off) /\ MatchFrom(e, j + 1, off + Len(LooseRef(e, e.a.seg[j])))
  ELSE \E a \in ClusterAcc(e, e.a.seg[j]) : MatchesAt(e, a, off) /\ MatchFrom(e, j + 1, off + Len(a))

\* repository fonts: bag of characters only
RepoOk(e) ==
  LET outc == [i \in DOMAIN e.o.out |-> e.o.out[i][1]]
      vis  == SelectSeq(e.a.run, LAMBDA c : c \notin {8204, 8205})
      nodc(x) == SelectSeq(x, LAMBDA c : c # 9676)
      extra == Count(outc, 9676) - Count(vis, 9676)
      set(x) == {x[i] : i \in DOMAIN x}
  \* a multiple substitution repeats the characters of its glyph: sets, not bags
  IN set(nodc(outc)) = set(nodc(vis)) /\ Len(outc) >= Len(vis) /\ extra >= 0

\* for the key: greedy walk to the first cluster nothing acceptable matches; <<j, off>>
RECURSIVE FirstFail(_, _, _)
FirstFail(e, j, off) ==
  IF j > Len(e.a.seg) THEN <<j, off>>
  ELSE LET ok == {a \in ClusterAcc(e, e.a.seg[j]) : MatchesAt(e, a, off)}
       IN IF Loose(e, e.a.seg[j])
          THEN (IF LooseAt(e, e.a.seg[j], off) THEN FirstFail(e, j + 1, off + Len(LooseRef(e, e.a.seg[j]))) ELSE <<j, off>>)
          ELSE IF ok = {} THEN <<j, off>> ELSE FirstFail(e, j + 1, off + Len(CHOOSE a \in ok : TRUE))

ClassOfCp(e, cp) == IF e.a.f = "khmer" THEN KRunClass(cp) ELSE MClassCp(cp)
Cps(s) == [i \in DOMAIN s |-> s[i][1]]
CommonPrefix(x, y) == LET d == {i \in 1..Min({Len(x), Len(y)}) : x[i] # y[i]} IN IF d = {} THEN Min({Len(x), Len(y)}) ELSE Min(d) - 1

KeyOf(e) ==
  LET ff  == FirstFail(e, 1, 1)
      j   == ff[1]
      off == ff[2]
  IN IF j > Len(e.a.seg) THEN <<e.a.f, "length", "trailing">>
     ELSE LET cl   == e.a.seg[j]
              acc  == {Conc(e, a) : a \in ClusterAcc(e, cl)}
              lens == {Len(a) : a \in acc}
              got  == SubSeq(e.o.out, off, Min({Len(e.o.out), off + Max(lens) - 1}))
              same == {a \in acc : Len(a) <= Len(got) /\ Cps(a) = Cps(SubSeq(got, 1, Len(a)))}
          IN IF same # {}
             THEN LET a == CHOOSE a \in same : \A b \in same : CommonPrefix(a, got) >= CommonPrefix(b, got)
                      k == CommonPrefix(a, got) + 1
                  IN <<e.a.f, "mask", cl[2], ClassOfCp(e, a[k][1]), ToString(a[k][2]), ToString(got[k][2])>>
             ELSE LET a == CHOOSE a \in acc : \A b \in acc : CommonPrefix(Cps(a), Cps(got)) >= CommonPrefix(Cps(b), Cps(got))
                      k == CommonPrefix(Cps(a), Cps(got)) + 1
                  IN IF k > Len(got) \/ k > Len(a) THEN <<e.a.f, "length", cl[2]>>
                     ELSE <<e.a.f, "order", cl[2], ClassOfCp(e, a[k][1]), ClassOfCp(e, got[k][1])>>

Verdict(e) ==
  IF e.o.panic # "" THEN [ok |-> FALSE, key |-> <<e.a.f, "panic">>]
  \* nothing reached the shaper (a lone variation selector is absorbed by map_glyphs): no cluster, nothing to judge here
  \* (gsub_apply_myanmar answers ComplexScript(EmptyBuffer) for an empty run - totality is C02's subject)
  ELSE IF e.a.run = <<>> THEN [ok |-> e.o.out = <<>>, key |-> <<e.a.f, "length", "empty-run">>]
  ELSE IF e.o.err # "" THEN [ok |-> FALSE, key |-> <<e.a.f, "error">>]
  ELSE IF e.a.f = "khmer" /\ 6109 \notin {e.a.text[i] : i \in DOMAIN e.a.text} /\ e.a.run # KDecomposeCps(e.a.text)
       THEN [ok |-> FALSE, key |-> <<e.a.f, "decompose">>]
  ELSE IF ~Observed(e) THEN (IF RepoOk(e) THEN [ok |-> TRUE, key |-> <<>>] ELSE [ok |-> FALSE, key |-> <<e.a.f, "characters", "repository-font">>])
  ELSE IF MatchFrom(e, 1, 1) THEN [ok |-> TRUE, key |-> <<>>]
  ELSE [ok |-> FALSE, key |-> KeyOf(e)]

TInit == l = 1
TNext == l <= Len(Rec) /\ l' = l + 1

Judged ==
  l <= Len(Rec) =>
     LET e == Rec[l]
         v == Verdict(e)
     IN IF v.ok THEN TRUE
        ELSE PrintT(<<"MISMATCH", ToJson([i |-> e.i, case |-> e.case, f |-> e.a.f, font |-> e.a.font, text |-> e.a.text,
                                          run |-> e.a.run, seg |-> e.a.seg, out |-> e.o.out, key |-> v.key,
                                          err |-> e.o.err, panic |-> e.o.panic])>>)

TSpec == TInit /\ [][TNext]_tvars
AllConsumed == TLCGet("stats").diameter = Len(Rec) + 1
=============================================================================
