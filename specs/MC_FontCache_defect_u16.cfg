CONSTANTS
  CodeKeys = FALSE
  HasFV = TRUE
  HasImages = TRUE
  StoreFailed = TRUE
  PosKeyMode = "u16"
  IdxKeyMode = "abs"
  MaxDepth = 1
  MaxDepthDmg = 2
  MaxDepthCollide = 2
  Families = {"dmg", "collide"}
SPECIFICATION Spec
VIEW View
INVARIANTS EmitCase
CHECK_DEADLOCK FALSE
