CONSTANTS
  LenMain <- LenQuick
  LenLang = 3
SPECIFICATION Spec
INVARIANTS SmallStepIsClosedForm Design FontFaithful Emit
CHECK_DEADLOCK FALSE
