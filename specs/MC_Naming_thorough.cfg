CONSTANTS
  GnLen = 2
  GnLenSmall = 3
  DecLen = 4
  NavLen = 3
  InstWide = TRUE
SPECIFICATION Spec
INVARIANTS Lemmas Emit
CHECK_DEADLOCK FALSE
