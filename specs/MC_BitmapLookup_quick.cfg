CONSTANTS
  Deep = FALSE
SPECIFICATION Spec
INVARIANTS CacheCoherent ChoicesOK WantsOK EmitCase
CHECK_DEADLOCK FALSE
