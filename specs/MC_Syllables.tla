---------------------------- MODULE MC_Syllables ----------------------------
(***************************************************************************)
(* Bounded exhaustive exploration of Syllables and generator of replay     *)
(* cases (spec -> impl) for X07.                                           *)
(*                                                                         *)
(* Init picks an alphabet (a family plus a set of symbols, every symbol a  *)
(* tuple of grammar terminals realised by at least one character - ASSUMEd *)
(* against the dumped class table) or one of the hand-written long class   *)
(* strings (fed glyph by glyph too).  Feed appends ONE glyph and performs ONE transition of the     *)
(* derivative automaton of every kind of the family, so the tree of class  *)
(* strings up to the bound IS the set of machine runs: every state is      *)
(* (string, machine states after the string).  Invariants, every state:    *)
(* (all inside the single formula Check, so that tables are shared)        *)
(*   MachinesAgree      small-step automaton = denotational semantics:     *)
(*                      accepting iff the whole string is in the language, *)
(*                      last accepted prefix = longest match               *)
(*   SegmentationOK     the scanner loop yields a segmentation in the      *)
(*                      declarative sense (partition, no empty cluster,    *)
(*                      longest match + precedence, maximal invalid runs)  *)
(*   Lemmas             position invariance; the dotted circle repairs a   *)
(*                      broken cluster; the Dev_ClusterLength readings     *)
(*                      coincide on strings shorter than 6 glyphs          *)
(*   Emit               one CASE per state: class string, expected         *)
(*                      observation (primary reading), the other Dev_      *)
(*                      readings, and - where the code model with all      *)
(*                      named defects differs - that model's observation   *)
(*                      and the smallest defect set producing it           *)
(***************************************************************************)
EXTENDS Syllables, Json, IOUtils, SequencesExt

CONSTANTS LenOf       \* alphabet -> longest string explored

VARIABLES fam,    \* family
          alpha,  \* name of the alphabet ("directed" = a hand-written string, not extended)
          s,      \* the class string
          ms,     \* machine state of every kind after the string (grammar reading "std")
          todo    \* rest of a hand-written string still to be fed (<<>> for the exhaustive alphabets)
vars == <<fam, alpha, s, ms, todo>>

X == <<>>
Sy(t) == <<t>>
Syms(ts) == {Sy(t) : t \in ts}

Alpha ==
  [ indicAll  |-> [fam |-> "indic", syms |-> {X} \cup Syms({"C", "Ra", "V", "N", "H", "ZWJ", "ZWNJ", "M", "SM", "A",
                                                              "GB", "DC", "Repha", "CM", "S", "CS"})],
    indicCore |-> [fam |-> "indic", syms |-> Syms({"C", "Ra", "N", "H", "ZWJ", "ZWNJ", "M", "SM"})],
    indicDeep |-> [fam |-> "indic", syms |-> Syms({"C", "N", "H", "ZWJ", "ZWNJ", "M"})],
    indicBase |-> [fam |-> "indic", syms |-> Syms({"V", "Ra", "H", "N", "ZWJ", "C", "M", "DC", "GB", "Repha"})],
    khmerAll  |-> [fam |-> "khmer", syms |-> {X} \cup Syms({"C", "Ra", "V", "N", "ZWJ", "ZWNJ", "M", "SM", "GB", "DC",
                                                              "RS", "Coeng"})],
    khmerCore |-> [fam |-> "khmer", syms |-> Syms({"C", "Coeng", "M", "N", "RS", "ZWNJ", "SM"})],
    myAll     |-> [fam |-> "myanmar",
                   syms |-> {X, <<"C", "P">>, <<"C", "Ra">>, <<"P", "R">>, <<"VPst", "SM">>} \cup
                            Syms({"A", "As", "C", "D", "DB", "GB", "H", "IV", "MH", "ML", "MR", "MW", "MY", "PT", "R",
                                  "SM", "VAbv", "VBlw", "VPre", "VPst", "VS", "ZWJ", "ZWNJ"})],
    myMed     |-> [fam |-> "myanmar", syms |-> Syms({"C", "As", "MY", "MR", "MW", "MH", "ML", "H"})],
    myVow     |-> [fam |-> "myanmar", syms |-> Syms({"C", "VPre", "VAbv", "VBlw", "A", "DB", "As", "VPst", "MH"})],
    myCap     |-> [fam |-> "myanmar", syms |-> Syms({"C", "VAbv", "A", "VPst", "MH"})],
    myTone    |-> [fam |-> "myanmar", syms |-> Syms({"C", "VPst", "PT", "A", "DB", "As", "SM", "ZWJ"})],
    myBase    |-> [fam |-> "myanmar", syms |-> {X, <<"C", "Ra">>, <<"P", "R">>} \cup
                                               Syms({"As", "H", "C", "CS", "IV", "GB", "VS", "R"})] ]

\* the class table dumped from allsorts through verif_class: family -> list of realised symbols
Realised == JsonDeserialize(IOEnv.X07_SYMS)
RealisedSet(f) == {Realised[f][k] : k \in DOMAIN Realised[f]}
\* "CS" is not realised in the Myanmar blocks (only Vedic extension characters carry it, myanmar.rs notes);
\* it is kept in the grammar and exercised through the directed strings of the judge only if realised
Usable(a) == {y \in Alpha[a].syms : y \in RealisedSet(Alpha[a].fam)}
ASSUME \A a \in DOMAIN Alpha : Alpha[a].syms \ Usable(a) \subseteq {<<"CS">>}

\* hand-written long strings (beyond the exhaustive bound): repetition caps, the Microsoft "well-formed
\* cluster" example, conjunct chains
RECURSIVE Times(_, _)
Times(q, n) == IF n = 0 THEN <<>> ELSE q \o Times(q, n - 1)
Y(ts) == [k \in DOMAIN ts |-> Sy(ts[k])]
Directed ==
  << [fam |-> "indic",   s |-> Times(Y(<<"C", "H">>), 4) \o Y(<<"C">>)],                     \* 5 consonants: one syllable
     [fam |-> "indic",   s |-> Times(Y(<<"C", "H">>), 5) \o Y(<<"C", "M", "SM">>)],          \* 6 consonants: split
     [fam |-> "indic",   s |-> Y(<<"C">>) \o Times(Y(<<"M">>), 5)],                          \* 5 matras
     [fam |-> "indic",   s |-> Y(<<"C", "M">>) \o Times(Y(<<"ZWJ">>), 4) \o Y(<<"M">>)],      \* z{0,3}
     [fam |-> "indic",   s |-> Y(<<"C", "SM">>) \o Times(Y(<<"A">>), 4)],                    \* A{0,3}
     [fam |-> "indic",   s |-> Y(<<"Ra", "H", "V", "N">>) \o Times(Y(<<"H", "C">>), 5) \o Y(<<"M">>)],
     [fam |-> "indic",   s |-> Y(<<"DC", "N">>) \o Times(Y(<<"ZWJ", "H", "C", "ZWJ", "N">>), 4) \o Y(<<"CM", "H", "ZWNJ", "SM", "SM", "ZWNJ", "A">>)],
     [fam |-> "indic",   s |-> Y(<<"Repha", "C", "N", "H", "ZWJ", "N", "C", "M", "N", "ZWJ", "H", "ZWJ", "Ra", "ZWNJ", "SM">>)],
     [fam |-> "khmer",   s |-> Y(<<"C">>) \o Times(Y(<<"Coeng", "C">>), 5) \o Y(<<"M", "SM">>)],      \* 4 + 1 coengs
     [fam |-> "khmer",   s |-> Y(<<"C">>) \o Times(Y(<<"Coeng", "C">>), 6) \o Y(<<"M">>)],            \* 6 coengs
     [fam |-> "khmer",   s |-> Y(<<"C">>) \o Times(Y(<<"M">>), 6)],
     [fam |-> "khmer",   s |-> Y(<<"C", "ZWNJ", "RS", "N", "N", "Coeng", "Ra", "RS", "ZWJ", "M", "N", "Coeng", "V", "SM", "SM", "SM">>)],
     [fam |-> "myanmar", s |-> << <<"C", "Ra">>, Sy("As"), Sy("H"), Sy("C"), Sy("H"), Sy("C"), Sy("MY"), Sy("MR"), Sy("MW"),
                                  Sy("MH"), Sy("VPre"), Sy("VAbv"), Sy("VBlw"), Sy("DB"), Sy("As"), Sy("VPst"), Sy("MH"),
                                  Sy("VAbv"), Sy("DB"), Sy("PT"), Sy("A"), Sy("A"), Sy("DB"), Sy("SM"), Sy("SM") >>],   \* the Microsoft example
     [fam |-> "myanmar", s |-> Y(<<"C">>) \o Times(Y(<<"VPre">>), 11)],
     [fam |-> "myanmar", s |-> Y(<<"C">>) \o Times(Y(<<"H", "C">>), 11) \o Y(<<"VPst">>)],
     [fam |-> "myanmar", s |-> Y(<<"C">>) \o Times(Y(<<"VPst", "MH">>), 11)],
     [fam |-> "myanmar", s |-> Y(<<"C">>) \o Times(Y(<<"PT", "A">>), 11) \o Times(Y(<<"SM">>), 11) \o Y(<<"ZWNJ">>)],
     [fam |-> "myanmar", s |-> Y(<<"C", "VPst", "MH", "MH", "MH", "MH", "MH", "As">>)],
     [fam |-> "myanmar", s |-> Y(<<"R", "R">>) \o <<X, X>> \o Y(<<"R">>) \o <<X>> \o Y(<<"C", "R">>) \o <<X>>] >>

KindsOf(f) == Kinds[f]
Machines0(f) == [j \in DOMAIN KindsOf(f) |-> M0(Gram[f].std[KindsOf(f)[j]])]

Init == \/ \E a \in DOMAIN Alpha : /\ fam = Alpha[a].fam /\ alpha = a /\ s = <<>> /\ todo = <<>>
                                     /\ ms = Machines0(Alpha[a].fam)
        \/ \E q \in DOMAIN Directed : /\ fam = Directed[q].fam /\ alpha = "directed" /\ s = <<>>
                                      /\ todo = Directed[q].s /\ ms = Machines0(Directed[q].fam)

\* one glyph = one transition of every matcher
Feed == /\ alpha # "directed"
        /\ Len(s) < LenOf[alpha]
        /\ \E y \in Usable(alpha) :
              /\ s' = Append(s, y)
              /\ ms' = TLCEval([j \in DOMAIN ms |-> Step(ms[j], y)])
        /\ UNCHANGED <<fam, alpha, todo>>
\* a hand-written string is fed glyph by glyph as well (its prefixes are cases too)
FeedDirected ==
        /\ alpha = "directed" /\ todo # <<>>
        /\ s' = Append(s, Head(todo))
        /\ todo' = Tail(todo)
        /\ ms' = TLCEval([j \in DOMAIN ms |-> Step(ms[j], Head(todo))])
        /\ UNCHANGED <<fam, alpha>>
Next == Feed \/ FeedDirected
Spec == Init /\ [][Next]_vars

---------------------------------------------------------------------------
\* The caps of Dev_ClusterLength (at least 4) need 5 glyphs to show (Lemmas); below that only "std" is computed.
Long == Len(s) >= 5

\* All invariants are evaluated in ONE formula so that the tables are computed once per state.
\*   MachinesAgree   small-step automaton = denotational semantics
\*   SegmentationOK  the loop yields a segmentation in the declarative sense
\*   Lemmas          position invariance; the dotted circle repairs a broken cluster
\*   Emit            the CASE line
Check ==
  Len(s) > 0 =>
  LET btS  == BestTable(fam, "std", s)
      btD  == IF Long THEN BestTable(fam, "dev", s) ELSE btS
      segS == SegT(btS, fam, "std", FALSE, s)
      segD == IF Long THEN SegT(btD, fam, "dev", FALSE, s) ELSE segS
      \* code model (Myanmar): every named defect reading; the grammar-level one needs its own table
      btC  == IF fam = "myanmar" THEN BestTable(fam, "devmh", s) ELSE btD
      segC == IF fam = "myanmar" THEN SegT(btC, fam, "devmh", TRUE, s) ELSE segD
      e    == Obs(fam, segS)
      xdev == Obs(fam, segD)
      code == Obs(fam, segC)
      differs == code # e /\ code # xdev
      MachinesAgree ==
        \A k \in DOMAIN ms :
           LET lg == btS[1].L[k]
           IN /\ ms[k].pos = Len(s)
              /\ Nullable(ms[k].d) <=> (lg = Len(s))
              /\ ms[k].last = lg
              /\ Dead(ms[k]) => lg < Len(s)
      SegmentationOK ==
        /\ IsSegmentation(btS, fam, "std", s, segS)
        /\ Long => IsSegmentation(btD, fam, "dev", s, segD)
        /\ (Len(s) = 4) => Seg(fam, "dev", s) = segS        \* the caps need 5 glyphs to show
      Lemmas ==
        /\ (Len(s) >= 2 /\ Len(s) <= 4) =>
              \A k \in DOMAIN ms : SuffixLemma(Gram[fam].std[KindsOf(fam)[k]], s, 1)
        /\ RepairLemma(fam, "std", s)
      MinDefects ==
        LET ok(S) == \E k \in DOMAIN Readings : Obs(fam, SegUnder(fam, Readings[k], S, s)) = code
        IN OrderedDefectSets[FirstOk(ok)]
  IN /\ MachinesAgree
     /\ SegmentationOK
     /\ Lemmas
     /\ PrintT(<<"CASE", ToJson([f |-> fam, a |-> alpha, r |-> s, e |-> e,
                                  x |-> IF xdev # e THEN <<xdev>> ELSE <<>>,
                                  k |-> IF differs THEN code ELSE <<>>,
                                  d |-> IF differs THEN SetToSeq(MinDefects) ELSE <<>>,
                                  dc |-> DcSpec(fam, segS, s)])>>)

\* ---- bounds -------------------------------------------------------------------
LenQuick    == [indicAll |-> 3, indicCore |-> 4, indicDeep |-> 5, indicBase |-> 3, khmerAll |-> 3, khmerCore |-> 5,
                myAll |-> 3, myMed |-> 4, myVow |-> 4, myCap |-> 0, myTone |-> 4, myBase |-> 3]
LenThorough == [indicAll |-> 4, indicCore |-> 5, indicDeep |-> 6, indicBase |-> 4, khmerAll |-> 4, khmerCore |-> 5,
                myAll |-> 3, myMed |-> 5, myVow |-> 5, myCap |-> 6, myTone |-> 5, myBase |-> 4]
LenTiny     == [indicAll |-> 2, indicCore |-> 2, indicDeep |-> 2, indicBase |-> 2, khmerAll |-> 2, khmerCore |-> 2,
                myAll |-> 2, myMed |-> 2, myVow |-> 2, myCap |-> 2, myTone |-> 2, myBase |-> 2]
=============================================================================
