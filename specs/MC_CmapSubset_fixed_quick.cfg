CONSTANTS
  Deep = FALSE
  FixFmt0 = TRUE
SPECIFICATION Spec
INVARIANTS DesignOK
CHECK_DEADLOCK FALSE
