CONSTANTS
  Deep = FALSE
  FixFmt0 = TRUE
  FixSymInv = TRUE
SPECIFICATION Spec
INVARIANTS DesignOK
CHECK_DEADLOCK FALSE
