CONSTANTS
  GnLen = 2
  GnLenSmall = 2
  DecLen = 3
  NavLen = 2
  InstWide = FALSE
SPECIFICATION Spec
INVARIANTS Lemmas Emit
CHECK_DEADLOCK FALSE
