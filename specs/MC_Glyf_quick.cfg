CONSTANTS
  MaxDepth = 6
  LongNs <- LongQuick
  L1 <- L1All
  L2 <- L2Quick
  L3 <- L3Quick
  Variants <- VariantsAll
  TK2 <- TK2Quick
  TK3 <- TK3Quick
  ZeroInstr <- ZeroInstrQuick
  L4 <- L4Quick
SPECIFICATION Spec
INVARIANTS DesignOK EmitCase
CHECK_DEADLOCK FALSE
