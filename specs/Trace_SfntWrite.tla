--------------------------- MODULE Trace_SfntWrite ---------------------------
(***************************************************************************)
(* Trace judge for written fonts (impl -> spec).  A "Written" event holds  *)
(* the projection of the bytes some allsorts writing operation returned    *)
(* (FontBuilder via whole_font, subset, instance) and the cross-table      *)
(* facts measured by the harness's independent readers; a "Tables" event   *)
(* holds only cross-table facts (table sets reconstructed from WOFF2).     *)
(* Both must satisfy SfntWrite!WellFormedSfnt / CrossTableOK.              *)
(***************************************************************************)
EXTENDS SfntWrite, Json, IOUtils

Rec == ndJsonDeserialize(IOEnv.TRACE)
VARIABLE l

Bad(e) ==
  \* whole_font copies tables verbatim: only structural validity is promised for it
  \* and, when the harness prescribed what the source consists of (a collection member), that these ARE its tables
  CASE e.ev = "Written" -> Violated(e.o.sfnt) \cup (IF e.a.op \in {"subset", "instance"}
                                                    THEN CrossViolated(e.o.cross)
                                                    ELSE IF MemberOK(e.o.cross) THEN {} ELSE {"MemberOK"})
    [] e.ev = "Tables"  -> CrossViolated(e.o.cross)
    [] e.ev = "Unreadable" -> {"Unreadable"}
    \* a table provider was handed out for a member index the collection does not have
    [] e.ev = "NoSuchMember" -> {"MemberOK"}
    [] OTHER -> {}

NoCross(e) == e.ev \in {"Unreadable", "NoSuchMember"}

TInit == l = 1
TNext ==
  /\ l <= Len(Rec)
  /\ l' = l + 1
  /\ LET e == Rec[l] IN
     IF Bad(e) = {} THEN TRUE
     ELSE PrintT(<<"MISMATCH", ToJson([i |-> e.i, case |-> e.case, op |-> e.a.op,
                                       violated |-> SetToSortSeq(Bad(e), LAMBDA a, b : TRUE),
                                       derived |-> IF NoCross(e) THEN <<>>
                                                   ELSE SetToSortSeq(DerivedBadNames(e.o.cross), LAMBDA a, b : TRUE),
                                       cffidx |-> IF NoCross(e) THEN <<>>
                                                  ELSE SetToSortSeq(CffBadIndexes(e.o.cross), LAMBDA a, b : TRUE),
                                       member |-> IF NoCross(e) THEN <<>>
                                                  ELSE SetToSortSeq(MemberBadNames(e.o.cross), LAMBDA a, b : TRUE),
                                       cmap |-> IF NoCross(e) THEN <<>>
                                                ELSE SetToSortSeq(CmapBadNames(e.o.cross), LAMBDA a, b : TRUE)])>>)
TSpec == TInit /\ [][TNext]_l
AllConsumed == TLCGet("stats").diameter = Len(Rec) + 1
=============================================================================
