CONSTANTS
  HUGE = 1000000
SPECIFICATION TSpec
POSTCONDITION AllConsumed
CHECK_DEADLOCK FALSE
