----------------------------- MODULE MC_SubsetCid -----------------------------
(***************************************************************************)
(* Bounded exhaustive exploration of the subroutine / Font DICT side of    *)
(* Subset.tla (CFF::subset on a CID-keyed font, and on a name-keyed font   *)
(* with subroutines: used subroutines kept at stable indices, Subr INDEXes *)
(* nothing uses dropped, FDSelect rebuilt from the old ids) and generator  *)
(* of replay cases (spec -> impl).                                         *)
(*                                                                         *)
(* A case = (Font DICT of every glyph, call pattern of every glyph,        *)
(*           requested glyph ids, numberOfHMetrics):                       *)
(*   - every assignment of the NGD glyphs to NFD Font DICTs (a name-keyed   *)
(*     font is the assignment "all 0", generated a second time as such),   *)
(*   - every choice of a call pattern per glyph out of six: no call; a     *)
(*     local subroutine; a local subroutine that calls a local and a       *)
(*     global one, the global one calling a local one again; the LAST       *)
(*     global subroutine (which calls the first); a global subroutine that  *)
(*     calls the LAST local one of the glyph's Font DICT - the only use of  *)
(*     it; the last local and the first global one in front of the shape,  *)
(*   - every list of distinct glyph ids that starts with 0: Font DICTs     *)
(*     whose every user is omitted, subroutines used by one retained glyph  *)
(*     only, the same subroutine index used in two Font DICTs.             *)
(* The NUMBER of subroutines per INDEX rotates with the case number over    *)
(* both sides of the bias boundaries (3 .. 6, 1239 / 1240, 33899 / 33900):  *)
(* the calls are written with biased operands, so a rebuilt INDEX of        *)
(* another bias class re-targets them (Subset.tla BiasKept).  The          *)
(* representation of the source rotates too (hdrSize, offSize, Top DICT    *)
(* order, charset format, FDSelect format 0 / 3, block order, gap).        *)
(* `Init` picks the case; one action per iteration of the loop of          *)
(* CFF::subset, one for the rebuilding of the INDEXes and FDSelect.        *)
(***************************************************************************)
EXTENDS Subset, Json

CONSTANTS NGD,      \* glyphs in the source font
          NFD,      \* Font DICTs
          Pats,     \* call patterns to choose from (subset of 0 .. 5)
          NHMsD,    \* values of numberOfHMetrics
          Fd0Free   \* FALSE: .notdef lives in Font DICT 0 (the Font DICTs are alike up to their bodies)

VARIABLES src, req, rep, st, pc, out
vars == <<src, req, rep, st, pc, out>>

GIds == 1 .. NGD - 1
RECURSIVE Perms(_, _)
Perms(S, k) == IF k = 0 THEN {<<>>} ELSE UNION {{Append(p, x) : x \in S \ Range(p)} : p \in Perms(S, k - 1)}
ReqLists == UNION {{<<0>> \o p : p \in Perms(GIds, k)} : k \in 0 .. NGD - 1}

\* (local, global) subroutine counts: small ones, and both sides of the two bias boundaries
Counts == << <<3, 3>>, <<4, 5>>, <<5, 3>>, <<3, 6>>, <<6, 4>>, <<3, 4>>, <<4, 3>>, <<1239, 1240>>, <<5, 5>>, <<3, 3>>, <<4, 4>>,
             <<1240, 1239>>, <<6, 6>>, <<3, 5>>, <<5, 4>>, <<1240, 1240>>, <<4, 6>>, <<3, 3>>, <<33899, 3>>, <<6, 3>>, <<5, 6>>,
             <<3, 33900>>, <<4, 4>>, <<33900, 33899>> >>

\* unbiased call items; L(k) / G(k) get their operand when the counts are known
Lc(nl, k) == <<1, k - Bias(nl)>>
Gc(ng, k) == <<2, k - Bias(ng)>>
Sh(t) == <<0, t>>

LocalIndex(f, nl, ng) ==
  [n |-> nl, empty |-> FALSE,
   def |-> << <<0, <<Sh(10 + f)>> >>,
              <<1, <<Lc(nl, 0), Sh(20 + f), Gc(ng, 1)>> >>,
              <<nl - 1, <<Sh(30 + f)>> >> >>]
GlobalIndex(nl, ng) ==
  [n |-> ng, empty |-> FALSE,
   def |-> << <<0, <<Sh(40)>> >>,
              <<1, <<Sh(41), Lc(nl, nl - 1)>> >>,
              <<ng - 1, <<Sh(42), Gc(ng, 0)>> >> >>]

Pattern(p, g, nl, ng) ==
  CASE p = 0 -> <<Sh(g)>>
    [] p = 1 -> <<Sh(g), Lc(nl, 0)>>
    [] p = 2 -> <<Lc(nl, 1), Sh(g)>>
    [] p = 3 -> <<Sh(g), Gc(ng, ng - 1)>>
    [] p = 4 -> <<Gc(ng, 1)>>
    [] OTHER -> <<Lc(nl, nl - 1), Gc(ng, 0), Sh(g)>>

RECURSIVE SumSeq(_, _)
SumSeq(q, i) == IF i > Len(q) THEN 0 ELSE i * (q[i] + 1) + SumSeq(q, i + 1)
CaseNumD(fdv, pv, r, h, t1) == SumSeq(fdv, 1) + 3 * SumSeq(pv, 1) + 5 * SumSeq(r, 1) + 7 * h + (IF t1 THEN 11 ELSE 0)

PatSeq == <<0, 3, 1, 5, 2, 4>>
MkCidSrc(fdv, pv, r, h, t1) ==
  LET k == CaseNumD(fdv, pv, r, h, t1)
      c == Counts[(k % Len(Counts)) + 1]
      nl == c[1]
      ng == c[2]
      nfd == IF t1 THEN 1 ELSE NFD
      p0 == PatSeq[(k % 6) + 1]      \* .notdef takes its pattern from the case number
  IN [n     |-> NGD,
      t1    |-> t1,
      nfd   |-> nfd,
      fd    |-> fdv,
      \* CIDs (names of a name-keyed font) of glyphs 1 ..: not the identity
      name  |-> <<0>> \o [i \in 1 .. NGD - 1 |-> 2 * i + (k % 3)],
      glyph |-> [i \in 1 .. NGD |-> Pattern(IF i = 1 THEN p0 ELSE pv[i - 1], i - 1, nl, ng)],
      \* the Font DICTs have the same number of local subroutines (a global subroutine that calls a local one means the
      \* same index in each), and different bodies
      lsub  |-> [f \in 1 .. nfd |-> LocalIndex(f - 1, nl, ng)],
      gsub  |-> GlobalIndex(nl, ng),
      nhm   |-> h,
      long  |-> [j \in 1 .. h |-> [adv |-> 500 + 10 * (j - 1), lsb |-> 3 * (j - 1) - 4]],
      tail  |-> [j \in 1 .. NGD - h |-> 3 * (h + j - 1) - 4]]

HdrSeq == <<4, 5, 8>>
HoffSeq == <<4, 1, 2, 3>>
IoffSeq == <<0, 3, 4, 0>>
MkCidRep(k) ==
  [hdr     |-> HdrSeq[(k % 3) + 1],
   hoff    |-> HoffSeq[(k % 4) + 1],
   ioff    |-> IoffSeq[((k \div 2) % 4) + 1],
   top     |-> k % 4,
   short   |-> (k \div 3) % 2 = 1,
   charset |-> <<"f0", "f1", "f2">>[((k \div 3) % 3) + 1],
   fdsel   |-> IF (k \div 2) % 2 = 0 THEN 0 ELSE 3,
   blocks  |-> (k \div 2) % 3,
   gap     |-> IF (k \div 5) % 2 = 0 THEN 0 ELSE 3]

Init ==
  \E fdv \in [1 .. NGD -> 0 .. NFD - 1], pv \in [1 .. NGD - 1 -> Pats], r \in ReqLists, h \in NHMsD, t1 \in BOOLEAN :
    /\ t1 => \A i \in 1 .. NGD : fdv[i] = 0
    /\ Fd0Free \/ fdv[1] = 0
    /\ src = MkCidSrc(fdv, pv, r, h, t1)
    /\ rep = MkCidRep(CaseNumD(fdv, pv, r, h, t1))
    /\ req = r
    /\ st = Cid0
    /\ pc = "loop"
    /\ out = [n |-> 0]

LoopStep == pc = "loop" /\ st.cur < Len(req) /\ st' = CidStep(src, req, st) /\ UNCHANGED <<src, req, rep, pc, out>>
LoopEnd == pc = "loop" /\ st.cur = Len(req) /\ pc' = "rebuild" /\ UNCHANGED <<src, req, rep, st, out>>
Rebuild == pc = "rebuild" /\ out' = CidOut(src, st) /\ pc' = "done" /\ UNCHANGED <<src, req, rep, st>>
Next == LoopStep \/ LoopEnd \/ Rebuild
Spec == Init /\ [][Next]_vars

\* ---- invariants ---------------------------------------------------------------------
SrcOK ==
  \* every generated glyph draws something in the source, within the nesting limit (the property quantifies over fonts
  \* whose glyphs have outlines; a call that leaves an INDEX is refused by allsorts)
  /\ \A g \in 0 .. src.n - 1 : CidOutline(src, g).ok /\ Len(CidOutline(src, g).ls) >= 1
  /\ \A f \in 1 .. src.nfd : src.lsub[f].n >= 3 /\ \A i \in 1 .. Len(src.lsub[f].def) : src.lsub[f].def[i][1] \in 0 .. src.lsub[f].n - 1
  /\ src.gsub.n >= 3

LoopOK ==
  /\ st.cur <= Len(req) /\ Len(st.glyphs) = st.cur /\ Len(st.fdsel) = st.cur /\ Len(st.usedL) = st.cur
  /\ \A i \in 1 .. st.cur : st.glyphs[i] = src.glyph[req[i] + 1] /\ st.fdsel[i] = src.fd[req[i] + 1]
  /\ st.usedG = UNION {UsedGlobal(src, req[i]) : i \in 1 .. st.cur}

DoneOK ==
  pc = "done" =>
    /\ CidSubsetRelation(src, req, out)
    /\ BiasKept(src, out)
    \* nothing but what is used is kept; an INDEX nothing uses is gone
    /\ \A f \in 1 .. src.nfd :
         (out.lsub[f].n = 0) = (\A i \in 1 .. Len(req) : src.fd[req[i] + 1] = f - 1 => UsedLocal(src, req[i]) = {})
    /\ (out.gsub.n = 0) = (\A i \in 1 .. Len(req) : UsedGlobal(src, req[i]) = {})
    /\ LET recs == CffOrder(req) hm == HmtxRun(src, recs, <<>>) IN
       \A n \in 1 .. Len(req) : hm[n].adv = AdvOf(src, req[n]) /\ hm[n].lsb = LsbOf(src, req[n])

DesignOK == SrcOK /\ LoopOK /\ DoneOK

\* ---- CASE lines --------------------------------------------------------------------
TokJson(r) == IF r.ok THEN r.ls ELSE <<-1>>
IndexJson(ix) == [n |-> ix.n, def |-> ix.def]
Case ==
  [n     |-> NGD,
   t1    |-> src.t1,
   nfd   |-> src.nfd,
   fd    |-> src.fd,
   nhm   |-> src.nhm,
   adv   |-> [k \in 1 .. src.nhm |-> src.long[k].adv],
   lsb   |-> [g \in 1 .. NGD |-> LsbOf(src, g - 1)],
   names |-> src.name,
   glyphs |-> src.glyph,
   lsub  |-> [f \in 1 .. src.nfd |-> IndexJson(src.lsub[f])],
   gsub  |-> IndexJson(src.gsub),
   rep   |-> rep,
   req   |-> req,
   \* information for the vacuity counters of the driver: which INDEXes the machine drops, what it keeps
   kept  |-> [g |-> out.gsub.n, l |-> [f \in 1 .. src.nfd |-> out.lsub[f].n],
              gused |-> Len(out.gsub.def), lused |-> [f \in 1 .. src.nfd |-> Len(out.lsub[f].def)]],
   exp   |-> [n |-> Len(req),
              glyphs |-> [i \in 1 .. Len(req) |-> <<TokJson(CidOutline(out, i - 1)), AdvOf(src, req[i]), LsbOf(src, req[i])>>]]]

EmitCase == pc = "done" => PrintT(<<"CASE", ToJson(Case)>>)
=============================================================================
