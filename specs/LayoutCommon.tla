---------------------------- MODULE LayoutCommon ----------------------------
(***************************************************************************)
(* OpenType Layout common semantics, shared by Gsub (C04) and meant to be  *)
(* EXTENDed by a sibling Gpos spec:                                        *)
(*   - Coverage formats 1/2, ClassDef formats 1/2 (format 0 = absent)       *)
(*   - GDEF glyph classes, mark attachment classes, mark glyph sets        *)
(*   - lookup flags and the "is this glyph seen by the lookup" predicate   *)
(*   - skipping iteration (next / previous / n-th matching glyph)          *)
(*   - matching of backtrack / input / lookahead sequences under skipping  *)
(*   - normal form of (chained) context rules for formats 1-3 and the      *)
(*     "first matching rule of the first matching subtable" selection      *)
(*   - feature selection: FeatureVariations substitution, lookup ordering  *)
(*                                                                         *)
(* A run is a sequence of records with at least a field g (glyph id).      *)
(* All indices into runs are 1-based here (0 = "none"); glyph ids, class   *)
(* values, coverage indices, sequence indices and lookup indices are the   *)
(* 0-based numbers of the font format.                                     *)
(*                                                                         *)
(* ctx is a record carrying at least                                       *)
(*    gdef    : [cls : ClassDef, att : ClassDef, sets : Seq(Coverage)]      *)
(*    lookups : Seq(Lookup)           Lookup has flag, mfs                  *)
(*    dev     : [refilter : BOOLEAN, mfsBug : BOOLEAN, mfp : "att"|"mfs"|"both"] *)
(***************************************************************************)
EXTENDS Integers, Sequences, FiniteSets

Bit(flag, b) == (flag \div b) % 2 = 1            \* b is a power of two

MinOf(S) == CHOOSE x \in S : \A y \in S : x <= y
MaxOf(S) == CHOOSE x \in S : \A y \in S : x >= y

---------------------------------------------------------------------------
(* Coverage.  fmt 1: glyphs = sorted glyph array, coverage index = position.*)
(*            fmt 2: ranges = <<start, end, startCoverageIndex>> records.   *)
CoverageIndex(cov, g) ==                           \* -1 = not covered
  IF cov.fmt = 1
  THEN LET ks == {k \in 1 .. Len(cov.glyphs) : cov.glyphs[k] = g} IN
       IF ks = {} THEN -1 ELSE MinOf(ks) - 1
  ELSE LET ks == {k \in 1 .. Len(cov.ranges) : cov.ranges[k][1] <= g /\ g <= cov.ranges[k][2]} IN
       IF ks = {} THEN -1
       ELSE LET r == cov.ranges[MinOf(ks)] IN r[3] + (g - r[1])

Covered(cov, g) == CoverageIndex(cov, g) >= 0

CoverageCount(cov) ==
  IF cov.fmt = 1 THEN Len(cov.glyphs)
  ELSE LET RECURSIVE Sum(_)
           Sum(k) == IF k = 0 THEN 0 ELSE Sum(k - 1) + (cov.ranges[k][2] - cov.ranges[k][1] + 1)
       IN Sum(Len(cov.ranges))

\* A coverage table is well formed when glyphs ascend strictly and the coverage indices count up
WFCoverage(cov) ==
  IF cov.fmt = 1
  THEN \A k \in 1 .. Len(cov.glyphs) - 1 : cov.glyphs[k] < cov.glyphs[k + 1]
  ELSE /\ cov.fmt = 2
       /\ \A k \in 1 .. Len(cov.ranges) : cov.ranges[k][1] <= cov.ranges[k][2]
       /\ \A k \in 1 .. Len(cov.ranges) - 1 : cov.ranges[k][2] < cov.ranges[k + 1][1]
       /\ \A k \in 1 .. Len(cov.ranges) :
             cov.ranges[k][3] = (IF k = 1 THEN 0
                                 ELSE cov.ranges[k - 1][3] + cov.ranges[k - 1][2] - cov.ranges[k - 1][1] + 1)

(* ClassDef.  fmt 0: absent (every glyph class 0); fmt 1: start + class    *)
(* array; fmt 2: <<start, end, class>> range records.                      *)
ClassOf(cd, g) ==
  CASE cd.fmt = 0 -> 0
    [] cd.fmt = 1 -> IF g >= cd.start /\ g - cd.start < Len(cd.classes)
                     THEN cd.classes[g - cd.start + 1] ELSE 0
    [] cd.fmt = 2 -> LET ks == {k \in 1 .. Len(cd.ranges) : cd.ranges[k][1] <= g /\ g <= cd.ranges[k][2]} IN
                     IF ks = {} THEN 0 ELSE cd.ranges[MinOf(ks)][3]

WFClassDef(cd) ==
  CASE cd.fmt = 0 -> TRUE
    [] cd.fmt = 1 -> TRUE
    [] cd.fmt = 2 -> /\ \A k \in 1 .. Len(cd.ranges) : cd.ranges[k][1] <= cd.ranges[k][2]
                     /\ \A k \in 1 .. Len(cd.ranges) - 1 : cd.ranges[k][2] < cd.ranges[k + 1][1]
    [] OTHER -> FALSE

---------------------------------------------------------------------------
(* GDEF *)
ClassBase == 1
ClassLig  == 2
ClassMark == 3

GlyphClass(gdef, g) == ClassOf(gdef.cls, g)
MarkAttach(gdef, g) == ClassOf(gdef.att, g)
InMarkSet(gdef, s, g) == s < Len(gdef.sets) /\ Covered(gdef.sets[s + 1], g)

(* Lookup flags *)
IgnoreBase(flag)  == Bit(flag, 2)
IgnoreLig(flag)   == Bit(flag, 4)
IgnoreMarks(flag) == Bit(flag, 8)
UseMfs(flag)      == Bit(flag, 16)
AttachType(flag)  == flag \div 256

(***************************************************************************)
(* Is glyph g seen (not skipped) by a lookup with flag/mfs?  OpenType:      *)
(* bases / ligatures / marks are skipped per bit; markAttachmentType skips *)
(* marks of another attachment class; useMarkFilteringSet skips MARKS that *)
(* are not in the set - glyphs that are not marks are never affected by    *)
(* the two mark filters.  ctx.dev.mfsBug = TRUE is the (non-conformant)    *)
(* reading in which a mark filtering set also hides every non-mark glyph;  *)
(* it is used only to classify mismatches, never accepted.                 *)
(* Dev_MarkFilterPrecedence (ctx.dev.mfp): a flag with markAttachmentType   *)
(* AND useMarkFilteringSet.  OpenType states the two filters separately and *)
(* is silent on the combination; three readings are accepted:              *)
(*   "both" a mark is seen when it passes both filters (literal reading)    *)
(*   "mfs"  the filtering set alone decides (HarfBuzz)                       *)
(*   "att"  the attachment type alone decides (allsorts)                     *)
(* ignoreMarks supersedes both in every reading.                            *)
(***************************************************************************)
Matches(ctx, L, g) ==
  LET cls == GlyphClass(ctx.gdef, g)
      attOK == MarkAttach(ctx.gdef, g) = AttachType(L.flag)
      setOK == InMarkSet(ctx.gdef, L.mfs, g) IN
  /\ ~(IgnoreBase(L.flag) /\ cls = ClassBase)
  /\ ~(IgnoreLig(L.flag) /\ cls = ClassLig)
  /\ IF IgnoreMarks(L.flag) THEN cls # ClassMark
     ELSE IF AttachType(L.flag) # 0 /\ UseMfs(L.flag)
          THEN cls # ClassMark \/ (CASE ctx.dev.mfp = "att" -> attOK
                                     [] ctx.dev.mfp = "mfs" -> setOK
                                     [] OTHER -> attOK /\ setOK)
     ELSE IF AttachType(L.flag) # 0 THEN cls # ClassMark \/ attOK
     ELSE IF UseMfs(L.flag) THEN (IF cls = ClassMark THEN setOK ELSE ~ctx.dev.mfsBug)
     ELSE TRUE

BothMarkFilters(L) == AttachType(L.flag) # 0 /\ UseMfs(L.flag) /\ ~IgnoreMarks(L.flag)

WFFlag(gdef, L) ==
  /\ L.flag \in 0 .. 65535
  /\ ~Bit(L.flag, 32) /\ ~Bit(L.flag, 64) /\ ~Bit(L.flag, 128)        \* reserved bits
  /\ (UseMfs(L.flag) => L.mfs < Len(gdef.sets))

\* least j > i seen by L, 0 if none
NextM(ctx, L, run, i) ==
  LET js == {j \in i + 1 .. Len(run) : Matches(ctx, L, run[j].g)} IN
  IF js = {} THEN 0 ELSE MinOf(js)

\* greatest j < i seen by L, 0 if none
PrevM(ctx, L, run, i) ==
  LET js == {j \in 1 .. i - 1 : Matches(ctx, L, run[j].g)} IN
  IF js = {} THEN 0 ELSE MaxOf(js)

\* n-th seen glyph after i (n = 0: i itself, unfiltered), 0 if the run ends first
RECURSIVE Nth(_, _, _, _, _)
Nth(ctx, L, run, i, n) ==
  IF n = 0 THEN i
  ELSE LET j == NextM(ctx, L, run, i) IN
       IF j = 0 THEN 0 ELSE Nth(ctx, L, run, j, n - 1)

\* positions of the next n seen glyphs after i (shorter if the run ends first)
RECURSIVE FwdPositions(_, _, _, _, _)
FwdPositions(ctx, L, run, i, n) ==
  IF n = 0 THEN <<>>
  ELSE LET j == NextM(ctx, L, run, i) IN
       IF j = 0 THEN <<>> ELSE <<j>> \o FwdPositions(ctx, L, run, j, n - 1)

---------------------------------------------------------------------------
(* Sequence matching.  kind "g": items are glyph ids; "c": class values of  *)
(* class definition aux; "v": coverage tables.                              *)
ItemOK(kind, aux, item, g) ==
  CASE kind = "g" -> g = item
    [] kind = "c" -> ClassOf(aux, g) = item
    [] kind = "v" -> Covered(item, g)

\* match seq[k..] against the seen glyphs after i; result: index of the last glyph matched
\* (i itself if nothing was left to match), 0 on failure
RECURSIVE MatchFwd(_, _, _, _, _, _, _, _)
MatchFwd(ctx, L, run, i, kind, aux, seq, k) ==
  IF k > Len(seq) THEN i
  ELSE LET j == NextM(ctx, L, run, i) IN
       IF j = 0 THEN 0
       ELSE IF ~ItemOK(kind, aux, seq[k], run[j].g) THEN 0
       ELSE MatchFwd(ctx, L, run, j, kind, aux, seq, k + 1)

\* backtrack: seq[1] is the seen glyph nearest before i
RECURSIVE MatchBack(_, _, _, _, _, _, _, _)
MatchBack(ctx, L, run, i, kind, aux, seq, k) ==
  IF k > Len(seq) THEN TRUE
  ELSE LET j == PrevM(ctx, L, run, i) IN
       IF j = 0 THEN FALSE
       ELSE IF ~ItemOK(kind, aux, seq[k], run[j].g) THEN FALSE
       ELSE MatchBack(ctx, L, run, j, kind, aux, seq, k + 1)

(***************************************************************************)
(* A rule in normal form: the first input glyph (at the cursor) has been    *)
(* dealt with by the subtable's coverage / class / first coverage table;   *)
(* input holds the remaining input items.                                  *)
(*   [kind, baux, iaux, laux, back, input, look, recs]                      *)
(* recs = sequence of <<sequenceIndex, lookupListIndex>>.                   *)
(***************************************************************************)
RuleInputEnd(ctx, L, run, i, r) == MatchFwd(ctx, L, run, i, r.kind, r.iaux, r.input, 1)

RuleMatches(ctx, L, run, i, r) ==
  /\ MatchBack(ctx, L, run, i, r.kind, r.baux, r.back, 1)
  /\ LET e == RuleInputEnd(ctx, L, run, i, r) IN
     /\ e # 0
     /\ MatchFwd(ctx, L, run, e, r.kind, r.laux, r.look, 1) # 0

NoCd == [fmt |-> 0]

(* Candidate rules a (chained) context subtable offers for glyph g at the   *)
(* cursor, in the order of the font.  sets[k] = <<>> stands for a NULL set  *)
(* offset (or an empty set).                                                *)
CandidateRules(sub, chain, g) ==
  LET Norm(kind, ba, ia, la, r) ==
        [kind |-> kind, baux |-> ba, iaux |-> ia, laux |-> la,
         back |-> IF chain THEN r.back ELSE <<>>, input |-> r.input,
         look |-> IF chain THEN r.look ELSE <<>>, recs |-> r.recs]
  IN
  CASE sub.fmt = 1 ->
         LET ci == CoverageIndex(sub.cov, g) IN
         IF ci < 0 \/ ci >= Len(sub.sets) THEN <<>>
         ELSE [k \in 1 .. Len(sub.sets[ci + 1]) |-> Norm("g", NoCd, NoCd, NoCd, sub.sets[ci + 1][k])]
    [] sub.fmt = 2 ->
         IF ~Covered(sub.cov, g) THEN <<>>
         ELSE LET c == ClassOf(sub.icd, g) IN          \* class of the first glyph, class 0 included
              IF c >= Len(sub.sets) THEN <<>>
              ELSE [k \in 1 .. Len(sub.sets[c + 1]) |->
                      Norm("c", IF chain THEN sub.bcd ELSE NoCd, sub.icd,
                                IF chain THEN sub.lcd ELSE NoCd, sub.sets[c + 1][k])]
    [] sub.fmt = 3 ->
         IF ~Covered(sub.input[1], g) THEN <<>>
         ELSE << [kind |-> "v", baux |-> NoCd, iaux |-> NoCd, laux |-> NoCd,
                  back |-> IF chain THEN sub.back ELSE <<>>,
                  input |-> SubSeq(sub.input, 2, Len(sub.input)),
                  look |-> IF chain THEN sub.look ELSE <<>>, recs |-> sub.recs] >>

RECURSIVE FirstRuleIn(_, _, _, _, _, _)
FirstRuleIn(ctx, L, run, i, rules, k) ==
  IF k > Len(rules) THEN <<>>
  ELSE IF RuleMatches(ctx, L, run, i, rules[k]) THEN <<rules[k]>>
  ELSE FirstRuleIn(ctx, L, run, i, rules, k + 1)

\* first matching rule of the first subtable that has one: <<rule>> or <<>>
RECURSIVE FirstRule(_, _, _, _, _, _, _)
FirstRule(ctx, L, run, i, subs, chain, s) ==
  IF s > Len(subs) THEN <<>>
  ELSE LET r == FirstRuleIn(ctx, L, run, i, CandidateRules(subs[s], chain, run[i].g), 1) IN
       IF r # <<>> THEN r ELSE FirstRule(ctx, L, run, i, subs, chain, s + 1)

\* first subtable whose primary coverage contains g; 0 if none
FirstCovering(subs, g) ==
  LET ss == {s \in 1 .. Len(subs) : Covered(subs[s].cov, g)} IN
  IF ss = {} THEN 0 ELSE MinOf(ss)

---------------------------------------------------------------------------
(* Well-formedness of context subtables (shared by GSUB 5/6 and GPOS 7/8)   *)
WFRecs(recs, inputLen, nLookups) ==
  \A k \in 1 .. Len(recs) : recs[k][1] \in 0 .. inputLen - 1 /\ recs[k][2] \in 0 .. nLookups - 1

MaxClass(cd) ==
  CASE cd.fmt = 0 -> 0
    [] cd.fmt = 1 -> IF cd.classes = <<>> THEN 0 ELSE MaxOf({cd.classes[k] : k \in 1 .. Len(cd.classes)} \cup {0})
    [] cd.fmt = 2 -> IF cd.ranges = <<>> THEN 0 ELSE MaxOf({cd.ranges[k][3] : k \in 1 .. Len(cd.ranges)} \cup {0})

WFContextSub(sub, chain, nLookups) ==
  CASE sub.fmt = 1 ->
         /\ WFCoverage(sub.cov) /\ Len(sub.sets) = CoverageCount(sub.cov)
         /\ \A s \in 1 .. Len(sub.sets) : \A k \in 1 .. Len(sub.sets[s]) :
               WFRecs(sub.sets[s][k].recs, Len(sub.sets[s][k].input) + 1, nLookups)
    [] sub.fmt = 2 ->
         /\ WFCoverage(sub.cov) /\ WFClassDef(sub.icd)
         /\ (chain => WFClassDef(sub.bcd) /\ WFClassDef(sub.lcd))
         /\ Len(sub.sets) > MaxClass(sub.icd)          \* one set (possibly NULL) per class
         /\ \A s \in 1 .. Len(sub.sets) : \A k \in 1 .. Len(sub.sets[s]) :
               WFRecs(sub.sets[s][k].recs, Len(sub.sets[s][k].input) + 1, nLookups)
    [] sub.fmt = 3 ->
         /\ Len(sub.input) >= 1
         /\ \A k \in 1 .. Len(sub.input) : WFCoverage(sub.input[k])
         /\ (chain => /\ \A k \in 1 .. Len(sub.back) : WFCoverage(sub.back[k])
                      /\ \A k \in 1 .. Len(sub.look) : WFCoverage(sub.look[k]))
         /\ WFRecs(sub.recs, Len(sub.input), nLookups)
    [] OTHER -> FALSE

WFGdef(gdef) ==
  /\ WFClassDef(gdef.cls) /\ WFClassDef(gdef.att)
  /\ \A k \in 1 .. Len(gdef.sets) : WFCoverage(gdef.sets[k])

---------------------------------------------------------------------------
(***************************************************************************)
(* Feature selection (script / language system already chosen: the          *)
(* language system lists every feature of `features` in order).             *)
(*   features : Seq([tag, lookups])                                         *)
(*   vars     : Seq([conds : Seq(<<axis, min, max>>), subst : Seq([fi, lookups])])   *)
(*   tuple    : Seq(F2Dot14 raw)       <<>> = no variation instance           *)
(*   request  : Seq([tag, alt])        the enabled features                   *)
(***************************************************************************)
CondHolds(c, tuple) == c[1] < Len(tuple) /\ c[2] <= tuple[c[1] + 1] /\ tuple[c[1] + 1] <= c[3]

\* the first FeatureVariation record whose condition set holds; 0 if none / no instance
ActiveVar(vars, tuple) ==
  IF tuple = <<>> THEN 0
  ELSE LET ks == {k \in 1 .. Len(vars) : \A c \in 1 .. Len(vars[k].conds) : CondHolds(vars[k].conds[c], tuple)} IN
       IF ks = {} THEN 0 ELSE MinOf(ks)

FeatureLookups(features, vars, tuple, fi) ==
  LET v == ActiveVar(vars, tuple) IN
  IF v = 0 THEN features[fi + 1].lookups
  ELSE LET ss == {s \in 1 .. Len(vars[v].subst) : vars[v].subst[s].fi = fi} IN
       IF ss = {} THEN features[fi + 1].lookups ELSE vars[v].subst[MinOf(ss)].lookups

FindFeature(features, tag) ==                       \* feature index or -1
  LET fs == {f \in 1 .. Len(features) : features[f].tag = tag} IN
  IF fs = {} THEN -1 ELSE MinOf(fs) - 1

SeqToSet(s) == {s[k] : k \in 1 .. Len(s)}

RECURSIVE SortedSeq(_)
SortedSeq(S) == IF S = {} THEN <<>> ELSE LET m == MinOf(S) IN <<m>> \o SortedSeq(S \ {m})

(* The lookups to apply: union over the enabled features, each once, in     *)
(* lookup-list order.  Result: Seq(<<lookupIndex, alt>>); alt is the         *)
(* alternate requested by (the first request entry carrying the tag of) the *)
(* last enabled feature that lists the lookup - it matters for type 3 only. *)
LookupOrder(features, vars, tuple, request) ==
  LET Fi(r) == FindFeature(features, request[r].tag)
      Ls(r) == IF Fi(r) < 0 THEN {} ELSE SeqToSet(FeatureLookups(features, vars, tuple, Fi(r)))
      all == UNION {Ls(r) : r \in 1 .. Len(request)}
      TagOf(l) == request[MaxOf({r \in 1 .. Len(request) : l \in Ls(r)})].tag
      AltOf(l) == request[MinOf({r \in 1 .. Len(request) : request[r].tag = TagOf(l)})].alt
      ord == SortedSeq(all)
  IN [k \in 1 .. Len(ord) |-> <<ord[k], AltOf(ord[k])>>]

WFFeatures(features, vars, tuple, request, nLookups) ==
  /\ \A f \in 1 .. Len(features) : \A k \in 1 .. Len(features[f].lookups) : features[f].lookups[k] \in 0 .. nLookups - 1
  /\ \A f1, f2 \in 1 .. Len(features) : f1 # f2 => features[f1].tag # features[f2].tag
  /\ \A v \in 1 .. Len(vars) :
       /\ \A s \in 1 .. Len(vars[v].subst) :
            /\ vars[v].subst[s].fi \in 0 .. Len(features) - 1
            /\ \A k \in 1 .. Len(vars[v].subst[s].lookups) : vars[v].subst[s].lookups[k] \in 0 .. nLookups - 1
       /\ \A s \in 1 .. Len(vars[v].subst) - 1 : vars[v].subst[s].fi < vars[v].subst[s + 1].fi
       /\ \A c \in 1 .. Len(vars[v].conds) : vars[v].conds[c][2] <= vars[v].conds[c][3]
  \* behaviour the property does not constrain is kept out: rvrn ordering, fina, vert flags
  /\ \A r \in 1 .. Len(request) : request[r].tag \notin {"rvrn", "fina", "vert", "vrt2"}
  /\ \A r1, r2 \in 1 .. Len(request) : r1 # r2 => request[r1].tag # request[r2].tag
=============================================================================
