---------------------------- MODULE MC_BitmapData ----------------------------
(***************************************************************************)
(* Bounded exploration of BitmapData and generator of replay cases (X09).  *)
(*                                                                         *)
(* State: the case `c` (a strike, an index sub-table kind, ONE glyph       *)
(* record / an sbix strike; drawn by Init through nested quantifiers) and  *)
(* the row machine `m` of BitmapData (row, position in the bit stream,     *)
(* rows produced, run / done / eof; "skip" for records without pixel       *)
(* rows).  Next = ONE ROW of the image (BitmapData!RowStep).               *)
(* Invariants, checked on every state:                                     *)
(*   StepIsClosed   position = rows done x stride and the rows produced so *)
(*                  far = the closed form RowsClosed of that many rows     *)
(*   Terminal       done <=> the data has at least the size the format     *)
(*                  needs, then all h rows were produced and the swizzled  *)
(*                  result is a conformant answer; eof <=> data too short  *)
(*                  and the ONLY conformant answer is an error             *)
(*   SameImage      the byte-aligned and the bit-aligned encoding of the   *)
(*                  same picture decode to the same rows                   *)
(*   PackInverse    Pack(rows) = the bit-aligned image (pad cleared),      *)
(*                  unpack(Pack(rows)) = rows with the pad bits cleared    *)
(*   WantsOK        every conformant image has data for h rows, metrics in *)
(*                  at least one direction, the strike's ppem and depth    *)
(*   Emit           one CASE line per terminal state                       *)
(* ASSUMEd: SizeLemma on every (w, h, d) up to 40 x 12, swizzle involution.*)
(***************************************************************************)
EXTENDS BitmapData, SequencesExt, Json

CONSTANTS Deep          \* TRUE: larger parameter sets (thorough tier)

VARIABLES c, m
vars == <<c, m>>

---------------------------------------------------------------------------
\* encoders of the generator (they only BUILD records; the semantics above reads them)

U8(x) == IF x < 0 THEN x + 256 ELSE x
U16B(x) == <<(x \div 256) % 256, x % 256>>
I16B(x) == U16B(IF x < 0 THEN x + 65536 ELSE x)
U32B(x) == <<(x \div 16777216) % 256, (x \div 65536) % 256, (x \div 256) % 256, x % 256>>
SmallBytes(mm) == <<mm.h, mm.w, U8(mm.bx), U8(mm.by), mm.adv>>
BigBytes(mm) == <<mm.h, mm.w, U8(mm.hbx), U8(mm.hby), mm.hadv, U8(mm.vbx), U8(mm.vby), mm.vadv>>
NoBig == [h |-> 0, w |-> 0, hbx |-> 0, hby |-> 0, hadv |-> 0, vbx |-> 0, vby |-> 0, vadv |-> 0]

Strike(bd, fl) == [px |-> 20, py |-> 21, bd |-> bd, fl |-> fl, ha |-> 11, hd |-> -3, va |-> 6, vd |-> -5]
Sub(ifmt, imf, bm) == [ifmt |-> ifmt, imf |-> imf, bm |-> bm]

\* the picture: pixel bit q (0-based, rows without padding) of pattern p
PBit(p, q) == CASE p = 1 -> (q * q + (q \div 3)) % 2
                [] p = 2 -> IF (q % 7) \in {0, 3, 4} THEN 1 ELSE 0
                [] OTHER -> 1
Picture(p, w, h, d) == [q \in 1 .. h * w * d |-> PBit(p, q - 1)]
\* its two encodings; the bits that are NOT pixels are set (bit-aligned: the tail of the last byte;
\* byte-aligned, pattern 2: the tail of every row) so that a decoder leaking them is seen
BitAlignedImage(p, w, h, d) ==
  LET n == BitAlignedSize(w, h, d) IN
  BytesOfBits([q \in 1 .. 8 * n |-> IF q <= h * w * d THEN PBit(p, q - 1) ELSE 1])
ByteAlignedImage(p, w, h, d) ==
  LET rb == RowBytes(w, d) IN
  BytesOfBits([q \in 1 .. 8 * h * rb |->
                 LET r == (q - 1) \div (8 * rb)
                     i == (q - 1) % (8 * rb)
                 IN IF i < w * d THEN PBit(p, r * w * d + i) ELSE (IF p = 2 THEN 1 ELSE 0)])
ImageFor(al, p, w, h, d) == IF al = "bit" THEN BitAlignedImage(p, w, h, d) ELSE ByteAlignedImage(p, w, h, d)

Classes == {"exact", "short", "long1", "long4"}
Clip(img, cls) ==
  CASE cls = "exact" -> img
    [] cls = "short" -> SubSeq(img, 1, Len(img) - 1)
    [] cls = "long1" -> img \o <<165>>
    [] cls = "long4" -> img \o <<165, 90, 60, 195>>

SmallFor(w, h) == [k |-> "small", h |-> h, w |-> w, bx |-> -2, by |-> h + 1, adv |-> (w + 1) % 256]
BigFor(w, h) == [k |-> "big", h |-> h, w |-> w, hbx |-> -2, hby |-> h + 1, hadv |-> (w + 1) % 256,
                 vbx |-> -1, vby |-> -4, vadv |-> (h + 2) % 256]
BmOf(mm) == [h |-> mm.h, w |-> mm.w, hbx |-> mm.hbx, hby |-> mm.hby, hadv |-> mm.hadv, vbx |-> mm.vbx, vby |-> mm.vby, vadv |-> mm.vadv]
\* the metrics an index sub-table of format 2 / 5 carries when the record has its own (they must NOT apply)
OtherBm == [h |-> 9, w |-> 9, hbx |-> 3, hby |-> 3, hadv |-> 3, vbx |-> 3, vby |-> 3, vadv |-> 3]

HeaderBytes(imf, mm) == CASE HdrOf(imf) = "small" -> SmallBytes(mm) [] HdrOf(imf) = "big" -> BigBytes(mm) [] OTHER -> <<>>

\* case of the EBLC / CBLC route
Cb(fam, id, s, sub, rec, cls, maxbd, pic) ==
  [fam |-> fam, id |-> id, route |-> "cb", tbl |-> IF s.bd = 32 \/ AlignOf(sub.imf) = "png" THEN "cbdt" ELSE "ebdt",
   s |-> s, sub |-> sub, rec |-> rec, cls |-> cls, maxbd |-> maxbd, pic |-> pic]

\* ---- family "raw": format x depth x width x height x length class x pattern
WsOf(bd) == IF bd = 32 THEN (IF Deep THEN 0 .. 5 ELSE 0 .. 3)
            ELSE IF bd = 8 THEN 0 .. 9
            ELSE IF Deep THEN (0 .. 17) \cup {31, 33} ELSE 0 .. 9
Hs == IF Deep THEN 0 .. 5 ELSE 0 .. 3
Pats == IF Deep THEN {1, 2, 3} ELSE {1, 2}
Rot(n) == CASE n % 3 = 0 -> 1 [] n % 3 = 1 -> 3 [] OTHER -> 4
IfmtsFor(imf, w, h, bd) == IF imf = 5 THEN {2, 5} ELSE {Rot(w + h + bd)} \cup (IF w = 3 /\ h = 2 THEN {2, 5} ELSE {})
FlsFor(imf) == IF HdrOf(imf) = "small" THEN {1, 2} ELSE {1}

RawCase(imf, bd, w, h, cls, p, ifmt, fl) ==
  LET al  == AlignOf(imf)
      mm  == IF HdrOf(imf) = "small" THEN SmallFor(w, h) ELSE BigFor(w, h)
      bm  == IF imf = 5 THEN BmOf(mm) ELSE IF ifmt \in {2, 5} THEN OtherBm ELSE NoBig
      img == ImageFor(al, p, w, h, bd)
  IN Cb("raw", <<imf, bd, w, h, cls, p, ifmt, fl>>, Strike(bd, fl), Sub(ifmt, imf, bm),
        HeaderBytes(imf, mm) \o Clip(img, cls), cls, 32, [p |-> p, w |-> w, h |-> h])

IsRawCase(x) ==
  \E imf \in {1, 2, 5, 6, 7}, bd \in Depths : \E w \in WsOf(bd), h \in Hs : \E cls \in Classes, p \in Pats :
     \E ifmt \in IfmtsFor(imf, w, h, bd), fl \in FlsFor(imf) :
        /\ (cls = "short" => NeedBytes(AlignOf(imf), w, h, bd) >= 1)
        /\ x = RawCase(imf, bd, w, h, cls, p, ifmt, fl)

\* ---- family "metrics": which metrics apply and how they are converted
HW == {<<0, 0>>, <<1, 1>>, <<255, 0>>, <<2, 255>>}
Bearings == {<<0, 0>>, <<-128, 127>>, <<127, -128>>, <<-1, 5>>}
Advs == {0, 9, 255}
MetricsCase(imf, fl, hw, b, adv) ==
  LET h  == hw[1]
      w  == hw[2]
      sm == [k |-> "small", h |-> h, w |-> w, bx |-> b[1], by |-> b[2], adv |-> adv]
      bg == [k |-> "big", h |-> h, w |-> w, hbx |-> b[1], hby |-> b[2], hadv |-> adv,
             vbx |-> 0 - b[1] - 1, vby |-> IF b[2] > -128 THEN b[2] - 1 ELSE 127, vadv |-> 255 - adv]
      mm == IF HdrOf(imf) = "small" THEN sm ELSE bg
      al == AlignOf(imf)
      bd == IF al = "png" THEN 32 ELSE 1
      ifmt == IF HdrOf(imf) = "index" THEN (IF adv = 9 THEN 5 ELSE 2) ELSE Rot(adv + h)
      body == IF al = "png" THEN U32B(3) \o <<137, 80, 78>> ELSE ImageFor(al, 1, w, h, bd)
  IN Cb("metrics", <<imf, fl, h, w, b[1], b[2], adv>>, Strike(bd, fl),
        Sub(ifmt, imf, IF HdrOf(imf) = "index" THEN BmOf(bg) ELSE NoBig), HeaderBytes(imf, mm) \o body, "exact", 32, [p |-> 1, w |-> w, h |-> h])
IsMetricsCase(x) ==
  \E imf \in {1, 2, 5, 6, 7, 17, 18, 19} :
     \E fl \in (IF HdrOf(imf) = "small" THEN {0, 1, 2, 3, -127, -2, 4} ELSE {1}) :
        \E hw \in HW, b \in Bearings, adv \in Advs : x = MetricsCase(imf, fl, hw, b, adv)

\* ---- family "png": the length word of formats 17 / 18 / 19
PngBody(n) == [j \in 1 .. n |-> (37 * j + 100) % 256]
PngCase(imf, bd, n, how) ==
  LET mm   == IF HdrOf(imf) = "small" THEN SmallFor(7, 5) ELSE BigFor(7, 5)
      body == CASE how = "exact"   -> U32B(n) \o PngBody(n)
                [] how = "padded"  -> U32B(n) \o PngBody(n) \o <<238, 238, 238>>
                [] how = "beyond"  -> U32B(n + 1) \o PngBody(n)
                [] how = "huge"    -> <<255, 255, 255, 255>> \o PngBody(n)
                [] how = "noword"  -> <<0, 0>>
      ifmt == IF imf = 19 THEN (IF n = 1 THEN 5 ELSE 2) ELSE Rot(n)
  IN Cb("png", <<imf, bd, n, how>>, Strike(bd, 1), Sub(ifmt, imf, IF imf = 19 THEN BmOf(mm) ELSE NoBig),
        HeaderBytes(imf, mm) \o body, how, 32, [p |-> 0, w |-> 0, h |-> 0])
IsPngCase(x) == \E imf \in {17, 18, 19}, bd \in {8, 32}, n \in {0, 1, 7}, how \in {"exact", "padded", "beyond", "huge", "noword"} :
                   x = PngCase(imf, bd, n, how)

\* ---- family "comp": composite formats 8 / 9
CompBytes(n) == IF n = 0 THEN <<>> ELSE
  LET one(j) == U16B(300 * j + 2) \o <<U8(3 - 2 * j), U8(j * 40 - 128)>>
      RECURSIVE all(_)
      all(j) == IF j > n THEN <<>> ELSE one(j) \o all(j + 1)
  IN all(1)
CompCase(imf, n, how) ==
  LET mm   == IF imf = 8 THEN SmallFor(6, 4) ELSE BigFor(6, 4)
      full == (IF imf = 8 THEN <<77>> ELSE <<>>) \o U16B(n) \o CompBytes(n)
      body == CASE how = "exact" -> full
                [] how = "short" -> SubSeq(full, 1, Len(full) - 1)
                [] how = "long"  -> full \o <<1, 2, 3, 4, 5>>
  IN Cb("comp", <<imf, n, how>>, Strike(1, 1), Sub(Rot(n), imf, NoBig), HeaderBytes(imf, mm) \o body, how, 32, [p |-> 0, w |-> 0, h |-> 0])
IsCompCase(x) == \E imf \in {8, 9}, n \in 0 .. 3, how \in {"exact", "short", "long"} : x = CompCase(imf, n, how)

\* ---- family "depth": BitDepth filtering by the caller's maximum
DepthCase(bd, maxbd) ==
  Cb("depth", <<bd, maxbd>>, Strike(bd, 1), Sub(1, 6, NoBig), BigBytes(BigFor(1, 1)) \o ImageFor("byte", 3, 1, 1, bd), "exact", maxbd,
     [p |-> 3, w |-> 1, h |-> 1])
IsDepthCase(x) == \E bd \in Depths, maxbd \in Depths : x = DepthCase(bd, maxbd)

\* ---- family "nometrics": formats 5 / 19 under an index sub-table without metrics; "hdr": truncated headers
NoMetricsCase(imf, ifmt) ==
  Cb("nometrics", <<imf, ifmt>>, Strike(IF imf = 19 THEN 32 ELSE 1, 1), Sub(ifmt, imf, NoBig),
     IF imf = 19 THEN U32B(2) \o <<1, 2>> ELSE <<255, 255>>, "exact", 32, [p |-> 0, w |-> 0, h |-> 0])
HdrCase(imf, kk) ==
  LET mm == IF HdrOf(imf) = "small" THEN SmallFor(0, 0) ELSE BigFor(0, 0) IN
  Cb("hdr", <<imf, kk>>, Strike(1, 1), Sub(Rot(imf), imf, NoBig), SubSeq(HeaderBytes(imf, mm), 1, kk), "short", 32, [p |-> 0, w |-> 0, h |-> 0])
IsSmallCase(x) ==
  \/ \E imf \in {5, 19}, ifmt \in {1, 3, 4} : x = NoMetricsCase(imf, ifmt)
  \/ \E imf \in {1, 2, 6, 7, 8, 9, 17, 18} : \E kk \in {1, HdrLen(HdrOf(imf)) - 1} : x = HdrCase(imf, kk)

\* ---- family "sbix": glyph data records
SbixRec(ox, oy, tg, data) == I16B(ox) \o I16B(oy) \o tg \o data
Target == SbixRec(3, -4, TagPng, <<137, 80, 78, 71, 1>>)
SbixKinds == {"png", "jpg", "tiff", "mask", "flip", "zero", "dupe2", "dupe3", "dupe4", "dupe9", "dupe1", "dupe2long", "dupeshort", "dupeempty", "hdr7", "hdr1"}
SbixOrigins == {<<0, 0>>, <<-32768, 32767>>, <<-1, 5>>}
SbixCase(kind, org, n, ppem, ppi, g) ==
  LET pay == [j \in 1 .. n |-> (91 * j + 7) % 256]
      r1 == CASE kind = "png"  -> SbixRec(org[1], org[2], TagPng, pay)
              [] kind = "jpg"  -> SbixRec(org[1], org[2], TagJpg, pay)
              [] kind = "tiff" -> SbixRec(org[1], org[2], TagTiff, pay)
              [] kind = "mask" -> SbixRec(org[1], org[2], TagMask, pay)
              [] kind = "flip" -> SbixRec(org[1], org[2], TagFlip, pay)
              [] kind = "zero" -> SbixRec(org[1], org[2], <<0, 0, 0, 0>>, pay)
              [] kind = "dupe2" -> SbixRec(org[1], org[2], TagDupe, U16B(2))
              [] kind = "dupe3" -> SbixRec(org[1], org[2], TagDupe, U16B(3))
              [] kind = "dupe4" -> SbixRec(org[1], org[2], TagDupe, U16B(4))
              [] kind = "dupe9" -> SbixRec(org[1], org[2], TagDupe, U16B(9))
              [] kind = "dupe1" -> SbixRec(org[1], org[2], TagDupe, U16B(1))
              [] kind = "dupe2long" -> SbixRec(org[1], org[2], TagDupe, U16B(2) \o pay)
              [] kind = "dupeshort" -> SbixRec(org[1], org[2], TagDupe, <<0>>)
              [] kind = "dupeempty" -> SbixRec(org[1], org[2], TagDupe, <<>>)
              [] kind = "hdr7" -> SubSeq(SbixRec(org[1], org[2], TagPng, <<>>), 1, 7)
              [] kind = "hdr1" -> <<0>>
  IN [fam |-> "sbix", id |-> <<kind, org[1], org[2], n, ppem, ppi, g>>, route |-> "sbix",
      st |-> [ppem |-> ppem, ppi |-> ppi, recs |-> << <<>>, r1, Target, SbixRec(9, 9, TagDupe, U16B(2)), <<>> >>],
      g |-> g, maxbd |-> IF n = 1 THEN 1 ELSE 32]
IsSbixCase(x) ==
  \E kind \in SbixKinds, org \in SbixOrigins, n \in {0, 1, 5} : \E pp \in {<<20, 72>>, <<300, 144>>, <<0, 0>>, <<65535, 65535>>} :
     \E g \in (IF kind = "png" /\ n = 5 THEN 0 .. 6 ELSE {1}) :
        /\ (pp[1] \in {0, 65535} => kind = "png" /\ n = 1)
        /\ (kind \notin {"png", "jpg", "tiff", "mask", "flip", "zero", "dupe2long"} => n = 0)
        /\ x = SbixCase(kind, org, n, pp[1], pp[2], g)

IsCase(x) == IsRawCase(x) \/ IsMetricsCase(x) \/ IsPngCase(x) \/ IsCompCase(x) \/ IsDepthCase(x) \/ IsSmallCase(x) \/ IsSbixCase(x)

---------------------------------------------------------------------------
\* the machine

HasRows(cc) == cc.route = "cb" /\ AlignOf(cc.sub.imf) \in {"byte", "bit"} /\ Header(cc.sub, cc.rec).ok
RawIn(cc) ==
  LET hd == Header(cc.sub, cc.rec)
      al == AlignOf(cc.sub.imf)
      data == SubSeq(cc.rec, hd.off + 1, Len(cc.rec))
  IN [al |-> al, w |-> hd.m.w, h |-> hd.m.h, d |-> cc.s.bd, data |-> data, bits |-> TLCEval(BitsOf(data)),
      stride |-> Stride(al, hd.m.w, cc.s.bd)]

Init == IsCase(c) /\ m = IF HasRows(c) THEN M0 ELSE [M0 EXCEPT !.st = "skip"]
OneRow == /\ m.st = "run"
          /\ LET i == RawIn(c) IN m' = RowStep(m, i.bits, i.stride, i.w, i.h, i.d)
          /\ UNCHANGED c
Next == OneRow
Spec == Init /\ [][Next]_vars

Final == m.st \in {"done", "eof", "skip"}
Fin(d, x) == IF d = 32 THEN Swizzle(x) ELSE x

StepIsClosed ==
  (HasRows(c) /\ m.st \in {"run", "done"}) =>
     LET i == RawIn(c) IN
     /\ m.pos = m.row * i.stride
     /\ m.row <= i.h
     /\ m.out = RowsClosed(i.bits, i.stride, i.w, m.row, i.d)
     /\ Len(m.out) = ByteAlignedSize(i.w, m.row, i.d)

Terminal ==
  HasRows(c) =>
     LET i == RawIn(c)
         need == NeedBytes(i.al, i.w, i.h, i.d)
         R == RawRows(i.al, i.d, i.w, i.h, i.data)
     IN /\ (m.st = "done") => /\ Len(i.data) >= need /\ m.row = i.h
                              /\ Fin(i.d, IF i.al = "bit" THEN m.out ELSE SubSeq(i.data, 1, need)) \in R
                              /\ Fin(i.d, m.out) \in R
                              /\ GlyphAccept(c.s, c.sub, c.rec) # {ResErr}
        /\ (m.st = "eof") => /\ Len(i.data) < need /\ R = {}
                             /\ GlyphAccept(c.s, c.sub, c.rec) = {ResErr}
        /\ (c.fam = "raw" /\ c.cls = "short") => m.st # "done"
        /\ (c.fam = "raw" /\ c.cls # "short" /\ m.st # "run") => m.st = "done"

\* both encodings of the picture decode to the picture's rows
SameImage ==
  (HasRows(c) /\ m.st = "done" /\ c.fam \in {"raw", "metrics", "depth"}) =>
     LET i == RawIn(c)
         pic == Picture(c.pic.p, c.pic.w, c.pic.h, i.d)
     IN /\ c.pic.w = i.w /\ c.pic.h = i.h
        /\ m.out = RowsClosed(pic, i.w * i.d, i.w, i.h, i.d)
        /\ \A r \in 0 .. i.h - 1 : \A k \in 0 .. i.w * i.d - 1 :
              PixBit(i.bits, i.stride, r, k) = PBit(c.pic.p, r * i.w * i.d + k)

PackInverse ==
  (HasRows(c) /\ m.st = "done") =>
     LET i == RawIn(c)
         packed == Pack(m.out, i.w, i.h, i.d)
     IN /\ Len(packed) = BitAlignedSize(i.w, i.h, i.d)
        /\ RowsClosed(BitsOf(packed), i.w * i.d, i.w, i.h, i.d) = ClearPad(m.out, i.w, i.h, i.d)
        /\ (i.al = "bit") => packed = BytesOfBits(SubSeq(i.bits, 1, i.h * i.w * i.d))
        /\ ClearPad(m.out, i.w, i.h, i.d) = m.out
        /\ (i.d = 32) => Swizzle(Swizzle(m.out)) = m.out

Wants(cc) == IF cc.route = "cb" THEN LookupAccept(cc.s, cc.sub, cc.rec, cc.maxbd) ELSE SbixAccept(cc.st, cc.g)

WantsOK ==
  Final =>
     LET W == Wants(c) IN
     /\ W # {}
     /\ (ResErr \in W \/ ResNone \in W) => Cardinality(W) = 1
     /\ \A x \in W : x.r = "img" =>
           IF c.route = "cb"
           THEN /\ x.px = c.s.px /\ x.py = c.s.py
                /\ (x.mh # <<>> \/ x.mv # <<>>)
                /\ x.org = <<>>
                /\ (x.kind = "raw") => /\ x.bd = c.s.bd /\ c.s.bd <= c.maxbd
                                       /\ Len(x.data) >= ByteAlignedSize(x.w, x.h, x.bd)
                                       /\ \A mh \in {x.mh, x.mv} : mh # <<>> => mh[2] \in -383 .. 127
           ELSE /\ x.px = c.st.ppem /\ x.py = c.st.ppem /\ x.mh = <<>> /\ x.mv = <<>> /\ Len(x.org) = 2

Emit ==
  Final =>
     IF c.route = "cb"
     THEN PrintT(<<"CASE", ToJson(
            [fam |-> c.fam, id |-> c.id, route |-> "cb", tbl |-> c.tbl, s |-> c.s, sub |-> c.sub, rec |-> c.rec, cls |-> c.cls,
             maxbd |-> c.maxbd, want |-> SetToSeq(Wants(c)), bug |-> IF c.s.bd > c.maxbd THEN <<>> ELSE CodeRaw(c.s, c.sub, c.rec),
             low |-> IF c.s.bd > c.maxbd THEN Low("none", 0, <<>>, <<>>, <<>>) ELSE LowOf(c.sub, c.rec),
             steps |-> m.row, fin |-> m.st])>>)
     ELSE PrintT(<<"CASE", ToJson(
            [fam |-> c.fam, id |-> c.id, route |-> "sbix", st |-> c.st, g |-> c.g, maxbd |-> c.maxbd,
             want |-> SetToSeq(Wants(c)), bug |-> <<>>, low |-> SbixLowOf(c.st, c.g)])>>)

ASSUME \A w \in 0 .. 40, h \in 0 .. 12, d \in Depths : SizeLemma(w, h, d)
ASSUME \A w \in {0, 1, 7, 8, 9, 255}, h \in {0, 1, 2, 255}, d \in Depths : SizeLemma(w, h, d)
ASSUME \A x \in {<<>>, <<1, 2, 3, 4>>, <<1, 2, 3, 4, 5, 6, 7, 8>>} : Swizzle(Swizzle(x)) = x /\ Len(Swizzle(x)) = Len(x)
ASSUME Swizzle(<<1, 2, 3, 4, 5, 6, 7, 8>>) = <<3, 2, 1, 4, 7, 6, 5, 8>>
\* the worked example of the allsorts test-suite (2-bit, 5 x 2) as an anchor of the bit order
ASSUME RowsClosed(BitsOf(<<211, 170, 112>>), 10, 5, 2, 2) = <<211, 128, 169, 192>>
ASSUME Run(M0, BitsOf(<<211, 170, 112>>), 10, 5, 2, 2).out = <<211, 128, 169, 192>>
ASSUME Pack(<<211, 128, 169, 192>>, 5, 2, 2) = <<211, 170, 112>>
=============================================================================
