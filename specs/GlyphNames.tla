----------------------------- MODULE GlyphNames -----------------------------
(***************************************************************************)
(* X03 (extra) - glyph naming: Font::glyph_names / GlyphNames::            *)
(* unique_glyph_names (src/glyph_info.rs, src/post.rs, the glyph-names     *)
(* crate).                                                                 *)
(*                                                                         *)
(*   PostName      PostTable::glyph_name: `post` format 1 (the 258 standard*)
(*                 Macintosh names in glyph order), format 2 (per glyph an *)
(*                 index: < 258 standard name, >= 258 the (index - 258)-th *)
(*                 Pascal string), formats 2.5 / 3 / 4                     *)
(*   CmapName      the name derived from the FIRST code the cmap sub-table *)
(*                 lists for the glyph: AGLFN name, else uniXXXX (BMP),    *)
(*                 else uXXXXX[X]                                          *)
(*   NaturalName   glyph 0 = .notdef; post name unless absent / .notdef;   *)
(*                 cmap name; "g<gid>"                                     *)
(*   Unique        the disambiguation of repeated names                    *)
(*                                                                         *)
(* Vocabulary: post = [ver \in {1, 2, 25, 3, 4}, idx : Seq(0..65535),      *)
(* strs : Seq(STRING), offs : Seq(-128..127)]; cm = Seq(<<code, gid>>) in  *)
(* the order the sub-table enumerates its mappings (ascending code for     *)
(* formats 0/4/6/10/12); enc = Font's Encoding of the sub-table.           *)
(***************************************************************************)
EXTENDS Integers, Sequences, FiniteSets, FiniteSetsExt, TLC, GlyphNamesData

Cm == INSTANCE Cmap         \* Mac OS Roman (MacToUni) of the cmap specification, C06

StdName(i) == StdNames[i + 1]
NStd == 258

AglCodes == {AglfnPairs[i][1] : i \in 1 .. Len(AglfnPairs)}
AglFn == [cc \in AglCodes |-> AglfnPairs[CHOOSE i \in 1 .. Len(AglfnPairs) : AglfnPairs[i][1] = cc][2]]

HexDigits == <<"0", "1", "2", "3", "4", "5", "6", "7", "8", "9", "A", "B", "C", "D", "E", "F">>
RECURSIVE HexMin(_, _)       \* at least `w` digits
HexMin(v, w) == IF v < 16 /\ w <= 1 THEN HexDigits[v + 1] ELSE HexMin(v \div 16, w - 1) \o HexDigits[(v % 16) + 1]
Pad2(kk) == IF kk < 10 THEN "0" \o ToString(kk) ELSE ToString(kk)

\* a Unicode scalar value (char::try_from succeeds)
Scalar(cc) == cc >= 0 /\ cc <= 1114111 /\ ~(cc >= 55296 /\ cc <= 57343)

\* glyph_names::glyph_name(ch): "" = none
UnicodeName(cc) ==
  IF ~Scalar(cc) THEN ""
  ELSE IF cc \in AglCodes THEN AglFn[cc]
  ELSE IF cc <= 65535 THEN "uni" \o HexMin(cc, 4) ELSE "u" \o HexMin(cc, 4)

\* the first code the enumeration lists for the glyph, -1 = none (CmapSubtable::mappings keeps the
\* first: entry(gid).or_insert(ch)).  Dev_CmapFirstCode: any code of the glyph would name it; the
\* code's choice is followed.
FirstCode(cm, g) ==
  LET K == {q \in 1 .. Len(cm) : cm[q][2] = g} IN IF K = {} THEN -1 ELSE cm[Min(K)][1]

\* the name a code of the selected sub-table gives (cc < 0: the glyph has no code)
CodeName(cc, enc, dev) ==
  IF cc < 0 THEN ""
  ELSE CASE enc = "Unicode"    -> UnicodeName(cc)
         [] enc = "AppleRoman" ->                                          \* `ch as u8`
              \* Dev_MacRomanPdfSubset (C06): allsorts' Mac OS Roman table leaves fifteen bytes
              \* undefined; a glyph reached only through one of them gets no cmap name
              IF dev.macpdf /\ (cc % 256) \in Cm!Dev_MacRomanPdfSubset THEN ""
              ELSE UnicodeName(Cm!MacToUni(cc % 256))
         [] OTHER              -> ""                                      \* Symbol, Big5: no name
CmapName(cm, enc, g, dev) == CodeName(FirstCode(cm, g), enc, dev)

\* Whether allsorts can read a version 2 table at all: it reads max(index) - 257 Pascal strings,
\* so one index beyond the stored strings makes the WHOLE table unreadable.
\* Dev_ShortStringsPoisonTable: poison = TRUE that reading (allsorts, FreeType), FALSE only the
\* glyph with the bad index loses its name (fontTools).  Either is accepted.
V2Readable(post) == \A q \in 1 .. Len(post.idx) : post.idx[q] < NStd + Len(post.strs)

\* the name the post table gives a glyph, "" = none (readable = V2Readable(post), passed in so
\* that a judge computes it once per table)
PostNameR(post, readable, g, dev) ==
  CASE post.ver = 1 -> IF g < NStd THEN StdName(g) ELSE ""
    [] post.ver = 2 ->
         IF dev.poison /\ ~readable THEN ""
         ELSE IF g >= Len(post.idx) THEN ""
         ELSE LET i == post.idx[g + 1] IN
              IF i < NStd THEN StdName(i)
              ELSE IF i - NStd < Len(post.strs) THEN post.strs[i - NStd + 1]
              ELSE ""
    [] post.ver = 25 ->
         \* Dev_Format25AsNone: the deprecated format 2.5 (offsets into the standard order) is
         \* treated as "no names" (allsorts) or read (dev.v25)
         IF ~dev.v25 \/ g >= Len(post.offs) THEN ""
         ELSE LET i == g + post.offs[g + 1] IN IF i >= 0 /\ i < NStd THEN StdName(i) ELSE ""
    [] OTHER -> ""       \* 3: no names; 4 (Apple, character codes): not readable -> none
PostName(post, g, dev) == PostNameR(post, V2Readable(post), g, dev)

\* pn : the post name ("" none), cn : the cmap name ("" none)
Pick(g, pn, cn) ==
  IF g = 0 THEN ".notdef"                     \* Dev_Glyph0AlwaysNotdef
  ELSE IF pn # "" /\ pn # ".notdef" THEN pn   \* a glyph other than 0 called .notdef is renamed
  ELSE IF cn # "" THEN cn ELSE "g" \o ToString(g)

NaturalName(post, cm, enc, g, dev) == Pick(g, PostName(post, g, dev), CmapName(cm, enc, g, dev))

\* A format 2 glyph whose index refers to a Pascal string of length zero has NO name (an empty
\* glyph name is not a name: PostScript names are non-empty; fontTools replaces it).
\* NON-conformant reading "code": Post::glyph_name hands the empty string on as the glyph's name.
EmptyCustom(post, readable, g) ==
  /\ post.ver = 2 /\ readable /\ g > 0 /\ g < Len(post.idx)
  /\ post.idx[g + 1] >= NStd /\ post.idx[g + 1] - NStd < Len(post.strs)
  /\ post.strs[post.idx[g + 1] - NStd + 1] = ""

Naturals(post, cm, enc, ids, dev) == [q \in 1 .. Len(ids) |-> NaturalName(post, cm, enc, ids[q], dev)]

---------------------------------------------------------------------------
\* uniqueness

Alt(name, kk) == name \o ".alt" \o Pad2(kk)

\* NON-conformant reading "code": unique_glyph_names as written - the q-th entry that repeats an
\* earlier NATURAL name gets ".altNN" with NN = the number of earlier occurrences; the generated
\* name is never checked against the other names.
CodeUnique(names) ==
  [q \in 1 .. Len(names) |->
     LET kk == Cardinality({j \in 1 .. (q - 1) : names[j] = names[q]}) IN
     IF kk = 0 THEN names[q] ELSE Alt(names[q], kk)]

\* The repaired rule: the same, except that a suffix is skipped while the generated name is a
\* name already given out or one of the natural names of the list.
RECURSIVE FreeAlt(_, _, _)
FreeAlt(name, kk, taken) == IF Alt(name, kk) \in taken THEN FreeAlt(name, kk + 1, taken) ELSE Alt(name, kk)

RECURSIVE UniqueFrom(_, _, _, _, _)
UniqueFrom(names, q, used, out, natural) ==
  IF q > Len(names) THEN out
  ELSE LET nm == IF names[q] \notin used THEN names[q] ELSE FreeAlt(names[q], 1, used \cup natural)
       IN UniqueFrom(names, q + 1, used \cup {nm}, Append(out, nm), natural)
Unique(names) == UniqueFrom(names, 1, {}, <<>>, {names[j] : j \in 1 .. Len(names)})

\* what any conformant disambiguation satisfies
UniqueOK(names, out) ==
  /\ Len(out) = Len(names)
  /\ \A a \in 1 .. Len(out), b \in 1 .. Len(out) : a # b => out[a] # out[b]
  /\ \A q \in 1 .. Len(out) : out[q] = names[q] \/ \E kk \in 1 .. (Len(names) + 2) : out[q] = Alt(names[q], kk)
  /\ (\A a \in 1 .. Len(names), b \in 1 .. Len(names) : a # b => names[a] # names[b]) => out = names

\* a generated name of the code reading collides with another name of its output
AltCollision(names) ==
  LET o == CodeUnique(names) IN \E a \in 1 .. Len(o), b \in 1 .. Len(o) : a # b /\ o[a] = o[b]

---------------------------------------------------------------------------
Devs == [poison : BOOLEAN, v25 : BOOLEAN, macpdf : BOOLEAN]
CodeDev == [poison |-> TRUE, v25 |-> FALSE, macpdf |-> TRUE]

\* all conformant answers of glyph_names(ids)
NamesWant(post, cm, enc, ids) == {Unique(Naturals(post, cm, enc, ids, dev)) : dev \in Devs}
NaturalsCode(post, cm, enc, ids) ==
  [q \in 1 .. Len(ids) |-> IF EmptyCustom(post, V2Readable(post), ids[q]) THEN "" ELSE NaturalName(post, cm, enc, ids[q], CodeDev)]
NamesCode(post, cm, enc, ids) == CodeUnique(NaturalsCode(post, cm, enc, ids))
\* the name of the code reading where it is not conformant
NamesBugName(post, cm, enc, ids) ==
  IF \E q \in 1 .. Len(ids) : EmptyCustom(post, V2Readable(post), ids[q]) THEN "post:empty-string-name"
  ELSE IF AltCollision(Naturals(post, cm, enc, ids, CodeDev)) THEN "unique:alt-collision" ELSE "code"
=============================================================================
