----------------------------- MODULE Syllables -----------------------------
(***************************************************************************)
(* X07 (extra): syllable segmentation of the Indic, Khmer and Myanmar      *)
(* shapers of allsorts (scripts/indic.rs, khmer.rs, myanmar.rs, built from *)
(* the combinators of scripts/syllable.rs).                                *)
(*                                                                         *)
(* The grammars are REGULAR EXPRESSIONS over grammar terminals, written as *)
(* the OpenType shaping documents allsorts cites state them (the Indic     *)
(* cluster expressions C / CN / REPH / HALANT_GROUP / MATRA_GROUP /        *)
(* SYLLABLE_TAIL ... - the bounded descendants of the expressions of the   *)
(* Microsoft script development specifications; the Khmer expressions;     *)
(* the Myanmar expressions K / Med / Vmain / Vpost / Pwo / Tcomplex quoted *)
(* in myanmar.rs from the Microsoft "well-formed clusters" section).  They *)
(* are given two independent semantics:                                    *)
(*   Ends(r, s, i)   denotational: the set of j such that s[i+1..j] is in  *)
(*                   the language of r (structural recursion);             *)
(*   Deriv / Nullable operational: ONE transition per input glyph of the   *)
(*                   Brzozowski derivative automaton; the machine state is *)
(*                   the residual expression, accepting iff nullable.      *)
(* MC_Syllables checks on every class string up to the bound that the two  *)
(* agree.  The scanner semantics is that of a longest-match scanner:       *)
(* at a position the longest match over all kinds wins, ties are broken by *)
(* the precedence order of the kinds (Kinds[fam]); a glyph at which no     *)
(* kind matches is invalid and adjacent invalid glyphs form ONE cluster.   *)
(* SegLoop is the small-step loop (one iteration per cluster / invalid     *)
(* glyph), IsSegmentation the declarative characterisation (partition,     *)
(* no empty cluster, longest + precedence at every cluster start, maximal  *)
(* invalid clusters).                                                      *)
(*                                                                         *)
(* A glyph is abstracted to its SYMBOL: the tuple of grammar terminals its *)
(* character belongs to (an input of the check: allsorts' own predicates,  *)
(* dumped through the verification hook verif_class).                      *)
(*                                                                         *)
(* Named nondeterminism                                                    *)
(*   Dev_ClusterLength  the documents write `*`; an implementation may cap *)
(*        repetitions ("a practical maximum cluster length is 31           *)
(*        characters", Microsoft USE specification, quoted by myanmar.rs;  *)
(*        HarfBuzz-style {0,4} for Khmer).  Reading "std" = unbounded,     *)
(*        "dev" = the documented caps.  Either is accepted, one per run.   *)
(* Named defect readings (attribution only, never accepted)                *)
(*   vpostMedialHaRepeat       Myanmar Vpost = matrapost mh? ... is        *)
(*        implemented as matrapost mh{0,4}                                 *)
(*   standaloneAbsorbsInvalid  Myanmar: an invalid glyph after a           *)
(*        one-character standalone cluster is appended to it               *)
(*   dottedCircleOnSimpleCluster  Myanmar: Font::shape inserts a dotted    *)
(*        circle before standalone clusters and before glyphs outside the  *)
(*        grammar (space, Latin ...), not only before orphan signs         *)
(***************************************************************************)
EXTENDS Naturals, Sequences, FiniteSets, FiniteSetsExt, TLC

Inf == 999                       \* repetition bound standing for `*`

\* ---- regular expressions ------------------------------------------------
Eps == <<"eps">>
Nil == <<"nil">>
T(x) == <<"t", x>>               \* one glyph whose symbol contains terminal x
S2(a, b) == <<"seq", a, b>>
A2(a, b) == <<"alt", a, b>>
Opt(a) == <<"alt", Eps, a>>
Rep(a, hi) == <<"rep", a, hi>>   \* a{0,hi}

RECURSIVE SeqL(_)
SeqL(l) == IF Len(l) = 0 THEN Eps ELSE IF Len(l) = 1 THEN l[1] ELSE S2(l[1], SeqL(Tail(l)))
RECURSIVE AltL(_)
AltL(l) == IF Len(l) = 1 THEN l[1] ELSE A2(l[1], AltL(Tail(l)))

Has(sym, t) == \E k \in DOMAIN sym : sym[k] = t

\* ---- denotational semantics ----------------------------------------------
RECURSIVE Ends(_, _, _)
RECURSIVE RepAcc(_, _, _, _, _, _)
\* positions reachable by at most hi iterations of a: breadth first, earliest arrival
RepAcc(a, hi, s, seen, frontier, n) ==
  IF frontier = {} \/ n = hi THEN seen
  ELSE LET nxt == (UNION {Ends(a, s, k) : k \in frontier}) \ seen
       IN RepAcc(a, hi, s, seen \cup nxt, nxt, n + 1)

Ends(r, s, i) ==
  CASE r[1] = "eps" -> {i}
    [] r[1] = "nil" -> {}
    [] r[1] = "t"   -> IF i < Len(s) /\ Has(s[i + 1], r[2]) THEN {i + 1} ELSE {}
    [] r[1] = "seq" -> UNION {Ends(r[3], s, k) : k \in Ends(r[2], s, i)}
    [] r[1] = "alt" -> Ends(r[2], s, i) \cup Ends(r[3], s, i)
    [] r[1] = "rep" -> RepAcc(r[2], r[3], s, {i}, {i}, 0)

\* length of the longest non-empty match of r at position i (0 = none)
Longest(r, s, i) == LET E == Ends(r, s, i) \ {i} IN IF E = {} THEN 0 ELSE Max(E) - i

\* ---- operational semantics: derivative automaton ---------------------------
RECURSIVE Nullable(_)
Nullable(r) ==
  CASE r[1] = "eps" -> TRUE
    [] r[1] = "nil" -> FALSE
    [] r[1] = "t"   -> FALSE
    [] r[1] = "seq" -> Nullable(r[2]) /\ Nullable(r[3])
    [] r[1] = "alt" -> Nullable(r[2]) \/ Nullable(r[3])
    [] r[1] = "rep" -> TRUE

MkSeq(a, b) == IF a[1] = "nil" \/ b[1] = "nil" THEN Nil
               ELSE IF a[1] = "eps" THEN b ELSE IF b[1] = "eps" THEN a ELSE S2(a, b)
MkAlt(a, b) == IF a[1] = "nil" THEN b ELSE IF b[1] = "nil" THEN a
               ELSE IF a[1] = "eps" /\ b[1] = "eps" THEN Eps ELSE A2(a, b)

RECURSIVE Deriv(_, _)
Deriv(r, sym) ==
  CASE r[1] = "eps" -> Nil
    [] r[1] = "nil" -> Nil
    [] r[1] = "t"   -> IF Has(sym, r[2]) THEN Eps ELSE Nil
    [] r[1] = "seq" -> LET da == MkSeq(Deriv(r[2], sym), r[3])
                       IN IF Nullable(r[2]) THEN MkAlt(da, Deriv(r[3], sym)) ELSE da
    [] r[1] = "alt" -> MkAlt(Deriv(r[2], sym), Deriv(r[3], sym))
    [] r[1] = "rep" -> IF r[3] = 0 THEN Nil
                       ELSE MkSeq(Deriv(r[2], sym), IF r[3] = Inf THEN r ELSE Rep(r[2], r[3] - 1))

\* machine state of one matcher: residual expression, glyphs consumed, end of the last accepted prefix
M0(r) == [d |-> r, pos |-> 0, last |-> 0]
Step(m, sym) ==
  LET d == Deriv(m.d, sym)
  IN [d |-> d, pos |-> m.pos + 1, last |-> IF Nullable(d) THEN m.pos + 1 ELSE m.last]
Dead(m) == m.d[1] = "nil"

RECURSIVE RunFrom(_, _, _)
RunFrom(m, s, i) == IF i > Len(s) THEN m ELSE RunFrom(Step(m, s[i]), s, i + 1)
Run(r, s) == RunFrom(M0(r), s, 1)

\* ---- the grammars -------------------------------------------------------------
\* Indic (Devanagari, Bengali, Gurmukhi, Gujarati, Oriya, Tamil, Telugu, Kannada, Malayalam, Sinhala).
\* Terminals: C consonant, Ra, V independent vowel, N nukta, H halant, ZWJ, ZWNJ, M matra, SM syllable
\* modifier, A vedic sign (VD), GB placeholder, DC dotted circle, Repha, CM consonant medial, S symbol,
\* CS consonant with stacker.
IndicG ==
  LET c     == A2(T("C"), T("Ra"))
      n     == Opt(T("N"))
      z     == A2(T("ZWJ"), T("ZWNJ"))
      reph  == A2(S2(T("Ra"), T("H")), T("Repha"))
      cn    == SeqL(<<c, Opt(T("ZWJ")), n>>)
      frak  == SeqL(<<T("ZWJ"), T("H"), T("ZWJ"), T("Ra")>>)                      \* forced rakar
      mg    == SeqL(<<Rep(z, 3), T("M"), n, Opt(A2(T("H"), frak))>>)               \* matra group
      tail  == S2(Opt(SeqL(<<Opt(z), T("SM"), Opt(T("SM")), Opt(T("ZWNJ"))>>)), Rep(T("A"), 3))
      hg    == SeqL(<<Opt(z), T("H"), Opt(S2(T("ZWJ"), n))>>)                      \* halant group
      fhg   == A2(hg, S2(T("H"), T("ZWNJ")))                                       \* final halant group
      med   == Opt(T("CM"))
      hom   == A2(fhg, Rep(mg, 4))                                                 \* halant or matra group
      ctail == SeqL(<<Rep(S2(hg, cn), 4), med, hom, tail>>)                        \* complex syllable tail
      pre   == Opt(A2(T("Repha"), T("CS")))
  IN [consonant  |-> SeqL(<<pre, Rep(S2(cn, hg), 4), cn, med, hom, tail>>),
      vowel      |-> SeqL(<<Opt(reph), T("V"), n, A2(T("ZWJ"), ctail)>>),
      standalone |-> SeqL(<<A2(S2(pre, T("GB")), S2(Opt(reph), T("DC"))), n, ctail>>),
      symbol     |-> SeqL(<<T("S"), n, tail>>),
      broken     |-> SeqL(<<Opt(reph), n, ctail>>)]

\* Khmer. Terminals: C, Ra, V, N (nukta / consonant post repha), ZWJ, ZWNJ, M matra, SM, GB, DC, RS register
\* shifter, Coeng.  b = repetition cap (Dev_ClusterLength).
KhmerG(b) ==
  LET c    == AltL(<<T("C"), T("Ra"), T("V")>>)
      n    == S2(Opt(S2(Opt(T("ZWNJ")), T("RS"))), Opt(S2(T("N"), Opt(T("N")))))
      z    == A2(T("ZWJ"), T("ZWNJ"))
      cn   == S2(c, n)
      mg   == SeqL(<<Opt(z), T("M"), n>>)
      tail == Opt(S2(T("SM"), Opt(T("SM"))))
      part == SeqL(<<n, Rep(S2(T("Coeng"), cn), b), Rep(mg, b), Opt(S2(T("Coeng"), cn)), tail>>)
  IN [valid  |-> S2(AltL(<<c, T("GB"), T("DC")>>), part),
      broken |-> part]

\* Myanmar. Terminals: C (consonants, Ra included), IV, D digit, GB generic base, P punctuation, R reserved /
\* simple non-compounding character, VS, H halant (invisible stacker), ZWJ, ZWNJ, Ra (kinzi letters), As asat,
\* CS, VPre VPst VAbv VBlw matras, A (anusvara, sign ai), DB dot below, MY MR MW MH ML medials, PT Pwo tone, SM.
MyanmarG(rd, mh) ==
  LET B(k)  == IF rd = "std" THEN Inf ELSE k
      kinzi == SeqL(<<T("Ra"), T("As"), T("H")>>)
      z     == A2(T("ZWJ"), T("ZWNJ"))
      init  == AltL(<<T("C"), T("IV"), T("GB"), T("D"), T("P")>>)
      dbas  == Opt(S2(T("DB"), Opt(T("As"))))
      med2  == S2(AltL(<<SeqL(<<T("MW"), Opt(T("MH")), Opt(T("ML"))>>), S2(T("MH"), Opt(T("ML"))), T("ML")>>),
                  Opt(T("As")))
      med   == SeqL(<<Opt(T("MY")), Opt(T("As")), Opt(T("MR")), Opt(med2)>>)
      vmain == SeqL(<<Rep(T("VPre"), B(10)), Rep(T("VAbv"), B(4)), Rep(T("VBlw"), B(4)), Rep(T("A"), B(4)), dbas>>)
      vpost == SeqL(<<T("VPst"), IF mh THEN Rep(T("MH"), 4) ELSE Opt(T("MH")),
                      Rep(T("As"), B(4)), Rep(T("VAbv"), B(4)), Rep(T("A"), B(4)), dbas>>)
      pwo   == SeqL(<<T("PT"), Rep(T("A"), B(10)), Opt(T("DB")), Opt(T("As"))>>)
      tcx   == SeqL(<<Rep(T("As"), B(10)), med, vmain, Rep(vpost, B(10)), Rep(pwo, B(10)), Rep(T("SM"), B(10)), Opt(z)>>)
      tail  == A2(T("H"), tcx)
      hg    == SeqL(<<T("H"), A2(T("C"), T("IV")), Opt(T("VS"))>>)
  IN [consonant  |-> SeqL(<<Opt(A2(kinzi, T("CS"))), init, Opt(T("VS")), Rep(hg, B(10)), tail>>),
      standalone |-> T("R")]

Families == {"indic", "khmer", "myanmar"}
\* kinds in precedence order (ties between equally long matches go to the earlier kind)
Kinds == [indic   |-> <<"consonant", "vowel", "standalone", "symbol", "broken">>,
          khmer   |-> <<"valid", "broken">>,
          myanmar |-> <<"consonant", "standalone">>]

\* grammar variants: reading of Dev_ClusterLength, with / without the grammar-level defect reading
Variants == {"std", "dev", "stdmh", "devmh"}
Gram == [indic   |-> [std |-> IndicG, dev |-> IndicG, stdmh |-> IndicG, devmh |-> IndicG],
         khmer   |-> [std |-> KhmerG(Inf), dev |-> KhmerG(4), stdmh |-> KhmerG(Inf), devmh |-> KhmerG(4)],
         myanmar |-> [std |-> MyanmarG("std", FALSE), dev |-> MyanmarG("dev", FALSE),
                      stdmh |-> MyanmarG("std", TRUE), devmh |-> MyanmarG("dev", TRUE)]]

\* ---- the scanner ---------------------------------------------------------------------
\* the cluster starting at position i (0-based count of glyphs consumed): longest match, then precedence.
\* L = longest match of every kind (kept for the comparison with the automata)
BestAt(fam, var, s, i) ==
  LET ks == Kinds[fam]
      g  == Gram[fam][var]
      L  == TLCEval([k \in DOMAIN ks |-> Longest(g[ks[k]], s, i)])
      m  == Max({L[k] : k \in DOMAIN ks})
  IN IF m = 0 THEN [n |-> 0, k |-> "invalid", L |-> L]
     ELSE [n |-> m, k |-> ks[Min({k \in DOMAIN ks : L[k] = m})], L |-> L]

\* BestAt tabulated for every position (entry i + 1 = position i); <<>> = compute on demand
BestTable(fam, var, s) == TLCEval([p \in 1 .. Len(s) |-> BestAt(fam, var, s, p - 1)])
BA(bt, fam, var, s, i) == IF bt = <<>> THEN BestAt(fam, var, s, i) ELSE bt[i + 1]
Cl(b) == [n |-> b.n, k |-> b.k]

\* small-step loop: one iteration per matched cluster / per invalid glyph.  absorb = the defect reading
\* standaloneAbsorbsInvalid.
RECURSIVE SegLoop(_, _, _, _, _, _, _)
SegLoop(bt, fam, var, absorb, s, i, acc) ==
  IF i >= Len(s) THEN acc
  ELSE LET b == BA(bt, fam, var, s, i)
       IN IF b.n > 0 THEN SegLoop(bt, fam, var, absorb, s, i + b.n, Append(acc, Cl(b)))
          ELSE LET last  == IF acc = <<>> THEN "none" ELSE acc[Len(acc)].k
                   joins == last = "invalid" \/ (absorb /\ last = "standalone")
               IN IF joins THEN SegLoop(bt, fam, var, absorb, s, i + 1, [acc EXCEPT ![Len(acc)].n = @ + 1])
                  ELSE SegLoop(bt, fam, var, absorb, s, i + 1, Append(acc, [n |-> 1, k |-> "invalid"]))
Seg(fam, var, s) == SegLoop(<<>>, fam, var, FALSE, s, 0, <<>>)
SegT(bt, fam, var, absorb, s) == SegLoop(bt, fam, var, absorb, s, 0, <<>>)

\* declarative characterisation
RECURSIVE SumN(_, _)
SumN(seg, j) == IF j = 0 THEN 0 ELSE seg[j].n + SumN(seg, j - 1)       \* glyphs in clusters 1..j
IsSegmentation(bt, fam, var, s, seg) ==
  /\ \A j \in DOMAIN seg : seg[j].n >= 1
  /\ SumN(seg, Len(seg)) = Len(s)
  /\ \A j \in DOMAIN seg :
       LET p == SumN(seg, j - 1)
       IN IF seg[j].k # "invalid"
          THEN Cl(BA(bt, fam, var, s, p)) = seg[j]
          ELSE /\ \A q \in p .. p + seg[j].n - 1 : BA(bt, fam, var, s, q).n = 0
               /\ (j > 1 => seg[j - 1].k # "invalid")
               /\ (p + seg[j].n < Len(s) => BA(bt, fam, var, s, p + seg[j].n).n > 0)

\* ---- what the implementation reports ------------------------------------------------------
\* indic: the kind, None = "invalid".  khmer: a broken (partial) cluster gets a dotted circle prepended (position
\* 0) and is then treated as valid; a cluster of invalid glyphs is reported "broken".  myanmar: consonant
\* syllable = "valid"; standalone and invalid clusters are both reported "broken".
ObsKind(fam, k) ==
  IF fam = "indic" THEN k
  ELSE IF fam = "khmer" THEN (IF k = "invalid" THEN "broken" ELSE "valid")
  ELSE (IF k = "consonant" THEN "valid" ELSE "broken")
RECURSIVE ObsFrom(_, _, _, _)
ObsFrom(fam, seg, j, p) ==
  IF j > Len(seg) THEN <<>>
  ELSE LET c   == seg[j]
           pos == [x \in 1 .. c.n |-> p + x]
       IN << <<IF fam = "khmer" /\ c.k = "broken" THEN <<0>> \o pos ELSE pos, ObsKind(fam, c.k)>> >>
          \o ObsFrom(fam, seg, j + 1, p + c.n)
Obs(fam, seg) == ObsFrom(fam, seg, 1, 0)

\* Dotted circles Font::shape inserts.  The documents give one to a BROKEN cluster - dependent signs lacking a
\* base - so that they have something to attach to (indic, khmer: the broken kind).  The Myanmar grammar has no
\* broken kind: orphan signs are invalid glyphs, so a cluster of invalid glyphs gets one iff it contains a glyph
\* that belongs to the grammar at all (a sign); a simple non-compounding cluster (standalone) and glyphs outside
\* the grammar (space, letters of other scripts, symbols) are complete as they are and get none.
DcSpec(fam, seg, s) ==
  IF fam # "myanmar" THEN Cardinality({j \in DOMAIN seg : seg[j].k = "broken"})
  ELSE Cardinality({j \in DOMAIN seg : /\ seg[j].k = "invalid"
                                       /\ \E q \in SumN(seg, j - 1) + 1 .. SumN(seg, j) : Len(s[q]) > 0})
\* defect reading dottedCircleOnSimpleCluster: myanmar.rs reports standalone and invalid clusters alike as
\* Broken and gives every one of them a dotted circle
DcCode(fam, seg) ==
  Cardinality({j \in DOMAIN seg : IF fam = "myanmar" THEN seg[j].k # "consonant" ELSE seg[j].k = "broken"})

\* ---- readings ------------------------------------------------------------------------------
Defects == {"vpostMedialHaRepeat", "standaloneAbsorbsInvalid"}
OrderedDefectSets == << {}, {"vpostMedialHaRepeat"}, {"standaloneAbsorbsInvalid"}, Defects >>
VarOf(rd, S) == IF "vpostMedialHaRepeat" \in S THEN (IF rd = "std" THEN "stdmh" ELSE "devmh") ELSE rd
SegUnder(fam, rd, S, s) == SegLoop(<<>>, fam, VarOf(rd, S), "standaloneAbsorbsInvalid" \in S, s, 0, <<>>)
Readings == <<"std", "dev">>
\* first defect set (index into OrderedDefectSets, 0 = none) under which ok holds
FirstOk(ok(_)) == LET I == {k \in DOMAIN OrderedDefectSets : ok(OrderedDefectSets[k])} IN IF I = {} THEN 0 ELSE Min(I)

\* ---- design lemmas ------------------------------------------------------------------------
\* matching is position invariant: Ends at position i = Ends of the suffix at 0, shifted
SuffixLemma(r, s, i) == Ends(r, s, i) = {i + j : j \in Ends(r, SubSeq(s, i + 1, Len(s)), 0)}
\* the dotted circle repairs a broken cluster: a string that is one broken cluster becomes one valid /
\* standalone cluster when a dotted circle is put in front (Khmer; Indic when it does not start with a reph)
DcSym == <<"DC">>
RepairLemma(fam, var, s) ==
  (fam \in {"indic", "khmer"} /\ Len(s) > 0 /\ Len(s) \in Ends(Gram[fam][var].broken, s, 0))
     => LET t == <<DcSym>> \o s
            k == IF fam = "indic" THEN "standalone" ELSE "valid"
        IN (fam = "indic" /\ (Has(s[1], "Repha") \/ (Has(s[1], "Ra") /\ Len(s) > 1 /\ Has(s[2], "H"))))
           \/ Len(t) \in Ends(Gram[fam][var][k], t, 0)
=============================================================================
