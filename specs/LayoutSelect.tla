---------------------------- MODULE LayoutSelect ----------------------------
(***************************************************************************)
(* X05 (extra): from (layout table, script tag, language tag, requested    *)
(* features, variation tuple) to the ORDERED LIST OF LOOKUPS a shaping     *)
(* engine applies - OpenType "Common Table Formats" (ScriptList, LangSys,  *)
(* FeatureList, FeatureVariations), the feature registry ('rvrn', 'vrt2')  *)
(* and the Microsoft script development documents (positioning features    *)
(* per script class).  What ONE lookup does is C04 / C05 (Gsub.tla,        *)
(* Gpos.tla); this module covers selection and ordering only.              *)
(*                                                                         *)
(* Vocabulary (all tags are 4-character strings, indices are 0-based as in *)
(* the font, sequences are 1-based as in TLA+):                            *)
(*   LangSys  [n, r, f]   n = 1: the table is absent (NULL offset);        *)
(*                        r = required feature index, -1 = 0xFFFF (none);  *)
(*                        f = feature indices in the order of the table    *)
(*   Script   [tag, d, ls]  d = default LangSys, ls = <<[tag, l]>> records *)
(*   Feature  [tag, lk]     lk = lookup list indices in table order        *)
(*   FvRec    [c, s]        c = <<[ax, lo, hi]>> condition set (format 1,  *)
(*                          F2Dot14 units), s = <<[fi, lk]>> substitutions *)
(*   font     [sl, fl, fv, nl]                                             *)
(*   req      [t, sc, lg, mode, tags, alts, ht, tup, kern]                 *)
(*            t = "GSUB" / "GPOS"; lg = "" : no language tag;              *)
(*            mode = "mask" (tags = the features of the set bits, "vrt2"   *)
(*            standing for the bit VRT2_OR_VERT) / "custom" (tags in the   *)
(*            caller's order, alts[k] = alternate index, -1 = none);       *)
(*            ht = 1: a variation tuple tup (normalised coordinates in     *)
(*            F2Dot14 units) is supplied; kern = the kerning flag          *)
(*                                                                         *)
(* Closed form: Resolve / Selected / GsubSeqs / GposSeqs.                  *)
(* Small-step machine: MInit / MStep (one step per candidate script tag,   *)
(* per LangSys decision, per feature index examined, per lookup applied);  *)
(* MC_LayoutSelect checks that both agree on every case.                   *)
(***************************************************************************)
EXTENDS Integers, Sequences, FiniteSets, SequencesExt, FiniteSetsExt, TLC

Asc(S)   == SetToSortSeq(S, LAMBDA a, b : a < b)

---------------------------------------------------------------------------
(* Named nondeterminism: readings the standard leaves open.  A reading is  *)
(* a record; an observation conforms iff it conforms under SOME reading.   *)
(*  sf  Dev_ScriptFallback  "ot": requested tag, then 'DFLT' (OpenType     *)
(*      script tags: 'DFLT' is used when the script is not supported);     *)
(*      "hb": additionally 'dflt' and 'latn' (HarfBuzz' practice).         *)
(*  dup Dev_DuplicateTag    a LangSys naming two features with one tag     *)
(*      (featureIndices are "in arbitrary order"): "first" in table order  *)
(*      or "all".                                                          *)
(*  rv  Dev_ImplicitRvrn    'rvrn' "should be active by default": with the *)
(*      mask API and no variation tuple, or with a custom list that does   *)
(*      not name it, it may (TRUE) or may not (FALSE) be applied.          *)
(*  cb  Dev_CustomGposBase  gpos::apply documents that it enables features *)
(*      by script; Features::Custom documents that only the supplied      *)
(*      features are applied: with a custom list the script's positioning  *)
(*      features are (TRUE) or are not (FALSE) added.                      *)
(* A lookup named by several selected features carries ANY of their tags   *)
(* (Dev_SharedLookupTag, resolved inside TagChoices).                      *)
(***************************************************************************)
Readings == [sf : {"ot", "hb"}, dup : {"first", "all"}, rv : BOOLEAN, cb : BOOLEAN]
Primary  == [sf |-> "ot", dup |-> "first", rv |-> FALSE, cb |-> TRUE]

(* Named defect readings (for attribution only; never accepted silently):  *)
(*  reqIgnored      the required feature of the LangSys is not applied     *)
(*  gposPerFeature  GPOS lookups are applied feature by feature (the order *)
(*                  of the request), each feature's lookups ascending,     *)
(*                  instead of once each in LookupList order               *)
(*  rvrnTableOrder  custom list: 'rvrn' lookups in the order of the        *)
(*                  feature table, duplicates kept                         *)
Defects == {"reqIgnored", "gposPerFeature", "rvrnTableOrder"}
OrderedDefectSets ==
  << {}, {"reqIgnored"}, {"gposPerFeature"}, {"rvrnTableOrder"},
     {"reqIgnored", "gposPerFeature"}, {"reqIgnored", "rvrnTableOrder"} >>

---------------------------------------------------------------------------
(* Script and language system                                              *)
IndicV2(sc) ==
  CASE sc = "deva" -> "dev2" [] sc = "beng" -> "bng2" [] sc = "guru" -> "gur2" [] sc = "gujr" -> "gjr2"
    [] sc = "orya" -> "ory2" [] sc = "taml" -> "tml2" [] sc = "telu" -> "tel2" [] sc = "knda" -> "knd2"
    [] sc = "mlym" -> "mlm2" [] OTHER -> ""

ScriptClass(sc) ==
  CASE sc = "arab" -> "arabic" [] sc = "syrc" -> "syriac" [] sc = "khmr" -> "khmer"
    [] sc \in {"mymr", "mym2"} -> "myanmar" [] sc \in {"thai", "lao "} -> "thailao"
    [] sc \in {"deva", "beng", "guru", "gujr", "orya", "taml", "telu", "knda", "mlym", "sinh"} -> "indic"
    [] OTHER -> "default"

\* the script tags tried, in order (Indic: the version-2 tag of the script first; positioning only -
\* substitution for the complex scripts belongs to their shapers, X02 and C02)
Candidates(rd, v2, sc) ==
  (IF v2 /\ IndicV2(sc) # "" THEN <<IndicV2(sc)>> ELSE <<>>) \o <<sc, "DFLT">> \o
  (IF rd.sf = "hb" THEN <<"dflt", "latn">> ELSE <<>>)

IndexOfTag(seq, tag) ==
  LET hit == {i \in DOMAIN seq : seq[i].tag = tag} IN IF hit = {} THEN 0 ELSE Min(hit)

\* 1-based index of the script record chosen, 0 = none
PickScript(sl, cands) ==
  LET hit == {k \in DOMAIN cands : IndexOfTag(sl, cands[k]) # 0}
  IN IF hit = {} THEN 0 ELSE IndexOfTag(sl, cands[Min(hit)])

\* k >= 1: LangSysRecord k; 0: the default LangSys; -1: none ("no language-specific behaviour and no default")
PickLang(st, lg) ==
  LET k == IF lg = "" THEN 0 ELSE IndexOfTag(st.ls, lg)
  IN IF k # 0 THEN k ELSE IF st.d.n = 0 THEN 0 ELSE -1

LangSysOf(st, li) == IF li = 0 THEN st.d ELSE st.ls[li].l
NoLS == [n |-> 1, r |-> -1, f |-> <<>>]

\* v2: the engine positions an Indic run (gpos::apply); the plain accessors (find_script_or_default) do not
ResolveWith(rd, font, req, v2) ==
  LET si == PickScript(font.sl, Candidates(rd, v2, req.sc))
      li == IF si = 0 THEN -1 ELSE PickLang(font.sl[si], req.lg)
  IN [si |-> si, li |-> li, ls |-> IF li = -1 THEN NoLS ELSE LangSysOf(font.sl[si], li)]
Resolve(rd, font, req) == ResolveWith(rd, font, req, req.t = "GPOS")

---------------------------------------------------------------------------
(* Feature variations: the first record whose condition set holds          *)
CondHolds(c, tup) == c.ax + 1 \in DOMAIN tup /\ c.lo <= tup[c.ax + 1] /\ tup[c.ax + 1] <= c.hi
Match(fv, req) ==
  IF req.ht = 0 THEN 0
  ELSE LET ok == {k \in DOMAIN fv : \A j \in DOMAIN fv[k].c : CondHolds(fv[k].c[j], req.tup)}
       IN IF ok = {} THEN 0 ELSE Min(ok)

\* lookup indices (table order) of feature i under matched record m
Lk(font, m, i) ==
  IF m # 0 /\ \E j \in DOMAIN font.fv[m].s : font.fv[m].s[j].fi = i
  THEN font.fv[m].s[Min({j \in DOMAIN font.fv[m].s : font.fv[m].s[j].fi = i})].lk
  ELSE font.fl[i + 1].lk

---------------------------------------------------------------------------
(* Requested features                                                      *)
\* positioning features per script class (Microsoft script development specs / OpenType shaping
\* documents); 'kern' of the standard and Myanmar shapers is under user control (the kerning flag)
GposBase(class, kern) ==
  CASE class = "arabic"  -> <<"curs", "kern", "mark", "mkmk">>
    [] class = "syriac"  -> <<"curs", "kern", "mark", "mkmk">>
    [] class = "indic"   -> <<"abvm", "blwm", "dist", "kern", "mark", "mkmk">>
    [] class = "khmer"   -> <<"abvm", "blwm", "dist", "mark", "mkmk">>
    [] class = "myanmar" -> <<"dist", "abvm", "blwm", "mark", "mkmk">> \o (IF kern = 1 THEN <<"kern">> ELSE <<>>)
    [] class = "thailao" -> <<"kern", "mark", "mkmk">>
    [] OTHER             -> <<"dist">> \o (IF kern = 1 THEN <<"kern">> ELSE <<>>) \o <<"mark", "mkmk">>

TagOf(font, i) == font.fl[i + 1].tag
HasTag(font, ls, t) == \E k \in DOMAIN ls.f : TagOf(font, ls.f[k]) = t

\* the request as a sequence of tags in the order the caller gave them ('vrt2' of the mask is the
\* bit VRT2_OR_VERT: the registry prefers 'vrt2' and falls back to 'vert')
ReqSeq(rd, font, ls, req) ==
  LET own == [k \in DOMAIN req.tags |->
                IF req.mode = "mask" /\ req.t = "GSUB" /\ req.tags[k] = "vrt2" /\ ~HasTag(font, ls, "vrt2")
                THEN "vert" ELSE req.tags[k]]
  IN IF req.t = "GPOS" /\ (req.mode = "mask" \/ rd.cb)
     THEN GposBase(ScriptClass(req.sc), req.kern) \o own ELSE own

\* feature indices of the LangSys selected for tag t ("first" / "all" in table order)
FeatOfTag(rd, font, ls, t) ==
  LET pos == {k \in DOMAIN ls.f : TagOf(font, ls.f[k]) = t}
  IN IF pos = {} THEN {} ELSE IF rd.dup = "first" THEN {ls.f[Min(pos)]} ELSE {ls.f[k] : k \in pos}

FeatOfTags(rd, font, ls, T) == UNION {FeatOfTag(rd, font, ls, t) : t \in T}
ReqFeat(Dset, ls) == IF ls.r = -1 \/ "reqIgnored" \in Dset THEN {} ELSE {ls.r}

LkSet(font, m, F)      == UNION {Range(Lk(font, m, i)) : i \in F}
NamedBy(font, m, F, l) == {TagOf(font, i) : i \in {j \in F : l \in Range(Lk(font, m, j))}}

---------------------------------------------------------------------------
(* The ordered lookup list for a feature set: every lookup named by a      *)
(* selected feature once, in LookupList order.                             *)
Ordered(font, m, F) == Asc(LkSet(font, m, F))

\* all ways of labelling the lookups of `ord` with the tag of a selected feature that names them
RECURSIVE Label(_, _, _, _)
Label(font, m, F, ord) ==
  IF ord = <<>> THEN {<<>>}
  ELSE LET rest == Label(font, m, F, Tail(ord))
       IN {<< <<Head(ord), t>> >> \o r : t \in NamedBy(font, m, F, Head(ord)), r \in rest}

\* accessor reading (gsub::get_lookups_cache_index + cached_lookups): lookup list of the mask, tagged
SelTagged(rd, Dset, font, req) ==
  LET rs == ResolveWith(rd, font, req, FALSE)
      m  == Match(font.fv, req)
      F  == FeatOfTags(rd, font, rs.ls, Range(ReqSeq(rd, font, rs.ls, req))) \cup ReqFeat(Dset, rs.ls)
  IN IF rs.li = -1 THEN {<<>>} ELSE Label(font, m, F, Ordered(font, m, F))

Supported(rd, font, req) ==
  LET rs == ResolveWith(rd, font, req, FALSE)
  IN \A t \in Range(req.tags) :
        rs.li # -1 /\ (IF t = "vrt2" THEN HasTag(font, rs.ls, "vrt2") \/ HasTag(font, rs.ls, "vert")
                                     ELSE HasTag(font, rs.ls, t))

---------------------------------------------------------------------------
(* The specification's marker font.  GSUB: every lookup l is an alternate  *)
(* substitution; a glyph IS the sequence of <<lookup, alternate>> steps    *)
(* applied to it; lookup l with alternate a < MarkA maps glyph p to        *)
(* p \o <<<<l, a>>>> while Len(p) < MarkD.  GPOS: a run base + one mark    *)
(* per pair of lookups; in the "count" table lookup l adds 1 to digit l of *)
(* the base's advance, in the "order" table lookup l attaches every mark   *)
(* of a pair {l, x} with anchor l (the last attachment stays).             *)
(***************************************************************************)
MarkL == 4     \* lookups 0..3
MarkD == 5
MarkA == 2

RECURSIVE MarkGsub(_, _)
MarkGsub(p, steps) ==
  IF steps = <<>> THEN p
  ELSE LET s == Head(steps)
       IN MarkGsub(IF Len(p) < MarkD /\ s[2] < MarkA THEN Append(p, s) ELSE p, Tail(steps))

Pairs == << <<0, 1>>, <<0, 2>>, <<0, 3>>, <<1, 2>>, <<1, 3>>, <<2, 3>> >>
MarkGpos(seq) ==
  [cnt  |-> [l \in 1..MarkL |-> Cardinality({k \in DOMAIN seq : seq[k] = l - 1})],
   last |-> [p \in DOMAIN Pairs |->
               LET hit == {k \in DOMAIN seq : seq[k] \in Range(Pairs[p])}
               IN IF hit = {} THEN -1 ELSE seq[Max(hit)]]]

---------------------------------------------------------------------------
(* Application: closed form                                                *)
AltOf(req, t) ==
  IF req.mode = "custom" /\ \E k \in DOMAIN req.tags : req.tags[k] = t
  THEN LET a == req.alts[Min({k \in DOMAIN req.tags : req.tags[k] = t})] IN IF a = -1 THEN 0 ELSE a
  ELSE 0

RvrnOn(rd, req) ==
  IF req.mode = "mask" THEN req.ht = 1 \/ rd.rv ELSE "rvrn" \in Range(req.tags) \/ rd.rv

\* GSUB: 'rvrn' first ("processed early, before the localized forms feature ..."), then every other
\* selected feature and the required feature, LookupList order inside each phase
GsubSteps(rd, Dset, font, req) ==
  LET rs   == Resolve(rd, font, req)
      m    == Match(font.fv, req)
      Frv  == (IF RvrnOn(rd, req) THEN FeatOfTag(rd, font, rs.ls, "rvrn") ELSE {}) \ ReqFeat(Dset, rs.ls)
      Fm   == FeatOfTags(rd, font, rs.ls, Range(ReqSeq(rd, font, rs.ls, req)) \ {"rvrn"}) \cup ReqFeat(Dset, rs.ls)
      rvO  == IF "rvrnTableOrder" \in Dset /\ req.mode = "custom" /\ Frv # {}
              THEN Lk(font, m, CHOOSE i \in Frv : TRUE) ELSE Ordered(font, m, Frv)
      rvS  == {[k \in DOMAIN rvO |-> <<rvO[k], 0>>]}
      mS   == {[k \in DOMAIN s |-> <<s[k][1], AltOf(req, s[k][2])>>] : s \in Label(font, m, Fm, Ordered(font, m, Fm))}
  IN IF rs.li = -1 THEN {<<>>} ELSE {r \o s : r \in rvS, s \in mS}

GsubObs(rd, Dset, font, req) == {MarkGsub(<<>>, s) : s \in GsubSteps(rd, Dset, font, req)}

\* GPOS: every selected feature and the required feature, every lookup once, LookupList order
GposSeq(rd, Dset, font, req) ==
  LET rs == Resolve(rd, font, req)
      m  == Match(font.fv, req)
      rq == ReqSeq(rd, font, rs.ls, req)
      F  == FeatOfTags(rd, font, rs.ls, Range(rq)) \cup ReqFeat(Dset, rs.ls)
      per(t) == LET fs == FeatOfTag(rd, font, rs.ls, t) IN Ordered(font, m, fs)
  IN IF rs.li = -1 THEN <<>>
     ELSE IF "gposPerFeature" \in Dset
          THEN FoldLeft(LAMBDA acc, t : acc \o per(t), <<>>, rq) \o Ordered(font, m, ReqFeat(Dset, rs.ls))
          ELSE Ordered(font, m, F)

GposObs(rd, Dset, font, req) == MarkGpos(GposSeq(rd, Dset, font, req))

\* the readings that can make a difference for this font and request (the others coincide with them)
AllLS(font) == UNION {{font.sl[k].d} \cup {font.sl[k].ls[j].l : j \in DOMAIN font.sl[k].ls} : k \in DOMAIN font.sl}
RelReadings(font, req) ==
  LET tags == {font.sl[k].tag : k \in DOMAIN font.sl}
      dupl == \E ls \in AllLS(font) : \E a, b \in DOMAIN ls.f : a < b /\ TagOf(font, ls.f[a]) = TagOf(font, ls.f[b])
      rvrn == req.t = "GSUB" /\ \E i \in DOMAIN font.fl : font.fl[i].tag = "rvrn"
  IN [sf  : IF tags \cap {"dflt", "latn"} # {} THEN {"ot", "hb"} ELSE {"ot"},
      dup : IF dupl THEN {"first", "all"} ELSE {"first"},
      rv  : IF rvrn THEN BOOLEAN ELSE {FALSE},
      cb  : IF req.t = "GPOS" /\ req.mode = "custom" THEN BOOLEAN ELSE {TRUE}]

\* the defect sets that can make a difference
RelDefects(font, req) ==
  (IF \E ls \in AllLS(font) : ls.r # -1 THEN {"reqIgnored"} ELSE {}) \cup
  (IF req.t = "GPOS" THEN {"gposPerFeature"} ELSE {}) \cup
  (IF req.t = "GSUB" /\ req.mode = "custom" /\ \E i \in DOMAIN font.fl : font.fl[i].tag = "rvrn"
   THEN {"rvrnTableOrder"} ELSE {})

\* everything acceptable (all readings) under defect set Dset
\* (the accessor is a building block - the complex-script shapers call it once per stage -, so its list may
\* or may not contain the lookups of the required feature, which is applied once per run: Dev_AccessorRequired)
AccSel(Dset, font, req)  == UNION {SelTagged(rd, D, font, req) : rd \in RelReadings(font, req), D \in {{}, {"reqIgnored"}}}
AccGsub(Dset, font, req) == UNION {GsubObs(rd, Dset, font, req) : rd \in RelReadings(font, req)}
AccGpos(Dset, font, req) == {GposObs(rd, Dset, font, req) : rd \in RelReadings(font, req)}
\* the accessors: script record, LangSys and its feature indices; one feature by tag
AccRes(font, req) == {LET r == ResolveWith(rd, font, req, FALSE) IN <<r.si, r.li, r.ls.f>> : rd \in RelReadings(font, req)}
AccFeature(font, req, tag) ==
  UNION {LET r == ResolveWith(rd, font, req, FALSE)
             F == FeatOfTag([rd EXCEPT !.dup = "all"], font, r.ls, tag)
         IN IF F = {} THEN {<<-1>>} ELSE {Lk(font, Match(font.fv, req), i) : i \in F} : rd \in RelReadings(font, req)}
AccSup(font, req) == {Supported(rd, font, req) : rd \in RelReadings(font, req)}

\* index into OrderedDefectSets of the first defect set under which ok holds, 0 = none
FirstOk(ok(_)) ==
  LET hit == {k \in DOMAIN OrderedDefectSets : ok(OrderedDefectSets[k])} IN IF hit = {} THEN 0 ELSE Min(hit)

---------------------------------------------------------------------------
(* Small-step machine (primary reading).  One step per thing the engine    *)
(* looks at: a candidate script tag, the language tag, one feature index   *)
(* of the LangSys (then its required feature), one lookup applied.         *)
(*   pc   "script" -> "lang" -> "feat" -> "apply" -> "done"                *)
(*   cand remaining candidate script tags     si, li  choices made         *)
(*   todo remaining feature indices           seen    tags already served  *)
(*   act  selected feature indices            ph      0 in the rvrn phase, *)
(*   out  lookups applied so far (sequence)           else index in out    *)
(*                                                    where the main phase *)
(*                                                    starts               *)
(***************************************************************************)
MInit(font, req) ==
  [pc |-> "script", cand |-> Candidates(Primary, req.t = "GPOS", req.sc), si |-> 0, li |-> -1,
   todo |-> <<>>, seen |-> {}, act |-> {}, ph |-> 0, out |-> <<>>]

MLs(font, s) == IF s.li = -1 THEN NoLS ELSE LangSysOf(font.sl[s.si], s.li)

MStep(font, req, s) ==
  LET m == Match(font.fv, req) IN
  CASE s.pc = "script" ->
         IF s.cand = <<>> THEN [s EXCEPT !.pc = "done"]
         ELSE LET k == IndexOfTag(font.sl, Head(s.cand))
              IN IF k # 0 THEN [s EXCEPT !.pc = "lang", !.si = k, !.cand = <<>>]
                 ELSE [s EXCEPT !.cand = Tail(s.cand)]
    [] s.pc = "lang" ->
         LET li == PickLang(font.sl[s.si], req.lg)
         IN IF li = -1 THEN [s EXCEPT !.pc = "done"]
            ELSE [s EXCEPT !.pc = "feat", !.li = li, !.todo = LangSysOf(font.sl[s.si], li).f]
    [] s.pc = "feat" ->
         LET ls   == MLs(font, s)
             T    == Range(ReqSeq(Primary, font, ls, req))
             want == IF req.t # "GSUB" THEN T ELSE IF RvrnOn(Primary, req) THEN T \cup {"rvrn"} ELSE T \ {"rvrn"}
         IN IF s.todo = <<>>
            THEN [s EXCEPT !.pc = "apply", !.act = s.act \cup (IF ls.r = -1 THEN {} ELSE {ls.r})]
            ELSE LET i == Head(s.todo)
                     t == TagOf(font, i)
                 IN IF t \in want /\ t \notin s.seen
                    THEN [s EXCEPT !.todo = Tail(s.todo), !.seen = s.seen \cup {t}, !.act = s.act \cup {i}]
                    ELSE [s EXCEPT !.todo = Tail(s.todo)]
    [] s.pc = "apply" ->
         LET ls   == MLs(font, s)
             isRv(i) == req.t = "GSUB" /\ TagOf(font, i) = "rvrn" /\ i # ls.r
             F    == IF s.ph = 0 THEN {i \in s.act : isRv(i)} ELSE {i \in s.act : ~isRv(i)}
             done == IF s.ph = 0 THEN Range(s.out) ELSE Range(SubSeq(s.out, s.ph, Len(s.out)))
             pend == LkSet(font, m, F) \ done
         IN IF pend # {} THEN [s EXCEPT !.out = Append(s.out, Min(pend))]
            ELSE IF s.ph = 0 THEN [s EXCEPT !.ph = Len(s.out) + 1]      \* the main phase starts behind the rvrn lookups
            ELSE [s EXCEPT !.pc = "done"]
    [] OTHER -> s

\* what the machine's run amounts to, in the vocabulary of the closed form
MSeq(s) == s.out
=============================================================================
