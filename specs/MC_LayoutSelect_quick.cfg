CONSTANTS
  LkMenuSize = 3
  LsMenuSize = 3
SPECIFICATION Spec
INVARIANTS StepSafe Agree Lemmas Emit
CHECK_DEADLOCK FALSE
