CONSTANTS
  HUGE = 1000000
  Roots <- RootsQuick
  MaxObjs = 4
  MaxObjsWide = 3
  Deep = FALSE
SPECIFICATION Spec
VIEW View
INVARIANTS DesignOK EmitCase
CHECK_DEADLOCK FALSE
