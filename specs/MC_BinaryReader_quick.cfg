CONSTANTS
  HUGE = 1000000
  Roots <- RootsQuick
  MaxObjs = 4
SPECIFICATION Spec
VIEW View
INVARIANTS DesignOK EmitCase
CHECK_DEADLOCK FALSE
