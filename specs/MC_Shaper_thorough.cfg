CONSTANTS
  TextLen = 3
  GsubSteps = 2
  GposSteps = 2
  GenLen = 5
  TxtLen = 6
SPECIFICATION Spec
INVARIANTS RunOK CallOK Sanity TextSanity Emit
CHECK_DEADLOCK FALSE
