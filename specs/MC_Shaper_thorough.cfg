CONSTANTS
  TextLen = 3
  GsubSteps = 2
  GposSteps = 2
  GenLen = 5
SPECIFICATION Spec
INVARIANTS RunOK CallOK Sanity Emit
CHECK_DEADLOCK FALSE
