------------------------------- MODULE Naming -------------------------------
(***************************************************************************)
(* X08 (extra) - name selection, STAT axis value names and the naming /    *)
(* style attributes of an instanced variable font.                         *)
(*                                                                         *)
(* Governing documents: OpenType `name`, `STAT`, `fvar`, `OS/2`, `head`,   *)
(* `post` chapters; the Mac OS Roman table as published (ROMAN.TXT, = the  *)
(* WHATWG "macintosh" index); the WHATWG UTF-16 decoder; Adobe Technical   *)
(* Note 5902 (PostScript names of variation instances); the doc comments   *)
(* of allsorts::get_name, NameTable::string_for_id,                        *)
(* StatTable::name_for_axis_value and variations::{axis_names, instance}.  *)
(*                                                                         *)
(* All text is a sequence of code points; bytes are sequences of 0..255.   *)
(*   name record   r = <<platform, encoding, language, nameId, bytes>>     *)
(*   axis value    t = <<format, axis, flags, nameId, value, lo, hi,       *)
(*                       linked, <<<<axis, value>>, ...>> >>  (format 4)   *)
(*   fvar axis     x = <<tag, min, default, max>>     (16.16 raw values)   *)
(*   fvar instance n = <<subfamilyNameId, postScriptNameId | 65535, coords>>*)
(* Results: a code point sequence, NONE (no name) or ERR.                  *)
(*                                                                         *)
(* Every part has (1) a small-step machine that follows the loop the code  *)
(* runs (one Step per record / unit / axis value table / axis), (2) a      *)
(* closed form, (3) the set of conformant readings where the documents     *)
(* leave freedom (Dev_ names), and (4) Keys: the verdict on an observation -    *)
(* {} when it conforms, else the names of the violated clauses; a named    *)
(* Code_ reading attributes a violation to a known behaviour of the code. *)
(***************************************************************************)
EXTENDS Integers, Sequences, FiniteSets, TLC, Bitwise, Json, IOUtils

NONE == <<-1>>
ERR  == <<-2>>

MinS(S) == CHOOSE x \in S : \A y \in S : x <= y
MaxS(S) == CHOOSE x \in S : \A y \in S : x >= y
AbsV(x) == IF x < 0 THEN -x ELSE x
SeqToSet(s) == {s[i] : i \in DOMAIN s}
RECURSIVE Flat(_)
Flat(ss) == IF ss = <<>> THEN <<>> ELSE Head(ss) \o Flat(Tail(ss))
RECURSIVE JoinSp(_)
JoinSp(ss) == IF ss = <<>> THEN <<>> ELSE IF Len(ss) = 1 THEN ss[1] ELSE ss[1] \o <<32>> \o JoinSp(Tail(ss))
Take(s, n) == SubSeq(s, 1, IF n < Len(s) THEN n ELSE Len(s))
StartsWith(s, p) == Len(s) >= Len(p) /\ SubSeq(s, 1, Len(p)) = p

P(r) == r[1]
E(r) == r[2]
L(r) == r[3]
Id(r) == r[4]
D(r) == r[5]

---------------------------------------------------------------------------
(* 1. Text encodings                                                       *)

\* Mac OS Roman, codes 0x80 .. 0xFF (Apple ROMAN.TXT with the euro sign at 0xDB; WHATWG index macintosh)
MacHigh == <<
  196, 197, 199, 201, 209, 214, 220, 225, 224, 226, 228, 227, 229, 231, 233, 232,
  234, 235, 237, 236, 238, 239, 241, 243, 242, 244, 246, 245, 250, 249, 251, 252,
  8224, 176, 162, 163, 167, 8226, 182, 223, 174, 169, 8482, 180, 168, 8800, 198, 216,
  8734, 177, 8804, 8805, 165, 181, 8706, 8721, 8719, 960, 8747, 170, 186, 937, 230, 248,
  191, 161, 172, 8730, 402, 8776, 8710, 171, 187, 8230, 160, 192, 195, 213, 338, 339,
  8211, 8212, 8220, 8221, 8216, 8217, 247, 9674, 255, 376, 8260, 8364, 8249, 8250, 64257, 64258,
  8225, 183, 8218, 8222, 8240, 194, 202, 193, 203, 200, 205, 206, 207, 204, 211, 212,
  63743, 210, 218, 219, 217, 305, 710, 732, 175, 728, 729, 730, 184, 733, 731, 711 >>
MacToUni(b) == IF b < 128 THEN b ELSE MacHigh[b - 127]
MacDecode(d) == [i \in DOMAIN d |-> MacToUni(d[i])]

\* Dev_MacCurrency / Dev_MacRomanPdfSubset (named in module Cmap, C06): code 0xDB is the currency sign in
\* the pre-8.5 table; the fifteen codes outside the PostScript / PDF MacRomanEncoding may be unknown.
MacPdfOmitted == {173, 176, 178, 179, 182, 183, 184, 185, 186, 189, 195, 197, 198, 215, 240}
MacTableOK(b, got) ==      \* macroman_to_char(b): got = code point or -1
  \/ got = MacToUni(b)
  \/ b = 219 /\ got = 164
  \/ b \in MacPdfOmitted /\ got = -1

IsHi(u) == u >= 55296 /\ u <= 56319
IsLo(u) == u >= 56320 /\ u <= 57343
Pair(h, l) == 65536 + (h - 55296) * 1024 + (l - 56320)
Units(d) == [i \in 1 .. (Len(d) \div 2) |-> d[2 * i - 1] * 256 + d[2 * i]]
UnitsLE(d) == [i \in 1 .. (Len(d) \div 2) |-> d[2 * i] * 256 + d[2 * i - 1]]
Odd(d) == Len(d) % 2 = 1

\* -- small-step UTF-16 decoder (WHATWG): one Step per code unit, Finish at the end of the data.
\*    hi = pending lead surrogate (-1: none); bad = some error was signalled (a strict decoder fails, a
\*    lossy one has emitted U+FFFD for it)
DecInit == [hi |-> -1, out |-> <<>>, bad |-> FALSE]
DecPlain(s, u) ==
  IF IsHi(u) THEN [s EXCEPT !.hi = u]
  ELSE IF IsLo(u) THEN [s EXCEPT !.out = Append(@, 65533), !.bad = TRUE]
  ELSE [s EXCEPT !.out = Append(@, u)]
DecStep(s, u) ==
  IF s.hi >= 0
  THEN IF IsLo(u) THEN [hi |-> -1, out |-> Append(s.out, Pair(s.hi, u)), bad |-> s.bad]
       ELSE DecPlain([hi |-> -1, out |-> Append(s.out, 65533), bad |-> TRUE], u)   \* the unit is processed again
  ELSE DecPlain(s, u)
DecFinish(s, odd) ==
  IF s.hi >= 0 \/ odd THEN [hi |-> -1, out |-> Append(s.out, 65533), bad |-> TRUE] ELSE s
RECURSIVE DecRun(_, _)
DecRun(s, us) == IF us = <<>> THEN s ELSE DecRun(TLCEval(DecStep(s, us[1])), Tail(us))
DecAll(us, odd) == DecFinish(DecRun(DecInit, us), odd)

\* -- closed forms
RECURSIVE U16Strict(_)
U16Strict(us) ==
  IF us = <<>> THEN <<>>
  ELSE IF IsHi(us[1])
       THEN IF Len(us) >= 2 /\ IsLo(us[2])
            THEN LET r == U16Strict(SubSeq(us, 3, Len(us)))
                 IN IF r = ERR THEN ERR ELSE <<Pair(us[1], us[2])>> \o r
            ELSE ERR
  ELSE IF IsLo(us[1]) THEN ERR
  ELSE LET r == U16Strict(Tail(us)) IN IF r = ERR THEN ERR ELSE <<us[1]>> \o r
RECURSIVE U16Lossy(_)
U16Lossy(us) ==
  IF us = <<>> THEN <<>>
  ELSE IF IsHi(us[1]) /\ Len(us) >= 2 /\ IsLo(us[2])
       THEN <<Pair(us[1], us[2])>> \o U16Lossy(SubSeq(us, 3, Len(us)))
  ELSE IF IsHi(us[1]) \/ IsLo(us[1]) THEN <<65533>> \o U16Lossy(Tail(us))
  ELSE <<us[1]>> \o U16Lossy(Tail(us))
\* an odd trailing byte and a lead surrogate pending at the end are ONE error
LossyTail(us, odd) == IF odd /\ ~(us # <<>> /\ IsHi(us[Len(us)])) THEN <<65533>> ELSE <<>>

StrictUtf16(d) == IF Odd(d) THEN ERR ELSE U16Strict(Units(d))
LossyUtf16(d)  == U16Lossy(Units(d)) \o LossyTail(Units(d), Odd(d))

\* lemma (checked by MC_Naming on every generated byte string): machine = closed forms
DecoderLemma(d) ==
  LET m == DecAll(Units(d), Odd(d))
  IN /\ (IF m.bad THEN ERR ELSE m.out) = StrictUtf16(d)
     /\ m.out = LossyUtf16(d)
     /\ (~m.bad) => (\A i \in DOMAIN m.out : ~IsHi(m.out[i]) /\ ~IsLo(m.out[i]) /\ m.out[i] <= 1114111)

\* the encoding of a record: platform 1 = Mac OS Roman (encoding 0), everything else here UTF-16BE
IsMac(r) == P(r) = 1
StrictOf(r) == IF IsMac(r) THEN MacDecode(D(r)) ELSE StrictUtf16(D(r))
LossyOf(r)  == IF IsMac(r) THEN MacDecode(D(r)) ELSE LossyUtf16(D(r))

\* a byte order mark at the start of the data.  OpenType name strings carry none: UTF-16BE is implied.
BomOf(d) == IF StartsWith(d, <<254, 255>>) THEN "be" ELSE IF StartsWith(d, <<255, 254>>) THEN "le"
            ELSE IF StartsWith(d, <<239, 187, 191>>) THEN "utf8" ELSE "none"
\* Dev_Utf16Bom: U+FEFF at the start of a UTF-16BE string may be dropped as a byte order mark
DropBom(r) == <<P(r), E(r), L(r), Id(r), SubSeq(D(r), 3, Len(D(r)))>>
\* Code_BomSniff: what a decoder with BOM sniffing makes of a record (UTF-8: ASCII only is modelled)
Utf8Ascii(rest) == IF \A k \in DOMAIN rest : rest[k] < 128 THEN rest ELSE ERR
SniffUnmodelled(recs, id) ==
  \E k \in DOMAIN recs : Id(recs[k]) = id /\ BomOf(D(recs[k])) = "utf8" /\ Utf8Ascii(SubSeq(D(recs[k]), 4, Len(D(recs[k])))) = ERR
SniffStrict(r) ==
  LET b == BomOf(D(r))
      rest == SubSeq(D(r), 3, Len(D(r)))
  IN IF b = "be" THEN StrictUtf16(rest)
     ELSE IF b = "le" THEN (IF Odd(rest) THEN ERR ELSE U16Strict(UnitsLE(rest)))
     ELSE IF b = "utf8" THEN Utf8Ascii(SubSeq(D(r), 4, Len(D(r)))) ELSE StrictOf(r)
SniffLossy(r) ==
  LET b == BomOf(D(r))
      rest == SubSeq(D(r), 3, Len(D(r)))
  IN IF b = "be" THEN LossyUtf16(rest)
     ELSE IF b = "le" THEN U16Lossy(UnitsLE(rest)) \o LossyTail(UnitsLE(rest), Odd(rest))
     ELSE IF b = "utf8" THEN Utf8Ascii(SubSeq(D(r), 4, Len(D(r)))) ELSE LossyOf(r)

---------------------------------------------------------------------------
(* 2. fontcode_get_name: the best record of a name id                      *)

\* the documented preference list, best first (get_name.rs); a record outside the list is never used
GnRank(r) ==
  LET p == P(r) e == E(r) l == L(r)
  IN CASE p = 3 /\ e = 10           -> 1     \* Windows, Unicode full repertoire
       [] p = 0 /\ e = 6 /\ l = 0   -> 2     \* Unicode, full repertoire
       [] p = 0 /\ e = 4 /\ l = 0   -> 3     \* Unicode 2.0+, full repertoire
       [] p = 3 /\ e = 1 /\ l = 1033 -> 4    \* Windows, BMP, en-US
       [] p = 3 /\ e = 1            -> 5     \* Windows, BMP, other languages
       [] p = 0 /\ e = 3 /\ l = 0   -> 6
       [] p = 0 /\ e = 2 /\ l = 0   -> 7
       [] p = 0 /\ e = 1 /\ l = 0   -> 8
       [] p = 0 /\ e = 0 /\ l = 0   -> 9
       [] p = 3 /\ e = 0            -> 10    \* Windows, Symbol
       [] p = 1 /\ e = 0 /\ l = 0   -> 11    \* Macintosh, Roman, English
       [] p = 1 /\ e = 0            -> 12    \* Macintosh, Roman, other languages
       [] OTHER                     -> 99
NoRank == 99
\* the name as a C string: undecodable data and an embedded NUL make the record unusable
GnText(dec(_), r) == LET s == dec(r) IN IF s = ERR \/ 0 \in SeqToSet(s) THEN ERR ELSE s

\* small-step: the loop over the records, state = (rank of the best usable record so far, its text)
GnInit == [rank |-> NoRank, res |-> NONE]
GnStep(dec(_), s, r, id) ==
  IF Id(r) = id /\ GnRank(r) < s.rank /\ GnText(dec, r) # ERR
  THEN [rank |-> GnRank(r), res |-> GnText(dec, r)] ELSE s
RECURSIVE GnRun(_, _, _, _)
GnRun(dec(_), s, recs, id) == IF recs = <<>> THEN s ELSE GnRun(dec, TLCEval(GnStep(dec, s, Head(recs), id)), Tail(recs), id)

\* closed form: among the usable records of the id, the first one of the best rank
GnClosed(dec(_), recs, id) ==
  LET U == {i \in DOMAIN recs : Id(recs[i]) = id /\ GnRank(recs[i]) < NoRank /\ GnText(dec, recs[i]) # ERR}
  IN IF U = {} THEN NONE
     ELSE LET best == MinS({GnRank(recs[i]) : i \in U})
          IN GnText(dec, recs[MinS({i \in U : GnRank(recs[i]) = best})])
GetName(recs, id) == GnClosed(StrictOf, recs, id)

\* Dev_Utf16Bom reading: every UTF-16 record starting with U+FEFF is read without it
BomDec(r) == IF ~IsMac(r) /\ BomOf(D(r)) = "be" THEN StrictOf(DropBom(r)) ELSE StrictOf(r)
GnAccept(recs, id) == {GetName(recs, id), GnClosed(BomDec, recs, id)}
GnKeys(recs, id, got) ==
  IF got \in GnAccept(recs, id) THEN {}
  ELSE IF got = GnClosed(SniffStrict, recs, id) \/ SniffUnmodelled(recs, id) THEN {"getname|bomSniffed"}
  ELSE {"getname|unexplained"}

---------------------------------------------------------------------------
(* 3. NameTable::string_for_id: "the first match in this order: Unicode    *)
(*    platform; Windows platform, English language ids; Apple platform,    *)
(*    Roman" - decoded with replacement characters                         *)

English(l) == l % 1024 = 9           \* Windows language ids whose primary language is English
SfiClass(r) ==
  IF P(r) = 0 THEN 1
  ELSE IF P(r) = 3 /\ E(r) \in {1, 10} /\ English(L(r)) THEN 2
  ELSE IF P(r) = 1 /\ E(r) = 0 /\ L(r) = 0 THEN 3 ELSE 0

\* small-step: state = (class of the best record so far, its index)
SfiInit == [cls |-> 9, ix |-> 0]
SfiStep(s, recs, i, id) ==
  IF Id(recs[i]) = id /\ SfiClass(recs[i]) # 0 /\ SfiClass(recs[i]) < s.cls
  THEN [cls |-> SfiClass(recs[i]), ix |-> i] ELSE s
RECURSIVE SfiRun(_, _, _, _)
SfiRun(s, recs, i, id) == IF i > Len(recs) THEN s ELSE SfiRun(SfiStep(s, recs, i, id), recs, i + 1, id)

SfiIndex(recs, id) ==
  LET M == {i \in DOMAIN recs : Id(recs[i]) = id /\ SfiClass(recs[i]) # 0}
  IN IF M = {} THEN 0
     ELSE LET c == MinS({SfiClass(recs[i]) : i \in M}) IN MinS({i \in M : SfiClass(recs[i]) = c})
\* Code_TableOrder: the first matching record in TABLE order, whatever its class (a sorted table lists
\* platform 1 before platform 3, so a Macintosh record wins over the Windows one)
SfiIndexTableOrder(recs, id) ==
  LET M == {i \in DOMAIN recs : Id(recs[i]) = id /\ SfiClass(recs[i]) # 0}
  IN IF M = {} THEN 0 ELSE MinS(M)
SfiText(dec(_), recs, i) == IF i = 0 THEN NONE ELSE dec(recs[i])
StringForId(recs, id) == SfiText(LossyOf, recs, SfiIndex(recs, id))
BomLossy(r) == IF ~IsMac(r) /\ BomOf(D(r)) = "be" THEN LossyOf(DropBom(r)) ELSE LossyOf(r)
SfiAccept(recs, id) == {StringForId(recs, id), SfiText(BomLossy, recs, SfiIndex(recs, id))}
SfiKeys(recs, id, got) ==
  IF got \in SfiAccept(recs, id) THEN {}
  ELSE IF got \in {SfiText(LossyOf, recs, SfiIndexTableOrder(recs, id)),
                   SfiText(BomLossy, recs, SfiIndexTableOrder(recs, id))} THEN {"sfi|tableOrderBeatsPriority"}
  ELSE IF got \in {SfiText(SniffLossy, recs, SfiIndex(recs, id)),
                   SfiText(SniffLossy, recs, SfiIndexTableOrder(recs, id))} \/ SniffUnmodelled(recs, id) THEN {"sfi|bomSniffed"}
  ELSE {"sfi|unexplained"}

---------------------------------------------------------------------------
(* 4. StatTable::name_for_axis_value                                       *)

TF(t) == t[1]
TA(t) == t[2]
TFl(t) == t[3]
TN(t) == t[4]
TV(t) == t[5]
TLo(t) == t[6]
THi(t) == t[7]
TAv(t) == t[9]
Older(t) == TFl(t) % 2 = 1
Elid(t)  == (TFl(t) \div 2) % 2 = 1
KnownFormat(t) == TF(t) \in 1 .. 4        \* "if the format is not recognized, the table can be ignored"
F4Val(t, a) == LET I == {i \in DOMAIN TAv(t) : TAv(t)[i][1] = a}
               IN IF I = {} THEN <<>> ELSE <<TAv(t)[MinS(I)][2]>>
F4Multi(t) == TF(t) = 4 /\ Len(TAv(t)) >= 2

\* t DESCRIBES value v of axis a (OpenType): exact value (formats 1, 3, one-axis format 4) or range
Describes(t, a, v) ==
  \/ TF(t) \in {1, 3} /\ TA(t) = a /\ TV(t) = v
  \/ TF(t) = 2 /\ TA(t) = a /\ TLo(t) <= v /\ v <= THi(t)
  \/ TF(t) = 4 /\ Len(TAv(t)) = 1 /\ TAv(t)[1] = <<a, v>>
\* t is a CANDIDATE for "the name that best describes v" (the crate's documented purpose): a table of
\* the axis with a value to measure the distance from; a range only when it contains v
CandVal(t, a, v) ==
  IF TF(t) \in {1, 3} THEN (IF TA(t) = a THEN <<TV(t)>> ELSE <<>>)
  ELSE IF TF(t) = 2 THEN (IF TA(t) = a /\ TLo(t) <= v /\ v <= THi(t) THEN <<TV(t)>> ELSE <<>>)
  ELSE IF TF(t) = 4 THEN F4Val(t, a) ELSE <<>>
Dist(t, a, v) == AbsV(CandVal(t, a, v)[1] - v)

\* small-step: one Step per axis value table; two bests - among the describing tables and among all
\* candidates - nearest first, earliest among equals
NoBest == [n |-> -1, d |-> 0, e |-> FALSE]
NavInit == [desc |-> NoBest, near |-> NoBest]
Better(b, t, a, v) == IF b.n = -1 \/ Dist(t, a, v) < b.d THEN [n |-> TN(t), d |-> Dist(t, a, v), e |-> Elid(t)] ELSE b
NavStep(s, t, a, v) ==
  IF ~KnownFormat(t) \/ CandVal(t, a, v) = <<>> THEN s
  ELSE [desc |-> IF Describes(t, a, v) THEN Better(s.desc, t, a, v) ELSE s.desc,
        near |-> Better(s.near, t, a, v)]
NavResult(b, pol) == IF b.n = -1 \/ (pol = 1 /\ b.e) THEN -1 ELSE b.n
NavFinish(s, pol) == NavResult(IF s.desc.n # -1 THEN s.desc ELSE s.near, pol)
RECURSIVE NavRun(_, _, _, _)
NavRun(s, tabs, a, v) == IF tabs = <<>> THEN s ELSE NavRun(TLCEval(NavStep(s, Head(tabs), a, v)), Tail(tabs), a, v)

\* closed form.  pol = 1: ElidableName::Exclude, 0: Include
Nearest(tabs, I, a, v) ==      \* the earliest table of I at the least distance (0 when I is empty)
  IF I = {} THEN 0
  ELSE LET m == MinS({Dist(tabs[i], a, v) : i \in I}) IN MinS({i \in I : Dist(tabs[i], a, v) = m})
TabResult(tabs, i, pol) == IF i = 0 \/ (pol = 1 /\ Elid(tabs[i])) THEN -1 ELSE TN(tabs[i])
Cands(tabs, a, v) == {i \in DOMAIN tabs : KnownFormat(tabs[i]) /\ CandVal(tabs[i], a, v) # <<>>}
Descr(tabs, a, v) == {i \in Cands(tabs, a, v) : Describes(tabs[i], a, v)}
NavClosed(tabs, a, v, pol) ==
  LET M == Descr(tabs, a, v)
  IN TabResult(tabs, Nearest(tabs, IF M # {} THEN M ELSE Cands(tabs, a, v), a, v), pol)
\* Code_NearestOnly: plain nearest candidate - a nearer value of another table beats the range that
\* contains v
NavNearestOnly(tabs, a, v, pol) == TabResult(tabs, Nearest(tabs, Cands(tabs, a, v), a, v), pol)

\* the conformant answers.
\*  - a describing table exists: the name of a describing table (any, if several overlap);
\*  - none exists: no name (the standard), or the nearest candidate(s) (the crate's "best describes");
\*  - Dev_Format4PerAxis: a multi-axis format 4 table describes a COMBINATION; asked about one axis it
\*    may be ignored or taken by its value for that axis;
\*  - Dev_OlderSibling: tables flagged OLDER_SIBLING_FONT_ATTRIBUTE describe other fonts of the family and
\*    may be ignored or used.
NavAcceptIn(tabs, T, a, v, pol) ==
  LET C  == {i \in Cands(tabs, a, v) : i \in T}
      C1 == {i \in C : ~F4Multi(tabs[i])}
      M  == {i \in C1 : Describes(tabs[i], a, v)}
      X  == {i \in C : F4Multi(tabs[i]) /\ CandVal(tabs[i], a, v) = <<v>>}
      Near(S) == IF S = {} THEN {} ELSE LET m == MinS({Dist(tabs[i], a, v) : i \in S})
                                        IN {i \in S : Dist(tabs[i], a, v) = m}
  IN {TabResult(tabs, i, pol) : i \in M \cup X}
       \cup (IF M = {} THEN {-1} \cup {TabResult(tabs, i, pol) : i \in Near(C1) \cup Near(C)} ELSE {})
NavAccept(tabs, a, v, pol) ==
  NavAcceptIn(tabs, DOMAIN tabs, a, v, pol) \cup NavAcceptIn(tabs, {i \in DOMAIN tabs : ~Older(tabs[i])}, a, v, pol)
NavKeys(tabs, a, v, pol, got) ==
  IF got \in NavAccept(tabs, a, v, pol) THEN {}
  ELSE IF got = NavNearestOnly(tabs, a, v, pol) THEN {"nav|nearerValueBeatsContainingRange"}
  ELSE {"nav|unexplained"}

---------------------------------------------------------------------------
(* 5. The names and style attributes of an instance                        *)

Regular == <<82, 101, 103, 117, 108, 97, 114>>
Unknown == <<85, 110, 107, 110, 111, 119, 110>>
TagWght == <<119, 103, 104, 116>>
TagWdth == <<119, 100, 116, 104>>
TagSlnt == <<115, 108, 110, 116>>
Rewritten == {1, 2, 3, 4, 6, 16, 17}

RECURSIVE Num(_)
Num(n) == IF n < 10 THEN <<48 + n>> ELSE Num(n \div 10) \o <<48 + (n % 10)>>
RECURSIVE Pow10(_)
Pow10(d) == IF d = 0 THEN 1 ELSE 10 * Pow10(d - 1)
RECURSIVE PadNum(_, _)
PadNum(n, w) == IF w = 0 THEN <<>> ELSE PadNum(n \div 10, w - 1) \o <<48 + (n % 10)>>
Trim(s) ==      \* leading and trailing spaces removed
  LET I == {i \in DOMAIN s : s[i] # 32} IN IF I = {} THEN <<>> ELSE SubSeq(s, MinS(I), MaxS(I))
IsAlnum(c) == (c >= 48 /\ c <= 57) \/ (c >= 65 /\ c <= 90) \/ (c >= 97 /\ c <= 122)
Alnum(s) == SelectSeq(s, IsAlnum)

\* -- 5.1 a 16.16 number with the fewest decimals that still identify it (TN 5902 "fixedToMinFloat")
RECURSIVE RemAfter(_, _)
RemAfter(f, d) == IF d = 0 THEN f ELSE (RemAfter(f, d - 1) * 10) % 65536      \* (f * 10^d) mod 65536
RECURSIVE DigitsTo(_, _)
DigitsTo(f, d) == IF d = 0 THEN 0 ELSE DigitsTo(f, d - 1) * 10 + (RemAfter(f, d - 1) * 10) \div 65536
FitsDown(f, d) == RemAfter(f, d) * 2 < Pow10(d)
FitsUp(f, d)   == (65536 - RemAfter(f, d)) * 2 < Pow10(d)
MinDigits(f) == MinS({d \in 1 .. 5 : FitsDown(f, d) \/ FitsUp(f, d)})
\* the acceptable numerators k (k / 10^d): nearest; both at an exact tie
FracK(f, d) == LET r == RemAfter(f, d) q == DigitsTo(f, d)
               IN IF r * 2 < 65536 THEN {q} ELSE IF r * 2 > 65536 THEN {q + 1} ELSE {q, q + 1}
MinFloatSet(raw) ==
  LET a == AbsV(raw)
      i == a \div 65536
      f == a % 65536
      sg == IF raw < 0 THEN <<45>> ELSE <<>>
  IN IF f = 0 THEN {sg \o Num(i)}
     ELSE LET d == MinDigits(f)
          IN {IF k = Pow10(d) THEN sg \o Num(i + 1) ELSE sg \o Num(i) \o <<46>> \o PadNum(k, d) : k \in FracK(f, d)}
MinFloat(raw) == CHOOSE s \in MinFloatSet(raw) : \A t \in MinFloatSet(raw) : Len(s) <= Len(t)
\* lemma: the chosen decimal identifies the number (its distance is below half a unit of 16.16)
MinFloatLemma(raw) ==
  LET f == AbsV(raw) % 65536 IN f # 0 => LET d == MinDigits(f) IN
     /\ \A d2 \in 1 .. d - 1 : ~FitsDown(f, d2) /\ ~FitsUp(f, d2)
     /\ \A k \in FracK(f, d) : k % 10 # 0 \/ k = Pow10(d)

\* -- 5.2 CRC-32 (IEEE 802.3, reflected) on 16-bit halves <<hi, lo>>, for the "last resort" name
CrcBit(c) ==
  LET h == c[1] \div 2
      l == (c[2] \div 2) + ((c[1] % 2) * 32768)
  IN IF c[2] % 2 = 1 THEN <<h ^^ 60856, l ^^ 33568>> ELSE <<h, l>>          \* 0xEDB8 8320
\* (`IF d[1] < 0` is never true: the test FORCES d before the recursive call.  Arguments are lazy in TLC; unforced,
\*  the value of every step hangs on the one before it and the whole chain - 8 x length deep - is evaluated at the
\*  bottom of the recursion.  The ASSUME below is evaluated by TLC's main thread, which has the small default stack:
\*  about two of three starts ended in a StackOverflowError re-wrapped at every level - a start-up that never ends.)
RECURSIVE CrcBits(_, _)
CrcBits(c, n) == IF n = 0 THEN c ELSE LET d == CrcBit(c) IN IF d[1] < 0 THEN d ELSE CrcBits(d, n - 1)
RECURSIVE CrcRun(_, _)
CrcRun(c, s) == IF s = <<>> THEN c
                ELSE LET d == CrcBits(<<c[1], c[2] ^^ Head(s)>>, 8) IN IF d[1] < 0 THEN d ELSE CrcRun(d, Tail(s))
Crc32(s) == LET c == CrcRun(<<65535, 65535>>, s) IN <<c[1] ^^ 65535, c[2] ^^ 65535>>
HexDigit(n) == IF n < 10 THEN 48 + n ELSE 55 + n
RECURSIVE HexNum(_)
HexNum(n) == IF n < 16 THEN <<HexDigit(n)>> ELSE HexNum(n \div 16) \o <<HexDigit(n % 16)>>
Hex32(c) == IF c[1] = 0 THEN HexNum(c[2])       \* "{:X}": no leading zeros
            ELSE HexNum(c[1]) \o <<HexDigit(c[2] \div 4096), HexDigit((c[2] \div 256) % 16),
                                    HexDigit((c[2] \div 16) % 16), HexDigit(c[2] % 16)>>
ASSUME Hex32(Crc32(<<49, 50, 51, 52, 53, 54, 55, 56, 57>>)) = <<67, 66, 70, 52, 51, 57, 50, 54>>   \* "123456789" -> CBF43926

\* -- 5.3 the PostScript name of an arbitrary instance (TN 5902 section 2, rule 3; name id 6 <= 63 chars)
\* small-step: one Step per fvar axis
PsStep(s, x, v) == IF v = x[3] THEN s ELSE s \o <<95>> \o MinFloat(v) \o Trim(x[1])
RECURSIVE PsRun(_, _, _)
PsRun(s, axes, tuple) == IF axes = <<>> THEN s ELSE PsRun(TLCEval(PsStep(s, Head(axes), Head(tuple))), Tail(axes), Tail(tuple))
PsLimit == 63
PsShorten(prefix, full) ==
  IF Len(full) <= PsLimit THEN full
  ELSE LET h == <<45>> \o Hex32(Crc32(full)) \o <<46, 46, 46>> IN Take(prefix, PsLimit - Len(h)) \o h
\* closed form
PsFull(prefix, axes, tuple) ==
  prefix \o Flat([i \in DOMAIN axes |-> IF tuple[i] = axes[i][3] THEN <<>>
                                       ELSE <<95>> \o MinFloat(tuple[i]) \o Trim(axes[i][1])])
PsName(prefixSrc, axes, tuple) == LET p == Alnum(prefixSrc) IN PsShorten(p, PsFull(p, axes, tuple))
\* the readings at an exact decimal tie
PsNameSet(prefixSrc, axes, tuple) ==
  LET p == Alnum(prefixSrc)
      RECURSIVE Fulls(_)
      Fulls(i) == IF i > Len(axes) THEN {<<>>}
                  ELSE IF tuple[i] = axes[i][3] THEN Fulls(i + 1)
                  ELSE {<<95>> \o m \o Trim(axes[i][1]) \o r : m \in MinFloatSet(tuple[i]), r \in Fulls(i + 1)}
  IN {PsShorten(p, p \o f) : f \in Fulls(1)}

\* -- 5.4 unique id: "<version to three decimals>;<vendor>;<PostScript name>"
Version3Set(rev) ==
  LET t == (rev * 1000) \div 65536
      r == (rev * 1000) % 65536
      ks == IF r * 2 < 65536 THEN {t} ELSE IF r * 2 > 65536 THEN {t + 1} ELSE {t, t + 1}
  IN {Num(k \div 1000) \o <<46>> \o PadNum(k % 1000, 3) : k \in ks}
UniqueIdSet(rev, vend, ps) == {v \o <<59>> \o Trim(vend) \o <<59>> \o ps : v \in Version3Set(rev)}

\* -- 5.5 OS/2 classes
\* usWidthClass: percentages of normal 50, 62.5, 75, 87.5, 100, 112.5, 125, 150, 200 (OS/2 chapter)
WidthPct == <<3276800, 4096000, 4915200, 5734400, 6553600, 7372800, 8192000, 9830400, 13107200>>
WidthClassSet(v) ==      \* the class(es) whose percentage is nearest
  LET m == MinS({AbsV(WidthPct[c] - v) : c \in 1 .. 9}) IN {c \in 1 .. 9 : AbsV(WidthPct[c] - v) = m}
\* small-step: walk up the table while the next class is at least as near
RECURSIVE WidthWalk(_, _)
WidthWalk(c, v) == IF c < 9 /\ AbsV(WidthPct[c + 1] - v) < AbsV(WidthPct[c] - v) THEN WidthWalk(c + 1, v) ELSE c
\* usWeightClass of a wght value: Dev_WeightClass - the value itself, rounded, in 1 .. 1000 (OS/2 chapter:
\* "1 to 1000", the wght scale IS the usWeightClass scale), or the nearest of the nine named classes
\* (variations.rs: "weight classes are only defined for 100, 200, ... 900")
RoundHalfSet(raw) == LET i == raw \div 65536 f == raw % 65536
                     IN IF f * 2 < 65536 THEN {i} ELSE IF f * 2 > 65536 THEN {i + 1} ELSE {i, i + 1}
Clamp(x, lo, hi) == IF x < lo THEN lo ELSE IF x > hi THEN hi ELSE x
WeightExactSet(raw) == {Clamp(w, 1, 1000) : w \in RoundHalfSet(raw)}
WeightHundredSet(raw) ==
  LET v == Clamp(raw, 65536, 65536000)
      m == MinS({AbsV(c * 6553600 - v) : c \in 0 .. 10})
  IN {Clamp(c * 100, 100, 900) : c \in {c \in 0 .. 10 : AbsV(c * 6553600 - v) = m}}
WeightClassSet(raw) == WeightExactSet(raw) \cup WeightHundredSet(raw)

\* -- 5.6 the model of the source font and of the observation
\* src  = [wc, wdc, fs, mac, ia, rev, vend]; stat = [has, ver, fb, axes, tabs], stat axis = <<tag, nameId, ordering>>
Bit(x, b) == (x \div b) % 2 = 1
AxisIx(axes, tag) == LET I == {i \in DOMAIN axes : axes[i][1] = tag} IN IF I = {} THEN 0 ELSE MinS(I)

\* string_for_id under the accepted readings
SfiOpt(names, id) == SfiAccept(names, id)
Sfi(names, id) == StringForId(names, id)

\* typographic subfamily name from STAT.  For every fvar axis, in fvar order, the STAT design axis of the
\* same tag; its value name (elidable names excluded); the names sorted by axisOrdering (stable);
\* nothing left: elidedFallbackNameID (STAT 1.1+), else "Regular".
\* A multi-axis format 4 table applies only when ALL its axis values equal the instance's.
F4Applies(t, saxes, axes, tuple) ==
  \A k \in DOMAIN TAv(t) :
     LET sa == TAv(t)[k][1] + 1
     IN sa \in DOMAIN saxes /\ AxisIx(axes, saxes[sa][1]) # 0 /\ tuple[AxisIx(axes, saxes[sa][1])] = TAv(t)[k][2]
InstTabs(stat, axes, tuple) ==      \* the tables that may be consulted axis by axis
  SelectSeq(stat.tabs, LAMBDA t : ~F4Multi(t))
AnyF4Full(stat, axes, tuple) ==
  \E i \in DOMAIN stat.tabs : F4Multi(stat.tabs[i]) /\ F4Applies(stat.tabs[i], stat.axes, axes, tuple)
RECURSIVE InsertOrd(_, _)
InsertOrd(s, x) ==      \* stable insertion by x[2]
  IF s = <<>> THEN <<x>> ELSE IF x[2] < s[1][2] THEN <<x>> \o s ELSE <<s[1]>> \o InsertOrd(Tail(s), x)
RECURSIVE SortOrd(_)
SortOrd(s) == IF s = <<>> THEN <<>> ELSE InsertOrd(SortOrd(SubSeq(s, 1, Len(s) - 1)), s[Len(s)])
\* small-step: one Step per fvar axis appends <<name id, ordering>>; pick(tabs, axisIndex, value) -> id | -1
SubStep(acc, pick(_, _, _), tabs, saxes, x, v) ==
  LET RECURSIVE Go(_, _)
      Go(a, k) == IF k > Len(saxes) THEN a
                  ELSE IF saxes[k][1] = x[1] /\ pick(tabs, k - 1, v) # -1
                       THEN Go(Append(a, <<pick(tabs, k - 1, v), saxes[k][3]>>), k + 1)
                       ELSE Go(a, k + 1)
  IN Go(acc, 1)
RECURSIVE SubRun(_, _, _, _, _, _)
SubRun(acc, pick(_, _, _), tabs, saxes, axes, tuple) ==
  IF axes = <<>> THEN acc
  ELSE SubRun(SubStep(acc, pick, tabs, saxes, Head(axes), Head(tuple)), pick, tabs, saxes, Tail(axes), Tail(tuple))
SubFromIds(ids, names, stat) ==
  IF ids = <<>>
  THEN (IF stat.ver >= 1 /\ Sfi(names, stat.fb) # NONE THEN Sfi(names, stat.fb) ELSE Regular)
  ELSE LET so == SortOrd(ids)
           strs == SelectSeq([i \in DOMAIN so |-> Sfi(names, so[i][1])], LAMBDA s : s # NONE)
       IN JoinSp(strs)
PickPrimary(tabs, a, v) == NavClosed(tabs, a, v, 1)
PickCode(tabs, a, v)    == NavNearestOnly(tabs, a, v, 1)
SubPrimary(names, stat, axes, tuple) ==
  SubFromIds(SubRun(<<>>, PickPrimary, InstTabs(stat, axes, tuple), stat.axes, axes, tuple), names, stat)
\* Code_Format4Partial: multi-axis format 4 tables consulted axis by axis like every other table
SubCode(names, stat, axes, tuple) ==
  SubFromIds(SubRun(<<>>, PickCode, stat.tabs, stat.axes, axes, tuple), names, stat)
SubCodeNoF4(names, stat, axes, tuple) ==
  SubFromIds(SubRun(<<>>, PickCode, InstTabs(stat, axes, tuple), stat.axes, axes, tuple), names, stat)
\* all conformant readings: every choice of an accepted answer per (fvar axis, matching STAT axis)
SubReadings(names, stat, axes, tuple) ==
  LET tabs == InstTabs(stat, axes, tuple)
      RECURSIVE Go(_, _, _)
      \* i = fvar axis, k = STAT axis: the set of id lists
      Go(i, k, acc) ==
        IF i > Len(axes) THEN {acc}
        ELSE IF k > Len(stat.axes) THEN Go(i + 1, 1, acc)
        ELSE IF stat.axes[k][1] # axes[i][1] THEN Go(i, k + 1, acc)
        ELSE UNION {Go(i, k + 1, IF n = -1 THEN acc ELSE Append(acc, <<n, stat.axes[k][3]>>))
                      : n \in NavAccept(tabs, k - 1, tuple[i], 1)}
  IN {SubFromIds(ids, names, stat) : ids \in Go(1, 1, <<>>)}
\* Dev_NamedInstance: an fvar named instance with exactly these coordinates names the instance
InstanceAt(insts, tuple) == {i \in DOMAIN insts : insts[i][3] = tuple}
SubNoStat(names) == IF Sfi(names, 17) # NONE THEN Sfi(names, 17) ELSE Sfi(names, 2)

Family(names)     == IF Sfi(names, 1) # NONE THEN Sfi(names, 1) ELSE Sfi(names, 16)
TypoFamily(names) == IF Sfi(names, 16) # NONE THEN Sfi(names, 16) ELSE Sfi(names, 1)
PsPrefix(names)   == IF Sfi(names, 25) # NONE THEN Sfi(names, 25) ELSE TypoFamily(names)

\* the primary reading of the whole instance: [err, sub, n1, n2, n3, n4, n6, n16, n17, wc, wdc, ital, bold, ia]
HasAxis(axes, tag) == AxisIx(axes, tag) # 0
AxVal(axes, tuple, tag) == tuple[AxisIx(axes, tag)]
NonDefault(axes, tuple, tag) == HasAxis(axes, tag) /\ AxVal(axes, tuple, tag) # axes[AxisIx(axes, tag)][3]
InstPrimary(a) ==
  LET names == a.names
      sub == IF a.stat.has = 1 THEN SubPrimary(names, a.stat, a.axes, a.tuple) ELSE SubNoStat(names)
      fam == Family(names)
      tf  == TypoFamily(names)
      ps  == PsName(PsPrefix(names), a.axes, a.tuple)
      wc  == IF NonDefault(a.axes, a.tuple, TagWght)
             THEN MaxS(WeightHundredSet(AxVal(a.axes, a.tuple, TagWght)))      \* a tie rounds up
             ELSE a.src.wc
      wdc == IF NonDefault(a.axes, a.tuple, TagWdth) THEN WidthWalk(1, AxVal(a.axes, a.tuple, TagWdth)) ELSE a.src.wdc
      ital == IF HasAxis(a.axes, TagSlnt) THEN AxVal(a.axes, a.tuple, TagSlnt) # 0 ELSE Bit(a.src.mac, 2)
      bold == IF NonDefault(a.axes, a.tuple, TagWght) THEN wc >= 600 ELSE Bit(a.src.mac, 1)
  IN IF sub = NONE \/ fam = NONE
     THEN [err |-> 1, sub |-> NONE, n1 |-> NONE, n3 |-> NONE, n4 |-> NONE, n6 |-> NONE, n16 |-> NONE,
           wc |-> 0, wdc |-> 0, ital |-> FALSE, bold |-> FALSE]
     ELSE [err |-> 0, sub |-> sub, n1 |-> fam \o <<32>> \o sub,
           n3 |-> CHOOSE u \in UniqueIdSet(a.src.rev, a.src.vend, ps) : TRUE,
           n4 |-> tf \o <<32>> \o sub, n6 |-> ps, n16 |-> tf,
           wc |-> wc, wdc |-> wdc, ital |-> ital, bold |-> bold]

\* -- 5.7 the verdict on an observed instance
\* o = [err, names (the records of the rewritten ids), ord (<<p, e, l, id>> of every output record, in
\*      order), kept (the other records, compact), wc, wdc, fs, mac, ia]
\* a.kept = the compact form of the source records whose ids are not rewritten
TextsOf(o, id) == {StrictOf(o.names[i]) : i \in {i \in DOMAIN o.names : Id(o.names[i]) = id}}
OneText(o, id) == IF Cardinality(TextsOf(o, id)) = 1 THEN CHOOSE s \in TextsOf(o, id) : TRUE ELSE ERR
LexLE(x, y) ==
  \/ x[1] < y[1]
  \/ x[1] = y[1] /\ x[2] < y[2]
  \/ x[1] = y[1] /\ x[2] = y[2] /\ x[3] < y[3]
  \/ x[1] = y[1] /\ x[2] = y[2] /\ x[3] = y[3] /\ x[4] <= y[4]
SortedRecs(ord) == \A i \in 1 .. Len(ord) - 1 : LexLE(ord[i], ord[i + 1])

InstKeys(a, o) ==
  LET names == a.names
      axes  == a.axes
      tuple == a.tuple
      p     == InstPrimary(a)
      wv    == AxVal(axes, tuple, TagWght)
      dv    == AxVal(axes, tuple, TagWdth)
      sub   == OneText(o, 17)
      n6    == OneText(o, 6)
      named == InstanceAt(a.insts, tuple)
      subOK == IF a.stat.has = 1
               THEN \/ sub \in SubReadings(names, a.stat, axes, tuple)
                    \/ AnyF4Full(a.stat, axes, tuple)                        \* Dev_Format4Full: not modelled
                    \/ \E i \in named : sub = Sfi(names, a.insts[i][1])
               ELSE sub = SubNoStat(names) \/ \E i \in named : sub = Sfi(names, a.insts[i][1])
      psOK  == \/ n6 \in PsNameSet(PsPrefix(names), axes, tuple)
               \/ \E i \in named :      \* TN 5902 rules 1 and 2 for named instances
                     \/ a.insts[i][2] # 65535 /\ n6 = Sfi(names, a.insts[i][2])
                     \/ n6 = Alnum(PsPrefix(names)) \o <<45>> \o Alnum(Sfi(names, a.insts[i][1]))
      ital  == Bit(o.mac, 2)
      bold  == Bit(o.mac, 1)
      italWant == IF HasAxis(axes, TagSlnt) THEN {AxVal(axes, tuple, TagSlnt) # 0} ELSE {Bit(a.src.mac, 2)}
      \* Dev_BoldThreshold: bold from semi-bold (600, variations.rs) or from bold (700) on
      boldWant == IF NonDefault(axes, tuple, TagWght)
                  THEN {o.wc >= 600, o.wc >= 700} ELSE {Bit(a.src.mac, 1)}
      wdcWant == IF NonDefault(axes, tuple, TagWdth) THEN WidthClassSet(dv) ELSE {a.src.wdc}
      \* Dev_MacStyleWidth: semi-condensed (4) / semi-expanded (6) may or may not count
      condWant == IF NonDefault(axes, tuple, TagWdth) THEN {o.wdc < 4, o.wdc < 5} ELSE {Bit(a.src.mac, 32)}
      extWant  == IF NonDefault(axes, tuple, TagWdth) THEN {o.wdc > 6, o.wdc > 5} ELSE {Bit(a.src.mac, 64)}
      \* Dev_ItalicAngle: post.italicAngle kept or set from the slnt coordinate
      iaWant == {a.src.ia} \cup (IF HasAxis(axes, TagSlnt) THEN {AxVal(axes, tuple, TagSlnt)} ELSE {})
  IN IF p.err = 1
     THEN (IF o.err # <<>> THEN {} ELSE {"inst|noErrorWithoutFamilyOrSubfamilyName"})
     ELSE IF o.err # <<>> THEN {"inst|error"}
     ELSE
       (IF subOK THEN {}
        ELSE IF a.stat.has = 1 /\ sub = SubCode(names, a.stat, axes, tuple)
                /\ sub # SubCodeNoF4(names, a.stat, axes, tuple) THEN {"inst|subfamily|format4PartialMatch"}
        ELSE IF a.stat.has = 1 /\ sub = SubCode(names, a.stat, axes, tuple) THEN {"inst|subfamily|nearerValueBeatsContainingRange"}
        ELSE {"inst|subfamily|unexplained"})
       \cup (IF sub = ERR THEN {}
             ELSE (IF OneText(o, 1) = Family(names) \o <<32>> \o sub THEN {} ELSE {"inst|name1"})
                  \cup (IF OneText(o, 4) = TypoFamily(names) \o <<32>> \o sub THEN {} ELSE {"inst|name4"}))
       \cup (IF OneText(o, 2) = Regular THEN {} ELSE {"inst|name2"})
       \cup (IF OneText(o, 16) = TypoFamily(names) THEN {} ELSE {"inst|name16"})
       \cup (IF psOK THEN {} ELSE {"inst|postscriptName"})
       \cup (IF n6 # ERR /\ (Len(n6) > PsLimit \/ \E i \in DOMAIN n6 : n6[i] < 33 \/ n6[i] > 126
                                                    \/ n6[i] \in {91, 93, 40, 41, 123, 125, 60, 62, 47, 37})
             THEN {"inst|postscriptNameCharset"} ELSE {})
       \cup (IF n6 = ERR \/ a.src.rev > 2000000 \/ a.src.rev < 0 \/ OneText(o, 3) \in UniqueIdSet(a.src.rev, a.src.vend, n6)
             THEN {} ELSE {"inst|uniqueId"})
       \cup (IF o.kept = a.kept THEN {} ELSE {"inst|otherNamesChanged"})
       \cup (IF SortedRecs(o.ord) THEN {} ELSE {"inst|nameRecordsUnsorted"})
       \cup (IF NonDefault(axes, tuple, TagWght)
             THEN (IF o.wc \in WeightClassSet(wv) THEN {} ELSE {"inst|usWeightClass"})
             ELSE (IF o.wc = a.src.wc THEN {} ELSE {"inst|usWeightClassAtDefault"}))
       \cup (IF o.wdc \in wdcWant THEN {} ELSE {"inst|usWidthClass"})
       \cup (IF ital \in italWant THEN {}
             ELSE IF ~HasAxis(axes, TagSlnt) /\ ~ital THEN {"inst|italicClearedWithoutSlntAxis"} ELSE {"inst|italic"})
       \cup (IF bold \in boldWant THEN {} ELSE {"inst|bold"})
       \cup (IF Bit(o.mac, 32) \in condWant /\ Bit(o.mac, 64) \in extWant THEN {} ELSE {"inst|macStyleWidth"})
       \* OS/2 chapter: fsSelection bits 0 / 5 mirror macStyle bits 1 / 0; REGULAR iff neither
       \cup (IF Bit(o.fs, 1) = ital /\ Bit(o.fs, 32) = bold THEN {} ELSE {"inst|fsSelectionMacStyleDisagree"})
       \cup (IF Bit(o.fs, 64) = (~ital /\ ~bold) THEN {} ELSE {"inst|fsSelectionRegular"})
       \cup (IF (o.fs \div 128) = (a.src.fs \div 128) /\ ((o.fs \div 2) % 16) = ((a.src.fs \div 2) % 16)
                /\ ((o.mac \div 4) % 8) = ((a.src.mac \div 4) % 8) /\ (o.mac \div 128) = (a.src.mac \div 128)
             THEN {} ELSE {"inst|otherStyleBitsChanged"})
       \cup (IF o.ia \in iaWant THEN {} ELSE {"inst|italicAngle"})

\* -- 5.8 variations::axis_names: one entry per STAT design axis; "Unknown" for a missing name
AxisNamesSet(a) ==
  IF a.stat.has = 0 THEN {<< <<-1>> >>}
  ELSE LET RECURSIVE Go(_)
           Go(k) == IF k > Len(a.stat.axes) THEN {<<>>}
                    ELSE {<< <<a.stat.axes[k][1], IF n = NONE THEN Unknown ELSE n, a.stat.axes[k][3]>> >> \o r
                            : n \in SfiOpt(a.names, a.stat.axes[k][2]), r \in Go(k + 1)}
       IN Go(1)
AxisNamesPrimary(a) ==
  IF a.stat.has = 0 THEN << <<-1>> >>
  ELSE [k \in DOMAIN a.stat.axes |->
          <<a.stat.axes[k][1], IF Sfi(a.names, a.stat.axes[k][2]) = NONE THEN Unknown ELSE Sfi(a.names, a.stat.axes[k][2]),
            a.stat.axes[k][3]>>]
AxisNamesKeys(a, got) ==
  IF got \in AxisNamesSet(a) THEN {}
  ELSE IF a.stat.has = 1 /\ Len(got) = Len(a.stat.axes)
          /\ \A k \in DOMAIN got :
                /\ Len(got[k]) = 3 /\ got[k][1] = a.stat.axes[k][1] /\ got[k][3] = a.stat.axes[k][3]
                /\ got[k][2] \in {Unknown} \cup {SfiText(BomLossy, a.names, SfiIndexTableOrder(a.names, a.stat.axes[k][2]))}
       THEN {"sfi|tableOrderBeatsPriority"}
  ELSE {"axisnames|unexplained"}

\* -- 5.9 attribution: an observation that conforms once every string_for_id is read in table order
CanonTableOrder(names) ==
  LET I == SelectSeq([k \in DOMAIN names |-> k],
                     LAMBDA k : SfiClass(names[k]) = 0 \/ k = SfiIndexTableOrder(names, Id(names[k])))
  IN [j \in DOMAIN I |-> names[I[j]]]
InstVerdict(a, o) ==
  LET k1 == InstKeys(a, o)
  IN IF k1 = {} THEN {}
     ELSE LET k2 == InstKeys([a EXCEPT !.names = CanonTableOrder(a.names)], o)
          IN IF k2 # k1 /\ k2 \subseteq k1 THEN k2 \cup {"sfi|tableOrderBeatsPriority"} ELSE k1
=============================================================================
