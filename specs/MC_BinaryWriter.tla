-------------------------- MODULE MC_BinaryWriter --------------------------
(***************************************************************************)
(* Bounded exhaustive exploration of BinaryWriter and generator of replay  *)
(* cases (C15, part a).                                                    *)
(*                                                                         *)
(* A state is a buffer with its outstanding placeholders, reached by a     *)
(* short script over a small alphabet (PathOps).  For every state the      *)
(* invariant checks the design properties on EVERY operation of the full   *)
(* alphabet (FanOps: every type with its boundary values, oversize values, *)
(* composites that fit exactly / leave room / overflow by one part or as   *)
(* a whole) and prints one CASE: the script and the fan with the           *)
(* observation the specification prescribes.  The harness replays each     *)
(* CASE on the real WriteBuffer and reads the result back with ReadScope.  *)
(***************************************************************************)
EXTENDS BinaryWriter, Json

CONSTANTS MaxOps,       \* length of the script
          MaxLen        \* bound on the buffer length along the script

VARIABLES st, path
vars == <<st, path>>

B4(a) == <<a, 0, 255, 128>>
B8(a) == <<a, 255, 0, 1, 2, 3, 4, 128>>

Bounds(ty) ==
  CASE ty = "u8"  -> {0, 1, 127, 128, 255}
    [] ty = "i8"  -> {-128, -1, 0, 1, 127}
    [] ty = "u16" -> {0, 255, 256, 32767, 32768, 65535}
    [] ty = "i16" -> {-32768, -32767, -256, -1, 0, 255, 256, 32767}
    [] ty = "u24" -> {0, 65535, 65536, 8388608, 16777215, 16777216, 16777217, 2147483647}
    [] ty = "i32" -> {-2147483647 - 1, -2147483647, -65536, -1, 0, 65535, 16777216, 2147483647}
    [] ty = "u32" -> {B4(0), B4(127), B4(128), B4(255), <<255, 255, 255, 255>>}
    [] ty = "i64" -> {B8(0), B8(128), B8(255), <<128, 0, 0, 0, 0, 0, 0, 0>>}

PhTypes == <<"u8", "u16", "u24", "u32", "i16">>
WTypeSeq == <<"u8", "i8", "u16", "i16", "u24", "i32", "u32", "i64">>

\* Operations are kept in SEQUENCES (TLC cannot compare values of different shapes, which a
\* set of operations with integer, byte-tuple and composite arguments would require).
Map(S, F(_)) == LET q == SetToSeq(S) IN [i \in 1 .. Len(q) |-> F(q[i])]
MapSeq(q, F(_)) == [i \in 1 .. Len(q) |-> F(q[i])]

\* composites offered to a reservation of n bytes
Composites(n) ==
  << <<[p |-> "u16", v |-> 258]>>,                                         \* 2 bytes, one part
     <<[p |-> "u16", v |-> 258], [p |-> "u16", v |-> 772]>>,               \* 4 bytes, two parts
     <<[p |-> "u8", v |-> 7], [p |-> "u16", v |-> 2057], [p |-> "u8", v |-> 10]>>,
     <<[p |-> "b", v |-> <<1, 2, 3>>]>>,
     <<[p |-> "b", v |-> <<1, 2, 3>>], [p |-> "b", v |-> <<4, 5, 6>>]>>,
     <<[p |-> "u8", v |-> 7], [p |-> "z", v |-> 2], [p |-> "u8", v |-> 9]>>,  \* zeros inside a value
     <<[p |-> "z", v |-> 1], [p |-> "u8", v |-> 9]>>,
     <<[p |-> "u8", v |-> 9], [p |-> "z", v |-> 1]>>,
     <<[p |-> "u24", v |-> 16777216]>>,                                    \* part out of range
     <<>>,
     <<[p |-> "b", v |-> [i \in 1 .. n |-> i]]>>,                          \* exactly n
     <<[p |-> "b", v |-> [i \in 1 .. (n + 1) |-> i]]>> >>                  \* n + 1

PhFan(s, k) ==
  IF s.phs[k].used THEN <<>>
  ELSE IF s.phs[k].ty # ""
  THEN Map(Bounds(s.phs[k].ty), LAMBDA v : WOp("WPT", "", k, v))
  ELSE MapSeq(Composites(s.phs[k].len), LAMBDA c : WOp("WPC", "", k, c))

FanOps(s) ==
     FlattenSeq(MapSeq(WTypeSeq, LAMBDA ty : Map(Bounds(ty), LAMBDA v : WOp("W", ty, 0, v))))
  \o <<WOp("WB", "", 0, <<>>), WOp("WB", "", 0, <<9>>), WOp("WB", "", 0, <<1, 2, 255>>)>>
  \o <<WOp("WZ", "", 0, 0), WOp("WZ", "", 1, 0), WOp("WZ", "", 5, 0)>>
  \o MapSeq(PhTypes, LAMBDA ty : WOp("PH", ty, 0, 0))
  \o <<WOp("RS", "", 0, 0), WOp("RS", "", 1, 0), WOp("RS", "", 4, 0)>>
  \o FlattenSeq([k \in 1 .. Len(s.phs) |-> PhFan(s, k)])

PhPath(s, k) ==
  IF s.phs[k].used THEN <<>>
  ELSE IF s.phs[k].ty # ""
  THEN <<WOp("WPT", "", k, 4660)>>
  ELSE <<WOp("WPC", "", k, <<[p |-> "u8", v |-> 7], [p |-> "u16", v |-> 2057]>>)>>

PathOps(s) ==
     <<WOp("W", "u8", 0, 17), WOp("W", "u16", 0, 43981), WOp("WZ", "", 1, 0)>>
  \o <<WOp("PH", "u16", 0, 0), WOp("PH", "u24", 0, 0), WOp("RS", "", 3, 0), WOp("RS", "", 4, 0)>>
  \o FlattenSeq([k \in 1 .. Len(s.phs) |-> PhPath(s, k)])

Init == st = WInit /\ path = <<>>

Next == /\ Len(path) < MaxOps
        /\ \E i \in 1 .. Len(PathOps(st)) :
             LET o == PathOps(st)[i]  r == WApply(st, o) IN
             /\ Len(r.st.buf) <= MaxLen
             /\ st' = r.st
             /\ path' = Append(path, [o |-> o, exp |-> r.obs])

Spec == Init /\ [][Next]_vars
View == st

---------------------------------------------------------------------------
TransOK(o) ==
  LET r == WApply(st, o) IN
  /\ WEnabled(st, o)
  /\ GrowsAtEnd(st, r.st, o)
  /\ PhInBuf(r.st)
  /\ Refusal(st, r.st, o, r.obs)
  /\ NeverTruncated(st, r.st, o, r.obs)
  /\ WriteThenRead(st, r.st, o, r.obs)

DesignOK == \A i \in 1 .. Len(FanOps(st)) : TransOK(FanOps(st)[i])

\* an Err observation does not constrain the bytes of the failed reservation
Free(o) == IF WApply(st, o).obs.res = "Ok" THEN <<>>
           ELSE SetToSortSeq(Dev_PartialOnErr(st, o), LAMBDA a, b : a < b)

Fan == MapSeq(FanOps(st), LAMBDA o : LET r == WApply(st, o) IN
                                    [o |-> o, exp |-> r.obs, free |-> Free(o), rb |-> RbOf(st, r.st, o, r.obs)])
EmitCase ==
  PrintT(<<"CASE", ToJson([path |-> [k \in 1 .. Len(path) |-> path[k]], fan |-> Fan])>>)
=============================================================================
