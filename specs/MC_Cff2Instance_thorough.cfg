CONSTANTS
  Tier = "thorough"
SPECIFICATION Spec
INVARIANTS CffCase
CHECK_DEADLOCK FALSE
