---------------------------- MODULE Trace_Woff2 ----------------------------
(***************************************************************************)
(* Trace judge for WOFF2 decoding (impl -> spec), judging style: Next is   *)
(* always enabled, every event is examined, a non-conforming event prints  *)
(* one MISMATCH line whose `key` names the rule that was broken.           *)
(*                                                                         *)
(* Events (recorded by harness/src/bin/c11_woff2.rs):                      *)
(*   B128, U255  bytes -> what U32Base128 / PackedU16 returned             *)
(*   Dir         directory (+ collection directory) bytes -> the entries   *)
(*               and per-font index lists allsorts parsed                  *)
(*   Decode      table_provider(i) succeeded?                              *)
(*   Table       one table of one decoded font against the encoder's input *)
(*   GlyfSum     rebuilt glyf/loca: count, loca consistency, glyphs that   *)
(*               differ from the source (independent reader, all glyphs)   *)
(*   Glyph       the stream slices of ONE glyph as stored in the file ->   *)
(*               the glyph record found in the rebuilt glyf table          *)
(*   GlyfTable   a whole transformed glyf table (repository .woff2 files)  *)
(*   Hmtx        transformed hmtx bytes + xMin of every glyph -> metrics   *)
(* `a.orig` / `a.want` carry what the harness encoder started from; when   *)
(* the specification's decoding of the stored bytes disagrees with THAT,   *)
(* the harness encoder is wrong: reported as ENCODER (a tool error).       *)
(***************************************************************************)
EXTENDS Woff2, Json, IOUtils, TLC

Rec == ndJsonDeserialize(IOEnv.TRACE)

VARIABLES l

\* Dev_HeadChecksum: a decoder has to recompute head.checkSumAdjustment (bytes 8..11);
\* Dev_HeadLocFormat: indexToLocFormat (bytes 50..51) follows the rebuilt loca table.
Dev_HeadDiffAllowed(off) == off \in 8 .. 11 \/ off \in 50 .. 51

Verdict(ok, key, want, got) == [ok |-> ok, key |-> key, want |-> want, got |-> got, enc |-> TRUE]
EncoderFault(v, sane) == [v EXCEPT !.enc = sane]

JudgeB128(e) ==
  LET w == DecB128At(e.a.b, 0) IN
  Verdict(e.o.ok = w.ok /\ e.o.hi = w.hi /\ e.o.lo = w.lo /\ e.o.used = w.used,
          "B128:" \o (IF w.ok THEN "value" ELSE "reject"), w, e.o)

JudgeU255(e) ==
  LET w == Dec255At(e.a.b, 0) IN
  Verdict(e.o.ok = w.ok /\ e.o.v = w.v /\ e.o.used = w.used,
          "U255:" \o (IF w.ok THEN "value" ELSE "reject"), w, e.o)

JudgeDir(e) ==
  LET d == DecDirectory(e.a.bytes, e.a.n)
      c == IF e.a.ttcf = 1 /\ d.ok THEN DecCollection(SubSeq(e.a.bytes, d.used + 1, Len(e.a.bytes)))
           ELSE [ok |-> TRUE, fonts |-> <<>>, used |-> 0]
      we == [k \in 1 .. Len(d.entries) |-> <<d.entries[k].tag, d.entries[k].off, d.entries[k].orig, d.entries[k].tlen>>]
      wf == [f \in 1 .. Len(c.fonts) |-> c.fonts[f].idx]
      okE == e.o.ok /\ e.o.entries = we
      okF == e.o.ok /\ e.o.fonts = wf
  IN EncoderFault(
       Verdict(d.ok /\ c.ok /\ okE /\ okF,
               IF ~e.o.ok THEN "Dir:error" ELSE IF ~okE THEN "Dir:entries" ELSE "Dir:collection",
               [entries |-> we, fonts |-> wf], [entries |-> e.o.entries, fonts |-> e.o.fonts]),
       d.ok /\ c.ok /\ (e.a.want.entries # <<>> => e.a.want.entries = we /\ e.a.want.fonts = wf))

\* (`huge`: the font has more than 65504 glyphs and a transformed glyf table - named in the key because
\* such a font is perfectly legal and what goes wrong with it is a matter of its size alone)
JudgeDecode(e) == Verdict(e.o.ok, "Decode:" \o e.o.err \o (IF e.a.huge = 1 THEN ":numGlyphs>65504" ELSE ""), "ok", e.o.err)

JudgeTable(e) ==
  LET ok == CASE e.a.mode = "plain"   -> e.o.present /\ e.o.same
              [] e.a.mode = "head"    -> e.o.present /\ \A k \in DOMAIN e.o.diff : Dev_HeadDiffAllowed(e.o.diff[k])
              [] e.a.mode = "rebuilt" -> e.o.present
              [] OTHER                -> FALSE          \* a table that was never encoded
  IN Verdict(ok, "Table:" \o e.a.mode \o ":" \o e.a.tag \o (IF e.o.present THEN ":differs" ELSE ":missing"),
             [tag |-> e.a.tag, mode |-> e.a.mode, len |-> e.a.len], e.o)

JudgeGlyfSum(e) ==
  Verdict(e.o.n = e.a.n /\ e.o.loca_ok /\ e.o.diff = <<>> /\ e.o.unreadable = <<>>,
          IF e.o.n # e.a.n THEN "GlyfSum:numGlyphs" ELSE IF ~e.o.loca_ok THEN "GlyfSum:loca"
          ELSE IF e.o.unreadable # <<>> THEN "GlyfSum:unreadable" ELSE "GlyfSum:glyphs-differ",
          [n |-> e.a.n], e.o)

\* which part of a glyph record differs (first in this order)
RecDiff(w, g) ==
  IF w.kind # g.kind THEN "kind" ELSE IF w.ends # g.ends THEN "ends" ELSE IF w.pts # g.pts THEN "points"
  ELSE IF w.instr # g.instr THEN "instructions" ELSE IF w.bbox # g.bbox THEN "bbox"
  ELSE IF w.comps # g.comps THEN "components" ELSE "none"

JudgeGlyph(e) ==
  LET S == [nc |-> e.a.nc, np |-> e.a.np, fl |-> e.a.fl, gl |-> e.a.gl, co |-> e.a.co,
            bm |-> <<128 * e.a.bit>>, bb |-> e.a.bb, ins |-> e.a.ins]
      r == DecGlyphAt(S, Cur0, 0)
  IN EncoderFault(
       Verdict(r.ok /\ e.o.rec = r.rec, "Glyph:" \o r.rec.kind \o ":" \o RecDiff(r.rec, e.o.rec), r.rec, e.o.rec),
       r.ok /\ r.cur = EndCur(S) /\ r.rec = e.a.orig)

JudgeGlyfTable(e) ==
  LET p == ParseGlyfTable(e.a.tbl)
      d == IF p.ok THEN DecAll(p.S, p.n) ELSE [ok |-> FALSE, recs |-> <<>>]
      bad == {g \in 1 .. Len(d.recs) : g > Len(e.o.recs) \/ e.o.recs[g] # d.recs[g]}
  IN Verdict(p.ok /\ d.ok /\ Len(e.o.recs) = Len(d.recs) /\ bad = {},
             IF bad = {} THEN "GlyfTable:count" ELSE
               LET g == MinOf(bad) IN "GlyfTable:" \o d.recs[g].kind \o ":" \o
                 (IF g > Len(e.o.recs) THEN "missing" ELSE RecDiff(d.recs[g], e.o.recs[g])),
             [n |-> Len(d.recs), first_bad |-> IF bad = {} THEN 0 ELSE MinOf(bad) - 1], [n |-> Len(e.o.recs)])

JudgeHmtx(e) ==
  LET d == DecHmtx(e.a.xf, e.a.n, e.a.nhm, e.a.xmin)
      n == e.a.n  nhm == e.a.nhm
      sized == e.o.ok /\ Len(e.o.adv) = n /\ Len(e.o.lsb) = n /\ e.o.nhm = nhm
      badA == IF sized /\ d.ok THEN {g \in 1 .. n : e.o.adv[g] # d.adv[g]} ELSE {}
      badL == IF sized /\ d.ok THEN {g \in 1 .. n : e.o.lsb[g] # d.lsb[g]} ELSE {}
      \* signature of one particular defect: the side bearing of glyph g taken from glyph g - numHMetrics
      shifted == \A g \in badL : g > nhm /\ e.o.lsb[g] = e.a.xmin[g - nhm]
      key == IF ~sized THEN "Hmtx:unreadable" ELSE IF badA # {} THEN "Hmtx:advance"
             ELSE IF \E g \in badL : g <= nhm THEN "Hmtx:lsb.head"
             ELSE IF shifted THEN "Hmtx:lsb.tail.shifted" ELSE "Hmtx:lsb.tail"
      g1 == IF badA # {} THEN MinOf(badA) ELSE IF badL # {} THEN MinOf(badL) ELSE 1
  IN EncoderFault(
       Verdict(d.ok /\ sized /\ badA = {} /\ badL = {}, key,
               [flags |-> e.a.xf[1], n |-> n, nhm |-> nhm, glyph |-> g1 - 1,
                adv |-> IF d.ok THEN d.adv[g1] ELSE -1, lsb |-> IF d.ok THEN d.lsb[g1] ELSE -1],
               [glyph |-> g1 - 1, adv |-> IF sized THEN e.o.adv[g1] ELSE -1, lsb |-> IF sized THEN e.o.lsb[g1] ELSE -1,
                bad_adv |-> Cardinality(badA), bad_lsb |-> Cardinality(badL)]),
       d.ok /\ (e.a.orig_adv # <<>> => d.adv = e.a.orig_adv /\ d.lsb = e.a.orig_lsb))

KnownEvents == {"B128", "U255", "Dir", "Decode", "Table", "GlyfSum", "Glyph", "GlyfTable", "Hmtx"}
Judge(e) ==
  CASE e.ev = "B128"      -> JudgeB128(e)
    [] e.ev = "U255"      -> JudgeU255(e)
    [] e.ev = "Dir"       -> JudgeDir(e)
    [] e.ev = "Decode"    -> JudgeDecode(e)
    [] e.ev = "Table"     -> JudgeTable(e)
    [] e.ev = "GlyfSum"   -> JudgeGlyfSum(e)
    [] e.ev = "Glyph"     -> JudgeGlyph(e)
    [] e.ev = "GlyfTable" -> JudgeGlyfTable(e)
    [] e.ev = "Hmtx"      -> JudgeHmtx(e)

TInit == l = 1

TNext ==
  /\ l <= Len(Rec)
  /\ l' = l + 1
  /\ LET e == Rec[l] IN
     IF e.ev \notin KnownEvents THEN PrintT(<<"UNMODELLED", e.ev>>)
     ELSE LET v == Judge(e) IN
          /\ IF v.enc THEN TRUE
             ELSE PrintT(<<"ENCODER", ToJson([i |-> e.i, case |-> e.case, ev |-> e.ev, key |-> v.key])>>)
          /\ IF v.ok THEN TRUE
             ELSE PrintT(<<"MISMATCH", ToJson([i |-> e.i, case |-> e.case, ev |-> e.ev, key |-> v.key,
                                               want |-> v.want, got |-> v.got])>>)

TSpec == TInit /\ [][TNext]_l

AllConsumed == TLCGet("stats").diameter = Len(Rec) + 1
=============================================================================
