CONSTANTS
  Tier = "font"
SPECIFICATION Spec
INVARIANTS Agree Permutes Design Emit
CHECK_DEADLOCK FALSE
