---------------------------- MODULE Trace_Variation ----------------------------
(***************************************************************************)
(* Trace judge for C12 (judging style: Next is always enabled, every event *)
(* is examined, a non-conforming one prints a MISMATCH line).              *)
(*                                                                         *)
(* Events recorded by harness/src/bin/c12_instance.rs, one group per call  *)
(* of allsorts::variations::instance:                                      *)
(*  Static  a = [user]                                                     *)
(*          o = [tags, isVariable, loads, glyphs, srcGlyphs]               *)
(*  Glyph   a = [gid, kind ("empty" | "simple" | "composite" | "cff"),     *)
(*               coords (normalised tuple returned by instance, raw 2.14), *)
(*               pts (default points / component offsets), ends,           *)
(*               adv, lsb, xmin (header xMin of the source glyph),         *)
(*               plain (all components positioned by x/y offsets),         *)
(*               hasShared, tuples, ser (glyph variation data, split by    *)
(*               the harness' own reader, the packed data undecoded),      *)
(*               hvar = [present, ivs, adv, lsb],                          *)
(*               exp (generated cases only: the acceptable interval of     *)
(*               every output number as computed by MC_Variation),         *)
(*               norm (generated cases only: the normalised coordinates    *)
(*               computed by the specification from the user tuple, the    *)
(*               fvar axes and the avar maps; coords = norm then: the      *)
(*               judge evaluates the model where the specification says    *)
(*               the instance lies), reported (the tuple instance()        *)
(*               returned), ntol (generated: tolerance per axis of the     *)
(*               reported tuple, C13 grants max(1, slope) units),          *)
(*               hbox (header box of the source glyph, <<>> if empty),     *)
(*               lsbAt0 (head.flags bit 1 of the source)]                  *)
(*          o = [kind, pts, ends, adv, lsb, xminKnown, xmin (of the output *)
(*               outline as drawn), on (flags / component ids unchanged),  *)
(*               hbox (header box of the written glyph, <<>> if empty),    *)
(*               obox (box of the written outline, components flattened by *)
(*               the harness; <<>> if not derivable or nothing drawn)]     *)
(*  Metric  a = [tag, present, base, coords, ivs, outer, inner, lo, hi]    *)
(*          o = [value]                                                    *)
(*  Static  o additionally: head (box of the written head table), ubox     *)
(*          (union of the header boxes of the written, non-empty glyphs)   *)
(*          cffVstore / cffPrivVar (CFF2: the written table still has a     *)
(*          VariationStore / a Private DICT with vsindex or blend)          *)
(*  CffGlyph (CFF2, see Cff2Instance.tla)                                  *)
(*          a = [gid, kind, fd (Font DICT of the glyph), fdDvs (vsindex    *)
(*               entry of every Private DICT, -1 none), nG, nL, gsubrs,    *)
(*               lsubrs (sparse tables [i, b]), regions (per               *)
(*               ItemVariationData: its regions), coords, code (the source *)
(*               charstring), generated, exp (generated: the commands      *)
(*               MC_Cff2Instance computed), norm, reported, ntol]          *)
(*          o = [code (the written charstring), nG, nL, gsubrs, lsubrs]    *)
(*  Failed  a = [user, stage, generated], o = [err]                        *)
(* Every number is judged by Variation!Within1 against the exact rational  *)
(* value; at the default coordinates equality with the source is required. *)
(***************************************************************************)
EXTENDS Cff2Instance, Json, IOUtils, TLC, SequencesExt

Rec == ndJsonDeserialize(IOEnv.TRACE)

VARIABLES l
tvars == <<l>>

\* ---- reporting ---------------------------------------------------------------------------
\* bad: a set of <<clause, index, got, want>>; one line per clause with the lowest index
Report(e, gid, kind, coords, bad) ==
  LET clauses == {b[1] : b \in bad} IN
  \A cl \in clauses :
    LET BB == {b \in bad : b[1] = cl}
        b == CHOOSE x \in BB : \A y \in BB : x[2] <= y[2]
    IN PrintT(<<"MISMATCH", ToJson([i |-> e.i, case |-> e.case, ev |-> e.ev, clause |-> cl, gid |-> gid,
                                    kind |-> kind, idx |-> b[2], got |-> b[3], want |-> b[4],
                                    coords |-> coords, nbad |-> Cardinality(BB)])>>)

\* ---- Glyph -------------------------------------------------------------------------------
GlyphOf(e) == [pts |-> e.a.pts, ends |-> e.a.ends, kind |-> e.a.kind, ser |-> e.a.ser,
               hasShared |-> e.a.hasShared, tuples |-> e.a.tuples]

Abs(x) == IF x < 0 THEN -x ELSE x
NormReported(a) ==
  /\ Len(a.reported) = Len(a.norm) /\ Len(a.ntol) = Len(a.norm)
  /\ \A k \in 1 .. Len(a.norm) : Abs(a.reported[k] - a.norm[k]) <= a.ntol[k]

JudgeGlyph(e) ==
  LET a == e.a
      o == e.o
      g == GlyphOf(e)
      n == Len(a.pts)
      judged == GlyphJudged(g, a)
      v == GlyphVerdict(g, a, o)
  IN IF ~judged THEN PrintT(<<"OUTSIDE", ToJson([i |-> e.i, case |-> e.case, gid |-> a.gid])>>)
     ELSE /\ Report(e, a.gid, a.kind, a.coords, v.bad)
          \* generated cases: the tuple returned by instance() is the one the specification computes
          /\ IF a.norm = <<>> \/ NormReported(a) THEN TRUE
             ELSE PrintT(<<"MISMATCH", ToJson([i |-> e.i, case |-> e.case, ev |-> e.ev, clause |-> "normalized",
                                               gid |-> a.gid, kind |-> a.kind, idx |-> 0, got |-> a.reported,
                                               want |-> a.norm, coords |-> a.coords, nbad |-> 1])>>)
          /\ IF v.transportOK THEN TRUE
             ELSE PrintT(<<"MISMATCH", ToJson([i |-> e.i, case |-> e.case, ev |-> e.ev, clause |-> "transport",
                                               gid |-> a.gid, kind |-> a.kind, idx |-> 0, got |-> GlyphExpect(g, a),
                                               want |-> a.exp, coords |-> a.coords, nbad |-> 1])>>)
          /\ PrintT(<<"STAT", ToJson(v.stat)>>)

\* ---- Metric ------------------------------------------------------------------------------
JudgeMetric(e) ==
  LET a == e.a
      ok == ~a.present
            \/ (IvsJudged(a.ivs, Len(a.coords)) /\ a.outer < Len(a.ivs.subs)
                /\ a.inner < Len(a.ivs.subs[a.outer + 1].rows))
  IN IF ~ok THEN PrintT(<<"OUTSIDE", ToJson([i |-> e.i, case |-> e.case, gid |-> -1])>>)
     ELSE LET v == MetricVerdict(a, e.o.value) IN
          Report(e, -1, a.tag, a.coords, v)

\* ---- Static ------------------------------------------------------------------------------
JudgeStatic(e) ==
  LET o == e.o
      left == {o.tags[k] : k \in {k \in 1 .. Len(o.tags) : o.tags[k] \in VariationTables}}
      bad == (IF left # {} THEN {<<"tables", 0, SetToSeq(left), <<>>>>} ELSE {})
             \cup (IF o.isVariable THEN {<<"is-variable", 0, <<>>, <<>>>>} ELSE {})
             \cup (IF ~o.loads THEN {<<"loads", 0, <<>>, <<>>>>} ELSE {})
             \cup (IF o.glyphs # o.srcGlyphs THEN {<<"glyph-count", 0, <<o.glyphs>>, <<o.srcGlyphs>>>>} ELSE {})
             \cup HeadBoxBad(o.head, o.ubox)
             \cup (IF o.cffVstore THEN {<<"cff-vstore", 0, <<>>, <<>>>>} ELSE {})
             \cup (IF o.cffPrivVar THEN {<<"cff-private-variable", 0, <<>>, <<>>>>} ELSE {})
  IN Report(e, -1, "", e.a.user, bad)

\* ---- CffGlyph ----------------------------------------------------------------------------
\* rr, s are operator parameters so that each machine runs once per event
JudgeCffWith(e, rr, s) ==
  LET a == e.a
      r == rr.m
  IN IF ~CffJudged(r)
     THEN IF a.generated
          THEN PrintT(<<"MISMATCH", ToJson([i |-> e.i, case |-> e.case, ev |-> e.ev, clause |-> "transport",
                                            gid |-> a.gid, kind |-> a.kind, idx |-> 0, got |-> r.why, want |-> "done",
                                            coords |-> a.coords, nbad |-> 1])>>)
          ELSE PrintT(<<"OUTSIDE", ToJson([i |-> e.i, case |-> e.case, gid |-> a.gid, why |-> r.why])>>)
     ELSE /\ Report(e, a.gid, a.kind, a.coords, CffBad(a, e.o, r, rr.steps, s))
          /\ IF a.norm = <<>> \/ NormReported(a) THEN TRUE
             ELSE PrintT(<<"MISMATCH", ToJson([i |-> e.i, case |-> e.case, ev |-> e.ev, clause |-> "normalized",
                                               gid |-> a.gid, kind |-> a.kind, idx |-> 0, got |-> a.reported,
                                               want |-> a.norm, coords |-> a.coords, nbad |-> 1])>>)
          /\ IF ~a.generated \/ r.cmds = a.exp THEN TRUE
             ELSE PrintT(<<"MISMATCH", ToJson([i |-> e.i, case |-> e.case, ev |-> e.ev, clause |-> "transport",
                                               gid |-> a.gid, kind |-> a.kind, idx |-> 0, got |-> r.cmds,
                                               want |-> a.exp, coords |-> a.coords, nbad |-> 1])>>)
          /\ PrintT(<<"CFFSTAT", ToJson(CffStat(a, r, rr.steps))>>)
JudgeCff(e) == JudgeCffWith(e, CffRun(SrcFC(e.a), e.a.code), T2!Interp(OutFC(e.o), e.o.code))

\* ---- Failed ------------------------------------------------------------------------------
\* The property speaks about successful instances; an error is not a violation by itself.  A
\* panic is, and so is an error on a generated font (complete, well-formed, glyf + gvar: exactly
\* what instance() documents as supported) unless the case allows it (a.generated = FALSE: phantom
\* points beyond the int16 range, where refusing the font conforms).
IsPanic(err) == Len(err) >= 6 /\ SubSeq(err, 1, 6) = "Panic:"
JudgeFailed(e) ==
  IF IsPanic(e.o.err) \/ e.a.generated
  THEN PrintT(<<"MISMATCH", ToJson([i |-> e.i, case |-> e.case, ev |-> e.ev,
                                    clause |-> IF IsPanic(e.o.err) THEN "panic" ELSE "error-on-generated",
                                    gid |-> -1, kind |-> e.a.stage, idx |-> 0, got |-> e.o.err, want |-> <<>>,
                                    coords |-> e.a.user, nbad |-> 1])>>)
  ELSE PrintT(<<"ERR", ToJson([i |-> e.i, case |-> e.case, err |-> e.o.err])>>)

TInit == l = 1

TNext ==
  /\ l <= Len(Rec)
  /\ l' = l + 1
  /\ LET e == Rec[l] IN
     CASE e.ev = "Glyph"  -> JudgeGlyph(e)
       [] e.ev = "Metric" -> JudgeMetric(e)
       [] e.ev = "Static" -> JudgeStatic(e)
       [] e.ev = "CffGlyph" -> JudgeCff(e)
       [] e.ev = "Failed" -> JudgeFailed(e)
       [] OTHER           -> PrintT(<<"UNMODELLED", e.ev>>)

TSpec == TInit /\ [][TNext]_tvars

AllConsumed == TLCGet("stats").diameter = Len(Rec) + 1
=============================================================================
