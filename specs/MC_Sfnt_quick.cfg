CONSTANTS
  Thorough = FALSE
SPECIFICATION Spec
INVARIANTS RoundTripOK NoOtherData EmitCase
CHECK_DEADLOCK FALSE
