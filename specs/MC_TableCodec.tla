--------------------------- MODULE MC_TableCodec ---------------------------
(***************************************************************************)
(* Bounded checking of TableCodec / CffCodec and generator of replay cases *)
(* (C15, part b).                                                          *)
(*                                                                         *)
(* Generator pattern: Init picks (kind, index); the value is the index-th  *)
(* element of the kind's boundary-heavy value sequence.  The invariant     *)
(*   CodecOK   checks the laws of the specification on that value:         *)
(*             in format, Refuse <=> some count/length/offset too wide,    *)
(*             Dec(Enc(v)) = Normalise(v), Normalise idempotent, size      *)
(*             classes of integers and INDEX offsets                       *)
(*   EmitCase  prints the value, the bytes Enc prescribes (or the refusal) *)
(*             and the value a reader must return.                         *)
(* The harness builds the value as the allsorts Rust value, writes it,     *)
(* parses the result back and reports what it saw.                         *)
(*                                                                         *)
(* Value sets: boundary values per field (one-hot around a base record),   *)
(* and POSITIONAL families (section "Positional families" and its CFF      *)
(* twin): wherever a structure has per-element flags, per-element lengths  *)
(* or a header that depends on a count, the feature is put in every        *)
(* position - first / middle / last / several / none - one dimension at a  *)
(* time around a base value (composite glyph components x                  *)
(* WE_HAVE_INSTRUCTIONS / transform kind / argument width / other bits;    *)
(* cmap 4 segment counts and idRangeOffset segments; name strings and      *)
(* language tags; post 2.0 names; loca odd / oversize offsets; CFF charset *)
(* nLeft edges, FDSelect change points, INDEX empty objects, DICT default  *)
(* entries, item variation store word counts).  Kind "glyphp" carries      *)
(* simple glyphs in foreign packings (short vectors, "same" coordinates,   *)
(* REPEAT runs up to the 255 limit): TLC prescribes the packed bytes, the  *)
(* harness parses them, writes the glyph and parses it again.  The driver  *)
(* measures the position classes on the printed values and refuses to run  *)
(* vacuously (REQUIRED_FAMILIES in lib/props/c15.py).                      *)
(***************************************************************************)
EXTENDS CffCodec, Json

CONSTANT Thorough

\* `done`: the case is picked by a step of the behaviour, not by Init.  TLC computes initial states (and
\* checks the invariants on them) in its main thread, single-threaded and with the small default stack of that
\* thread (-Xss given through JAVA_TOOL_OPTIONS does not reach it): under load the 64 KiB DICT values overflowed
\* it now and then.  Successor states are evaluated by the worker threads: in parallel, with the stack -Xss asks for.
VARIABLES kind, idx, done
vars == <<kind, idx, done>>

B4x(a, b, c, d) == <<a, b, c, d>>
U32s == <<B4x(0, 0, 0, 0), B4x(127, 255, 255, 255), B4x(128, 0, 0, 0), B4x(255, 255, 255, 255), B4x(1, 2, 3, 4)>>
I64s == <<<<0, 0, 0, 0, 0, 0, 0, 0>>, <<127, 255, 255, 255, 255, 255, 255, 255>>, <<128, 0, 0, 0, 0, 0, 0, 0>>,
          <<255, 255, 255, 255, 255, 255, 255, 255>>, <<0, 0, 0, 0, 215, 34, 18, 144>>>>
U16s == <<0, 1, 255, 256, 32767, 32768, 65535>>
I16s == <<-32768, -32767, -256, -1, 0, 1, 255, 256, 32767>>
I32s == <<-2147483647 - 1, -65536, -1, 0, 1, 65535, 65536, 2147483647>>
B10s == <<<<0, 0, 0, 0, 0, 0, 0, 0, 0, 0>>, <<255, 255, 255, 255, 255, 255, 255, 255, 255, 255>>, <<1, 2, 3, 4, 5, 6, 7, 8, 9, 10>>>>
BoundsK(k) == CASE k = "u16" -> U16s [] k = "i16" -> I16s [] k = "i32" -> I32s [] k = "u32" -> U32s
                [] k = "i64" -> I64s [] k = "b10" -> B10s

\* one-hot variation of a base record over the value fields of a layout
OneHot(L, base, skip) ==
  Cat([i \in 1 .. Len(L) |->
     IF L[i].n = "" \/ L[i].n \in skip THEN <<>>
     ELSE LET bs == BoundsK(L[i].k) IN [j \in 1 .. Len(bs) |-> [base EXCEPT ![L[i].n] = bs[j]]]])
Extreme(L, base, skip, which) ==      \* every field at its which-th boundary (1 = lowest, 0 = highest)
  [n \in DOMAIN base |->
     IF n \in NamesL(L) \ skip
     THEN LET bs == BoundsK(L[IdxL(L, n)].k) IN IF which = 0 THEN bs[Len(bs)] ELSE bs[which]
     ELSE base[n]]

---------------------------------------------------------------------------
HeadBase == [major |-> 1, minor |-> 0, rev |-> 65536, csa |-> B4x(1, 2, 3, 4), magic |-> HeadMagic, flags |-> 11,
             upem |-> 1000, created |-> I64s[5], modified |-> I64s[5], xmin |-> -100, ymin |-> -200, xmax |-> 1100,
             ymax |-> 900, mac |-> 0, ppem |-> 8, fdh |-> 2, loc |-> 0, gdf |-> 0]
HeadVals ==
  <<HeadBase, Extreme(HeadL, HeadBase, {"magic", "mac", "loc"}, 1), Extreme(HeadL, HeadBase, {"magic", "mac", "loc"}, 0)>>
  \o OneHot(HeadL, HeadBase, {"magic", "mac", "loc"})
  \o [m \in 1 .. 5 |-> [HeadBase EXCEPT !.mac = <<1, 2, 64, 127, 85>>[m]]]
  \o <<[HeadBase EXCEPT !.loc = 1]>>

HheaBase == [asc |-> 800, desc |-> -200, gap |-> 90, awm |-> 1200, minlsb |-> -50, minrsb |-> -60, xme |-> 1100,
             rise |-> 1, run |-> 0, coff |-> 0, nhm |-> 3]
HheaVals == <<HheaBase, Extreme(HheaL, HheaBase, {}, 1), Extreme(HheaL, HheaBase, {}, 0)>> \o OneHot(HheaL, HheaBase, {})

Sub13(a) == [i \in 1 .. 13 |-> (a * i) % 65536]
MaxpVals ==
  Cat([i \in 1 .. Len(U16s) |->
     <<[ng |-> U16s[i], sub |-> <<>>], [ng |-> U16s[i], sub |-> Sub13(7)]>>])
  \o <<[ng |-> 5, sub |-> [i \in 1 .. 13 |-> 65535]], [ng |-> 5, sub |-> [i \in 1 .. 13 |-> 0]],
       [ng |-> 5, sub |-> Sub13(5041)]>>

HmtxVals ==
  <<[hm |-> <<>>, lsb |-> <<>>], [hm |-> <<<<0, 0>>>>, lsb |-> <<>>], [hm |-> <<<<65535, -32768>>>>, lsb |-> <<>>],
    [hm |-> <<<<500, -1>>, <<65535, 32767>>, <<256, 255>>>>, lsb |-> <<-32768, 32767>>],
    [hm |-> <<<<1, 2>>>>, lsb |-> <<0, -1, 1, 255, -256>>], [hm |-> <<<<32768, 0>>, <<32767, 1>>>>, lsb |-> <<>>]>>

CvtVals == <<[vals |-> <<>>], [vals |-> <<0>>], [vals |-> I16s], [vals |-> <<-1, -1, 32767, -32768>>]>>

LocaVals ==
  <<[fmt |-> 0, offs |-> <<0>>], [fmt |-> 0, offs |-> <<0, 2, 4>>], [fmt |-> 0, offs |-> <<0, 0, 131070>>],
    [fmt |-> 0, offs |-> <<0, 510, 512, 65534, 65536>>],
    [fmt |-> 0, offs |-> <<0, 3>>], [fmt |-> 0, offs |-> <<0, 131072>>], [fmt |-> 0, offs |-> <<0, 200000, 4>>],
    [fmt |-> 0, offs |-> <<0, 131071>>], [fmt |-> 0, offs |-> <<1, 2>>],
    [fmt |-> 1, offs |-> <<0>>], [fmt |-> 1, offs |-> <<0, 1, 3>>], [fmt |-> 1, offs |-> <<0, 65535, 65536, 16777216, 2147483647>>],
    [fmt |-> 1, offs |-> <<5, 4>>], [fmt |-> 1, offs |-> <<0, 131072>>]>>

Os2Base0 == [version |-> 0, xavg |-> 500, wgt |-> 400, wdt |-> 5, fstype |-> 8, subxs |-> 650, subys |-> 600, subxo |-> 0,
             subyo |-> 75, supxs |-> 650, supys |-> 600, supxo |-> 0, supyo |-> 350, strs |-> 50, strp |-> 300, fam |-> 0,
             panose |-> B10s[3], ur1 |-> B4x(0, 0, 0, 3), ur2 |-> B4x(1, 0, 0, 0), ur3 |-> B4x(0, 0, 0, 0),
             ur4 |-> B4x(0, 0, 0, 0), vend |-> B4x(65, 66, 67, 68), fssel |-> 64, first |-> 32, last |-> 65535,
             v0 |-> <<>>, v1 |-> <<>>, v2 |-> <<>>, v5 |-> <<>>]
T0 == <<750, -250, 100, 900, 300>>
T1 == <<B4x(0, 0, 0, 1), B4x(128, 0, 0, 0)>>
T2 == <<480, 700, 0, 32, 3>>
T5 == <<8, 72>>
Os2Ver(b, ver) ==
  [b EXCEPT !.version = ver, !.v0 = T0, !.v1 = IF ver >= 1 THEN T1 ELSE <<>>,
            !.v2 = IF ver >= 2 THEN T2 ELSE <<>>, !.v5 = IF ver >= 5 THEN T5 ELSE <<>>]
Os2Skip == {"fssel"}
Os2TailsMax(v) == [v EXCEPT !.v0 = IF @ = <<>> THEN @ ELSE <<32767, -32768, -1, 65535, 0>>,
                            !.v1 = IF @ = <<>> THEN @ ELSE <<U32s[4], U32s[3]>>,
                            !.v2 = IF @ = <<>> THEN @ ELSE <<-32768, 32767, 65535, 65535, 65535>>,
                            !.v5 = IF @ = <<>> THEN @ ELSE <<65535, 0>>]
Os2Vals ==
  <<Os2Base0>>                                       \* 68-byte legacy form
  \o Cat([ver \in 1 .. 6 |-> LET b == Os2Ver(Os2Base0, ver - 1) IN
        <<b, Os2TailsMax(b), Extreme(Os2BaseL, b, Os2Skip, 1), Extreme(Os2BaseL, Os2TailsMax(b), Os2Skip, 0),
          [b EXCEPT !.fssel = 1023], [b EXCEPT !.fssel = 0], [b EXCEPT !.fssel = 512 + 128 + 1]>>])
  \o OneHot(Os2BaseL, Os2Ver(Os2Base0, 4), Os2Skip)
  \o (IF Thorough THEN OneHot(Os2BaseL, Os2Ver(Os2Base0, 5), Os2Skip) \o OneHot(Os2BaseL, Os2Base0, Os2Skip)
                       \o OneHot(Os2BaseL, Os2Ver(Os2Base0, 1), Os2Skip) \o OneHot(Os2BaseL, Os2Ver(Os2Base0, 2), Os2Skip)
      ELSE <<>>)

PostBase == [version |-> 196608, angle |-> -786432, upos |-> -75, uthick |-> 50, fixed |-> B4x(0, 0, 0, 1),
             min42 |-> B4x(0, 0, 0, 0), max42 |-> B4x(0, 0, 0, 0), min1 |-> B4x(0, 0, 0, 0), max1 |-> B4x(255, 255, 255, 255),
             idx |-> <<>>, names |-> <<>>]
Str(n, b) == [i \in 1 .. n |-> (b + i) % 256]
PostVals ==
  <<PostBase, [PostBase EXCEPT !.version = 65536], [PostBase EXCEPT !.version = 151552],
    [PostBase EXCEPT !.version = PostV2],
    [PostBase EXCEPT !.version = PostV2, !.idx = <<0, 257, 3>>],
    [PostBase EXCEPT !.version = PostV2, !.idx = <<258>>, !.names = <<Str(5, 64)>>],
    [PostBase EXCEPT !.version = PostV2, !.idx = <<0, 260, 258, 259>>, !.names = <<<<>>, Str(1, 65), Str(255, 0)>>],
    [PostBase EXCEPT !.version = PostV2, !.idx = <<258>>, !.names = <<Str(256, 0)>>],                \* refused
    [PostBase EXCEPT !.version = PostV2, !.idx = [i \in 1 .. 65535 |-> i % 258]],
    [PostBase EXCEPT !.version = PostV2, !.idx = [i \in 1 .. 65536 |-> 0]]>>                          \* refused
  \o OneHot(PostL, PostBase, {"version"})

NR(p, e, l, n, s) == [p |-> p, e |-> e, l |-> l, n |-> n, s |-> s]
NameVals ==
  <<[recs |-> <<>>, tags |-> <<>>],
    [recs |-> <<NR(0, 4, 0, 1, <<>>)>>, tags |-> <<>>],
    [recs |-> <<NR(3, 1, 1033, 1, <<0, 65, 0, 66>>), NR(1, 0, 0, 2, Str(7, 96)), NR(65535, 65535, 65535, 65535, <<255>>)>>, tags |-> <<>>],
    [recs |-> <<NR(3, 1, 32768, 1, <<0, 65>>), NR(3, 1, 32769, 1, <<>>)>>, tags |-> <<<<0, 101, 0, 110>>, <<0, 102>>>>],
    [recs |-> <<>>, tags |-> <<<<0, 101>>>>],
    \* storage past 64K: the last offset that fits is 65535
    [recs |-> <<NR(0, 4, 0, 1, Str(65535, 0)), NR(0, 4, 0, 2, <<>>)>>, tags |-> <<>>],
    [recs |-> <<NR(0, 4, 0, 1, Str(65535, 0)), NR(0, 4, 0, 2, <<7>>)>>, tags |-> <<>>],
    [recs |-> <<NR(0, 4, 0, 1, Str(65535, 0)), NR(0, 4, 0, 2, <<7>>), NR(0, 4, 0, 3, <<>>)>>, tags |-> <<>>],       \* refused: offset 65536
    [recs |-> <<NR(0, 4, 0, 1, Str(65536, 0))>>, tags |-> <<>>],                                                  \* refused: length
    [recs |-> <<NR(0, 4, 0, 1, Str(40000, 0)), NR(0, 4, 0, 2, Str(30000, 9))>>, tags |-> <<<<1, 2>>>>],           \* refused: tag offset 70000
    [recs |-> [i \in 1 .. 5460 |-> NR(0, 4, 0, i, <<>>)], tags |-> <<>>],                                         \* header 65526
    [recs |-> [i \in 1 .. 5461 |-> NR(0, 4, 0, i, <<>>)], tags |-> <<>>]>>                                        \* refused: header 65538

G256(a) == [i \in 1 .. 256 |-> (a * i) % 256]
Seg4(starts, ends, deltas, ros, gids) ==
  [fmt |-> 4, lang |-> 0, ends |-> ends, starts |-> starts, deltas |-> deltas, ros |-> ros, gids |-> gids]
CmapSubVals ==
  <<[fmt |-> 0, lang |-> 0, gids |-> G256(1)], [fmt |-> 0, lang |-> 65535, gids |-> G256(255)],
    Seg4(<<65535>>, <<65535>>, <<1>>, <<0>>, <<>>),
    Seg4(<<32, 65535>>, <<126, 65535>>, <<-29, 1>>, <<0, 0>>, <<>>),
    Seg4(<<32, 300, 65535>>, <<40, 302, 65535>>, <<0, -32768, 1>>, <<6, 0, 0>>, <<5, 6, 7, 8, 9, 10, 11, 12, 65535>>),
    [Seg4(<<1, 2, 3, 4, 65535>>, <<1, 2, 3, 4, 65535>>, <<32767, 0, -1, 1, 1>>, <<0, 0, 0, 0, 0>>, <<>>) EXCEPT !.lang = 65535],
    Seg4([i \in 1 .. 39 |-> 10 * i], [i \in 1 .. 39 |-> 10 * i + 5], [i \in 1 .. 39 |-> i], [i \in 1 .. 39 |-> 0], <<>>),
    Seg4(<<65535>>, <<65535>>, <<1>>, <<0>>, [i \in 1 .. 32755 |-> i % 7]),            \* length 65534
    Seg4(<<65535>>, <<65535>>, <<1>>, <<0>>, [i \in 1 .. 32756 |-> i % 7]),            \* refused: 65536
    Seg4([i \in 1 .. 8190 |-> i], [i \in 1 .. 8190 |-> i], [i \in 1 .. 8190 |-> 0], [i \in 1 .. 8190 |-> 0], <<>>),     \* refused: 65536
    [fmt |-> 6, lang |-> 0, first |-> 0, gids |-> <<>>], [fmt |-> 6, lang |-> 1, first |-> 65535, gids |-> <<0, 65535, 256>>],
    [fmt |-> 6, lang |-> 0, first |-> 32, gids |-> [i \in 1 .. 32762 |-> i]],         \* length 65534
    [fmt |-> 6, lang |-> 0, first |-> 32, gids |-> [i \in 1 .. 32763 |-> i]],         \* refused: 65536
    [fmt |-> 10, lang |-> 0, start |-> 65536, gids |-> <<1, 2, 65535>>], [fmt |-> 10, lang |-> 2147483647, start |-> 2147483647, gids |-> <<>>],
    [fmt |-> 10, lang |-> 0, start |-> 0, gids |-> [i \in 1 .. 40000 |-> i]],
    [fmt |-> 12, lang |-> 0, groups |-> <<>>], [fmt |-> 12, lang |-> 0, groups |-> <<<<32, 126, 3>>, <<65536, 1114111, 100>>>>],
    [fmt |-> 12, lang |-> 2147483647, groups |-> <<<<0, 2147483647, 2147483647>>>>]>>
CmapSeg32768 ==      \* refused: the doubled segment count does not fit 16 bits
  Seg4([i \in 1 .. 32768 |-> 0], [i \in 1 .. 32768 |-> 0], [i \in 1 .. 32768 |-> 0], [i \in 1 .. 32768 |-> 0], <<>>)
CmapVals ==
  <<[recs |-> <<>>],
    [recs |-> <<[p |-> 3, e |-> 1, sub |-> CmapSubVals[4]]>>],
    [recs |-> <<[p |-> 0, e |-> 3, sub |-> CmapSubVals[5]], [p |-> 3, e |-> 10, sub |-> CmapSubVals[19]],
                [p |-> 1, e |-> 0, sub |-> CmapSubVals[1]], [p |-> 65535, e |-> 65535, sub |-> CmapSubVals[12]]>>],
    [recs |-> <<[p |-> 3, e |-> 1, sub |-> CmapSubVals[9]]>>]>>                          \* refused (subtable)

Pt(f, x, y) == <<f, x, y>>
GS(bbox, ends, instr, pts) == [t |-> "s", bbox |-> bbox, ends |-> ends, instr |-> instr, pts |-> pts]
Cmp(flags, gid, a1, a2, sc) == [flags |-> flags, gid |-> gid, a1 |-> a1, a2 |-> a2, sc |-> sc]
GC(bbox, comps, instr) == [t |-> "c", bbox |-> bbox, comps |-> comps, instr |-> instr]
GlyphVals ==
  <<[t |-> "e"],
    GS(<<0, 0, 0, 0>>, <<>>, <<>>, <<>>), GS(<<0, 0, 0, 0>>, <<>>, <<176, 1>>, <<>>),
    GS(<<0, 0, 100, 100>>, <<2>>, <<>>, <<Pt(1, 0, 0), Pt(0, 100, 0), Pt(1, 50, 100)>>),
    GS(<<-32768, -32768, 32767, 32767>>, <<0, 3>>, <<1, 2, 3>>,
       <<Pt(1, -32768, 32767), Pt(1, -1, 0), Pt(0, 32766, -32768), Pt(0, 32767, -1)>>),
    \* every non-content flag bit set on input: only ON_CURVE survives
    GS(<<1, 2, 3, 4>>, <<1, 2>>, <<>>, <<Pt(63, 5, 5), Pt(62, 5, 6), Pt(55, 300, -300)>>),
    GS(<<1, 2, 3, 4>>, <<0>>, <<>>, <<Pt(8 + 1, 255, -255)>>), GS(<<1, 2, 3, 4>>, <<0>>, <<>>, <<Pt(2 + 16, 256, -256)>>),
    GS(<<0, 0, 0, 0>>, <<0>>, Str(65535, 0), <<Pt(1, 1, 1)>>),
    GS(<<0, 0, 0, 0>>, <<0>>, Str(65536, 0), <<Pt(1, 1, 1)>>),                           \* refused
    GS(<<0, 0, 1, 1>>, [i \in 1 .. 32767 |-> i - 1], <<>>, [i \in 1 .. 32767 |-> Pt(1, i % 2, 0)]),
    GS(<<0, 0, 1, 1>>, [i \in 1 .. 32768 |-> i - 1], <<>>, [i \in 1 .. 32768 |-> Pt(1, i % 2, 0)]),   \* refused
    GC(<<0, 0, 10, 10>>, <<Cmp(2, 3, -128, 127, <<>>)>>, <<>>),
    GC(<<0, 0, 10, 10>>, <<Cmp(0, 65535, 255, 0, <<>>)>>, <<>>),
    GC(<<0, 0, 10, 10>>, <<Cmp(1, 0, 65535, 256, <<>>)>>, <<>>),
    GC(<<-1, -2, -3, -4>>, <<Cmp(3 + 8, 1, -32768, 32767, <<-32768>>)>>, <<>>),
    GC(<<0, 0, 10, 10>>, <<Cmp(3 + 64 + 32, 1, 300, -300, <<16384, -16384>>), Cmp(2 + 128 + 32 + 512, 2, 1, 1, <<1, 2, 3, 4>>),
                           Cmp(2 + 4 + 1024 + 2048, 7, 0, 0, <<>>)>>, <<>>),
    GC(<<0, 0, 10, 10>>, <<Cmp(2 + 256 + 32 + 4096, 1, 0, 0, <<>>), Cmp(2 + 256, 2, 5, 5, <<>>)>>, <<64, 65, 66>>),
    GC(<<0, 0, 10, 10>>, <<Cmp(2 + 256, 1, 0, 0, <<>>)>>, <<>>),
    \* scale bits together: the first that applies wins
    GC(<<0, 0, 10, 10>>, <<Cmp(2 + 8 + 64 + 128, 1, 0, 0, <<8192>>)>>, <<>>),
    GC(<<0, 0, 10, 10>>, <<Cmp(2 + 256, 1, 0, 0, <<>>)>>, Str(65535, 3)),
    GC(<<0, 0, 10, 10>>, <<Cmp(2 + 256, 1, 0, 0, <<>>)>>, Str(65536, 3))>>                  \* refused

---------------------------------------------------------------------------
\* Positional families: for every structure with per-element flags, per-element lengths or a
\* count-dependent header the POSITION of the feature among the elements is varied (first / middle /
\* last / several / none), one dimension at a time around a base value.
Bit(m, i) == (m \div Pow2i(i - 1)) % 2 = 1           \* element i is selected by mask m

\* -- hmtx: every split of 1..3 long metrics and 0..2 trailing bearings
HmtxPos == Cat([a \in 1 .. 3 |-> [b \in 1 .. 3 |->
              [hm |-> [i \in 1 .. a |-> <<100 * i, -i>>], lsb |-> [j \in 1 .. (b - 1) |-> 7 * j]]]])

\* -- loca: an odd offset (short: refused; long: stored), the largest short offset and the first one
\* that does not fit, each in every position
LocaAt(fmt, p, x) == [fmt |-> fmt, offs |-> [i \in 1 .. 4 |-> IF i = p THEN x ELSE 10 * (i - 1)]]
LocaPos == Cat([p \in 1 .. 4 |-> <<LocaAt(0, p, 10 * (p - 1) + 1), LocaAt(1, p, 10 * (p - 1) + 1),
                                   LocaAt(0, p, 131070), LocaAt(0, p, 131072), LocaAt(1, p, 131072)>>])

\* -- OS/2: one tail at its extreme values at a time (all tails present)
Os2Pos == LET b == Os2Ver(Os2Base0, 5)  m == Os2TailsMax(b) IN
          <<[b EXCEPT !.v0 = m.v0], [b EXCEPT !.v1 = m.v1], [b EXCEPT !.v2 = m.v2], [b EXCEPT !.v5 = m.v5]>>

\* -- post 2.0: names inside / outside the standard set in every position, the last standard index
\* (257) and the first custom one (258) in every position, custom names out of order, shared, with a
\* gap, empty and 255 / 256 bytes long in every position
PostIdx(ix, nms) == [PostBase EXCEPT !.version = PostV2, !.idx = ix, !.names = nms]
PN1 == <<97, 46, 115, 99>>
PN2 == <<98>>
PN3 == Str(3, 64)
At3(p, x, d) == [i \in 1 .. 3 |-> IF i = p THEN x ELSE d]
PostPos ==
  Cat([p \in 1 .. 3 |->
     <<PostIdx(At3(p, 258, 36), <<PN1>>), PostIdx(At3(p, 257, 36), <<>>), PostIdx(At3(p, 36, 258), <<PN1>>),
       PostIdx(<<258, 259, 260>>, [i \in 1 .. 3 |-> IF i = p THEN <<>> ELSE <<PN1, PN2, PN3>>[i]]),
       PostIdx(<<258, 259, 260>>, [i \in 1 .. 3 |-> IF i = p THEN Str(255, p) ELSE <<PN1, PN2, PN3>>[i]]),
       PostIdx(<<258, 259, 260>>, [i \in 1 .. 3 |-> IF i = p THEN Str(256, p) ELSE <<PN1, PN2, PN3>>[i]])>>])   \* refused
  \o <<PostIdx(<<260, 259, 258>>, <<PN1, PN2, PN3>>), PostIdx(<<259, 36, 258>>, <<PN1, PN2>>),
       PostIdx(<<258, 258, 258>>, <<PN1>>), PostIdx(<<0, 260, 0>>, <<PN1, PN2, PN3>>),
       PostIdx(<<36, 37, 38>>, <<>>), PostIdx(<<258>>, <<<<>>>>)>>

\* -- name: strings of several platform / encoding / language triples, the empty and a long string in
\* every position, language-tag records (format 1) with the empty tag first / last
NameEncs == <<<<0, 3, 0>>, <<0, 4, 0>>, <<1, 0, 0>>, <<1, 1, 11>>, <<2, 1, 0>>, <<3, 0, 1033>>, <<3, 1, 1033>>, <<3, 10, 1033>>>>
NameStrs3 == <<<<0, 70, 0, 111>>, <<70, 111, 111, 138, 255>>, <<0, 1, 244, 0, 0, 0, 0, 65>>>>
NameRec3(ss) == <<NR(3, 1, 1033, 1, ss[1]), NR(1, 0, 0, 2, ss[2]), NR(0, 4, 0, 3, ss[3])>>
NTag1 == <<0, 101, 0, 110>>
NTag2 == <<0, 115, 0, 114, 0, 45, 0, 76>>
NamePos ==
  [e \in 1 .. Len(NameEncs) |-> [recs |-> <<NR(NameEncs[e][1], NameEncs[e][2], NameEncs[e][3], 4, Str(2 * e, 40 + e))>>, tags |-> <<>>]]
  \o Cat([p \in 1 .. 3 |->
       <<[recs |-> NameRec3(At3(p, <<>>, <<9>>)), tags |-> <<>>],
         [recs |-> NameRec3([i \in 1 .. 3 |-> IF i = p THEN <<>> ELSE NameStrs3[i]]), tags |-> <<>>],
         [recs |-> NameRec3([i \in 1 .. 3 |-> IF i = p THEN <<>> ELSE NameStrs3[i]]), tags |-> <<NTag1, NTag2>>],
         [recs |-> NameRec3([i \in 1 .. 3 |-> IF i = p THEN Str(300, p) ELSE NameStrs3[i]]), tags |-> <<NTag1>>],
         [recs |-> NameRec3([i \in 1 .. 3 |-> IF i = p THEN NameStrs3[1] ELSE NameStrs3[2]]), tags |-> <<>>]>>])
  \o Cat([r \in 1 .. 2 |-> LET recs == IF r = 1 THEN <<>> ELSE <<NR(3, 1, 32768, 1, NameStrs3[1]), NR(3, 1, 32769, 2, NameStrs3[2]),
                                                                   NR(3, 1, 32770, 3, NameStrs3[3])>> IN
       <<[recs |-> recs, tags |-> <<NTag1>>], [recs |-> recs, tags |-> <<<<>>, NTag2>>], [recs |-> recs, tags |-> <<NTag1, <<>>>>],
         [recs |-> recs, tags |-> <<NTag1, NTag2, <<0, 102>>>>], [recs |-> recs, tags |-> <<<<>>>>]>>])
  \o <<[recs |-> NameRec3(<<<<>>, <<>>, <<>>>>), tags |-> <<>>], [recs |-> NameRec3(<<<<>>, <<>>, <<>>>>), tags |-> <<NTag1, NTag2>>]>>

\* -- cmap format 4: the binary-search header depends on the segment count (every count up to 17, the
\* neighbours of the powers of two); the segment that maps through glyphIdArray (idRangeOffset # 0) is
\* the first / a middle / the last real one / several / the final 0xFFFF one
SegN(n) == Seg4([i \in 1 .. n |-> IF i = n THEN 65535 ELSE 7 * i], [i \in 1 .. n |-> IF i = n THEN 65535 ELSE 7 * i + 5],
                [i \in 1 .. n |-> IF i = n THEN 1 ELSE i - 40], [i \in 1 .. n |-> 0], <<>>)
CmapSegCounts == <<2, 3, 4, 5, 6, 7, 8, 9, 10, 11, 12, 13, 14, 15, 16, 17, 31, 32, 33, 63, 64, 65, 127, 128, 129, 255, 256, 257,
                   1023, 1024, 1025>>
                 \o (IF Thorough THEN <<511, 512, 513, 2047, 2048, 2049, 4095, 4096, 4097, 8189>> ELSE <<>>)
RoLens == <<9, 6, 3>>
RoStart(m, i) == SumSeq([j \in 1 .. (i - 1) |-> IF Bit(m, j) THEN RoLens[j] ELSE 0])
CmapRoAt(m) ==
  Seg4(<<32, 100, 300, 65535>>, <<40, 105, 302, 65535>>,
       [i \in 1 .. 4 |-> IF i = 4 THEN 1 ELSE IF Bit(m, i) THEN 0 ELSE <<-29, 7, -32768>>[i]],
       [i \in 1 .. 4 |-> IF i < 4 /\ Bit(m, i) THEN 2 * (4 - (i - 1)) + 2 * RoStart(m, i) ELSE 0],
       Cat([i \in 1 .. 3 |-> IF Bit(m, i) THEN [k \in 1 .. RoLens[i] |-> 100 * i + k] ELSE <<>>]))
CmapSubPos ==
  [i \in 1 .. Len(CmapSegCounts) |-> SegN(CmapSegCounts[i])]
  \o [m \in 1 .. 7 |-> CmapRoAt(m)]
  \o <<Seg4(<<32, 65535>>, <<40, 65535>>, <<-29, 0>>, <<0, 2>>, <<0>>),
       [fmt |-> 6, lang |-> 0, first |-> 65535, gids |-> <<7>>], [fmt |-> 6, lang |-> 0, first |-> 0, gids |-> <<0, 0, 9>>],
       [fmt |-> 12, lang |-> 0, groups |-> <<<<0, 0, 1>>, <<65, 90, 2>>, <<1114111, 1114111, 65535>>>>],
       [fmt |-> 10, lang |-> 0, start |-> 1114111, gids |-> <<1>>]>>
\* the cmap table: subtables of different formats and sizes in every order (offsets are prefix sums)
CmapRec(p, e, sub) == [p |-> p, e |-> e, sub |-> sub]
CmapTblPos ==
  LET s0 == CmapSubVals[1]  s4 == CmapSubVals[5]  s6 == CmapSubVals[12]  s12 == CmapSubVals[19] IN
  <<[recs |-> <<CmapRec(1, 0, s0), CmapRec(3, 1, s4), CmapRec(0, 3, s6)>>],
    [recs |-> <<CmapRec(0, 3, s6), CmapRec(1, 0, s0), CmapRec(3, 1, s4)>>],
    [recs |-> <<CmapRec(3, 1, s4), CmapRec(0, 3, s6), CmapRec(1, 0, s0)>>],
    [recs |-> <<CmapRec(3, 10, s12), CmapRec(3, 1, s4)>>], [recs |-> <<CmapRec(3, 1, s4), CmapRec(3, 10, s12)>>],
    [recs |-> <<CmapRec(3, 1, s4), CmapRec(0, 3, s4)>>]>>

\* -- composite glyphs: 1-3 components; WE_HAVE_INSTRUCTIONS (256) on every subset of the components, with
\* and without instruction bytes; each transform kind (8 / 64 / 128), each argument width and signedness
\* (bits 1, 2) and each of the other defined bits in every position.  MORE_COMPONENTS (32) is set on
\* every component but the last.
CArg(f, i, w) ==
  IF HasBit(f, 1) THEN (IF HasBit(f, 2) THEN (IF w = 1 THEN -300 - i ELSE 300 + i) ELSE (IF w = 1 THEN 300 + i ELSE 40000 + i))
  ELSE (IF HasBit(f, 2) THEN (IF w = 1 THEN -5 - i ELSE 100 + i) ELSE (IF w = 1 THEN 200 + i ELSE i))
CompOf(f, i, more) == Cmp(f + (IF more THEN 32 ELSE 0), 10 + i, CArg(f, i, 1), CArg(f, i, 2),
                          [j \in 1 .. CompScaleLen(f) |-> 4096 * j + i - 20000])
CompsOf(fs) == [i \in 1 .. Len(fs) |-> CompOf(fs[i], i, i < Len(fs))]
GCf(fs, instr) == GC(<<-5, -6, 700, 800>>, CompsOf(fs), instr)
Scales == <<8, 64, 128>>
GlyphInstrPos ==
  Cat([n \in 1 .. 3 |-> Cat([m1 \in 1 .. Pow2i(n) |->
     LET fs == [i \in 1 .. n |-> 2 + (IF Bit(m1 - 1, i) THEN 256 ELSE 0)] IN
     IF m1 = 1 THEN <<GCf(fs, <<>>)>> ELSE <<GCf(fs, <<64, 65, 66>>), GCf(fs, <<>>)>>])])
GlyphCompPos ==
  Cat([n \in 1 .. 3 |->
        Cat([p \in 1 .. n |-> [k \in 1 .. 3 |-> GCf([i \in 1 .. n |-> 3 + (IF i = p THEN Scales[k] ELSE 0)], <<>>)]])])
  \o [r \in 1 .. 3 |-> GCf([i \in 1 .. 3 |-> 2 + Scales[((i + r) % 3) + 1]], <<>>)]
  \o Cat([p \in 1 .. 3 |-> [w \in 1 .. 4 |-> GCf([i \in 1 .. 3 |-> IF i = p THEN w - 1 ELSE (IF w = 3 THEN 3 ELSE 2)], <<>>)]])
  \o Cat([p \in 1 .. 3 |-> [b \in 1 .. 5 |-> GCf([i \in 1 .. 3 |-> 2 + (IF i = p THEN <<4, 512, 1024, 2048, 4096>>[b] ELSE 0)], <<>>)]])
  \* the instruction flag away from the last component together with components of different sizes
  \o <<GCf(<<2 + 256 + 128, 3 + 64, 8>>, <<1, 2, 3>>), GCf(<<1 + 8, 2 + 256, 3 + 128>>, <<1>>),
       GCf(<<3 + 256 + 64, 0>>, Str(300, 1)), GCf(<<2 + 256, 2, 2>>, Str(255, 2)), GCf(<<2, 2 + 256, 2>>, Str(256, 3))>>

\* thorough: the full product of component shapes (argument width / signedness / transform kind) and of the
\* positions of WE_HAVE_INSTRUCTIONS, for 1-3 components
CompPalette == <<2, 3, 0 + 8, 3 + 64, 2 + 128, 1>>
RECURSIVE Tuples(_, _)
Tuples(n, k) ==      \* all sequences of length n over 1 .. k, as a sequence
  IF n = 0 THEN <<<<>>>>
  ELSE LET sub == Tuples(n - 1, k) IN Cat([i \in 1 .. k |-> [j \in 1 .. Len(sub) |-> <<i>> \o sub[j]]])
GlyphCompProduct ==
  IF ~Thorough THEN <<>>
  ELSE Cat([n \in 1 .. 3 |-> LET ts == Tuples(n, Len(CompPalette)) IN
         Cat([t \in 1 .. Len(ts) |-> [m1 \in 1 .. Pow2i(n) |->
            GCf([i \in 1 .. n |-> CompPalette[ts[t][i]] + (IF Bit(m1 - 1, i) THEN 256 ELSE 0)],
                IF m1 = 1 THEN <<>> ELSE <<9, 8>>)]])])

\* -- simple glyphs (through the writer): ON_CURVE, the extreme coordinates and the contour ends in every
\* position; instruction lengths around 255 / 256
GSn(ends, instr, pts) == GS(<<-10, -20, 100, 100>>, ends, instr, pts)
SimplePos ==
  Cat([p \in 1 .. 3 |->
     <<GSn(<<2>>, <<>>, [i \in 1 .. 3 |-> Pt(IF i = p THEN 1 ELSE 0, 10 * i, 20 * i)]),
       GSn(<<2>>, <<>>, [i \in 1 .. 3 |-> Pt(IF i = p THEN 0 ELSE 1, 10 * i, 20 * i)]),
       GSn(<<2>>, <<7>>, [i \in 1 .. 3 |-> Pt(1, IF i = p THEN 32767 ELSE 0, IF i = p THEN 0 ELSE -1)]),
       GSn(<<2>>, <<7>>, [i \in 1 .. 3 |-> Pt(1, IF i = p THEN -32768 ELSE -1, IF i = p THEN 32767 ELSE 0)]),
       GSn(<<<<1, 3, 4>>, <<0, 2, 4>>, <<0, 1, 4>>>>[p], <<1, 2>>, [i \in 1 .. 5 |-> Pt(i % 2, i, -i)])>>])
  \o <<GSn(<<0>>, Str(255, 0), <<Pt(1, 1, 1)>>), GSn(<<0>>, Str(256, 0), <<Pt(1, 1, 1)>>), GSn(<<0, 1, 2>>, <<>>, [i \in 1 .. 3 |-> Pt(1, i, i)])>>

\* -- simple glyphs in every packing a reader must accept (kind "glyphp": the packed bytes are parsed,
\* written and parsed again): each flag / coordinate form in every position, REPEAT runs at the start, at the
\* end, over the whole glyph, of length zero, and around the 255 limit of the repeat count
FromDeltas(ds) == [i \in 1 .. Len(ds) |-> Pt(ds[i][1], SumSeq([j \in 1 .. i |-> ds[j][2]]), SumSeq([j \in 1 .. i |-> ds[j][3]]))]
GP(ends, instr, ds) == GS(<<-1, -2, 3, 4>>, ends, instr, FromDeltas(ds))
PW == <<1, 300, -300>>
PForms == <<<<1 + 2 + 16, 200, -300>>, <<1 + 2, -200, -300>>, <<1 + 2 + 16, 255, 7>>, <<1 + 2, -255, 7>>, <<1 + 2, 0, 5>>,
            <<1 + 4 + 32, 300, 255>>, <<1 + 4, 300, -255>>, <<4 + 32, 300, 0>>,
            <<1 + 16, 0, -300>>, <<1 + 32, 300, 0>>, <<1 + 16 + 32, 0, 0>>, <<2 + 4 + 16 + 32, 1, 1>>, <<2 + 4, -1, -1>>,
            <<0, 300, -300>>, <<1 + 2 + 32, -9, 0>>, <<1 + 4 + 16, 0, -9>>,
            <<1 + 8, 256, -256>>, <<8 + 2 + 4 + 16 + 32, 3, 4>>>>
PRep == <<1 + 8 + 2 + 4 + 16 + 32, 1, 1>>
GlyphPackedVals ==
  Cat([f \in 1 .. Len(PForms) |-> [p \in 1 .. 3 |-> GP(<<2>>, <<>>, At3(p, PForms[f], PW))]])
  \o <<GP(<<2>>, <<>>, <<PRep, PRep, PRep>>), GP(<<2>>, <<>>, <<PRep, PRep, PW>>), GP(<<2>>, <<>>, <<PW, PRep, PRep>>),
       GP(<<1, 3>>, <<176, 0>>, <<PRep, PW, PRep, PRep>>), GP(<<0, 3>>, <<1, 2, 3>>, <<PW, PW, PForms[9], PForms[9]>>),
       GP(<<>>, <<>>, <<>>), GP(<<>>, <<5>>, <<>>), GP(<<0>>, <<>>, <<PRep>>),
       GP(<<4>>, <<>>, <<PW, <<9, 300, -300>>, <<9, 300, -300>>, <<9, 1, 1>>, PW>>)>>
  \o [n \in 1 .. 4 |-> GP(<<253 + n>>, <<>>, [i \in 1 .. (254 + n) |-> PRep])]           \* 255 .. 258 points, one flag
  \o <<GP(<<299>>, <<>>, [i \in 1 .. 300 |-> IF i <= 20 THEN PW ELSE PRep])>>
  \* thorough: every combination of forms on three consecutive points
  \o (IF ~Thorough THEN <<>>
      ELSE LET ts == Tuples(3, Len(PForms)) IN [t \in 1 .. Len(ts) |-> GP(<<2>>, <<>>, [i \in 1 .. 3 |-> PForms[ts[t][i]]])])

---------------------------------------------------------------------------
\* CFF
IntEdges == {0, 107, 108, 1131, 1132, 32767, 32768, 65535, 65536, 8388607, 8388608, 2147483645}
IntSet == (UNION {{e - 1, e, e + 1, -e - 1, -e, -e + 1} : e \in IntEdges})
          \cup {2147483647, -2147483647, -2147483647 - 1}
          \cup (IF Thorough THEN (-1200 .. 1200) \cup (32500 .. 33000) \cup (-33000 .. -32500) ELSE {})
IntSeq == SetToSortSeq(IntSet, LAMBDA a, b : a < b)
CffIntVals == [i \in 1 .. Len(IntSeq) |-> I(IntSeq[i])]
              \o <<O(0), O(1), O(107), O(-1), O(65536), O(2147483647), O(-2147483647 - 1)>>

E(op, args) == [op |-> op, args |-> args]
Reals == <<<<255>>, <<31>>, <<10, 0, 31>>, <<226, 162, 95>>, <<10, 20, 5, 65, 63>>,
           <<1, 2, 3, 4, 5, 6, 127>>, <<1, 2, 3, 4, 5, 6, 7, 143>>, <<160, 1, 255>>,
           <<18, 52, 86, 120, 154, 188, 222, 1, 35, 69, 103, 255>>, <<10, 3, 150, 37, 255>>, <<10, 6, 255>>>>
TopDefaultsE == <<E(3073, <<I(0)>>), E(3074, <<I(0)>>), E(3075, <<I(-100)>>), E(3076, <<I(50)>>), E(3077, <<I(0)>>),
                  E(3078, <<I(2)>>), E(3079, FontMatrixDefault), E(5, <<I(0), I(0), I(0), I(0)>>), E(3080, <<I(0)>>),
                  E(3103, <<I(0)>>), E(3104, <<I(0)>>), E(3105, <<I(0)>>), E(3106, <<I(8720)>>)>>
PrivDefaultsE == <<E(3081, <<Rl(<<10, 3, 150, 37, 255>>)>>), E(3082, <<I(7)>>), E(3083, <<I(1)>>), E(3086, <<I(0)>>),
                   E(3089, <<I(0)>>), E(3090, <<Rl(<<10, 6, 255>>)>>), E(3091, <<I(0)>>), E(20, <<I(0)>>), E(21, <<I(0)>>)>>
\* the same operators one step away from the default
Near(e) == [e EXCEPT !.args[1] = IF @.t = "r" THEN Rl(<<10, 0, 47>>) ELSE I(@.v + 1)]
DV(kd, es, fm) == [kind |-> kd, entries |-> es, form |-> fm]
DictVals ==
  <<DV("top", <<>>, 1), DV("font", <<>>, 1),
    DV("top", <<E(0, <<I(391)>>), E(1, <<I(392)>>)>> \o TopDefaultsE \o <<E(17, <<I(1000)>>), E(18, <<I(45), I(2000)>>)>>, 1),
    DV("top", MapS(TopDefaultsE, Near), 1),
    DV("top", TopDefaultsE, 3), DV("top", TopDefaultsE, 5),
    DV("top", <<E(3102, <<I(391), I(392), I(0)>>), E(15, <<I(0)>>), E(16, <<I(0)>>), E(17, <<I(300)>>), E(3108, <<I(500)>>),
                E(3109, <<I(70000)>>)>>, 1),
    DV("top", <<E(15, <<I(1)>>), E(16, <<I(1)>>), E(16, <<I(2)>>), E(15, <<I(2)>>), E(19, <<I(9)>>), E(24, <<I(77)>>)>>, 1),
    DV("top", <<E(3079, <<Real0001, I(0), I(0), Rl(<<160, 1, 255>>), I(0), I(0)>>), E(5, <<I(0), I(0), I(0), I(1)>>),
                E(5, <<I(-107), I(-108), I(1131), I(1132)>>), E(14, [i \in 1 .. 48 |-> I(i * 700)])>>, 1),
    DV("top", [i \in 1 .. Len(Reals) |-> E(3074, <<Rl(Reals[i])>>)], 1),
    DV("priv", PrivDefaultsE, 1), DV("priv", PrivDefaultsE, 3), DV("priv", MapS(PrivDefaultsE, Near), 1),
    DV("priv", <<E(6, <<I(-20), I(20), I(450), I(20)>>), E(10, <<I(80)>>), E(3084, <<I(80), I(12)>>)>> \o PrivDefaultsE
               \o <<E(19, <<I(120)>>)>>, 1),
    DV("priv", <<E(20, <<I(32767)>>), E(21, <<I(-32768)>>), E(3080, <<I(0)>>)>>, 5),
    \* zero where the default is not zero: must be kept
    DV("priv", <<E(3082, <<I(0)>>), E(3083, <<I(0)>>), E(3081, <<I(0)>>), E(3090, <<I(0)>>)>>, 1),
    DV("top", <<E(3075, <<I(0)>>), E(3076, <<I(0)>>), E(3078, <<I(0)>>), E(3106, <<I(0)>>), E(3079, <<I(0), I(0), I(0), I(0), I(0), I(0)>>)>>, 1),
    DV("font", <<E(3110, <<I(400)>>), E(18, <<I(10), I(20)>>), E(3073, <<I(0)>>)>>, 1),
    DV("top2", <<E(3079, FontMatrixDefault), E(17, <<I(50)>>), E(3108, <<I(60)>>), E(24, <<I(16)>>)>>, 1),
    DV("priv2", <<E(22, <<I(0)>>), E(22, <<I(1)>>), E(3082, <<I(7)>>), E(3086, <<I(0)>>), E(23, <<I(1), I(2), I(1)>>)>>, 1)>>

Obj(n, c) == [i \in 1 .. n |-> c]
IV(lens, sz, c32) == [lens |-> lens, sz |-> sz, c32 |-> c32]
IndexVals ==
  Cat([c \in 1 .. 2 |->
    <<IV(<<>>, 1, c = 2)>>
    \o Cat([sz \in 1 .. 4 |-> <<IV(<<0>>, sz, c = 2), IV(<<1>>, sz, c = 2), IV(<<3, 0, 2>>, sz, c = 2), IV(<<254>>, sz, c = 2)>>])
    \o Cat([s \in 1 .. 3 |-> <<IV(<<255>>, s + 1, c = 2), IV(<<100, 155, 1>>, s + 1, c = 2)>>])])
IndexOwnedVals ==
  <<[lens |-> <<>>], [lens |-> <<0>>], [lens |-> <<1>>], [lens |-> <<3, 0, 2>>], [lens |-> <<254>>], [lens |-> <<255>>],
    [lens |-> <<100, 154>>], [lens |-> <<100, 155>>], [lens |-> <<0, 0, 0, 255, 0>>], [lens |-> <<65534>>], [lens |-> <<65535>>],
    [lens |-> <<30000, 35534>>], [lens |-> <<30000, 35535>>]>>
  \o (IF Thorough THEN <<[lens |-> <<16777214>>], [lens |-> <<16777215>>], [lens |-> <<16000000, 777214, 1>>]>> ELSE <<>>)

CharsetVals ==
  <<[fmt |-> 0, sids |-> <<>>], [fmt |-> 0, sids |-> <<1, 391, 65535, 0>>],
    [fmt |-> 1, ranges |-> <<<<1, 0>>>>], [fmt |-> 1, ranges |-> <<<<1, 255>>, <<400, 3>>, <<65535, 0>>>>],
    [fmt |-> 2, ranges |-> <<<<1, 0>>>>], [fmt |-> 2, ranges |-> <<<<1, 65534>>>>], [fmt |-> 2, ranges |-> <<<<1, 256>>, <<1000, 65535>>>>],
    [fmt |-> 1, ranges |-> <<>>]>>
EncodingVals ==
  <<[fmt |-> 0, codes |-> <<>>], [fmt |-> 0, codes |-> <<32, 65, 255, 0>>], [fmt |-> 0, codes |-> [i \in 1 .. 255 |-> i]],
    [fmt |-> 0, codes |-> [i \in 1 .. 256 |-> i - 1]],                                   \* refused
    [fmt |-> 1, ranges |-> <<>>], [fmt |-> 1, ranges |-> <<<<32, 94>>, <<200, 0>>, <<255, 255>>>>],
    [fmt |-> 1, ranges |-> [i \in 1 .. 255 |-> <<i, 0>>]], [fmt |-> 1, ranges |-> [i \in 1 .. 256 |-> <<i - 1, 0>>]]>>    \* refused
FdSelectVals ==
  <<[fmt |-> 0, fds |-> <<>>], [fmt |-> 0, fds |-> <<0, 1, 255, 0>>],
    [fmt |-> 3, ranges |-> <<<<0, 0>>>>, sentinel |-> 1], [fmt |-> 3, ranges |-> <<<<0, 1>>, <<5, 0>>, <<65534, 255>>>>, sentinel |-> 65535],
    [fmt |-> 3, ranges |-> <<>>, sentinel |-> 0],
    [fmt |-> 3, ranges |-> [i \in 1 .. 65535 |-> <<i - 1, i % 256>>], sentinel |-> 65535],
    [fmt |-> 3, ranges |-> [i \in 1 .. 65536 |-> <<(i - 1) % 65536, 0>>], sentinel |-> 65535]>>                        \* refused

IvsVals ==
  <<[axes |-> 0, regions |-> <<>>, data |-> <<>>],
    [axes |-> 1, regions |-> <<<<<<0, 16384, 16384>>>>>>, data |-> <<[items |-> 1, wdc |-> 0, ris |-> <<0>>, deltas |-> <<5>>]>>],
    [axes |-> 2, regions |-> <<<<<<-16384, -16384, 0>>, <<0, 0, 0>>>>, <<<<0, 8192, 16384>>, <<-1, 1, 32767>>>>>>,
     data |-> <<[items |-> 2, wdc |-> 1, ris |-> <<0, 1>>, deltas |-> <<1, 2, 3, 255, 254, 253>>],
                [items |-> 0, wdc |-> 0, ris |-> <<>>, deltas |-> <<>>],
                [items |-> 1, wdc |-> 32768 + 1, ris |-> <<1>>, deltas |-> <<0, 1, 2, 3>>]>>],
    [axes |-> 1, regions |-> <<>>, data |-> <<[items |-> 3, wdc |-> 0, ris |-> <<>>, deltas |-> <<>>]>>]>>

\* -- positional families of the CFF structures
\* DICT: a default-valued entry first / in the middle / last / alone, a 48-operand entry first / last, a real
\* operand first / last among the operands
DND1(k) == IF k = "top" THEN E(0, <<I(391)>>) ELSE E(10, <<I(80)>>)
DND2(k) == IF k = "top" THEN E(17, <<I(1000)>>) ELSE E(11, <<I(90)>>)
DDef(k) == IF k = "top" THEN E(3078, <<I(2)>>) ELSE E(3082, <<I(7)>>)
Ops48 == [i \in 1 .. 48 |-> I(i * 700 - 9000)]
DictPos ==
  Cat([kk \in 1 .. 2 |-> LET k == <<"top", "priv">>[kk] IN
     <<DV(k, <<DDef(k), DND1(k), DND2(k)>>, 1), DV(k, <<DND1(k), DDef(k), DND2(k)>>, 1), DV(k, <<DND1(k), DND2(k), DDef(k)>>, 1),
       DV(k, <<DDef(k)>>, 1), DV(k, <<DDef(k), DND1(k), DDef(k)>>, 3)>>])
  \o <<DV("top", <<E(14, Ops48), DND1("top")>>, 1), DV("top", <<DND1("top"), E(14, Ops48)>>, 1),
       DV("priv", <<E(6, Ops48), DND1("priv")>>, 1), DV("priv", <<DND1("priv"), E(7, Ops48)>>, 1),
       DV("top", <<E(3079, <<Rl(<<160, 1, 255>>), I(0), I(0), I(1), I(0), I(0)>>)>>, 1),
       DV("top", <<E(3079, <<I(1), I(0), I(0), I(1), I(0), Rl(<<160, 1, 255>>)>>)>>, 1),
       DV("priv", <<E(6, <<Rl(<<31>>), I(20), I(450), Rl(<<226, 162, 95>>)>>), E(9, <<Rl(<<10, 20, 5, 65, 63>>)>>)>>, 1)>>

\* INDEX: the empty object first / last / everywhere, also next to the offSize 1 / 2 edge
IndexPosLens == <<<<0, 3, 2>>, <<3, 2, 0>>, <<0, 3, 0>>, <<0, 0>>, <<0, 0, 0>>, <<0, 254>>, <<254, 0>>, <<0, 255>>, <<255, 0>>, <<1, 1, 1, 1>>, <<0, 256>>, <<256, 0>>>>
IndexPos == Cat([c \in 1 .. 2 |-> Cat([i \in 1 .. Len(IndexPosLens) |->
              LET mn == MinOffSize(1 + SumSeq(IndexPosLens[i])) IN
              <<IV(IndexPosLens[i], mn, c = 2), IV(IndexPosLens[i], mn + 1, c = 2)>>])])
IndexOwnedPos == [i \in 1 .. Len(IndexPosLens) |-> [lens |-> IndexPosLens[i]]]

\* charset: nLeft at its edges (format 1: 0 / 255; format 2: 0 / 255 / 256 / 65535) in every position
RangesAt(p, x, d) == [i \in 1 .. 3 |-> <<1000 * i, IF i = p THEN x ELSE d>>]
CharsetPos ==
  Cat([p \in 1 .. 3 |->
     <<[fmt |-> 1, ranges |-> RangesAt(p, 255, 0)], [fmt |-> 1, ranges |-> RangesAt(p, 0, 255)], [fmt |-> 1, ranges |-> RangesAt(p, 254, 1)],
       [fmt |-> 2, ranges |-> RangesAt(p, 255, 0)], [fmt |-> 2, ranges |-> RangesAt(p, 256, 0)], [fmt |-> 2, ranges |-> RangesAt(p, 0, 256)],
       [fmt |-> 2, ranges |-> RangesAt(p, 65535, 1)], [fmt |-> 0, sids |-> At3(p, 65535, 0)]>>])
  \o <<[fmt |-> 1, ranges |-> <<<<1, 255>>, <<257, 0>>>>], [fmt |-> 2, ranges |-> <<<<1, 255>>, <<257, 0>>>>],
       [fmt |-> 0, sids |-> <<391>>], [fmt |-> 0, sids |-> [i \in 1 .. 256 |-> i]]>>
\* encoding: nLeft / codes at their edges in every position
EncodingPos ==
  Cat([p \in 1 .. 3 |->
     <<[fmt |-> 1, ranges |-> [i \in 1 .. 3 |-> <<40 * i, IF i = p THEN 255 ELSE 0>>]],
       [fmt |-> 1, ranges |-> [i \in 1 .. 3 |-> <<IF i = p THEN 255 ELSE 0, i>>]],
       [fmt |-> 0, codes |-> At3(p, 255, 0)], [fmt |-> 0, codes |-> At3(p, 0, 65)]>>])
\* FDSelect: the change of font DICT right after the first glyph / right before the last / both; the largest
\* font DICT index first / last; format 0 alike
FdSelectPos ==
  <<[fmt |-> 3, ranges |-> <<<<0, 0>>, <<1, 1>>>>, sentinel |-> 10], [fmt |-> 3, ranges |-> <<<<0, 0>>, <<9, 1>>>>, sentinel |-> 10],
    [fmt |-> 3, ranges |-> <<<<0, 1>>, <<1, 0>>, <<9, 1>>>>, sentinel |-> 10],
    [fmt |-> 3, ranges |-> <<<<0, 255>>, <<5, 0>>, <<7, 0>>>>, sentinel |-> 10], [fmt |-> 3, ranges |-> <<<<0, 0>>, <<5, 0>>, <<7, 255>>>>, sentinel |-> 10],
    [fmt |-> 3, ranges |-> <<<<0, 0>>, <<5, 255>>, <<7, 0>>>>, sentinel |-> 8], [fmt |-> 3, ranges |-> <<<<0, 7>>>>, sentinel |-> 65535],
    [fmt |-> 3, ranges |-> <<<<0, 0>>, <<65534, 1>>>>, sentinel |-> 65535],
    [fmt |-> 0, fds |-> <<1, 0, 0, 0>>], [fmt |-> 0, fds |-> <<0, 1, 0, 0>>], [fmt |-> 0, fds |-> <<0, 0, 0, 1>>],
    [fmt |-> 0, fds |-> <<0, 0, 1, 1>>], [fmt |-> 0, fds |-> <<255, 0, 0>>], [fmt |-> 0, fds |-> <<0, 0, 255>>], [fmt |-> 0, fds |-> <<7>>]>>

\* item variation store: every word-delta count 0 .. n of n = 3 regions, short and long words; the long /
\* the empty sub-table first / in the middle / last
IvsRegs3 == <<<<<<-16384, -16384, 0>>>>, <<<<0, 8192, 16384>>>>, <<<<-1, 1, 32767>>>>>>
IvsD(n, w, long, items) ==
  LET wdc == w + (IF long THEN 32768 ELSE 0)
      ris == [j \in 1 .. n |-> n - j]
      rl  == IvsRowLen([wdc |-> wdc, ris |-> ris]) IN
  [items |-> items, wdc |-> wdc, ris |-> ris, deltas |-> [i \in 1 .. (items * rl) |-> (7 * i + w) % 256]]
IvsPos ==
  Cat([w \in 1 .. 4 |-> <<[axes |-> 1, regions |-> IvsRegs3, data |-> <<IvsD(3, w - 1, FALSE, 2)>>],
                          [axes |-> 1, regions |-> IvsRegs3, data |-> <<IvsD(3, w - 1, TRUE, 2)>>]>>])
  \o [p \in 1 .. 3 |-> [axes |-> 1, regions |-> IvsRegs3,
                        data |-> [i \in 1 .. 3 |-> IF i = p THEN IvsD(2, 1, TRUE, 2) ELSE IvsD(i, 1, FALSE, i)]]]
  \o [p \in 1 .. 3 |-> [axes |-> 1, regions |-> IvsRegs3,
                        data |-> [i \in 1 .. 3 |-> IF i = p THEN IvsD(0, 0, FALSE, 0) ELSE IvsD(3, i, FALSE, 1)]]]


\* -- the parts of an item variation store on their own (the store's own writer is a known finding and would
\* hide them): ItemVariationData with the LONG_WORDS flag (bit 15 of wordDeltaCount) set and clear for every
\* word count 0 .. n, no rows / one row / several rows, the largest region index; VariationRegionList with
\* 0 .. 3 regions of 0 .. 2 axes and the extreme F2Dot14 values
IvdVals ==
  Cat([w \in 1 .. 4 |-> Cat([it \in 1 .. 3 |->
         <<IvsD(3, w - 1, FALSE, <<0, 1, 3>>[it]), IvsD(3, w - 1, TRUE, <<0, 1, 3>>[it])>>])])
  \o <<IvsD(1, 0, FALSE, 2), IvsD(1, 0, TRUE, 2), IvsD(1, 1, FALSE, 2), IvsD(1, 1, TRUE, 2),
       [IvsD(2, 1, TRUE, 1) EXCEPT !.ris = <<65535, 0>>], [IvsD(2, 2, FALSE, 1) EXCEPT !.ris = <<65535, 32768>>],
       [items |-> 0, wdc |-> 0, ris |-> <<>>, deltas |-> <<>>], [items |-> 0, wdc |-> 32768, ris |-> <<>>, deltas |-> <<>>],
       IvsD(16, 16, TRUE, 2), IvsD(16, 0, TRUE, 2), IvsD(16, 16, FALSE, 255)>>
IvrVals ==
  <<[axes |-> 0, regions |-> <<>>], [axes |-> 2, regions |-> <<>>], [axes |-> 0, regions |-> <<<<>>, <<>>>>],
    [axes |-> 1, regions |-> IvsRegs3],
    [axes |-> 2, regions |-> <<<<<<-16384, -16384, 0>>, <<0, 0, 0>>>>, <<<<0, 8192, 16384>>, <<-1, 1, 32767>>>>,
                               <<<<-32768, 0, 32767>>, <<16384, 16384, 16384>>>>>>]>>

\* -- whole CFF tables: the two-pass writer (Top DICT INDEX reserved from a size computed in advance, Private
\* DICT written after its size was counted, Font DICT INDEX assembled after the Private DICTs) at the sizes
\* where the size classes of the encodings change: Top / Private / Font DICT data of 250 .. 260 bytes and
\* around 65535, every INDEX with 254 / 255 / 256 / 65534 / 65535 / 65536 bytes of object data, the String
\* INDEX with 0 / 1 / 2 / 3 strings and SIDs on both sides of 391.  All neighbouring structures are non-empty
\* and different from one another, so that a structure read at the wrong place is seen.
PadBig(op, i) == DE(op, [j \in 1 .. 48 |-> I(100000 + 48 * i + j)])                   \* 241 bytes
PadSmall(op, k) == LET a == (k - 1) \div 5  b == (k - 1) % 5 IN                       \* k bytes, 2 <= k <= 200
                   DE(op, [j \in 1 .. (a + b) |-> IF j <= a THEN I(70000 + j) ELSE I(j)])
RECURSIVE Pad(_, _)
Pad(op, k) == IF k = 0 THEN <<>> ELSE IF k <= 200 THEN <<PadSmall(op, k)>>
              ELSE IF k <= 242 THEN <<PadSmall(op, k - 100), PadSmall(op, 100)>>
              ELSE <<PadBig(op, k)>> \o Pad(op, k - 241)
CffBase == [hdr |-> Hdr4, lay |-> 0, names |-> <<Str(6, 64)>>, top |-> <<DE(2, <<I(391)>>)>>, strs |-> <<Str(5, 96), Str(3, 32)>>,
            gs |-> <<<<1, 11>>, <<2, 3, 11>>, <<11>>>>, cs |-> <<<<14>>, <<139, 14>>, <<140, 141, 14>>>>, sids |-> <<>>,
            priv |-> <<DE(10, <<I(80)>>)>>, hasLs |-> TRUE, ls |-> <<<<4, 11>>, <<11>>>>, fds |-> <<>>, fdsel |-> <<>>]
CffCidBase == [CffBase EXCEPT !.top = <<DE(3102, <<I(391), I(392), I(0)>>), DE(2, <<I(393)>>)>>,
                              !.strs = <<Str(5, 64), Str(8, 72), Str(4, 48)>>, !.sids = <<1, 2>>,
                              !.priv = <<>>, !.hasLs = FALSE, !.ls = <<>>,
                              !.fds = <<[fd |-> <<DE(3110, <<I(393)>>)>>, priv |-> <<DE(10, <<I(80)>>)>>, hasLs |-> TRUE, ls |-> <<<<5, 11>>>>],
                                        [fd |-> <<DE(3110, <<I(392)>>)>>, priv |-> <<DE(11, <<I(90)>>)>>, hasLs |-> FALSE, ls |-> <<>>]>>,
                              !.fdsel = <<0, 1, 0>>]
\* the Top DICT of CffBase without padding: FullName (3) + CharStrings (6) + Private (11); the Private DICT:
\* StdHW (2) + Subrs (6); a Font DICT of CffCidBase: FontName (4) + Private (11); its Top DICT: ROS (7) +
\* FullName (3) + charset (6) + CharStrings (6) + FDArray (7) + FDSelect (7) = 36 with ROS (7)
CffTopOf(L)  == [CffBase EXCEPT !.top = @ \o Pad(14, L - 20)]
CffPrivOf(L, subrs) == [CffBase EXCEPT !.priv = @ \o Pad(6, L - (IF subrs THEN 8 ELSE 2)), !.hasLs = subrs,
                                       !.ls = IF subrs THEN @ ELSE <<>>]
CffFdOf(L, which) == [CffCidBase EXCEPT !.fds[which].fd = @ \o Pad(14, L - 15)]
CffCidTopOf(L) == [CffCidBase EXCEPT !.top = @ \o Pad(14, L - 36)]
DictLens == <<250, 251, 252, 253, 254, 255, 256, 257, 258, 259, 260>>
BigLens  == IF Thorough THEN <<65530, 65531, 65532, 65533, 65534, 65535, 65536, 65537, 65538, 65539, 65540>>
            ELSE <<65533, 65534, 65535, 65536>>
BigDict  == IF Thorough THEN BigLens ELSE <<65535, 65536>>       \* quick: the second size-class edge of the Top DICT INDEX in
                                                                 \* full, of the other DICTs on both sides only
IdxDatas == <<254, 255, 256>>
IdxBig   == <<65534, 65535, 65536>>
Two(n, c) == <<Obj(n - 100, c), Obj(100, c + 1)>>           \* two objects with n bytes of data together
CffStrN(k) ==     \* k strings; the Top DICT names SIDs on both sides of the first custom one
  [CffBase EXCEPT !.strs = [i \in 1 .. k |-> Str(3 + i, 40 * i)],
                  !.top = <<DE(0, <<I(390)>>), DE(2, <<I(IF k >= 1 THEN 391 ELSE 389)>>), DE(3, <<I(390 + (IF k = 0 THEN 0 ELSE k))>>),
                            DE(4, <<I(1)>>)>>]
\* -- the header: hdrSize is a length that travels with the bytes it counts, and every offset of the table counts
\* from the start of the header.  A source whose header is longer than the four defined fields (hdrSize 5, 6, 8,
\* 10, the largest: 255), with skipped bytes that read as nothing, as an empty INDEX (0 0), as an INDEX with one
\* object, as 0xFF; name-keyed and CID-keyed (the Font DICTs carry absolute offsets too); together with each of the
\* structures the Top DICT locates by an absolute offset (charset, CharStrings, Private, FDArray, FDSelect), with
\* the String INDEX that SIDs index, and with the Top DICT at the offSize edge of its reserved INDEX; the other
\* header fields (minor version, offSize 1 .. 4) at their edges with and without such bytes.
HdrPads == <<<<0>>, <<0, 0>>, <<255, 255, 255, 255>>, <<0, 1, 1, 1, 2, 65>>, Str(251, 0)>>
WithHdr(v, minor, os, pad) == [v EXCEPT !.hdr = [minor |-> minor, offSize |-> os, pad |-> pad]]
CfftHdrVals ==
  Cat([i \in 1 .. Len(HdrPads) |-> <<WithHdr(CffBase, 0, 1, HdrPads[i]), WithHdr(CffCidBase, 0, 1, HdrPads[i])>>])
  \o [os \in 1 .. 3 |-> WithHdr(CffBase, 0, os + 1, <<>>)] \o [os \in 1 .. 3 |-> WithHdr(CffCidBase, 0, os + 1, <<7, 7>>)]
  \o <<WithHdr(CffBase, 1, 1, <<>>), WithHdr(CffBase, 255, 4, <<>>), WithHdr(CffBase, 1, 2, <<9>>), WithHdr(CffCidBase, 255, 1, <<0, 0>>)>>
  \o Cat([i \in 1 .. 4 |-> LET L == <<253, 254, 255, 256>>[i] IN
          <<WithHdr(CffTopOf(L), 0, 1, <<0>>), WithHdr(CffTopOf(L), 0, 1, <<0, 0>>), WithHdr(CffCidTopOf(L), 0, 1, <<0, 0, 0>>)>>])
  \o <<WithHdr([CffBase EXCEPT !.sids = <<391, 5>>], 0, 1, <<0, 0>>), WithHdr(CffStrN(0), 0, 1, <<0, 0>>), WithHdr(CffStrN(3), 0, 1, <<0>>),
       WithHdr([CffBase EXCEPT !.hasLs = FALSE, !.ls = <<>>], 0, 1, <<1, 2, 3>>), WithHdr([CffBase EXCEPT !.gs = <<>>], 0, 1, <<0, 0>>),
       WithHdr([CffBase EXCEPT !.gs = Two(255, 7)], 0, 1, <<0, 0>>), WithHdr([CffCidBase EXCEPT !.fds[1].ls = Two(256, 15)], 0, 1, <<0>>)>>
  \* thorough: every header size 5 .. 20 and 250 .. 255, both layouts, name-keyed and CID-keyed, offSize and minor version turning
  \o (IF ~Thorough THEN <<>>
      ELSE Cat([n \in 1 .. 22 |-> LET k == IF n <= 16 THEN n ELSE 229 + n  pad == [i \in 1 .. k |-> (n * i) % 3] IN
             <<WithHdr(CffBase, n % 2, 1 + (n % 4), pad), WithHdr(CffCidBase, n % 3, 1 + ((n + 1) % 4), pad),
               [WithHdr(CffBase, 0, 1, pad) EXCEPT !.lay = 1], [WithHdr(CffCidBase, 0, 1, pad) EXCEPT !.lay = 1],
               WithHdr(CffTopOf(250 + (n % 8)), 0, 1, pad)>>]))

\* -- a source laid out differently (EncCff, lay = 1: Private DICTs before charset before CharStrings, Font DICT INDEX
\* first, unreferenced bytes between the structures): every kind of structure a DICT locates, the sizes of the
\* two-pass writer, also behind a long header
WithLay(v) == [v EXCEPT !.lay = 1]
CfftLayVals ==
  <<WithLay(CffBase), WithLay(CffCidBase), WithLay([CffBase EXCEPT !.sids = <<391, 5>>]), WithLay([CffBase EXCEPT !.hasLs = FALSE, !.ls = <<>>]),
    WithLay([CffBase EXCEPT !.ls = <<>>]), WithLay([CffBase EXCEPT !.gs = <<>>]), WithLay(CffStrN(3)),
    WithLay(CffTopOf(254)), WithLay(CffTopOf(255)), WithLay(CffCidTopOf(255)), WithLay(CffCidTopOf(256)),
    WithLay(CffPrivOf(255, TRUE)), WithLay(CffPrivOf(256, FALSE)), WithLay(CffFdOf(255, 1)), WithLay(CffFdOf(240, 2)),
    WithLay([CffBase EXCEPT !.ls = Two(255, 9)]), WithLay([CffBase EXCEPT !.cs = Two(256, 11)]), WithLay([CffCidBase EXCEPT !.fds[1].ls = Two(255, 15)]),
    WithLay(WithHdr(CffBase, 0, 1, <<0, 0>>)), WithLay(WithHdr(CffCidBase, 1, 2, <<0>>)), WithLay(WithHdr([CffBase EXCEPT !.sids = <<391, 5>>], 0, 1, Str(251, 0)))>>

CfftVals ==
  <<CffBase, CffCidBase, [CffBase EXCEPT !.sids = <<391, 5>>], [CffBase EXCEPT !.hasLs = FALSE, !.ls = <<>>],
    [CffBase EXCEPT !.ls = <<>>], [CffBase EXCEPT !.gs = <<>>], [CffBase EXCEPT !.strs = <<>>, !.top = <<DE(2, <<I(390)>>)>>]>>
  \o [i \in 1 .. Len(DictLens) |-> CffTopOf(DictLens[i])] \o [i \in 1 .. Len(BigLens) |-> CffTopOf(BigLens[i])]
  \o [i \in 1 .. Len(DictLens) |-> CffPrivOf(DictLens[i], TRUE)] \o [i \in 1 .. Len(DictLens) |-> CffPrivOf(DictLens[i], FALSE)]
  \o [i \in 1 .. Len(BigDict) |-> CffPrivOf(BigDict[i], (BigDict[i] % 2) = 0)]
  \o [i \in 1 .. Len(DictLens) |-> CffFdOf(DictLens[i], 1)] \o [i \in 1 .. Len(DictLens) |-> CffFdOf(DictLens[i] - 15, 2)]
  \o [i \in 1 .. Len(BigDict) |-> CffFdOf(BigDict[i] - 15, 1 + (i % 2))]
  \o [i \in 1 .. Len(DictLens) |-> CffCidTopOf(DictLens[i])]
  \o [k \in 1 .. 4 |-> CffStrN(k - 1)]
  \o Cat([i \in 1 .. Len(IdxDatas) |-> LET n == IdxDatas[i] IN
        <<[CffBase EXCEPT !.gs = Two(n, 7)], [CffBase EXCEPT !.ls = Two(n, 9)], [CffBase EXCEPT !.cs = Two(n, 11)],
          [CffBase EXCEPT !.strs = Two(n, 13)], [CffCidBase EXCEPT !.fds[1].ls = Two(n, 15)]>>])
  \* 64 KiB INDEXes: the neighbours of the reserved Top DICT INDEX always, the others in the thorough tier
  \o Cat([i \in 1 .. Len(IdxBig) |-> LET n == IdxBig[i] IN
        <<[CffBase EXCEPT !.gs = Two(n, 7)], [CffBase EXCEPT !.strs = Two(n, 13)]>>
        \o (IF Thorough THEN <<[CffBase EXCEPT !.ls = Two(n, 9)], [CffBase EXCEPT !.cs = Two(n, 11)],
                                [CffCidBase EXCEPT !.fds[1].ls = Two(n, 15)]>> ELSE <<>>)])
  \o <<[CffBase EXCEPT !.names = <<Str(254, 1)>>], [CffBase EXCEPT !.names = <<Str(255, 1)>>]>>
  \o CfftHdrVals \o CfftLayVals
\* what the driver classifies (sizes, computed here, not in the harness)
CfftSizes(v) ==
  [top |-> TopDictLen(v), cid |-> v.fds # <<>>,
   priv |-> IF v.fds = <<>> THEN <<Len(PrivDictBytes(v.priv, v.hasLs))>> ELSE [i \in 1 .. Len(v.fds) |-> Len(PrivDictBytes(v.fds[i].priv, v.fds[i].hasLs))],
   subrs |-> IF v.fds = <<>> THEN <<v.hasLs>> ELSE [i \in 1 .. Len(v.fds) |-> v.fds[i].hasLs],
   fd |-> [i \in 1 .. Len(v.fds) |-> Len(EncDict(FdEntries(v.fds[i], 0, 0)))],
   nstrs |-> Len(v.strs),
   sids |-> MapS(SelectSeq(v.top, LAMBDA e : e.op \in SidOps), LAMBDA e : e.args[1].v),
   data |-> [names |-> IndexData(v.names), strs |-> IndexData(v.strs), gs |-> IndexData(v.gs), cs |-> IndexData(v.cs),
             ls |-> IF v.fds = <<>> THEN IndexData(v.ls) ELSE IndexData(v.fds[1].ls)],
   charset |-> IF v.sids = <<>> THEN "predefined" ELSE "format0",
   lay |-> v.lay,
   hdr |-> [size |-> HdrLen(v.hdr), minor |-> v.hdr.minor, offSize |-> v.hdr.offSize,
            pad |-> IF v.hdr.pad = <<>> THEN "none" ELSE IF Len(v.hdr.pad) >= 2 /\ v.hdr.pad[1] = 0 /\ v.hdr.pad[2] = 0 THEN "reads-as-empty-index"
                    ELSE IF \A i \in 1 .. Len(v.hdr.pad) : v.hdr.pad[i] = 0 THEN "zero" ELSE "other"]]

---------------------------------------------------------------------------
Kinds == <<"head", "hhea", "maxp", "hmtx", "cvt", "loca", "os2", "post", "name", "cmapsub", "cmap", "glyph", "glyphp",
           "cffint", "dict", "index", "indexo", "charset", "encoding", "fdselect", "ivs", "ivd", "ivr", "cfft">>
\* the positional families are appended: the indexes of the older values (and the case ids) do not move
Vals(k) ==
  CASE k = "head" -> HeadVals [] k = "hhea" -> HheaVals [] k = "maxp" -> MaxpVals [] k = "hmtx" -> HmtxVals \o HmtxPos
    [] k = "cvt" -> CvtVals [] k = "loca" -> LocaVals \o LocaPos [] k = "os2" -> Os2Vals \o Os2Pos
    [] k = "post" -> PostVals \o PostPos [] k = "name" -> NameVals \o NamePos
    [] k = "cmapsub" -> CmapSubVals \o <<CmapSeg32768>> \o CmapSubPos [] k = "cmap" -> CmapVals \o CmapTblPos
    [] k = "glyph" -> GlyphVals \o GlyphInstrPos \o GlyphCompPos \o SimplePos \o GlyphCompProduct [] k = "glyphp" -> GlyphPackedVals
    [] k = "cffint" -> CffIntVals [] k = "dict" -> DictVals \o DictPos [] k = "index" -> IndexVals \o IndexPos
    [] k = "indexo" -> IndexOwnedVals \o IndexOwnedPos [] k = "charset" -> CharsetVals \o CharsetPos
    [] k = "encoding" -> EncodingVals \o EncodingPos [] k = "fdselect" -> FdSelectVals \o FdSelectPos
    [] k = "ivs" -> IvsVals \o IvsPos [] k = "ivd" -> IvdVals [] k = "ivr" -> IvrVals [] k = "cfft" -> CfftVals
NVals == [i \in 1 .. Len(Kinds) |-> Len(Vals(Kinds[i]))]

\* two steps: the first enumerates the cases (cheap, one worker), the second is taken for every case by whichever
\* worker dequeues it, and the invariants - all the work - are evaluated on the state it leads to
Init == kind = "" /\ idx = 0 /\ done = 0
Next == \/ /\ done = 0 /\ done' = 1
           /\ \E i \in 1 .. Len(Kinds) : kind' = Kinds[i] /\ idx' \in 1 .. NVals[i]
        \/ /\ done = 1 /\ done' = 2 /\ UNCHANGED <<kind, idx>>
Spec == Init /\ [][Next]_vars

V == Vals(kind)[idx]
Small(bs) == Len(bs) <= 4000

---------------------------------------------------------------------------
\* expectations
OkExp(bytes, back) == [res |-> "Ok", bytes |-> bytes, back |-> back]
ErrExp == [res |-> "Err", bytes |-> <<>>, back |-> <<>>]

\* object i of a generated INDEX is filled with byte i (mod 251, never 0)
Fill(i) == 1 + (i % 250)
ObjsOf(lens) == [i \in 1 .. Len(lens) |-> Obj(lens[i], Fill(i))]
\* what can be said of an object without shipping it: length, first and last byte, byte sum mod 65521
ObjFacts(lens) == [i \in 1 .. Len(lens) |->
                     IF lens[i] = 0 THEN <<0, 0, 0, 0>>
                     ELSE <<lens[i], Fill(i), Fill(i), ((lens[i] % 65521) * Fill(i)) % 65521>>]

Case ==
  LET v == V IN
  IF kind \in TableKinds THEN
    [k |-> kind, id |-> idx, v |-> v,
     exp |-> IF TRefuse(kind, v) THEN ErrExp ELSE OkExp(TEnc(kind, v), TNormalise(kind, v))]
  ELSE IF kind = "glyphp" THEN      \* the packed bytes are parsed (back1), written (bytes) and parsed again (back)
    [k |-> kind, id |-> idx, v |-> v, src |-> EncGlyphPacked(v),
     exp |-> [res |-> "Ok", bytes |-> EncGlyph(v), back |-> NormGlyph(v), back1 |-> v]]
  ELSE IF kind = "cffint" THEN
    [k |-> kind, id |-> idx, v |-> v, exp |-> OkExp(EncOperand(v), I(v.v))]
  ELSE IF kind = "dict" THEN
    LET rd == ReadNormDict(v.entries) IN
    [k |-> kind, id |-> idx, v |-> [kind |-> v.kind, entries |-> rd],
     src |-> EncDictForm(v.entries, v.form),
     exp |-> [res |-> "Ok", bytes |-> EncDict(NormDict(v.kind, rd)), back |-> NormDict(v.kind, rd),
              back1 |-> rd, dk |-> v.kind]]
  ELSE IF kind = "index" THEN
    LET objs == ObjsOf(v.lens)  bs == EncIndex(objs, v.sz, v.c32) IN
    [k |-> kind, id |-> idx, v |-> [objs |-> objs, c32 |-> v.c32], src |-> bs,
     exp |-> [res |-> "Ok", bytes |-> bs, back |-> objs, c32 |-> v.c32]]
  ELSE IF kind = "indexo" THEN
    LET offs == IndexOffsets(v.lens) IN
    [k |-> kind, id |-> idx, v |-> [lens |-> v.lens, fill |-> [i \in 1 .. Len(v.lens) |-> Fill(i)]],
     exp |-> [res |-> "Ok", count |-> Len(v.lens),
              offSize |-> IF v.lens = <<>> THEN 0 ELSE MinOffSize(offs[Len(offs)]),
              offsets |-> IF v.lens = <<>> THEN <<>> ELSE offs, objs |-> ObjFacts(v.lens)]]
  ELSE IF kind = "charset" THEN
    [k |-> kind, id |-> idx, v |-> v, n |-> CharsetCovered(v) + 1, exp |-> OkExp(EncCharset(v), v)]
  ELSE IF kind = "encoding" THEN
    [k |-> kind, id |-> idx, v |-> v, exp |-> IF EncodingRefuse(v) THEN ErrExp ELSE OkExp(EncEncoding(v), v)]
  ELSE IF kind = "fdselect" THEN
    [k |-> kind, id |-> idx, v |-> v, n |-> IF v.fmt = 0 THEN Len(v.fds) ELSE v.sentinel,
     exp |-> IF FdSelectRefuse(v) THEN ErrExp ELSE OkExp(EncFdSelect(v), v)]
  ELSE IF kind = "ivd" THEN      \* one layout: the bytes are parsed, written (must be the same bytes) and parsed again
    [k |-> kind, id |-> idx, v |-> v, src |-> EncIvsData(v),
     exp |-> [res |-> "Ok", bytes |-> EncIvsData(v), rows |-> IvdRows(v, v.items + 3), probes |-> v.items + 3]]
  ELSE IF kind = "ivr" THEN
    [k |-> kind, id |-> idx, v |-> v, src |-> EncIvsRegions(v),
     exp |-> [res |-> "Ok", bytes |-> EncIvsRegions(v), nreg |-> Len(v.regions)]]
  ELSE IF kind = "cfft" THEN     \* the value stays here: the bytes, the facts a reader reports and the size classes go out
    [k |-> kind, id |-> idx, v |-> CfftSizes(v), src |-> EncCff(v),
     exp |-> [res |-> "Ok", facts |-> CffFacts(v)]]
  ELSE \* ivs
    [k |-> kind, id |-> idx, v |-> v, src |-> EncIVS(v), exp |-> OkExp(EncIVS(v), v)]

EmitCase == done = 2 => PrintT(<<"CASE", ToJson(Case)>>)

---------------------------------------------------------------------------
\* laws of the specification itself
TableOK(k, v) ==
  /\ TInFormat(k, v)
  /\ TNormalise(k, TNormalise(k, v)) = TNormalise(k, v)
  /\ TInFormat(k, TNormalise(k, v))
  /\ (TRefuse(k, v) = TRefuse(k, TNormalise(k, v)))
  /\ ~TRefuse(k, v) =>
       LET bs == TEnc(k, v) IN
       /\ IsBytes(bs)
       /\ Small(bs) => /\ TDec(k, bs, v) = TNormalise(k, v)
                       /\ TEnc(k, TNormalise(k, v)) = bs                  \* writing is stable
  /\ (k = "os2" /\ ~TRefuse(k, v)) => Len(TEnc(k, v)) = Os2Size(v) /\ Os2WrittenVersion(v) = NormOs2(v).version
  /\ (k = "cmapsub" /\ ~TRefuse(k, v)) => Len(TEnc(k, v)) = CmapLen(v)

IntOK(a) ==
  /\ OperandOk(a)
  /\ LET bs == EncOperand(a)  tk == Tok(bs, 0) IN
     /\ tk.t = "i" /\ tk.v = a.v /\ tk.n = Len(bs)
     /\ Len(bs) = (IF a.t = "o" THEN 5 ELSE IntSize(a.v))
     /\ IntSize(a.v) \in Dev_IntEncoding(a.v)
     /\ \A f \in Dev_IntEncoding(a.v) : LET b2 == EncIntForm(a.v, f)  t2 == Tok(b2, 0) IN
                                         t2.t = "i" /\ t2.v = a.v /\ t2.n = Len(b2) /\ Len(b2) = f

DictOKc(v) ==
  LET rd == ReadNormDict(v.entries)  nd == NormDict(v.kind, rd) IN
  /\ DictOk(v.entries)
  /\ EntriesEq(DecDict(EncDictForm(v.entries, v.form)), rd)  \* every integer form reads back
  /\ EntriesEq(DecDict(EncDict(rd)), rd)
  /\ EntriesEq(DecDict(EncDict(nd)), nd)
  /\ EntriesEq(NormDict(v.kind, nd), nd)                      \* idempotent
  /\ EntriesEq(ReadNormDict(rd), rd)
  /\ DictWrittenOk(v.kind, rd, nd) /\ DictWrittenOk(v.kind, rd, rd)
  /\ \A i \in 1 .. Len(nd) : ~IsDefault(v.kind, nd[i])

IndexOK(v) ==
  LET objs == ObjsOf(v.lens)  offs == IndexOffsets(v.lens)  last == offs[Len(offs)] IN
  /\ (v.lens # <<>> => v.sz \in Dev_OffSize(last))
  /\ LET d == DecIndex(EncIndex(objs, v.sz, v.c32), v.c32) IN
     d.ok /\ d.objs = objs /\ d.size = Len(EncIndex(objs, v.sz, v.c32))
  /\ MinOffSize(255) = 1 /\ MinOffSize(256) = 2 /\ MinOffSize(65535) = 2 /\ MinOffSize(65536) = 3
  /\ MinOffSize(16777215) = 3 /\ MinOffSize(16777216) = 4

OtherOK ==
  CASE kind = "charset" -> CharsetInFormat(V) /\ DecCharset(EncCharset(V), CharsetCovered(V) + 1) = V
    [] kind = "encoding" -> EncodingInFormat(V) /\ (~EncodingRefuse(V) => DecEncoding(EncEncoding(V)) = V)
    [] kind = "fdselect" -> FdSelectInFormat(V) /\ (~FdSelectRefuse(V) /\ Small(EncFdSelect(V)) =>
                               DecFdSelect(EncFdSelect(V), IF V.fmt = 0 THEN Len(V.fds) ELSE V.sentinel) = V)
    [] kind = "ivs" -> IvsInFormat(V) /\ ~IvsRefuse(V) /\ DecIVS(EncIVS(V)) = [ok |-> TRUE, v |-> V]
    [] kind = "indexo" -> TRUE
    [] kind = "ivd" -> LET d == DecIvsData(EncIvsData(V)) IN
                       /\ IsU16(V.items) /\ IsU16(V.wdc) /\ Len(V.deltas) = V.items * IvsRowLen(V)
                       /\ d.ok /\ d.v = V /\ d.size = Len(EncIvsData(V))
                       \* the flag doubles the row, the count does not carry it
                       /\ (V.wdc >= 32768 => IvsRowLen(V) = 2 * IvsRowLen([V EXCEPT !.wdc = @ - 32768]))
    [] kind = "ivr" -> DecIvsRegions(EncIvsRegions(V)) = V /\ Len(EncIvsRegions(V)) = 4 + 6 * V.axes * Len(V.regions)
    [] kind = "cfft" -> LET bs == EncCff(V)  d == DecCff(bs) IN
                        /\ IsBytes(bs) /\ d.ok /\ CffEq(d.v, V)
                        /\ d.topLen = TopDictLen(V) /\ d.topOffSize = MinOffSize(TopDictLen(V) + 1)
                        /\ CffFacts(d.v) = CffFacts(V)
                        \* the header: read back in full; without the skipped bytes the same table, every offset smaller by their number
                        /\ HdrOk(V.hdr) /\ d.v.hdr = V.hdr /\ HdrWrittenOk(V.hdr, V.hdr) /\ HdrWrittenOk(V.hdr, NormHdr(V.hdr))
                        \* Dev_CffLayout: the other layout of the same value is read as the same value, and is longer by its gaps
                        /\ (V.lay = 1 => LET ob == EncCff([V EXCEPT !.lay = 0])  od == DecCff(ob) IN
                                         /\ od.ok /\ CffEq(od.v, d.v) /\ CffFacts(od.v) = CffFacts(d.v) /\ ob # bs
                                         /\ Len(bs) = Len(ob) + 3 * (IF V.fds = <<>> THEN 4 ELSE 6))
                        /\ (V.hdr.pad # <<>> =>
                              LET nv == [V EXCEPT !.hdr = NormHdr(@)]  nb == EncCff(nv)  nd == DecCff(nb) IN
                              /\ ~HdrWrittenOk(V.hdr, [V.hdr EXCEPT !.pad = <<0>> \o @])
                              /\ Len(nb) = Len(bs) - Len(V.hdr.pad) /\ nb[3] = 4 /\ nd.ok /\ CffEq(nd.v, V) /\ nd.v.hdr.pad = <<>>
                              \* announcing the skipped bytes without writing them does not give the table back
                              /\ LET bad == DecCff([nb EXCEPT ![3] = bs[3]]) IN ~bad.ok \/ ~CffEq(bad.v, V))
                        /\ DictOk(V.top) /\ DictOk(V.priv) /\ \A i \in 1 .. Len(V.fds) : DictOk(V.fds[i].fd) /\ DictOk(V.fds[i].priv)

\* a glyph in a foreign packing: in format, packed as its flags say, of the size the fields add up to, and
\* the writer's own packing of it decodes to the normalised value
PackedOKc(v) ==
  /\ GlyphInFormat(v) /\ ~GlyphRefuse(v) /\ PackedOk(v)
  /\ LET ps == EncGlyphPacked(v) IN IsBytes(ps) /\ Len(ps) = PackedSize(v)
  /\ DecGlyph(EncGlyph(v)) = NormGlyph(v)
  /\ EncGlyph(NormGlyph(v)) = EncGlyph(v)

CodecOK ==
  done = 2 =>
  IF kind \in TableKinds THEN TableOK(kind, V)
  ELSE IF kind = "glyphp" THEN PackedOKc(V)
  ELSE IF kind = "cffint" THEN IntOK(V)
  ELSE IF kind = "dict" THEN DictOKc(V)
  ELSE IF kind = "index" THEN IndexOK(V)
  ELSE OtherOK

\* the integer law on the whole range named by the design, checked once
ASSUME \A x \in -40000 .. 40000 : LET bs == EncIntOp(x)  tk == Tok(bs, 0) IN
                                  tk.t = "i" /\ tk.v = x /\ tk.n = Len(bs) /\ Len(bs) = IntSize(x)
=============================================================================
