CONSTANTS
  Thorough = FALSE
SPECIFICATION Spec
INVARIANTS CodecOK EmitCase
CHECK_DEADLOCK FALSE
