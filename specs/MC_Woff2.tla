------------------------------ MODULE MC_Woff2 ------------------------------
(***************************************************************************)
(* Bounded check of the WOFF2 rules in Woff2.tla and generator of replay   *)
(* cases (spec -> impl).  Generator pattern: Init picks a case, one step   *)
(* sets `done`, the invariant then                                         *)
(*   - checks the design lemma that belongs to the case (Decode o Encode   *)
(*     identities, cursor discipline of the stream machine, table shape);  *)
(*   - prints one CASE line with the input bytes / abstract font and the   *)
(*     result the specification prescribes.                                *)
(* A lemma that fails here is an error of the SPECIFICATION (tool error).  *)
(*                                                                         *)
(* Case kinds                                                              *)
(*   b128   byte patterns and boundary values for UIntBase128              *)
(*   u255   one block of 256 values, every alternative encoding            *)
(*   trip   one dx against every dy of the domain, every table entry that  *)
(*          can carry the pair (one glyph of one point per vector)         *)
(*   font   abstract glyph set x metrics x encoder choices (one or two     *)
(*          fonts in the file).  Besides the product over the glyph pool   *)
(*          there are the SIZE BOUNDARY families (section "boundaries"):   *)
(*          bm    every glyph count 0..130 (bboxBitmap length rule)        *)
(*          ng    glyph counts around the 32-glyph bitmap word, explicit   *)
(*                bounding boxes in the first / last word / nowhere        *)
(*          u16b  contour sizes and instruction lengths at the 255UInt16   *)
(*                code boundaries 252/253, 505/506, 508/509, 761/762       *)
(*          nc    glyphs of 127..300 contours (nContour / nPoints streams) *)
(*          loca  rebuilt glyf of 131068 / 131070 / 131072 bytes           *)
(*          cp    composite glyphs of 1..3 components: the POSITION of     *)
(*                every per-component property varies (instruction flag on *)
(*                every subset of the components, argument width and       *)
(*                signedness, transform kind, the other flag bits)         *)
(*   dir    table directory (+ collection directory) byte strings          *)
(***************************************************************************)
EXTENDS Woff2, Json, TLC, SequencesExt

CONSTANTS Tier          \* "quick" or "thorough"

VARIABLES c, done
vars == <<c, done>>

Quick == Tier = "quick"
SeqsOf(A, n) == [1 .. n -> A]

---------------------------------------------------------------------------
\* b128
B128His == {0, 1, 2, 31, 32, 33, 511, 512, 4095, 4096, 16383, 16384, 32767, 32768, 65535}
B128Los == {0, 1, 127, 128, 129, 16383, 16384, 16385, 32768, 65535}
B128Alpha == {0, 1, 127, 128, 129, 143, 144, 255}
B128Alpha6 == {0, 127, 128, 129, 143}
\* a case = all patterns of one length with one first byte
B128PatCases == {<<"b128", n, f>> : n \in 1 .. 5, f \in B128Alpha} \cup {<<"b128", 6, f>> : f \in B128Alpha6}
                \cup {<<"b128", 0, 0>>}
B128Vectors(n, f) ==
  IF n = 0 THEN {EncB128(<<h, l>>) : h \in B128His, l \in B128Los} \cup {<<>>}
  ELSE LET A == IF n = 6 THEN B128Alpha6 ELSE B128Alpha IN
       {<<f>> \o r : r \in SeqsOf(A, n - 1)}
B128Case(n, f) ==
  LET V == B128Vectors(n, f) IN
  [ok |-> IF n = 0 THEN \A h \in B128His, l \in B128Los : B128RoundTrip(<<h, l>>) ELSE TRUE,
   json |-> [kind |-> "b128", id |-> <<n, f>>,
             vec |-> SetToSeq({[b |-> p, exp |-> DecB128At(p, 0)] : p \in V})]]

\* u255
U255Case(blk) ==
  LET Vs == (256 * blk) .. (256 * blk + 255)
      good == UNION {Enc255All(v) : v \in Vs}
      trunc == IF blk = 0 THEN {<<>>, <<253>>, <<253, 7>>, <<254>>, <<255>>} ELSE {}
      extra == {e \o <<170>> : e \in {Enc255Form(256 * blk + 9, "c253")}}
  IN [ok |-> \A v \in Vs : U255RoundTrip(v),
      json |-> [kind |-> "u255", id |-> <<blk>>,
                vec |-> SetToSeq({[b |-> p, exp |-> Dec255At(p, 0)] : p \in good \cup trunc \cup extra})]]

\* trip
TripMags == {15, 16, 17, 31, 32, 33, 47, 48, 49, 63, 64, 65, 255, 256, 257, 511, 512, 513, 767, 768, 769,
             1023, 1024, 1025, 1279, 1280, 1281, 4095, 4096, 4097, 32767}
TripSmall == IF Quick THEN (-20) .. 20 ELSE (-70) .. 70
TripD == TripSmall \cup TripMags \cup {-m : m \in TripMags}
\* -32768 is a legal int16 delta whose magnitude does not fit an int16: kept in cases of its own
TripVec(dx, dy) ==
  LET on == (dx + dy) % 2 IN
  {[fl |-> i + (IF on = 1 THEN 0 ELSE 128), b |-> TripletBytes(i, dx, dy), x |-> dx, y |-> dy, on |-> on]
     : i \in TripletCands(dx, dy)}
TripCase(axis, d) ==        \* axis "x": dx = d against every dy; axis "y": dy = d against every dx
  LET pairs == IF axis = "x" THEN {<<d, e>> : e \in TripD} ELSE {<<e, d>> : e \in TripD} IN
  [ok |-> /\ TripletTableShape
          /\ \A p \in pairs : TripletRoundTrip(p[1], p[2], (p[1] + p[2]) % 2),
   json |-> [kind |-> "trip", id |-> <<axis, d>>,
             vec |-> SetToSeq(UNION {TripVec(p[1], p[2]) : p \in pairs})]]
TripCases == {<<"trip", "x", d>> : d \in TripD \cup {-32768}} \cup {<<"trip", "y", -32768>>}

---------------------------------------------------------------------------
\* font: the glyph pool
P(x, y, on) == <<x, y, on>>
GEmpty == EmptyRec
GTri == [kind |-> "simple", ends |-> <<2>>, pts |-> <<P(10, 20, 1), P(300, 40, 1), P(150, 400, 1)>>,
         instr |-> <<>>, bbox |-> <<10, 20, 300, 400>>, comps |-> <<>>]
\* two contours, off-curve points, instructions, negative xMin, bbox larger than the points
GTwo == [kind |-> "simple", ends |-> <<3, 5>>,
         pts |-> <<P(-30, 0, 1), P(0, 700, 0), P(64, 700, 0), P(64, -5, 1), P(1000, 1000, 1), P(1100, 1000, 0)>>,
         instr |-> <<176, 1, 2, 255>>, bbox |-> <<-35, -5, 1100, 1001>>, comps |-> <<>>]
\* deltas that need every family of the triplet table, a one-point second contour
GBig == [kind |-> "simple", ends |-> <<6, 7>>,
         pts |-> <<P(0, 1279, 1), P(-1279, 1279, 0), P(-1270, 1270, 1), P(-1000, 800, 1), P(3000, -3000, 0),
                   P(-20000, 12000, 1), P(-20000, 12000, 1), P(5, 5, 1)>>,
         instr |-> <<7>>, bbox |-> <<-20000, -3000, 3000, 12000>>, comps |-> <<>>]
\* 0x0002 ARGS_ARE_XY_VALUES, byte arguments
GComp == [kind |-> "composite", ends |-> <<>>, pts |-> <<>>, instr |-> <<>>, bbox |-> <<5, -3, 305, 397>>,
          comps |-> <<[flags |-> 2, gid |-> 0, a1 |-> 5, a2 |-> -3, tr |-> <<>>]>>]
\* first: words + xy + scale + more (0x002B) ; second: point numbers, 2x2, instructions, use-my-metrics (0x0380)
GCompI == [kind |-> "composite", ends |-> <<>>, pts |-> <<>>, instr |-> <<64, 1, 9>>, bbox |-> <<-200, -100, 900, 800>>,
           comps |-> <<[flags |-> 43, gid |-> 0, a1 |-> -300, a2 |-> 1000, tr |-> <<8192>>],
                       [flags |-> 896, gid |-> 0, a1 |-> 3, a2 |-> 200, tr |-> <<16384, -1, 1, -16384>>]>>]
Pool == <<GEmpty, GTri, GTwo, GBig, GComp, GCompI>>

\* `meta`: 0 = no extended metadata / private data block, 1 = metadata block, 2 = metadata + private data (the
\* compressed table data is then NOT the tail of the file).  `tags`: "known" = known-tag index wherever there is one,
\* "explicit" = every table but glyf / loca / hmtx spelled out (index 63 + tag), "explicitall" = every table
\* spelled out, glyf / loca / hmtx / head / maxp / hhea included (the transform is a property of the TAG).
\* `overlap` = 1: optionFlags bit 0 set and an overlapSimpleBitmap after the instruction stream (OverlapRule).
Bundles == <<
  [trip |-> "ref", u16 |-> "short", bbox |-> "needed", order |-> "asis",    tags |-> "known",       overlap |-> 0, loca |-> 0, chunk |-> 65536,    meta |-> 0],
  [trip |-> "max", u16 |-> "word",  bbox |-> "all",    order |-> "bytag",   tags |-> "explicit",    overlap |-> 1, loca |-> 1, chunk |-> 7,        meta |-> 1],
  [trip |-> "alt", u16 |-> "alt",   bbox |-> "needed", order |-> "reverse", tags |-> "known",       overlap |-> 0, loca |-> 1, chunk |-> 1000,     meta |-> 2],
  [trip |-> "min", u16 |-> "short", bbox |-> "all",    order |-> "bytag",   tags |-> "explicitall", overlap |-> 1, loca |-> 0, chunk |-> 16777216, meta |-> 0],
  [trip |-> "ref", u16 |-> "alt",   bbox |-> "needed", order |-> "reverse", tags |-> "explicitall", overlap |-> 0, loca |-> 0, chunk |-> 4096,     meta |-> 1] >>
\* collection modes: one font / two identical fonts (everything shared) / same glyphs, other advances (glyf + loca
\* shared, hmtx not) / reversed glyph order (own glyf, loca, hmtx; same counts) /
\*   "sub"  second member with TWO MORE glyphs, another numberOfHMetrics and the other loca format (own maxp, hhea,
\*          head, hmtx, glyf, loca, cmap: a decoder must take every one of them from the member it decodes)
\*   "tri"  three members: F1, reversed, F1 with other advances (the third shares glyf + loca with the first, behind
\*          the second member's tables)
\*   "mixt" second member (reversed glyphs) stored with the OTHER glyf / loca transform version and a plain hmtx
CollModes == <<"single", "same", "hm", "other", "sub", "tri", "mixt">>
\* glyphs whose first flag carries OVERLAP_SIMPLE in the source font when a bundle asks for the overlap bitmap:
\* the simple glyphs with an odd glyph number (1-based even positions)
OverlapRule(recs, g) == IF recs[g].kind = "simple" /\ g % 2 = 0 THEN 1 ELSE 0

\* metrics of a glyph sequence under a side-bearing policy
MkFont(recs, nhm, lsbpol, advBase) ==
  LET n == Len(recs)
      xmin == [g \in 1 .. n |-> XMinOf(recs[g])]
  IN [glyphs |-> recs, nhm |-> nhm,
      adv |-> [g \in 1 .. n |-> advBase + 10 * (IF g <= nhm THEN g ELSE nhm)],
      lsb |-> [g \in 1 .. n |->
                 IF g <= nhm THEN (IF lsbpol \in {"head", "none"} THEN xmin[g] + 7 ELSE xmin[g])
                 ELSE (IF lsbpol \in {"tail", "none"} THEN (IF xmin[g] < -32000 THEN xmin[g] + 3 ELSE xmin[g] - 3)   \* stays an int16
                       ELSE xmin[g])]]

LsbPols(hf) == CASE hf = 0 -> {"none"} [] hf = 1 -> {"match", "tail"} [] hf = 2 -> {"match", "head"} [] hf = 3 -> {"match"}
\* one font case: `id` names it, `recs` is the glyph sequence, `bun` an encoder bundle, `zlen` the
\* length of the arbitrary-tag table ZZZZ of the concrete font (UIntBase128 boundary lengths)
\* two more glyphs for the second member of mode "sub": a triangle whose box is not the tight one, an empty glyph
GSubExtra == [GTri EXCEPT !.bbox = <<9, 19, 301, 400>>]
FontCaseAdv(id, recs, gt, hf, nhm, lp, bun, coll, zlen, advBase) ==
  LET F1 == MkFont(recs, nhm, lp, advBase)
      adv1 == IF advBase > 60000 THEN advBase - 100 ELSE advBase + 100
      adv2 == IF advBase > 60000 THEN advBase - 200 ELSE advBase + 200
      recs2 == recs \o <<GSubExtra, GEmpty>>
      fonts == CASE coll = "single" -> <<F1>>
                 [] coll = "same"   -> <<F1, F1>>
                 [] coll = "hm"     -> <<F1, MkFont(recs, nhm, lp, adv1)>>
                 [] coll = "other"  -> <<F1, MkFont(Reverse(recs), nhm, lp, advBase)>>
                 [] coll = "sub"    -> <<F1, MkFont(recs2, IF nhm = 1 THEN Len(recs2) ELSE 1, lp, adv2)>>
                 [] coll = "tri"    -> <<F1, MkFont(Reverse(recs), nhm, lp, advBase), MkFont(recs, nhm, lp, adv1)>>
                 [] coll = "mixt"   -> <<F1, MkFont(Reverse(recs), nhm, lp, advBase)>>
      \* per member: glyf / loca transform version, hmtx flags (0 = stored as is), head.indexToLocFormat
      fo == [k \in 1 .. Len(fonts) |->
               IF coll = "mixt" /\ k = 2 THEN [gt |-> 3 - gt, hf |-> 0, loca |-> bun.loca]
               ELSE IF coll = "sub" /\ k = 2 THEN [gt |-> gt, hf |-> hf, loca |-> 1 - bun.loca]
               ELSE [gt |-> gt, hf |-> hf, loca |-> bun.loca]]
      ch == [trip |-> bun.trip, u16 |-> bun.u16, bbox |-> bun.bbox]
      \* per font: streams, their decoding, the transformed tables
      X(f, o) ==
              LET n == Len(f.glyphs)
                  S == EncGlyf(f.glyphs, ch)
                  D == DecAll(S, n)
                  xmin == [g \in 1 .. n |-> XMinOf(f.glyphs[g])]
                  tail == IF bun.overlap = 1 THEN OverlapBytes([g \in 1 .. n |-> OverlapRule(f.glyphs, g)]) ELSE <<>>
                  tbl == GlyfTableBytes(S, n, o.loca, bun.overlap, tail)
                  hb == IF o.hf = 0 THEN <<>> ELSE EncHmtx(o.hf, n, f.nhm, f.adv, f.lsb)
                  hd == IF o.hf = 0 THEN [ok |-> TRUE, adv |-> f.adv, lsb |-> f.lsb]
                        ELSE DecHmtx(hb, n, f.nhm, [g \in 1 .. n |-> XMinOf(D.recs[g])])
              IN [ok |-> /\ D.ok /\ D.recs = f.glyphs                 \* Decode o Encode = identity
                         /\ D.cur = EndCur(S)                          \* every stream consumed exactly
                         /\ \A g \in 1 .. n :                           \* cursor discipline
                              StepDiscipline(IF g = 1 THEN Cur0 ELSE D.curs[g - 1], D.curs[g], D.recs[g])
                         /\ Len(S.nc) = 2 * n /\ Len(S.bm) = BitmapLen(n)
                         /\ Len(tail) = (IF bun.overlap = 1 THEN OverlapLen(n) ELSE 0)
                         \* the overlap bitmap is outside the seven streams: the table parses to the same streams with it
                         /\ LET pg == ParseGlyfTable(tbl) IN pg.ok /\ pg.S = S /\ pg.n = n /\ pg.optionFlags = bun.overlap
                         /\ (o.hf # 0 => o.gt = 0 /\ HmtxAllowed(o.hf, n, f.nhm, f.lsb, xmin))
                         /\ hd.ok /\ hd.adv = f.adv /\ hd.lsb = f.lsb   \* lsb[g] = xMin[g] for g >= numHMetrics too
                         /\ (o.hf # 0 => Len(hb) = 1 + 2 * f.nhm + (IF o.hf % 2 = 0 THEN 2 * f.nhm ELSE 0)
                                                 + (IF o.hf \div 2 = 0 THEN 2 * (n - f.nhm) ELSE 0)),
                  xglyf |-> IF o.gt = 0 THEN tbl ELSE <<>>, xhmtx |-> hb]
      R == [k \in 1 .. Len(fonts) |-> X(fonts[k], fo[k])]
  IN [ok |-> \A k \in DOMAIN R : R[k].ok,
      json |-> [kind |-> "font", id |-> id,
                fonts |-> fonts,          \* input = expected reconstruction (identity checked above)
                diff |-> <<>>,            \* no untransformed table may differ from its original
                ch |-> [glyf |-> gt, hmtx |-> hf, trip |-> bun.trip, u16 |-> bun.u16, bbox |-> bun.bbox,
                        order |-> bun.order, tags |-> bun.tags, overlap |-> bun.overlap, loca |-> bun.loca,
                        chunk |-> bun.chunk, coll |-> coll, zlen |-> zlen, meta |-> bun.meta,
                        fgt |-> [k \in DOMAIN fo |-> fo[k].gt], fhf |-> [k \in DOMAIN fo |-> fo[k].hf],
                        floca |-> [k \in DOMAIN fo |-> fo[k].loca]],
                xglyf |-> [k \in DOMAIN R |-> R[k].xglyf],
                xhmtx |-> [k \in DOMAIN R |-> R[k].xhmtx]]]

FontCaseOf(id, recs, gt, hf, nhm, lp, bun, coll, zlen) == FontCaseAdv(id, recs, gt, hf, nhm, lp, bun, coll, zlen, 500)

FontCase(p) ==
  LET s == p[2] IN
  FontCaseOf(<<s, p[3], p[4], p[5], p[6], p[7], p[8]>>, [k \in 1 .. Len(s) |-> Pool[s[k]]],
             p[3], p[4], p[5], p[6], Bundles[p[7]], CollModes[p[8]], 13)

---------------------------------------------------------------------------
\* boundaries: families of font cases that sit on the size-dependent edges of the decoder.  Every
\* parameter that is not the subject of a family is picked by a deterministic mix, so that encoder
\* bundles, hmtx flags, numberOfHMetrics, collection modes and ZZZZ lengths rotate through the family.
LsbPolSeq(hf) == CASE hf = 0 -> <<"none">> [] hf = 1 -> <<"match", "tail">> [] hf = 2 -> <<"match", "head">> [] hf = 3 -> <<"match">>
ZLens == <<13, 127, 128, 16383, 16384>>           \* UIntBase128 of 1, 1, 2, 2, 3 bytes
Pick(seq, k) == seq[1 + (k % Len(seq))]

\* tiny glyphs: one point, tight box / one point, a box that is NOT the tight one (needs an explicit
\* bounding box) / a composite (always explicit)
GDot(j)    == [kind |-> "simple", ends |-> <<0>>, pts |-> <<P(j, 2 * j + 1, 1)>>, instr |-> <<>>,
               bbox |-> <<j, 2 * j + 1, j, 2 * j + 1>>, comps |-> <<>>]
GDotB(j)   == [GDot(j) EXCEPT !.bbox = <<j - 2, 2 * j, j + 1, 2 * j + 3>>]
GCompAt(j) == [GComp EXCEPT !.bbox = <<j, -j, 300 + j, 400>>]

\* glyph numbers (1-based) that carry an explicit bounding box
NgPlaces == <<"none", "first", "last", "both", "edge">>
NgPos(n, place) == CASE place = "none"  -> {}
                     [] place = "first" -> {IF n >= 3 THEN 3 ELSE 1}
                     [] place = "last"  -> {n}
                     [] place = "both"  -> {1, n}
                     [] place = "edge"  -> {g \in {32, 33, 64, 65} : g <= n}   \* last bit of a word, first bit of the next
NgRecs(n, place, kind, filler) ==
  [g \in 1 .. n |-> IF g \in NgPos(n, place) THEN (IF kind = "comp" THEN GCompAt(g) ELSE GDotB(g))
                    ELSE IF filler = "empty" THEN GEmpty ELSE GDot(g)]
NgCounts == IF Quick THEN {31, 32, 33, 63, 64, 65} ELSE {1, 2, 31, 32, 33, 63, 64, 65, 95, 96, 97, 127, 128, 129, 160}
\* <<"ng", n, place number, kind, filler, bbox policy>>
NgParams == {<<"ng", n, pl, kd, fi, bb>> : n \in NgCounts, pl \in 1 .. Len(NgPlaces), kd \in {"comp", "simple"},
                                           fi \in {"empty", "dot"}, bb \in {"needed", "all"}}
NgInit == \E q \in NgParams : (q[3] = 1 => q[4] = "comp") /\ c = q          \* no carrier: the kind does not matter
NgCase(p) ==
  LET n == p[2]  place == NgPlaces[p[3]]
      mix == n + 3 * p[3] + (IF p[4] = "comp" THEN 0 ELSE 5) + (IF p[5] = "empty" THEN 0 ELSE 7)
      bu == IF p[6] = "needed" THEN Pick(<<1, 3, 5>>, mix) ELSE Pick(<<2, 4>>, mix)
      hf == mix % 4
      nhm0 == Pick(<<1, n - 1, n, 32, 31, 33>>, mix \div 2)
      nhm == IF nhm0 < 1 THEN 1 ELSE IF nhm0 > n THEN n ELSE nhm0
  IN FontCaseOf(<<"ng", n, place, p[4], p[5], p[6]>>, NgRecs(n, place, p[4], p[5]), 0, hf, nhm,
                Pick(LsbPolSeq(hf), mix \div 4), Bundles[bu], Pick(CollModes, mix \div 3), Pick(ZLens, mix))

\* every glyph count of 0 .. 130 (thorough: 0 .. 300) once, the only explicit bounding box on the LAST glyph; the case also
\* carries the lemma about the length rule itself (n = 0 has no font: lemma only)
BmCase(n) ==
  LET recs == NgRecs(n, "last", IF n % 2 = 0 THEN "comp" ELSE "simple", IF n % 3 = 0 THEN "dot" ELSE "empty")
      fc == FontCaseOf(<<"bm", n>>, recs, 0, 0, n, "none", Bundles[1], "single", 13)
  IN IF n = 0 THEN [ok |-> /\ BitmapLenRule(0)
                           /\ \A m \in {65503, 65504, 65505, 65535} : BitmapLenArith(m)
                           /\ BitmapLen(65504) = 8188 /\ BitmapLen(65505) = 8192 /\ BitmapLen(65535) = 8192,
                    json |-> [kind |-> "lemma", id |-> <<"bm", 0>>]]
     ELSE [ok |-> BitmapLenRule(n) /\ fc.ok, json |-> fc.json]

\* glyph with the given contour sizes and instruction length
RECURSIVE SumTo(_, _)
SumTo(cnts, k) == IF k = 0 THEN 0 ELSE cnts[k] + SumTo(cnts, k - 1)
GContours(cnts, ilen) ==
  LET np == SumTo(cnts, Len(cnts))
      pts == [j \in 1 .. np |-> P(2 * j, (j % 7) * 3 - 9, IF j % 5 = 0 THEN 0 ELSE 1)]
  IN [kind |-> "simple", ends |-> [k \in 1 .. Len(cnts) |-> SumTo(cnts, k) - 1], pts |-> pts,
      instr |-> [k \in 1 .. ilen |-> (7 * k) % 256], bbox |-> BBoxOf(pts), comps |-> <<>>]
GCompIL(ilen) == [GCompI EXCEPT !.instr = [k \in 1 .. ilen |-> (11 * k) % 256]]

\* 255UInt16 code boundaries: last one-byte value / first 255-coded, last value only 255 can carry /
\* first 254-coded, last 255-coded / first 254-only, last 254-coded / first word-only
U16Bounds == <<252, 253, 505, 506, 508, 509, 761, 762>>
U16bCase(k, bu) ==
  LET B(j) == Pick(U16Bounds, k - 1 + j)
      recs == <<GEmpty, GContours(<<B(0), B(3)>>, B(5)), GCompIL(B(6))>>
      hf == k % 4
  \* (the triplet policy is not the subject here: "ref" needs no candidate search per point)
  IN FontCaseOf(<<"u16b", B(0), B(3), B(5), B(6), bu>>, recs, 0, hf, 2 + (k % 2), Pick(LsbPolSeq(hf), k \div 4),
                [Bundles[bu] EXCEPT !.trip = "ref"], "single", Pick(ZLens, k))
U16bCases == {<<"u16b", k, bu>> : k \in 1 .. Len(U16Bounds), bu \in 1 .. 3}     \* u16 policies short, word, alt

\* many contours: the int16 nContour value needs its high byte, the nPoints stream has one entry per contour
NcCounts == IF Quick THEN {127, 128, 255, 256, 300} ELSE {1, 2, 127, 128, 129, 255, 256, 257, 300, 511, 512, 1000}
NcCase(k) ==
  LET recs == <<GContours([j \in 1 .. k |-> 1 + (IF j = k THEN 2 ELSE 0)], k % 3), GCompAt(1), GEmpty>>
      hf == k % 4
  IN FontCaseOf(<<"nc", k>>, recs, 0, hf, 1 + (k % 3), Pick(LsbPolSeq(hf), k), [Bundles[1 + (k % 4)] EXCEPT !.trip = "ref"],
                Pick(CollModes, k), 13)

\* loca short/long switch.  allsorts writes a rebuilt simple glyph as 12 + 2 * contours + instructions
\* + 5 * points bytes (padded to even): a triangle with i instruction bytes is 29 + i bytes, so two of
\* them with i = 65505 and 65505 + d give a rebuilt glyf of 131068 + d bytes.  2 * 65535 = 131070 is the
\* last size 16-bit loca offsets can express; the source font (compact coordinates) stays below it.
GInstr(i) == [GTri EXCEPT !.instr = [k \in 1 .. i |-> (13 * k) % 256]]
LocaCases == IF Quick THEN {<<"loca", 2, 0, 1>>, <<"loca", 4, 0, 3>>, <<"loca", 4, 1, 1>>}
             ELSE {<<"loca", d, l, b>> : d \in {0, 2, 4}, l \in {0, 1}, b \in {1, 3}}
LocaCase(d, l, b) ==
  FontCaseOf(<<"loca", 131068 + d, l, b>>, <<GInstr(65505), GInstr(65505 + d), GEmpty>>, 0, 1, 2, "match",
             [Bundles[b] EXCEPT !.loca = l], "single", 13)

---------------------------------------------------------------------------
\* ext: values at the ends of their fields, through the whole path (triplets of 16 + 16 bits, explicit and computed
\* bounding boxes, the rebuilt glyf records, xMin as left side bearing).  Every delta between consecutive points
\* stays inside int16 (what a glyf table can hold): 32767 and -32768 both occur as deltas and as coordinates.
GExtA == [kind |-> "simple", ends |-> <<3>>,
          pts |-> <<P(32767, -32768, 1), P(0, -1, 0), P(-32768, 32766, 1), P(-1, 32767, 1)>>,
          instr |-> <<>>, bbox |-> <<-32768, -32768, 32767, 32767>>, comps |-> <<>>]
\* the stored box is NOT the tight one (explicit), and its xMin -32768 is what an elided side bearing must become
GExtB == [kind |-> "simple", ends |-> <<0, 2>>,
          pts |-> <<P(-32767, 32767, 0), P(0, 0, 1), P(32767, -32767, 1)>>,
          instr |-> <<255, 0, 255>>, bbox |-> <<-32768, -32768, 32767, 32767>>, comps |-> <<>>]
\* component arguments, glyph indices and F2Dot14 values at the ends of their ranges, one component per argument mode
GExtC == [kind |-> "composite", ends |-> <<>>, pts |-> <<>>, instr |-> <<0>>, bbox |-> <<-32768, -32768, 32767, 32767>>,
          comps |-> <<[flags |-> 35 + 128,  gid |-> 65535, a1 |-> -32768, a2 |-> 32767, tr |-> <<-32768, 32767, 32767, -32768>>],
                      [flags |-> 33 + 64,   gid |-> 0,     a1 |-> 65535,  a2 |-> 0,     tr |-> <<32767, -32768>>],
                      [flags |-> 34 + 8,    gid |-> 65535, a1 |-> -128,   a2 |-> 127,   tr |-> <<-32768>>],
                      [flags |-> 0 + 256,   gid |-> 1,     a1 |-> 255,    a2 |-> 0,     tr |-> <<>>]>>]
ExtSeqs == << <<GExtA>>, <<GEmpty, GExtB>>, <<GExtA, GExtC, GExtB>>, <<GExtC, GEmpty, GExtA, GExtB>> >>
\* <<"ext", sequence number, bundle, hmtx flags>>; advances up to 65535
ExtInit == \E q \in 1 .. Len(ExtSeqs) : \E bu \in 1 .. Len(Bundles) : \E hf \in 0 .. 3 : c = <<"ext", q, bu, hf>>
ExtCase(p) ==
  LET recs == ExtSeqs[p[2]]  n == Len(recs)  hf == p[4]
      mix == p[2] + 2 * p[3] + 3 * hf
      \* (MkFont's advances: base + 10 g; the base 65495 puts the last long metric of a 4-glyph font on 65535)
  IN FontCaseAdv(<<"ext", p[2], p[3], hf>>, recs, 0, hf, IF mix % 2 = 0 THEN n ELSE 1, Pick(LsbPolSeq(hf), mix),
                 Bundles[p[3]], Pick(CollModes, mix), Pick(ZLens, mix), 65495)

---------------------------------------------------------------------------
\* cp: composite glyphs of k = 1..3 components in which the POSITION of every per-component property varies.
\*  - WE_HAVE_INSTRUCTIONS (bit 8) sits on the components named by the bit mask `pm` - every subset of 1..k,
\*    i.e. on no component, on the last only (what font tools write), on the first only, on a middle one, on
\*    several (WOFF2 5.1 step 3a: "if ANY of the component flags has FLAG_WE_HAVE_INSTRUCTIONS set");
\*  - component j has style (salt + stride * (j - 1)) % 16 = argument mode (bytes/words x point numbers/xy:
\*    2, 2, 4 or 4 argument bytes, unsigned or signed) + 4 * transform kind (none, scale, x/y scale, 2x2:
\*    0, 1, 2, 4 F2Dot14 values); over salt = 0..15 every position takes every style, so that a variable-length
\*    record sits before, between and after records of every other length;
\*  - the remaining flag bits (ROUND_XY_TO_GRID, USE_MY_METRICS, OVERLAP_COMPOUND, SCALED_ / UNSCALED_COMPONENT_
\*    OFFSET) rotate over the positions; MORE_COMPONENTS is set on exactly the non-last components;
\*  - the instruction length is 0 for some hinted composites (bit set, zero bytes).
\* The composite is followed by a simple glyph with instructions, a second hinted composite and a dot: a decoder
\* that mis-reads the component list or the instruction bookkeeping misaligns the glyph / composite /
\* instruction streams of everything after it.
CpTrFlag == <<0, 8, 64, 128>>
CpExtras == <<0, 4, 512, 1024, 2048, 4096, 1540, 0>>
CpComp(j, k, s, inI, ex, salt) ==
  LET words == s % 2 = 1  xy == (s \div 2) % 2 = 1  trk == s \div 4
      \* argument values that need the full width and the right signedness of their mode
      a == IF words THEN (IF xy THEN <<-300 - j, 1000 + salt>> ELSE <<300 + j, 40000 + salt>>)
           ELSE (IF xy THEN <<-100 + j, 127 - salt>> ELSE <<200 + j, 3 + salt>>)
  IN [flags |-> (s % 4) + CpTrFlag[trk + 1] + (IF j < k THEN 32 ELSE 0) + (IF inI THEN 256 ELSE 0) + ex,
      gid |-> j % 2, a1 |-> a[1], a2 |-> a[2],
      tr |-> CASE trk = 0 -> <<>>
               [] trk = 1 -> <<8192 + j>>
               [] trk = 2 -> <<-16384, 100 + salt>>
               [] trk = 3 -> <<16384, -1 - j, 1 + salt, -16384>>]
CpStyle(j, salt, stride) == (salt + stride * (j - 1)) % 16
CpRec(k, pm, salt, stride) ==
  LET ilen == IF pm = 0 \/ salt % 5 = 4 THEN 0 ELSE 3 + (salt % 3) IN
  [kind |-> "composite", ends |-> <<>>, pts |-> <<>>, instr |-> [i \in 1 .. ilen |-> (17 * i + salt) % 256],
   bbox |-> <<salt - 200, -100, 900, 800 + k>>,
   comps |-> [j \in 1 .. k |-> CpComp(j, k, CpStyle(j, salt, stride), Bit(pm, j - 1) = 1,
                                      Pick(CpExtras, salt + 3 * j), salt)]]
CpStrides == IF Quick THEN {5} ELSE {0, 1, 3, 5, 7, 11, 13}
\* <<"cp", k, pm, salt, stride>>
CpInit == \E k \in 1 .. 3 : \E pm \in 0 .. (2 ^ k - 1) : \E salt \in 0 .. 15 : \E stride \in CpStrides :
            c = <<"cp", k, pm, salt, stride>>
CpCase(p) ==
  LET k == p[2]  pm == p[3]  salt == p[4]  stride == p[5]
      rec == CpRec(k, pm, salt, stride)
      recs == <<GTri, GDot(3), rec, GTwo, GCompI, GDot(7)>>
      mix == k + 3 * pm + 5 * salt + stride
      bu == 1 + (mix % Len(Bundles))
      hf == (mix \div 2) % 4
      fc == FontCaseOf(<<"cp", k, pm, salt, stride>>, recs, 0, hf, Pick(<<6, 1, 5, 3>>, mix), Pick(LsbPolSeq(hf), mix \div 8),
                       Bundles[bu], Pick(CollModes, mix \div 3), Pick(ZLens, mix))
  IN [ok |-> fc.ok /\ CompInstrAnywhere(rec, [trip |-> Bundles[bu].trip, u16 |-> Bundles[bu].u16, bbox |-> Bundles[bu].bbox]),
      json |-> fc.json]

---------------------------------------------------------------------------
\* dir: entry templates <<tag, explicit, ver, has transformLength>>
TagNAME == KnownTags[6]
TagZZZZ == <<90, 90, 90, 90>>
TagLow  == <<97, 32, 32, 32>>
DirTemplates == <<
  [tag |-> KnownTags[1], explicit |-> FALSE, ver |-> 0],       \* cmap, known index 0
  [tag |-> TagNAME,      explicit |-> TRUE,  ver |-> 0],       \* name spelled out with index 63
  [tag |-> TagZZZZ,      explicit |-> TRUE,  ver |-> 0],       \* arbitrary tag
  [tag |-> TagGLYF,      explicit |-> FALSE, ver |-> 0],       \* transformed glyf
  [tag |-> TagGLYF,      explicit |-> FALSE, ver |-> 3],       \* null transform
  [tag |-> TagLOCA,      explicit |-> FALSE, ver |-> 0],       \* transformed loca: transformLength 0
  [tag |-> TagLOCA,      explicit |-> FALSE, ver |-> 3],
  [tag |-> TagHMTX,      explicit |-> FALSE, ver |-> 1],       \* transformed hmtx
  [tag |-> TagHMTX,      explicit |-> FALSE, ver |-> 0],
  [tag |-> KnownTags[63], explicit |-> FALSE, ver |-> 0],      \* Sill, last known index 62
  [tag |-> TagLow,       explicit |-> TRUE,  ver |-> 0] >>
DirLens == <<0, 1, 127, 128, 16383, 16384, 2097151, 2097152, 100000000, 129, 300>>
DirEntry(t, k, salt) ==
  LET tp == DirTemplates[t]
      orig == DirLens[1 + ((3 * t + 5 * k + salt) % Len(DirLens))]
      ht == HasTransformLength(tp.tag, tp.ver)
      tl == IF ~ht THEN -1 ELSE IF tp.tag = TagLOCA THEN 0 ELSE DirLens[1 + ((t + 7 * k + 2 * salt) % Len(DirLens))]
  IN [tag |-> tp.tag, explicit |-> tp.explicit, ver |-> tp.ver, orig |-> orig, tlen |-> tl]
Ttcf == <<116, 116, 99, 102>>
TrueTypeFlavor == <<0, 1, 0, 0>>
DirCase(ts, salt, cmode) ==        \* ts: sequence of template numbers; cmode: 0 none, 1.. collection with a policy
  LET n == Len(ts)
      es == [k \in 1 .. n |-> DirEntry(ts[k], k, salt)]
      bytes == Flat([k \in 1 .. n |-> EncDirEntry(es[k])])
      d == DecDirectory(bytes, n)
      pol == <<"short", "word", "alt">>[IF cmode = 0 THEN 1 ELSE cmode]
      cf == <<[flavor |-> TrueTypeFlavor, idx |-> [k \in 1 .. n |-> k - 1]],
              [flavor |-> <<79, 84, 84, 79>>, idx |-> <<n - 1>>],
              [flavor |-> TrueTypeFlavor, idx |-> [k \in 1 .. n |-> n - k]]>>
      cb == IF cmode = 0 THEN <<>> ELSE EncCollection(<<0, 2, 0, 0>>, cf, pol)
      dc == IF cmode = 0 THEN [ok |-> TRUE, fonts |-> <<>>, used |-> 0] ELSE DecCollection(cb)
  IN [ok |-> /\ d.ok /\ d.used = Len(bytes)
             /\ \A k \in 1 .. n : /\ d.entries[k].tag = es[k].tag /\ d.entries[k].orig = es[k].orig
                                  /\ d.entries[k].tlen = es[k].tlen
                                  /\ d.entries[k].off = (IF k = 1 THEN 0 ELSE d.entries[k - 1].off
                                       + (IF es[k - 1].tlen >= 0 THEN es[k - 1].tlen ELSE es[k - 1].orig))
             /\ dc.ok /\ dc.used = Len(cb) /\ (cmode # 0 => dc.fonts = cf),
      json |-> [kind |-> "dir", id |-> <<ts, salt, cmode>>, n |-> n, dir |-> bytes, coll |-> cb,
                exp |-> [entries |-> [k \in 1 .. n |-> <<d.entries[k].tag, d.entries[k].off, d.entries[k].orig, d.entries[k].tlen>>],
                         fonts |-> [f \in 1 .. Len(dc.fonts) |-> dc.fonts[f].idx]]]]
\* a directory of 300 small tables, so that collection indices need every 255UInt16 form
DirBigCase(cmode) ==
  LET n == 300
      es == [k \in 1 .. n |-> [tag |-> <<65 + (k \div 26), 97 + (k % 26), 48, 49>>, explicit |-> TRUE, ver |-> 0,
                               orig |-> k, tlen |-> -1]]
      bytes == Flat([k \in 1 .. n |-> EncDirEntry(es[k])])
      d == DecDirectory(bytes, n)
      pol == <<"short", "word", "alt">>[cmode]
      cf == <<[flavor |-> TrueTypeFlavor, idx |-> <<0, 252, 253, 254, 255, 299>>],
              [flavor |-> TrueTypeFlavor, idx |-> [k \in 1 .. 260 |-> k + 39]]>>
      cb == EncCollection(<<0, 1, 0, 0>>, cf, pol)
      dc == DecCollection(cb)
  IN [ok |-> d.ok /\ dc.ok /\ dc.fonts = cf /\ d.entries[300].off = (299 * 300) \div 2,
      json |-> [kind |-> "dir", id |-> <<<<0>>, 300, cmode>>, n |-> n, dir |-> bytes, coll |-> cb,
                exp |-> [entries |-> [k \in 1 .. n |-> <<d.entries[k].tag, d.entries[k].off, d.entries[k].orig, d.entries[k].tlen>>],
                         fonts |-> [f \in 1 .. Len(dc.fonts) |-> dc.fonts[f].idx]]]]
\* collection directories whose counts sit on the 255UInt16 code boundaries: eight fonts of
\* 252 .. 762 tables over a directory of 800 entries, and 252 / 253 / 506 fonts of one table each
DirCollCase(id, n, cf, cmode) ==
  LET es == [k \in 1 .. n |-> [tag |-> <<65 + ((k \div 26) % 26), 97 + (k % 26), 48 + (k \div 676), 49>>, explicit |-> TRUE, ver |-> 0,
                               orig |-> DirLens[1 + (k % Len(DirLens))] % 70000, tlen |-> -1]]
      bytes == Flat([k \in 1 .. n |-> EncDirEntry(es[k])])
      d == DecDirectory(bytes, n)
      cb == EncCollection(<<0, 1, 0, 0>>, cf, <<"short", "word", "alt">>[cmode])
      dc == DecCollection(cb)
  IN [ok |-> d.ok /\ d.used = Len(bytes) /\ dc.ok /\ dc.used = Len(cb) /\ dc.fonts = cf,
      json |-> [kind |-> "dir", id |-> id, n |-> n, dir |-> bytes, coll |-> cb,
                exp |-> [entries |-> [k \in 1 .. n |-> <<d.entries[k].tag, d.entries[k].off, d.entries[k].orig, d.entries[k].tlen>>],
                         fonts |-> [f \in 1 .. Len(dc.fonts) |-> dc.fonts[f].idx]]]]
DirTablesCase(cmode) ==
  DirCollCase(<<<<1>>, 800, cmode>>, 800,
              [f \in 1 .. Len(U16Bounds) |-> [flavor |-> TrueTypeFlavor, idx |-> [k \in 1 .. U16Bounds[f] |-> k - 1 + f]]], cmode)
DirFontsCase(nf, cmode) ==
  DirCollCase(<<<<2>>, nf, cmode>>, 5,
              [f \in 1 .. nf |-> [flavor |-> TrueTypeFlavor, idx |-> <<f % 5>>]], cmode)
\* every known-tag index 0 .. 62 in ONE directory (the flag byte alone names the tag), in index order / reversed,
\* and the same 63 tags spelled out with index 63; glyf / loca transformed or not, hmtx transformed.  The expected
\* tags come from KnownTags (transcribed from the table of the recommendation, section 4.1), so a known-tag table
\* of a decoder with two entries exchanged (feat / Feat, bdat / bloc ...) contradicts it whatever fonts are sampled.
DirKnownCase(m) ==
  LET n == 63
      K(k) == IF m = 2 THEN 64 - k ELSE k
      es == [k \in 1 .. n |->
              LET tag == KnownTags[K(k)]
                  ver == IF IsGlyfLoca(tag) THEN (IF m = 3 THEN 3 ELSE 0) ELSE IF tag = TagHMTX /\ m # 3 THEN 1 ELSE 0
              IN [tag |-> tag, explicit |-> (m = 4), ver |-> ver, orig |-> 10 + K(k),
                  tlen |-> IF ~HasTransformLength(tag, ver) THEN -1 ELSE IF tag = TagLOCA THEN 0 ELSE 40 + K(k)]]
      bytes == Flat([k \in 1 .. n |-> EncDirEntry(es[k])])
      d == DecDirectory(bytes, n)
  IN [ok |-> /\ d.ok /\ d.used = Len(bytes)
             /\ \A k \in 1 .. n : d.entries[k].tag = KnownTags[K(k)] /\ d.entries[k].orig = 10 + K(k)
             /\ (m # 4 => Len(bytes) = 63 + 63 + (IF m = 3 THEN 0 ELSE 3))     \* one flag byte + one length byte (+ transformLength)
             /\ Cardinality({KnownTags[k] : k \in 1 .. 63}) = 63,
      json |-> [kind |-> "dir", id |-> <<<<3>>, m, 0>>, n |-> n, dir |-> bytes, coll |-> <<>>,
                exp |-> [entries |-> [k \in 1 .. n |-> <<d.entries[k].tag, d.entries[k].off, d.entries[k].orig, d.entries[k].tlen>>],
                         fonts |-> <<>>]]]
DirCases ==
  {<<"dir", ts, salt, cm>> : ts \in UNION {SeqsOf(1 .. Len(DirTemplates), n) : n \in 1 .. (IF Quick THEN 2 ELSE 3)},
                             salt \in 0 .. (IF Quick THEN 1 ELSE 2), cm \in 0 .. 3}
  \cup {<<"dirbig", cm>> : cm \in 1 .. 3}
  \cup {<<"dirtables", cm>> : cm \in 1 .. 3}
  \cup {<<"dirfonts", nf, cm>> : nf \in {252, 253, 506}, cm \in 1 .. 3}
  \cup {<<"dirknown", m>> : m \in 1 .. 4}

---------------------------------------------------------------------------
CaseResult(p) ==
  CASE p[1] = "b128"   -> B128Case(p[2], p[3])
    [] p[1] = "u255"   -> U255Case(p[2])
    [] p[1] = "trip"   -> TripCase(p[2], p[3])
    [] p[1] = "font"   -> FontCase(p)
    [] p[1] = "dir"    -> DirCase(p[2], p[3], p[4])
    [] p[1] = "dirbig" -> DirBigCase(p[2])
    [] p[1] = "dirtables" -> DirTablesCase(p[2])
    [] p[1] = "dirfonts"  -> DirFontsCase(p[2], p[3])
    [] p[1] = "ng"     -> NgCase(p)
    [] p[1] = "bm"     -> BmCase(p[2])
    [] p[1] = "u16b"   -> U16bCase(p[2], p[3])
    [] p[1] = "nc"     -> NcCase(p[2])
    [] p[1] = "loca"   -> LocaCase(p[2], p[3], p[4])
    [] p[1] = "cp"     -> CpCase(p)
    [] p[1] = "ext"    -> ExtCase(p)
    [] p[1] = "dirknown" -> DirKnownCase(p[2])

\* glyph sequences up to MaxLen; up to FullLen every bundle x collection mode, beyond that one of
\* each chosen by a mix of the other parameters; beyond ThinLen also only one hmtx flag value
MaxLen  == IF Quick THEN 3 ELSE 4
FullLen == IF Quick THEN 1 ELSE 2
ThinLen == 3

\* hmtx transform only together with the glyf transform; side-bearing policies that make the
\* chosen hmtx flags legal
FontInit ==
  \E n \in 1 .. MaxLen : \E s \in SeqsOf(1 .. Len(Pool), n) :
  \E gt \in {0, 3} :
  LET mix0 == s[1] + 3 * s[n] + 2 * s[(n + 1) \div 2] + n IN
  \E hf \in (IF gt = 3 THEN {0} ELSE IF n > ThinLen THEN {mix0 % 4} ELSE 0 .. 3) :
  \E nhm \in {k \in {1, n - 1, n} : k >= 1} : \E lp \in LsbPols(hf) :
  LET mix == s[1] + 3 * s[n] + 5 * hf + 7 * nhm + n IN
  \E bu \in (IF n > FullLen THEN {1 + (mix % Len(Bundles))} ELSE 1 .. Len(Bundles)) :
  \E co \in (IF n > FullLen THEN {1 + ((mix \div 4) % Len(CollModes))} ELSE 1 .. Len(CollModes)) :
    c = <<"font", s, gt, hf, nhm, lp, bu, co>>

Init ==
  /\ done = FALSE
  /\ \/ c \in B128PatCases
     \/ c \in {<<"u255", b>> : b \in 0 .. 255}
     \/ c \in TripCases
     \/ FontInit
     \/ NgInit
     \/ c \in {<<"bm", n>> : n \in 0 .. (IF Quick THEN 130 ELSE 300)}
     \/ c \in U16bCases
     \/ c \in {<<"nc", k>> : k \in NcCounts}
     \/ c \in LocaCases
     \/ CpInit
     \/ ExtInit
     \/ c \in DirCases

Next == ~done /\ done' = TRUE /\ c' = c
Spec == Init /\ [][Next]_vars

\* design lemma of the case + CASE line
CaseInv ==
  done => LET r == CaseResult(c) IN
          /\ r.ok
          /\ PrintT(<<"CASE", ToJson(r.json)>>)
=============================================================================
