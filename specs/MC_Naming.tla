----------------------------- MODULE MC_Naming -----------------------------
(***************************************************************************)
(* Bounded exhaustive exploration of Naming and generator of replay cases  *)
(* (spec -> impl) for X08.                                                 *)
(*                                                                         *)
(* Init picks a case; Next performs ONE step of the small-step machine of  *)
(* the case's kind per state:                                              *)
(*   gn    one name record   (GnStep for fontcode_get_name and SfiStep for *)
(*         NameTable::string_for_id, side by side)                         *)
(*   nav   one axis value table (NavStep, StatTable::name_for_axis_value)  *)
(*   inst  one fvar axis (SubStep: value names of the subfamily name,      *)
(*         PsStep: the PostScript name)                                    *)
(* Invariants, checked on every state:                                     *)
(*   Lemmas  at the end of the loop small-step = closed form; the UTF-16   *)
(*           decoder machine = its closed forms on every byte string of    *)
(*           the case; MinFloat / width-class / sort lemmas; the primary   *)
(*           expectation is itself a conformant reading (Keys = {})        *)
(*   Emit    one CASE line per case: abstract input + primary expectation  *)
(***************************************************************************)
EXTENDS Naming

CONSTANTS GnLen,        \* longest name table explored with the full record palette
          GnLenSmall,   \* longest name table explored with the reduced palette
          DecLen,       \* longest UTF-16 unit string explored
          NavLen,       \* longest axis value table list
          InstWide      \* TRUE: the full product of name tables / styles / instances x tuples

VARIABLES kind, inp, i, st
vars == <<kind, inp, i, st>>

LO == -2147483647
HI == 2147483647
Fx(n) == n * 65536

---------------------------------------------------------------------------
(* name tables (kind gn)                                                   *)

EncPal == << <<3, 10, 1033>>, <<3, 10, 1031>>, <<0, 6, 0>>, <<0, 4, 0>>, <<3, 1, 1033>>, <<3, 1, 1031>>,
             <<0, 3, 0>>, <<0, 2, 0>>, <<0, 1, 0>>, <<0, 0, 0>>, <<3, 0, 1033>>, <<1, 0, 0>>, <<1, 0, 1>>,
             <<0, 4, 1>>, <<3, 2, 1033>>, <<2, 0, 0>>, <<1, 1, 0>>, <<0, 5, 0>>, <<3, 1, 3081>>, <<3, 10, 2057>> >>
EncSmall == {1, 4, 5, 6, 11, 12, 13, 14}
\* string palette: data = pre \o letter(position) \o body
U16Pal == << [pre |-> <<>>, body |-> <<0, 66>>],                   \* plain
             [pre |-> <<>>, body |-> <<216, 61, 222, 0>>],         \* surrogate pair
             [pre |-> <<>>, body |-> <<0, 65, 216, 0>>],           \* lead surrogate at the end
             [pre |-> <<>>, body |-> <<220, 0, 0, 65>>],           \* trail surrogate alone
             [pre |-> <<>>, body |-> <<0, 65, 0>>],                \* odd length
             [pre |-> <<>>, body |-> <<0, 0, 0, 66>>],             \* embedded NUL
             [pre |-> <<>>, body |-> <<>>],
             [pre |-> <<254, 255>>, body |-> <<0, 65>>],           \* U+FEFF first
             [pre |-> <<255, 254>>, body |-> <<0, 65>>],           \* U+FFFE first
             [pre |-> <<>>, body |-> <<216, 0, 0, 65>>] >>         \* lead surrogate, then a letter
U16Small == {1, 3, 6, 8}
MacPal == << [pre |-> <<>>, body |-> <<69>>],
             [pre |-> <<>>, body |-> <<128, 219, 240, 173>>],
             [pre |-> <<>>, body |-> <<0, 66>>],
             [pre |-> <<>>, body |-> <<>>],
             [pre |-> <<254, 255>>, body |-> <<65>>],              \* the Mac Roman text "ogonek caron a A"
             [pre |-> <<239, 187, 191>>, body |-> <<65>>],
             [pre |-> <<255, 254>>, body |-> <<65>>] >>
MacSmall == {1, 3, 5}
TargetId == 4
SlotsOf(encs, us, ms) ==
  {<<en, s>> : en \in {x \in encs : EncPal[x][1] # 1}, s \in us} \cup
  {<<en, s>> : en \in {x \in encs : EncPal[x][1] = 1}, s \in ms} \cup {<<0, 0>>}
\* (an operator, not a constant: TLC overflows its stack pre-computing a constant set of tuples)
Slots(full) == IF full THEN SlotsOf(DOMAIN EncPal, DOMAIN U16Pal, DOMAIN MacPal) ELSE SlotsOf(EncSmall, U16Small, MacSmall)
SlotRec(slot, pos) ==
  IF slot = <<0, 0>> THEN <<3, 1, 1033, TargetId + 1, <<0, 96 + pos, 0, 90>>>>       \* another name id
  ELSE LET enc == EncPal[slot[1]]
           mac == enc[1] = 1
           pal == IF mac THEN MacPal[slot[2]] ELSE U16Pal[slot[2]]
           let == IF mac THEN <<96 + pos>> ELSE <<0, 96 + pos>>
       IN <<enc[1], enc[2], enc[3], TargetId, pal.pre \o let \o pal.body>>
GnTable(t) == [p \in DOMAIN t |-> SlotRec(t[p], p)]

\* decoder cases: one Windows record holding a string over the unit alphabet (+ an odd trailing byte)
UnitAlpha == <<65, 0, 55296, 56319, 56320, 57343, 65279, 65534, 65535, 233>>
UnitBytes(t) == Flat([p \in DOMAIN t |-> <<UnitAlpha[t[p]] \div 256, UnitAlpha[t[p]] % 256>>])

IsGnCase(x) ==
  \/ \E m \in 0 .. GnLen : \E t \in [1 .. m -> Slots(TRUE)] :
        x = [recs |-> GnTable(t), id |-> TargetId, src |-> "table"]
  \/ \E m \in (GnLen + 1) .. GnLenSmall : \E t \in [1 .. m -> Slots(FALSE)] :
        x = [recs |-> GnTable(t), id |-> TargetId, src |-> "table"]
  \/ \E m \in 0 .. DecLen : \E t \in [1 .. m -> DOMAIN UnitAlpha] : \E odd \in {<<>>, <<65>>} :
        x = [recs |-> << <<3, 10, 1033, TargetId, UnitBytes(t) \o odd>> >>, id |-> TargetId, src |-> "utf16"]
  \/ \E b \in 0 .. 255 : \E l \in {0, 1} :
        x = [recs |-> << <<1, 0, l, TargetId, <<b>> \o (IF l = 1 THEN <<b>> ELSE <<>>)>> >>, id |-> TargetId, src |-> "mac"]

---------------------------------------------------------------------------
(* axis value tables (kind nav)                                            *)

Tb(f, a, fl, n, v, lo, hi, lk, av) == <<f, a, fl, n, v, lo, hi, lk, av>>
F1(a, fl, n, v)         == Tb(1, a, fl, n, v, 0, 0, 0, <<>>)
F2(a, fl, n, v, lo, hi) == Tb(2, a, fl, n, v, lo, hi, 0, <<>>)
F3(a, fl, n, v, lk)     == Tb(3, a, fl, n, v, 0, 0, lk, <<>>)
F4(fl, n, av)           == Tb(4, 0, fl, n, 0, 0, 0, 0, av)
NavPal == << F1(0, 0, 301, Fx(2)), F1(0, 2, 302, Fx(4)), F1(1, 0, 303, Fx(2)),
             F2(0, 0, 304, Fx(2), Fx(1), Fx(5)),        \* nominal value off centre
             F2(0, 2, 305, Fx(1), LO, Fx(3)), F2(0, 0, 306, Fx(5), Fx(4), HI),
             F3(0, 0, 307, Fx(3), Fx(5)), F1(0, 1, 308, Fx(2)),          \* older sibling
             F4(0, 309, << <<0, Fx(2)>> >>), F4(0, 310, << <<0, Fx(4)>>, <<1, Fx(2)>> >>),
             F4(2, 311, << <<1, Fx(2)>>, <<0, Fx(3)>> >>), F1(0, 0, 312, Fx(6)),
             Tb(5, 0, 0, 313, Fx(2), 0, 0, 0, <<>>),                     \* unknown format
             F2(1, 0, 314, Fx(2), Fx(0), Fx(7)) >>
IsNavCase(x) ==
  \E m \in 0 .. NavLen : \E t \in [1 .. m -> DOMAIN NavPal] : \E a \in 0 .. 1 : \E v \in 0 .. 7 : \E pol \in 0 .. 1 :
     x = [nax |-> 2, tabs |-> [p \in DOMAIN t |-> NavPal[t[p]]], q |-> <<a, Fx(v), pol>>]

---------------------------------------------------------------------------
(* variable fonts (kind inst)                                              *)

S_Fam == <<70, 97, 109>>
S_TFam == <<84, 121, 112, 111, 32, 70, 97, 109>>
S_MacFam == <<77, 97, 99, 70, 97, 109>>
S_Pfx == <<80, 114, 101, 45, 102, 105, 120, 32, 57, 33>>   \* "Pre-fix 9!"
S_LongFam == <<65, 98, 99, 100, 101, 102, 103, 104, 105, 106, 107, 108, 109, 110, 111, 112, 113, 114, 115, 116, 117, 118, 119, 120, 121, 122, 32, 65, 98, 99, 100, 101, 102, 103, 104, 105, 106, 107, 108, 109, 110, 111, 112, 113, 114, 115, 116, 117, 118, 119, 120, 121, 122, 32, 65, 98, 99, 100, 101, 102, 103, 104>>
S_Bold == <<66, 111, 108, 100>>
S_Thin == <<84, 104, 105, 110>>
S_Black == <<66, 108, 97, 99, 107>>
S_Cond == <<67, 111, 110, 100, 101, 110, 115, 101, 100>>
S_Norm == <<78, 111, 114, 109, 97, 108>>
S_Ital == <<73, 116, 97, 108, 105, 99>>
S_Upr == <<85, 112, 114, 105, 103, 104, 116>>
S_BoldCond == <<66, 111, 108, 100, 67, 111, 110, 100>>
S_Roman == <<82, 111, 109, 97, 110>>
S_Weight == <<87, 101, 105, 103, 104, 116>>
S_Width == <<87, 105, 100, 116, 104>>
S_Slant == <<83, 108, 97, 110, 116>>
S_OptSize == <<79, 112, 116, 105, 99, 97, 108, 32, 83, 105, 122, 101>>
S_Copy == <<67, 111, 112, 121, 114, 105, 103, 104, 116>>
S_Ver == <<86, 101, 114, 115, 105, 111, 110, 32, 49, 46, 48>>
S_Wws == <<87, 119, 115, 32, 70, 97, 109>>
S_Cap == <<67, 97, 112, 116, 105, 111, 110>>
S_Text == <<84, 101, 120, 116>>
S_InstPs == <<70, 97, 109, 45, 66, 111, 108, 100, 80, 83>>   \* "Fam-BoldPS"
S_SubOld == <<79, 108, 100, 32, 83, 117, 98>>
S_OldId == <<111, 108, 100, 59, 105, 100>>
S_FullOld == <<70, 97, 109, 32, 82, 101, 103, 117, 108, 97, 114>>
S_PsOld == <<70, 97, 109, 45, 82, 101, 103, 117, 108, 97, 114>>
S_Sib == <<83, 105, 98, 108, 105, 110, 103>>
S_Vend1 == <<86, 69, 82, 70>>
S_Vend2 == <<65, 66, 32, 32>>   \* "AB  "
TagOpsz == <<111, 112, 115, 122>>

Utf16Enc(s) == Flat([k \in DOMAIN s |->
                 IF s[k] < 65536 THEN <<s[k] \div 256, s[k] % 256>>
                 ELSE LET h == 55296 + ((s[k] - 65536) \div 1024)
                          l == 56320 + ((s[k] - 65536) % 1024)
                      IN <<h \div 256, h % 256, l \div 256, l % 256>>])
W(id, s) == <<3, 1, 1033, id, Utf16Enc(s)>>
M(id, s) == <<1, 0, 0, id, s>>

\* name ids of the axis and value names
IdWeight == 256  IdWidth == 257  IdSlant == 258  IdOpt == 259
IdThin == 260  IdRegular == 261  IdBold == 262  IdBlack == 263  IdCond == 264  IdNorm == 265
IdItal == 266  IdUpr == 267  IdBoldCond == 268  IdRoman == 269  IdCap == 270  IdText == 271
IdInstPs == 272  IdSib == 273
Labels == << W(IdWeight, S_Weight), W(IdWidth, S_Width), W(IdSlant, S_Slant), W(IdOpt, S_OptSize),
             W(IdThin, S_Thin), W(IdRegular, Regular), W(IdBold, S_Bold), W(IdBlack, S_Black),
             W(IdCond, S_Cond), W(IdNorm, S_Norm), W(IdItal, S_Ital), W(IdUpr, S_Upr),
             W(IdBoldCond, S_BoldCond), W(IdRoman, S_Roman), W(IdCap, S_Cap), W(IdText, S_Text),
             W(IdInstPs, S_InstPs), W(IdSib, S_Sib) >>
\* (records sorted as the name chapter requires: platform, encoding, language, name id)
NameVar(n) ==
  CASE n = 1 -> << W(0, S_Copy), W(1, S_Fam), W(2, Regular), W(3, S_OldId), W(4, S_FullOld), W(5, S_Ver), W(6, S_PsOld),
                   W(21, S_Wws) >> \o Labels
    [] n = 2 -> << W(0, S_Copy), W(1, S_Fam), W(2, Regular), W(3, S_OldId), W(4, S_FullOld), W(5, S_Ver), W(6, S_PsOld),
                   W(16, S_TFam), W(17, S_SubOld), W(21, S_Wws), W(25, S_Pfx) >> \o Labels
    [] n = 3 -> << M(1, S_MacFam), M(2, Regular), M(5, S_Ver),
                   W(0, S_Copy), W(1, S_Fam), W(2, Regular), W(4, S_FullOld), W(5, S_Ver), W(6, S_PsOld) >> \o Labels
    [] n = 4 -> << W(1, S_LongFam), W(2, Regular), W(5, S_Ver) >> \o Labels
    [] n = 5 -> << W(0, S_Copy), W(2, Regular), W(4, S_FullOld) >> \o Labels          \* neither 1 nor 16
    [] n = 6 -> << W(5, S_Ver), W(16, S_TFam), W(17, S_SubOld) >> \o Labels            \* 16 / 17 only
    [] n = 7 -> << W(1, S_Fam), W(5, S_Ver) >> \o Labels                                 \* no subfamily at all

\* source styles: [wc, wdc, fs, mac, ia, rev, vend]
StyleVar(n) ==
  CASE n = 1 -> [wc |-> 400, wdc |-> 5, fs |-> 64, mac |-> 0, ia |-> 0, rev |-> 65536, vend |-> S_Vend1]
    [] n = 2 -> [wc |-> 400, wdc |-> 5, fs |-> 129, mac |-> 2, ia |-> -786432, rev |-> 163840, vend |-> S_Vend2]    \* italic, USE_TYPO_METRICS, 2.500
    [] n = 3 -> [wc |-> 700, wdc |-> 3, fs |-> 32 + 256, mac |-> 1 + 32 + 4, ia |-> 0, rev |-> 72090, vend |-> S_Vend1] \* bold condensed underline, WWS, 1.100

AxWght == <<TagWght, Fx(1), Fx(400), Fx(1000)>>
AxWdth == <<TagWdth, Fx(50), Fx(100), Fx(200)>>
AxSlnt == <<TagSlnt, Fx(-20), Fx(0), Fx(20)>>
AxOpsz == <<TagOpsz, Fx(8), Fx(12), Fx(72)>>
AxSets == << <<AxWght>>, <<AxWght, AxWdth>>, <<AxWdth, AxWght>>, <<AxSlnt, AxWght>>, <<AxWght, AxOpsz>> >>
Half == 32768
ValsOf(tag) ==
  IF tag = TagWght THEN {Fx(400), Fx(100), Fx(250), Fx(449), Fx(549) + Half, Fx(550), Fx(649), Fx(650), Fx(680), Fx(700), Fx(1000), Fx(1), Fx(49)}
  ELSE IF tag = TagWdth THEN {Fx(100), Fx(50), Fx(56) + 16384, Fx(62) + Half, Fx(75), Fx(87) + Half, Fx(93) + 49152, Fx(110) + 21845, Fx(125), Fx(175), Fx(200)}
  ELSE IF tag = TagSlnt THEN {Fx(0), Fx(-10), Fx(12), Fx(-11) + Half}
  \* (14 + 6553 / 65536 = 14.0999908: half a unit of 16.16 short of 14.1 - five decimals; 6554 / 65536: one decimal)
  ELSE {Fx(12), Fx(8), Fx(14) + 16384, Fx(72), Fx(0) + 6554, Fx(14) + 6553}
FewOf(tag) ==
  IF tag = TagWght THEN {Fx(400), Fx(700)} ELSE IF tag = TagWdth THEN {Fx(100), Fx(75)}
  ELSE IF tag = TagSlnt THEN {Fx(0), Fx(-10)} ELSE {Fx(12)}
ValsSel(tag) == IF InstWide THEN ValsOf(tag) ELSE FewOf(tag)
RECURSIVE TupleSet(_, _)
TupleSet(axes, all) ==
  IF axes = <<>> THEN {<<>>}
  ELSE {<<v>> \o r : v \in (IF all THEN ValsOf(Head(axes)[1]) ELSE ValsSel(Head(axes)[1])), r \in TupleSet(Tail(axes), all)}

\* STAT variants.  The design axes: the fvar axes (in order, or reversed with reversed ordering values)
TagNameId(tag) == IF tag = TagWght THEN IdWeight ELSE IF tag = TagWdth THEN IdWidth
                  ELSE IF tag = TagSlnt THEN IdSlant ELSE IdOpt
StatAxes(axes, rev) ==
  LET n == Len(axes)
  IN [k \in 1 .. n |-> IF rev THEN <<axes[n + 1 - k][1], TagNameId(axes[n + 1 - k][1]), k - 1>>      \* the last fvar axis is named first
                       ELSE <<axes[k][1], TagNameId(axes[k][1]), k - 1>>]
Point(tag, a) ==      \* one table per named value
  IF tag = TagWght THEN << F1(a, 0, IdThin, Fx(100)), F1(a, 2, IdRegular, Fx(400)), F1(a, 0, IdBold, Fx(700)), F1(a, 0, IdBlack, Fx(900)) >>
  ELSE IF tag = TagWdth THEN << F1(a, 0, IdCond, Fx(75)), F3(a, 2, IdNorm, Fx(100), Fx(100)) >>
  ELSE IF tag = TagSlnt THEN << F1(a, 2, IdUpr, Fx(0)), F1(a, 0, IdItal, Fx(-10)) >>
  ELSE << F2(a, 0, IdCap, Fx(8), LO, Fx(10)), F2(a, 2, IdText, Fx(12), Fx(10), HI) >>
Range(tag, a) ==      \* ranges where the axis has them
  IF tag = TagWght THEN << F2(a, 0, IdThin, Fx(100), LO, Fx(250)), F2(a, 2, IdRegular, Fx(400), Fx(250), Fx(550)),
                           F2(a, 0, IdBold, Fx(700), Fx(550), HI) >>
  ELSE Point(tag, a)
SAx(saxes, tag) == AxisIx(saxes, tag) - 1
StatVar(n, axes) ==
  LET plain == StatAxes(axes, FALSE)
      rev   == StatAxes(axes, TRUE)
  IN CASE n = 0 -> [has |-> 0, ver |-> 0, fb |-> 0, axes |-> <<>>, tabs |-> <<>>]
       [] n = 1 -> [has |-> 1, ver |-> 1, fb |-> IdRoman, axes |-> plain,
                    tabs |-> Flat([k \in DOMAIN plain |-> Point(plain[k][1], k - 1)])]
       [] n = 2 -> [has |-> 1, ver |-> 1, fb |-> IdRoman, axes |-> rev,
                    tabs |-> Flat([k \in DOMAIN rev |-> Range(rev[k][1], k - 1)])]
       [] n = 3 -> [has |-> 1, ver |-> 0, fb |-> 0, axes |-> plain,
                    tabs |-> Flat([k \in DOMAIN plain |-> Point(plain[k][1], k - 1)])]
       \* a two-axis format 4 table that matches on the weight only, listed first
       [] n = 4 -> [has |-> 1, ver |-> 1, fb |-> IdRoman, axes |-> plain,
                    tabs |-> << F4(0, IdBoldCond, << <<SAx(plain, TagWght), Fx(700)>>, <<SAx(plain, TagWdth), Fx(75)>> >>) >>
                             \o Flat([k \in DOMAIN plain |-> Point(plain[k][1], k - 1)])]
       \* a range with its nominal value off centre next to a single value; an older-sibling table
       \* (elidedFallbackNameID 999 and the name id 998 of the first design axis are not in the name table)
       [] n = 5 -> [has |-> 1, ver |-> 1, fb |-> 999,
                    axes |-> [k \in DOMAIN plain |-> IF k = 1 THEN <<plain[k][1], 998, plain[k][3]>> ELSE plain[k]],
                    tabs |-> << F2(SAx(plain, TagWght), 2, IdRegular, Fx(400), Fx(300), Fx(600)),
                                F1(SAx(plain, TagWght), 0, IdBold, Fx(650)),
                                F1(SAx(plain, TagWght), 1, IdSib, Fx(100)), F1(SAx(plain, TagWght), 0, IdThin, Fx(100)) >>]
StatsFor(axes) == {0, 1, 2, 3, 5} \cup (IF HasAxis(axes, TagWdth) THEN {4} ELSE {})

\* fvar named instances: bold (wght 700, the other axes at their defaults)
BoldCoords(axes) == [k \in DOMAIN axes |-> IF axes[k][1] = TagWght THEN Fx(700) ELSE axes[k][3]]
InstVar(n, axes) ==
  CASE n = 0 -> <<>>
    [] n = 1 -> << <<IdThin, 65535, [k \in DOMAIN axes |-> axes[k][2]]>>, <<IdBlack, 65535, BoldCoords(axes)>> >>
    [] n = 2 -> << <<IdBlack, IdInstPs, BoldCoords(axes)>> >>

\* compact form of a record that must be kept: <<p, e, l, id, length, checksum>>
RECURSIVE WSum(_, _)
WSum(d, k) == IF k > Len(d) THEN 0 ELSE (d[k] * ((k % 7) + 1) + WSum(d, k + 1)) % 65521
Compact(r) == <<P(r), E(r), L(r), Id(r), Len(D(r)), WSum(D(r), 1)>>
KeptOf(names) == LET s == SelectSeq(names, LAMBDA r : Id(r) \notin Rewritten) IN [k \in DOMAIN s |-> Compact(s[k])]

MkInst(ax, sv, tuple, nv, yv, iv) ==
  LET axes == AxSets[ax]
  IN [axes |-> axes, tuple |-> tuple, stat |-> StatVar(sv, axes), names |-> NameVar(nv), kept |-> KeptOf(NameVar(nv)),
      src |-> StyleVar(yv), insts |-> InstVar(iv, axes)]
IsInstCase(x) ==
  \/ \E ax \in DOMAIN AxSets : \E sv \in StatsFor(AxSets[ax]) : \E tuple \in TupleSet(AxSets[ax], TRUE) :
        x = MkInst(ax, sv, tuple, 1, 1, 0)
  \/ \E ax \in (IF InstWide THEN DOMAIN AxSets ELSE {1, 4}) : \E sv \in {0, 1} :
     \E tuple \in TupleSet(AxSets[ax], FALSE) :
     \E nv \in 1 .. 7 : \E yv \in 1 .. 3 : \E iv \in 0 .. 2 :
        x = MkInst(ax, sv, tuple, nv, yv, iv)

---------------------------------------------------------------------------
(* the machines                                                            *)

PrefixOf(a) == IF PsPrefix(a.names) = NONE THEN <<>> ELSE Alnum(PsPrefix(a.names))
St0(k, x) ==
  CASE k = "gn"   -> [gn |-> GnInit, sfi |-> SfiInit]
    [] k = "nav"  -> NavInit
    [] k = "inst" -> [ids |-> <<>>, ps |-> PrefixOf(x)]
Steps(k, x) == CASE k = "gn" -> Len(x.recs) [] k = "nav" -> Len(x.tabs) [] k = "inst" -> Len(x.axes)

Init == /\ i = 0
        /\ \/ kind = "gn" /\ IsGnCase(inp)
           \/ kind = "nav" /\ IsNavCase(inp)
           \/ kind = "inst" /\ IsInstCase(inp)
        /\ st = St0(kind, inp)

Next ==
  /\ i < Steps(kind, inp)
  /\ i' = i + 1
  /\ UNCHANGED <<kind, inp>>
  /\ st' = CASE kind = "gn"  -> [gn |-> GnStep(StrictOf, st.gn, inp.recs[i + 1], inp.id),
                                 sfi |-> SfiStep(st.sfi, inp.recs, i + 1, inp.id)]
             [] kind = "nav" -> NavStep(st, inp.tabs[i + 1], inp.q[1], inp.q[2])
             [] kind = "inst" ->
                  [ids |-> IF inp.stat.has = 1
                           THEN SubStep(st.ids, PickPrimary, InstTabs(inp.stat, inp.axes, inp.tuple), inp.stat.axes,
                                        inp.axes[i + 1], inp.tuple[i + 1])
                           ELSE st.ids,
                   ps |-> PsStep(st.ps, inp.axes[i + 1], inp.tuple[i + 1])]
Spec == Init /\ [][Next]_vars

Done == i = Steps(kind, inp)

---------------------------------------------------------------------------
(* expectations                                                            *)

SetBit(x, b, on) == IF on THEN (IF Bit(x, b) THEN x ELSE x + b) ELSE (IF Bit(x, b) THEN x - b ELSE x)
RECURSIVE InsertLex(_, _)
InsertLex(s, x) == IF s = <<>> THEN <<x>> ELSE IF LexLE(s[1], x) THEN <<s[1]>> \o InsertLex(Tail(s), x) ELSE <<x>> \o s
RECURSIVE SortLex(_)
SortLex(s) == IF s = <<>> THEN <<>> ELSE InsertLex(SortLex(Tail(s)), s[1])
RwSeq == <<1, 2, 3, 4, 6, 16, 17>>

InstExpect(a) ==
  LET p == InstPrimary(a)
  IN IF p.err = 1 THEN [err |-> 1]
     ELSE LET wdthSet == NonDefault(a.axes, a.tuple, TagWdth)
              mac == SetBit(SetBit(SetBit(SetBit(a.src.mac, 1, p.bold), 2, p.ital),
                                   32, IF wdthSet THEN p.wdc < 4 ELSE Bit(a.src.mac, 32)),
                            64, IF wdthSet THEN p.wdc > 6 ELSE Bit(a.src.mac, 64))
              fs  == SetBit(SetBit(SetBit(a.src.fs, 1, p.ital), 32, p.bold), 64, ~p.ital /\ ~p.bold)
              keptOrd == LET s == SelectSeq(a.names, LAMBDA r : Id(r) \notin Rewritten)
                         IN [k \in DOMAIN s |-> <<P(s[k]), E(s[k]), L(s[k]), Id(s[k])>>]
          IN [err |-> 0, n1 |-> p.n1, n2 |-> Regular, n3 |-> p.n3, n4 |-> p.n4, n6 |-> p.n6, n16 |-> p.n16, n17 |-> p.sub,
              wc |-> p.wc, wdc |-> p.wdc, fs |-> fs, mac |-> mac, ia |-> a.src.ia,
              ord |-> SortLex(keptOrd \o [k \in DOMAIN RwSeq |-> <<0, 4, 0, RwSeq[k]>>]),
              kept |-> a.kept, an |-> AxisNamesPrimary(a)]
\* the observation that the primary expectation describes
ObsOf(a, e) ==
  IF e.err = 1 THEN [err |-> <<1>>]
  ELSE [err |-> <<>>,
        names |-> << <<0, 4, 0, 1, Utf16Enc(e.n1)>>, <<0, 4, 0, 2, Utf16Enc(e.n2)>>, <<0, 4, 0, 3, Utf16Enc(e.n3)>>,
                     <<0, 4, 0, 4, Utf16Enc(e.n4)>>, <<0, 4, 0, 6, Utf16Enc(e.n6)>>, <<0, 4, 0, 16, Utf16Enc(e.n16)>>,
                     <<0, 4, 0, 17, Utf16Enc(e.n17)>> >>,
        ord |-> e.ord, kept |-> e.kept, wc |-> e.wc, wdc |-> e.wdc, fs |-> e.fs, mac |-> e.mac, ia |-> e.ia]

SubIdsClosed(pick(_, _, _), tabs, saxes, axes, tuple) ==
  Flat([x \in DOMAIN axes |-> Flat([k \in DOMAIN saxes |->
          IF saxes[k][1] = axes[x][1] /\ pick(tabs, k - 1, tuple[x]) # -1
          THEN << <<pick(tabs, k - 1, tuple[x]), saxes[k][3]>> >> ELSE <<>>])])
SortedOrd(s) == \A k \in 1 .. Len(s) - 1 : s[k][2] <= s[k + 1][2]

Lemmas ==
  Done =>
    CASE kind = "gn" ->
           /\ st.gn.res = GetName(inp.recs, inp.id)
           /\ st.gn.res = GnRun(StrictOf, GnInit, inp.recs, inp.id).res
           /\ SfiText(LossyOf, inp.recs, st.sfi.ix) = StringForId(inp.recs, inp.id)
           /\ \A k \in DOMAIN inp.recs : IsMac(inp.recs[k]) \/ DecoderLemma(D(inp.recs[k]))
           /\ GnKeys(inp.recs, inp.id, GetName(inp.recs, inp.id)) = {}
           /\ SfiKeys(inp.recs, inp.id, StringForId(inp.recs, inp.id)) = {}
      [] kind = "nav" ->
           /\ NavFinish(st, inp.q[3]) = NavClosed(inp.tabs, inp.q[1], inp.q[2], inp.q[3])
           /\ NavKeys(inp.tabs, inp.q[1], inp.q[2], inp.q[3], NavClosed(inp.tabs, inp.q[1], inp.q[2], inp.q[3])) = {}
           /\ NavClosed(inp.tabs, inp.q[1], inp.q[2], 0) = -1 => NavClosed(inp.tabs, inp.q[1], inp.q[2], 1) = -1
      [] kind = "inst" ->
           LET a == inp
               e == InstExpect(a)
               tabs == InstTabs(a.stat, a.axes, a.tuple)
           IN /\ st.ps = PsFull(PrefixOf(a), a.axes, a.tuple)
              /\ a.stat.has = 1 => /\ st.ids = SubIdsClosed(PickPrimary, tabs, a.stat.axes, a.axes, a.tuple)
                                   /\ SortedOrd(SortOrd(st.ids)) /\ Len(SortOrd(st.ids)) = Len(st.ids)
              /\ \A k \in DOMAIN a.tuple : MinFloatLemma(a.tuple[k])
              /\ HasAxis(a.axes, TagWdth) => WidthWalk(1, AxVal(a.axes, a.tuple, TagWdth)) \in WidthClassSet(AxVal(a.axes, a.tuple, TagWdth))
              /\ e.err = 0 => /\ InstKeys(a, ObsOf(a, e)) = {}
                              /\ Len(e.n6) <= PsLimit
                              /\ SortedRecs(e.ord)
              /\ AxisNamesKeys(a, AxisNamesPrimary(a)) = {}

Emit ==
  Done =>
    CASE kind = "gn" ->
           PrintT(<<"CASE", ToJson([k |-> "gn", src |-> inp.src, recs |-> inp.recs, id |-> inp.id,
                                    e |-> [g |-> GetName(inp.recs, inp.id), s |-> StringForId(inp.recs, inp.id)]])>>)
      [] kind = "nav" ->
           PrintT(<<"CASE", ToJson([k |-> "nav", nax |-> inp.nax, tabs |-> inp.tabs, q |-> inp.q,
                                    e |-> [n |-> NavClosed(inp.tabs, inp.q[1], inp.q[2], inp.q[3])]])>>)
      [] kind = "inst" ->
           PrintT(<<"CASE", ToJson([k |-> "inst", a |-> inp, e |-> InstExpect(inp)])>>)
=============================================================================
