----------------------------- MODULE FaultModel -----------------------------
(***************************************************************************)
(* Property C01: untrusted font data is rejected with an error, never a    *)
(* crash.                                                                  *)
(*                                                                         *)
(* A font file is a byte string in which some byte ranges are *fields*:    *)
(* [off, w, role, level] with role in Roles and level "dir" (container     *)
(* header / directory) or "table" (inside a table).  The adversary applies *)
(* a sequence of *faults* to the bytes:                                    *)
(*    Overwrite(field, value class)   the field gets the value the class   *)
(*                                    names (0, 1, max, max-1, 0x7F..,     *)
(*                                    0x80.., old+1, old-1, old*2, old/2,  *)
(*                                    file length, table length; for a     *)
(*                                    size / count field that other fields *)
(*                                    imply, one less than and half of the *)
(*                                    implied value; for format / flag     *)
(*                                    fields one bit toggled (bit 0 .. 15);*)
(*                                    for offset and                       *)
(*                                    index fields also the reference to   *)
(*                                    the structure that contains the      *)
(*                                    field and to that structure's parent)*)
(*    Truncate(at)                    the file ends at byte `at` (at the   *)
(*                                    start of a field or inside it)       *)
(*    RemoveTable(rec)                a directory record is deleted        *)
(*    ShrinkLength(rec, mode)         a record's length is halved / -1     *)
(*    SwapTables(a, b)                two records exchange offset+length   *)
(* and offers the result to a public operation (entry point group).  The   *)
(* operation answers with an outcome from Outcomes; the property is        *)
(*    Safe(outcome)  ==  outcome \in {"Ok", "Err"}                         *)
(* for every fault sequence and every group.                               *)
(*                                                                         *)
(* "Returns normally" must not be met by failing everything, so at the     *)
(* container level the model is exact: ContainerExpect says, from the      *)
(* faulted bytes alone, whether loading, provider(i) and every table of    *)
(* the directory must be Ok or Err (reader of Sfnt.tla, instantiated       *)
(* below), and that an Ok table is exactly the byte range its record       *)
(* names.  An intact font loads; a range past the end of the file is an    *)
(* error for that table and for no other.                                  *)
(*                                                                         *)
(* No number above 2^31 is ever formed: field values are big-endian byte   *)
(* strings and the value classes are computed on the bytes.                *)
(***************************************************************************)
EXTENDS Integers, Sequences, FiniteSets, SequencesExt, FiniteSetsExt, TLC

S == INSTANCE Sfnt

Roles        == {"count", "offset", "length", "version", "index", "value"}
\* byte-level classes: the new value is a function of the old bytes, the file and the table length
ByteClasses  == {"zero", "one", "max", "max-1", "hi7f", "hi80", "inc", "dec", "dbl", "half", "filelen", "tablelen"}
\* reference classes: the field is made to refer to the structure that contains it ("self": an
\* offset gets the offset of its own structure, a glyph / subroutine / lookup index or a character
\* code gets the number of the object it sits in) or to the structure that refers to that one
\* ("parent").  These are the smallest cycles a chain of references can have: what recursion and
\* nesting limits exist for.  No function of the old bytes produces them; the value is a fact of
\* the structural walk, carried by the field as sv / pv (-1 = the field has no such reference).
RefClasses   == {"self", "parent"}
\* relational classes: the field is an element of an array (of scalars, or the same member of
\* consecutive records) and its new value is a function of the element before it ("prev") or after
\* it ("next"): equal to it (a duplicate in a sorted array, an empty range, a zero divisor between
\* two keys), adjacent to it (sibling + 1 / - 1: off by one at the boundary; for the element on the
\* other side an inversion of the order: prev - 1 < prev, next + 1 > next), and such that the sum of
\* field and sibling wraps the field's width as an unsigned ("uwrap": 2^n - sibling) or as a signed
\* number ("swrap": 2^(n-1) - sibling = max of the type - sibling + 1).  No function of the old bytes
\* produces them; the walk says where the siblings are (po / no = position of the previous / next
\* element, -1 = none), the value is read from the bytes the fault is applied to.
PrevClasses  == {"eqprev", "prev+1", "prev-1", "uwrap-prev", "swrap-prev"}
NextClasses  == {"eqnext", "next-1", "next+1", "uwrap-next", "swrap-next"}
RelClasses   == PrevClasses \cup NextClasses
\* derived classes: the field is a size, length or count that OTHER fields of the font imply (the imageSize of a
\* constant-metrics bitmap strike = height x bytes per row of the metrics beside it, a data length = the bytes
\* the enclosing record has left, a sub-table length = header + count x record size, a glyph count = what the
\* offset array holds ...).  The classes make the field disagree with what the others imply by the smallest
\* amount ("der-1": one less than implied - the consumer that trusts the metrics reads one byte past the
\* data) and grossly ("der-half").  "zero" is a byte class.  No function of the old bytes produces them when the
\* font's own value differs from the implied one (padding, slack); the implied value is a fact of the structural
\* walk, computed WITHOUT reading the field itself, carried by the field as dv (-1 = the walk knows none).
DerClasses   == {"der-1", "der-half"}
\* bit classes: exactly one bit of the field is toggled ("bitK": bit K counted from the least significant bit of the
\* big-endian field).  They are for the fields whose bits are switches or whose value selects a format - role
\* "version": format numbers, transform versions, flag bytes and words (glyf simple / composite flags, lookup flags,
\* coverage words, the flag part of tupleIndex / tupleVariationCount, WOFF2 directory and transform flags).  The
\* byte-level classes set or clear many bits at once (max, hi7f, hi80) or move to the neighbouring number (inc, dec,
\* dbl, half); a single flag switched on or off beside the others - a REPEAT flag on the last point, ARG words
\* without the words, an hmtx transform without the glyf transform, a format 12 sub-table read as format 13 - is
\* a function of the old bytes none of them computes.
BitClasses   == {"bit0", "bit1", "bit2", "bit3", "bit4", "bit5", "bit6", "bit7",
                 "bit8", "bit9", "bit10", "bit11", "bit12", "bit13", "bit14", "bit15"}
BitNo(vc)    == CASE vc = "bit0" -> 0 [] vc = "bit1" -> 1 [] vc = "bit2" -> 2 [] vc = "bit3" -> 3 [] vc = "bit4" -> 4
                  [] vc = "bit5" -> 5 [] vc = "bit6" -> 6 [] vc = "bit7" -> 7 [] vc = "bit8" -> 8 [] vc = "bit9" -> 9
                  [] vc = "bit10" -> 10 [] vc = "bit11" -> 11 [] vc = "bit12" -> 12 [] vc = "bit13" -> 13
                  [] vc = "bit14" -> 14 [] vc = "bit15" -> 15
ValueClasses == ByteClasses \cup RefClasses \cup RelClasses \cup DerClasses \cup BitClasses
RefRoles     == {"offset", "index"}
RelRoles     == {"count", "offset", "length", "index", "value"}
\* an offset has an implied value when it ends a record whose own content says how long it is (start + implied size)
DerRoles     == {"count", "length", "offset"}
BitRoles     == {"version"}
ClassApplies(vc, role) == (vc \in RefClasses => role \in RefRoles) /\ (vc \in RelClasses => role \in RelRoles)
                          /\ (vc \in DerClasses => role \in DerRoles) /\ (vc \in BitClasses => role \in BitRoles)
Levels       == {"dir", "table"}
FaultKinds   == {"Overwrite", "Truncate", "RemoveTable", "ShrinkLength", "SwapTables"}
TruncWhere   == {"at", "inside"}
ShrinkModes  == {"half", "minus1"}

\* entry point groups (harness: c01_faults/entry.rs GROUPS, same names)
Groups == {"container", "font_new", "lookup_glyph_index", "cmap_mappings", "glyph_names", "advance",
           "glyph_image", "outlines", "subset", "whole_font", "prince_subset", "instance", "axis_names",
           "kern", "svg", "bitmaps", "os2", "post_name"}

Outcomes == {"Ok", "Err", "Panic", "Abort", "StackOverflow", "OOM", "Timeout"}
Safe(oc) == oc \in {"Ok", "Err"}

---------------------------------------------------------------------------
\* Value classes on big-endian byte strings.

Zeros(w) == [k \in 1 .. w |-> 0]
RECURSIVE BytesOf(_, _)
\* the w low-order bytes of n (n < 2^31)
BytesOf(n, w) == IF w = 0 THEN <<>> ELSE BytesOf(n \div 256, w - 1) \o <<n % 256>>

RECURSIVE AddC(_, _, _)
\* a + b + carry modulo 256^Len(a), Len(a) = Len(b)
AddC(a, b, c) ==
  IF a = <<>> THEN <<>>
  ELSE LET n == Len(a)  s == a[n] + b[n] + c IN
       AddC(SubSeq(a, 1, n - 1), SubSeq(b, 1, n - 1), s \div 256) \o <<s % 256>>

RECURSIVE HalfC(_, _)
\* a \div 2, most significant byte first; c is the bit shifted in from the left
HalfC(a, c) ==
  IF a = <<>> THEN <<>>
  ELSE <<(c * 256 + a[1]) \div 2>> \o HalfC(Tail(a), a[1] % 2)

Ones(w) == [k \in 1 .. w |-> 255]
Inc(a)  == AddC(a, Zeros(Len(a)), 1)
Dec(a)  == AddC(a, Ones(Len(a)), 0)
Dbl(a)  == AddC(a, a, 0)
Half(a) == HalfC(a, 0)
Not(a)  == [k \in 1 .. Len(a) |-> 255 - a[k]]
Neg(a)  == AddC(Not(a), Zeros(Len(a)), 1)                \* 2^(8 Len(a)) - a
Hi80(w) == [k \in 1 .. w |-> IF k = 1 THEN 128 ELSE 0]
Pow2(j) == CASE j = 0 -> 1 [] j = 1 -> 2 [] j = 2 -> 4 [] j = 3 -> 8 [] j = 4 -> 16 [] j = 5 -> 32 [] j = 6 -> 64 [] j = 7 -> 128
\* bit n (from the least significant bit of the whole field) toggled; n < 8 * Len(a)
FlipBit(a, n) ==
  LET w == Len(a)  pos == w - (n \div 8)  p == Pow2(n % 8) IN
  [k \in 1 .. w |-> IF k # pos THEN a[k] ELSE IF (a[k] \div p) % 2 = 1 THEN a[k] - p ELSE a[k] + p]

\* the value a class names for a field that held `old` (Len(old) = width); sv / pv: the references
\* of the field (numbers below 2^31; the low-order bytes are written, as a reader of the field sees them);
\* pb / nb: the bytes of the previous / next element of the array the field belongs to (same width; <<>> = none);
\* dv: the value the other fields imply for this one (a number below 2^31)
NewValue(vc, old, flen, tlen, sv, pv, dv, pb, nb) ==
  LET w == Len(old) IN
  CASE vc = "zero"     -> Zeros(w)
    [] vc = "one"      -> BytesOf(1, w)
    [] vc = "max"      -> Ones(w)
    [] vc = "max-1"    -> [k \in 1 .. w |-> IF k = w THEN 254 ELSE 255]
    [] vc = "hi7f"     -> [k \in 1 .. w |-> IF k = 1 THEN 127 ELSE 255]
    [] vc = "hi80"     -> [k \in 1 .. w |-> IF k = 1 THEN 128 ELSE 0]
    [] vc = "inc"      -> Inc(old)
    [] vc = "dec"      -> Dec(old)
    [] vc = "dbl"      -> Dbl(old)
    [] vc = "half"     -> Half(old)
    [] vc = "filelen"  -> BytesOf(flen, w)
    [] vc = "tablelen" -> BytesOf(tlen, w)
    [] vc = "self"     -> BytesOf(sv, w)
    [] vc = "parent"   -> BytesOf(pv, w)
    [] vc = "der-1"    -> BytesOf(dv - 1, w)
    [] vc = "der-half" -> BytesOf(dv \div 2, w)
    [] vc \in BitClasses -> FlipBit(old, BitNo(vc))
    [] vc = "eqprev"   -> pb
    [] vc = "eqnext"   -> nb
    [] vc = "prev+1"   -> Inc(pb)
    [] vc = "next-1"   -> Dec(nb)
    [] vc = "prev-1"   -> Dec(pb)
    [] vc = "next+1"   -> Inc(nb)
    [] vc = "uwrap-prev" -> Neg(pb)
    [] vc = "uwrap-next" -> Neg(nb)
    [] vc = "swrap-prev" -> AddC(Hi80(w), Neg(pb), 0)
    [] vc = "swrap-next" -> AddC(Hi80(w), Neg(nb), 0)

\* a reference class applies to a field that has the reference
HasRef(vc, sv, pv) == (vc = "self" => sv >= 0) /\ (vc = "parent" => pv >= 0)
\* a derived class applies to a field for which the walk knows an implied value of at least 1
HasDer(vc, dv) == vc \in DerClasses => dv >= 1
\* a bit class applies to a field that has that bit
HasBit(vc, w) == vc \in BitClasses => BitNo(vc) < 8 * w
\* a relational class applies to a field whose sibling is there (w = width of the field)
HasRel(vc, w, pb, nb) == (vc \in PrevClasses => Len(pb) = w) /\ (vc \in NextClasses => Len(nb) = w)

---------------------------------------------------------------------------
\* Faults on byte strings.  Positions are 0-based.
\*   [k |-> "Overwrite", off, w, vc, tlen, sv, pv, dv, po, no]   po / no: position of the previous / next element, -1 = none
\*   [k |-> "Truncate", at]
\*   [k |-> "RemoveTable", rec, size, cnt, idx, n]   record at rec (size bytes, index idx of n), count at cnt (u16)
\*   [k |-> "ShrinkLength", off, mode]               u32 length field at off
\*   [k |-> "SwapTables", a, b]                      8 bytes (offset, length) at a and at b

Patch(bs, p, new) == [k \in 1 .. Len(bs) |-> IF k > p /\ k <= p + Len(new) THEN new[k - p] ELSE bs[k]]
Window(bs, p, w)  == SubSeq(bs, p + 1, p + w)
InFile(bs, p, w)  == p >= 0 /\ p + w <= Len(bs)

\* the bytes of a sibling element: read from the bytes the fault is applied to (an earlier fault of the
\* sequence may have changed them); none when the walk knows no sibling or it fell off a truncated file
Sibling(bs, p, w) == IF p >= 0 /\ InFile(bs, p, w) THEN Window(bs, p, w) ELSE <<>>

\* a fault whose target no longer lies inside the (already truncated) file does nothing; neither does
\* a reference class on a field without that reference, a derived class on a field without an implied value, a
\* bit class on a field too narrow to have the bit, nor a relational class on a field without that sibling
Apply(bs, f) ==
  CASE f.k = "Overwrite" ->
         LET pb == Sibling(bs, f.po, f.w)  nb == Sibling(bs, f.no, f.w) IN
         IF InFile(bs, f.off, f.w) /\ HasRef(f.vc, f.sv, f.pv) /\ HasDer(f.vc, f.dv) /\ HasBit(f.vc, f.w) /\ HasRel(f.vc, f.w, pb, nb)
         THEN Patch(bs, f.off, NewValue(f.vc, Window(bs, f.off, f.w), Len(bs), f.tlen, f.sv, f.pv, f.dv, pb, nb)) ELSE bs
    [] f.k = "Truncate" -> SubSeq(bs, 1, IF f.at < Len(bs) THEN f.at ELSE Len(bs))
    [] f.k = "RemoveTable" ->
         LET last == f.rec + (f.n - f.idx) * f.size IN      \* end of the directory
         IF InFile(bs, f.rec, f.size) /\ InFile(bs, f.cnt, 2) /\ last <= Len(bs)
         THEN LET moved == Window(bs, f.rec + f.size, last - f.rec - f.size) \o Zeros(f.size)
                  cnt   == Window(bs, f.cnt, 2)
              IN Patch(Patch(bs, f.rec, moved), f.cnt, IF cnt = <<0, 0>> THEN cnt ELSE Dec(cnt))
         ELSE bs
    [] f.k = "ShrinkLength" ->
         IF InFile(bs, f.off, 4)
         THEN Patch(bs, f.off, IF f.mode = "half" THEN Half(Window(bs, f.off, 4)) ELSE
                               IF Window(bs, f.off, 4) = Zeros(4) THEN Zeros(4) ELSE Dec(Window(bs, f.off, 4)))
         ELSE bs
    [] f.k = "SwapTables" ->
         IF InFile(bs, f.a, 8) /\ InFile(bs, f.b, 8)
         THEN Patch(Patch(bs, f.a, Window(bs, f.b, 8)), f.b, Window(bs, f.a, 8)) ELSE bs

RECURSIVE ApplySeq(_, _)
ApplySeq(bs, fs) == IF fs = <<>> THEN bs ELSE ApplySeq(Apply(bs, fs[1]), Tail(fs))

\* Lemma (checked by MC_FaultModel on every enumerated sequence): faults never grow the file.
BoundedLength(bs, fs) == Len(ApplySeq(bs, fs)) <= Len(bs)

---------------------------------------------------------------------------
\* Container-level expectations.
\*
\* A *view* of a file is what the judge needs of it: its length, its head (the bytes of the header
\* and directory, as many as HeadNeed asks for, or the whole file when it is shorter), and for a
\* collection the head of each member's offset table:
\*    [flen, hd, members : Seq([o, hd])]
\* The harness cuts views out of real fonts; MC_FaultModel cuts them out of model files and
\* checks that expectations computed from the view equal those computed from the whole file.

MagicWOF2 == <<119, 79, 70, 50>>                       \* 'wOF2'

\* how many leading bytes of a file of flen bytes the container reader looks at (hd = a prefix of
\* the file holding at least its first 14 bytes, or all of it)
HeadNeed(hd, flen) ==
  IF Len(hd) < 4 THEN Len(hd)
  ELSE LET m == S!Rd4(hd, 0) IN
       IF m \in S!SfntMagics THEN (IF Len(hd) < 6 THEN Len(hd) ELSE 12 + 16 * S!Rd16(hd, 4))
       ELSE IF m = S!MagicTTC THEN (IF Len(hd) < 12 THEN Len(hd)
                                    ELSE LET n == S!Rd32(hd, 8) IN
                                         IF n >= 16777216 THEN 12 ELSE IF 12 + 4 * n > flen THEN 12 ELSE 12 + 4 * n)
       ELSE IF m = S!MagicWOFF THEN (IF Len(hd) < 14 THEN Len(hd) ELSE 44 + 20 * S!Rd16(hd, 12))
       ELSE IF m = MagicWOF2 THEN 48
       ELSE 4
Cut(bs, p, n) == SubSeq(bs, p + 1, IF p + n < Len(bs) THEN p + n ELSE Len(bs))

MemberView(bs, o) ==
  IF o = S!HUGE \/ o > Len(bs) THEN [o |-> o, hd |-> <<>>]
  ELSE LET rest == SubSeq(bs, o + 1, Len(bs))
           need == IF Len(rest) < 6 THEN Len(rest) ELSE 12 + 16 * S!Rd16(rest, 4)
       IN [o |-> o, hd |-> Cut(rest, 0, need)]

ViewOf(bs) ==
  LET hd == Cut(bs, 0, HeadNeed(bs, Len(bs)))
      ld == S!Load(hd)
  IN [flen |-> Len(bs), hd |-> hd,
      members |-> IF ld.ok /\ ld.v.kind = "ttc"
                  THEN [i \in 1 .. (IF Len(ld.v.offsets) < 3 THEN Len(ld.v.offsets) ELSE 3) |->
                           MemberView(bs, ld.v.offsets[i])]
                  ELSE <<>>]

\* status of a table whose record is r, in a file of flen bytes
\*   "Ok"  the bytes [off, off+len) ;  "Err" ;  "Inflate" (WOFF, compLength # origLength: Ok iff the
\*   range holds a zlib stream, which the byte-level model does not decide - Dev_InflateNotModelled;
\*   the judge settles it with the harness' own inflate of that range)
\* A length of zero is an empty table wherever the offset points (ReadScope::offset_length).
TableStatus(flen, kind, r) ==
  IF r.len = 0 /\ (kind # "woff" \/ r.orig = 0) THEN "Ok"
  ELSE IF r.len = 0 THEN "Inflate"
  ELSE IF r.off = S!HUGE \/ r.len = S!HUGE THEN "Err"
  ELSE IF S!OffLen(flen, r.off, r.len) # "Ok" THEN "Err"
  ELSE IF kind = "woff" /\ r.len # r.orig THEN "Inflate"
  ELSE "Ok"

ExpFont(flen, kind, f) ==
  [tags |-> S!Tags(f),
   tabs |-> [k \in 1 .. Len(f.recs) |-> [first |-> S!FindRec(f, f.recs[k].tag) = k,
                                           st |-> TableStatus(flen, kind, f.recs[k]),
                                           off |-> f.recs[k].off, len |-> f.recs[k].len]]]

NoFont == [tags |-> <<>>, tabs |-> <<>>]

\* What loading must answer: read, kind, provider(0..2) and the tables of provider 0.
\*   st values: "Ok", "Err", "Any" (the model does not decide: WOFF2 beyond its fixed header)
ContainerExpect(v) ==
  IF Len(v.hd) >= 4 /\ S!Rd4(v.hd, 0) = MagicWOF2
  THEN IF v.flen < 48 \/ Len(v.hd) < 48 THEN [read |-> "Err", kind |-> "", prov |-> <<>>, font |-> NoFont]
       ELSE IF S!Rd16(v.hd, 14) # 0 THEN [read |-> "Err", kind |-> "", prov |-> <<>>, font |-> NoFont]
       ELSE [read |-> "Any", kind |-> "woff2", prov |-> <<"Any", "Any", "Any">>, font |-> NoFont]
  ELSE
  LET ld == S!Load(v.hd) IN
  IF ~ld.ok THEN [read |-> "Err", kind |-> "", prov |-> <<>>, font |-> NoFont]
  ELSE IF ld.v.kind = "ttc"
  THEN LET Prov(i) == IF i >= Len(ld.v.offsets) THEN S!Err("BadIndex")
                      ELSE IF i >= Len(v.members) THEN S!Err("NoView")
                      ELSE LET m == v.members[i + 1] IN
                           IF m.o = S!HUGE \/ m.o > v.flen THEN S!Err("Eof") ELSE S!ReadOffsetTable(m.hd, 0)
           p0 == Prov(0)
       IN [read |-> "Ok", kind |-> "ttc",
           prov |-> [i \in 1 .. 3 |-> IF Prov(i - 1).ok THEN "Ok" ELSE "Err"],
           font |-> IF p0.ok THEN ExpFont(v.flen, "ttc", p0.v) ELSE NoFont]
  ELSE [read |-> "Ok", kind |-> ld.v.kind, prov |-> <<"Ok", "Ok", "Ok">>,       \* Dev_SingleIgnoresIndex
        font |-> ExpFont(v.flen, ld.v.kind, ld.v.font)]

\* The same, computed by the reader of Sfnt.tla on the whole file (model files only).
StatusOfData(r) == IF r.ok THEN "Ok" ELSE IF r.err = "Unmodelled" \/ r.err = "CompressionError" THEN "Inflate" ELSE "Err"
DirectExpect(bs) ==
  LET ld == S!Load(bs) IN
  IF ~ld.ok THEN [read |-> "Err", kind |-> "", prov |-> <<>>, font |-> NoFont]
  ELSE LET P(i) == S!Provider(bs, ld.v, i)
           p0   == P(0)
       IN [read |-> "Ok", kind |-> ld.v.kind,
           prov |-> [i \in 1 .. 3 |-> IF P(i - 1).ok THEN "Ok" ELSE "Err"],
           font |-> IF p0.ok
                    THEN [tags |-> S!Tags(p0.v),
                          tabs |-> [k \in 1 .. Len(p0.v.recs) |->
                                      LET r == p0.v.recs[k] IN
                                      [first |-> S!FindRec(p0.v, r.tag) = k,
                                       st |-> IF S!FindRec(p0.v, r.tag) = k
                                              THEN StatusOfData(S!TableData(bs, ld.v.kind, p0.v, r.tag))
                                              ELSE TableStatus(Len(bs), ld.v.kind, r),
                                       off |-> r.off, len |-> r.len]]]
                    ELSE NoFont]

\* Lemma: the view is enough (zero-length tables with an offset past the end excepted: there the
\* reader of Sfnt.tla is stricter than ReadScope::offset_length, see TableStatus).
ViewSuffices(bs) ==
  LET a == ContainerExpect(ViewOf(bs))  b == DirectExpect(bs) IN
  /\ a.read = b.read /\ a.kind = b.kind /\ a.prov = b.prov /\ a.font.tags = b.font.tags
  /\ Len(a.font.tabs) = Len(b.font.tabs)
  /\ \A k \in 1 .. Len(a.font.tabs) :
        \/ a.font.tabs[k] = b.font.tabs[k]
        \/ a.font.tabs[k].len = 0
        \/ (a.font.tabs[k].st = "Inflate" /\ b.font.tabs[k].st \in {"Ok", "Inflate"})

\* Lemma: the expectation is total - every field has a value of its alphabet.
ExpectTotal(e) ==
  /\ e.read \in {"Ok", "Err", "Any"}
  /\ \A i \in 1 .. Len(e.prov) : e.prov[i] \in {"Ok", "Err", "Any"}
  /\ \A k \in 1 .. Len(e.font.tabs) : e.font.tabs[k].st \in {"Ok", "Err", "Inflate"}
  /\ (e.read = "Err" => e.prov = <<>> /\ e.font = NoFont)

\* Lemma: a range past the end of the file is an error for that table.
PastEofIsErr(flen, kind, r) ==
  (r.len # 0 /\ r.off # S!HUGE /\ r.len # S!HUGE /\ r.off + r.len > flen) => TableStatus(flen, kind, r) = "Err"

---------------------------------------------------------------------------
\* Judging one recorded container observation `o` against the expectation `e`.
\*   o = [read, kind, prov, tags, tabs : Seq(<<tag, has, st, len, hash>>), absent]
\*   slices[k] = hash of the byte range of record k ("" when the range is not inside the file),
\*   inflated[k] = <<"Ok" | "Err" | "", hash, len>> : the harness' own zlib decode of that range
ContainerFailures(e, o, slices, inflated) ==
  LET loaded == o.read = "Ok" /\ Len(o.prov) >= 1 /\ o.prov[1] = "Ok"
      TabFail(j) ==
        LET t  == o.tabs[j]
            ks == {k \in 1 .. Len(e.font.tags) : e.font.tags[k] = t[1]}
        IN IF ks = {} THEN {"Table.unknownTag"}
           ELSE LET k == Min(ks)  x == e.font.tabs[k] IN
                (IF t[2] THEN {} ELSE {"Table.hasTable"})
                \cup (CASE x.st = "Ok"  -> IF t[3] # "Ok" THEN {"Table.wantOk.got" \o t[3]}
                                           ELSE IF t[4] # x.len \/ t[5] # slices[k] THEN {"Table.otherBytes"} ELSE {}
                        [] x.st = "Err" -> IF t[3] # "Err" THEN {"Table.wantErr.got" \o t[3]} ELSE {}
                        [] x.st = "Inflate" ->
                             IF inflated[k][1] = "Ok"
                             THEN (IF t[3] # "Ok" THEN {"Table.wantOk.got" \o t[3]}
                                   ELSE IF t[4] # inflated[k][3] \/ t[5] # inflated[k][2] THEN {"Table.otherBytes"} ELSE {})
                             ELSE IF inflated[k][1] = "Err"
                             THEN (IF t[3] # "Err" THEN {"Table.wantErr.got" \o t[3]} ELSE {})
                             ELSE {})
  IN (IF e.read = "Any" \/ o.read = e.read THEN {} ELSE {"Read.want" \o e.read \o ".got" \o o.read})
     \cup (IF o.read = "Ok" /\ e.read = "Ok" /\ o.kind # e.kind THEN {"Read.kind"} ELSE {})
     \cup (IF o.read = "Ok" /\ e.read = "Ok"
           THEN UNION {IF e.prov[i] = "Any" \/ (i <= Len(o.prov) /\ o.prov[i] = e.prov[i]) THEN {}
                       ELSE {"Provider.want" \o e.prov[i] \o ".got" \o (IF i <= Len(o.prov) THEN o.prov[i] ELSE "none")} :
                       i \in 1 .. Len(e.prov)}
           ELSE {})
     \cup (IF loaded /\ e.read = "Ok" /\ e.kind # "woff2"
           THEN (IF o.tags = e.font.tags THEN {} ELSE {"Tags"})
                \cup UNION {TabFail(j) : j \in 1 .. Len(o.tabs)}
                \cup (IF o.absent = "None" THEN {} ELSE {"AbsentTag.got" \o o.absent})
           ELSE {})

---------------------------------------------------------------------------
\* Buffer-filling content (round 4).  Besides faults on fields the inputs of the property carry
\* *content* that a parser keeps in buffers of fixed size: the operand stack of a Type 2 charstring
\* interpreter and of a DICT reader holds 48 numbers in CFF and 513 in CFF2, a DICT real number is
\* converted through 64 characters, a PostScript name has at most 63 bytes.  A well-formed input may
\* fill such a buffer exactly; the contract is the same Safe(outcome), and an input that overfills it
\* by one must be answered with an error.  The model says which operand counts do that: an operator
\* of variable arity takes its operands in groups of m with a remainder in rems (`room` places of
\* the stack are taken by something else - the number of the subroutine the operator sits in).
Interpreters == {"cff", "cff2"}
BufferLimit(ip) == IF ip = "cff2" THEN 513 ELSE 48
RealBufferChars == 64
PostScriptNameBytes == 63
Form(op, m, rems, room) == [op |-> op, m |-> m, rems |-> rems, room |-> room]
OperatorForms(ip) ==
  {Form(5, 2, <<0>>, 0),                                    \* rlineto: pairs
   Form(6, 1, <<0>>, 0), Form(7, 1, <<0>>, 0),              \* hlineto, vlineto: any number
   Form(8, 6, <<0>>, 0),                                    \* rrcurveto: sixes
   Form(24, 6, <<2>>, 0),                                   \* rcurveline: sixes and a pair
   Form(25, 2, <<0>>, 0),                                   \* rlinecurve: pairs and a six
   Form(26, 4, <<1>>, 0), Form(26, 4, <<0>>, 0),            \* vvcurveto: fours, optionally one more
   Form(27, 4, <<1>>, 0), Form(27, 4, <<0>>, 0),            \* hhcurveto
   Form(30, 4, <<1>>, 0), Form(30, 4, <<0>>, 0),            \* vhcurveto: fours, the last curve may have five
   Form(31, 4, <<1>>, 0), Form(31, 4, <<0>>, 0),            \* hvcurveto
   Form(1, 2, <<0>>, 0), Form(3, 2, <<0>>, 0),              \* hstem, vstem: pairs
   Form(18, 2, <<0>>, 0), Form(23, 2, <<0>>, 0),            \* hstemhm, vstemhm
   Form(31, 4, <<0, 1>>, 1)}                                \* hvcurveto inside a subroutine
  \cup (IF ip = "cff2"
        THEN {Form(16, 2, <<1>>, 0), Form(16, 3, <<1>>, 0)} \* blend: n (k + 1) + 1 operands, k = 1, 2 regions
        ELSE {})
Accepts(f, k) == k >= 1 /\ \E i \in 1 .. Len(f.rems) : k % f.m = f.rems[i]
\* the largest count the form accepts that the buffer still holds
FillCount(f, limit) ==
  CHOOSE k \in 1 .. (limit - f.room) : Accepts(f, k) /\ \A j \in (k + 1) .. (limit - f.room) : ~Accepts(f, j)
\* what FillCount promises, stated on the buffer: the operands (and what else is on the stack) fit, no
\* larger accepted count would, and one operand more than the buffer holds never fits
FillHolds(f, limit, k) ==
  /\ Accepts(f, k) /\ k + f.room <= limit
  /\ \A j \in (k + 1) .. (k + f.m) : Accepts(f, j) => j + f.room > limit
Overfills(limit, k) == k > limit
=============================================================================
