------------------------------- MODULE Subset -------------------------------
(***************************************************************************)
(* C07 - subsetting preserves the outlines and metrics of retained glyphs. *)
(*                                                                         *)
(* The specification follows the grain of allsorts:                        *)
(*   GlyfTable::subset   (src/tables/glyf/subset.rs)  - a worklist: the    *)
(*       requested glyph ids, a cursor, and for every composite met the    *)
(*       component ids are looked up in / appended to the worklist and     *)
(*       rewritten to their position in it  (GlyfStep / AddGlyph);         *)
(*   create_hmtx_table   (src/subset.rs)              - one long metric    *)
(*       per NEW glyph, fetched through its OLD id; old ids at or past     *)
(*       numberOfHMetrics share the last advance and take their left side  *)
(*       bearing from the trailing array  (HmtxStep);                      *)
(*   CFF::subset / CFF2::subset_to_cff                - no closure: the    *)
(*       new glyphs are exactly the requested ones, in order  (CffOrder);  *)
(*       names kept, accented glyphs (seac) resolved through them          *)
(*       (CffSubsetFont, CffSubsetRelation, Dev_SeacComponentsNotPulledIn).*)
(* The machine is written as pure step operators on a small state record   *)
(* so that MC_Subset can run it one loop step per action and Trace_Subset  *)
(* can run it to completion on facts recorded from real fonts.             *)
(*                                                                         *)
(* What the property demands is SubsetRelation(src, req, out): the         *)
(* requested glyphs come first and in order, what follows are exactly the  *)
(* components pulled in, and every new glyph n with old id o has the       *)
(* outline (flattened through its components), the advance width and the  *)
(* left side bearing of glyph o in the source.                             *)
(*                                                                         *)
(* Abstract fonts (glyph g lives at index g + 1 of every sequence):        *)
(*   [n, kind, shape, comp, instr, nhm, long, tail]                        *)
(*     kind[g+1]  \in {"empty", "simple", "composite"}                     *)
(*     shape[g+1]    a token naming the contours of a simple glyph         *)
(*     comp[g+1]     sequence of component records                         *)
(*                     [g  |-> target glyph id,                            *)
(*                      fl |-> the flag bits that bear on the glyph        *)
(*                             (CompSem: ARGS_ARE_XY_VALUES, ROUND_XY_TO_  *)
(*                             GRID, the three transform bits, USE_MY_     *)
(*                             METRICS, OVERLAP_COMPOUND, (UN)SCALED_      *)
(*                             COMPONENT_OFFSET),                          *)
(*                      w  |-> ARG_1_AND_2_ARE_WORDS (an encoding choice), *)
(*                      a1, a2 |-> the two arguments (offsets, or point    *)
(*                             numbers when ARGS_ARE_XY_VALUES is clear),  *)
(*                      tr |-> the F2Dot14 raw values of the transform:    *)
(*                             <<>>, <<scale>>, <<xscale, yscale>> or      *)
(*                             <<xscale, scale01, scale10, yscale>>]       *)
(*     instr[g+1]    the instruction bytes of the glyph                    *)
(*     nhm           numberOfHMetrics, 1 .. n                              *)
(*     long          nhm records [adv, lsb];  tail: n - nhm lsb values     *)
(***************************************************************************)
EXTENDS Integers, Sequences, FiniteSets, TLC, Bitwise

Range(s) == {s[i] : i \in 1 .. Len(s)}
MinOf(S) == CHOOSE x \in S : \A y \in S : x <= y
\* no element twice (stated by counting: as many distinct elements as positions; linear for TLC also on lists of 65535 ids)
IsDistinct(s) == Cardinality(Range(s)) = Len(s)
\* 1-based position of the first occurrence, 0 when absent (Iterator::position)
PositionOf(s, x) == LET P == {i \in 1 .. Len(s) : s[i] = x} IN IF P = {} THEN 0 ELSE MinOf(P)

(***************************************************************************)
(* Named implementation choice.  The property only says that pulled-in     *)
(* components FOLLOW the requested glyphs; their relative order is free.   *)
(* allsorts appends a component the first time it is met, scanning the     *)
(* worklist front to back and each composite's components in file order.   *)
(* The machine below models that choice; ConformantOrder is what any       *)
(* implementation must satisfy.                                            *)
(***************************************************************************)
Dev_ClosureOrder == "append-when-first-met"

\* ---- the worklist machine of GlyfTable::subset --------------------------------
\* tg: function from (old) glyph id to the sequence of its component target ids (<<>> unless composite)
TargetsOf(tg, g) == IF g \in DOMAIN tg THEN tg[g] ELSE <<>>

\* add_glyph: every component id is replaced by its position in the worklist, appended when new
RECURSIVE AddGlyph(_, _, _)
AddGlyph(ids, ts, acc) ==
  IF ts = <<>> THEN [ids |-> ids, new |-> acc]
  ELSE LET t   == Head(ts)
           pos == PositionOf(ids, t)
       IN IF pos > 0 THEN AddGlyph(ids, Tail(ts), Append(acc, pos - 1))
                     ELSE AddGlyph(Append(ids, t), Tail(ts), Append(acc, Len(ids)))

Glyf0(req) == [ids |-> req, cur |-> 0, recs |-> <<>>]
GlyfMore(s) == s.cur < Len(s.ids)
\* one iteration of `while i < glyph_ids.len()`
GlyfStep(tg, s) ==
  LET g == s.ids[s.cur + 1]
      r == AddGlyph(s.ids, TargetsOf(tg, g), <<>>)
  IN [ids |-> r.ids, cur |-> s.cur + 1, recs |-> Append(s.recs, [old |-> g, comps |-> r.new])]

RECURSIVE GlyfRun(_, _)
GlyfRun(tg, s) == IF GlyfMore(s) THEN GlyfRun(tg, GlyfStep(tg, s)) ELSE s

\* SubsetGlyphs::old_id / new_id of the finished subset (new_id answers 0 for an id that was not kept)
OldId(recs, n) == recs[n + 1].old
NewId(recs, o) == LET P == {i \in 1 .. Len(recs) : recs[i].old = o} IN IF P = {} THEN 0 ELSE MinOf(P) - 1
Olds(recs) == [i \in 1 .. Len(recs) |-> recs[i].old]

\* CFF / CFF2: the new font holds exactly the requested glyphs
CffOrder(req) == [i \in 1 .. Len(req) |-> [old |-> req[i], comps |-> <<>>]]

\* ---- closure, stated independently of the machine -------------------------------
RECURSIVE Reach(_, _)
Reach(tg, S) ==
  LET T == S \cup UNION {Range(TargetsOf(tg, g)) : g \in S} IN IF T = S THEN S ELSE Reach(tg, T)
Closure(tg, req) == Reach(tg, Range(req))

ConformantOrder(tg, req, olds) ==
  /\ Len(olds) >= Len(req)
  /\ SubSeq(olds, 1, Len(req)) = req
  /\ IsDistinct(olds)
  /\ Range(olds) = Closure(tg, req)

\* each component of new glyph n refers to the new id of its old target
ComponentsRenumbered(tg, recs) ==
  \A n \in 1 .. Len(recs) :
    LET ts == TargetsOf(tg, recs[n].old) IN
    /\ Len(recs[n].comps) = Len(ts)
    /\ \A k \in 1 .. Len(ts) :
         /\ recs[n].comps[k] \in 0 .. Len(recs) - 1
         /\ recs[recs[n].comps[k] + 1].old = ts[k]

MapsInverse(recs) ==
  /\ \A n \in 0 .. Len(recs) - 1 : NewId(recs, OldId(recs, n)) = n
  /\ \A o \in Range(Olds(recs)) : OldId(recs, NewId(recs, o)) = o

\* ---- hmtx ------------------------------------------------------------------------
\* what the OpenType text says the metrics of glyph g are
AdvOf(f, g) == IF g < f.nhm THEN f.long[g + 1].adv ELSE f.long[f.nhm].adv
LsbOf(f, g) == IF g < f.nhm THEN f.long[g + 1].lsb ELSE f.tail[g - f.nhm + 1]

\* one iteration of the loop of create_hmtx_table: the metric pushed for new glyph Len(hm)
HmtxStep(src, recs, hm) ==
  LET o == recs[Len(hm) + 1].old
      m == IF o < src.nhm
           THEN src.long[o + 1]
           ELSE [adv |-> src.long[src.nhm].adv, lsb |-> src.tail[o - src.nhm + 1]]
  IN Append(hm, m)

RECURSIVE HmtxRun(_, _, _)
HmtxRun(src, recs, hm) == IF Len(hm) < Len(recs) THEN HmtxRun(src, recs, HmtxStep(src, recs, hm)) ELSE hm

\* ---- component records ---------------------------------------------------------------
\* flag bits of a component that bear on the glyph (not: ARG_1_AND_2_ARE_WORDS 0x0001, MORE_COMPONENTS
\* 0x0020, WE_HAVE_INSTRUCTIONS 0x0100 - they follow from the record's shape - and the reserved bits)
CompSem == 7886                   \* 0x1ECE
FlScale == 8                      \* WE_HAVE_A_SCALE
FlXYScale == 64                   \* WE_HAVE_AN_X_AND_Y_SCALE
FlTwoByTwo == 128                 \* WE_HAVE_A_TWO_BY_TWO
FlXY == 2                         \* ARGS_ARE_XY_VALUES
TrBitsOf(tr) == IF Len(tr) = 0 THEN 0 ELSE IF Len(tr) = 1 THEN FlScale ELSE IF Len(tr) = 2 THEN FlXYScale ELSE FlTwoByTwo
F2Dot14Raw == -32768 .. 32767

\* a component record a font file can hold
WellFormedComp(c) ==
  /\ (c.fl & CompSem) = c.fl
  /\ Len(c.tr) \in {0, 1, 2, 4}
  /\ (c.fl & (FlScale + FlXYScale + FlTwoByTwo)) = TrBitsOf(c.tr)
  /\ \A i \in 1 .. Len(c.tr) : c.tr[i] \in F2Dot14Raw
  /\ LET A == IF (c.fl & FlXY) # 0 THEN (IF c.w THEN -32768 .. 32767 ELSE -128 .. 127)
                                   ELSE (IF c.w THEN 0 .. 65535 ELSE 0 .. 255)
     IN c.a1 \in A /\ c.a2 \in A

(***************************************************************************)
(* Everything that places and shapes a component - every field of the      *)
(* record except the glyph id (renumbered) and the argument width.         *)
(* Dev_ArgWidth: the width of the two arguments is an encoding choice; an  *)
(* implementation may write words where the source had bytes (or bytes     *)
(* where the values fit).  allsorts re-serialises the width it parsed, and *)
(* so does the machine (OutFont); the relation does not demand it.         *)
(***************************************************************************)
Dev_ArgWidth == "as-parsed"
PlacementOf(c) == <<c.fl, c.a1, c.a2, c.tr>>
PlacementsOf(cs) == [k \in 1 .. Len(cs) |-> PlacementOf(cs[k])]

\* ---- the written font ------------------------------------------------------------
\* records are cloned; of a composite only the component glyph ids are rewritten (every other field
\* and the instructions are re-serialised as parsed); hmtx all long metrics
OutFont(src, recs, hm) ==
  [n     |-> Len(recs),
   kind  |-> [i \in 1 .. Len(recs) |-> src.kind[recs[i].old + 1]],
   shape |-> [i \in 1 .. Len(recs) |-> src.shape[recs[i].old + 1]],
   comp  |-> [i \in 1 .. Len(recs) |->
                LET c == src.comp[recs[i].old + 1] IN
                [k \in 1 .. Len(c) |-> [c[k] EXCEPT !.g = recs[i].comps[k]]]],
   instr |-> [i \in 1 .. Len(recs) |-> src.instr[recs[i].old + 1]],
   nhm   |-> Len(hm),
   long  |-> hm,
   tail  |-> <<>>]

\* ---- outlines: a glyph flattened through its components ----------------------------
\* result [ok, ls]: ls is the sequence of <<shape token, placement path>> of the simple glyphs reached,
\* in drawing order; the placement path lists, from the glyph down to the leaf, the placement (flags,
\* arguments, transform) of every component passed.  A cycle (or nesting deeper than the fuel) has no
\* outline: ok = FALSE.
\* Dev_OutlineAsPlacementPath: equal leaves under equal placement paths draw equal outlines.  The
\* geometric composition of 2.14 transforms does not fit TLC's integers, so the model states the
\* outline at this (finer) grain; the geometric comparison is made on recorded events through allsorts'
\* outline visitor on source and output (Trace_Subset).  An implementation that re-expressed transforms
\* (folding nested composites, say) would need the relation loosened here; allsorts clones records.
Dev_OutlineAsPlacementPath == "leaf-and-placement-path"
NoOutline == [ok |-> FALSE, ls |-> <<>>]
Under(ls, p) == [i \in 1 .. Len(ls) |-> <<ls[i][1], <<p>> \o ls[i][2]>>]

RECURSIVE Flat(_, _, _), FlatComps(_, _, _, _)
Flat(f, g, fuel) ==
  IF g < 0 \/ g >= f.n THEN NoOutline
  ELSE LET k == f.kind[g + 1] IN
       IF k = "empty" THEN [ok |-> TRUE, ls |-> <<>>]
       ELSE IF k = "simple" THEN [ok |-> TRUE, ls |-> << <<f.shape[g + 1], <<>> >> >>]
       ELSE IF fuel = 0 THEN NoOutline
       ELSE FlatComps(f, f.comp[g + 1], fuel - 1, <<>>)
FlatComps(f, cs, fuel, acc) ==
  IF cs = <<>> THEN [ok |-> TRUE, ls |-> acc]
  ELSE LET c == Head(cs)
           r == Flat(f, c.g, fuel)
       IN IF ~r.ok THEN NoOutline
          ELSE FlatComps(f, Tail(cs), fuel, acc \o Under(r.ls, PlacementOf(c)))

\* fuel: no acyclic path visits more glyphs than the font has
Outline(f, g) == Flat(f, g, f.n)

\* ---- representation choices of the source ------------------------------------------------
(***************************************************************************)
(* The abstract font above has many encodings as glyf / loca / hmtx / sfnt *)
(* bytes, all legal, some unusual.  A representation names the choices:    *)
(*   ncc     numberOfContours of each composite: ANY negative value means  *)
(*           composite (-1 is only recommended)                            *)
(*   loca    "short" (records padded to 2 bytes) | "long" (padded to 4,    *)
(*           where short offsets would do) | "long-unpadded" (odd offsets  *)
(*           and lengths) | "long-gaps" (unused bytes between records)     *)
(*   empty   a glyph without contours: "no-bytes" (two equal consecutive   *)
(*           loca offsets) | "zero-contours" (a record with                *)
(*           numberOfContours = 0; the only form that can carry            *)
(*           instructions)                                                 *)
(*   simple  the flag / coordinate encoding of simple glyphs:              *)
(*           "short-vectors" | "words-repeat" (word deltas, REPEAT flags)  *)
(*           | "overlap-bit" (OVERLAP_SIMPLE set on the first flag)        *)
(*   dir     "sorted" | "unsorted" table directory of the sfnt             *)
(* and numberOfHMetrics anywhere in 1 .. n is a choice of the same kind    *)
(* (it is part of the abstract font here because create_hmtx_table reads   *)
(* through it).                                                            *)
(* What a reader makes of a record is decided by its length and its first  *)
(* word alone (KindOfRecord).  SubsetRelation, GlyphPreserved and what     *)
(* MC_Subset prescribes for a case are stated on the abstract font: no     *)
(* operator of the property takes a representation, so two sources with    *)
(* the same abstraction have the same conforming outputs (RepIndependent   *)
(* is the lemma that every representation of Reps decodes to the font it   *)
(* encodes, checked by MC_Subset on the representation of every case).     *)
(* An implementation that looks at the bytes differently - composite only  *)
(* if numberOfContours = -1, say (seeded change C07-r2m3) - computes       *)
(* another closure for the same abstract font and breaks SubsetRelation.   *)
(***************************************************************************)
RepNC == {-1, -2, -32768}
RepLoca == {"short", "long", "long-unpadded", "long-gaps"}
RepEmpty == {"no-bytes", "zero-contours"}
RepSimple == {"short-vectors", "words-repeat", "overlap-bit"}
RepDir == {"sorted", "unsorted"}
\* rep = [ncc : per glyph (index g + 1) a value of RepNC, loca, empty, simple, dir]
WellFormedRep(f, rep) ==
  /\ Len(rep.ncc) = f.n /\ \A i \in 1 .. f.n : rep.ncc[i] \in RepNC
  /\ rep.loca \in RepLoca /\ rep.empty \in RepEmpty /\ rep.simple \in RepSimple /\ rep.dir \in RepDir

\* the kind a reader gives a record of `len` bytes whose first word is `nc`
KindOfRecord(len, nc) == IF len = 0 \/ nc = 0 THEN "empty" ELSE IF nc > 0 THEN "simple" ELSE "composite"

\* contours of the simple glyph with shape token t (the generator's shapes: one contour, two for odd tokens)
ShapeContours(t) == IF t % 2 = 1 THEN 2 ELSE 1
\* first word and (whether there are any) bytes of the record that encodes glyph g under rep
RecNC(f, g, rep) ==
  LET k == f.kind[g + 1] IN
  IF k = "composite" THEN rep.ncc[g + 1] ELSE IF k = "simple" THEN ShapeContours(f.shape[g + 1]) ELSE 0
RecHasBytes(f, g, rep) ==
  f.kind[g + 1] # "empty" \/ rep.empty = "zero-contours" \/ f.instr[g + 1] # <<>>

RepIndependent(f, rep) ==
  \A g \in 0 .. f.n - 1 :
    KindOfRecord(IF RecHasBytes(f, g, rep) THEN 12 ELSE 0, RecNC(f, g, rep)) = f.kind[g + 1]

\* ---- name-keyed CFF: glyph names, accented glyphs (seac), representation choices ------------
(***************************************************************************)
(* CFF::subset (src/cff/subset.rs) copies the charstrings of the requested *)
(* glyphs and keeps their names; nothing is pulled in (CffOrder).  What a  *)
(* charstring draws can nevertheless depend on OTHER glyphs: the seac form *)
(* of endchar, `adx ady bchar achar endchar`, draws the glyph NAMED by the  *)
(* StandardEncoding code bchar and, displaced by (adx, ady), the glyph     *)
(* named by achar: code -> StandardEncoding SID -> the glyph whose name in *)
(* the font's charset is that SID (Font::seac_code_to_glyph_id).           *)
(* Abstract name-keyed font  [n, name, glyph]  (glyph g at index g + 1):   *)
(*   name[g+1]   string id of the glyph's name, 0 for .notdef               *)
(*   glyph[g+1]  [acc |-> FALSE, shape |-> token]   or                      *)
(*               [acc |-> TRUE, b |-> code, a |-> code, dx |-> , dy |-> ]   *)
(* An outline is a sequence of <<shape token, dx, dy>> in drawing order.   *)
(***************************************************************************)
\* TN5176 appendix B (StandardEncoding), code -> SID; 0 = not encoded
StdEncSID(c) ==
  IF c \in 32 .. 126 THEN c - 31
  ELSE IF c \in 161 .. 175 THEN c - 161 + 96
  ELSE IF c \in 177 .. 180 THEN c - 177 + 111
  ELSE IF c \in 182 .. 189 THEN c - 182 + 115
  ELSE IF c = 191 THEN 123
  ELSE IF c \in 193 .. 200 THEN c - 193 + 124
  ELSE IF c \in 202 .. 203 THEN c - 202 + 132
  ELSE IF c \in 205 .. 208 THEN c - 205 + 134
  ELSE IF c = 225 THEN 138
  ELSE IF c = 227 THEN 139
  ELSE IF c \in 232 .. 235 THEN c - 232 + 140
  ELSE IF c = 241 THEN 144
  ELSE IF c = 245 THEN 145
  ELSE IF c \in 248 .. 251 THEN c - 248 + 146
  ELSE 0

\* the glyph that bears a name, -1 when the font has none (sid 0 is .notdef = glyph 0)
GlyphOfName(f, sid) ==
  IF sid = 0 THEN 0
  ELSE LET P == {g \in 1 .. f.n - 1 : f.name[g + 1] = sid} IN IF P = {} THEN -1 ELSE MinOf(P)
SeacBase(f, g) == GlyphOfName(f, StdEncSID(f.glyph[g + 1].b))
SeacAccent(f, g) == GlyphOfName(f, StdEncSID(f.glyph[g + 1].a))

ShiftBy(ls, dx, dy) == [i \in 1 .. Len(ls) |-> <<ls[i][1], ls[i][2] + dx, ls[i][3] + dy>>]
\* base at the origin, accent displaced; a component that is itself accented is resolved the same way (allsorts
\* recurses); a name the font does not have, or a chain longer than the fuel (a cycle), has no outline
RECURSIVE CffFlat(_, _, _)
CffFlat(f, g, fuel) ==
  IF g < 0 \/ g >= f.n THEN NoOutline
  ELSE LET c == f.glyph[g + 1] IN
       IF ~c.acc THEN [ok |-> TRUE, ls |-> << <<c.shape, 0, 0>> >>]
       ELSE IF fuel = 0 THEN NoOutline
       ELSE LET rb == CffFlat(f, SeacBase(f, g), fuel - 1)
                ra == CffFlat(f, SeacAccent(f, g), fuel - 1)
            IN IF rb.ok /\ ra.ok THEN [ok |-> TRUE, ls |-> rb.ls \o ShiftBy(ra.ls, c.dx, c.dy)] ELSE NoOutline
CffOutline(f, g) == CffFlat(f, g, f.n)

\* the glyphs an accented glyph draws through (itself included)
RECURSIVE SeacReach(_, _)
SeacReach(f, S) ==
  LET T == S \cup UNION {IF f.glyph[g + 1].acc THEN {SeacBase(f, g), SeacAccent(f, g)} \ {-1} ELSE {} : g \in S}
  IN IF T = S THEN S ELSE SeacReach(f, T)
SeacClosedIn(f, req, g) == SeacReach(f, {g}) \subseteq Range(req)

\* the machine: charstrings copied, names kept (the new font holds exactly the requested glyphs, in order)
CffSubsetFont(src, req) ==
  [n     |-> Len(req),
   name  |-> [i \in 1 .. Len(req) |-> src.name[req[i] + 1]],
   glyph |-> [i \in 1 .. Len(req) |-> src.glyph[req[i] + 1]]]

(***************************************************************************)
(* How the charset of the written font is STORED is the implementation's   *)
(* choice: allsorts writes the predefined ISOAdobe charset (no table, the   *)
(* Top DICT says `0 charset`) when the kept names are 1, 2, 3 .. in glyph  *)
(* order and there are at most 228 of them, a format 0 table otherwise.    *)
(* Whatever is chosen must decode to the names kept (CharsetFaithful): an  *)
(* implementation that chooses ISOAdobe by looking at the glyph IDS of a    *)
(* prefix request (seeded change C07-r3m2) writes other names for the same *)
(* glyphs, and an accented glyph is then built from the wrong components.  *)
(***************************************************************************)
IsoAdobeLast == 228
NamesAreIsoAdobe(names) == Len(names) - 1 <= IsoAdobeLast /\ \A i \in 1 .. Len(names) : names[i] = i - 1
CharsetChoice(names) == IF NamesAreIsoAdobe(names) THEN "isoadobe" ELSE "format0"
NamesDecoded(choice, names) == IF choice = "isoadobe" THEN [i \in 1 .. Len(names) |-> i - 1] ELSE names
CharsetFaithful(names) == NamesDecoded(CharsetChoice(names), names) = names

(***************************************************************************)
(* Dev_SeacComponentsNotPulledIn.  The property lets "composite components *)
(* pulled in" follow the requested glyphs; allsorts pulls nothing in for a  *)
(* CFF font, so an accented glyph whose base or accent is not requested     *)
(* cannot be drawn from the subset (the name is gone: InvalidSeacCode).     *)
(* Read strictly that is a lost outline; the reading adopted here is that   *)
(* the caller chooses the closure of a CFF request: the outline of an       *)
(* accented glyph is demanded when its components are among the requested   *)
(* glyphs, otherwise it may be missing - but if the glyph draws, it draws   *)
(* what it drew in the source.                                              *)
(***************************************************************************)
Dev_SeacComponentsNotPulledIn == "outline-demanded-only-when-the-components-are-requested"
CffGlyphPreserved(src, req, out, n) ==
  LET o == req[n + 1]
      want == CffOutline(src, o)
      got == CffOutline(out, n)
  IN IF SeacClosedIn(src, req, o) THEN got = want ELSE got \in {want, NoOutline}

CffSubsetRelation(src, req, out) ==
  /\ out.n = Len(req)
  /\ \A n \in 0 .. out.n - 1 : CffGlyphPreserved(src, req, out, n)

(***************************************************************************)
(* Representation choices of a CFF SOURCE (TN5176; cffrep.rs writes them): *)
(*   hdr      hdrSize: 4, or more - the bytes in between are skipped        *)
(*   hoff     the header's offSize byte, 1 .. 4                             *)
(*   ioff     offSize of the INDEXes: 0 = as small as possible, or 2, 3, 4  *)
(*   top      order of the Top DICT operators (one of four)                 *)
(*   short    offsets as shortest operands or in the five byte form         *)
(*   charset  "f0" | "f1" | "f2" tables, or predefined: "iso-omitted" (no   *)
(*            charset operator: ISOAdobe is the default), "iso-0" (`0       *)
(*            charset`) - legal only if the names ARE ISOAdobe's            *)
(*   enc      Encoding absent | "standard" | "expert" | "custom0" |         *)
(*            "custom1"                                                     *)
(*   blocks   order of CharStrings / charset / Encoding / Private in the    *)
(*            table; gap: bytes between a Private DICT and its Subrs INDEX  *)
(*   priv     order of the Private DICT entries; subrs: local and global    *)
(*            subroutines present (and called) or not; widths: which of     *)
(*            defaultWidthX / nominalWidthX the Private DICT has (the       *)
(*            charstrings carry their width operand accordingly)            *)
(* No operator of the property (CffOutline, CffGlyphPreserved,              *)
(* CffSubsetRelation) takes a representation: two sources that decode to    *)
(* the same abstract font have the same conforming subsets.                 *)
(* CffRepIndependent is the lemma that a representation decodes to the font *)
(* it encodes as far as names go (the part a predefined charset can get     *)
(* wrong); MC_SubsetCff checks it on the representation of every case.  An  *)
(* implementation that writes the source's hdrSize back over a four byte    *)
(* header (seeded change C07-r3m3) makes the result depend on `hdr`.        *)
(***************************************************************************)
CffRepHdr == {4, 5, 8}
CffRepCharset == {"f0", "f1", "f2", "iso-omitted", "iso-0"}
CffRepEnc == {"absent", "standard", "expert", "custom0", "custom1"}
WellFormedCffRep(f, rep) ==
  /\ rep.hdr \in CffRepHdr /\ rep.hoff \in 1 .. 4 /\ rep.ioff \in {0, 2, 3, 4} /\ rep.top \in 0 .. 3
  /\ rep.short \in BOOLEAN /\ rep.charset \in CffRepCharset /\ rep.enc \in CffRepEnc
  /\ rep.blocks \in 0 .. 2 /\ rep.gap \in 0 .. 7 /\ rep.priv \in 0 .. 1 /\ rep.subrs \in BOOLEAN /\ rep.widths \in 0 .. 3
  /\ (rep.charset \in {"iso-omitted", "iso-0"} => NamesAreIsoAdobe(f.name))
\* the names a reader finds under a charset representation
NamesUnderRep(f, rep) == IF rep.charset \in {"iso-omitted", "iso-0"} THEN [i \in 1 .. f.n |-> i - 1] ELSE f.name
CffRepIndependent(f, rep) == NamesUnderRep(f, rep) = f.name

\* ---- CFF with subroutines, CID-keyed CFF: used subroutines at stable indices, FDSelect rebuilt ----
(***************************************************************************)
(* CFF::subset copies the charstrings of the requested glyphs byte for     *)
(* byte.  What such a charstring draws depends on three things outside it: *)
(*   - the global Subr INDEX (callgsubr),                                  *)
(*   - the local Subr INDEX of the glyph's Font DICT (callsubr) - for a     *)
(*     CID-keyed font the Font DICT FDSelect assigns to the glyph,          *)
(*   - the NUMBER of subroutines of that INDEX: the operand of a call is    *)
(*     biased (index = operand + Bias(count), TN5177 section 4.7), so an    *)
(*     INDEX rebuilt with another count re-targets every copied call.       *)
(* allsorts keeps every INDEX at its source length, fills in the used       *)
(* subroutines (those a requested glyph reaches, also through other         *)
(* subroutines; a local one also when only a global subroutine calls it)    *)
(* and leaves the others empty; an INDEX nothing uses is dropped; FDSelect  *)
(* is written afresh (format 0) from the Font DICT of each OLD id.          *)
(* Abstract font [n, nfd, fd, glyph, lsub, gsub]:                           *)
(*   fd[g+1]     Font DICT of glyph g (0 for a name-keyed font: nfd = 1)    *)
(*   glyph[g+1]  charstring: sequence of items <<0, shape token>>,          *)
(*               <<1, operand>> (callsubr), <<2, operand>> (callgsubr)      *)
(*   lsub[f+1], gsub   a Subr INDEX [n, def, empty]: n subroutines, def =   *)
(*               sequence of <<index, body>> for the ones that matter, the  *)
(*               others hold a bare `return` (empty = FALSE: a source) or   *)
(*               nothing at all (empty = TRUE: a rebuilt INDEX)             *)
(* The outline of a glyph is the sequence of shape tokens its charstring    *)
(* draws (CidOutline); a call that leaves the INDEX, enters an empty        *)
(* subroutine or nests deeper than 10 has no outline.                       *)
(***************************************************************************)
Bias(n) == IF n < 1240 THEN 107 ELSE IF n < 33900 THEN 1131 ELSE 32768
NoSubrs == [n |-> 0, def |-> <<>>, empty |-> TRUE]
MaxSubrDepth == 10
SubrDefined(ix, k) == \E i \in 1 .. Len(ix.def) : ix.def[i][1] = k
SubrBody(ix, k) == ix.def[CHOOSE i \in 1 .. Len(ix.def) : ix.def[i][1] = k][2]
SubrIndexOf(f, fd, it) == IF it[1] = 1 THEN f.lsub[fd + 1] ELSE f.gsub

RECURSIVE CsRun(_, _, _, _)
CsRun(f, fd, cs, fuel) ==
  IF cs = <<>> THEN [ok |-> TRUE, ls |-> <<>>]
  ELSE LET it == Head(cs)
           first == IF it[1] = 0 THEN [ok |-> TRUE, ls |-> <<it[2]>>]
                    ELSE LET ix == SubrIndexOf(f, fd, it)
                             k == it[2] + Bias(ix.n)
                         IN IF fuel = 0 \/ k < 0 \/ k >= ix.n THEN NoOutline
                            ELSE IF SubrDefined(ix, k) THEN CsRun(f, fd, SubrBody(ix, k), fuel - 1)
                            ELSE IF ix.empty THEN NoOutline ELSE [ok |-> TRUE, ls |-> <<>>]
       IN IF ~first.ok THEN NoOutline
          ELSE LET rest == CsRun(f, fd, Tail(cs), fuel) IN
               IF rest.ok THEN [ok |-> TRUE, ls |-> first.ls \o rest.ls] ELSE NoOutline
CidOutline(f, g) == CsRun(f, f.fd[g + 1], f.glyph[g + 1], MaxSubrDepth)

\* char_string_used_subrs: every <<1 | 2, index>> a charstring reaches (the interpreter walks into the subroutines)
RECURSIVE CsUsed(_, _, _, _)
CsUsed(f, fd, cs, fuel) ==
  UNION {IF it[1] = 0 \/ fuel = 0 THEN {}
         ELSE LET ix == SubrIndexOf(f, fd, it)
                  k == it[2] + Bias(ix.n)
              IN IF k < 0 \/ k >= ix.n THEN {}
                 ELSE {<<it[1], k>>} \cup (IF SubrDefined(ix, k) THEN CsUsed(f, fd, SubrBody(ix, k), fuel - 1) ELSE {})
         : it \in Range(cs)}
UsedLocal(f, g) == {u[2] : u \in {v \in CsUsed(f, f.fd[g + 1], f.glyph[g + 1], MaxSubrDepth) : v[1] = 1}}
UsedGlobal(f, g) == {u[2] : u \in {v \in CsUsed(f, f.fd[g + 1], f.glyph[g + 1], MaxSubrDepth) : v[1] = 2}}

RECURSIVE SortedSeq(_)
SortedSeq(S) == IF S = {} THEN <<>> ELSE LET m == MinOf(S) IN <<m>> \o SortedSeq(S \ {m})
\* rebuild_*_subr_index: same number of entries, the used ones copied, the others empty; nothing used = no INDEX
KeepSubrs(ix, U) ==
  IF U = {} THEN NoSubrs
  ELSE [n |-> ix.n, empty |-> TRUE,
        def |-> LET q == SortedSeq(U) IN [i \in 1 .. Len(q) |-> <<q[i], IF SubrDefined(ix, q[i]) THEN SubrBody(ix, q[i]) ELSE <<>> >>]]

\* the loop of CFF::subset on a state [cur, glyphs, fdsel, usedG, usedL] (usedL[i]: local subroutines of the i-th new glyph)
Cid0 == [cur |-> 0, glyphs |-> <<>>, fdsel |-> <<>>, usedG |-> {}, usedL |-> <<>>]
CidStep(src, req, st) ==
  LET g == req[st.cur + 1] IN
  [cur |-> st.cur + 1, glyphs |-> Append(st.glyphs, src.glyph[g + 1]), fdsel |-> Append(st.fdsel, src.fd[g + 1]),
   usedG |-> st.usedG \cup UsedGlobal(src, g), usedL |-> Append(st.usedL, UsedLocal(src, g))]
CidOut(src, st) ==
  [n |-> Len(st.glyphs), nfd |-> src.nfd, fd |-> st.fdsel, glyph |-> st.glyphs,
   gsub |-> KeepSubrs(src.gsub, st.usedG),
   lsub |-> [f \in 1 .. src.nfd |-> KeepSubrs(src.lsub[f], UNION {st.usedL[i] : i \in {j \in 1 .. Len(st.glyphs) : st.fdsel[j] = f - 1}})]]

\* what the property demands, stated without the machine: the requested glyphs in order, each drawing what it drew
CidSubsetRelation(src, req, out) ==
  /\ out.n = Len(req)
  /\ \A n \in 0 .. out.n - 1 : CidOutline(out, n) = CidOutline(src, req[n + 1])
\* copied calls keep their targets only if every rebuilt INDEX stays in the bias class of its source
BiasKept(src, out) ==
  /\ out.gsub.n > 0 => Bias(out.gsub.n) = Bias(src.gsub.n)
  /\ \A f \in 1 .. src.nfd : out.lsub[f].n > 0 => Bias(out.lsub[f].n) = Bias(src.lsub[f].n)

\* ---- the property -----------------------------------------------------------------
\* a retained glyph keeps its kind and its instructions, a retained composite every field of every
\* component except the (renumbered) glyph id (Dev_ArgWidth: and the argument width)
RecordKept(src, out, n, o) ==
  /\ out.kind[n + 1] = src.kind[o + 1]
  /\ PlacementsOf(out.comp[n + 1]) = PlacementsOf(src.comp[o + 1])
  /\ out.instr[n + 1] = src.instr[o + 1]

GlyphPreserved(src, out, n, o) ==
  /\ Outline(out, n) = Outline(src, o)
  /\ RecordKept(src, out, n, o)
  /\ AdvOf(out, n) = AdvOf(src, o)
  /\ LsbOf(out, n) = LsbOf(src, o)

TargetFn(src) == [g \in 0 .. src.n - 1 |-> [k \in 1 .. Len(src.comp[g + 1]) |-> src.comp[g + 1][k].g]]

SubsetRelation(src, req, recs, out) ==
  /\ out.n = Len(recs)
  /\ ConformantOrder(TargetFn(src), req, Olds(recs))
  /\ \A n \in 0 .. out.n - 1 : GlyphPreserved(src, out, n, OldId(recs, n))

\* the whole of subset_ttf as far as glyphs and metrics go
SubsetGlyf(src, req) ==
  LET s  == GlyfRun(TargetFn(src), Glyf0(req))
      hm == HmtxRun(src, s.recs, <<>>)
  IN [recs |-> s.recs, out |-> OutFont(src, s.recs, hm)]
=============================================================================
