CONSTANTS
  FB = 6
  MaxExtra = 1
  SmallVals <- SmallValsThorough
  RealAxes <- RealAxesThorough
  RealMaps <- RealMapsThorough
SPECIFICATION Spec
INVARIANTS DesignOK RealOK EmitCase EmitStat
CHECK_DEADLOCK FALSE
