CONSTANTS
  FB = 6
  MaxExtra = 1
  SmallVals <- SmallValsThorough
  RealAxes <- RealAxesThorough
  RealMaps <- RealMapsThorough
  GenLevel = 2
  GenFroms <- GenFromsThorough
  GenTos <- GenTosThorough
  GenAxes <- GenAxesThorough
  RealAxes2 <- RealAxes2Thorough
  RealMaps2 <- RealMaps2Thorough
  LayAxes <- LayAxesThorough
  LayMaps <- LayMapsQuick
  Layouts <- LayoutsThorough
SPECIFICATION Spec
INVARIANTS DesignOK RealOK LayoutOK EmitCase EmitStat
CHECK_DEADLOCK FALSE
