------------------------------ MODULE MC_Sfnt ------------------------------
(***************************************************************************)
(* Bounded exploration of Sfnt: every small container (bare sfnt, TTC of   *)
(* 1-3 members with shared tables, WOFF with every compressed/raw choice), *)
(* every directory order, body order and gap pattern, plus single-field    *)
(* damage (a range running past the end of the file, a member offset past  *)
(* the end).  For intact containers TLC checks the design property         *)
(* RoundTrip (reader o writer = identity on contents, tags, flavour;       *)
(* absent tag -> none; member index beyond the end -> error).  Every state *)
(* prints one CASE: the file bytes and, per member index and tag, what the *)
(* reader specification prescribes - replayed on allsorts by c10_containers*)
(***************************************************************************)
EXTENDS Sfnt, Json

CONSTANT Thorough

VARIABLES c, done
vars == <<c, done>>

TagA == <<97, 97, 97, 97>>
TagB == <<98, 98, 98, 98>>
TagC == <<99, 99, 99, 99>>
TagZ == <<122, 122, 122, 122>>             \* never stored
TagsPool == <<TagA, TagB, TagC>>

\* table content pools: lengths 0, 1, 3, 4, 5 in different positions
ContentSets ==
  IF Thorough
  THEN {<<<<>>, <<1>>, <<1, 2, 3>>>>, <<<<9, 8, 7, 6>>, <<5, 5, 5, 5, 5>>, <<>>>>,
        <<<<1, 2, 3>>, <<4>>, <<9, 8, 7, 6>>>>, <<<<7>>, <<7>>, <<7, 7>>>>}
  ELSE {<<<<>>, <<1>>, <<1, 2, 3>>>>, <<<<9, 8, 7, 6>>, <<5, 5, 5, 5, 5>>, <<2>>>>}

Flavors == SfntMagics     \* 0x00010000, 'true', 'OTTO' in both tiers (a WOFF of flavour 'true' is what the instancer's output wraps to)

Perms(S) == {p \in [1 .. Cardinality(S) -> S] : \A i, j \in 1 .. Cardinality(S) : i # j => p[i] # p[j]}

\* directories: which tables (by id) a member lists, in which order, under which tags.
\* Tag k names table k, except "dup" directories where two records carry the same tag (first wins)
\* and "alias" directories where two tags point at one table (shared range).
PlainDirs(ids) == {[k \in 1 .. Cardinality(ids) |-> [tag |-> TagsPool[p[k]], tid |-> p[k]]] : p \in Perms(ids)}
DupDirs   == {<<[tag |-> TagA, tid |-> 1], [tag |-> TagA, tid |-> 2], [tag |-> TagC, tid |-> 3]>>,
              <<[tag |-> TagB, tid |-> 2], [tag |-> TagA, tid |-> 3], [tag |-> TagB, tid |-> 1]>>}
AliasDirs == {<<[tag |-> TagA, tid |-> 2], [tag |-> TagB, tid |-> 2], [tag |-> TagC, tid |-> 3]>>}
IdSets == {{1}, {1, 2}, {2, 3}, {1, 2, 3}}
Dirs == UNION {PlainDirs(ids) : ids \in IdSets} \cup DupDirs \cup AliasDirs \cup {<<>>}

GapChoices == IF Thorough THEN {0, 1, 3} ELSE {0, 3}
GapMaps == [1 .. 3 -> GapChoices]
Orders == Perms({1, 2, 3})

\* members of collections: a few sharing patterns
TtcMemberLists ==
  LET d1 == <<[tag |-> TagA, tid |-> 1], [tag |-> TagB, tid |-> 2]>>
      d2 == <<[tag |-> TagB, tid |-> 2], [tag |-> TagC, tid |-> 3]>>
      d3 == <<[tag |-> TagC, tid |-> 1], [tag |-> TagA, tid |-> 3], [tag |-> TagB, tid |-> 2]>>
      d4 == <<[tag |-> TagA, tid |-> 1]>>
  IN {<<d1>>, <<d1, d2>>, <<d2, d1>>, <<d1, d2, d3>>, <<d3, d4, d4>>, <<d4, <<>>, d2>>, <<>>}

\* damage: none, or one patched field
Damages == {"none", "lenPastEof", "offPastEof", "offAtEof", "memberPastEof", "truncDir"}

\* The universe of cases, as three families.  Init draws a case through nested quantifiers instead of
\* c \in (one big union set): TLC then enumerates initial states one by one and never has to build and
\* normalise a set of ~200 000 nested records (which took > 15 min single-threaded in the thorough tier).
SfntCase(t, f, d, o, g, dm) ==
  [kind |-> "sfnt", tables |-> t, members |-> <<[flavor |-> f, dir |-> d]>>, order |-> o, gaps |-> g,
   zipped |-> {}, major |-> 1, damage |-> dm]
TtcCase(t, ml, o, g, mj, dm) ==
  [kind |-> "ttc", tables |-> t, members |-> [k \in 1 .. Len(ml) |-> [flavor |-> MagicTTF, dir |-> ml[k]]],
   order |-> o, gaps |-> g, zipped |-> {}, major |-> mj, damage |-> dm]
WoffCase(t, f, d, o, g, z, dm) ==
  [kind |-> "woff", tables |-> t, members |-> <<[flavor |-> f, dir |-> d]>>, order |-> o, gaps |-> g,
   zipped |-> z, major |-> 1, damage |-> dm]

SfntOrders == {Orders1 \in Orders : Thorough \/ Orders1[1] # 2}
SfntGaps   == {gm \in GapMaps : Thorough \/ gm[2] = gm[3]}
TtcOrders  == {Orders1 \in Orders : Thorough \/ Orders1[1] = 1}
FlatGaps   == {gm \in GapMaps : gm[1] = gm[2] /\ gm[2] = gm[3]}
WoffDirs   == {dd \in Dirs : Thorough \/ Len(dd) # 2}
WoffOrders == {Orders1 \in Orders : Thorough \/ Orders1[1] = 3}

IsCase(x) ==
  \/ \E t \in ContentSets, f \in Flavors, d \in Dirs, o \in SfntOrders, g \in SfntGaps,
        dm \in {"none", "lenPastEof", "offPastEof", "offAtEof", "truncDir"} : x = SfntCase(t, f, d, o, g, dm)
  \/ \E t \in ContentSets, ml \in TtcMemberLists, o \in TtcOrders, g \in FlatGaps, mj \in {1, 2},
        dm \in {"none", "memberPastEof", "lenPastEof"} : x = TtcCase(t, ml, o, g, mj, dm)
  \/ \E t \in ContentSets, f \in Flavors, d \in WoffDirs, o \in WoffOrders, g \in FlatGaps, z \in SUBSET {1, 2, 3},
        dm \in {"none", "lenPastEof"} : x = WoffCase(t, f, d, o, g, z, dm)

Intact(x) ==
  CASE x.kind = "sfnt" -> WriteSfnt(x.tables, x.members[1], x.order, x.gaps)
    [] x.kind = "ttc"  -> WriteTtc(x.tables, x.members, x.order, x.gaps, x.major)
    [] x.kind = "woff" -> WriteWoff(x.tables, x.members[1], x.order, x.gaps, x.zipped)

Patch(bs, p, new) == [k \in 1 .. Len(bs) |-> IF k > p /\ k <= p + Len(new) THEN new[k - p] ELSE bs[k]]

\* position of the first directory record's offset / length field of member 1
RecPos(x) == CASE x.kind = "sfnt" -> [off |-> 12 + 8, len |-> 12 + 12]
               [] x.kind = "ttc"  -> [off |-> 12 + 4 * Len(x.members) + 12 + 8, len |-> 12 + 4 * Len(x.members) + 12 + 12]
               [] x.kind = "woff" -> [off |-> 44 + 4, len |-> 44 + 8]

HasRec(x) == x.members # <<>> /\ x.members[1].dir # <<>>

Damaged(x) ==
  LET bs == Intact(x)  n == Len(bs) IN
  CASE x.damage = "none"          -> bs
    [] x.damage = "lenPastEof"    -> IF HasRec(x) THEN Patch(bs, RecPos(x).len, U32(n + 1)) ELSE bs
    [] x.damage = "offPastEof"    -> IF HasRec(x) THEN Patch(bs, RecPos(x).off, U32(n + 1)) ELSE bs
    [] x.damage = "offAtEof"      -> IF HasRec(x) THEN Patch(bs, RecPos(x).off, U32(n)) ELSE bs
    [] x.damage = "memberPastEof" -> IF x.members # <<>> THEN Patch(bs, 12, U32(n + 4)) ELSE bs
    [] x.damage = "truncDir"      -> IF n > 20 THEN SubSeq(bs, 1, 12 + 8) ELSE bs   \* directory cut short

---------------------------------------------------------------------------
Init == /\ IsCase(c)
        /\ done = FALSE
Next == /\ ~done /\ done' = TRUE /\ UNCHANGED c
Spec == Init /\ [][Next]_vars

\* Design property on intact containers.
RoundTripOK ==
  c.damage = "none" => RoundTrip(Intact(c), c.kind, c.tables, c.members, TagZ)

\* An error is an error: the property does not fix which one.
Norm(r) == IF r.ok THEN r ELSE Err("Err")

QueryTags == <<TagA, TagB, TagC, TagZ>>
MemberObs(bs, ld, i) ==
  LET p == Provider(bs, ld.v, i) IN
  IF ~p.ok THEN [i |-> i, ok |-> FALSE, flavor |-> <<>>, tags |-> <<>>, data |-> <<>>, has |-> <<>>]
  ELSE [i |-> i, ok |-> TRUE, flavor |-> Flavor(p.v), tags |-> Tags(p.v),
        data |-> [k \in 1 .. 4 |-> Norm(TableData(bs, ld.v.kind, p.v, QueryTags[k]))],
        has  |-> [k \in 1 .. 4 |-> HasTable(p.v, QueryTags[k])]]

Expect(bs) ==
  LET ld == Load(bs) IN
  IF ~ld.ok THEN [load |-> FALSE, kind |-> "", members |-> <<>>]
  ELSE [load |-> TRUE, kind |-> ld.v.kind,
        members |-> [k \in 1 .. (IF ld.v.kind = "ttc" THEN Len(ld.v.offsets) + 2 ELSE 3) |-> MemberObs(bs, ld, k - 1)]]

EmitCase ==
  done => LET bs == Damaged(c) IN
          PrintT(<<"CASE", ToJson([kind |-> c.kind, damage |-> c.damage, bytes |-> bs,
                                   qtags |-> QueryTags, exp |-> Expect(bs)])>>)

\* reader results never leak bytes that are not the stored table (also for damaged files):
\* whatever TableData returns is a sub-sequence of the file (raw) or the inflation of one.
NoOtherData ==
  LET bs == Damaged(c)  ld == Load(bs) IN
  ld.ok => \A i \in 0 .. 2 : LET p == Provider(bs, ld.v, i) IN
             p.ok => \A k \in 1 .. 4 :
                LET r == TableData(bs, ld.v.kind, p.v, QueryTags[k]) IN
                (r.ok /\ r.v[1] = "some" /\ c.damage = "none") =>
                   \E m \in 1 .. Len(c.members) : \E d \in 1 .. Len(c.members[m].dir) :
                       r.v[2] = c.tables[c.members[m].dir[d].tid]
=============================================================================
