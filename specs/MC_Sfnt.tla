------------------------------ MODULE MC_Sfnt ------------------------------
(***************************************************************************)
(* Bounded exploration of Sfnt: every small container (bare sfnt, TTC of   *)
(* 1-3 members with shared tables, WOFF with every compressed/raw choice), *)
(* every directory order, body order and gap pattern, plus single-field    *)
(* damage (a range running past the end of the file, a member offset past  *)
(* the end).  For intact containers TLC checks the design property         *)
(* RoundTrip (reader o writer = identity on contents, tags, flavour;       *)
(* absent tag -> none; member index beyond the end -> error).  Every state *)
(* prints one CASE: the file bytes and, per member index and tag, what the *)
(* reader specification prescribes - replayed on allsorts by c10_containers*)
(***************************************************************************)
EXTENDS Sfnt, Json

CONSTANT Thorough

VARIABLES c, done
vars == <<c, done>>

TagA == <<97, 97, 97, 97>>
TagB == <<98, 98, 98, 98>>
TagC == <<99, 99, 99, 99>>
TagZ == <<122, 122, 122, 122>>             \* never stored
TagsPool == <<TagA, TagB, TagC>>

\* table content pools: lengths 0, 1, 3, 4, 5 in different positions
ContentSets ==
  IF Thorough
  THEN {<<<<>>, <<1>>, <<1, 2, 3>>>>, <<<<9, 8, 7, 6>>, <<5, 5, 5, 5, 5>>, <<>>>>,
        <<<<1, 2, 3>>, <<4>>, <<9, 8, 7, 6>>>>, <<<<7>>, <<7>>, <<7, 7>>>>}
  ELSE {<<<<>>, <<1>>, <<1, 2, 3>>>>, <<<<9, 8, 7, 6>>, <<5, 5, 5, 5, 5>>, <<2>>>>}

Flavors == SfntMagics     \* 0x00010000, 'true', 'OTTO' in both tiers (a WOFF of flavour 'true' is what the instancer's output wraps to)

Perms(S) == {p \in [1 .. Cardinality(S) -> S] : \A i, j \in 1 .. Cardinality(S) : i # j => p[i] # p[j]}

\* directories: which tables (by id) a member lists, in which order, under which tags.
\* Tag k names table k, except "dup" directories where two records carry the same tag (first wins)
\* and "alias" directories where two tags point at one table (shared range).
PlainDirs(ids) == {[k \in 1 .. Cardinality(ids) |-> [tag |-> TagsPool[p[k]], tid |-> p[k]]] : p \in Perms(ids)}
DupDirs   == {<<[tag |-> TagA, tid |-> 1], [tag |-> TagA, tid |-> 2], [tag |-> TagC, tid |-> 3]>>,
              <<[tag |-> TagB, tid |-> 2], [tag |-> TagA, tid |-> 3], [tag |-> TagB, tid |-> 1]>>}
AliasDirs == {<<[tag |-> TagA, tid |-> 2], [tag |-> TagB, tid |-> 2], [tag |-> TagC, tid |-> 3]>>}
IdSets == {{1}, {1, 2}, {2, 3}, {1, 2, 3}}
Dirs == UNION {PlainDirs(ids) : ids \in IdSets} \cup DupDirs \cup AliasDirs \cup {<<>>}

GapChoices == IF Thorough THEN {0, 1, 3} ELSE {0, 3}
GapMaps == [1 .. 3 -> GapChoices]
Orders == Perms({1, 2, 3})

\* members of collections: a few sharing patterns
TtcMemberLists ==
  LET d1 == <<[tag |-> TagA, tid |-> 1], [tag |-> TagB, tid |-> 2]>>
      d2 == <<[tag |-> TagB, tid |-> 2], [tag |-> TagC, tid |-> 3]>>
      d3 == <<[tag |-> TagC, tid |-> 1], [tag |-> TagA, tid |-> 3], [tag |-> TagB, tid |-> 2]>>
      d4 == <<[tag |-> TagA, tid |-> 1]>>
  IN {<<d1>>, <<d1, d2>>, <<d2, d1>>, <<d1, d2, d3>>, <<d3, d4, d4>>, <<d4, <<>>, d2>>, <<d1, d1>>, <<>>}

\* sfnt flavours of the members of a collection (by member position): uniform, and mixed ones
TtcFlavorLists ==
  IF Thorough THEN {<<MagicTTF, MagicTTF, MagicTTF>>, <<MagicOTTO, MagicTTF, MagicTrue>>, <<MagicTrue, MagicOTTO, MagicOTTO>>}
  ELSE {<<MagicTTF, MagicTTF, MagicTTF>>, <<MagicOTTO, MagicTTF, MagicTrue>>}

\* physical layouts of a collection (Sfnt!WriteTtcPlan): ds = the members that own an offset table, o = body order
TtcLayouts == {"after", "before", "split", "tail", "revdirs", "inter"}
TtcHeaders == {"v1", "v2null", "v2dsig"}
RECURSIVE Zip2(_, _)
Zip2(D, B) == IF D = <<>> THEN B ELSE IF B = <<>> THEN D ELSE <<D[1], B[1]>> \o Zip2(Tail(D), Tail(B))
MkPlan(lay, ds, o) ==
  LET D == [k \in 1 .. Len(ds) |-> <<"d", ds[k]>>]
      B == [k \in 1 .. Len(o) |-> <<"b", o[k]>>]
  IN CASE lay = "after"   -> D \o B                                      \* header / offset tables / table data
       [] lay = "before"  -> B \o D                                      \* header / table data / offset tables
       [] lay = "split"   -> <<B[1]>> \o D \o SubSeq(B, 2, Len(B))
       [] lay = "tail"    -> SubSeq(B, 1, 2) \o D \o SubSeq(B, 3, Len(B))
       [] lay = "revdirs" -> Reverse(D) \o B                             \* member offsets descending
       [] lay = "inter"   -> Zip2(D, B)                            \* offset table, data, offset table, data ...

\* damage: none, or one patched field
Damages == {"none", "lenPastEof", "offPastEof", "offAtEof", "memberPastEof", "truncDir"}

\* zlib forms of generated WOFF streams and the optional blocks / header fields of a WOFF file
ZForms == {[hdr |-> h, split |-> sp] : h \in ZlibHeaders, sp \in BOOLEAN}
WoffBase == [zform |-> ZForm0, ext |-> "none", real |-> FALSE]
WoffVariants == {[zform |-> zf, ext |-> "none", real |-> FALSE] : zf \in ZForms \ {ZForm0}}
                \cup {[zform |-> ZForm0, ext |-> e, real |-> r] : e \in {"meta", "metapriv", "priv"}, r \in BOOLEAN}
                \cup {[zform |-> ZForm0, ext |-> "none", real |-> TRUE]}

\* The universe of cases, as three families.  Init draws a case through nested quantifiers instead of
\* c \in (one big union set): TLC then enumerates initial states one by one and never has to build and
\* normalise a set of ~200 000 nested records (which took > 15 min single-threaded in the thorough tier).
\* Every case record has the same fields; those that do not apply to a kind hold a fixed value.
SfntCase(t, f, d, o, g, real, dm) ==
  [kind |-> "sfnt", tables |-> t, members |-> <<[flavor |-> f, dir |-> d]>>, order |-> o, gaps |-> g,
   zipped |-> {}, lay |-> "after", hdr |-> "v1", share |-> FALSE, real |-> real, wv |-> WoffBase, damage |-> dm]
TtcCase(t, ml, fl, o, g, lay, hdr, share, real, dm) ==
  [kind |-> "ttc", tables |-> t, members |-> [k \in 1 .. Len(ml) |-> [flavor |-> fl[k], dir |-> ml[k]]],
   order |-> o, gaps |-> g, zipped |-> {}, lay |-> lay, hdr |-> hdr, share |-> share, real |-> real, wv |-> WoffBase,
   damage |-> dm]
WoffCase(t, f, d, o, g, z, wv, dm) ==
  [kind |-> "woff", tables |-> t, members |-> <<[flavor |-> f, dir |-> d]>>, order |-> o, gaps |-> g,
   zipped |-> z, lay |-> "after", hdr |-> "v1", share |-> FALSE, real |-> wv.real, wv |-> wv, damage |-> dm]

SfntOrders == {Orders1 \in Orders : Thorough \/ Orders1[1] # 2}
SfntGaps   == {gm \in GapMaps : Thorough \/ gm[2] = gm[3]}
TtcOrders  == {Orders1 \in Orders : Thorough \/ Orders1[1] = 1}
FlatGaps   == {gm \in GapMaps : gm[1] = gm[2] /\ gm[2] = gm[3]}
WoffDirs   == {dd \in Dirs : Thorough \/ Len(dd) # 2}
WoffOrders == {Orders1 \in Orders : Thorough \/ Orders1[1] = 3}
TtcGaps    == {gm \in FlatGaps : gm[1] # 1}          \* all gaps 0, or all 3
HasTwin(ml) == \E i, j \in 1 .. Len(ml) : i < j /\ ml[i] = ml[j]

IsCase(x) ==
  \* (thorough: all 27 gap maps for the intact plain form, the 9 with gm[2] = gm[3] for damaged files and real fields)
  \/ \E t \in ContentSets, f \in Flavors, d \in Dirs, o \in SfntOrders,
        dm \in {"none", "lenPastEof", "offPastEof", "offAtEof", "truncDir"} :
        \E real \in (IF dm = "none" THEN BOOLEAN ELSE {FALSE}) :
        \E g \in (IF dm = "none" /\ ~real THEN SfntGaps ELSE {gm \in SfntGaps : gm[2] = gm[3]}) :
           x = SfntCase(t, f, d, o, g, real, dm)
  \* intact collections: every layout x every header form x both kinds of directory fields; members with equal
  \* directories additionally share one offset table
  \/ \E t \in ContentSets, ml \in TtcMemberLists, fl \in TtcFlavorLists, o \in TtcOrders, g \in TtcGaps,
        lay \in TtcLayouts, hdr \in TtcHeaders, real \in BOOLEAN :
        \E share \in (IF HasTwin(ml) THEN BOOLEAN ELSE {FALSE}) : x = TtcCase(t, ml, fl, o, g, lay, hdr, share, real, "none")
  \/ \E t \in ContentSets, ml \in TtcMemberLists, o \in TtcOrders, g \in TtcGaps,
        lay \in (IF Thorough THEN TtcLayouts ELSE {"after", "before"}), hdr \in (IF Thorough THEN {"v1", "v2dsig"} ELSE {"v1"}),
        dm \in {"memberPastEof", "lenPastEof", "offAtEof"} :
        x = TtcCase(t, ml, <<MagicTTF, MagicTTF, MagicTTF>>, o, g, lay, hdr, FALSE, FALSE, dm)
  \/ \E t \in ContentSets, f \in Flavors, d \in WoffDirs, o \in WoffOrders, g \in FlatGaps, z \in SUBSET {1, 2, 3},
        dm \in {"none", "lenPastEof"} :
        (dm = "none" \/ ~Thorough \/ Cardinality(z) # 1) /\ x = WoffCase(t, f, d, o, g, z, WoffBase, dm)
  \* the other stream forms (only where every table is a stream) and the optional blocks / header fields
  \/ \E t \in ContentSets, f \in Flavors, d \in WoffDirs, o \in {oo \in WoffOrders : oo[1] = 3}, wv \in WoffVariants :
        \E z \in (IF wv.zform = ZForm0 THEN (IF Thorough THEN SUBSET {1, 2, 3} ELSE {{}, {2}, {1, 2, 3}}) ELSE {{1, 2, 3}} \cup (IF Thorough THEN {{1}, {2, 3}} ELSE {})) :
        x = WoffCase(t, f, d, o, [k \in 1 .. 3 |-> 0], z, wv, "none")

\* members that own an offset table, and whose table each member uses
DirOf(x) == [m \in 1 .. Len(x.members) |->
               IF x.share THEN Min({j \in 1 .. m : x.members[j] = x.members[m]}) ELSE m]
Owners(x) == LET own == {m \in 1 .. Len(x.members) : DirOf(x)[m] = m} IN SetToSortSeq(own, <)
PlanOf(x) == MkPlan(x.lay, Owners(x), x.order)

Intact(x) ==
  CASE x.kind = "sfnt" -> WriteSfntR(x.tables, x.members[1], x.order, x.gaps, x.real)
    [] x.kind = "ttc"  -> WriteTtcPlan(x.tables, x.members, PlanOf(x), DirOf(x), x.gaps, x.hdr, x.real)
    [] x.kind = "woff" -> WriteWoffX(x.tables, x.members[1], x.order, x.gaps, x.zipped, x.wv.zform, x.wv.ext, x.wv.real)

Patch(bs, p, new) == [k \in 1 .. Len(bs) |-> IF k > p /\ k <= p + Len(new) THEN new[k - p] ELSE bs[k]]

\* position of the first directory record's offset / length field of member 1
RecPos(x) == CASE x.kind = "sfnt" -> [off |-> 12 + 8, len |-> 12 + 12]
               [] x.kind = "ttc"  -> LET st == TtcStarts(x.tables, x.members, PlanOf(x), DirOf(x), x.gaps, x.hdr)[1]
                                     IN [off |-> st + 12 + 8, len |-> st + 12 + 12]
               [] x.kind = "woff" -> [off |-> 44 + 4, len |-> 44 + 8]

HasRec(x) == x.members # <<>> /\ x.members[1].dir # <<>>

Damaged(x) ==
  LET bs == Intact(x)  n == Len(bs) IN
  CASE x.damage = "none"          -> bs
    [] x.damage = "lenPastEof"    -> IF HasRec(x) THEN Patch(bs, RecPos(x).len, U32(n + 1)) ELSE bs
    [] x.damage = "offPastEof"    -> IF HasRec(x) THEN Patch(bs, RecPos(x).off, U32(n + 1)) ELSE bs
    [] x.damage = "offAtEof"      -> IF HasRec(x) THEN Patch(bs, RecPos(x).off, U32(n)) ELSE bs
    [] x.damage = "memberPastEof" -> IF x.members # <<>> THEN Patch(bs, 12, U32(n + 4)) ELSE bs
    [] x.damage = "truncDir"      -> IF n > 20 THEN SubSeq(bs, 1, 12 + 8) ELSE bs   \* directory cut short

---------------------------------------------------------------------------
Init == /\ IsCase(c)
        /\ done = FALSE
Next == /\ ~done /\ done' = TRUE /\ UNCHANGED c
Spec == Init /\ [][Next]_vars

\* Design property on intact containers.
RoundTripOK ==
  c.damage = "none" => RoundTrip(Intact(c), c.kind, c.tables, c.members, TagZ)

\* An error is an error: the property does not fix which one.
Norm(r) == IF r.ok THEN r ELSE Err("Err")

QueryTags == <<TagA, TagB, TagC, TagZ>>
MemberObs(bs, ld, i) ==
  LET p == Provider(bs, ld.v, i) IN
  IF ~p.ok THEN [i |-> i, ok |-> FALSE, flavor |-> <<>>, tags |-> <<>>, data |-> <<>>, has |-> <<>>]
  ELSE [i |-> i, ok |-> TRUE, flavor |-> Flavor(p.v), tags |-> Tags(p.v),
        data |-> [k \in 1 .. 4 |-> Norm(TableData(bs, ld.v.kind, p.v, QueryTags[k]))],
        has  |-> [k \in 1 .. 4 |-> HasTable(p.v, QueryTags[k])]]

\* Member indices far beyond every collection: named, because TLC integers are 32-bit (the harness turns the names
\* into usize values).  numFonts is a uint32 and every member costs four bytes of the file, so each of these indices
\* is >= numFonts of every file TLC writes: a collection has no such member (Provider: BadIndex), a bare sfnt / WOFF
\* does not consult the index (Dev_SingleIgnoresIndex).  Whether table_provider(i) succeeds is what is compared.
FarIdx == <<"2^16", "2^31", "2^32", "2^32+1", "2^62", "2^62+1", "2^63", "2^64-1">>
FarOk(ld) == [k \in 1 .. Len(FarIdx) |-> ld.v.kind # "ttc"]

Expect(bs) ==
  LET ld == Load(bs) IN
  IF ~ld.ok THEN [load |-> FALSE, kind |-> "", members |-> <<>>, far |-> <<>>]
  ELSE [load |-> TRUE, kind |-> ld.v.kind,
        members |-> [k \in 1 .. (IF ld.v.kind = "ttc" THEN Len(ld.v.offsets) + 2 ELSE 3) |-> MemberObs(bs, ld, k - 1)],
        far |-> FarOk(ld)]

\* which family of layout / form a case belongs to (for the driver's vacuity counters and messages only)
Variant(x) ==
  CASE x.kind = "ttc"  -> x.lay \o "/" \o x.hdr \o (IF x.share THEN "/shared" ELSE "") \o (IF x.real THEN "/real" ELSE "")
    [] x.kind = "sfnt" -> IF x.real THEN "real" ELSE "plain"
    [] x.kind = "woff" -> (IF x.wv.zform = ZForm0 THEN "z0" ELSE IF x.wv.zform.split THEN "zsplit" ELSE "zhdr")
                          \o "/" \o x.wv.ext \o (IF x.real THEN "/real" ELSE "")

EmitCase ==
  done => LET bs == Damaged(c) IN
          PrintT(<<"CASE", ToJson([kind |-> c.kind, damage |-> c.damage, variant |-> Variant(c), bytes |-> bs,
                                   qtags |-> QueryTags, exp |-> Expect(bs)])>>)

\* reader results never leak bytes that are not the stored table (also for damaged files):
\* whatever TableData returns is a sub-sequence of the file (raw) or the inflation of one.
NoOtherData ==
  LET bs == Damaged(c)  ld == Load(bs) IN
  ld.ok => \A i \in 0 .. 2 : LET p == Provider(bs, ld.v, i) IN
             p.ok => \A k \in 1 .. 4 :
                LET r == TableData(bs, ld.v.kind, p.v, QueryTags[k]) IN
                (r.ok /\ r.v[1] = "some" /\ c.damage = "none") =>
                   \E m \in 1 .. Len(c.members) : \E d \in 1 .. Len(c.members[m].dir) :
                       r.v[2] = c.tables[c.members[m].dir[d].tid]
=============================================================================
