-------------------------------- MODULE Shaper --------------------------------
(***************************************************************************)
(* C02 - shaping is total and yields well-formed glyph runs.               *)
(*                                                                         *)
(* The abstract state the property talks about is a RUN: a sequence of     *)
(* glyphs, each                                                            *)
(*    [gid   |-> glyph id,                                                 *)
(*     chars |-> the characters attributed to the glyph (RawGlyph.unicodes)*)
(*     pk    |-> placement kind: "none" | "dist" | "mark" | "over" | "curs"*)
(*     pi    |-> for mark / over / curs the 0-based index of the glyph it  *)
(*               attaches to (gpos::Placement::MarkAnchor, MarkOverprint,  *)
(*               CursiveAnchor), -1 otherwise]                             *)
(* together with the set of characters that were SUBMITTED for shaping     *)
(* (the unicodes of the glyphs Font::map_glyphs produced and Font::shape   *)
(* received) and the outcome of each of the three calls                    *)
(*    map_glyphs -> shape -> GlyphLayout::glyph_positions                  *)
(* drawn from the alphabet Ok | Err | Panic | Timeout | Abort (Abort: the  *)
(* process died, e.g. stack exhaustion; Skipped: the call was not made     *)
(* because an earlier one did not return).                                 *)
(*                                                                         *)
(* Layer 1: the invariants of the property (RunFailures / CallFailures).   *)
(* Layer 2: the primitive transitions any engine step may take (substitute,*)
(* expand, contract, insert dotted circle, delete joiner, reorder, clamp,  *)
(* attach, fail-and-forge-ahead); MC_Shaper proves that every primitive    *)
(* preserves the invariants, and Trace_Shaper evaluates the invariants on  *)
(* the runs allsorts really returned.                                      *)
(***************************************************************************)
EXTENDS Integers, Sequences, FiniteSets, TLC

DottedCircle == \h25CC
Joiners      == {\h200C, \h200D}
IsVS(c)      == (c >= \hFE00 /\ c <= \hFE0F) \/ (c >= \hE0100 /\ c <= \hE01EF)
                \/ (c >= \h180B /\ c <= \h180D)

AttachKinds == {"mark", "over", "curs"}
PlaceKinds  == {"none", "dist"} \cup AttachKinds
Returned    == {"Ok", "Err"}                       \* the outcomes the property allows
Outcomes    == Returned \cup {"Panic", "Timeout", "Abort", "Skipped"}

---------------------------------------------------------------------------
\* ---- layer 1: the property ------------------------------------------------------

\* every attachment refers to a glyph inside the run
AttachInRun(run) ==
  \A i \in DOMAIN run : run[i].pk \in AttachKinds => (run[i].pi >= 0 /\ run[i].pi < Len(run))

\* every character attributed to a glyph was submitted for shaping, or is the inserted dotted circle
CharsFromInput(run, submitted) ==
  \A i \in DOMAIN run : \A k \in DOMAIN run[i].chars : run[i].chars[k] \in submitted \cup {DottedCircle}

\* for well-formed fonts every glyph id is below the glyph count
GidBelowCount(run, ng) == \A i \in DOMAIN run : run[i].gid >= 0 /\ run[i].gid < ng

\* names of the clauses a run fails (empty = well formed)
RunFailures(run, submitted, wellFormedFont, ng) ==
     (IF AttachInRun(run) THEN {} ELSE {"AttachInRun"})
\cup (IF CharsFromInput(run, submitted) THEN {} ELSE {"CharsFromInput"})
\cup (IF wellFormedFont /\ ~GidBelowCount(run, ng) THEN {"GidBelowCount"} ELSE {})

\* One supervised sequence of calls.  mapOc / shapeOc / posOc are outcomes, `mapped` the run
\* map_glyphs returned, `run` the run shape returned (with Ok, or with Err: the best-effort run),
\* nPos the number of positions glyph_positions returned (-1 unless Ok).
CallFailures(mapOc, mapped, shapeOc, run, posOc, nPos, wellFormedFont, ng) ==
  LET submitted == UNION {{mapped[i].chars[k] : k \in DOMAIN mapped[i].chars} : i \in DOMAIN mapped} IN
     (IF mapOc \in Returned THEN {} ELSE {"Total.map_glyphs." \o mapOc})
\cup (IF shapeOc \in Returned \cup {"Skipped"} THEN {} ELSE {"Total.shape." \o shapeOc})
\cup (IF posOc \in Returned \cup {"Skipped"} THEN {} ELSE {"Total.glyph_positions." \o posOc})
\cup (IF mapOc = "Ok" /\ wellFormedFont /\ ~GidBelowCount(mapped, ng) THEN {"GidBelowCount.map_glyphs"} ELSE {})
     \* Ok and Err alike carry a run, and it satisfies the same invariants (ErrCarriesRun)
\cup (IF shapeOc \in Returned THEN RunFailures(run, submitted, wellFormedFont, ng) ELSE {})
\cup (IF posOc = "Ok" /\ nPos # Len(run) THEN {"PositionsLength"} ELSE {})
     \* glyph_positions validates the attachment indices: when they are all inside the run it has
     \* no reason of this kind to fail, when one is outside it must not return positions
\cup (IF posOc = "Ok" /\ shapeOc \in Returned /\ ~AttachInRun(run) THEN {"PositionsOfBadRun"} ELSE {})

---------------------------------------------------------------------------
\* ---- layer 2: what an engine step may do -------------------------------------------
Glyph(g, cs) == [gid |-> g, chars |-> cs, pk |-> "none", pi |-> -1]

\* map_glyphs: one glyph per character, variation selectors are consumed by the preceding
\* character, an unmapped character becomes glyph 0
\* (cmap: a function from characters to glyph ids)
RECURSIVE MapText(_, _)
MapText(text, cmap) ==
  IF text = <<>> THEN <<>>
  ELSE IF IsVS(Head(text)) THEN MapText(Tail(text), cmap)
  ELSE <<Glyph(IF Head(text) \in DOMAIN cmap THEN cmap[Head(text)] ELSE 0, <<Head(text)>>)>>
       \o MapText(Tail(text), cmap)

Replace(run, i, seq) == SubSeq(run, 1, i - 1) \o seq \o SubSeq(run, i + 1, Len(run))

\* GSUB single / alternate substitution
Substitute(run, i, g) == Replace(run, i, <<[run[i] EXCEPT !.gid = g]>>)
\* GSUB multiple substitution: every output glyph keeps the source's characters
Expand(run, i, gs) == Replace(run, i, [k \in DOMAIN gs |-> [run[i] EXCEPT !.gid = gs[k]]])
\* GSUB ligature substitution of run[i] with the n following glyphs: characters are concatenated
RECURSIVE CatChars(_, _, _)
CatChars(run, a, b) == IF a > b THEN <<>> ELSE run[a].chars \o CatChars(run, a + 1, b)
Contract(run, i, n, g) ==
  SubSeq(run, 1, i - 1) \o <<[run[i] EXCEPT !.gid = g, !.chars = CatChars(run, i, i + n)]>>
                        \o SubSeq(run, i + n + 1, Len(run))
\* syllable machines insert a dotted circle as the base of a broken syllable
InsertDottedCircle(run, i, g) == SubSeq(run, 1, i - 1) \o <<Glyph(g, <<DottedCircle>>)>> \o SubSeq(run, i, Len(run))
\* joiners are stripped after substitution
Delete(run, i) == SubSeq(run, 1, i - 1) \o SubSeq(run, i + 1, Len(run))
\* reordering inside a syllable
Swap(run, i) == SubSeq(run, 1, i - 1) \o <<run[i + 1], run[i]>> \o SubSeq(run, i + 2, Len(run))
\* replace_missing_glyphs: ids at or above the glyph count become glyph 0
Clamp(run, ng) == [i \in DOMAIN run |-> IF run[i].gid >= ng THEN [run[i] EXCEPT !.gid = 0] ELSE run[i]]
\* GPOS: attach glyph i to glyph j (0-based j, as the code stores it), or displace it
Attach(run, i, kind, j) == [run EXCEPT ![i].pk = kind, ![i].pi = j]
Displace(run, i)        == [run EXCEPT ![i].pk = "dist", ![i].pi = -1]
=============================================================================
