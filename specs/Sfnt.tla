------------------------------- MODULE Sfnt -------------------------------
(***************************************************************************)
(* Font containers as allsorts reads them: bare sfnt, TrueType collection  *)
(* and WOFF 1 (src/tables.rs OpenTypeFont/OffsetTable/TTCHeader,           *)
(* src/font_data.rs FontData, src/woff.rs).  Properties C10 and C09.       *)
(*                                                                         *)
(* Two halves, checked against each other by TLC:                          *)
(*   writer  : abstract container + layout choices  ->  file bytes         *)
(*   reader  : file bytes -> Load / Provider(i) / TableData(tag) / Tags /  *)
(*             Flavor, at the grain of the public API                      *)
(* Bytes are sequences of 0..255.  32-bit fields are read as pairs         *)
(* <<hi16, lo16>>; a value is turned into an Int only when it is < 2^30,   *)
(* anything larger is HUGE (beyond any file the model can hold).           *)
(***************************************************************************)
EXTENDS Integers, Sequences, FiniteSets, SequencesExt, FiniteSetsExt, TLC

HUGE == 1073741824

U16(n) == <<(n \div 256) % 256, n % 256>>
U32(n) == <<(n \div 16777216) % 256, (n \div 65536) % 256, (n \div 256) % 256, n % 256>>

\* ---- reading big-endian fields at 0-based position p ---------------------
Avail(bs, p, k) == p + k <= Len(bs)
Rd16(bs, p) == bs[p + 1] * 256 + bs[p + 2]
Rd32(bs, p) == LET hi == Rd16(bs, p)  lo == Rd16(bs, p + 2) IN
               IF hi >= 16384 THEN HUGE ELSE hi * 65536 + lo
Rd4(bs, p)  == SubSeq(bs, p + 1, p + 4)            \* tags and magics stay byte strings

MagicTTF  == <<0, 1, 0, 0>>
MagicTrue == <<116, 114, 117, 101>>                \* 'true'
MagicOTTO == <<79, 84, 84, 79>>
MagicTTC  == <<116, 116, 99, 102>>                 \* 'ttcf'
MagicWOFF == <<119, 79, 70, 70>>                   \* 'wOFF'
SfntMagics == {MagicTTF, MagicTrue, MagicOTTO}

\* ---- the window rule of the binary reader (BinaryReader!OffLenResult) ----
OffLen(len, k, n) ==
  IF k < len \/ n = 0
  THEN LET avail == IF k <= len THEN len - k ELSE 0 IN
       IF n <= avail THEN "Ok" ELSE "Eof"
  ELSE "BadOffset"

Ok(v)   == [ok |-> TRUE, err |-> "", v |-> v]
Err(e)  == [ok |-> FALSE, err |-> e, v |-> <<>>]

---------------------------------------------------------------------------
\* zlib streams made of stored deflate blocks (what the model can express exactly)
RECURSIVE ByteSum(_)
ByteSum(s) == IF s = <<>> THEN 0 ELSE s[1] + ByteSum(Tail(s))
RECURSIVE AdlerB(_, _)
AdlerB(s, a) == IF s = <<>> THEN 0
                ELSE LET a2 == (a + s[1]) % 65521 IN (a2 + AdlerB(Tail(s), a2)) % 65521
Adler32(s) == LET a == (1 + ByteSum(s)) % 65521  b == AdlerB(s, 1) IN U16(b) \o U16(a)
\* Valid zlib headers (RFC 1950): CM = 8, CINFO <= 7, no preset dictionary, (CMF * 256 + FLG) % 31 = 0.
\* 78 01 / 78 5E / 78 9C / 78 DA are what encoders write for levels 0-1 / 2-5 / 6 / 7-9; 08 1D declares the smallest
\* window (256 bytes), legal for a stream of stored blocks (no back references).
ZlibHeaders == {<<120, 1>>, <<120, 94>>, <<120, 156>>, <<120, 218>>, <<8, 29>>}
ValidZlibHeader(a, b) == a % 16 = 8 /\ a \div 16 <= 7 /\ (b \div 32) % 2 = 0 /\ (a * 256 + b) % 31 = 0

StoredBlock(s, final) ==
  <<IF final THEN 1 ELSE 0>> \o <<Len(s) % 256, Len(s) \div 256>> \o <<255 - (Len(s) % 256), 255 - (Len(s) \div 256)>> \o s
\* a stream of stored blocks: the data cut at the positions in `cuts` (ascending, within 0 .. Len(s)), every piece one block
RECURSIVE Blocks(_, _)
Blocks(s, cuts) ==
  IF cuts = <<>> THEN StoredBlock(s, TRUE)
  ELSE StoredBlock(SubSeq(s, 1, cuts[1]), FALSE)
       \o Blocks(SubSeq(s, cuts[1] + 1, Len(s)), [k \in 1 .. Len(cuts) - 1 |-> cuts[k + 1] - cuts[1]])
ZlibBlocks(s, hdr, cuts) == hdr \o Blocks(s, cuts) \o Adler32(s)
\* one final stored block; level byte pair 0x78 0x01
ZlibStored(s) == ZlibBlocks(s, <<120, 1>>, <<>>)

\* the data of a stream of stored blocks (any number of them, any valid header), or "Unmodelled" for other block types
RECURSIVE InflateBlocks(_, _)
\* z = the stream from the current block header on; returns [ok, data, rest] (rest = what follows the final block)
InflateBlocks(z, fuel) ==
  IF Len(z) < 5 \/ fuel = 0 THEN [ok |-> FALSE, why |-> "CompressionError", data |-> <<>>, rest |-> <<>>]
  ELSE IF z[1] \notin {0, 1} THEN [ok |-> FALSE, why |-> "Unmodelled", data |-> <<>>, rest |-> <<>>]
  ELSE LET n == z[2] + 256 * z[3] IN
       IF z[4] # 255 - z[2] \/ z[5] # 255 - z[3] \/ Len(z) < 5 + n
       THEN [ok |-> FALSE, why |-> "CompressionError", data |-> <<>>, rest |-> <<>>]
       ELSE IF z[1] = 1 THEN [ok |-> TRUE, why |-> "", data |-> SubSeq(z, 6, 5 + n), rest |-> SubSeq(z, 6 + n, Len(z))]
       ELSE LET r == InflateBlocks(SubSeq(z, 6 + n, Len(z)), fuel - 1) IN
            IF r.ok THEN [r EXCEPT !.data = SubSeq(z, 6, 5 + n) \o r.data] ELSE r
Inflate(z) ==
  IF Len(z) >= 2 /\ ValidZlibHeader(z[1], z[2])
  THEN LET r == InflateBlocks(SubSeq(z, 3, Len(z)), Len(z)) IN
       IF ~r.ok THEN Err(r.why)
       ELSE IF r.rest = Adler32(r.data) THEN Ok(r.data) ELSE Err("CompressionError")
  ELSE Err("Unmodelled")

---------------------------------------------------------------------------
\* READER.  A loaded container:
\*   [kind |-> "sfnt", font |-> F] | [kind |-> "ttc", offsets |-> Seq(Int)] | [kind |-> "woff", font |-> F]
\*   F == [flavor |-> 4 bytes, recs |-> Seq([tag, off, len, orig])]   (orig = len for sfnt)

RECURSIVE RdRecs(_, _, _, _)
RdRecs(bs, p, n, woff) ==
  IF n = 0 THEN <<>>
  ELSE IF woff
       THEN <<[tag |-> Rd4(bs, p), off |-> Rd32(bs, p + 4), len |-> Rd32(bs, p + 8), orig |-> Rd32(bs, p + 12)]>>
            \o RdRecs(bs, p + 20, n - 1, woff)
       ELSE <<[tag |-> Rd4(bs, p), off |-> Rd32(bs, p + 8), len |-> Rd32(bs, p + 12), orig |-> Rd32(bs, p + 12)]>>
            \o RdRecs(bs, p + 16, n - 1, woff)

\* OffsetTable::read at position p
ReadOffsetTable(bs, p) ==
  IF ~Avail(bs, p, 4) THEN Err("Eof")
  ELSE IF Rd4(bs, p) \notin SfntMagics THEN Err("BadVersion")
  ELSE IF ~Avail(bs, p, 12) THEN Err("Eof")
  ELSE LET n == Rd16(bs, p + 4) IN
       IF ~Avail(bs, p + 12, 16 * n) THEN Err("Eof")
       ELSE Ok([flavor |-> Rd4(bs, p), recs |-> RdRecs(bs, p + 12, n, FALSE)])

RECURSIVE RdOffsets(_, _, _)
RdOffsets(bs, p, n) == IF n = 0 THEN <<>> ELSE <<Rd32(bs, p)>> \o RdOffsets(bs, p + 4, n - 1)

\* FontData::read / OpenTypeFont::read / WoffFont::read
Load(bs) ==
  IF ~Avail(bs, 0, 4) THEN Err("Eof")
  ELSE LET m == Rd4(bs, 0) IN
  IF m \in SfntMagics
  THEN LET t == ReadOffsetTable(bs, 0) IN
       IF t.ok THEN Ok([kind |-> "sfnt", font |-> t.v, offsets |-> <<>>]) ELSE t
  ELSE IF m = MagicTTC
  THEN IF ~Avail(bs, 0, 12) THEN Err("Eof")
       ELSE IF Rd16(bs, 4) \notin {1, 2} THEN Err("BadValue")
       ELSE LET n == Rd32(bs, 8) IN
            IF n = HUGE \/ ~Avail(bs, 12, 4 * n) THEN Err("Eof")
            ELSE Ok([kind |-> "ttc", font |-> <<>>, offsets |-> RdOffsets(bs, 12, n)])
  ELSE IF m = MagicWOFF
  THEN IF ~Avail(bs, 0, 44) THEN Err("Eof")
       ELSE IF Rd16(bs, 14) # 0 THEN Err("BadValue")          \* reserved must be zero
       ELSE LET n == Rd16(bs, 12) IN
            IF ~Avail(bs, 44, 20 * n) THEN Err("Eof")
            ELSE Ok([kind |-> "woff", offsets |-> <<>>,
                     font |-> [flavor |-> Rd4(bs, 4), recs |-> RdRecs(bs, 44, n, TRUE)]])
  ELSE Err("BadVersion")

\* table_provider(i).  A bare sfnt and a WOFF file hold one font; the index is not consulted
\* (Dev_SingleIgnoresIndex: the property speaks of collection members only).
Provider(bs, c, i) ==
  IF c.kind = "ttc"
  THEN IF i >= Len(c.offsets) THEN Err("BadIndex")
       ELSE LET o == c.offsets[i + 1] IN
            IF o = HUGE \/ o > Len(bs) THEN Err("Eof") ELSE ReadOffsetTable(bs, o)
  ELSE Ok(c.font)

FindRec(f, tag) ==
  LET ks == {k \in 1 .. Len(f.recs) : f.recs[k].tag = tag} IN
  IF ks = {} THEN 0 ELSE Min(ks)                    \* first record in directory order

\* table_data(tag): Ok(<<"some", bytes>>) | Ok(<<"none">>) | Err
TableData(bs, kind, f, tag) ==
  LET k == FindRec(f, tag) IN
  IF k = 0 THEN Ok(<<"none">>)
  ELSE LET r == f.recs[k] IN
       IF r.off = HUGE THEN Err("BadOffset")
       ELSE IF r.len = HUGE THEN (IF r.off < Len(bs) THEN Err("Eof") ELSE Err("BadOffset"))
       ELSE LET w == OffLen(Len(bs), r.off, r.len) IN
            IF w # "Ok" THEN Err(w)
            ELSE LET raw == SubSeq(bs, r.off + 1, r.off + r.len) IN
                 IF kind = "woff" /\ r.len # r.orig
                 THEN LET z == Inflate(raw) IN IF z.ok THEN Ok(<<"some", z.v>>) ELSE z
                 ELSE Ok(<<"some", raw>>)

HasTable(f, tag) == FindRec(f, tag) # 0
Tags(f)          == [k \in 1 .. Len(f.recs) |-> f.recs[k].tag]
Flavor(f)        == f.flavor

---------------------------------------------------------------------------
\* WRITER.  Abstract container:
\*   tables  : Seq(content)                       the stored table contents (by id)
\*   members : Seq([flavor, dir : Seq([tag, tid])])   each member's directory, in directory order
\* Layout: the order in which table bodies are laid out, the gap before each body, and (WOFF) which
\* tables are zlib-wrapped.

Pad4(n) == (4 - (n % 4)) % 4
Zeros(n) == [k \in 1 .. n |-> 0]

RECURSIVE LayBodies(_, _, _, _)
\* returns [bytes, at : tid -> offset] for bodies laid from position p in `order`
LayBodies(bodies, order, gaps, p) ==
  IF order = <<>> THEN [bytes |-> <<>>, at |-> <<>>]
  ELSE LET tid  == order[1]
           g    == gaps[tid]
           body == bodies[tid]
           rest == LayBodies(bodies, Tail(order), gaps, p + g + Len(body))
       IN [bytes |-> Zeros(g) \o body \o rest.bytes, at |-> <<<<tid, p + g>>>> \o rest.at]

AtOf(at, tid) == LET k == CHOOSE k \in 1 .. Len(at) : at[k][1] = tid IN at[k][2]

\* `real` = FALSE: searchRange / entrySelector / rangeShift and the checksums are zero (no reader of the property consults
\* them); TRUE: the values a font tool writes (largest power of two <= numTables etc., a non-zero checksum filler).
RECURSIVE SfLog2Floor(_)
SfLog2Floor(n) == IF n <= 1 THEN 0 ELSE 1 + SfLog2Floor(n \div 2)
SfPow2(k) == IF k = 0 THEN 1 ELSE IF k = 1 THEN 2 ELSE IF k = 2 THEN 4 ELSE 8
SearchFields(n, real) ==
  IF ~real \/ n = 0 THEN U16(0) \o U16(0) \o U16(0)
  ELSE LET e == SfLog2Floor(n) IN U16(16 * SfPow2(e)) \o U16(e) \o U16(16 * n - 16 * SfPow2(e))
ChecksumFiller(real, tid) == IF real THEN <<222, 173, 190, 16 + tid>> ELSE U32(0)

RECURSIVE DirBytesR(_, _, _, _)
DirBytesR(dir, at, bodies, real) ==
  IF dir = <<>> THEN <<>>
  ELSE dir[1].tag \o ChecksumFiller(real, dir[1].tid) \o U32(AtOf(at, dir[1].tid)) \o U32(Len(bodies[dir[1].tid]))
       \o DirBytesR(Tail(dir), at, bodies, real)
DirBytes(dir, at, bodies) == DirBytesR(dir, at, bodies, FALSE)

OffsetTableBytesR(m, at, bodies, real) ==
  m.flavor \o U16(Len(m.dir)) \o SearchFields(Len(m.dir), real) \o DirBytesR(m.dir, at, bodies, real)
OffsetTableBytes(m, at, bodies) == OffsetTableBytesR(m, at, bodies, FALSE)

WriteSfntR(tables, m, order, gaps, real) ==
  LET hdr == 12 + 16 * Len(m.dir)
      lay == LayBodies(tables, order, gaps, hdr)
  IN OffsetTableBytesR(m, lay.at, tables, real) \o lay.bytes
WriteSfnt(tables, m, order, gaps) == WriteSfntR(tables, m, order, gaps, FALSE)

RECURSIVE MemberStarts(_, _)
MemberStarts(members, p) ==
  IF members = <<>> THEN <<>>
  ELSE <<p>> \o MemberStarts(Tail(members), p + 12 + 16 * Len(members[1].dir))
RECURSIVE ConcatAll(_)
ConcatAll(ss) == IF ss = <<>> THEN <<>> ELSE ss[1] \o ConcatAll(Tail(ss))
RECURSIVE U32s(_)
U32s(ns) == IF ns = <<>> THEN <<>> ELSE U32(ns[1]) \o U32s(Tail(ns))

\* ---- collections, general layout ---------------------------------------------------------------
\* OpenType fixes only the header at offset 0 and that every offset is relative to the start of the FILE.  Where the
\* members' offset tables and the table bodies lie is free: a `plan` lists the items that follow the header in file
\* order, <<"d", m>> = the offset table of member m, <<"b", tid>> = the body of table tid (after gaps[tid] zero bytes).
\* Members that do not occur in the plan as "d" share the offset table of dirOf[m] (two collection entries with one
\* offset).  hdr: "v1" | "v2null" (version 2.0, the three DSIG fields null = unsigned) | "v2dsig" (a DSIG block is
\* appended to the file and named by the header).
TtcHeaderLen(n, hdr) == 12 + 4 * n + (IF hdr = "v1" THEN 0 ELSE 12)
PlanItemLen(it, tables, members, gaps) ==
  IF it[1] = "d" THEN 12 + 16 * Len(members[it[2]].dir) ELSE gaps[it[2]] + Len(tables[it[2]])
RECURSIVE PlanAt(_, _, _, _, _)
\* [d : seq of <<m, start>>, b : seq of <<tid, start of the body>>, end]
PlanAt(plan, p, tables, members, gaps) ==
  IF plan = <<>> THEN [d |-> <<>>, b |-> <<>>, end |-> p]
  ELSE LET it   == plan[1]
           rest == PlanAt(Tail(plan), p + PlanItemLen(it, tables, members, gaps), tables, members, gaps)
       IN IF it[1] = "d" THEN [rest EXCEPT !.d = <<<<it[2], p>>>> \o rest.d]
          ELSE [rest EXCEPT !.b = <<<<it[2], p + gaps[it[2]]>>>> \o rest.b]
RECURSIVE PlanBytes(_, _, _, _, _, _)
PlanBytes(plan, at, tables, members, gaps, real) ==
  IF plan = <<>> THEN <<>>
  ELSE LET it == plan[1] IN
       (IF it[1] = "d" THEN OffsetTableBytesR(members[it[2]], at, tables, real)
        ELSE Zeros(gaps[it[2]]) \o tables[it[2]])
       \o PlanBytes(Tail(plan), at, tables, members, gaps, real)

DsigBlock == <<0, 0, 0, 1, 0, 0, 0, 0>>             \* version 1, no signatures
TagDSIG   == <<68, 83, 73, 71>>

\* start of the offset table of every member index (0-based index i at position i + 1)
TtcStarts(tables, members, plan, dirOf, gaps, hdr) ==
  LET pa == PlanAt(plan, TtcHeaderLen(Len(members), hdr), tables, members, gaps)
  IN [m \in 1 .. Len(members) |-> AtOf(pa.d, dirOf[m])]

WriteTtcPlan(tables, members, plan, dirOf, gaps, hdr, real) ==
  LET n      == Len(members)
      pa     == PlanAt(plan, TtcHeaderLen(n, hdr), tables, members, gaps)
      starts == [m \in 1 .. n |-> AtOf(pa.d, dirOf[m])]
      body   == PlanBytes(plan, pa.b, tables, members, gaps, real)
      pad    == Zeros(Pad4(pa.end))
  IN MagicTTC \o U16(IF hdr = "v1" THEN 1 ELSE 2) \o U16(0) \o U32(n) \o U32s(starts)
     \o (CASE hdr = "v1"     -> <<>>
           [] hdr = "v2null" -> U32(0) \o U32(0) \o U32(0)
           [] hdr = "v2dsig" -> TagDSIG \o U32(Len(DsigBlock)) \o U32(pa.end + Len(pad)))
     \o body
     \o (IF hdr = "v2dsig" THEN pad \o DsigBlock ELSE <<>>)

\* the conventional layout: header, all offset tables in member order, bodies.  (major = 2 without the DSIG fields
\* is what round 1 generated: a version 2.0 header cut short, which allsorts reads like version 1.0.)
WriteTtc(tables, members, order, gaps, major) ==
  LET starts == MemberStarts(members, 12 + 4 * Len(members))
      dirEnd == IF members = <<>> THEN 12
                ELSE starts[Len(starts)] + 12 + 16 * Len(members[Len(members)].dir)
      lay    == LayBodies(tables, order, gaps, dirEnd)
  IN MagicTTC \o U16(major) \o U16(0) \o U32(Len(members)) \o U32s(starts)
     \o ConcatAll([k \in 1 .. Len(members) |-> OffsetTableBytes(members[k], lay.at, tables)])
     \o lay.bytes

RECURSIVE WoffDir(_, _, _, _)
WoffDir(dir, at, stored, tables) ==
  IF dir = <<>> THEN <<>>
  ELSE dir[1].tag \o U32(AtOf(at, dir[1].tid)) \o U32(Len(stored[dir[1].tid]))
       \o U32(Len(tables[dir[1].tid])) \o U32(0) \o WoffDir(Tail(dir), at, stored, tables)

\* zipped: set of table ids stored as zlib streams.  A zlib-wrapped table whose stream is as
\* long as the table itself would be taken for uncompressed: such layouts are not WOFF.
\* zform = [hdr |-> one of ZlibHeaders, split |-> BOOLEAN]: the streams' header bytes, and whether a table of two or
\* more bytes is cut into two stored blocks (after its first byte).
\* ext: "none" | "meta" (an extended-metadata block, itself a zlib stream, follows the table data on a 4-byte boundary)
\*      | "metapriv" (metadata and a private block) | "priv" (a private block and no metadata: metaOffset = metaLength
\*      = metaOrigLength = 0, the private block follows the table data on a 4-byte boundary).  `real`: totalSfntSize and a font version are filled in.
ZForm0 == [hdr |-> <<120, 1>>, split |-> FALSE]
MetaXml == <<60, 109, 47, 62>>                      \* "<m/>"
PrivData == <<80, 82, 73, 86, 33>>
RECURSIVE SumPadded(_, _)
SumPadded(dir, tables) ==
  IF dir = <<>> THEN 0
  ELSE LET n == Len(tables[dir[1].tid]) IN n + Pad4(n) + SumPadded(Tail(dir), tables)

WriteWoffX(tables, m, order, gaps, zipped, zform, ext, real) ==
  LET Z(t)   == ZlibBlocks(t, zform.hdr, IF zform.split /\ Len(t) >= 2 THEN <<1>> ELSE <<>>)
      stored == [t \in 1 .. Len(tables) |-> IF t \in zipped THEN Z(tables[t]) ELSE tables[t]]
      hdr    == 44 + 20 * Len(m.dir)
      lay    == LayBodies(stored, order, gaps, hdr)
      end0   == hdr + Len(lay.bytes)
      meta   == IF ext = "priv" THEN <<>> ELSE ZlibStored(MetaXml)
      pad1   == IF ext = "none" THEN <<>> ELSE Zeros(Pad4(end0))
      metaAt == end0 + Len(pad1)
      pad2   == IF ext = "metapriv" THEN Zeros(Pad4(metaAt + Len(meta))) ELSE <<>>
      privAt == metaAt + Len(meta) + Len(pad2)
      tail   == CASE ext = "none"     -> <<>>
                  [] ext = "meta"     -> pad1 \o meta
                  [] ext = "metapriv" -> pad1 \o meta \o pad2 \o PrivData
                  [] ext = "priv"     -> pad1 \o PrivData
  IN MagicWOFF \o m.flavor \o U32(end0 + Len(tail)) \o U16(Len(m.dir)) \o U16(0)
     \o (IF real THEN U32(12 + 16 * Len(m.dir) + SumPadded(m.dir, tables)) \o U16(2) \o U16(7) ELSE U32(0) \o U16(1) \o U16(0))
     \o (IF ext \in {"none", "priv"} THEN U32(0) \o U32(0) \o U32(0) ELSE U32(metaAt) \o U32(Len(meta)) \o U32(Len(MetaXml)))
     \o (IF ext \in {"metapriv", "priv"} THEN U32(privAt) \o U32(Len(PrivData)) ELSE U32(0) \o U32(0))
     \o WoffDir(m.dir, lay.at, stored, tables) \o lay.bytes \o tail

WriteWoff(tables, m, order, gaps, zipped) == WriteWoffX(tables, m, order, gaps, zipped, ZForm0, "none", FALSE)

---------------------------------------------------------------------------
\* What the property demands of a container written from (tables, members):
\* every tag of every member yields exactly the stored content; tags and flavour are the
\* member's; an absent tag is reported absent; a member index beyond the end is an error.
ContentOf(tables, m, tag) ==
  LET ks == {k \in 1 .. Len(m.dir) : m.dir[k].tag = tag} IN tables[m.dir[Min(ks)].tid]

RoundTrip(bs, kind, tables, members, absentTag) ==
  LET c == Load(bs) IN
  /\ c.ok /\ c.v.kind = kind
  /\ \A i \in 0 .. (Len(members) - 1) :
        LET p == Provider(bs, c.v, i)  m == members[i + 1] IN
        /\ p.ok
        /\ Flavor(p.v) = m.flavor
        /\ Tags(p.v) = [k \in 1 .. Len(m.dir) |-> m.dir[k].tag]
        /\ \A k \in 1 .. Len(m.dir) :
              TableData(bs, kind, p.v, m.dir[k].tag) = Ok(<<"some", ContentOf(tables, m, m.dir[k].tag)>>)
        /\ TableData(bs, kind, p.v, absentTag) = Ok(<<"none">>)
        /\ ~HasTable(p.v, absentTag)
  /\ kind = "ttc" => ~Provider(bs, c.v, Len(members)).ok

=============================================================================
