------------------------------- MODULE Sfnt -------------------------------
(***************************************************************************)
(* Font containers as allsorts reads them: bare sfnt, TrueType collection  *)
(* and WOFF 1 (src/tables.rs OpenTypeFont/OffsetTable/TTCHeader,           *)
(* src/font_data.rs FontData, src/woff.rs).  Properties C10 and C09.       *)
(*                                                                         *)
(* Two halves, checked against each other by TLC:                          *)
(*   writer  : abstract container + layout choices  ->  file bytes         *)
(*   reader  : file bytes -> Load / Provider(i) / TableData(tag) / Tags /  *)
(*             Flavor, at the grain of the public API                      *)
(* Bytes are sequences of 0..255.  32-bit fields are read as pairs         *)
(* <<hi16, lo16>>; a value is turned into an Int only when it is < 2^30,   *)
(* anything larger is HUGE (beyond any file the model can hold).           *)
(***************************************************************************)
EXTENDS Integers, Sequences, FiniteSets, SequencesExt, FiniteSetsExt, TLC

HUGE == 1073741824

U16(n) == <<(n \div 256) % 256, n % 256>>
U32(n) == <<(n \div 16777216) % 256, (n \div 65536) % 256, (n \div 256) % 256, n % 256>>

\* ---- reading big-endian fields at 0-based position p ---------------------
Avail(bs, p, k) == p + k <= Len(bs)
Rd16(bs, p) == bs[p + 1] * 256 + bs[p + 2]
Rd32(bs, p) == LET hi == Rd16(bs, p)  lo == Rd16(bs, p + 2) IN
               IF hi >= 16384 THEN HUGE ELSE hi * 65536 + lo
Rd4(bs, p)  == SubSeq(bs, p + 1, p + 4)            \* tags and magics stay byte strings

MagicTTF  == <<0, 1, 0, 0>>
MagicTrue == <<116, 114, 117, 101>>                \* 'true'
MagicOTTO == <<79, 84, 84, 79>>
MagicTTC  == <<116, 116, 99, 102>>                 \* 'ttcf'
MagicWOFF == <<119, 79, 70, 70>>                   \* 'wOFF'
SfntMagics == {MagicTTF, MagicTrue, MagicOTTO}

\* ---- the window rule of the binary reader (BinaryReader!OffLenResult) ----
OffLen(len, k, n) ==
  IF k < len \/ n = 0
  THEN LET avail == IF k <= len THEN len - k ELSE 0 IN
       IF n <= avail THEN "Ok" ELSE "Eof"
  ELSE "BadOffset"

Ok(v)   == [ok |-> TRUE, err |-> "", v |-> v]
Err(e)  == [ok |-> FALSE, err |-> e, v |-> <<>>]

---------------------------------------------------------------------------
\* zlib streams made of stored deflate blocks (what the model can express exactly)
RECURSIVE ByteSum(_)
ByteSum(s) == IF s = <<>> THEN 0 ELSE s[1] + ByteSum(Tail(s))
RECURSIVE AdlerB(_, _)
AdlerB(s, a) == IF s = <<>> THEN 0
                ELSE LET a2 == (a + s[1]) % 65521 IN (a2 + AdlerB(Tail(s), a2)) % 65521
Adler32(s) == LET a == (1 + ByteSum(s)) % 65521  b == AdlerB(s, 1) IN U16(b) \o U16(a)
\* one final stored block; level byte pair 0x78 0x01
ZlibStored(s) ==
  <<120, 1, 1>> \o <<Len(s) % 256, Len(s) \div 256>> \o <<255 - (Len(s) % 256), 255 - (Len(s) \div 256)>>
  \o s \o Adler32(s)
\* the data of a stream produced by ZlibStored, or "Unknown"
Inflate(z) ==
  IF Len(z) >= 11 /\ z[1] = 120 /\ z[2] = 1 /\ z[3] = 1
  THEN LET n == z[4] + 256 * z[5] IN
       IF z[6] = 255 - z[4] /\ z[7] = 255 - z[5] /\ Len(z) = 11 + n
          /\ SubSeq(z, 8 + n, 11 + n) = Adler32(SubSeq(z, 8, 7 + n))
       THEN Ok(SubSeq(z, 8, 7 + n)) ELSE Err("CompressionError")
  ELSE Err("Unmodelled")

---------------------------------------------------------------------------
\* READER.  A loaded container:
\*   [kind |-> "sfnt", font |-> F] | [kind |-> "ttc", offsets |-> Seq(Int)] | [kind |-> "woff", font |-> F]
\*   F == [flavor |-> 4 bytes, recs |-> Seq([tag, off, len, orig])]   (orig = len for sfnt)

RECURSIVE RdRecs(_, _, _, _)
RdRecs(bs, p, n, woff) ==
  IF n = 0 THEN <<>>
  ELSE IF woff
       THEN <<[tag |-> Rd4(bs, p), off |-> Rd32(bs, p + 4), len |-> Rd32(bs, p + 8), orig |-> Rd32(bs, p + 12)]>>
            \o RdRecs(bs, p + 20, n - 1, woff)
       ELSE <<[tag |-> Rd4(bs, p), off |-> Rd32(bs, p + 8), len |-> Rd32(bs, p + 12), orig |-> Rd32(bs, p + 12)]>>
            \o RdRecs(bs, p + 16, n - 1, woff)

\* OffsetTable::read at position p
ReadOffsetTable(bs, p) ==
  IF ~Avail(bs, p, 4) THEN Err("Eof")
  ELSE IF Rd4(bs, p) \notin SfntMagics THEN Err("BadVersion")
  ELSE IF ~Avail(bs, p, 12) THEN Err("Eof")
  ELSE LET n == Rd16(bs, p + 4) IN
       IF ~Avail(bs, p + 12, 16 * n) THEN Err("Eof")
       ELSE Ok([flavor |-> Rd4(bs, p), recs |-> RdRecs(bs, p + 12, n, FALSE)])

RECURSIVE RdOffsets(_, _, _)
RdOffsets(bs, p, n) == IF n = 0 THEN <<>> ELSE <<Rd32(bs, p)>> \o RdOffsets(bs, p + 4, n - 1)

\* FontData::read / OpenTypeFont::read / WoffFont::read
Load(bs) ==
  IF ~Avail(bs, 0, 4) THEN Err("Eof")
  ELSE LET m == Rd4(bs, 0) IN
  IF m \in SfntMagics
  THEN LET t == ReadOffsetTable(bs, 0) IN
       IF t.ok THEN Ok([kind |-> "sfnt", font |-> t.v, offsets |-> <<>>]) ELSE t
  ELSE IF m = MagicTTC
  THEN IF ~Avail(bs, 0, 12) THEN Err("Eof")
       ELSE IF Rd16(bs, 4) \notin {1, 2} THEN Err("BadValue")
       ELSE LET n == Rd32(bs, 8) IN
            IF n = HUGE \/ ~Avail(bs, 12, 4 * n) THEN Err("Eof")
            ELSE Ok([kind |-> "ttc", font |-> <<>>, offsets |-> RdOffsets(bs, 12, n)])
  ELSE IF m = MagicWOFF
  THEN IF ~Avail(bs, 0, 44) THEN Err("Eof")
       ELSE IF Rd16(bs, 14) # 0 THEN Err("BadValue")          \* reserved must be zero
       ELSE LET n == Rd16(bs, 12) IN
            IF ~Avail(bs, 44, 20 * n) THEN Err("Eof")
            ELSE Ok([kind |-> "woff", offsets |-> <<>>,
                     font |-> [flavor |-> Rd4(bs, 4), recs |-> RdRecs(bs, 44, n, TRUE)]])
  ELSE Err("BadVersion")

\* table_provider(i).  A bare sfnt and a WOFF file hold one font; the index is not consulted
\* (Dev_SingleIgnoresIndex: the property speaks of collection members only).
Provider(bs, c, i) ==
  IF c.kind = "ttc"
  THEN IF i >= Len(c.offsets) THEN Err("BadIndex")
       ELSE LET o == c.offsets[i + 1] IN
            IF o = HUGE \/ o > Len(bs) THEN Err("Eof") ELSE ReadOffsetTable(bs, o)
  ELSE Ok(c.font)

FindRec(f, tag) ==
  LET ks == {k \in 1 .. Len(f.recs) : f.recs[k].tag = tag} IN
  IF ks = {} THEN 0 ELSE Min(ks)                    \* first record in directory order

\* table_data(tag): Ok(<<"some", bytes>>) | Ok(<<"none">>) | Err
TableData(bs, kind, f, tag) ==
  LET k == FindRec(f, tag) IN
  IF k = 0 THEN Ok(<<"none">>)
  ELSE LET r == f.recs[k] IN
       IF r.off = HUGE THEN Err("BadOffset")
       ELSE IF r.len = HUGE THEN (IF r.off < Len(bs) THEN Err("Eof") ELSE Err("BadOffset"))
       ELSE LET w == OffLen(Len(bs), r.off, r.len) IN
            IF w # "Ok" THEN Err(w)
            ELSE LET raw == SubSeq(bs, r.off + 1, r.off + r.len) IN
                 IF kind = "woff" /\ r.len # r.orig
                 THEN LET z == Inflate(raw) IN IF z.ok THEN Ok(<<"some", z.v>>) ELSE z
                 ELSE Ok(<<"some", raw>>)

HasTable(f, tag) == FindRec(f, tag) # 0
Tags(f)          == [k \in 1 .. Len(f.recs) |-> f.recs[k].tag]
Flavor(f)        == f.flavor

---------------------------------------------------------------------------
\* WRITER.  Abstract container:
\*   tables  : Seq(content)                       the stored table contents (by id)
\*   members : Seq([flavor, dir : Seq([tag, tid])])   each member's directory, in directory order
\* Layout: the order in which table bodies are laid out, the gap before each body, and (WOFF) which
\* tables are zlib-wrapped.

Pad4(n) == (4 - (n % 4)) % 4
Zeros(n) == [k \in 1 .. n |-> 0]

RECURSIVE LayBodies(_, _, _, _)
\* returns [bytes, at : tid -> offset] for bodies laid from position p in `order`
LayBodies(bodies, order, gaps, p) ==
  IF order = <<>> THEN [bytes |-> <<>>, at |-> <<>>]
  ELSE LET tid  == order[1]
           g    == gaps[tid]
           body == bodies[tid]
           rest == LayBodies(bodies, Tail(order), gaps, p + g + Len(body))
       IN [bytes |-> Zeros(g) \o body \o rest.bytes, at |-> <<<<tid, p + g>>>> \o rest.at]

AtOf(at, tid) == LET k == CHOOSE k \in 1 .. Len(at) : at[k][1] = tid IN at[k][2]

RECURSIVE DirBytes(_, _, _)
DirBytes(dir, at, bodies) ==
  IF dir = <<>> THEN <<>>
  ELSE dir[1].tag \o U32(0) \o U32(AtOf(at, dir[1].tid)) \o U32(Len(bodies[dir[1].tid]))
       \o DirBytes(Tail(dir), at, bodies)

OffsetTableBytes(m, at, bodies) ==
  m.flavor \o U16(Len(m.dir)) \o U16(0) \o U16(0) \o U16(0) \o DirBytes(m.dir, at, bodies)

WriteSfnt(tables, m, order, gaps) ==
  LET hdr == 12 + 16 * Len(m.dir)
      lay == LayBodies(tables, order, gaps, hdr)
  IN OffsetTableBytes(m, lay.at, tables) \o lay.bytes

RECURSIVE MemberStarts(_, _)
MemberStarts(members, p) ==
  IF members = <<>> THEN <<>>
  ELSE <<p>> \o MemberStarts(Tail(members), p + 12 + 16 * Len(members[1].dir))
RECURSIVE ConcatAll(_)
ConcatAll(ss) == IF ss = <<>> THEN <<>> ELSE ss[1] \o ConcatAll(Tail(ss))
RECURSIVE U32s(_)
U32s(ns) == IF ns = <<>> THEN <<>> ELSE U32(ns[1]) \o U32s(Tail(ns))

WriteTtc(tables, members, order, gaps, major) ==
  LET starts == MemberStarts(members, 12 + 4 * Len(members))
      dirEnd == IF members = <<>> THEN 12
                ELSE starts[Len(starts)] + 12 + 16 * Len(members[Len(members)].dir)
      lay    == LayBodies(tables, order, gaps, dirEnd)
  IN MagicTTC \o U16(major) \o U16(0) \o U32(Len(members)) \o U32s(starts)
     \o ConcatAll([k \in 1 .. Len(members) |-> OffsetTableBytes(members[k], lay.at, tables)])
     \o lay.bytes

RECURSIVE WoffDir(_, _, _, _)
WoffDir(dir, at, stored, tables) ==
  IF dir = <<>> THEN <<>>
  ELSE dir[1].tag \o U32(AtOf(at, dir[1].tid)) \o U32(Len(stored[dir[1].tid]))
       \o U32(Len(tables[dir[1].tid])) \o U32(0) \o WoffDir(Tail(dir), at, stored, tables)

\* zipped: set of table ids stored as zlib streams.  A zlib-wrapped table whose stream is as
\* long as the table itself would be taken for uncompressed: such layouts are not WOFF.
WriteWoff(tables, m, order, gaps, zipped) ==
  LET stored == [t \in 1 .. Len(tables) |-> IF t \in zipped THEN ZlibStored(tables[t]) ELSE tables[t]]
      hdr    == 44 + 20 * Len(m.dir)
      lay    == LayBodies(stored, order, gaps, hdr)
  IN MagicWOFF \o m.flavor \o U32(hdr + Len(lay.bytes)) \o U16(Len(m.dir)) \o U16(0)
     \o U32(0) \o U16(1) \o U16(0) \o U32(0) \o U32(0) \o U32(0) \o U32(0) \o U32(0)
     \o WoffDir(m.dir, lay.at, stored, tables) \o lay.bytes

---------------------------------------------------------------------------
\* What the property demands of a container written from (tables, members):
\* every tag of every member yields exactly the stored content; tags and flavour are the
\* member's; an absent tag is reported absent; a member index beyond the end is an error.
ContentOf(tables, m, tag) ==
  LET ks == {k \in 1 .. Len(m.dir) : m.dir[k].tag = tag} IN tables[m.dir[Min(ks)].tid]

RoundTrip(bs, kind, tables, members, absentTag) ==
  LET c == Load(bs) IN
  /\ c.ok /\ c.v.kind = kind
  /\ \A i \in 0 .. (Len(members) - 1) :
        LET p == Provider(bs, c.v, i)  m == members[i + 1] IN
        /\ p.ok
        /\ Flavor(p.v) = m.flavor
        /\ Tags(p.v) = [k \in 1 .. Len(m.dir) |-> m.dir[k].tag]
        /\ \A k \in 1 .. Len(m.dir) :
              TableData(bs, kind, p.v, m.dir[k].tag) = Ok(<<"some", ContentOf(tables, m, m.dir[k].tag)>>)
        /\ TableData(bs, kind, p.v, absentTag) = Ok(<<"none">>)
        /\ ~HasTable(p.v, absentTag)
  /\ kind = "ttc" => ~Provider(bs, c.v, Len(members)).ok

=============================================================================
