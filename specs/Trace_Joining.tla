--------------------------- MODULE Trace_Joining ---------------------------
(***************************************************************************)
(* Trace judge for X02 (impl -> spec), judging style.  One event per call  *)
(* of Font::map_glyphs + Font::shape on the specification's font:          *)
(*    a = [s (script), l (language tag, "" = None), text, run, dir]        *)
(*        run = the characters map_glyphs handed to shape (after text      *)
(*        preprocessing, which is C17's subject and only permutes marks);  *)
(*        dir[i] = 1: glyph i was handed over with GlyphOrigin::Direct     *)
(*    o = [out (character of every shaped glyph), got (number left on it), *)
(*         err, panic]                                                     *)
(* The event conforms iff the call neither panicked nor failed, the shaped *)
(* glyphs are the run without ZWNJ / ZWJ, and under ONE reading of         *)
(* Dev_NonJoiningForm every glyph carries a number the specification       *)
(* accepts for its position: Joining!ExpId of a form in Joining!Acc (the   *)
(* closed form; the class of every character comes from the dumped table). *)
(* A non-conforming event is attributed to the smallest set S of named     *)
(* defect readings under which the WHOLE event conforms (keys script|d for *)
(* d in S); if there is none it is "unexplained" and the key names the     *)
(* class of the first offending glyph, the expected and the observed form. *)
(***************************************************************************)
EXTENDS Joining

Rec == ndJsonDeserialize(IOEnv.TRACE)

VARIABLE l
tvars == <<l>>

\* a glyph handed over without its character (GlyphOrigin::Direct, a.dir[i] = 1) is non-joining
RunOf(cps, dir) == TLCEval([i \in DOMAIN cps |-> IF dir[i] = 1 THEN G("U", "none") ELSE ClassOfCp(cps[i])])
VisOf(cps) == SelectSeq([i \in DOMAIN cps |-> i], LAMBDA i : cps[i] \notin Joiners)
Sym(g) == IF g.jg = "alaph" THEN "A" ELSE IF g.jg = "dr" THEN "X" ELSE g.jt

\* tab = ExpTab[script][language system]: form -> number
AccIds(S, u, sc, tab, c, i) == {tab[f] : f \in Acc(S, u, sc, c, i)}
FailPos(S, u, e, tab, c, vis) ==
  {k \in DOMAIN vis : e.o.got[k] \notin AccIds(S, u, e.a.s, tab, c, vis[k])}
ConformsS(S, e, tab, c, vis) == \E u \in UReadings : FailPos(S, u, e, tab, c, vis) = {}

GotForm(sc, id) ==
  IF id < 0 THEN <<"undecodable">>
  ELSE IF id >= 32768 THEN <<"ERR", FontFeatures(sc)[id - 32768]>>
  ELSE <<IdForm(sc, id)>>

\* <<ok, keys, want>>: keys = sequence of key tuples (joined with "|" by the driver)
Verdict(e) ==
  LET sc  == e.a.s
      c   == Ctx(RunOf(e.a.run, e.a.dir))
      vis == VisOf(e.a.run)
      tab == ExpTab[sc][LangIdx(sc, e.a.l)]
      want == TLCEval([k \in DOMAIN vis |-> tab[Primary({}, "isol", sc, c, vis[k])]])
  IN IF e.o.panic # "" THEN [ok |-> FALSE, dev |-> FALSE, keys |-> << <<sc, "panic">> >>, want |-> want]
     ELSE IF e.o.err # "" THEN [ok |-> FALSE, dev |-> FALSE, keys |-> << <<sc, "unexplained", "error">> >>, want |-> want]
     ELSE IF e.o.out # [k \in DOMAIN vis |-> e.a.run[vis[k]]]
          THEN [ok |-> FALSE, dev |-> FALSE, keys |-> << <<sc, "unexplained", "alignment">> >>, want |-> want]
     ELSE IF ConformsS({}, e, tab, c, vis) THEN [ok |-> TRUE, dev |-> e.o.got # want, keys |-> <<>>, want |-> want]
     ELSE LET okS(S) == ConformsS(S, e, tab, c, vis)
              first  == FirstOk(okS)
          IN IF first # 0
             THEN [ok |-> FALSE, dev |-> FALSE, keys |-> SetToSeq({<<sc, d>> : d \in OrderedDefectSets[first]}),
                   want |-> want]
             ELSE LET u == IF Cardinality(FailPos({}, "isol", e, tab, c, vis)) <= Cardinality(FailPos({}, "none", e, tab, c, vis))
                           THEN "isol" ELSE "none"
                      k == Min(FailPos({}, u, e, tab, c, vis))
                      ef == Primary({}, u, sc, c, vis[k])
                      gf == GotForm(sc, e.o.got[k])
                  IN [ok |-> FALSE, dev |-> FALSE,
                      keys |-> << <<sc, "unexplained", Sym(c.run[vis[k]]), ef>> \o gf \o
                                  (IF gf = <<ef>> THEN <<"stage-order">> ELSE <<>>) >>,
                      want |-> want]

TInit == l = 1

TNext == l <= Len(Rec) /\ l' = l + 1

\* the verdict on event l is computed when state l is checked (an invariant that always holds and
\* prints; evaluated once per state)
Judged ==
  l <= Len(Rec) =>
     LET e == Rec[l]
         v == Verdict(e)
     IN IF v.ok
        THEN IF v.dev THEN PrintT(<<"DEV", ToJson([i |-> e.i, case |-> e.case])>>) ELSE TRUE
        ELSE PrintT(<<"MISMATCH", ToJson([i |-> e.i, case |-> e.case, s |-> e.a.s, l |-> e.a.l,
                                          text |-> e.a.text, run |-> e.a.run, out |-> e.o.out,
                                          got |-> e.o.got, want |-> v.want, keys |-> v.keys,
                                          err |-> e.o.err, panic |-> e.o.panic])>>)

TSpec == TInit /\ [][TNext]_tvars

AllConsumed == TLCGet("stats").diameter = Len(Rec) + 1
=============================================================================
