------------------------- MODULE Trace_LayoutSelect -------------------------
(***************************************************************************)
(* Trace judge for X05 (impl -> spec), judging style.  Events:             *)
(*   Font      a = the abstract font [sl, fl, fv, nl] every following      *)
(*             event of the same case refers to (read from a repository    *)
(*             font by the harness' independent reader, or drawn at random *)
(*             and encoded with the specification's marker lookups)        *)
(*   Resolve   a = [t, sc, lg]            o = [res = <<si, li, f>>]        *)
(*             find_script_or_default + find_langsys_or_default +          *)
(*             feature_indices_iter                                        *)
(*   Feature   a = [t, sc, lg, tag, ht, tup]   o = [lk]                    *)
(*             feature_variations + find_langsys_feature (<<-1>>: none)    *)
(*   Lookups   a = request (mask)         o = [sel, sup]                   *)
(*             get_lookups_cache_index + cached_lookups, features_supported*)
(*   Apply     a = request                o = [obs]   gsub::apply /        *)
(*             gpos::apply on the marker font                              *)
(*   MaskTable a = [tags]                 o = [bit, iter, def]             *)
(* An event conforms iff its observation is in the set LayoutSelect        *)
(* accepts (all Dev_ readings).  A non-conforming Lookups / Apply event is  *)
(* attributed to the first set of named defect readings under which it     *)
(* conforms (keys table|defect); otherwise it is "unexplained" and the key *)
(* names the event and the kind of difference.                             *)
(***************************************************************************)
EXTENDS LayoutSelect, Json, IOUtils

Rec == ndJsonDeserialize(IOEnv.TRACE)

VARIABLES l, font
tvars == <<l, font>>

NoFont == [sl |-> <<>>, fl |-> <<>>, fv |-> <<>>, nl |-> 0]

\* requests with the fields an event leaves out
RQ3(a) == [t |-> a.t, sc |-> a.sc, lg |-> a.lg, mode |-> "mask", tags |-> <<>>, alts |-> <<>>, ht |-> 0, tup |-> <<>>, kern |-> 0]
RQF(a) == [RQ3(a) EXCEPT !.ht = a.ht, !.tup = a.tup]
RQ(a)  == [t |-> a.t, sc |-> a.sc, lg |-> a.lg, mode |-> a.mode, tags |-> a.tags, alts |-> a.alts, ht |-> a.ht,
           tup |-> a.tup, kern |-> a.kern]

Low(t) == IF t = "GSUB" THEN "gsub" ELSE "gpos"

MaskTags ==
  {"abvf", "abvs", "afrc", "akhn", "blwf", "blws", "c2sc", "calt", "ccmp", "cfar", "cjct", "clig", "dlig", "fina", "fin2",
   "fin3", "frac", "half", "haln", "hlig", "init", "isol", "liga", "lnum", "locl", "medi", "med2", "mset", "nukt", "onum",
   "ordn", "pnum", "pref", "pres", "pstf", "psts", "rclt", "rkrf", "rlig", "rphf", "rvrn", "smcp", "tnum", "vatu", "vert",
   "vrt2", "zero"}
Vert == {"vert", "vrt2"}

MaskTableOk(a, o) ==
  /\ Len(o.bit) = Len(a.tags) /\ Len(o.iter) = Len(a.tags)
  /\ \A k \in DOMAIN a.tags :
       /\ (a.tags[k] \in MaskTags) <=> (o.bit[k] >= 0)
       /\ (a.tags[k] \notin MaskTags) => (o.bit[k] = -2 /\ o.iter[k] = <<>>)
       /\ (a.tags[k] \in MaskTags) => o.iter[k] = <<IF a.tags[k] = "vert" THEN "vrt2" ELSE a.tags[k]>>
  /\ \A j, k \in DOMAIN a.tags :
       (j < k /\ o.bit[j] >= 0 /\ o.bit[k] >= 0) =>
          ((o.bit[j] = o.bit[k]) <=> (a.tags[j] = a.tags[k] \/ {a.tags[j], a.tags[k]} = Vert))
  /\ {o.def[k] : k \in DOMAIN o.def} = {"calt", "ccmp", "clig", "liga", "locl", "rlig"}
  /\ Len(o.def) = 6

\* kind of difference of an unexplained observation
KindGsub(rq, obs) ==
  LET ex == CHOOSE x \in GsubObs(Primary, {}, font, rq) : TRUE
      lo == [k \in DOMAIN obs |-> obs[k][1]]
      le == [k \in DOMAIN ex |-> ex[k][1]]
  IN IF lo = le THEN "alternate" ELSE IF Range(lo) = Range(le) THEN "order"
     ELSE IF Range(lo) \subseteq Range(le) THEN "missing" ELSE IF Range(le) \subseteq Range(lo) THEN "extra" ELSE "other"
KindGpos(rq, obs) ==
  LET ex == GposObs(Primary, {}, font, rq)
  IN IF Len(obs.cnt) # MarkL THEN "other"
     ELSE IF \A k \in 1..MarkL : obs.cnt[k] = ex.cnt[k] THEN "order"
     ELSE IF \A k \in 1..MarkL : obs.cnt[k] <= ex.cnt[k] THEN "missing"
     ELSE IF \A k \in 1..MarkL : obs.cnt[k] >= ex.cnt[k] THEN "extra" ELSE "other"
KindRes(rq, res) ==
  LET acc == AccRes(font, rq)
  IN IF ~\E x \in acc : x[1] = res[1] THEN "script" ELSE IF ~\E x \in acc : x[1] = res[1] /\ x[2] = res[2] THEN "langsys"
     ELSE "features"

Bad(keys)  == [ok |-> FALSE, keys |-> keys]
Good       == [ok |-> TRUE, keys |-> <<>>]

Verdict(e) ==
  IF e.ev = "Font" THEN Good
  ELSE IF e.ev = "MaskTable" THEN IF MaskTableOk(e.a, e.o) THEN Good ELSE Bad(<< <<"mask", "unexplained", "table">> >>)
  ELSE IF e.o.panic # "" THEN Bad(<< <<Low(e.a.t), "panic", e.ev>> >>)
  ELSE IF e.o.err # "" THEN Bad(<< <<Low(e.a.t), "unexplained", e.ev, "error">> >>)
  ELSE IF e.ev = "Resolve" THEN
     IF e.o.res \in AccRes(font, RQ3(e.a)) THEN Good
     ELSE Bad(<< <<Low(e.a.t), "unexplained", "resolve", KindRes(RQ3(e.a), e.o.res)>> >>)
  ELSE IF e.ev = "Feature" THEN
     IF e.o.lk \in AccFeature(font, RQF(e.a), e.a.tag) THEN Good
     ELSE Bad(<< <<Low(e.a.t), "unexplained", "feature">> >>)
  ELSE IF e.ev = "Lookups" THEN
     LET rq == RQ(e.a)
         supOk == (e.o.sup = 1) \in AccSup(font, rq)
         ok(D) == e.o.sel \in AccSel(D, font, rq)
         first == FirstOk(ok)
     IN IF ~supOk THEN Bad(<< <<"gsub", "unexplained", "supported">> >>)
        ELSE IF first = 1 THEN Good
        ELSE IF first # 0 THEN Bad(SetToSeq({<<"gsub", d>> : d \in OrderedDefectSets[first]}))
        ELSE Bad(<< <<"gsub", "unexplained", "lookups">> >>)
  ELSE IF e.ev = "Apply" THEN
     LET rq == RQ(e.a)
         ok(D) == IF rq.t = "GSUB" THEN e.o.obs \in AccGsub(D, font, rq) ELSE e.o.obs \in AccGpos(D, font, rq)
         first == FirstOk(ok)
     IN IF first = 1 THEN Good
        ELSE IF first # 0 THEN Bad(SetToSeq({<<Low(rq.t), d>> : d \in OrderedDefectSets[first]}))
        ELSE Bad(<< <<Low(rq.t), "unexplained", "apply", rq.mode,
                      IF rq.t = "GSUB" THEN KindGsub(rq, e.o.obs) ELSE KindGpos(rq, e.o.obs)>> >>)
  ELSE Bad(<< <<"trace", "unknown-event">> >>)

TInit == l = 1 /\ font = NoFont
TNext == /\ l <= Len(Rec)
         /\ l' = l + 1
         /\ font' = IF Rec[l].ev = "Font" THEN Rec[l].a ELSE font

Judged ==
  l <= Len(Rec) =>
     LET e == Rec[l]
         v == Verdict(e)
     IN IF v.ok THEN TRUE
        ELSE PrintT(<<"MISMATCH", ToJson([i |-> e.i, case |-> e.case, ev |-> e.ev, a |-> e.a, o |-> e.o, keys |-> v.keys])>>)

TSpec == TInit /\ [][TNext]_tvars
AllConsumed == TLCGet("stats").diameter = Len(Rec) + 1
=============================================================================
