---------------------------- MODULE Trace_Subset ----------------------------
(***************************************************************************)
(* Trace judge for C07 (impl -> spec).  The harness records, for every     *)
(* call of a subsetting entry point of allsorts,                           *)
(*   one "Subset" event: the requested ids, the number of glyphs of the    *)
(*       output, and - read by independent readers - the component ids of  *)
(*       every new glyph, the old glyph each new glyph stands for and the  *)
(*       component ids of that old glyph in the source;                    *)
(*   one "Glyph" event per new glyph: the outline allsorts' own visitor    *)
(*       delivers for the old glyph of the source and for the new glyph of *)
(*       the output, advance and left side bearing of both (independent    *)
(*       hmtx reader), and for glyf fonts the two glyph records as the     *)
(*       independent reader sees them.                                     *)
(* The judge evaluates SubsetRelation of Subset.tla on these facts: order  *)
(* and closure with the operators of the model (ConformantOrder,           *)
(* ComponentsRenumbered, MapsInverse; the worklist machine is run to       *)
(* completion to count how often the implementation's order is the         *)
(* model's, Dev_ClosureOrder), outline / advance / lsb glyph by glyph.     *)
(* A subset that fails with an error is outside the property ("a           *)
(* successful subset"); a panic is a violation.                            *)
(***************************************************************************)
EXTENDS Subset, Json, IOUtils

Rec == ndJsonDeserialize(IOEnv.TRACE)
VARIABLES l, sub, stats
tvars == <<l, sub, stats>>

NoSub == [ok |-> FALSE, n_out |-> 0, olds |-> <<>>]

Stats0 == [events |-> 0, subsets |-> 0, subsets_ok |-> 0, subsets_refused |-> 0, subsets_panicked |-> 0,
           with_pulled_in |-> 0, pulled_in |-> 0, order_as_model |-> 0, order_other |-> 0,
           glyphs |-> 0, outlines_compared |-> 0, outlines_nonempty |-> 0, source_without_outline |-> 0,
           bare_close_ignored |-> 0, metrics_compared |-> 0, records_compared |-> 0, composite_records |-> 0,
           comp_scale |-> 0, comp_xy_scale |-> 0, comp_two_by_two |-> 0, comp_two_by_two_asymmetric |-> 0,
           comp_negative_transform |-> 0, comp_point_args |-> 0, composite_with_instructions |-> 0,
           transformed_outlines_compared |-> 0,
           kind_glyf |-> 0, kind_cff |-> 0, kind_cid |-> 0, kind_cff2 |-> 0,
           seac_closed_compared |-> 0, seac_open_lost |-> 0, seac_open_kept |-> 0]

\* ---- Subset events ------------------------------------------------------------------
\* the observation as the model's records, and the source's component function on the retained glyphs
ObsRecs(e) == [n \in 1 .. Len(e.o.olds) |-> [old |-> e.o.olds[n], comps |-> e.o.out_comps[n]]]
\* (glyphs without components are left out of the domain: TargetsOf answers <<>> for them; that keeps the map small
\* for the lists of tens of thousands of ids that the size / count boundaries need)
ObsTargets(e) ==
  LET P == {n \in 1 .. Len(e.o.olds) : e.o.src_comps[n] # <<>>} IN
  [o \in {e.o.olds[n] : n \in P} |-> e.o.src_comps[MinOf({n \in P : e.o.olds[n] = o})]]
\* Beyond this many glyphs the quadratic operators are not evaluated: MapsInverse follows from IsDistinct (NewId is the
\* first position of an old id), and the order statistic (Dev_ClosureOrder) is not taken.
BigList == 4096

SubsetBad(e) ==
  IF ~e.o.ok THEN (IF e.o.panic THEN {"panic"} ELSE {})
  ELSE LET ids == e.a.ids
           olds == e.o.olds
       IN IF Len(olds) # e.o.n_out \/ Len(e.o.out_comps) # e.o.n_out \/ Len(e.o.src_comps) # e.o.n_out
          THEN {"malformed-event"}
          ELSE IF e.o.n_out < Len(ids) THEN {"glyph-count"}
          ELSE IF \E n \in 1 .. Len(olds) : olds[n] < 0 THEN {"glyph-not-pulled-in-by-anything"}
          ELSE IF e.a.kind # "glyf" THEN (IF olds = ids THEN {} ELSE {"glyph-count"})
          ELSE LET tgs == TLCEval(ObsTargets(e))
                   recs == TLCEval(ObsRecs(e))
                   distinct == IsDistinct(olds)
               IN   (IF SubSeq(olds, 1, Len(ids)) = ids THEN {} ELSE {"requested-order"})
               \cup (IF distinct THEN {} ELSE {"duplicate-glyph"})
               \cup (IF distinct /\ Range(olds) = Closure(tgs, ids) THEN {} ELSE {"closure"})
               \cup (IF ComponentsRenumbered(tgs, recs) THEN {} ELSE {"component-ids"})
               \cup (IF (distinct /\ Len(olds) <= BigList) => MapsInverse(recs) THEN {} ELSE {"maps"})

\* Dev_ClosureOrder: is the order of the pulled-in glyphs the one of the model's machine?
OrderAsModel(e) == Len(e.o.olds) <= BigList /\ Olds(GlyfRun(ObsTargets(e), Glyf0(e.a.ids)).recs) = e.o.olds

\* ---- Glyph events --------------------------------------------------------------------
\* Outlines are compared as command sequences.  A `close` that closes nothing (first command, or right
\* after another close) draws nothing and is not part of the outline: allsorts' CFF2 visitor ends every
\* glyph with one, also an empty glyph, its CFF visitor (which reads the converted glyph) does not.
RECURSIVE DropBareClose(_, _, _)
DropBareClose(c, i, acc) ==
  IF i > Len(c) THEN acc
  ELSE IF c[i][1] = 5 /\ (i = 1 \/ c[i - 1][1] = 5) THEN DropBareClose(c, i + 1, acc)
  ELSE DropBareClose(c, i + 1, Append(acc, c[i]))
SameOutline(a, b) == IF a = b THEN TRUE ELSE DropBareClose(a, 1, <<>>) = DropBareClose(b, 1, <<>>)
\* comps: PlacementOf of every component (flag bits of CompSem, the two arguments, the F2Dot14 raw values of
\* the transform) - RecordKept of Subset.tla on the records read by the independent reader - plus the
\* contours point by point
RecordsEqual(a, b) == a.kind = b.kind /\ a.ends = b.ends /\ a.pts = b.pts /\ a.comps = b.comps /\ a.instr = b.instr
\* families of component records (vacuity counters): how many components of the compared composite show them
CompCount(r, P(_)) == IF r.kind = "composite" THEN Cardinality({k \in 1 .. Len(r.comps) : P(r.comps[k])}) ELSE 0
IsScale(p) == Len(p[4]) = 1
IsXYScale(p) == Len(p[4]) = 2
IsTwoByTwo(p) == Len(p[4]) = 4
IsAsymmetric(p) == Len(p[4]) = 4 /\ p[4][2] # p[4][3]
HasNegative(p) == \E i \in 1 .. Len(p[4]) : p[4][i] < 0
IsPointArgs(p) == (p[1] & FlXY) = 0
Readable(r) == r.kind \in {"empty", "simple", "composite"}

\* e.a.seac: 0 no accented glyph, SeacClosed: base and accent are requested too, SeacOpen: one of them is not
SeacClosed == 1
SeacOpen == 2
GlyphBad(e) ==
     (IF sub.ok /\ e.a.new < sub.n_out /\ sub.olds[e.a.new + 1] = e.a.old THEN {} ELSE {"event-binding"})
  \* outline(out, n) = outline(src, o): the command sequences are equal.  An accented glyph (seac) whose base or
  \* accent is not among the requested glyphs (e.a.seac = SeacOpen) may have lost its outline
  \* (Dev_SeacComponentsNotPulledIn of Subset.tla); if it still draws, it draws what it drew in the source.
  \cup (IF ~e.o.src.ok THEN {}
        ELSE IF ~e.o.out.ok THEN (IF e.a.seac = SeacOpen THEN {} ELSE {"outline-lost"})
        ELSE IF SameOutline(e.o.src.cmds, e.o.out.cmds) THEN {} ELSE {"outline"})
  \cup (IF e.a.metrics /\ e.o.adv[1] # e.o.adv[2] THEN {"advance"} ELSE {})
  \cup (IF e.a.metrics /\ e.o.lsb[1] # e.o.lsb[2] THEN {"lsb"} ELSE {})
  \* glyf: the records agree point by point; components agree in everything but the (renumbered) glyph id
  \cup (IF e.a.ind /\ Readable(e.o.isrc) /\ ~RecordsEqual(e.o.isrc, e.o.iout) THEN {"record"} ELSE {})

FirstN(s, k) == SubSeq(s, 1, IF Len(s) < k THEN Len(s) ELSE k)
FirstDiff(a, b) == LET m == IF Len(a) < Len(b) THEN Len(a) ELSE Len(b)
                       D == {i \in 1 .. m : a[i] # b[i]}
                   IN IF D = {} THEN m + 1 ELSE MinOf(D)
Around(s, i) == SubSeq(s, IF i > 1 THEN i - 1 ELSE 1, IF i + 1 < Len(s) THEN i + 1 ELSE Len(s))

Bump(s, e) ==
  IF e.ev = "Subset" THEN
    LET ok == e.o.ok
        glyf == ok /\ e.a.kind = "glyf" /\ SubsetBad(e) = {}
        extra == IF ok /\ e.o.n_out > Len(e.a.ids) THEN e.o.n_out - Len(e.a.ids) ELSE 0
        asmodel == glyf /\ OrderAsModel(e)
    IN [s EXCEPT !.events = @ + 1, !.subsets = @ + 1,
                 !.subsets_ok = @ + (IF ok THEN 1 ELSE 0),
                 !.subsets_refused = @ + (IF ~ok /\ ~e.o.panic THEN 1 ELSE 0),
                 !.subsets_panicked = @ + (IF ~ok /\ e.o.panic THEN 1 ELSE 0),
                 !.with_pulled_in = @ + (IF extra > 0 THEN 1 ELSE 0),
                 !.pulled_in = @ + extra,
                 !.order_as_model = @ + (IF asmodel THEN 1 ELSE 0),
                 !.order_other = @ + (IF glyf /\ ~asmodel THEN 1 ELSE 0)]
  ELSE IF e.ev = "Glyph" THEN
    LET both == e.o.src.ok /\ e.o.out.ok
        cr == e.a.ind /\ e.o.isrc.kind = "composite"
        r == e.o.isrc
    IN
    [s EXCEPT !.events = @ + 1, !.glyphs = @ + 1,
              !.comp_scale = @ + (IF cr THEN CompCount(r, IsScale) ELSE 0),
              !.comp_xy_scale = @ + (IF cr THEN CompCount(r, IsXYScale) ELSE 0),
              !.comp_two_by_two = @ + (IF cr THEN CompCount(r, IsTwoByTwo) ELSE 0),
              !.comp_two_by_two_asymmetric = @ + (IF cr THEN CompCount(r, IsAsymmetric) ELSE 0),
              !.comp_negative_transform = @ + (IF cr THEN CompCount(r, HasNegative) ELSE 0),
              !.comp_point_args = @ + (IF cr THEN CompCount(r, IsPointArgs) ELSE 0),
              !.composite_with_instructions = @ + (IF cr /\ r.instr # <<>> THEN 1 ELSE 0),
              \* a composite with a transformed component whose outline allsorts' visitor delivered on both sides
              !.transformed_outlines_compared = @ + (IF cr /\ both /\ e.o.src.cmds # <<>> /\ CompCount(r, LAMBDA p : p[4] # <<>>) > 0 THEN 1 ELSE 0),
              !.outlines_compared = @ + (IF both THEN 1 ELSE 0),
              !.outlines_nonempty = @ + (IF both /\ e.o.src.cmds # <<>> THEN 1 ELSE 0),
              !.source_without_outline = @ + (IF e.o.src.ok THEN 0 ELSE 1),
              !.bare_close_ignored = @ + (IF both /\ e.o.src.cmds # e.o.out.cmds /\ SameOutline(e.o.src.cmds, e.o.out.cmds) THEN 1 ELSE 0),
              !.metrics_compared = @ + (IF e.a.metrics THEN 1 ELSE 0),
              !.records_compared = @ + (IF e.a.ind /\ Readable(e.o.isrc) THEN 1 ELSE 0),
              !.composite_records = @ + (IF e.a.ind /\ e.o.isrc.kind = "composite" THEN 1 ELSE 0),
              !.kind_glyf = @ + (IF e.a.kind = "glyf" THEN 1 ELSE 0),
              !.kind_cff = @ + (IF e.a.kind = "cff" THEN 1 ELSE 0),
              !.kind_cid = @ + (IF e.a.kind = "cid" THEN 1 ELSE 0),
              !.kind_cff2 = @ + (IF e.a.kind = "cff2" THEN 1 ELSE 0),
              !.seac_closed_compared = @ + (IF e.a.seac = SeacClosed /\ both /\ e.o.src.cmds # <<>> THEN 1 ELSE 0),
              !.seac_open_lost = @ + (IF e.a.seac = SeacOpen /\ e.o.src.ok /\ ~e.o.out.ok THEN 1 ELSE 0),
              !.seac_open_kept = @ + (IF e.a.seac = SeacOpen /\ both THEN 1 ELSE 0)]
  ELSE [s EXCEPT !.events = @ + 1]

RECURSIVE SetSeq(_)
SetSeq(S) == IF S = {} THEN <<>> ELSE LET x == CHOOSE z \in S : TRUE IN <<x>> \o SetSeq(S \ {x})

Report(e, bad) ==
  IF e.ev = "Subset"
  THEN PrintT(<<"MISMATCH", ToJson([i |-> e.i, case |-> e.case, ev |-> "Subset", kind |-> e.a.kind, api |-> e.a.api,
                                    class |-> SetSeq(bad), err |-> e.o.err, n_ids |-> Len(e.a.ids), n_out |-> e.o.n_out,
                                    ids |-> FirstN(e.a.ids, 12), olds |-> FirstN(e.o.olds, 16), ctx |-> ""])>>)
  ELSE LET d == IF e.o.src.ok /\ e.o.out.ok THEN FirstDiff(e.o.src.cmds, e.o.out.cmds) ELSE 0 IN
       PrintT(<<"MISMATCH", ToJson([i |-> e.i, case |-> e.case, ev |-> "Glyph", kind |-> e.a.kind, api |-> "",
                                    class |-> SetSeq(bad), err |-> e.o.out.err, new |-> e.a.new, old |-> e.a.old,
                                    adv |-> e.o.adv, lsb |-> e.o.lsb,
                                    nsrc |-> Len(e.o.src.cmds), nout |-> Len(e.o.out.cmds), at |-> d,
                                    want |-> IF d > 0 THEN Around(e.o.src.cmds, d) ELSE <<>>,
                                    got |-> IF d > 0 THEN Around(e.o.out.cmds, d) ELSE <<>>,
                                    isrc_kind |-> e.o.isrc.kind, iout_kind |-> e.o.iout.kind, ctx |-> e.a.ctx])>>)

TInit == l = 1 /\ sub = NoSub /\ stats = Stats0

TNext ==
  /\ l <= Len(Rec)
  /\ l' = l + 1
  /\ LET e == Rec[l]
         bad == IF e.ev = "Subset" THEN SubsetBad(e) ELSE IF e.ev = "Glyph" THEN GlyphBad(e) ELSE {}
         s2 == Bump(stats, e)
     IN /\ sub' = IF e.ev = "Subset"
                  THEN [ok |-> e.o.ok /\ Len(e.o.olds) = e.o.n_out, n_out |-> e.o.n_out, olds |-> e.o.olds]
                  ELSE sub
        /\ stats' = s2
        /\ IF bad = {} THEN TRUE ELSE Report(e, bad)
        /\ IF l = Len(Rec) THEN PrintT(<<"STATS", ToJson(s2)>>) ELSE TRUE

TSpec == TInit /\ [][TNext]_tvars

AllConsumed == TLCGet("stats").diameter = Len(Rec) + 1
=============================================================================
