CONSTANTS
  NG = 4
  MaxDeg = 2
  MaxEdges = 4
  NHMs <- NHMsAll
SPECIFICATION Spec
INVARIANTS DesignOK EmitCase
CHECK_DEADLOCK FALSE
