CONSTANTS
  LenOf <- LenQuick
SPECIFICATION Spec
INVARIANTS StepOK GlobalOK FinalOK Emit
CHECK_DEADLOCK FALSE
