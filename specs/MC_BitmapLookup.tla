--------------------------- MODULE MC_BitmapLookup ---------------------------
(***************************************************************************)
(* Bounded exploration of BitmapLookup and generator of replay cases (X03).*)
(*                                                                         *)
(* A behaviour is ONE Font value living through a sequence of operations:  *)
(*   SetFilter(f)   Font::set_embedded_image_filter                        *)
(*   Lookup(g,t,d)  Font::lookup_glyph_image                               *)
(* State: the case `c` (font description + operations, drawn by Init), the *)
(* number `k` of operations done, the image filter `filt`, the lazily      *)
(* loaded table selection `cache` ("unloaded", "none" or a table), and the *)
(* expectations `hist`.  Invariants on every state: CacheCoherent (a       *)
(* loaded selection is the one the CURRENT filter selects); on final       *)
(* states: ChoicesOK (design properties of every strike choice) and        *)
(* EmitCase (prints the case with the conformant answers of every          *)
(* operation and of the direct table-level probes).                        *)
(***************************************************************************)
EXTENDS BitmapLookup, Json

CONSTANTS Deep          \* TRUE: larger parameter sets (thorough tier)

VARIABLES c, k, filt, cache, hist
vars == <<c, k, filt, cache, hist>>

---------------------------------------------------------------------------
\* encoders of the generator (they only BUILD tables; the semantics above reads them)

U8(x) == IF x < 0 THEN x + 256 ELSE x
U16B(x) == <<(x \div 256) % 256, x % 256>>
I16B(x) == U16B(IF x < 0 THEN x + 65536 ELSE x)
U32B(x) == <<(x \div 16777216) % 256, (x \div 65536) % 256, (x \div 256) % 256, x % 256>>
Filler(n) == [j \in 1 .. n |-> 238]
Payload(i, kk, g, n) == [j \in 1 .. n |-> (17 * i + 29 * kk + 13 * g + 7 * j + 3) % 256]

SmallFor(g, w, h) == [h |-> h, w |-> w, bx |-> (g % 5) - 2, by |-> h + (g % 3) - 1, adv |-> w + 1 + (g % 2)]
BigFor(g, w, h) == [h |-> h, w |-> w, hbx |-> (g % 5) - 2, hby |-> h + (g % 3) - 1, hadv |-> w + 1 + (g % 2),
                    vbx |-> 0 - (g % 4), vby |-> (g % 3) - 2, vadv |-> h + 2]
SmallBytes(m) == <<m.h, m.w, U8(m.bx), U8(m.by), m.adv>>
BigBytes(m) == <<m.h, m.w, U8(m.hbx), U8(m.hby), m.hadv, U8(m.vbx), U8(m.vby), m.vadv>>

PayLen(imf, bd, w, h, pn) ==
  CASE imf \in {1, 6}    -> h * CeilDiv(bd * w, 8)
    [] imf \in {2, 5, 7} -> CeilDiv(h * bd * w, 8)
    [] OTHER             -> pn

Comps(g) == U16B(g + 1) \o <<1, 255>> \o U16B(g + 2) \o <<0, 2>>

\* ss : sub-table spec [first, last, ifmt, imf, miss, skew, gap, w, h, pad, pn]
RecordBytes(i, kk, g, ss, bd) ==
  LET n   == PayLen(ss.imf, bd, ss.w, ss.h, ss.pn)
      pay == Payload(i, kk, g, n)
      \* index formats 2 / 5 have ONE set of metrics for the whole range
      mg  == IF ss.ifmt \in {2, 5} THEN ss.first ELSE g
  IN CASE ss.imf \in {1, 2} -> SmallBytes(SmallFor(mg, ss.w, ss.h)) \o pay
       [] ss.imf = 5        -> pay
       [] ss.imf \in {6, 7} -> BigBytes(BigFor(mg, ss.w, ss.h)) \o pay
       [] ss.imf = 8        -> SmallBytes(SmallFor(mg, ss.w, ss.h)) \o <<0>> \o U16B(2) \o Comps(g)
       [] ss.imf = 9        -> BigBytes(BigFor(mg, ss.w, ss.h)) \o U16B(2) \o Comps(g)
       [] ss.imf = 17       -> SmallBytes(SmallFor(mg, ss.w, ss.h)) \o U32B(n) \o pay \o Filler(ss.pad)
       [] ss.imf = 18       -> BigBytes(BigFor(mg, ss.w, ss.h)) \o U32B(n) \o pay \o Filler(ss.pad)
       [] ss.imf = 19       -> U32B(n) \o pay \o Filler(ss.pad)

RECURSIVE CatSeq(_)
CatSeq(ss) == IF ss = <<>> THEN <<>> ELSE Head(ss) \o CatSeq(Tail(ss))

\* one index sub-table and its records, the first record at data-table offset `off + gap`
BuildSub(i, bd, kk, ss, off) ==
  LET n    == ss.last - ss.first + 1
      has(g) == ss.ifmt = 2 \/ g \notin ss.miss
      rec  == TLCEval([j \in 1 .. n |-> IF has(ss.first + j - 1) THEN RecordBytes(i, kk, ss.first + j - 1, ss, bd) ELSE <<>>])
      cum[j \in 0 .. n] == IF j = 0 THEN 0 ELSE cum[j - 1] + Len(rec[j])
      pg   == SetToSortSeq({g \in ss.first .. ss.last : has(g)}, LAMBDA a, b : a < b)
      skew == IF ss.ifmt \in {2, 5} THEN 0 ELSE ss.skew
      size == IF ss.ifmt \in {2, 5} /\ pg # <<>> THEN Len(rec[pg[1] - ss.first + 1]) ELSE 0
  IN [sub |-> [first |-> ss.first, last |-> ss.last, ifmt |-> ss.ifmt, imf |-> ss.imf,
               ido |-> off + ss.gap - skew,
               offs |-> IF ss.ifmt \in {1, 3} THEN [j \in 1 .. (n + 1) |-> skew + cum[j - 1]] ELSE <<>>,
               size |-> size,
               bm |-> IF ss.ifmt \in {2, 5} THEN BigFor(ss.first, ss.w, ss.h) ELSE NoBig,
               gids |-> IF ss.ifmt = 5 THEN pg ELSE <<>>,
               pairs |-> IF ss.ifmt = 4
                         THEN [q \in 1 .. Len(pg) |-> <<pg[q], skew + cum[pg[q] - ss.first]>>] \o <<<<0, skew + cum[n]>>>>
                         ELSE <<>>],
      bytes |-> Filler(ss.gap) \o CatSeq(rec)]

RECURSIVE BuildSubs(_, _, _, _)
BuildSubs(i, sp, kk, off) ==
  IF kk > Len(sp.subs) THEN [subs |-> <<>>, bytes |-> <<>>]
  ELSE LET one  == BuildSub(i, sp.bd, kk, sp.subs[kk], off)
           rest == BuildSubs(i, sp, kk + 1, off + Len(one.bytes))
       IN [subs |-> <<one.sub>> \o rest.subs, bytes |-> one.bytes \o rest.bytes]

RECURSIVE BuildStrikes(_, _, _)
BuildStrikes(i, sps, off) ==
  IF i > Len(sps) THEN [strikes |-> <<>>, bytes |-> <<>>]
  ELSE LET sp   == sps[i]
           b    == BuildSubs(i, sp, 1, off)
           rest == BuildStrikes(i + 1, sps, off + Len(b.bytes))
           st   == [px |-> sp.px, py |-> sp.py, bd |-> sp.bd, fl |-> sp.fl,
                    start |-> Min({sp.subs[q].first : q \in 1 .. Len(sp.subs)}),
                    end |-> Max({sp.subs[q].last : q \in 1 .. Len(sp.subs)}),
                    ha |-> 10 + i, hd |-> 0 - (2 + i), va |-> 20 + i, vd |-> 0 - (4 + i),
                    subs |-> b.subs]
       IN [strikes |-> <<st>> \o rest.strikes, bytes |-> b.bytes \o rest.bytes]

\* ver 3 = CBLC / CBDT, 2 = EBLC / EBDT
BuildLoc(ver, sps) ==
  LET b == BuildStrikes(1, sps, 4) IN [ver |-> ver, strikes |-> b.strikes, dat |-> <<0, ver, 0, 0>> \o b.bytes]
EmptyLoc(ver) == [ver |-> ver, strikes |-> <<>>, dat |-> <<0, ver, 0, 0>>]

SS(first, last, ifmt, imf, miss, skew, gap, w, h, pad, pn) ==
  [first |-> first, last |-> last, ifmt |-> ifmt, imf |-> imf, miss |-> miss, skew |-> skew, gap |-> gap,
   w |-> w, h |-> h, pad |-> pad, pn |-> pn]
SP(px, py, bd, fl, subs) == [px |-> px, py |-> py, bd |-> bd, fl |-> fl, subs |-> subs]

\* sbix.  gs : Seq over glyph ids 0 .. ng-1 of [kind "none"/"img"/"dupe", tag, to, n]
GNone == [kind |-> "none", tag |-> <<>>, to |-> 0, n |-> 0]
GImg(tag, n) == [kind |-> "img", tag |-> tag, to |-> 0, n |-> n]
GDupe(to) == [kind |-> "dupe", tag |-> TagDupe, to |-> to, n |-> 2]
TagFlip == <<102, 108, 105, 112>>
TagMask == <<109, 97, 115, 107>>

BuildSbixStrike(i, ppem, ppi, gs, gap) ==
  LET ng  == Len(gs)
      rec == TLCEval([j \in 1 .. ng |->
               LET g == j - 1  e == gs[j] IN
               IF e.kind = "none" THEN <<>>
               ELSE I16B(g - 3) \o I16B(g - i) \o e.tag \o (IF e.kind = "dupe" THEN U16B(e.to) ELSE Payload(i, 0, g, e.n))])
      base == 4 + 4 * (ng + 1) + gap
      cum[j \in 0 .. ng] == IF j = 0 THEN 0 ELSE cum[j - 1] + Len(rec[j])
      offs == [j \in 1 .. (ng + 1) |-> base + cum[j - 1]]
  IN [ppem |-> ppem, ppi |-> ppi, offs |-> offs,
      bytes |-> U16B(ppem) \o U16B(ppi) \o CatSeq([j \in 1 .. (ng + 1) |-> U32B(offs[j])]) \o Filler(gap) \o CatSeq(rec)]

\* sts : Seq of [ppem, ppi, gs, gap]
BuildSbix(sts) == [strikes |-> [i \in 1 .. Len(sts) |-> BuildSbixStrike(i, sts[i].ppem, sts[i].ppi, sts[i].gs, sts[i].gap)]]
EmptySbix == [strikes |-> <<>>]

\* SVG documents: bytes that start with '<' (never the gzip magic)
SvgDoc(d, gz) == [gz |-> gz, plain |-> <<60, 115, 118, 103, 32>> \o Payload(d, 1, 1, 6 + d) \o <<62>>]
EmptySvg == [recs |-> <<>>, docs |-> <<>>]
SvgRec(s, e, doc) == [s |-> s, e |-> e, doc |-> doc]

Font(has, cblc, eblc, sbix, svg) == [has |-> has, cblc |-> cblc, eblc |-> eblc, sbix |-> sbix, svg |-> svg]

OpFilter(f) == [op |-> "filter", f |-> f, g |-> 0, ppem |-> 0, maxbd |-> 0]
OpLookup(g, t, d) == [op |-> "lookup", f |-> {}, g |-> g, ppem |-> t, maxbd |-> d]
LowProbe(t, g, p, d) == [t |-> t, g |-> g, ppem |-> p, maxbd |-> d]

Case(fam, id, ng, font, ops, low) == [fam |-> fam, id |-> id, ng |-> ng, font |-> font, ops |-> ops, low |-> low]

Asc(S) == SetToSortSeq(S, LAMBDA a, b : a < b)
SeqOfSet(S) == SetToSeq(S)

---------------------------------------------------------------------------
\* family "strike": which strike of an EBLC / CBLC table is chosen

Pool == IF Deep THEN {<<12, 1>>, <<12, 8>>, <<20, 1>>, <<20, 8>>, <<20, 32>>, <<32, 8>>, <<13, 8>>, <<255, 8>>}
               ELSE {<<12, 1>>, <<12, 8>>, <<20, 1>>, <<20, 8>>, <<20, 32>>, <<32, 8>>}
MaxStrikes == IF Deep THEN 4 ELSE 3
StrikePats == IF Deep THEN 0 .. 2 ELSE 0 .. 1
DepthProbes == IF Deep THEN <<1, 2, 4, 8, 32>> ELSE <<1, 8, 32>>

\* strike j of the list covers glyphs 4 .. 6 or only 4 .. 5, by pattern
CoversSix(pat, j) == CASE pat = 0 -> TRUE [] pat = 1 -> j % 2 = 1 [] OTHER -> j % 2 = 0

StrikeSpecs(L, pat) ==
  [j \in 1 .. Len(L) |->
     SP(L[j][1], IF L[j][1] >= 250 THEN L[j][1] - (j - 1) ELSE L[j][1] + (j - 1), L[j][2], 1,
        <<SS(4, IF CoversSix(pat, j) THEN 6 ELSE 5, 1, 1, {}, 0, 0, 3, 2, 0, 0)>>)]

PpemProbes(sizes) ==
  Asc({x \in UNION {{s - 1, s, s + 1} : s \in sizes} \cup {0, 255, 256, 1000, 65535} : x >= 0})

StrikeCase(L, pat) ==
  LET ebdt  == \A j \in 1 .. Len(L) : L[j][2] <= 8 /\ (pat % 2 = 1)
      loc   == BuildLoc(IF ebdt THEN 2 ELSE 3, StrikeSpecs(L, pat))
      sizes == {L[j][1] : j \in 1 .. Len(L)}
      pp    == PpemProbes(sizes)
      dp    == IF Len(L) > 3 THEN <<8, 32>> ELSE DepthProbes
      main  == CatSeq([a \in 1 .. 2 |-> CatSeq([b \in 1 .. Len(pp) |->
                  [d \in 1 .. Len(dp) |-> <<4 + a, pp[b], dp[d]>>]])])
      edge  == <<<<3, L[1][1], 32>>, <<7, L[1][1], 32>>, <<4, L[1][1], 32>>>>
      pr    == main \o edge
      low   == [q \in 1 .. Len(pr) |-> LowProbe(IF ebdt THEN "eblc" ELSE "cblc", pr[q][1], IF pr[q][2] > 255 THEN 255 ELSE pr[q][2], pr[q][3])]
      ops   == (IF ebdt THEN <<OpFilter({"ebdt"})>> ELSE <<>>) \o [q \in 1 .. Len(pr) |-> OpLookup(pr[q][1], pr[q][2], pr[q][3])]
  IN Case("strike", ToString(L) \o "/" \o ToString(pat), 16,
          Font(IF ebdt THEN {"ebdt"} ELSE {"cbdt"}, IF ebdt THEN EmptyLoc(3) ELSE loc, IF ebdt THEN loc ELSE EmptyLoc(2), EmptySbix, EmptySvg),
          ops, low)

\* equal size and equal depth (a tie: either strike), told apart by ppemY
TieLists == {<<<<20, 8>>, <<20, 8>>>>, <<<<12, 1>>, <<20, 8>>, <<20, 8>>>>, <<<<20, 8>>, <<32, 8>>, <<20, 8>>>>}

---------------------------------------------------------------------------
\* family "index": every index sub-table format x image format x bit depth

ImfFor(ifmt) ==
  CASE ifmt = 1 -> {1, 2, 5, 6, 7, 8, 9, 17, 18, 19}
    [] ifmt = 2 -> {1, 5, 6, 7, 17, 19}
    [] ifmt = 3 -> {1, 2, 6, 7, 17, 18}
    [] ifmt = 4 -> {1, 2, 6, 7, 17, 18}
    [] ifmt = 5 -> {5, 6, 19}

IndexParams == {<<ifmt, imf, bd, lay>> : ifmt \in 1 .. 5, imf \in {1, 2, 5, 6, 7, 8, 9, 17, 18, 19}, bd \in BitDepths, lay \in 0 .. 1}

IndexCase(ifmt, imf, bd, lay) ==
  LET ebdt == bd <= 8 /\ imf < 17
      ss   == IF lay = 0 THEN SS(4, 8, ifmt, imf, {}, 0, 0, 3, 2, 0, 5)
                         ELSE SS(4, 8, ifmt, imf, {6}, 2, 3, 5, 3, 1, 7)
      fl   == IF lay = 0 THEN 1 ELSE (IF bd = 1 THEN 0 ELSE 2)
      loc  == BuildLoc(IF ebdt THEN 2 ELSE 3, <<SP(16, 17, bd, fl, <<ss>>)>>)
      gs   == 3 .. 9
      low  == [q \in 1 .. 7 |-> LowProbe(IF ebdt THEN "eblc" ELSE "cblc", q + 2, 16, 32)]
      ops  == (IF ebdt THEN <<OpFilter({"ebdt", "cbdt"})>> ELSE <<>>) \o [q \in 1 .. 7 |-> OpLookup(q + 2, 16, 32)]
  IN Case("index", ToString(<<ifmt, imf, bd, lay>>), 16,
          Font(IF ebdt THEN {"ebdt"} ELSE {"cbdt"}, IF ebdt THEN EmptyLoc(3) ELSE loc, IF ebdt THEN loc ELSE EmptyLoc(2), EmptySbix, EmptySvg),
          ops, low)

\* family "multi": three sub-tables of different formats with adjacent ranges, two strikes
MultiImf(ifmt, r) ==
  CASE ifmt = 1 -> <<1, 6, 17>>[(r % 3) + 1]
    [] ifmt = 2 -> <<5, 1, 19>>[(r % 3) + 1]
    [] ifmt = 3 -> <<2, 7, 18>>[(r % 3) + 1]
    [] ifmt = 4 -> <<1, 17, 6>>[(r % 3) + 1]
    [] ifmt = 5 -> <<5, 19, 6>>[(r % 3) + 1]

MultiCase(r, bd) ==
  LET f(q) == ((r + q) % 5) + 1
      s1 == SP(16, 16, bd, 1, <<SS(2, 4, f(0), MultiImf(f(0), r), {}, 0, 0, 3, 2, 0, 4),
                                SS(5, 7, f(1), MultiImf(f(1), r), {6}, 2, 1, 3, 2, 0, 5),
                                SS(10, 12, f(2), MultiImf(f(2), r), {}, 0, 2, 4, 1, 2, 6)>>)
      s2 == SP(32, 32, bd, 3, <<SS(3, 5, f(3), MultiImf(f(3), r + 1), {}, 0, 1, 5, 2, 0, 4),
                                SS(11, 11, f(4), MultiImf(f(4), r + 1), {}, 0, 0, 2, 2, 1, 3)>>)
      loc == BuildLoc(3, <<s1, s2>>)
      pr  == CatSeq([g \in 1 .. 13 |-> <<<<g, 16>>, <<g, 32>>>>])
  IN Case("multi", ToString(<<r, bd>>), 16, Font({"cbdt"}, loc, EmptyLoc(2), EmptySbix, EmptySvg),
          [q \in 1 .. Len(pr) |-> OpLookup(pr[q][1], pr[q][2], 32)],
          [q \in 1 .. Len(pr) |-> LowProbe("cblc", pr[q][1], pr[q][2], 32)])

---------------------------------------------------------------------------
\* family "sbix": strike choice; family "dupe": indirection

SbixPool == IF Deep THEN {20, 24, 40, 300, 0} ELSE {20, 24, 40, 300}
SbixNg == 7
\* glyph 1 in every strike; glyph 2 by pattern; glyph 3 tiff in the first strike only; glyph 4
\* 'flip'; glyph 5 nowhere; glyph 6 'mask' in the last strike
SbixGlyphs(pat, j, n) ==
  <<GNone,
    GImg(TagPng, 3 + j),
    IF CoversSix(pat, j) THEN GImg(TagJpg, 4) ELSE GNone,
    IF j = 1 THEN GImg(TagTiff, 1) ELSE GNone,
    GImg(TagFlip, 2),
    GNone,
    IF j = n THEN GImg(TagMask, 0) ELSE GNone>>

SbixCase(L, pat) ==
  LET sb == BuildSbix([j \in 1 .. Len(L) |-> [ppem |-> L[j], ppi |-> 72 + j, gs |-> SbixGlyphs(pat, j, Len(L)), gap |-> (j - 1) % 2]])
      pp == Asc({x \in UNION {{s - 1, s, s + 1} : s \in {L[j] : j \in 1 .. Len(L)}} \cup {0, 1000, 65535} : x >= 0})
      pr == CatSeq([a \in 1 .. 2 |-> [b \in 1 .. Len(pp) |-> <<a, pp[b]>>]])
            \o <<<<0, L[1]>>, <<3, L[1]>>, <<4, L[1]>>, <<5, L[1]>>, <<6, L[1]>>, <<7, L[1]>>, <<65535, L[1]>>>>
  IN Case("sbix", ToString(L) \o "/" \o ToString(pat), SbixNg, Font({"sbix"}, EmptyLoc(3), EmptyLoc(2), sb, EmptySvg),
          [q \in 1 .. Len(pr) |-> OpLookup(pr[q][1], pr[q][2], 32)],
          [q \in 1 .. Len(pr) |-> LowProbe("sbix", pr[q][1], pr[q][2], 32)])

\* equal ppem, different ppi: a tie
SbixTieLists == {<<20, 20>>, <<40, 20, 20>>}

P3 == GImg(TagPng, 3)
DupeScenarios ==
  \* name, strikes as <<ppem, glyph entries>>
  <<<<"one-level",      <<<<20, <<GNone, P3, GDupe(1), GNone, GNone, GNone, GNone>>>>>>>>,
    <<"chain-2",        <<<<20, <<GNone, P3, GDupe(1), GDupe(2), GNone, GNone, GNone>>>>>>>>,
    <<"chain-3",        <<<<20, <<GNone, P3, GDupe(1), GDupe(2), GDupe(3), GNone, GNone>>>>>>>>,
    <<"self",           <<<<20, <<GNone, P3, GDupe(2), GNone, GNone, GNone, GNone>>>>>>>>,
    <<"cycle-2",        <<<<20, <<GNone, P3, GDupe(3), GDupe(2), GNone, GNone, GNone>>>>>>>>,
    <<"cycle-3",        <<<<20, <<GNone, GDupe(3), GDupe(1), GDupe(2), GDupe(1), GNone, GNone>>>>>>>>,
    <<"to-absent",      <<<<20, <<GNone, P3, GDupe(5), GNone, GNone, GNone, GNone>>>>>>>>,
    <<"to-out-of-range", <<<<20, <<GNone, P3, GDupe(999), GDupe(7), GDupe(65535), GNone, GNone>>>>>>>>,
    <<"to-glyph-0",     <<<<20, <<P3, GNone, GDupe(0), GNone, GNone, GNone, GNone>>>>>>>>,
    <<"other-strike",   <<<<20, <<GNone, GNone, GDupe(1), GNone, GNone, GNone, GNone>>>>,
                          <<40, <<GNone, P3, GNone, GNone, GNone, GNone, GNone>>>>>>>>,
    <<"restrike",       <<<<20, <<GNone, P3, GDupe(1), GNone, GNone, GNone, GNone>>>>,
                          <<40, <<GNone, GImg(TagJpg, 5), GNone, GNone, GNone, GNone, GNone>>>>>>>>,
    <<"dupe-in-both",   <<<<20, <<GNone, P3, GDupe(1), GDupe(2), GNone, GNone, GNone>>>>,
                          <<40, <<GNone, GImg(TagJpg, 5), GDupe(1), GNone, GNone, GNone, GNone>>>>>>>>,
    <<"dupe-of-flip",   <<<<20, <<GNone, GImg(TagFlip, 2), GDupe(1), GNone, GNone, GNone, GNone>>>>>>>>>>

DupeCase(n) ==
  LET sc == DupeScenarios[n]
      sb == BuildSbix([j \in 1 .. Len(sc[2]) |-> [ppem |-> sc[2][j][1], ppi |-> 72, gs |-> sc[2][j][2], gap |-> 0]])
      pr == CatSeq([g \in 1 .. 5 |-> <<<<g - 1, 20>>, <<g - 1, 40>>, <<g - 1, 30>>>>])
  IN Case("dupe", sc[1], SbixNg, Font({"sbix"}, EmptyLoc(3), EmptyLoc(2), sb, EmptySvg),
          [q \in 1 .. Len(pr) |-> OpLookup(pr[q][1], pr[q][2], 32)],
          [q \in 1 .. Len(pr) |-> LowProbe("sbix", pr[q][1], pr[q][2], 32)])

---------------------------------------------------------------------------
\* family "svg"

SvgTables ==
  <<[recs |-> <<SvgRec(5, 5, 1)>>, docs |-> <<SvgDoc(1, FALSE)>>],
    [recs |-> <<SvgRec(3, 6, 1)>>, docs |-> <<SvgDoc(1, TRUE)>>],
    [recs |-> <<SvgRec(2, 3, 1), SvgRec(4, 4, 2), SvgRec(5, 9, 1)>>, docs |-> <<SvgDoc(1, FALSE), SvgDoc(2, TRUE)>>],
    [recs |-> <<SvgRec(0, 0, 1), SvgRec(15, 15, 2)>>, docs |-> <<SvgDoc(1, TRUE), SvgDoc(2, FALSE)>>],
    [recs |-> <<SvgRec(7, 8, 2), SvgRec(10, 12, 1)>>, docs |-> <<SvgDoc(1, FALSE), SvgDoc(2, FALSE)>>],
    EmptySvg>>

SvgCase(n) ==
  Case("svg", ToString(n), 16, Font({"svg"}, EmptyLoc(3), EmptyLoc(2), EmptySbix, SvgTables[n]),
       [g \in 1 .. 17 |-> OpLookup(g - 1, IF g % 2 = 0 THEN 0 ELSE 64, IF g % 3 = 0 THEN 1 ELSE 32)], <<>>)

---------------------------------------------------------------------------
\* family "pref": table preference, the image filter and the lazily loaded selection

PrefCblc == BuildLoc(3, <<SP(16, 16, 32, 1, <<SS(1, 1, 1, 17, {}, 0, 0, 3, 2, 0, 4)>>)>>)
PrefEblc == BuildLoc(2, <<SP(16, 16, 1, 1, <<SS(1, 2, 2, 5, {}, 0, 0, 3, 2, 0, 0)>>)>>)
PrefSbix == BuildSbix(<<[ppem |-> 16, ppi |-> 72, gs |-> <<GNone, GImg(TagPng, 3), GImg(TagJpg, 2)>>, gap |-> 0]>>)
PrefSvg  == [recs |-> <<SvgRec(1, 1, 1)>>, docs |-> <<SvgDoc(1, FALSE)>>]
PrefFont(has) == Font(has, IF "cbdt" \in has THEN PrefCblc ELSE EmptyLoc(3), IF "ebdt" \in has THEN PrefEblc ELSE EmptyLoc(2),
                      IF "sbix" \in has THEN PrefSbix ELSE EmptySbix, IF "svg" \in has THEN PrefSvg ELSE EmptySvg)

FilterPool == IF Deep THEN SUBSET {"svg", "cbdt", "sbix", "ebdt"}
              ELSE {DefaultFilter, {"svg", "cbdt", "sbix", "ebdt"}, {"ebdt"}, {"sbix", "ebdt"}, {"cbdt", "ebdt"}, {}, {"svg"}, {"sbix"}}

PrefCase(has, f1, f2) ==
  Case("pref", ToString(<<has, f1, f2>>), 3, PrefFont(has),
       <<OpLookup(1, 16, 32), OpFilter(f1), OpLookup(1, 16, 32), OpLookup(2, 16, 32),
         OpFilter(f2), OpLookup(1, 16, 32), OpFilter(f2), OpLookup(2, 16, 32), OpFilter(DefaultFilter), OpLookup(1, 16, 32)>>,
       <<>>)

---------------------------------------------------------------------------
Seqs(S, n) == UNION {{q \in [1 .. m -> S] : \A a \in 1 .. m, b \in 1 .. m : a # b => q[a] # q[b]} : m \in 1 .. n}

Families == {"strike", "tie", "index", "multi", "sbix", "sbixtie", "dupe", "svg", "pref"}

Init ==
  /\ k = 0 /\ filt = DefaultFilter /\ cache = "unloaded" /\ hist = <<>>
  /\ \E fam \in Families :
       CASE fam = "strike"  -> \E L \in Seqs(Pool, MaxStrikes) : \E pat \in StrikePats : c = StrikeCase(L, pat)
         [] fam = "tie"     -> \E L \in TieLists : \E pat \in 0 .. 1 : c = [StrikeCase(L, pat) EXCEPT !.fam = "tie"]
         [] fam = "index"   -> \E p \in IndexParams : p[2] \in ImfFor(p[1]) /\ c = IndexCase(p[1], p[2], p[3], p[4])
         [] fam = "multi"   -> \E r \in 0 .. (IF Deep THEN 14 ELSE 4) : \E bd \in (IF Deep THEN BitDepths ELSE {1, 8, 32}) : c = MultiCase(r, bd)
         [] fam = "sbix"    -> \E L \in Seqs(SbixPool, MaxStrikes) : \E pat \in (IF Len(L) > 3 THEN {1} ELSE StrikePats) : c = SbixCase(L, pat)
         [] fam = "sbixtie" -> \E L \in SbixTieLists : c = [SbixCase(L, 0) EXCEPT !.fam = "sbixtie"]
         [] fam = "dupe"    -> \E n \in 1 .. Len(DupeScenarios) : c = DupeCase(n)
         [] fam = "svg"     -> \E n \in 1 .. Len(SvgTables) : c = SvgCase(n)
         [] fam = "pref"    -> \E has \in SUBSET {"svg", "cbdt", "sbix", "ebdt"} : \E f1 \in FilterPool : \E f2 \in FilterPool :
                                  c = PrefCase(has, f1, f2)

---------------------------------------------------------------------------
\* the machine

Done == k = Len(c.ops)

\* strike keys and candidate sets of a lookup in the selected table (for ChoicesOK and the bug name)
KeysOf(sel) == CASE sel = "cbdt" -> CblcKeys(c.font.cblc) [] sel = "ebdt" -> CblcKeys(c.font.eblc) [] sel = "sbix" -> SbixKeys(c.font.sbix) [] OTHER -> <<>>
CandOf(sel, g, maxbd) ==
  CASE sel = "cbdt" -> CblcCandidates(c.font.cblc, g, maxbd, FALSE)
    [] sel = "ebdt" -> CblcCandidates(c.font.eblc, g, maxbd, FALSE)
    [] sel = "sbix" -> SbixCandidates(c.font.sbix, g)
    [] OTHER -> {}
CodePickOf(sel, g, t, maxbd) ==
  CASE sel = "cbdt" -> CblcCodePick(c.font.cblc, g, ClampPpem(t), maxbd)
    [] sel = "ebdt" -> CblcCodePick(c.font.eblc, g, ClampPpem(t), maxbd)
    [] sel = "sbix" -> SbixCodePick(c.font.sbix, g, t)
    [] OTHER -> 0
TargetOf(sel, t) == IF sel \in {"cbdt", "ebdt"} THEN ClampPpem(t) ELSE t

\* name of the code reading when it is not a conformant answer ("" = conformant)
BugName(sel, g, t, maxbd) ==
  LET K == KeysOf(sel)  C == CandOf(sel, g, maxbd)  tt == TargetOf(sel, t)
      w == CodePickOf(sel, g, t, maxbd)  B == Best(K, C, tt) IN
  IF w = 0 \/ w \in B THEN "code"
  ELSE (IF sel = "sbix" THEN "sbix-find:" ELSE "cblc-find:") \o PickSituation(K, w, CHOOSE b \in B : TRUE, tt)

Expect(op, sel) ==
  LET want == FontLookup(c.font, sel, op.g, op.ppem, op.maxbd)
      code == FontCodeLookup(c.font, sel, op.g, op.ppem, op.maxbd) IN
  [op |-> "lookup", f |-> <<>>, g |-> op.g, ppem |-> op.ppem, maxbd |-> op.maxbd, sel |-> sel,
   want |-> SeqOfSet(want),
   bug |-> IF code \in want THEN <<>> ELSE <<[name |-> BugName(sel, op.g, op.ppem, op.maxbd), res |-> code]>>]

Next ==
  /\ ~Done
  /\ k' = k + 1
  /\ c' = c
  /\ LET op == c.ops[k + 1] IN
     IF op.op = "filter"
     THEN /\ filt' = op.f
          \* a selection made under another filter is forgotten
          /\ cache' = IF op.f # filt THEN "unloaded" ELSE cache
          /\ hist' = Append(hist, [op |-> "filter", f |-> SeqOfSet(op.f), g |-> 0, ppem |-> 0, maxbd |-> 0, sel |-> "",
                                   want |-> <<>>, bug |-> <<>>])
     ELSE LET sel == IF cache = "unloaded" THEN Select(c.font.has, filt) ELSE cache IN
          /\ filt' = filt
          /\ cache' = sel
          /\ hist' = Append(hist, Expect(op, sel))

Spec == Init /\ [][Next]_vars

---------------------------------------------------------------------------
\* invariants

\* the design property of the lazily loaded selection (a stale selection after a filter change
\* was a defect of an earlier allsorts revision)
CacheCoherent == cache # "unloaded" => cache = Select(c.font.has, filt)

ChoicesOK ==
  Done => \A q \in 1 .. Len(hist) :
            hist[q].op = "lookup" /\ hist[q].sel \in {"cbdt", "ebdt", "sbix"} =>
              ChoiceOK(KeysOf(hist[q].sel), CandOf(hist[q].sel, hist[q].g, hist[q].maxbd), TargetOf(hist[q].sel, hist[q].ppem))

\* every lookup has at least one conformant answer, and the answers of one lookup that are
\* images all come from strikes of one size (ties and Dev_ readings never change the size class
\* except Dev_ContainsByRange / the dupe readings, which may lose the image)
WantsOK == Done => \A q \in 1 .. Len(hist) : hist[q].op = "lookup" => Len(hist[q].want) >= 1

LowExpect(p) ==
  LET want == CASE p.t = "cblc" -> CblcLow(c.font.cblc, p.g, p.ppem, p.maxbd)
                [] p.t = "eblc" -> CblcLow(c.font.eblc, p.g, p.ppem, p.maxbd)
                [] p.t = "sbix" -> SbixLow(c.font.sbix, p.g, p.ppem)
      code == CASE p.t = "cblc" -> CblcCodeLow(c.font.cblc, p.g, p.ppem, p.maxbd)
                [] p.t = "eblc" -> CblcCodeLow(c.font.eblc, p.g, p.ppem, p.maxbd)
                [] p.t = "sbix" -> SbixCodeLow(c.font.sbix, p.g, p.ppem)
      sel  == CASE p.t = "cblc" -> "cbdt" [] p.t = "eblc" -> "ebdt" [] OTHER -> "sbix"
  IN [t |-> p.t, g |-> p.g, ppem |-> p.ppem, maxbd |-> p.maxbd, want |-> SeqOfSet(want),
      bug |-> IF code \in want THEN <<>> ELSE <<[name |-> BugName(sel, p.g, p.ppem, p.maxbd), res |-> code]>>]

EmitCase ==
  Done => PrintT(<<"CASE", ToJson([fam |-> c.fam, id |-> c.id, ng |-> c.ng, has |-> SeqOfSet(c.font.has),
                                   cblc |-> c.font.cblc, eblc |-> c.font.eblc, sbix |-> c.font.sbix, svg |-> c.font.svg,
                                   ops |-> hist, low |-> [q \in 1 .. Len(c.low) |-> LowExpect(c.low[q])]])>>)

\* evaluated once
ASSUME OrderLemmas({0, 11, 12, 13, 20, 255}, BitDepths, {0, 11, 12, 13, 19, 20, 21, 255, 300})
ASSUME OrderLemmas(0 .. 12, {1, 8}, 0 .. 12)
ASSUME HelperLemma(-40 .. 40)
ASSUME \A p \in SUBSET {"svg", "cbdt", "sbix", "ebdt"}, f \in SUBSET {"svg", "cbdt", "sbix", "ebdt"} :
         LET s == Select(p, f) IN
         /\ (s = "none" <=> p \cap f = {})
         /\ (s # "none" => s \in p \cap f)
         /\ ("svg" \in p \cap f => s = "svg")
         /\ ("cbdt" \in p \cap f /\ "svg" \notin p \cap f => s = "cbdt")
         /\ ("sbix" \in p \cap f /\ p \cap f \cap {"svg", "cbdt"} = {} => s = "sbix")
=============================================================================
