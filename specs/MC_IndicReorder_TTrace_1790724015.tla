---- MODULE MC_IndicReorder_TTrace_1790724015 ----
EXTENDS Sequences, TLCExt, Toolbox, Naturals, TLC, MC_IndicReorder

_expression ==
    LET MC_IndicReorder_TEExpression == INSTANCE MC_IndicReorder_TEExpression
    IN MC_IndicReorder_TEExpression!expression
----

_trace ==
    LET MC_IndicReorder_TETrace == INSTANCE MC_IndicReorder_TETrace
    IN MC_IndicReorder_TETrace!trace
----

_inv ==
    ~(
        TLCGet("level") = Len(_TETrace)
        /\
        st = ([done |-> TRUE, i |-> 1, base |-> 1, tag |-> <<"none", "none">>, seen |-> FALSE])
        /\
        c = ([kind |-> "broken", sc |-> "beng", model |-> "indic2", fn |-> "std", syms |-> <<"Mpre">>])
    )
----

_init ==
    /\ c = _TETrace[1].c
    /\ st = _TETrace[1].st
----

_next ==
    /\ \E i,j \in DOMAIN _TETrace:
        /\ \/ /\ j = i + 1
              /\ i = TLCGet("level")
        /\ c  = _TETrace[i].c
        /\ c' = _TETrace[j].c
        /\ st  = _TETrace[i].st
        /\ st' = _TETrace[j].st

\* Uncomment the ASSUME below to write the states of the error trace
\* to the given file in Json format. Note that you can pass any tuple
\* to `JsonSerialize`. For example, a sub-sequence of _TETrace.
    \* ASSUME
    \*     LET J == INSTANCE Json
    \*         IN J!JsonSerialize("MC_IndicReorder_TTrace_1790724015.json", _TETrace)

=============================================================================

 Note that you can extract this module `MC_IndicReorder_TEExpression`
  to a dedicated file to reuse `expression` (the module in the 
  dedicated `MC_IndicReorder_TEExpression.tla` file takes precedence 
  over the module `MC_IndicReorder_TEExpression` below).

---- MODULE MC_IndicReorder_TEExpression ----
EXTENDS Sequences, TLCExt, Toolbox, Naturals, TLC, MC_IndicReorder

expression == 
    [
        \* To hide variables of the `MC_IndicReorder` spec from the error trace,
        \* remove the variables below.  The trace will be written in the order
        \* of the fields of this record.
        c |-> c
        ,st |-> st
        
        \* Put additional constant-, state-, and action-level expressions here:
        \* ,_stateNumber |-> _TEPosition
        \* ,_cUnchanged |-> c = c'
        
        \* Format the `c` variable as Json value.
        \* ,_cJson |->
        \*     LET J == INSTANCE Json
        \*     IN J!ToJson(c)
        
        \* Lastly, you may build expressions over arbitrary sets of states by
        \* leveraging the _TETrace operator.  For example, this is how to
        \* count the number of times a spec variable changed up to the current
        \* state in the trace.
        \* ,_cModCount |->
        \*     LET F[s \in DOMAIN _TETrace] ==
        \*         IF s = 1 THEN 0
        \*         ELSE IF _TETrace[s].c # _TETrace[s-1].c
        \*             THEN 1 + F[s-1] ELSE F[s-1]
        \*     IN F[_TEPosition - 1]
    ]

=============================================================================



Parsing and semantic processing can take forever if the trace below is long.
 In this case, it is advised to uncomment the module below to deserialize the
 trace from a generated binary file.

\*
\*---- MODULE MC_IndicReorder_TETrace ----
\*EXTENDS IOUtils, TLC, MC_IndicReorder
\*
\*trace == IODeserialize("MC_IndicReorder_TTrace_1790724015.bin", TRUE)
\*
\*=============================================================================
\*

---- MODULE MC_IndicReorder_TETrace ----
EXTENDS TLC, MC_IndicReorder

trace == 
    <<
    ([st |-> [done |-> FALSE, i |-> 2, base |-> 0, tag |-> <<"none", "none">>, seen |-> FALSE],c |-> [kind |-> "broken", sc |-> "beng", model |-> "indic2", fn |-> "std", syms |-> <<"Mpre">>]]),
    ([st |-> [done |-> FALSE, i |-> 1, base |-> 0, tag |-> <<"none", "none">>, seen |-> FALSE],c |-> [kind |-> "broken", sc |-> "beng", model |-> "indic2", fn |-> "std", syms |-> <<"Mpre">>]]),
    ([st |-> [done |-> TRUE, i |-> 1, base |-> 1, tag |-> <<"none", "none">>, seen |-> FALSE],c |-> [kind |-> "broken", sc |-> "beng", model |-> "indic2", fn |-> "std", syms |-> <<"Mpre">>]])
    >>
----


=============================================================================

---- CONFIG MC_IndicReorder_TTrace_1790724015 ----
CONSTANTS
    Tier = "tiny"

INVARIANT
    _inv

CHECK_DEADLOCK
    \* CHECK_DEADLOCK off because of PROPERTY or INVARIANT above.
    FALSE

INIT
    _init

NEXT
    _next

CONSTANT
    _TETrace <- _trace

ALIAS
    _expression
=============================================================================
\* Generated on Tue Sep 29 23:20:19 UTC 2026