------------------------------ MODULE MC_Morx ------------------------------
(***************************************************************************)
(* Bounded exploration of Morx and generator of replay cases (spec -> impl). *)
(*                                                                         *)
(* A case is (program template, input glyph string).  Init picks the case;   *)
(* the machine then runs every subtable of every chain in table order, ONE   *)
(* ENTRY PER STEP (Morx!Step = one iteration of the inner loop of allsorts'  *)
(* process_glyphs, or the end-of-text step), then one step that closes the   *)
(* subtable.  Variables = the glyph run, the cursor, the current state, the  *)
(* mark position, the component stack (+ bookkeeping).  Checked on every      *)
(* state: CursorInRun, MarkInRun, StackBounded, LengthOnlyByLigature,         *)
(* CharsConserved, GlyphsSane, NoIllTags, ProgramsWellFormed,                 *)
(* SmallStepIsDenotation (at the end hist = Morx!MorxSteps and the last run   *)
(* = Morx!MorxDenote), and termination: an Assert in Next that the measure   *)
(* (subtables left, glyphs left, DONT_ADVANCE rank of the state) strictly     *)
(* decreases.  At the end of a case one CASE line is printed with the         *)
(* expected run after every subtable under each accepted reading, plus the    *)
(* runs of the known NON-conformant readings (to classify mismatches only).   *)
(***************************************************************************)
EXTENDS Morx, Json

CONSTANT Tier                      \* "quick" or "thorough"

VARIABLES pi, inp,                 \* the case
          k,                       \* subtable being processed (index into Flat), Len + 1 = finished
          grun, cursor, state, markpos, cstack,  \* glyph run, cursor, current state, mark position, component stack
          locals, subdone,         \* allsorts' loop locals (read by bug readings only); subtable finished
          hist, seen, ndel         \* run after every subtable; spec branches taken; glyphs removed so far
vars == <<pi, inp, k, grun, cursor, state, markpos, cstack, locals, subdone, hist, seen, ndel>>

Q(q, t) == IF Tier = "quick" THEN q ELSE t

N == 22                            \* glyphs in the font.  Input alphabet 1..5 (A B C D X), outputs 6..21

---------------------------------------------------------------------------
(* Lookup table builders: ps = <<glyph, value>> pairs with ascending glyphs; *)
(* f = 0 2 4 6 8 10, 11 = format 10 with one-byte units.  Array formats fill  *)
(* holes with class 1 (class tables) or the glyph itself (substitutions).     *)
PairAt(ps, g) ==
  LET ks == {q \in 1 .. Len(ps) : ps[q][1] = g} IN IF ks = {} THEN -1 ELSE ps[MinOfSet(ks)][2]

RECURSIVE Seg2(_, _, _)
Seg2(ps, n, acc) ==
  IF n > Len(ps) THEN acc
  ELSE IF acc # <<>> /\ acc[Len(acc)].hi + 1 = ps[n][1] /\ acc[Len(acc)].v = ps[n][2]
       THEN Seg2(ps, n + 1, [acc EXCEPT ![Len(acc)].hi = ps[n][1]])
       ELSE Seg2(ps, n + 1, Append(acc, [lo |-> ps[n][1], hi |-> ps[n][1], v |-> ps[n][2], vs |-> <<>>]))
RECURSIVE Seg4(_, _, _)
Seg4(ps, n, acc) ==
  IF n > Len(ps) THEN acc
  ELSE IF acc # <<>> /\ acc[Len(acc)].hi + 1 = ps[n][1]
       THEN Seg4(ps, n + 1, [acc EXCEPT ![Len(acc)].hi = ps[n][1], ![Len(acc)].vs = Append(@, ps[n][2])])
       ELSE Seg4(ps, n + 1, Append(acc, [lo |-> ps[n][1], hi |-> ps[n][1], v |-> 0, vs |-> <<ps[n][2]>>]))

MkLk(f, ps, ident) ==
  LET At(g) == LET v == PairAt(ps, g) IN IF v # -1 THEN v ELSE IF ident THEN g ELSE 1
      lo == ps[1][1]
      hi == ps[Len(ps)][1]
      base == [f |-> IF f = 11 THEN 10 ELSE f, first |-> 0, unit |-> IF f = 11 THEN 1 ELSE 2, vals |-> <<>>, segs |-> <<>>]
  IN CASE f = 0 -> [base EXCEPT !.vals = [q \in 1 .. N |-> At(q - 1)]]
       [] f = 2 -> [base EXCEPT !.segs = Seg2(ps, 1, <<>>)]
       [] f = 4 -> [base EXCEPT !.segs = Seg4(ps, 1, <<>>)]
       [] f = 6 -> [base EXCEPT !.segs = [q \in 1 .. Len(ps) |-> [lo |-> ps[q][1], hi |-> ps[q][1], v |-> ps[q][2], vs |-> <<>>]]]
       [] f \in {8, 10, 11} -> [base EXCEPT !.first = lo, !.vals = [q \in 1 .. hi - lo + 1 |-> At(lo + q - 1)]]
Cls(f, ps) == MkLk(f, ps, FALSE)
Sb(f, ps) == MkLk(f, ps, TRUE)

Fmts == <<0, 2, 4, 6, 8, 10, 11>>
Rot(n, d) == Fmts[((n - 1 + d) % 7) + 1]

CE(ns, mk, da, mi, ci) == [ns |-> ns, mark |-> mk, da |-> da, mi |-> mi, ci |-> ci]
LE(ns, push, act, da, ai) == [ns |-> ns, push |-> push, act |-> act, da |-> da, ai |-> ai]
LA(last, store, off) == [last |-> last, store |-> store, off |-> off]
\* ligature entries shared by the templates: 0 nothing, 1 push -> state 2, 2 push + action 0 -> state 0, 3 stay in 2, 4 DONT_ADVANCE -> 0
LigEnts == << LE(0, 0, 0, 0, 0), LE(2, 1, 0, 0, 0), LE(0, 1, 1, 0, 0), LE(2, 0, 0, 0, 0), LE(0, 0, 0, 1, 0) >>

NonCtx(cov, flags, lk) == [type |-> 4, cov |-> cov, flags |-> flags, lk |-> lk]
Ctx(cov, flags, nc, cls, rows, ents, subst) ==
  [type |-> 1, cov |-> cov, flags |-> flags, nc |-> nc, cls |-> cls, rows |-> rows, ents |-> ents, subst |-> subst]
Lig(cov, flags, nc, cls, rows, ents, acts, comps, ligs) ==
  [type |-> 2, cov |-> cov, flags |-> flags, nc |-> nc, cls |-> cls, rows |-> rows, ents |-> ents,
   acts |-> acts, comps |-> comps, ligs |-> ligs]
Other(t, cov, flags) == [type |-> t, cov |-> cov, flags |-> flags]

ReqDefault == [kind |-> "mask", tags |-> <<"ccmp", "rlig", "clig", "liga", "locl", "calt">>]
ReqMask(ts) == [kind |-> "mask", tags |-> ts]
ReqCustom == [kind |-> "custom", tags |-> <<>>]

Chain1(subs) == [def |-> 1, sh |-> 0, feats |-> <<>>, subs |-> subs]
Prog(ver, lay, req, chains) == [ver |-> ver, n |-> N, lay |-> lay, req |-> req, chains |-> chains]
P1(n, subs) == Prog(2 + (n % 2), n % 4, ReqDefault, <<Chain1(subs)>>)       \* version and layout vary with n
Entry_(name, prog, alpha, maxlen) == [name |-> name, prog |-> prog, alpha |-> alpha, maxlen |-> maxlen]

---------------------------------------------------------------------------
(* F1 noncontextual substitution, every lookup format.  1->7 2->8 3->3 5->9; *)
(* 4 is a hole (array formats) or absent                                     *)
FamNonCtx ==
  [n \in 1 .. 7 |->
     Entry_("nonctx", P1(n, <<NonCtx(0, 1, Sb(Fmts[n], << <<1, 7>>, <<2, 8>>, <<3, 3>>, <<5, 9>> >>))>>),
            <<1, 2, 3, 4, 5>>, Q(3, 5))]
FamNonCtxSeq ==
  << Entry_("nonctx-sequence",
            P1(1, <<NonCtx(0, 1, Sb(6, << <<1, 2>> >>)), NonCtx(0, 1, Sb(2, << <<2, 8>>, <<3, 8>> >>)),
                    NonCtx(0, 1, Sb(8, << <<8, 1>> >>))>>),
            <<1, 2, 3>>, Q(4, 6)) >>

(* F2 contextual: B after A is substituted (current-glyph substitution)      *)
\* columns: EOT OOB DEL EOL A B
CtxCurrent(cov, flags, cf, sf) ==
  Ctx(cov, flags, 6, Cls(cf, << <<1, 4>>, <<2, 5>> >>),
      << <<0, 0, 0, 0, 1, 0>>, <<0, 0, 0, 0, 1, 0>>, <<0, 0, 1, 0, 1, 2>> >>,
      << CE(0, 0, 0, -1, -1), CE(2, 0, 0, -1, -1), CE(0, 0, 0, -1, 0) >>,
      << Sb(sf, << <<2, 9>> >>) >>)
FamCtxCurrent ==
  [n \in 1 .. 7 |->
     Entry_("ctx-current", P1(n, <<CtxCurrent(0, 1, Fmts[n], Rot(n, 3))>>), <<1, 2, 5>>, Q(5, 7))]

(* SET_MARK on A; B: substitute at the mark; C: substitute at the mark and   *)
(* the current glyph in one entry                                            *)
\* columns: EOT OOB DEL EOL A B C
CtxMark(cf, sf, row0) ==
  Ctx(0, 1, 7, Cls(cf, << <<1, 4>>, <<2, 5>>, <<3, 6>> >>),
      << row0, row0, <<0, 0, 4, 0, 1, 2, 3>> >>,
      << CE(0, 0, 0, -1, -1), CE(2, 1, 0, -1, -1), CE(0, 0, 0, 0, -1), CE(0, 0, 0, 1, 2), CE(2, 0, 0, -1, -1) >>,
      << Sb(sf, << <<1, 10>> >>), Sb(Rot(sf, 1), << <<1, 11>> >>), Sb(Rot(sf, 2), << <<3, 12>> >>) >>)
FamCtxMark ==
  [n \in 1 .. 7 |->
     Entry_("ctx-mark", P1(n, <<CtxMark(Fmts[n], Rot(n, 2), <<0, 0, 0, 0, 1, 0, 0>>)>>), <<1, 2, 3, 5>>, Q(4, 6))]
\* one entry substitutes at the OLD mark and then sets the new one: in A A A every A but the last becomes 10
FamCtxMarkChain ==
  << Entry_("ctx-mark-chain",
            P1(3, << Ctx(0, 1, 5, Cls(6, << <<1, 4>> >>),
                         << <<0, 0, 0, 0, 1>>, <<0, 0, 0, 0, 1>>, <<0, 0, 2, 0, 1>> >>,
                         << CE(0, 0, 0, -1, -1), CE(2, 1, 0, 0, -1), CE(2, 0, 0, -1, -1) >>,
                         << Sb(6, << <<1, 10>> >>) >>) >>),
            <<1, 5>>, Q(4, 6)) >>
\* a mark substitution in the start state: before any mark is set (Dev_MarkUnset), and at a mark that persists
FamCtxMarkPersist ==
  << Entry_("ctx-mark-persist", P1(2, <<CtxMark(6, 6, <<0, 0, 0, 0, 1, 2, 0>>)>>), <<1, 2, 5>>, Q(5, 7)) >>

\* state 1 (start of line) is not the start state: its row differs from row 0 and must never be used at the start
FamCtxStart ==
  << Entry_("ctx-start-state",
            P1(1, << Ctx(0, 1, 6, Cls(6, << <<1, 4>>, <<2, 5>> >>),
                         << <<0, 0, 0, 0, 1, 0>>, <<0, 0, 0, 0, 2, 2>>, <<0, 0, 1, 0, 1, 2>> >>,
                         << CE(0, 0, 0, -1, -1), CE(2, 0, 0, -1, -1), CE(0, 0, 0, -1, 0) >>,
                         << Sb(6, << <<1, 8>>, <<2, 9>> >>) >>),
                     Lig(0, 1, 7, Cls(6, << <<1, 4>>, <<2, 5>>, <<3, 6>> >>),
                         << <<0, 0, 0, 0, 1, 0, 0>>, <<0, 0, 0, 0, 0, 1, 0>>, <<0, 4, 3, 4, 4, 2, 2>> >>,
                         LigEnts, << LA(0, 0, -2), LA(1, 1, 1) >>, <<0, 1, 0>>, <<16, 17>>) >>),
            <<1, 2, 3>>, Q(4, 6)) >>

(* final form: the marked A is substituted when the text (or the word) ends  *)
\* columns: EOT OOB DEL EOL A
CtxEot(cf, sf) ==
  Ctx(0, 1, 5, Cls(cf, << <<1, 4>> >>),
      << <<0, 0, 0, 0, 1>>, <<0, 0, 0, 0, 1>>, <<2, 2, 3, 2, 1>> >>,
      << CE(0, 0, 0, -1, -1), CE(2, 1, 0, -1, -1), CE(0, 0, 0, 0, -1), CE(2, 0, 0, -1, -1) >>,
      << Sb(sf, << <<1, 13>> >>) >>)
FamCtxEot ==
  << Entry_("ctx-end-of-text", P1(1, <<CtxEot(6, 6)>>), <<1, 5>>, Q(5, 7)),
     Entry_("ctx-end-of-text", P1(2, <<CtxEot(8, 2)>>), <<1, 5>>, Q(5, 7)) >>

(* DONT_ADVANCE chains                                                       *)
FamCtxDa ==
  << \* re-dispatch: A is looked at twice, substituted on the second visit
     Entry_("ctx-da-redispatch",
            P1(1, << Ctx(0, 1, 5, Cls(2, << <<1, 4>> >>),
                         << <<0, 0, 0, 0, 1>>, <<0, 0, 0, 0, 1>>, <<0, 0, 0, 0, 2>> >>,
                         << CE(0, 0, 0, -1, -1), CE(2, 0, 1, -1, -1), CE(0, 0, 0, -1, 0) >>,
                         << Sb(6, << <<1, 14>> >>) >>) >>),
            <<1, 5>>, Q(5, 7)),
     \* two substitutions of the same glyph: A -> 14 (DONT_ADVANCE), then 14 -> 15 by its new class
     Entry_("ctx-da-twice",
            P1(2, << Ctx(0, 1, 6, Cls(6, << <<1, 4>>, <<14, 5>> >>),
                         << <<0, 0, 0, 0, 1, 0>>, <<0, 0, 0, 0, 1, 0>>, <<0, 0, 0, 0, 2, 0>>, <<0, 0, 0, 0, 0, 3>> >>,
                         << CE(0, 0, 0, -1, -1), CE(2, 0, 1, -1, -1), CE(3, 0, 1, -1, 0), CE(0, 0, 0, -1, 1) >>,
                         << Sb(6, << <<1, 14>> >>), Sb(6, << <<14, 15>> >>) >>) >>),
            <<1, 5>>, Q(4, 6)),
     Entry_("ctx-da-twice",
            P1(3, << Ctx(0, 1, 6, Cls(8, << <<1, 4>>, <<14, 5>> >>),
                         << <<0, 0, 0, 0, 1, 0>>, <<0, 0, 0, 0, 1, 0>>, <<0, 0, 0, 0, 2, 0>>, <<0, 0, 0, 0, 0, 3>> >>,
                         << CE(0, 0, 0, -1, -1), CE(2, 0, 1, -1, -1), CE(3, 0, 1, -1, 0), CE(0, 0, 0, -1, 1) >>,
                         << Sb(0, << <<1, 14>> >>), Sb(0, << <<14, 15>> >>) >>) >>),
            <<1, 5>>, Q(4, 6)),
     \* SET_MARK + DONT_ADVANCE, then the substitution at the mark hits the current glyph
     Entry_("ctx-da-mark-current",
            P1(4, << Ctx(0, 1, 5, Cls(4, << <<1, 4>> >>),
                         << <<0, 0, 0, 0, 1>>, <<0, 0, 0, 0, 1>>, <<0, 0, 0, 0, 2>> >>,
                         << CE(0, 0, 0, -1, -1), CE(2, 1, 1, -1, -1), CE(0, 0, 0, 0, -1) >>,
                         << Sb(4, << <<1, 16>> >>) >>) >>),
            <<1, 5>>, Q(4, 6)),
     \* ... and the class of the glyph so changed decides the next entry
     Entry_("ctx-da-mark-reclass",
            P1(5, << Ctx(0, 1, 6, Cls(6, << <<1, 4>>, <<14, 5>> >>),
                         << <<0, 0, 0, 0, 1, 0>>, <<0, 0, 0, 0, 1, 0>>, <<0, 0, 0, 0, 2, 0>>, <<0, 0, 0, 0, 0, 3>> >>,
                         << CE(0, 0, 0, -1, -1), CE(2, 1, 1, -1, -1), CE(3, 0, 1, 0, -1), CE(0, 0, 0, -1, 1) >>,
                         << Sb(6, << <<1, 14>> >>), Sb(6, << <<14, 15>> >>) >>) >>),
            <<1, 5>>, Q(4, 6)) >>

(* the marked glyph is substituted twice: A B -> 10 B, then 10 B C -> 17 B C  *)
\* columns: EOT OOB DEL EOL A B C
FamCtxMarkTwice ==
  << Entry_("ctx-mark-twice",
            P1(1, << Ctx(0, 1, 7, Cls(2, << <<1, 4>>, <<2, 5>>, <<3, 6>> >>),
                         << <<0, 0, 0, 0, 1, 0, 0>>, <<0, 0, 0, 0, 1, 0, 0>>, <<0, 0, 0, 0, 1, 2, 0>>, <<0, 0, 0, 0, 1, 0, 3>> >>,
                         << CE(0, 0, 0, -1, -1), CE(2, 1, 0, -1, -1), CE(3, 0, 0, 0, -1), CE(0, 0, 0, 1, -1) >>,
                         << Sb(6, << <<1, 10>> >>), Sb(6, << <<1, 18>>, <<10, 17>> >>) >>) >>),
            <<1, 2, 3>>, Q(5, 7)) >>

(* deletion by substitution with 0xFFFF, then further subtables              *)
CtxDelete ==
  Ctx(0, 1, 6, Cls(6, << <<1, 4>>, <<2, 5>> >>),
      << <<0, 0, 0, 0, 1, 0>>, <<0, 0, 0, 0, 1, 0>>, <<0, 0, 1, 0, 1, 2>> >>,
      << CE(0, 0, 0, -1, -1), CE(2, 0, 0, -1, -1), CE(2, 0, 0, -1, 0) >>,
      << Sb(6, << <<2, DEL>> >>) >>)
FamCtxDelete ==
  << Entry_("ctx-delete", P1(1, <<CtxDelete>>), <<1, 2, 5>>, Q(5, 7)),
     Entry_("ctx-delete-then-nonctx", P1(2, <<CtxDelete, NonCtx(0, 1, Sb(6, << <<1, 7>> >>))>>), <<1, 2, 5>>, Q(4, 6)),
     Entry_("ctx-delete-then-ctx", P1(3, <<CtxDelete, CtxCurrent(0, 1, 2, 6)>>), <<1, 2, 5>>, Q(5, 7)),
     Entry_("ctx-delete-then-mark",
            P1(4, << Ctx(0, 1, 6, Cls(6, << <<1, 4>>, <<2, 5>> >>),
                         << <<0, 0, 0, 0, 1, 0>>, <<0, 0, 0, 0, 1, 0>>, <<0, 0, 1, 0, 1, 2>> >>,
                         << CE(0, 0, 0, -1, -1), CE(2, 1, 0, -1, -1), CE(0, 0, 0, 0, -1) >>,
                         << Sb(6, << <<1, DEL>> >>) >>),
                     CtxMark(6, 6, <<0, 0, 0, 0, 1, 2, 0>>) >>),
            <<1, 2, 5>>, Q(4, 6)) >>

(* F3 ligatures.  A B -> 16, A C -> 17.  Failure transitions either as from  *)
(* the start state without re-dispatch ("std"), or DONT_ADVANCE to state 0.  *)
\* columns: EOT OOB DEL EOL A B C [X]
Lig2(cov, flags, cf, da, last) ==
  Lig(cov, flags, 7, Cls(cf, << <<1, 4>>, <<2, 5>>, <<3, 6>> >>),
      << <<0, 0, 0, 0, 1, 0, 0>>, <<0, 0, 0, 0, 1, 0, 0>>,
         IF da THEN <<0, 4, 3, 4, 4, 2, 2>> ELSE <<0, 0, 3, 0, 1, 2, 2>> >>,
      LigEnts, << LA(0, 0, -2), LA(1, last, 1) >>, <<0, 1, 0>>, <<16, 17>>)
FamLig2 ==
  [n \in 1 .. 14 |->
     Entry_(IF n <= 7 THEN "lig-2" ELSE "lig-2-da",
            P1(n, <<Lig2(0, 1, Fmts[((n - 1) % 7) + 1], n > 7, 1)>>), <<1, 2, 3, 5>>, Q(4, 6))]
FamLigLong ==
  << Entry_("lig-2-da", P1(1, <<Lig2(0, 1, 6, TRUE, 1)>>), <<1, 2>>, Q(6, 8)),
     Entry_("lig-last-without-store", P1(2, <<Lig2(0, 1, 2, TRUE, 0)>>), <<1, 2, 3>>, Q(4, 6)) >>

\* three components A B C -> 18 (no ligature for A B alone)
Lig3(da) ==
  Lig(0, 1, 7, Cls(8, << <<1, 4>>, <<2, 5>>, <<3, 6>> >>),
      << <<0, 0, 0, 0, 1, 0, 0>>, <<0, 0, 0, 0, 1, 0, 0>>,
         IF da THEN <<0, 4, 3, 4, 4, 5, 4>> ELSE <<0, 0, 3, 0, 1, 5, 0>>,
         IF da THEN <<0, 4, 6, 4, 4, 4, 2>> ELSE <<0, 0, 6, 0, 1, 0, 2>> >>,
      LigEnts \o << LE(3, 1, 0, 0, 0), LE(3, 0, 0, 0, 0) >>,
      << LA(0, 0, -3), LA(0, 0, -1), LA(1, 1, 1) >>, <<0, 0, 0>>, <<18>>)
\* overlapping candidates: A B C -> 18 and B C -> 19
LigOverlap(da) ==
  Lig(0, 1, 7, Cls(4, << <<1, 4>>, <<2, 5>>, <<3, 6>> >>),
      << <<0, 0, 0, 0, 1, 7, 0>>, <<0, 0, 0, 0, 1, 7, 0>>,
         IF da THEN <<0, 4, 3, 4, 4, 5, 4>> ELSE <<0, 0, 3, 0, 1, 5, 0>>,      \* 2: A
         IF da THEN <<0, 4, 6, 4, 4, 4, 2>> ELSE <<0, 0, 6, 0, 1, 7, 2>>,      \* 3: A B
         IF da THEN <<0, 4, 8, 4, 4, 4, 9>> ELSE <<0, 0, 8, 0, 1, 7, 9>> >>,   \* 4: B
      LigEnts \o << LE(3, 1, 0, 0, 0), LE(3, 0, 0, 0, 0), LE(4, 1, 0, 0, 0), LE(4, 0, 0, 0, 0), LE(0, 1, 1, 0, 3) >>,
      << LA(0, 0, -3), LA(0, 0, -1), LA(1, 1, 1), LA(0, 0, 0), LA(1, 1, -1) >>, <<0, 0, 0, 1>>, <<18, 19>>)
\* nested: A B -> 16, pushed back, then 16 C -> 19 (negative offset -13 for the ligature glyph)
LigNested(da) ==
  Lig(0, 1, 7, Cls(6, << <<1, 4>>, <<2, 5>>, <<3, 6>> >>),
      << <<0, 0, 0, 0, 1, 0, 0>>, <<0, 0, 0, 0, 1, 0, 0>>,
         IF da THEN <<0, 4, 3, 4, 4, 5, 4>> ELSE <<0, 0, 3, 0, 1, 5, 0>>,
         IF da THEN <<0, 4, 6, 4, 4, 4, 7>> ELSE <<0, 0, 6, 0, 1, 0, 7>> >>,
      LigEnts \o << LE(3, 1, 1, 0, 0), LE(3, 0, 0, 0, 0), LE(0, 1, 1, 0, 2) >>,
      << LA(0, 0, -2), LA(1, 1, 1), LA(0, 0, -3), LA(1, 1, -13) >>, <<0, 1, 0, 2>>, <<16, 17, 19>>)
\* X (class 7) between the components is passed over without being pushed
LigGap(da) ==
  Lig(0, 1, 8, Cls(2, << <<1, 4>>, <<2, 5>>, <<3, 6>>, <<5, 7>> >>),
      << <<0, 0, 0, 0, 1, 0, 0, 0>>, <<0, 0, 0, 0, 1, 0, 0, 0>>,
         IF da THEN <<0, 4, 3, 4, 4, 2, 2, 3>> ELSE <<0, 0, 3, 0, 1, 2, 2, 3>> >>,
      LigEnts, << LA(0, 0, -2), LA(1, 1, 1) >>, <<0, 1, 0>>, <<16, 17>>)
FamLigMore ==
  << Entry_("lig-3", P1(1, <<Lig3(FALSE)>>), <<1, 2, 3>>, Q(5, 7)),
     Entry_("lig-3-da", P1(2, <<Lig3(TRUE)>>), <<1, 2, 3, 5>>, Q(5, 7)),
     Entry_("lig-overlap", P1(3, <<LigOverlap(FALSE)>>), <<1, 2, 3>>, Q(5, 7)),
     Entry_("lig-overlap-da", P1(4, <<LigOverlap(TRUE)>>), <<1, 2, 3>>, Q(5, 7)),
     Entry_("lig-nested", P1(5, <<LigNested(FALSE)>>), <<1, 2, 3>>, Q(5, 7)),
     Entry_("lig-nested-da", P1(6, <<LigNested(TRUE)>>), <<1, 2, 3, 5>>, Q(5, 7)),
     Entry_("lig-gap", P1(7, <<LigGap(FALSE)>>), <<1, 2, 5>>, Q(5, 7)),
     Entry_("lig-gap-da", P1(8, <<LigGap(TRUE)>>), <<1, 2, 4, 5>>, Q(5, 7)) >>

(* a ligature subtable followed by subtables that meet the deleted glyphs     *)
\* after the ligature 16: C directly behind it becomes 12; the deleted glyph resets the context
CtxAfterLig ==
  Ctx(0, 1, 6, Cls(6, << <<3, 5>>, <<16, 4>> >>),
      << <<0, 0, 0, 0, 1, 0>>, <<0, 0, 0, 0, 1, 0>>, <<0, 0, 0, 0, 1, 2>> >>,
      << CE(0, 0, 0, -1, -1), CE(2, 0, 0, -1, -1), CE(0, 0, 0, -1, 0) >>,
      << Sb(6, << <<3, 12>> >>) >>)
FamLigThen ==
  << Entry_("lig-then-ctx", P1(1, <<Lig2(0, 1, 6, TRUE, 1), CtxAfterLig>>), <<1, 2, 3>>, Q(5, 7)),
     Entry_("lig-then-nonctx", P1(2, <<Lig2(0, 1, 8, TRUE, 1), NonCtx(0, 1, Sb(2, << <<3, 21>>, <<16, 20>>, <<17, 20>> >>))>>),
            <<1, 2, 3>>, Q(4, 6)),
     \* the ligature machine passes over the deleted glyph (class 2): A B C -> A DEL C -> 17
     Entry_("ctx-delete-then-lig", P1(5, <<CtxDelete, Lig2(0, 1, 6, TRUE, 1)>>), <<1, 2, 3>>, Q(4, 6)),
     Entry_("lig-then-lig", P1(3, <<Lig2(0, 1, 6, TRUE, 1), LigNested(TRUE)>>), <<1, 2, 3>>, Q(5, 7)) >>

(* F4 chains: sub-feature flags from the default flags and the feature entries *)
FeatEntries ==
  << [t |-> 1, s |-> 2, en |-> 2, dis |-> 65535],        \* common ligatures on  (liga)
     [t |-> 1, s |-> 3, en |-> 0, dis |-> 65533],        \* common ligatures off (~liga)
     [t |-> 21, s |-> 1, en |-> 4, dis |-> 65527],       \* lining numbers: enables 4, disables 8
     [t |-> 21, s |-> 0, en |-> 8, dis |-> 65531],       \* old style numbers: enables 8, disables 4
     [t |-> 99, s |-> 1, en |-> 16, dis |-> 65535],      \* a feature allsorts does not map
     [t |-> 11, s |-> 0, en |-> 32, dis |-> 65534],      \* no fractions (~frac /\ ~afrc): enables 32, disables 1
     [t |-> 1, s |-> 2, en |-> 64, dis |-> 65471] >>     \* liga again: the disable mask clears the bit it enables (disable first!)
FeatSubs ==
  << NonCtx(0, 1, Sb(6, << <<1, 7>> >>)), NonCtx(0, 2, Sb(6, << <<2, 8>> >>)), NonCtx(0, 4, Sb(6, << <<3, 9>> >>)),
     NonCtx(0, 8, Sb(6, << <<3, 10>> >>)), NonCtx(0, 16, Sb(6, << <<4, 11>> >>)), NonCtx(0, 32, Sb(6, << <<4, 12>> >>)),
     NonCtx(0, 6, Sb(6, << <<8, 13>>, <<9, 13>> >>)), NonCtx(0, 64, Sb(6, << <<1, 14>> >>)) >>
Reqs == << ReqMask(<<>>), ReqMask(<<"liga">>), ReqMask(<<"lnum">>), ReqMask(<<"onum", "lnum">>), ReqDefault,
           ReqMask(<<"liga", "onum", "frac">>), ReqMask(<<"afrc", "clig", "hlig", "smcp", "zero">>), ReqCustom >>
FamFeatures ==
  [n \in 1 .. 16 |->
     LET req == Reqs[((n - 1) % 8) + 1]
         def == IF n <= 8 THEN 1 ELSE 12
         sh == (n % 3) * 8 IN
     Entry_("features",
            Prog(2 + (n % 2), n % 4, req,
                 << [def |-> def, sh |-> sh, feats |-> FeatEntries, subs |-> FeatSubs],
                    [def |-> 1, sh |-> 0, feats |-> << [t |-> 1, s |-> 2, en |-> 0, dis |-> 0] >>,
                     subs |-> << NonCtx(0, 1, Sb(2, << <<7, 15>>, <<8, 15>> >>)) >>] >>),
            <<1, 2, 3, 4>>, Q(3, 5))]
\* subtable types allsorts does not implement stand between implemented ones
FamTypes ==
  << Entry_("types-0-5",
            P1(1, << Other(0, 0, 1), NonCtx(0, 1, Sb(6, << <<1, 7>> >>)), Other(5, 0, 1), CtxCurrent(0, 1, 6, 6), Other(0, 4, 1) >>),
            <<1, 2, 7>>, Q(4, 6)) >>

(* F5 coverage flags: 8 vertical only, 4 descending, 2 both directions, 1 logical *)
FamCoverage ==
  << Entry_("coverage-vertical-only", P1(1, <<NonCtx(8, 1, Sb(6, << <<1, 7>> >>)), NonCtx(0, 1, Sb(6, << <<2, 8>> >>))>>), <<1, 2>>, Q(3, 5)),
     Entry_("coverage-both", P1(2, <<NonCtx(10, 1, Sb(6, << <<1, 7>> >>)), NonCtx(2, 1, Sb(6, << <<2, 8>> >>))>>), <<1, 2>>, Q(3, 5)),
     Entry_("coverage-logical", P1(3, <<CtxCurrent(1, 1, 6, 6)>>), <<1, 2, 5>>, Q(4, 6)),
     Entry_("coverage-descending-nonctx", P1(4, <<NonCtx(4, 1, Sb(6, << <<1, 7>> >>))>>), <<1, 2>>, Q(3, 5)),
     Entry_("coverage-descending-ctx", P1(5, <<CtxCurrent(4, 1, 6, 6)>>), <<1, 2, 5>>, Q(4, 6)),
     Entry_("coverage-descending-logical-ctx", P1(6, <<CtxCurrent(5, 1, 2, 2)>>), <<1, 2, 5>>, Q(4, 6)),
     Entry_("coverage-descending-lig", P1(7, <<Lig2(4, 1, 6, TRUE, 1)>>), <<1, 2, 3>>, Q(4, 6)),
     Entry_("coverage-vertical-only-ctx", P1(8, <<CtxCurrent(8, 1, 6, 6), Lig2(9, 1, 6, TRUE, 1)>>), <<1, 2>>, Q(4, 6)) >>

Programs ==
  FamNonCtx \o FamNonCtxSeq \o FamCtxCurrent \o FamCtxMark \o FamCtxMarkChain \o FamCtxMarkPersist \o FamCtxStart \o FamCtxEot \o FamCtxDa
  \o FamCtxMarkTwice \o FamCtxDelete \o FamLig2 \o FamLigLong \o FamLigMore \o FamLigThen \o FamFeatures
  \o FamTypes \o FamCoverage

---------------------------------------------------------------------------
P == Programs[pi]
FlatP == Flat(P.prog)
Finished == k > Len(FlatP)
ActiveK(kk) == kk <= Len(FlatP) /\ Active(P.prog, BugNone, FlatP[kk])
SubK(kk) == SubAt(P.prog, FlatP[kk])
EnterRun(kk, r) == IF ActiveK(kk) THEN SubBegin(SubK(kk), BugNone, r) ELSE r

Strs(alpha, n) == UNION {[1 .. m -> {alpha[q] : q \in 1 .. Len(alpha)}] : m \in 0 .. n}

Init ==
  /\ pi \in 1 .. Len(Programs)
  /\ inp \in Strs(Programs[pi].alpha, Programs[pi].maxlen)
  /\ k = 1
  /\ grun = EnterRun(1, InitRun(inp))
  /\ cursor = 1 /\ state = 0 /\ markpos = 0 /\ cstack = <<>> /\ locals = Aux0 /\ subdone = FALSE
  /\ hist = <<>> /\ seen = {} /\ ndel = 0

M == [run |-> grun, i |-> cursor, s |-> state, mark |-> markpos, stack |-> cstack, done |-> subdone, tags |-> seen, aux |-> locals]

\* termination measure: (subtables left, glyphs left incl. the end of text, DONT_ADVANCE rank of the state)
RankOf(kk, ss) == IF SubK(kk).type \in {1, 2} THEN DaRank(SubK(kk), ss) ELSE 0
MeasureOf(kk, rr, ii, ss, dd) ==
  (Len(FlatP) + 1 - kk) * 100000
  + (IF kk > Len(FlatP) \/ ~ActiveK(kk) \/ dd THEN 0 ELSE (Len(rr) + 2 - ii) * 100 + RankOf(kk, ss) + 1)
Measure == MeasureOf(k, grun, cursor, state, subdone)

Next ==
  /\ ~Finished
  /\ UNCHANGED <<pi, inp>>
  /\ IF ActiveK(k) /\ ~subdone
     THEN LET m2 == Step(SubK(k), BugNone, M) IN
          /\ grun' = m2.run /\ cursor' = m2.i /\ state' = m2.s /\ markpos' = m2.mark /\ cstack' = m2.stack
          /\ locals' = m2.aux /\ subdone' = m2.done /\ seen' = m2.tags
          /\ UNCHANGED <<k, hist, ndel>>
     ELSE LET r == IF ActiveK(k) THEN SubEnd(SubK(k), DevStd, BugNone, grun) ELSE grun IN
          /\ hist' = Append(hist, r)
          /\ ndel' = ndel + (Len(grun) - Len(r))
          /\ k' = k + 1
          /\ grun' = EnterRun(k + 1, r)
          /\ cursor' = 1 /\ state' = 0 /\ markpos' = 0 /\ cstack' = <<>> /\ locals' = Aux0 /\ subdone' = FALSE
          /\ seen' = seen \cup (IF ActiveK(k) THEN {} ELSE {"subtable-not-selected"})
  /\ Assert(MeasureOf(k', grun', cursor', state', subdone') < Measure, <<"measure does not decrease", pi, inp, k, cursor, state>>)

Spec == Init /\ [][Next]_vars

---------------------------------------------------------------------------
(* Design invariants *)
CursorInRun == cursor \in 1 .. Len(grun) + 1
MarkInRun == markpos \in 0 .. Len(grun) /\ markpos <= cursor
StackBounded ==
  /\ Len(cstack) <= Len(grun)
  /\ \A q \in 1 .. Len(cstack) : cstack[q] \in 1 .. Len(grun) /\ cstack[q] <= cursor
  /\ \A q \in 1 .. Len(cstack) - 1 : cstack[q] < cstack[q + 1]
\* the run changes its length only by the deletion of ligature components
LengthOnlyByLigature ==
  /\ Len(grun) + ndel = Len(inp)
  /\ ndel > 0 => "lig-action" \in seen
  /\ \A q \in 1 .. Len(hist) : Len(hist[q]) <= Len(inp)
\* every input character is carried by exactly one glyph of the run
CharsConserved ==
  LET RECURSIVE Total(_)
      Total(q) == IF q = 0 THEN 0 ELSE Total(q - 1) + Len(grun[q].c) IN
  /\ Total(Len(grun)) = Len(inp)
  /\ UNION {{grun[q].c[j] : j \in 1 .. Len(grun[q].c)} : q \in 1 .. Len(grun)} = 1 .. Len(inp)
GlyphsSane ==
  \A q \in 1 .. Len(grun) :
     /\ grun[q].g \in (0 .. N - 1) \cup {DEL}
     /\ grun[q].o \in {0, 1, 2}
     /\ grun[q].o = 2 => grun[q].g = DEL /\ grun[q].c = <<>>
     /\ grun[q].o = 0 => grun[q].g = inp[grun[q].c[1]] /\ Len(grun[q].c) = 1
     /\ Len(grun[q].c) >= 2 => grun[q].o = 1
NoIllTags == seen \cap IllTags = {}
AtStart == inp = <<>> /\ k = 1 /\ hist = <<>> /\ ~subdone /\ seen = {}
ProgramsWellFormed == AtStart => WFProgram(P.prog)

SmallStepIsDenotation ==
  Finished => /\ hist = MorxSteps(P.prog, DevStd, BugNone, inp)
              /\ grun = MorxDenote(P.prog.chains, P.prog.req, InitRun(inp))
              /\ seen \ {"subtable-not-selected"} = MorxTags(P.prog, DevStd, BugNone, inp)

---------------------------------------------------------------------------
(* Generator *)
EmitCase ==
  Finished =>
    LET std == RecSteps(hist)
        altS == IF HasType(P.prog, 2) THEN MorxSteps(P.prog, DevApple, BugNone, inp) ELSE hist
        alt == RecSteps(altS)
        brs == BugReadings(P.prog)
        bs == [q \in 1 .. Len(brs) |->
                 LET st == MorxSteps(P.prog, DevStd, brs[q].bug, inp) IN
                 [name |-> brs[q].name, rec |-> RecSteps(st), steps |-> ObsSteps(st),
                  tags |-> IF brs[q].bug.ligCode THEN MorxTags(P.prog, DevStd, brs[q].bug, inp) \cap CodeTags ELSE {}]]
        differing == SelectSeq(bs, LAMBDA b : b.rec # std /\ b.rec # alt)
        \* the reading with all defects is listed only when it is not already one of the single ones
        chosen == SelectSeq(differing, LAMBDA b : b.name # "several-known-defects"
                                                \/ ~(\E q \in 1 .. Len(differing) : differing[q].name # b.name /\ differing[q].rec = b.rec))
        bugs == [q \in 1 .. Len(chosen) |-> [name |-> chosen[q].name, steps |-> chosen[q].steps, tags |-> chosen[q].tags]]
    IN PrintT(<<"CASE", ToJson([p |-> pi, in |-> inp, steps |-> ObsSteps(hist),
                                alts |-> IF alt = std THEN <<>> ELSE <<ObsSteps(altS)>>,
                                bugs |-> bugs, tags |-> seen])>>)

EmitProg ==
  AtStart =>
    PrintT(<<"PROG", ToJson([p |-> pi, name |-> P.name, flat |-> FlatP, prog |-> P.prog])>>)
=============================================================================
