CONSTANTS
  Tier = "quick"
SPECIFICATION Spec
INVARIANT CaseInv
CHECK_DEADLOCK FALSE
