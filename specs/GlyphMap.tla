------------------------------ MODULE GlyphMap ------------------------------
(***************************************************************************)
(* X06 (extra): character to glyph mapping of Font::map_glyphs and         *)
(* Font::lookup_glyph_index with variation selectors and presentation.     *)
(*                                                                         *)
(* From the cmap encoding records of a font (one of which may be a format  *)
(* 14 "Unicode Variation Sequences" record), its outline / image tables,   *)
(* the embedded image filter and a text, the specification says which      *)
(* glyphs come out: one glyph per character that is not a variation        *)
(* selector, its glyph id, and the variation (`used_variation`) recorded   *)
(* on it.  Sources: OpenType `cmap` (encoding records, format 14: default  *)
(* and non-default UVS tables, "if the sequence is not found the selector  *)
(* is ignored and the base character is mapped"), Unicode (variation       *)
(* selectors FE00..FE0F, E0100..E01EF attach to the preceding character;   *)
(* UTS #51 Emoji_Presentation decides the presentation of a character      *)
(* without selector, FE0E / FE0F request text / emoji presentation), and   *)
(* the documentation of Font::map_glyphs, MatchingPresentation,            *)
(* Font::has_embedded_images, Font::has_glyph_outlines,                    *)
(* Font::set_embedded_image_filter.  Plain character lookup (subtable      *)
(* formats, Symbol / Mac Roman dispatch, rank of an encoding record) is    *)
(* Cmap.tla (C06), instantiated here.                                      *)
(*                                                                         *)
(* Abstract font  F = [recs, uvs, tabs, first]                             *)
(*   recs : encoding records in table order, [p, e, fmt, m]; m = the       *)
(*          character map of the record as sorted <<code, glyph>> pairs    *)
(*          (fmt = 14: the variation sequences record, m = <<>>)           *)
(*   uvs  : content of the format 14 subtable: <<[vs, def, non]>>, vs =    *)
(*          selector code point, def = <<start, additionalCount>> ranges,  *)
(*          non = <<code, glyph>> pairs; all sorted as the format demands  *)
(*   tabs : tables present: "glyf" "CFF" "CFF2" "SVG" "sbix" "CBDT" "EBDT" *)
(*          (CBDT / EBDT stand for the pair with CBLC / EBLC); a trailing  *)
(*          "!" = present but not parsable                                 *)
(*   first: OS/2.usFirstCharIndex, -1 = no OS/2 table                      *)
(* filt : embedded image filter, subset of "SVG" "sbix" "CBDT" "EBDT".     *)
(* A selector is represented by its number 1..256, 0 = none.               *)
(*                                                                         *)
(* A reading rd = [uvs, rep, txt, var, d] fixes the named nondeterminism   *)
(* (Dev_ names) and, for attribution only, a set d of defect readings.     *)
(***************************************************************************)
EXTENDS Integers, Sequences, FiniteSets, FiniteSetsExt, SequencesExt, TLC

C == INSTANCE Cmap

---------------------------------------------------------------------------
\* Unicode data.
\* Emoji_Presentation=Yes (emoji-data.txt, Unicode 15.0 / 15.1), as closed ranges.
EmojiPresentationRanges ==
  << <<8986, 8987>>, <<9193, 9196>>, <<9200, 9200>>, <<9203, 9203>>, <<9725, 9726>>, <<9748, 9749>>,
     <<9800, 9811>>, <<9855, 9855>>, <<9875, 9875>>, <<9889, 9889>>, <<9898, 9899>>, <<9917, 9918>>,
     <<9924, 9925>>, <<9934, 9934>>, <<9940, 9940>>, <<9962, 9962>>, <<9970, 9971>>, <<9973, 9973>>,
     <<9978, 9978>>, <<9981, 9981>>, <<9989, 9989>>, <<9994, 9995>>, <<10024, 10024>>, <<10060, 10060>>,
     <<10062, 10062>>, <<10067, 10069>>, <<10071, 10071>>, <<10133, 10135>>, <<10160, 10160>>,
     <<10175, 10175>>, <<11035, 11036>>, <<11088, 11088>>, <<11093, 11093>>,
     <<126980, 126980>>, <<127183, 127183>>, <<127374, 127374>>, <<127377, 127386>>, <<127462, 127487>>,
     <<127489, 127489>>, <<127514, 127514>>, <<127535, 127535>>, <<127538, 127542>>, <<127544, 127546>>,
     <<127568, 127569>>, <<127744, 127776>>, <<127789, 127797>>, <<127799, 127868>>, <<127870, 127891>>,
     <<127904, 127946>>, <<127951, 127955>>, <<127968, 127984>>, <<127988, 127988>>, <<127992, 128062>>,
     <<128064, 128064>>, <<128066, 128252>>, <<128255, 128317>>, <<128331, 128334>>, <<128336, 128359>>,
     <<128378, 128378>>, <<128405, 128406>>, <<128420, 128420>>, <<128507, 128591>>, <<128640, 128709>>,
     <<128716, 128716>>, <<128720, 128722>>, <<128725, 128727>>, <<128732, 128735>>, <<128747, 128748>>,
     <<128756, 128764>>, <<128992, 129003>>, <<129008, 129008>>, <<129292, 129338>>, <<129340, 129349>>,
     <<129351, 129535>>, <<129648, 129660>>, <<129664, 129672>>, <<129680, 129725>>, <<129727, 129733>>,
     <<129742, 129755>>, <<129760, 129768>>, <<129776, 129784>> >>

RECURSIVE InRanges(_, _, _, _)
InRanges(rs, c, lo, hi) ==          \* binary search over sorted disjoint closed ranges
  IF lo > hi THEN FALSE
  ELSE LET mid == (lo + hi) \div 2 IN
       IF c < rs[mid][1] THEN InRanges(rs, c, lo, mid - 1)
       ELSE IF c > rs[mid][2] THEN InRanges(rs, c, mid + 1, hi)
       ELSE TRUE
EmojiPresentation(ch) == InRanges(EmojiPresentationRanges, ch, 1, Len(EmojiPresentationRanges))
RangesSorted(rs) == /\ \A i \in DOMAIN rs : rs[i][1] <= rs[i][2]
                    /\ \A i \in 1 .. (Len(rs) - 1) : rs[i][2] + 1 < rs[i + 1][1]     \* disjoint, maximal

\* Variation selectors VS1..VS16 = U+FE00..FE0F, VS17..VS256 = U+E0100..E01EF.  (The Mongolian free
\* variation selectors are ordinary characters for cmap: fonts map them and GSUB acts on them.)
\* Dev_SelectorRepertoire: "full" = all 256; "five" = allsorts' documented repertoire ("VS04-VS14 are
\* omitted as they aren't currently used"): VS1, VS2, VS3, VS15, VS16 - any other selector is then an
\* ordinary character of the text.
Selectors(rep) == IF rep = "full" THEN (65024 .. 65039) \cup (917760 .. 917999)
                  ELSE {65024, 65025, 65026, 65038, 65039}
VsNum(c)  == IF c >= 917760 THEN c - 917760 + 17 ELSE c - 65024 + 1
VsCode(n) == IF n >= 17 THEN 917760 + n - 17 ELSE 65024 + n - 1
ApiSelectors == {1, 2, 3, 15, 16}      \* what the VariationSelector type of the API can express

\* presentation of a character without selector, and the variation recorded on the glyph
DefaultPres(ch) == IF EmojiPresentation(ch) THEN 16 ELSE 15
Used(ch, vs)    == IF vs = 0 THEN DefaultPres(ch) ELSE vs

---------------------------------------------------------------------------
\* Tables and the image filter.
InSeq(s, x)  == \E i \in DOMAIN s : s[i] = x
HasOutlines(F) == InSeq(F.tabs, "glyf") \/ InSeq(F.tabs, "CFF") \/ InSeq(F.tabs, "CFF2")
DefaultFilter  == <<"SVG", "sbix", "CBDT">>
ImagePriority  == <<"SVG", "CBDT", "sbix", "EBDT">>
\* has_embedded_images: "If any of these tables are present and parsable then this method returns
\* true", restricted to the tables the filter selects.
\* Defect reading brokenShadows: only the first table (in the order SVG, CBDT, sbix, EBDT) that is
\* present and selected is consulted; when it does not parse the answer is false.
HasImages(F, filt, rd) ==
  IF "brokenShadows" \in rd.d
  THEN LET S == {k \in DOMAIN ImagePriority :
                   InSeq(filt, ImagePriority[k]) /\ (InSeq(F.tabs, ImagePriority[k]) \/ InSeq(F.tabs, ImagePriority[k] \o "!"))}
       IN S # {} /\ InSeq(F.tabs, ImagePriority[Min(S)])
  ELSE \E i \in DOMAIN filt : InSeq(F.tabs, filt[i])

---------------------------------------------------------------------------
\* Which encoding record is the character map.  Encoding 5 of platform 0 is "Unicode Variation
\* Sequences - for use with subtable format 14": it is not a character map, so it never competes.
\* Among the others the order of Cmap!Rank (C06), first in table order within a rank.
\* Defect reading uvsRecordChosen: the (0, 5) record counts as "any Unicode-platform record".
IsUvsRec(r)  == r.p = 0 /\ r.e = 5
HasUvsRec(F) == \E i \in DOMAIN F.recs : IsUvsRec(F.recs[i])
BaseIdx(F, rd) ==
  LET S == {C!Rank(F.recs[i]) * 1000 + i : i \in {j \in DOMAIN F.recs : "uvsRecordChosen" \in rd.d \/ ~IsUvsRec(F.recs[j])}}
      best == Min(S)
  IN IF S = {} \/ best >= 8000 THEN 0 ELSE best % 1000       \* smallest rank, then first in table order
\* the record's character map as a Cmap.tla subtable (one group per pair; the physical format is the
\* harness' concern, its lookup rule C06's)
AsTable(r) == [fmt |-> 12, groups |-> TLCEval([i \in DOMAIN r.m |-> [s |-> r.m[i][1], e |-> r.m[i][1], g |-> r.m[i][2]]])]
FirstChar(F) == IF F.first < 0 THEN 32 ELSE F.first
\* what a lookup needs to know about the font under a reading (computed once per call)
Ctx(F, rd) ==
  LET b == BaseIdx(F, rd) IN
  [b |-> b, enc |-> C!EncodingOf(F.recs[b]), fmt |-> F.recs[b].fmt, t |-> AsTable(F.recs[b]),
   first |-> FirstChar(F), uvs |-> HasUvsRec(F)]
Encoding(F, rd) == C!EncodingOf(F.recs[BaseIdx(F, rd)])
\* glyphs a conformant implementation may answer for the bare character
BaseGlyphsC(cx, ch) ==
  IF cx.fmt = 14 THEN {0}                    \* (defect reading only) a format 14 subtable maps no character
  ELSE C!FontAccept(cx.t, cx.enc, cx.first, ch)
BaseGlyphs(F, rd, ch) == BaseGlyphsC(Ctx(F, rd), ch)

---------------------------------------------------------------------------
\* Format 14.  Records sorted by varSelector, ranges by startUnicodeValue, mappings by unicodeValue
\* (24-bit values); binary searches, with their linear reference definitions.
RECURSIVE FindVs(_, _, _, _)
FindVs(us, x, lo, hi) ==             \* index of the record with varSelector x in us[lo..hi], 0 if none
  IF lo > hi THEN 0
  ELSE LET mid == (lo + hi) \div 2 IN
       IF x < us[mid].vs THEN FindVs(us, x, lo, mid - 1)
       ELSE IF x > us[mid].vs THEN FindVs(us, x, mid + 1, hi)
       ELSE mid
RECURSIVE FindNon(_, _, _, _)
FindNon(ps, x, lo, hi) ==            \* index of the pair <<x, glyph>> in ps[lo..hi], 0 if none
  IF lo > hi THEN 0
  ELSE LET mid == (lo + hi) \div 2 IN
       IF x < ps[mid][1] THEN FindNon(ps, x, lo, mid - 1)
       ELSE IF x > ps[mid][1] THEN FindNon(ps, x, mid + 1, hi)
       ELSE mid
RECURSIVE FindRange(_, _, _, _)
FindRange(rs, x, lo, hi) ==          \* rs: <<start, additionalCount>>
  IF lo > hi THEN 0
  ELSE LET mid == (lo + hi) \div 2 IN
       IF x < rs[mid][1] THEN FindRange(rs, x, lo, mid - 1)
       ELSE IF x > rs[mid][1] + rs[mid][2] THEN FindRange(rs, x, mid + 1, hi)
       ELSE mid
\* <<"def">> default UVS (use the character map), <<"non", g>> non-default UVS, <<"none">> not listed
UvsLookup(F, ch, vs) ==
  LET k == FindVs(F.uvs, VsCode(vs), 1, Len(F.uvs)) IN
  IF k = 0 THEN <<"none">>
  ELSE IF FindRange(F.uvs[k].def, ch, 1, Len(F.uvs[k].def)) # 0 THEN <<"def">>
  ELSE LET j == FindNon(F.uvs[k].non, ch, 1, Len(F.uvs[k].non)) IN
       IF j = 0 THEN <<"none">> ELSE <<"non", F.uvs[k].non[j][2]>>
UvsLookupLin(F, ch, vs) ==
  LET S == {k \in DOMAIN F.uvs : F.uvs[k].vs = VsCode(vs)} IN
  IF S = {} THEN <<"none">>
  ELSE LET u == F.uvs[Min(S)] IN
       IF \E i \in DOMAIN u.def : u.def[i][1] <= ch /\ ch <= u.def[i][1] + u.def[i][2] THEN <<"def">>
       ELSE LET N == {j \in DOMAIN u.non : u.non[j][1] = ch} IN
            IF N = {} THEN <<"none">> ELSE <<"non", u.non[Min(N)][2]>>
UvsWellFormed(F) ==
  /\ \A k \in 1 .. (Len(F.uvs) - 1) : F.uvs[k].vs < F.uvs[k + 1].vs
  /\ \A k \in DOMAIN F.uvs :
       /\ \A i \in 1 .. (Len(F.uvs[k].def) - 1) : F.uvs[k].def[i][1] + F.uvs[k].def[i][2] < F.uvs[k].def[i + 1][1]
       /\ \A i \in 1 .. (Len(F.uvs[k].non) - 1) : F.uvs[k].non[i][1] < F.uvs[k].non[i + 1][1]
       /\ \A j \in DOMAIN F.uvs[k].non :                  \* a sequence is default or non-default, not both
            ~\E i \in DOMAIN F.uvs[k].def : F.uvs[k].def[i][1] <= F.uvs[k].non[j][1]
                                            /\ F.uvs[k].non[j][1] <= F.uvs[k].def[i][1] + F.uvs[k].def[i][2]

\* Glyphs for character ch followed by selector vs (0 = none).
\* Dev_UvsSupport: "std" = cmap format 14 is honoured; "ign" = the implementation has no format 14
\* support and maps the base character (Unicode: an unsupported variation sequence is displayed as
\* the base character; allsorts reads no format 14 subtable).
GlyphSetC(cx, F, rd, ch, vs) ==
  IF rd.uvs = "std" /\ vs # 0 /\ cx.uvs /\ cx.enc = "Unicode"
  THEN LET u == UvsLookup(F, ch, vs) IN IF u[1] = "non" THEN {u[2]} ELSE BaseGlyphsC(cx, ch)
  ELSE BaseGlyphsC(cx, ch)
GlyphSet(F, rd, ch, vs) == GlyphSetC(Ctx(F, rd), F, rd, ch, vs)

---------------------------------------------------------------------------
\* MatchingPresentation.  "R" (Required): "a character with emoji presentation, either by default
\* or requested via variation selector will only map to a glyph if the font has mapping for the
\* character, and it has the necessary tables for color emoji"; "N" (NotRequired): "glyph mapping
\* will succeed if the font contains a mapping for a given character, regardless of whether it has
\* the tables necessary to support the requested presentation".
\* Dev_TextPresentation: "outl" = under Required text presentation needs glyf / CFF / CFF2 outlines
\* (the symmetric rule, stated in the code's comment); "any" = only emoji presentation is
\* constrained (the letter of the documentation).
\* Dev_VariantPresentation: a selector that requests neither presentation (VS1..VS14, VS17..):
\* "plain" = nothing to match, "pres" = the default presentation of the character must be supported.
\* Defect reading variantNever: such a sequence never maps under Required.
RECURSIVE Supported(_, _, _, _, _)
Supported(F, filt, rd, ch, vs) ==
  LET u == Used(ch, vs) IN
  CASE u = 16 -> HasImages(F, filt, rd)
    [] u = 15 -> rd.txt = "any" \/ HasOutlines(F)
    [] OTHER  -> IF "variantNever" \in rd.d THEN FALSE
                 ELSE rd.var = "plain" \/ Supported(F, filt, rd, ch, 0)

\* Font::lookup_glyph_index(ch, mode, vs): [c, g (set of acceptable glyph ids), v (used variation)]
LookC(cx, F, filt, rd, ch, mode, vs) ==
  [c |-> ch,
   g |-> IF mode = "R" /\ ~Supported(F, filt, rd, ch, vs) THEN {0} ELSE GlyphSetC(cx, F, rd, ch, vs),
   v |-> Used(ch, vs)]
Look(F, filt, rd, ch, mode, vs) == LookC(Ctx(F, rd), F, filt, rd, ch, mode, vs)

---------------------------------------------------------------------------
\* Font::map_glyphs, closed form: one glyph per character that is not a selector, in text order; a
\* selector belongs to the character immediately before it; a selector after a selector or at the
\* start of the text belongs to nothing and disappears.
Out(F, filt, rd, text, mode) ==
  LET sel == Selectors(rd.rep)
      pos == SelectSeq([i \in DOMAIN text |-> i], LAMBDA i : text[i] \notin sel)
      cx  == TLCEval(Ctx(F, rd))
  IN [k \in DOMAIN pos |->
        LET i  == pos[k]
            vs == IF i < Len(text) /\ text[i + 1] \in sel THEN VsNum(text[i + 1]) ELSE 0
        IN LookC(cx, F, filt, rd, text[i], mode, vs)]

\* Font::map_glyphs, small-step: the machine reads one character per step.  State: the glyphs so far
\* and whether a selector read next attaches to the last glyph (it does exactly once, directly
\* after its character).  A selector revises the last glyph only.
M0 == [out |-> <<>>, att |-> FALSE]
Step(F, filt, rd, mode, m, ch) ==
  IF ch \in Selectors(rd.rep)
  THEN IF m.att
       THEN [out |-> [m.out EXCEPT ![Len(m.out)] = Look(F, filt, rd, m.out[Len(m.out)].c, mode, VsNum(ch))],
             att |-> FALSE]
       ELSE [out |-> m.out, att |-> FALSE]
  ELSE [out |-> Append(m.out, Look(F, filt, rd, ch, mode, 0)), att |-> TRUE]
RECURSIVE Run(_, _, _, _, _, _)
Run(F, filt, rd, mode, m, text) ==
  IF text = <<>> THEN m ELSE Run(F, filt, rd, mode, Step(F, filt, rd, mode, m, Head(text)), Tail(text))

---------------------------------------------------------------------------
\* Readings.
Rd(u, r, t, v, d) == [uvs |-> u, rep |-> r, txt |-> t, var |-> v, d |-> d]
Primary == Rd("std", "full", "outl", "plain", {})
\* the conformant readings, primary first
ReadingSeq ==
  [k \in 1 .. 16 |->
     LET j == k - 1 IN
     Rd(IF j % 2 = 0 THEN "std" ELSE "ign", IF (j \div 2) % 2 = 0 THEN "full" ELSE "five",
        IF (j \div 4) % 2 = 0 THEN "outl" ELSE "any", IF (j \div 8) % 2 = 0 THEN "plain" ELSE "pres", {})]
RdName(rd) == rd.uvs \o "/" \o rd.rep \o "/" \o rd.txt \o "/" \o rd.var
\* defect readings, for attribution: smallest sets first
Defects == <<"uvsRecordChosen", "variantNever", "brokenShadows">>
DefectSets == << {"uvsRecordChosen"}, {"variantNever"}, {"brokenShadows"},
                 {"uvsRecordChosen", "variantNever"}, {"uvsRecordChosen", "brokenShadows"},
                 {"variantNever", "brokenShadows"}, {"uvsRecordChosen", "variantNever", "brokenShadows"} >>
WithDefects(rd, D) == [rd EXCEPT !.d = D]

\* one operation on a Font: op = [k, t, m, v]
\*   k = "map"  : map_glyphs(t, script without preprocessing, m)
\*   k = "look" : lookup_glyph_index(t[1], m, v)      (v in ApiSelectors or 0)
\* the expected observation under reading rd (sequence of [c, g, v])
OpOut(F, filt, rd, op) ==
  IF op.k = "map" THEN Out(F, filt, rd, op.t, op.m)
  ELSE << Look(F, filt, rd, op.t[1], op.m, op.v) >>

\* an observation: sequence of [c (character the glyph came from), g, v, u (unicodes), x (other fields, 0)]
Matches(exp, got) ==
  /\ Len(exp) = Len(got)
  /\ \A k \in DOMAIN exp : /\ got[k].c = exp[k].c /\ got[k].g \in exp[k].g /\ got[k].v = exp[k].v
                           /\ got[k].u = <<exp[k].c>> /\ got[k].x = 0

---------------------------------------------------------------------------
\* Design lemmas (checked by MC_GlyphMap on every state it visits).
\* L1 selectors never appear in the output and every other character appears exactly once, in order
OutputChars(rd, text, out) ==
  [k \in DOMAIN out |-> out[k].c] = SelectSeq(text, LAMBDA c : c \notin Selectors(rd.rep))
\* L2 the variation is the explicit selector or the default presentation; the API can express it
\*    whenever the text uses only selectors the API knows
UsedOk(rd, text, out) ==
  \A k \in DOMAIN out : out[k].v \in {DefaultPres(out[k].c)} \cup {VsNum(c) : c \in Range(text) \cap Selectors(rd.rep)}
\* L3 Required only removes glyphs: every answer is 0 or an answer of NotRequired, same variation
RequiredRefines(F, filt, rd, text, r) ==          \* r = Out(F, filt, rd, text, "R")
  LET n == Out(F, filt, rd, text, "N")
  IN Len(r) = Len(n) /\ \A k \in DOMAIN r : r[k].v = n[k].v /\ (r[k].g = {0} \/ r[k].g = n[k].g)
\* L4 NotRequired does not look at the tables or the filter
NotRequiredIgnoresTables(F, filt, rd, text, n) == \* n = Out(F, filt, rd, text, "N")
  n = Out([F EXCEPT !.tabs = <<>>], <<>>, rd, text, "N")
\* L5 a selector at the start of the text, and the second of two selectors in a row, change nothing
StraySelectors(F, filt, rd, text, mode, out) ==   \* out = Out(F, filt, rd, text, mode)
  \A s \in {65039} :
     /\ Out(F, filt, rd, <<s>> \o text, mode) = out
     /\ (text # <<>> /\ text[Len(text)] \in Selectors(rd.rep)) => Out(F, filt, rd, text \o <<s>>, mode) = out
\* L6 a default UVS entry, or no entry, is the bare character's glyph; a non-default entry is its glyph
UvsLaw(F, rd, ch, vs) ==
  LET u == UvsLookupLin(F, ch, vs) IN
  (rd.uvs = "std" /\ HasUvsRec(F) /\ Encoding(F, rd) = "Unicode" /\ vs # 0 /\ u[1] = "non")
     \/ GlyphSet(F, rd, ch, vs) = GlyphSet(F, rd, ch, 0)
=============================================================================
