CONSTANTS
  Tier = "quick"
SPECIFICATION Spec
INVARIANTS SearchInv Agree Design Emit
CHECK_DEADLOCK FALSE
