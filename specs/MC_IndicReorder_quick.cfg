CONSTANTS
  Tier = "quick"
SPECIFICATION Spec
INVARIANTS SearchInv AtEnd
CHECK_DEADLOCK FALSE
