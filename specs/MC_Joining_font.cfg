CONSTANTS
  LenMain <- LenFont
  LenLang = 0
SPECIFICATION Spec
INVARIANTS FontFaithful Emit
CHECK_DEADLOCK FALSE
